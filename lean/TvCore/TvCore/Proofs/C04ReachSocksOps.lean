import TvCore.Proofs.C04ReachSocksFr
/-
  The stream-table invariant `AllS` across the calls that write the object table or create stream
  sockets, and the step lemma for `Good` (configuration repaired ∧ `AllOK` ∧ (panicked ∨ `AllS`)).
-/
namespace TV.C04
open TV TV.World

/-! ### release budget of an object table -/

theorem avail_append (fix : Bool) (a b : List (Nat × Obj)) (p : Pair) :
    avail fix (a ++ b) p = avail fix a p + avail fix b p := by simp [avail]

theorem avail_single (fix : Bool) (s : Nat) (o : Obj) (p : Pair) : avail fix [(s, o)] p = contrib fix o p := by
  simp [avail]

theorem filter_slot_none {o : List (Nat × Obj)} {s : Nat} (hs : slotObj o s = none) : o.filter (·.1 != s) = o :=
  List.filter_eq_self.mpr (fun x hx => by simpa using slotObj_none hs x hx)

theorem avail_filter_slot (fix : Bool) {o : List (Nat × Obj)} (hk : KeysNodup o) {s : Nat} {old : Obj}
    (hs : slotObj o s = some old) (p : Pair) :
    avail fix o p = avail fix (o.filter (·.1 != s)) p + contrib fix old p := by
  induction o with
  | nil => simp [slotObj] at hs
  | cons x xs ih =>
    have hx := List.pairwise_cons.mp hk
    by_cases e : x.1 = s
    · have hold : old = x.2 := by
        simp [slotObj, e] at hs
        exact hs.symm
      have hf : xs.filter (·.1 != s) = xs :=
        List.filter_eq_self.mpr (fun y hy => by simpa [← e] using (hx.1 y hy).symm)
      simp [e, hf, avail, hold]
      omega
    · have hs' : slotObj xs s = some old := by
        simpa [slotObj, List.find?_cons, e] using hs
      have := ih hx.2 hs'
      simp [e, avail] at this ⊢
      omega

/-- `setObj` with an object that performs at least the releases of the one it replaces. -/
theorem sok_setObj {hs : Host} (hS : SOK hs) (hk : KeysNodup hs.objs) (s : Nat) (n : Obj)
    (hp : ∀ old, slotObj hs.objs s = some old → ∀ p, contrib true old p ≤ contrib true n p) :
    SOK { hs with objs := hs.objs.filter (·.1 != s) ++ [(s, n)] } := by
  unfold SOK SocksOwned
  refine Inv.mono hS (fun sk _ => ?_)
  simp only [avail_append, avail_single]
  cases hso : slotObj hs.objs s with
  | none => rw [filter_slot_none hso]; omega
  | some old =>
    rw [avail_filter_slot true hk hso]
    have := hp old hso (pairOf sk)
    omega

theorem allS_setHost (w : World) (h : Nat) (f : Host → Host) (hS : AllS w)
    (hf : SOK (w.host! h) → SOK (f (w.host! h))) : AllS (w.setHost h f) := by
  intro i
  rw [host!_setHost_eq]
  split
  · exact hf (hS h)
  · exact hS i

theorem allS_setObj (w : World) (h s : Nat) (n : Obj) (hk : KeysNodup (w.host! h).objs) (hS : AllS w)
    (hp : ∀ old, w.getObj h s = some old → ∀ p, contrib true old p ≤ contrib true n p) : AllS (w.setObj h s n) :=
  allS_setHost w h _ hS (fun hsok => sok_setObj hsok hk s n hp)

theorem allS_setObj_same (w : World) (h s : Nat) (n old0 : Obj) (hk : KeysNodup (w.host! h).objs) (hS : AllS w)
    (hg : w.getObj h s = some old0) (hc : ∀ p, contrib true old0 p ≤ contrib true n p) : AllS (w.setObj h s n) := by
  refine allS_setObj w h s n hk hS (fun old ho => ?_)
  rw [hg] at ho
  cases ho
  exact hc

theorem allS_setObj_new (w : World) (h s : Nat) (n : Obj) (hk : KeysNodup (w.host! h).objs) (hS : AllS w)
    (hg : w.getObj h s = none) : AllS (w.setObj h s n) := by
  refine allS_setObj w h s n hk hS (fun old ho => ?_)
  rw [hg] at ho
  cases ho

theorem FrS.keys {w w' : World} (s : FrS w w') {h : Nat} (hk : KeysNodup (w.host! h).objs) : KeysNodup (w'.host! h).objs := by
  rw [s.objs_eq]; exact hk

theorem frx_setObj (w : World) (h s : Nat) (n : Obj) : FrX h w (w.setObj h s n) := frx_setHost w h _
theorem frx_delObj (w : World) (h s : Nat) : FrX h w (w.delObj h s) := frx_setHost w h _

/-! ### binds and UDP receive calls: the objects involved perform no releases -/

theorem frs_udpQueue (w : World) (h bi : Nat) (q : List (Hex × Addr)) :
    FrS w (w.setHost h fun hs => { hs with udp := setAt hs.udp bi fun b => { b with queue := q } }) :=
  frs_setHost_eq w h _ rfl rfl

theorem frs_bindPrefix (w : World) (h : Nat) (a : Addr) :
    FrS w (if (a.port == 0) = true then w.assignPort h else (some a.port, w)).2 := by
  split
  · exact frs_assignPort w h
  · exact FrS.refl w

theorem frx_opUdpBind (w : World) (h s : Nat) (a : Addr) : FrX h w (w.opUdpBind h s a).1 := by
  unfold opUdpBind
  split
  · exact FrX.refl h w
  · simp only
    have s1 := frs_bindPrefix w h a
    generalize (if (a.port == 0) = true then w.assignPort h else (some a.port, w)) = r at s1 ⊢
    split
    · exact s1.frx h
    · split
      · exact (s1.trans (frs_tag _ _)).frx h
      · exact ((s1.frx h).trans (frx_setHost _ h _)).trans (frx_setObj _ h s _)

theorem allS_opUdpBind (w : World) (h s : Nat) (a : Addr) (hok : AllOK w) (hS : AllS w) (hn : w.getObj h s = none) :
    AllS (w.opUdpBind h s a).1 := by
  unfold opUdpBind
  split
  · exact hS
  · simp only
    have s1 := frs_bindPrefix w h a
    generalize (if (a.port == 0) = true then w.assignPort h else (some a.port, w)) = r at s1 ⊢
    split
    · exact hS.frs s1
    · next p _ =>
      split
      · exact hS.frs (s1.trans (frs_tag _ _))
      · have s2 := s1.trans (frs_setHost_eq r.2 h (fun hs => { hs with udp := hs.udp ++ [{ port := p, bindAddr := { ip := a.ip, port := p } }] }) rfl rfl)
        exact allS_setObj_new _ h s _ (s2.keys (hok h).2.2) (hS.frs s2) ((s2.getObj_eq h s).trans hn)

theorem frx_opTcpBind (w : World) (h s : Nat) (a : Addr) : FrX h w (w.opTcpBind h s a).1 := by
  unfold opTcpBind
  split
  · exact FrX.refl h w
  · simp only
    have s1 := frs_bindPrefix w h a
    generalize (if (a.port == 0) = true then w.assignPort h else (some a.port, w)) = r at s1 ⊢
    split
    · exact s1.frx h
    · split
      · exact (s1.trans (frs_tag _ _)).frx h
      · exact ((s1.frx h).trans (frx_setHost _ h _)).trans (frx_setObj _ h s _)

theorem allS_opTcpBind (w : World) (h s : Nat) (a : Addr) (hok : AllOK w) (hS : AllS w) (hn : w.getObj h s = none) :
    AllS (w.opTcpBind h s a).1 := by
  unfold opTcpBind
  split
  · exact hS
  · simp only
    have s1 := frs_bindPrefix w h a
    generalize (if (a.port == 0) = true then w.assignPort h else (some a.port, w)) = r at s1 ⊢
    split
    · exact hS.frs s1
    · next p _ =>
      split
      · exact hS.frs (s1.trans (frs_tag _ _))
      · have s2 := s1.trans (frs_setHost_eq r.2 h (fun hs => { hs with tcpBinds := hs.tcpBinds ++ [{ port := p, bindAddr := { ip := a.ip, port := p } }] }) rfl rfl)
        exact allS_setObj_new _ h s _ (s2.keys (hok h).2.2) (hS.frs s2) ((s2.getObj_eq h s).trans hn)

theorem frx_opUdpTryRecv (w : World) (h s n : Nat) : FrX h w (w.opUdpTryRecv h s n).1 := by
  unfold opUdpTryRecv
  split
  · split
    · exact frx_setObj w h s _
    · split
      · exact FrX.refl h w
      · simp only
        split
        · exact FrX.refl h w
        · exact (frs_udpQueue w h _ _).frx h
  · exact FrX.refl h w

theorem allS_opUdpTryRecv (w : World) (h s n : Nat) (hok : AllOK w) (hS : AllS w) : AllS (w.opUdpTryRecv h s n).1 := by
  unfold opUdpTryRecv
  split
  · next loc stash hg =>
    split
    · exact allS_setObj_same w h s _ _ (hok h).2.2 hS hg (fun _ => Nat.le_refl _)
    · split
      · exact hS
      · simp only
        split
        · exact hS
        · exact hS.frs (frs_udpQueue w h _ _)
  · exact hS

theorem frx_opUdpReadable (w : World) (h s : Nat) : FrX h w (w.opUdpReadable h s).1 := by
  unfold opUdpReadable
  split
  · split
    · exact FrX.refl h w
    · split
      · exact FrX.refl h w
      · simp only
        split
        · exact FrX.refl h w
        · exact ((frs_udpQueue w h _ _).frx h).trans (frx_setObj _ h s _)
  · exact FrX.refl h w

theorem allS_opUdpReadable (w : World) (h s : Nat) (hok : AllOK w) (hS : AllS w) : AllS (w.opUdpReadable h s).1 := by
  unfold opUdpReadable
  split
  · next loc stash hg =>
    split
    · exact hS
    · split
      · exact hS
      · simp only
        split
        · exact hS
        · have s1 := frs_udpQueue w h ‹Nat› ‹List (Hex × Addr)›
          exact allS_setObj_same _ h s _ _ (s1.keys (hok h).2.2) (hS.frs s1) ((s1.getObj_eq h s).trans hg)
            (fun _ => Nat.le_refl _)
  · exact hS

theorem frx_opUdpRecv (w : World) (h s n : Nat) : FrX h w (w.opUdpRecv h s n).1 := by
  unfold opUdpRecv
  simp only
  split
  · exact (frx_opUdpReadable w h s).trans (frx_opUdpTryRecv _ h s n)
  · exact frx_opUdpReadable w h s

theorem allS_opUdpRecv (w : World) (h s n : Nat) (hok : AllOK w) (hS : AllS w) : AllS (w.opUdpRecv h s n).1 := by
  unfold opUdpRecv
  simp only
  split
  · exact allS_opUdpTryRecv _ h s n (allOK_opUdpReadable w h s hok) (allS_opUdpReadable w h s hok hS)
  · exact allS_opUdpReadable w h s hok hS

/-! ### TCP calls whose object keeps its releases -/

theorem frx_opTcpShutdown (w : World) (h s : Nat) : FrX h w (w.opTcpShutdown h s).1 := by
  unfold opTcpShutdown
  split
  · next rd x hg =>
    split
    · exact FrX.refl h w
    · split
      · exact FrX.refl h w
      · next i _ =>
        simp only
        have s1 := frs_setHost w h (fun hs => { hs with socks := setAt hs.socks i fun s => { s with nextSendSeq := s.nextSendSeq + 1 } })
          (ats_bumpSeq _ _)
        have s2 := s1.trans (frs_netSend _ h { src := x.loc, dst := x.rem, msg := .fin ((w.host! h).socks.getD i default).nextSendSeq })
        split
        · exact (s2.frx h).trans (frx_setObj _ h s _)
        · exact s2.frx h
  · exact FrX.refl h w

theorem allS_opTcpShutdown (w : World) (h s : Nat) (hok : AllOK w) (hS : AllS w) : AllS (w.opTcpShutdown h s).1 := by
  unfold opTcpShutdown
  split
  · next rd x hg =>
    split
    · exact hS
    · split
      · exact hS
      · next i _ =>
        simp only
        have s1 := frs_setHost w h (fun hs => { hs with socks := setAt hs.socks i fun s => { s with nextSendSeq := s.nextSendSeq + 1 } })
          (ats_bumpSeq _ _)
        have s2 := s1.trans (frs_netSend _ h { src := x.loc, dst := x.rem, msg := .fin ((w.host! h).socks.getD i default).nextSendSeq })
        split
        · exact allS_setObj_same _ h s _ _ (s2.keys (hok h).2.2) (hS.frs s2) ((s2.getObj_eq h s).trans hg)
            (fun _ => Nat.le_refl _)
        · exact hS.frs s2
  · exact hS

theorem frx_opTcpRead (w : World) (h s n : Nat) (peek : Bool) : FrX h w (w.opTcpRead h s n peek).1 := by
  unfold opTcpRead
  split
  · next r wr hg =>
    split
    · exact FrX.refl h w
    · split
      · split
        · exact FrX.refl h w
        · exact frx_setObj w h s _
      · simp only
        split
        · next seg rest _ =>
          have s1 := frs_setChan w r.chan fun c => { c with items := rest }
          split
          · next b _ =>
            simp only
            refine FrX.trans ?_ ((frs_redrain _ h r).frx h)
            have s2 : FrS w { (w.setChan r.chan fun c => { c with items := rest }) with
                fcs := setAt (w.setChan r.chan fun c => { c with items := rest }).fcs r.fc (· + 1) } :=
              s1.trans (frs_of_eq rfl rfl rfl)
            have s3 := s2.trans (frs_ite (hexLen b > n) (frs_tag _ "partialread") (FrS.refl _))
            exact (s3.frx h).trans (frx_setObj _ h s _)
          · refine FrX.trans ?_ ((frs_redrain _ h r).frx h)
            refine FrX.trans ?_ ((frs_tag _ "eof").frx h)
            exact (s1.frx h).trans (frx_setObj _ h s _)
        · split
          · exact (frs_tag _ _).frx h
          · exact FrX.refl h w
  · exact FrX.refl h w

theorem allS_opTcpRead (w : World) (h s n : Nat) (peek : Bool) (hok : AllOK w) (hS : AllS w) :
    AllS (w.opTcpRead h s n peek).1 := by
  unfold opTcpRead
  split
  · next r wr hg =>
    split
    · exact hS
    · split
      · split
        · exact hS
        · exact allS_setObj_same w h s _ _ (hok h).2.2 hS hg (fun _ => Nat.le_refl _)
      · simp only
        split
        · next seg rest _ =>
          have s1 := frs_setChan w r.chan fun c => { c with items := rest }
          split
          · next b _ =>
            simp only
            refine AllS.frs ?_ (frs_redrain _ h r)
            have s2 : FrS w { (w.setChan r.chan fun c => { c with items := rest }) with
                fcs := setAt (w.setChan r.chan fun c => { c with items := rest }).fcs r.fc (· + 1) } :=
              s1.trans (frs_of_eq rfl rfl rfl)
            have s3 := s2.trans (frs_ite (hexLen b > n) (frs_tag _ "partialread") (FrS.refl _))
            refine allS_setObj_same _ h s _ _ (s3.keys (hok h).2.2) (hS.frs s3) ((s3.getObj_eq h s).trans hg) (fun _ => ?_)
            cases peek <;> exact Nat.le_refl _
          · refine AllS.frs ?_ (frs_redrain _ h r)
            refine AllS.frs ?_ (frs_tag _ "eof")
            exact allS_setObj_same _ h s _ _ (s1.keys (hok h).2.2) (hS.frs s1) ((s1.getObj_eq h s).trans hg)
              (fun _ => Nat.le_refl _)
        · split
          · exact hS.frs (frs_tag _ _)
          · exact hS
  · exact hS

/-! ### calls that take releases away from the object table and perform them -/

theorem sok_of_hinv {w : World} {h : Nat} {n : Pair → Nat} (hI : HInv n h w)
    (ho : ∀ p, n p ≤ avail true (w.host! h).objs p) : SOK (w.host! h) :=
  Inv.mono hI (fun _ _ => ho _)

theorem len_setHost (w : World) (h : Nat) (f : Host → Host) : (w.setHost h f).hosts.length = w.hosts.length := by
  simp [setHost]

/-- the object in slot `s` is replaced by `extra` (nothing, or one object in the same slot), then the
    releases it no longer accounts for are performed. -/
theorem allS_objs_then (w W : World) (h s : Nat) (old : Obj) (extra : List (Nat × Obj)) (hok : AllOK w) (hS : AllS w)
    (hg : w.getObj h s = some old)
    (hfr : FrS (w.setHost h fun hs => { hs with objs := hs.objs.filter (·.1 != s) ++ extra }) W)
    (hrel : h < w.hosts.length →
      HInv (fun q => contrib true old q + avail true ((w.host! h).objs.filter (·.1 != s)) q) h
        (w.setHost h fun hs => { hs with objs := hs.objs.filter (·.1 != s) ++ extra }) →
      HInv (fun q => avail true ((w.host! h).objs.filter (·.1 != s) ++ extra) q) h W) : AllS W := by
  refine allS_at (h := h) ((frx_setHost w h _).trans (hfr.frx h)) hS (fun hh => ?_)
  have e1 := host!_setHost_self w h (fun hs => { hs with objs := hs.objs.filter (·.1 != s) ++ extra }) hh
  have ho : (W.host! h).objs = (w.host! h).objs.filter (·.1 != s) ++ extra := by
    rw [hfr.objs_eq, e1]
  refine sok_of_hinv (hrel hh ?_) (fun p => by rw [ho]; exact Nat.le_refl _)
  unfold HInv
  rw [e1]
  refine Inv.mono (hS h) (fun sk _ => ?_)
  rw [avail_filter_slot true (hok h).2.2 hg]
  omega

theorem frx_connectPoll (w : World) (h s : Nat) : FrX h w (w.connectPoll h s).1 := by
  unfold connectPoll
  split
  · next id loc rem chan fcW hg =>
    split
    · exact FrX.refl h w
    · exact frx_setObj w h s _
    · simp only
      refine FrX.trans ?_ ((frs_tag _ "refused").frx h)
      refine FrX.trans ((frx_delObj w h s).trans ((frs_setChan _ chan fun c => { c with rxAlive := false }).frx h)) ?_
      split
      · exact (frs_removeSock _ _ _ _).frx h
      · exact (frs_tag _ _).frx h
  · exact FrX.refl h w

theorem append_nil_objs (l : List (Nat × Obj)) : l ++ [] = l := List.append_nil l

theorem allS_connectPoll (w : World) (h s : Nat) (hfix : w.cfg.fixConnectLeak = true) (hok : AllOK w) (hS : AllS w) :
    AllS (w.connectPoll h s).1 := by
  unfold connectPoll
  split
  · next id loc rem chan fcW hg =>
    split
    · exact hS
    · refine allS_setObj_same w h s _ _ (hok h).2.2 hS hg (fun p => ?_)
      simp only [contrib]
      split <;> simp_all
    · simp only
      have hc : ((w.delObj h s).setChan chan fun c => { c with rxAlive := false }).cfg.fixConnectLeak = true := hfix
      rw [if_pos hc]
      have e0 : w.delObj h s = w.setHost h fun hs => { hs with objs := hs.objs.filter (·.1 != s) ++ [] } := by
        unfold delObj; simp only [List.append_nil]
      rw [e0]
      refine allS_objs_then w _ h s _ [] hok hS hg
        (((frs_setChan _ chan fun c => { c with rxAlive := false }).trans (frs_removeSock _ h loc rem)).trans (frs_tag _ "refused"))
        (fun hh hI => ?_)
      have hh2 : h < ((w.setHost h fun hs => { hs with objs := hs.objs.filter (·.1 != s) ++ [] }).setChan chan
          fun c => { c with rxAlive := false }).hosts.length := by
        rw [hosts_setChan, len_setHost]; exact hh
      have h2 := hinv_removeSock _ h _ loc rem hh2 ((frs_setChan _ chan fun c => { c with rxAlive := false }).hinv hI) 0
      refine (frs_tag _ "refused").hinv (Inv.mono h2 (fun sk _ => ?_))
      simp only [contrib, List.append_nil]
      split <;> simp_all
  · exact hS

theorem delObj_eq (w : World) (h s : Nat) :
    w.delObj h s = w.setHost h fun hs => { hs with objs := hs.objs.filter (·.1 != s) ++ [] } := by
  unfold delObj; simp only [List.append_nil]

theorem frx_opDrop (w : World) (h s : Nat) : FrX h w (w.opDrop h s).1 := by
  unfold opDrop
  split
  · exact (frx_delObj w h s).trans ((frs_dropObj _ h _).frx h)
  · exact FrX.refl h w

theorem allS_opDrop (w : World) (h s : Nat) (hfix : w.cfg.fixConnectLeak = true) (hok : AllOK w) (hS : AllS w) :
    AllS (w.opDrop h s).1 := by
  unfold opDrop
  split
  · next o hg =>
    simp only
    rw [delObj_eq]
    refine allS_objs_then w _ h s o [] hok hS hg (frs_dropObj _ h o) (fun hh hI => ?_)
    have hh1 : h < (w.setHost h fun hs => { hs with objs := hs.objs.filter (·.1 != s) ++ [] }).hosts.length := by
      rw [len_setHost]; exact hh
    have hc : (w.setHost h fun hs => { hs with objs := hs.objs.filter (·.1 != s) ++ [] }).cfg.fixConnectLeak = true := hfix
    have := hinv_dropObj (avail true ((w.host! h).objs.filter (·.1 != s))) h _ o hh1 (by rw [hc]; exact hI)
    simpa only [List.append_nil] using this
  · exact hS

theorem frx_opDropRead (w : World) (h s : Nat) : FrX h w (w.opDropRead h s).1 := by
  unfold opDropRead
  split
  · next r wr hg =>
    simp only
    refine FrX.trans ?_ ((frs_dropRead _ h r).frx h)
    split
    · exact frx_setObj w h s _
    · exact frx_delObj w h s
  · exact FrX.refl h w

theorem allS_opDropRead (w : World) (h s : Nat) (hok : AllOK w) (hS : AllS w) : AllS (w.opDropRead h s).1 := by
  unfold opDropRead
  split
  · next r wr hg =>
    simp only
    cases wr with
    | some x =>
      simp only
      refine allS_objs_then w _ h s _ [(s, .stream none (some x))] hok hS hg (frs_dropRead _ h r) (fun hh hI => ?_)
      have hh1 : h < (w.setHost h fun hs => { hs with objs := hs.objs.filter (·.1 != s) ++ [(s, Obj.stream none (some x))] }).hosts.length := by
        rw [len_setHost]; exact hh
      refine Inv.mono (hinv_dropRead _ h _ r hh1 hI) (fun sk _ => ?_)
      simp only [dec, contrib, avail_append, avail_single]
      split <;> simp_all <;> omega
    | none =>
      simp only
      rw [delObj_eq]
      refine allS_objs_then w _ h s _ [] hok hS hg (frs_dropRead _ h r) (fun hh hI => ?_)
      have hh1 : h < (w.setHost h fun hs => { hs with objs := hs.objs.filter (·.1 != s) ++ [] }).hosts.length := by
        rw [len_setHost]; exact hh
      refine Inv.mono (hinv_dropRead _ h _ r hh1 hI) (fun sk _ => ?_)
      simp only [dec, contrib, List.append_nil]
      split <;> simp_all
  · exact hS

theorem frx_opDropWrite (w : World) (h s : Nat) : FrX h w (w.opDropWrite h s).1 := by
  unfold opDropWrite
  split
  · next rd x hg =>
    simp only
    refine FrX.trans ?_ ((frs_dropWrite _ h x).frx h)
    split
    · exact frx_setObj w h s _
    · exact frx_delObj w h s
  · exact FrX.refl h w

theorem allS_opDropWrite (w : World) (h s : Nat) (hok : AllOK w) (hS : AllS w) : AllS (w.opDropWrite h s).1 := by
  unfold opDropWrite
  split
  · next rd x hg =>
    simp only
    cases rd with
    | some r =>
      simp only
      refine allS_objs_then w _ h s _ [(s, .stream (some r) none)] hok hS hg (frs_dropWrite _ h x) (fun hh hI => ?_)
      have hh1 : h < (w.setHost h fun hs => { hs with objs := hs.objs.filter (·.1 != s) ++ [(s, Obj.stream (some r) none)] }).hosts.length := by
        rw [len_setHost]; exact hh
      refine Inv.mono (hinv_dropWrite _ h _ x hh1 hI) (fun sk _ => ?_)
      simp only [dec, contrib, avail_append, avail_single]
      split <;> simp_all <;> omega
    | none =>
      simp only
      rw [delObj_eq]
      refine allS_objs_then w _ h s _ [] hok hS hg (frs_dropWrite _ h x) (fun hh hI => ?_)
      have hh1 : h < (w.setHost h fun hs => { hs with objs := hs.objs.filter (·.1 != s) ++ [] }).hosts.length := by
        rw [len_setHost]; exact hh
      refine Inv.mono (hinv_dropWrite _ h _ x hh1 hI) (fun sk _ => ?_)
      simp only [dec, contrib, List.append_nil]
      split <;> simp_all
  · exact hS

/-! ### the destructor sweep, registration -/

theorem frx_dropAll (w : World) (h : Nat) : FrX h w (w.dropAll h) := by
  unfold dropAll
  exact (frx_setHost w h _).trans (((frs_dropEnvs _ _).trans (frs_foldl_dropObj h _ _)).frx h)

theorem allS_dropAll (w : World) (h : Nat) (hfix : w.cfg.fixConnectLeak = true) (hS : AllS w) : AllS (w.dropAll h) := by
  refine allS_at (frx_dropAll w h) hS (fun hh => ?_)
  have ho : SocksOwned w.cfg.fixConnectLeak (w.host! h) := by rw [hfix]; exact hS h
  have e := dropAll_releases_socks h w hh ho
  unfold SOK SocksOwned
  rw [e]
  exact ⟨List.Pairwise.nil, fun _ hm => (by cases hm)⟩

theorem frx_crash (w : World) (h : Nat) : FrX h w (w.crash h) := by
  unfold crash
  refine FrX.trans ?_ (frx_setHost _ h _)
  split
  · exact frx_dropAll w h
  · exact FrX.refl h w

theorem allS_crash (w : World) (h : Nat) (hfix : w.cfg.fixConnectLeak = true) (hS : AllS w) : AllS (w.crash h) := by
  unfold crash
  refine AllS.frs ?_ (frs_setHost_eq _ h _ rfl rfl)
  split
  · exact allS_dropAll w h hfix hS
  · exact hS

theorem frx_bounce (w : World) (h : Nat) : FrX h w (w.bounce h) := by
  unfold bounce
  exact (frx_dropAll w h).trans (frx_setHost _ h _)

theorem allS_bounce (w : World) (h : Nat) (hfix : w.cfg.fixConnectLeak = true) (hS : AllS w) : AllS (w.bounce h) := by
  unfold bounce
  exact (allS_dropAll w h hfix hS).frs (frs_setHost_eq _ h _ rfl rfl)

theorem frx_exit (w : World) (h : Nat) : FrX h w ((w.dropAll h).setHost h (fun hs => { hs with exited := true })) :=
  (frx_dropAll w h).trans (frx_setHost _ h _)

theorem allS_exit (w : World) (h : Nat) (hfix : w.cfg.fixConnectLeak = true) (hS : AllS w) :
    AllS ((w.dropAll h).setHost h (fun hs => { hs with exited := true })) :=
  (allS_dropAll w h hfix hS).frs (frs_setHost_eq _ h _ rfl rfl)

theorem allS_register (w : World) (ip : Nat) (c : Bool) (hS : AllS w) : AllS (w.register ip c) := by
  intro i
  unfold register host!
  simp only
  rw [List.getD_eq_getElem?_getD]
  rcases Nat.lt_trichotomy i w.hosts.length with hlt | heq | hgt
  · rw [List.getElem?_append_left hlt]
    have := hS i
    unfold host! at this
    rwa [List.getD_eq_getElem?_getD] at this
  · subst heq
    simp only [List.getElem?_append_right (Nat.le_refl _), Nat.sub_self, List.getElem?_cons_zero, Option.getD_some]
    exact ⟨List.Pairwise.nil, fun _ hm => (by cases hm)⟩
  · rw [List.getElem?_eq_none (by simp; omega)]
    exact sok_default

theorem meta_register (w : World) (ip : Nat) (c : Bool) : Meta w (w.register ip c) := ⟨rfl, fun h => h⟩

/-! ### creating a stream socket -/

theorem inv_append_new (n : Pair → Nat) (l : List Sock) (loc rem : Addr) (c f : Nat) (hI : Inv n l)
    (hf : l.findIdx? (fun s => s.loc == loc && s.rem == rem) = none) :
    Inv (fun q => n q + if q = (loc, rem) then 2 else 0) (l ++ [{ loc := loc, rem := rem, chan := c, fcW := f }]) := by
  have hne : ∀ s ∈ l, pairOf s ≠ (loc, rem) := by
    intro s hs e
    have := List.findIdx?_eq_none_iff.mp hf s hs
    rw [(matchPair s loc rem).mpr e] at this
    exact Bool.noConfusion this
  refine ⟨?_, fun s hs => ?_⟩
  · unfold PairsNodup
    rw [List.pairwise_append]
    refine ⟨hI.1, List.pairwise_singleton _ _, fun a ha b hb => ?_⟩
    rw [List.mem_singleton.mp hb]
    exact hne a ha
  · rcases List.mem_append.mp hs with hs | hs
    · have := hI.2 s hs
      simp only [hne s hs, if_false]
      omega
    · rw [List.mem_singleton.mp hs]
      simp [pairOf]

theorem frx_newStream (w : World) (h : Nat) (loc rem : Addr) : FrX h w (w.newStream h loc rem).2 := by
  unfold newStream newChan newFcPair
  simp only
  refine FrX.trans ?_ (frx_setHost _ h _)
  refine FrX.trans (b := if (findSock (w.host! h) loc rem).isSome = true then w.panic "already connected" else w) ?_
    ((frs_of_eq rfl rfl rfl).frx h)
  exact (frs_ite _ (frs_panic _ _) (FrS.refl _)).frx h

theorem newStream_panics (w : World) (h : Nat) (loc rem : Addr) (hf : (findSock (w.host! h) loc rem).isSome = true) :
    (w.newStream h loc rem).2.panicked.isSome = true := by
  unfold newStream newChan newFcPair
  simp only [hf, if_true]
  exact panic_isSome w _

theorem hinv_newStream (w : World) (h : Nat) (loc rem : Addr) (hf : findSock (w.host! h) loc rem = none)
    (hh : h < w.hosts.length) (n : Pair → Nat) (hI : HInv n h w) :
    HInv (fun q => n q + if q = (loc, rem) then 2 else 0) h (w.newStream h loc rem).2 := by
  unfold newStream newChan newFcPair
  simp only [hf, Option.isSome_none, Bool.false_eq_true, if_false]
  unfold HInv
  rw [host!_setHost_self]
  · exact inv_append_new n _ loc rem _ _ hI hf
  · exact hh

theorem hinv_setHost_socks {w : World} {h : Nat} {n : Pair → Nat} (f : Host → Host)
    (hf : (f (w.host! h)).socks = (w.host! h).socks) (hI : HInv n h w) : HInv n h (w.setHost h f) := by
  unfold HInv
  rw [host!_setHost]
  split
  · rw [hf]; exact hI
  · exact hI

/-- an object put into an empty slot that accounts exactly for the extra budget `b`. -/
theorem sok_setObj_bump (w : World) (h s : Nat) (o : Obj) (b : Pair → Nat) (hh : h < w.hosts.length)
    (hn : w.getObj h s = none) (hb : ∀ q, b q ≤ contrib true o q)
    (hI : HInv (fun q => avail true (w.host! h).objs q + b q) h w) : SOK ((w.setObj h s o).host! h) := by
  unfold setObj
  rw [host!_setHost_self w h _ hh]
  unfold SOK SocksOwned
  refine Inv.mono hI (fun sk _ => ?_)
  simp only [avail_append, avail_single]
  rw [filter_slot_none hn]
  have := hb (pairOf sk)
  omega

def PS (w : World) : Prop := w.panicked.isSome = true ∨ AllS w

theorem conn_both (w : World) (h s : Nat) (dst : Addr) :
    FrX h w (w.opTcpConnect h s dst).1 ∧
    (w.cfg.fixConnectLeak = true → AllOK w → AllS w → w.getObj h s = none → PS (w.opTcpConnect h s dst).1) := by
  unfold opTcpConnect
  simp only
  have s1 := frs_assignPort w h
  have sh1 := sh_assignPort w h
  split
  · exact ⟨s1.frx h, fun _ _ hS _ => Or.inr (hS.frs s1)⟩
  · next p _ =>
    generalize ({ ip := if dst.ip.isLoopback = true then dst.ip else Ip.host h, port := p } : Addr) = loc
    split
    · exact ⟨(s1.trans (frs_panic _ _)).frx h, fun _ _ _ _ => Or.inl (panic_isSome _ _)⟩
    · have F1 := frx_newStream (w.assignPort h).2 h loc dst
      have F2 := newStream_panics (w.assignPort h).2 h loc dst
      have F3 := hinv_newStream (w.assignPort h).2 h loc dst
      have F5 := sh_newStream (w.assignPort h).2 h loc dst
      generalize ((w.assignPort h).2.newStream h loc dst) = ns at F1 F2 F3 F5 ⊢
      generalize (w.assignPort h).2 = w1 at s1 sh1 F1 F2 F3 F5 ⊢
      have s3 : FrS ns.2 { ns.2 with syns := ns.2.syns ++ [({} : SynCell)] } := frs_of_eq rfl rfl rfl
      have sh3 : Sh ns.2 { ns.2 with syns := ns.2.syns ++ [({} : SynCell)] } := sh_of_hosts rfl
      generalize ({ ns.2 with syns := ns.2.syns ++ [({} : SynCell)] } : World) = w3 at s3 sh3 ⊢
      have s4 := s3.trans (frs_netSend w3 h { src := loc, dst := dst, msg := .syn ns.2.syns.length })
      have sh4 := sh3.trans (sh_netSend w3 h { src := loc, dst := dst, msg := .syn ns.2.syns.length })
      generalize (w3.netSend h { src := loc, dst := dst, msg := .syn ns.2.syns.length }) = r4 at s4 sh4 ⊢
      have X4 : FrX h w r4.2 := ((s1.frx h).trans F1).trans (s4.frx h)
      split
      · -- the send failed: the entry is removed again
        have s5 := s4.trans (frs_setChan r4.2 ns.1.1 fun c => { c with rxAlive := false })
        have sT := (s5.trans (frs_ite ((r4.2.setChan ns.1.1 fun c => { c with rxAlive := false }).cfg.fixConnectLeak = true)
          (frs_removeSock _ h loc dst) (frs_tag _ "connectleak"))).trans (frs_tag _ "refused")
        refine ⟨((s1.frx h).trans F1).trans (sT.frx h), fun hfix hok hS hn => ?_⟩
        cases hf : findSock (w1.host! h) loc dst with
        | some i => exact Or.inl (sT.1.2 (F2 (by simp [hf])))
        | none =>
          refine Or.inr (allS_at (((s1.frx h).trans F1).trans (sT.frx h)) hS (fun hh => ?_))
          have hh1 : h < w1.hosts.length := by rw [s1.len]; exact hh
          have I2 := F3 hf hh1 _ (s1.hinv (hS h))
          have I5 := s5.hinv I2
          have hc : (r4.2.setChan ns.1.1 fun c => { c with rxAlive := false }).cfg.fixConnectLeak = true := by
            rw [s5.cfg_eq, F1.cfg_eq, s1.cfg_eq]; exact hfix
          have hh5 : h < (r4.2.setChan ns.1.1 fun c => { c with rxAlive := false }).hosts.length := by
            rw [s5.len, F1.len]; exact hh1
          rw [if_pos hc]
          have I6 := hinv_removeSock _ h _ loc dst hh5 I5 (avail true (w.host! h).objs (loc, dst))
          have I7 := (frs_tag _ "refused").hinv I6
          refine sok_of_hinv I7 (fun q => ?_)
          rw [((frs_removeSock _ h loc dst).trans (frs_tag _ "refused")).objs_eq, s5.objs_eq, F5.objs_eq, s1.objs_eq]
          split
          · next e => rw [e]; exact Nat.le_refl _
          · simp
      · -- the SYN is on its way: the pending connect owns the entry
        refine ⟨(X4.trans (frx_setObj _ h s _)).trans (frx_connectPoll _ h s), fun hfix hok hS hn => ?_⟩
        cases hf : findSock (w1.host! h) loc dst with
        | some i => exact Or.inl (((frx_setObj _ h s _).trans (frx_connectPoll _ h s)).1.2 (s4.1.2 (F2 (by simp [hf]))))
        | none =>
          have SH4 : Sh w r4.2 := sh1.trans (F5.trans sh4)
          have hn4 : r4.2.getObj h s = none := (SH4.getObj_eq h s).trans hn
          have hok5 := allOK_setObj_new _ h s (.connecting ns.2.syns.length loc dst ns.1.1 ns.1.2) (hok.sh SH4) hn4
          have hfix5 : (r4.2.setObj h s (.connecting ns.2.syns.length loc dst ns.1.1 ns.1.2)).cfg.fixConnectLeak = true := by
            show r4.2.cfg.fixConnectLeak = true
            rw [X4.cfg_eq]; exact hfix
          have hS5 : AllS (r4.2.setObj h s (.connecting ns.2.syns.length loc dst ns.1.1 ns.1.2)) := by
            refine allS_at (X4.trans (frx_setObj _ h s _)) hS (fun hh => ?_)
            have hh1 : h < w1.hosts.length := by rw [s1.len]; exact hh
            have I4 := s4.hinv (F3 hf hh1 _ (s1.hinv (hS h)))
            refine sok_setObj_bump r4.2 h s _ (fun q => if q = (loc, dst) then 2 else 0) (by rw [X4.len]; exact hh) hn4
              (fun q => by simp [contrib]) ?_
            rw [SH4.objs_eq]
            exact I4
          exact Or.inr (allS_connectPoll _ h s hfix5 hok5 hS5)

theorem accept_both (w : World) (h ls s : Nat) :
    FrX h w (w.opTcpAccept h ls s).1 ∧
    (w.cfg.fixConnectLeak = true → AllOK w → AllS w → w.getObj h s = none → PS (w.opTcpAccept h ls s).1) := by
  unfold opTcpAccept
  split
  · next lloc hg =>
    simp only
    have s1 := frs_acceptLoop w h lloc.port
    have sh1 := sh_acceptLoop w h lloc.port
    generalize (w.acceptLoop h lloc.port) = al at s1 sh1 ⊢
    split
    · exact ⟨s1.frx h, fun _ _ hS _ => Or.inr (hS.frs s1)⟩
    · next r _ =>
      generalize (if (if r.src.ip.isLoopback = true then { ip := r.src.ip, port := lloc.port } else lloc).ip.isUnspecified = true then
          { ip := Ip.host h, port := (if r.src.ip.isLoopback = true then { ip := r.src.ip, port := lloc.port } else lloc).port }
        else if r.src.ip.isLoopback = true then { ip := r.src.ip, port := lloc.port } else lloc : Addr) = my
      split
      · exact ⟨(s1.trans (frs_panic _ _)).frx h, fun _ _ _ _ => Or.inl (panic_isSome _ _)⟩
      · have F1 := frx_newStream al.1 h my r.src
        have F2 := newStream_panics al.1 h my r.src
        have F3 := hinv_newStream al.1 h my r.src
        have F5 := sh_newStream al.1 h my r.src
        generalize (al.1.newStream h my r.src) = ns at F1 F2 F3 F5 ⊢
        have X2 : FrX h w ns.2 := (s1.frx h).trans F1
        split
        · exact ⟨X2.trans ((frs_panic _ _).frx h), fun _ _ _ _ => Or.inl (panic_isSome _ _)⟩
        · split
          · exact ⟨X2.trans ((frs_panic _ _).frx h), fun _ _ _ _ => Or.inl (panic_isSome _ _)⟩
          · refine ⟨X2.trans (frx_setObj _ h s _), fun hfix hok hS hn => ?_⟩
            cases hf : findSock (al.1.host! h) my r.src with
            | some i => exact Or.inl ((frx_setObj _ h s _).1.2 (F2 (by simp [hf])))
            | none =>
              refine Or.inr (allS_at (X2.trans (frx_setObj _ h s _)) hS (fun hh => ?_))
              have hh1 : h < al.1.hosts.length := by rw [s1.len]; exact hh
              have SH2 : Sh w ns.2 := sh1.trans F5
              have I2 := F3 hf hh1 _ (s1.hinv (hS h))
              refine sok_setObj_bump ns.2 h s _ (fun q => if q = (my, r.src) then 2 else 0) (by rw [X2.len]; exact hh)
                ((SH2.getObj_eq h s).trans hn) (fun q => ?_) ?_
              · simp only [contrib]
                split <;> simp_all
              · rw [SH2.objs_eq]
                exact I2
  · exact ⟨FrX.refl h w, fun _ _ hS _ => Or.inr hS⟩

/-! ### every transition -/

/-- what is shown of each transition: configuration and panic flag behave, and the stream-table
    invariant is kept (or a panic is recorded). -/
def StepOK (w w' : World) : Prop :=
  Meta w w' ∧ (w.cfg.fixConnectLeak = true → AllOK w → AllS w → PS w')

theorem stepOK_frs {w w' : World} (s : FrS w w') : StepOK w w' := ⟨s.1, fun _ _ hS => Or.inr (hS.frs s)⟩
theorem stepOK_refl (w : World) : StepOK w w := stepOK_frs (FrS.refl w)
theorem stepOK_frx {h : Nat} {w w' : World} (x : FrX h w w')
    (hS : w.cfg.fixConnectLeak = true → AllOK w → AllS w → AllS w') : StepOK w w' :=
  ⟨x.1, fun hfix hok hs => Or.inr (hS hfix hok hs)⟩

theorem stepOK_applyHOp (w : World) (h : Nat) (op : HOp) : StepOK w (applyHOp w h op).1 := by
  cases op with
  | udpBind s a =>
    show StepOK w (if (w.getObj h s).isSome = true then (w, "err slotbusy") else w.opUdpBind h s a).1
    split
    · exact stepOK_refl w
    · next hb => exact stepOK_frx (frx_opUdpBind w h s a) (fun _ hok hS => allS_opUdpBind w h s a hok hS (getObj_free hb))
  | tcpBind s a =>
    show StepOK w (if (w.getObj h s).isSome = true then (w, "err slotbusy") else w.opTcpBind h s a).1
    split
    · exact stepOK_refl w
    · next hb => exact stepOK_frx (frx_opTcpBind w h s a) (fun _ hok hS => allS_opTcpBind w h s a hok hS (getObj_free hb))
  | tcpConnect s a =>
    show StepOK w (if (w.getObj h s).isSome = true then (w, "err slotbusy") else w.opTcpConnect h s a).1
    split
    · exact stepOK_refl w
    · next hb =>
      have := conn_both w h s a
      exact ⟨this.1.1, fun hfix hok hS => this.2 hfix hok hS (getObj_free hb)⟩
  | tcpAccept ls s =>
    show StepOK w (if (w.getObj h s).isSome = true then (w, "err slotbusy") else w.opTcpAccept h ls s).1
    split
    · exact stepOK_refl w
    · next hb =>
      have := accept_both w h ls s
      exact ⟨this.1.1, fun hfix hok hS => this.2 hfix hok hS (getObj_free hb)⟩
  | udpSend s a p => exact stepOK_frs (frs_opUdpSend w h s a p)
  | udpTryRecv s n => exact stepOK_frx (frx_opUdpTryRecv w h s n) (fun _ hok hS => allS_opUdpTryRecv w h s n hok hS)
  | udpRecv s n => exact stepOK_frx (frx_opUdpRecv w h s n) (fun _ hok hS => allS_opUdpRecv w h s n hok hS)
  | udpReadable s => exact stepOK_frx (frx_opUdpReadable w h s) (fun _ hok hS => allS_opUdpReadable w h s hok hS)
  | udpConnect s a => exact stepOK_frs (frs_opUdpConnect w h s a)
  | udpBcast s on => exact stepOK_frs (frs_opUdpSetBcast w h s on)
  | udpMloop s on => exact stepOK_frs (frs_opUdpSetMloop w h s on)
  | udpJoin s g i => exact stepOK_frs (frs_opUdpJoin w h s g i)
  | udpLeave s g i => exact stepOK_frs (frs_opUdpLeave w h s g i)
  | tcpCPoll s => exact stepOK_frx (frx_connectPoll w h s) (fun hfix hok hS => allS_connectPoll w h s hfix hok hS)
  | tcpWrite s p => exact stepOK_frs (frs_opTcpWrite w h s p _)
  | tcpSplit s => exact stepOK_refl w
  | tcpReunite s => exact stepOK_refl w
  | tcpPWrite s p => exact stepOK_frs (frs_opTcpWrite w h s p true)
  | tcpShutdown s => exact stepOK_frx (frx_opTcpShutdown w h s) (fun _ hok hS => allS_opTcpShutdown w h s hok hS)
  | tcpRead s n => exact stepOK_frx (frx_opTcpRead w h s n false) (fun _ hok hS => allS_opTcpRead w h s n false hok hS)
  | tcpPeek s n => exact stepOK_frx (frx_opTcpRead w h s n true) (fun _ hok hS => allS_opTcpRead w h s n true hok hS)
  | drop s => exact stepOK_frx (frx_opDrop w h s) (fun hfix hok hS => allS_opDrop w h s hfix hok hS)
  | tcpDropR s => exact stepOK_frx (frx_opDropRead w h s) (fun _ hok hS => allS_opDropRead w h s hok hS)
  | tcpDropW s => exact stepOK_frx (frx_opDropWrite w h s) (fun _ hok hS => allS_opDropWrite w h s hok hS)
  | count => exact stepOK_refl w
  | countOf a => exact stepOK_refl w
  | spawnTicker => exact stepOK_refl w
  | select4 => exact stepOK_refl w
  | exit => exact stepOK_frx (frx_exit w h) (fun hfix _ hS => allS_exit w h hfix hS)
  | net op a b => exact stepOK_frs (frs_netCtl op w a b)
  | sleep ms =>
    show StepOK w (hopSleep w h ms).1
    exact stepOK_frs (frs_hopSleep w h ms)
  | clock => exact stepOK_refl w
  | lookup name => exact stepOK_frs (frs_dnsLookup w name)
  | unknown => exact stepOK_refl w

theorem stepOK_applyStep (w : World) (st : Step) : StepOK w (applyStep w st) := by
  cases st with
  | host h op => exact stepOK_applyHOp w h op
  | register ip c => exact ⟨meta_register w ip c, fun _ _ hS => Or.inr (allS_register w ip c hS)⟩
  | dns name => exact stepOK_frs (frs_dnsLookup w name)
  | stepBegin => exact stepOK_frs (frs_stepBegin w)
  | stepEnd => exact stepOK_frs (frs_stepEnd w)
  | crash h => exact stepOK_frx (frx_crash w h) (fun hfix _ hS => allS_crash w h hfix hS)
  | bounce h => exact stepOK_frx (frx_bounce w h) (fun hfix _ hS => allS_bounce w h hfix hS)
  | link op x y => exact stepOK_frs (frs_netCtl op w x y)
  | linkPairs op xs ys => exact stepOK_frs (frs_forPairs w xs ys op.apply (fun w x y => frs_netCtl op w x y))
  | deliver x y i => exact stepOK_frs (frs_ctlDeliver w x y i)
  | deliverAll x y => exact stepOK_frs (frs_ctlDeliverAll w x y)
  | turn h => exact stepOK_frs (frs_turnStep w h)
  | loDeliver h i => exact stepOK_frs (frs_loStep w h i)

/-- the invariant of the induction over `Reach` for the stream table. -/
def Good (w : World) : Prop := w.cfg.fixConnectLeak = true ∧ AllOK w ∧ PS w

theorem good_applyStep (w : World) (st : Step) (g : Good w) : Good (applyStep w st) := by
  have so := stepOK_applyStep w st
  refine ⟨by rw [so.1.1]; exact g.1, allOK_applyStep w st g.2.1, ?_⟩
  rcases g.2.2 with hp | hS
  · exact Or.inl (so.1.2 hp)
  · exact so.2 g.1 g.2.1 hS

theorem allS_init (w0 : World) (h0 : w0.hosts = []) : AllS w0 := by
  intro i
  rw [host!_of_ge w0 i (by simp [h0])]
  exact sok_default

theorem good_init (w0 : World) (h0 : w0.hosts = []) (hfix : w0.cfg.fixConnectLeak = true) : Good w0 :=
  ⟨hfix, allOK_init w0 h0, Or.inr (allS_init w0 h0)⟩

end TV.C04
