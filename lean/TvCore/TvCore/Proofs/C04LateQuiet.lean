import TvCore.Proofs.C04LateFrame
import TvCore.Proofs.C04LateLinks
import TvCore.Proofs.C04LateSend
import TvCore.Proofs.C04LateLo
/-
  Helper lemmas for `Props/C04Late.lean`, part 5 (worlds): the link invariants hold in every world a run
  reaches, and a step that is not the down host's own performs no send from its number on any link.
-/
namespace TV.C04
open TV TV.World TV.LW

/-! ### the link invariants in every reachable world -/

def LinkOK (l : Link Env) : Prop := AllDir l ∧ QInv l

/-- every link of the world: messages travel between its end points, ready queues are sorted by end point. -/
def LinksOK (w : World) : Prop := ∀ (li : Nat) (l : Link Env), w.links[li]? = some l → LinkOK l

theorem ctlOps_dirOk (w : World) (li : Nat) (c : Nat → Nat → Ctl) (x y a b : Nat) : ∀ o ∈ ctlOps w li c x y, DirOk a b o := by
  intro o ho
  unfold ctlOps at ho
  split at ho
  · simp only [List.mem_singleton] at ho; subst ho; trivial
  · cases ho

/-- every send a step performs on a link is between the link's end points. -/
theorem stepOps_dirOk (w : World) (st : Step) (li : Nat) (l : Link Env) (ops : List GOp) (hd : AllDir l)
    (hs : StepOps w li l ops st) : ∀ o ∈ ops, DirOk l.a l.b o := by
  cases st with
  | host h hop =>
    cases hop
    case net c a b =>
      have h' : ops = ctlOps w li (ctlOf c) a b := hs
      subst h'
      exact ctlOps_dirOk w li _ a b _ _
    all_goals exact fun o ho => isSend_dirOk ((hs : Sends w l ops) o ho).1
  | crash h => exact fun o ho => isSend_dirOk ((hs : Sends w l ops) o ho).1
  | bounce h => exact fun o ho => isSend_dirOk ((hs : Sends w l ops) o ho).1
  | register ip c => have h' : ops = [] := hs; subst h'; exact fun _ ho => by cases ho
  | dns n => have h' : ops = [] := hs; subst h'; exact fun _ ho => by cases ho
  | stepEnd => have h' : ops = [] := hs; subst h'; exact fun _ ho => by cases ho
  | loDeliver a b => have h' : ops = [] := hs; subst h'; exact fun _ ho => by cases ho
  | stepBegin =>
    have h' : ops = [.tick (w.now + ceilMs w.cfg.tick)] := hs
    subst h'
    exact fun o ho => by simp only [List.mem_singleton] at ho; subst ho; trivial
  | turn h =>
    obtain ⟨replies, hq, he⟩ := hs
    subst he
    intro o ho
    split at ho
    · rcases List.mem_cons.mp ho with e | ho
      · subst e; trivial
      · refine isReply_dirOk ?_ (hq o ho).1
        intro x hx
        rcases drain_sub l _ x hx with hx | hx
        · exact hd x (Or.inr (Or.inl hx))
        · exact hd x (Or.inr (Or.inr hx))
    · cases ho
  | link op x y =>
    have h' : ops = ctlOps w li (ctlOf op) x y := hs
    subst h'
    exact ctlOps_dirOk w li _ x y _ _
  | linkPairs op xs ys =>
    have h' : ops = (pairList xs ys).flatMap (fun p => ctlOps w li (ctlOf op) p.1 p.2) := hs
    subst h'
    intro o ho
    obtain ⟨p, _, hop⟩ := List.mem_flatMap.mp ho
    exact ctlOps_dirOk w li _ p.1 p.2 _ _ o hop
  | deliver x y i =>
    have h' : ops = ctlOps w li (fun _ _ => .manual i) x y := hs
    subst h'
    exact ctlOps_dirOk w li _ x y _ _
  | deliverAll x y =>
    have h' : ops = if Touches w x y li then (List.range l.sent.length).map (fun i => GOp.ctl (.manual i)) else [] := hs
    subst h'
    intro o ho
    split at ho
    · obtain ⟨i, _, rfl⟩ := List.mem_map.mp ho; trivial
    · cases ho

/-- a link that did not exist before the step was created by `register`: it is empty. -/
theorem new_link_empty (w : World) (st : Step) (li : Nat) (l' : Link Env) (hge : w.links.length ≤ li)
    (hl' : (applyStep w st).links[li]? = some l') : l'.sent = [] ∧ l'.toA = [] ∧ l'.toB = [] := by
  have hf := step_frame w st
  cases st with
  | register ip c =>
    simp only [applyStep, register] at hl'
    rw [List.getElem?_append_right hge] at hl'
    have hm := List.mem_of_getElem? hl'
    obtain ⟨hs, _, rfl⟩ := List.mem_map.mp hm
    exact ⟨rfl, rfl, rfl⟩
  | _ =>
    have hlen := hf.leneq (by intro ip c e; cases e)
    have := (List.getElem?_eq_some_iff.mp hl').1
    omega

theorem linkOK_of_empty {l : Link Env} (h : l.sent = [] ∧ l.toA = [] ∧ l.toB = []) : LinkOK l := by
  obtain ⟨h1, h2, h3⟩ := h
  refine ⟨fun x hx => ?_, fun x hx => ?_, fun x hx => ?_⟩
  · rw [h1, h2, h3] at hx
    rcases hx with hx | hx | hx <;> cases hx
  · rw [h2] at hx; cases hx
  · rw [h3] at hx; cases hx

/-- **the link invariants are kept by every transition.** -/
theorem linksOK_step (w : World) (st : Step) (h : LinksOK w) : LinksOK (applyStep w st) := by
  intro li l' hl'
  by_cases hlt : li < w.links.length
  · obtain ⟨ops, he, hs⟩ := step_link w st li (w.links[li]) (List.getElem?_eq_getElem hlt)
    rw [he] at hl'
    cases hl'
    have h0 := h li _ (List.getElem?_eq_getElem hlt)
    exact ⟨allDir_grun _ h0.1 ops (stepOps_dirOk w st li _ ops h0.1 hs), qinv_grun _ h0.2 ops⟩
  · exact linkOK_of_empty (new_link_empty w st li l' (Nat.le_of_not_lt hlt) hl')

theorem linksOK_empty (w : World) (h : w.links = []) : LinksOK w := by
  intro li l hl; rw [h] at hl; cases hl

/-! ### the ip numbers of registered hosts -/

/-- the ip numbers of the registered hosts are pairwise different (what `Sim::host` / the DNS table
    guarantee; the model's `register` takes the number as an argument). -/
def IpsDistinct (w : World) : Prop :=
  ∀ i j, i < w.hosts.length → j < w.hosts.length → (w.host! i).ipnum = (w.host! j).ipnum → i = j

/-- hosts are never removed and never change their number: different numbers afterwards, different
    numbers before. -/
theorem ipsDistinct_of_step (w : World) (st : Step) (h : IpsDistinct (applyStep w st)) : IpsDistinct w := by
  have hp := C15.pres_applyStep w st
  intro i j hi hj e
  refine h i j (Nat.lt_of_lt_of_le hi hp.len) (Nat.lt_of_lt_of_le hj hp.len) ?_
  rw [hp.ipnum i hi, hp.ipnum j hj]
  exact e

theorem ipsDistinct_of_run (w : World) (sts : List Step) (h : IpsDistinct (run w sts)) : IpsDistinct w := by
  induction sts generalizing w with
  | nil => exact h
  | cons st sts ih => exact ipsDistinct_of_step w st (ih _ h)

/-! ### one step that is not the down host's: no send from its number -/

/-- the steps that can occur in world `w` while host `h` is down: no call of `h`'s code, no turn of `h`,
    no delivery by a loopback task of `h`, no `bounce h`; turns are turns of registered hosts. -/
def SilentAt (h : Nat) (w : World) : Step → Prop
  | .host g _ => g ≠ h
  | .turn g => g ≠ h ∧ g < w.hosts.length
  | .loDeliver g _ => g ≠ h
  | .bounce g => g ≠ h
  | _ => True

theorem SilentAt.silent {h : Nat} {w : World} {st : Step} (hs : SilentAt h w st) : Silent h st := by
  cases st <;> first | exact hs | exact hs.1 | trivial

def GOp.isEnq : GOp → Prop
  | .enq _ _ _ _ _ _ => True
  | _ => False

theorem notFrom_of_noEnq {n : Nat} {o : GOp} (h : ¬ GOp.isEnq o) : NotFrom n o := by
  cases o <;> first | trivial | exact absurd trivial h

theorem ctlOps_notFrom (w : World) (li : Nat) (c : Nat → Nat → Ctl) (x y n : Nat) : ∀ o ∈ ctlOps w li c x y, NotFrom n o := by
  intro o ho
  unfold ctlOps at ho
  split at ho
  · simp only [List.mem_singleton] at ho; subst ho; trivial
  · cases ho

theorem notFrom_of_qs {m n a b : Nat} {o : GOp} (hne : m ≠ n) (h : QS m a b o) : NotFrom n o := by
  cases o with
  | enq cf cr d s t e =>
    have : s = m := h.2
    show s ≠ n
    rw [this]; exact hne
  | _ => trivial

/-- the number to use for the sends of host `g ≠ h`: its own if it is registered. -/
theorem exists_num (w : World) (h g : Nat) (hd : IpsDistinct w) (hh : h < w.hosts.length) (hne : g ≠ h) :
    ∃ m, m ≠ (w.host! h).ipnum ∧ Num g m w := by
  by_cases hg : g < w.hosts.length
  · exact ⟨(w.host! g).ipnum, fun e => hne (hd g h hg hh e), fun _ => rfl⟩
  · exact ⟨(w.host! h).ipnum + 1, by omega, fun hlt => absurd hlt hg⟩

theorem sends_of_lrq {m : Nat} {w w' : World} {li : Nat} {l : Link Env} (h : LR (QS m) li w w') (hl : w.links[li]? = some l) :
    ∃ ops, w'.links[li]? = some (grun w.cfg.link l ops).1 ∧ Sends w l ops ∧ ∀ o ∈ ops, SrcIs m o := by
  obtain ⟨ops, hq, he⟩ := h.link l hl
  exact ⟨ops, he, fun o ho => ⟨(hq o ho).1.1, (hq o ho).2⟩, fun o ho => (hq o ho).1.2⟩

theorem notFrom_of_srcIs {m n : Nat} {o : GOp} (hne : m ≠ n) (h : SrcIs m o) : NotFrom n o := by
  cases o with
  | enq cf cr d s t e =>
    have : s = m := h
    show s ≠ n
    rw [this]; exact hne
  | _ => trivial

/-- **One step while host `h` is down, link by link**: link `li` of the next world is link `li` of this
    world after a list of link operations (`StepOps`, as in `LW.step_link`) NONE of which is a send from
    `h`'s ip number.  Hypotheses on the world: the link invariants, the local-address invariant, pairwise
    different ip numbers — all three hold in every world a run from a reachable world reaches. -/
theorem step_link_quiet (w : World) (st : Step) (li : Nat) (l : Link Env) (hl : w.links[li]? = some l)
    (h : Nat) (hlk : LinkOK l) (hloc : LocOK w) (hd : IpsDistinct w) (hh : h < w.hosts.length)
    (hdown : (w.host! h).running = false) (hs : SilentAt h w st) :
    ∃ ops, (applyStep w st).links[li]? = some (grun w.cfg.link l ops).1 ∧ StepOps w li l ops st ∧
      ∀ o ∈ ops, NotFrom (w.host! h).ipnum o := by
  cases st with
  | host g hop =>
    have hne : g ≠ h := hs
    rcases hop_net_cases hop with ⟨c, a, b, rfl⟩ | hnet
    · exact ⟨_, (lx_netCtl c w a b li).link l hl, rfl, ctlOps_notFrom w li _ a b _⟩
    · obtain ⟨m, hm, hn⟩ := exists_num w h g hd hh hne
      obtain ⟨ops, he, hsend, hsrc⟩ := sends_of_lrq (lrq_applyHOp (li := li) m w g hop hnet hn (hloc g)) hl
      refine ⟨ops, he, ?_, fun o ho => notFrom_of_srcIs hm (hsrc o ho)⟩
      cases hop
      case net c a b => exact absurd rfl (hnet c a b)
      all_goals exact hsend
  | turn g =>
    obtain ⟨hne, hg⟩ : g ≠ h ∧ g < w.hosts.length := hs
    obtain ⟨ops, he, hst⟩ := step_link w (.turn g) li l hl
    refine ⟨ops, he, hst, ?_⟩
    obtain ⟨replies, hq, hops⟩ := hst
    subst hops
    have hnum : (w.host! g).ipnum ≠ (w.host! h).ipnum := fun e => hne (hd g h hg hh e)
    intro o ho
    split at ho
    · rcases List.mem_cons.mp ho with e | ho
      · subst e; trivial
      · cases o with
        | enq cf cr d s t e =>
          obtain ⟨x, hx, rfl, _, _⟩ := (hq _ ho).1
          show x.dst ≠ (w.host! h).ipnum
          rw [drain_dst hlk.1 hlk.2 _ x hx]
          exact hnum
        | _ => trivial
    · cases ho
  | crash g =>
    by_cases hgh : g = h
    · subst hgh
      have e := (crash_down_host w g hdown).1
      have hc : core (w.crash g) = core w := by rw [e]; exact core_setHost _ _ _
      refine ⟨[], ?_, (fun _ ho => nomatch ho), (fun _ ho => nomatch ho)⟩
      show (w.crash g).links[li]? = _
      rw [core_links hc]; exact hl
    · obtain ⟨m, hm, hn⟩ := exists_num w h g hd hh hgh
      obtain ⟨ops, he, hsend, hsrc⟩ := sends_of_lrq (lrq_crash (li := li) m w g hn (hloc g)) hl
      exact ⟨ops, he, hsend, fun o ho => notFrom_of_srcIs hm (hsrc o ho)⟩
  | bounce g =>
    have hne : g ≠ h := hs
    obtain ⟨m, hm, hn⟩ := exists_num w h g hd hh hne
    obtain ⟨ops, he, hsend, hsrc⟩ := sends_of_lrq (lrq_bounce (li := li) m w g hn (hloc g)) hl
    exact ⟨ops, he, hsend, fun o ho => notFrom_of_srcIs hm (hsrc o ho)⟩
  | loDeliver g i =>
    obtain ⟨ops, he, hst⟩ := step_link w (.loDeliver g i) li l hl
    have h' : ops = [] := hst
    subst h'
    exact ⟨[], he, rfl, fun _ ho => by cases ho⟩
  | register ip c =>
    obtain ⟨ops, he, hst⟩ := step_link w (.register ip c) li l hl
    have h' : ops = [] := hst
    subst h'
    exact ⟨[], he, rfl, fun _ ho => by cases ho⟩
  | dns name =>
    obtain ⟨ops, he, hst⟩ := step_link w (.dns name) li l hl
    have h' : ops = [] := hst
    subst h'
    exact ⟨[], he, rfl, fun _ ho => by cases ho⟩
  | stepEnd =>
    obtain ⟨ops, he, hst⟩ := step_link w .stepEnd li l hl
    have h' : ops = [] := hst
    subst h'
    exact ⟨[], he, rfl, fun _ ho => by cases ho⟩
  | stepBegin =>
    obtain ⟨ops, he, hst⟩ := step_link w .stepBegin li l hl
    have h' : ops = [.tick (w.now + ceilMs w.cfg.tick)] := hst
    subst h'
    exact ⟨_, he, rfl, fun o ho => by simp only [List.mem_singleton] at ho; subst ho; trivial⟩
  | link op x y =>
    exact ⟨_, (lx_netCtl op w x y li).link l hl, rfl, ctlOps_notFrom w li _ x y _⟩
  | linkPairs op xs ys =>
    obtain ⟨ops, he, hst⟩ := step_link w (.linkPairs op xs ys) li l hl
    have h' : ops = (pairList xs ys).flatMap (fun p => ctlOps w li (ctlOf op) p.1 p.2) := hst
    subst h'
    refine ⟨_, he, rfl, fun o ho => ?_⟩
    obtain ⟨p, _, hop⟩ := List.mem_flatMap.mp ho
    exact ctlOps_notFrom w li _ p.1 p.2 _ o hop
  | deliver x y i =>
    obtain ⟨ops, he, hst⟩ := step_link w (.deliver x y i) li l hl
    have h' : ops = ctlOps w li (fun _ _ => .manual i) x y := hst
    subst h'
    exact ⟨_, he, rfl, ctlOps_notFrom w li _ x y _⟩
  | deliverAll x y =>
    obtain ⟨ops, he, hst⟩ := step_link w (.deliverAll x y) li l hl
    have h' : ops = if Touches w x y li then (List.range l.sent.length).map (fun i => GOp.ctl (.manual i)) else [] := hst
    subst h'
    refine ⟨_, he, rfl, fun o ho => ?_⟩
    split at ho
    · obtain ⟨i, _, rfl⟩ := List.mem_map.mp ho; trivial
    · cases ho

/-! ### the run -/

/-- the world invariants used above. -/
structure WorldOK (w : World) : Prop where
  loc : LocOK w
  links : LinksOK w

theorem worldOK_step (w : World) (st : Step) (h : WorldOK w) : WorldOK (applyStep w st) :=
  ⟨locOK_applyStep w st h.loc, linksOK_step w st h.links⟩

theorem worldOK_init (w0 : World) (h0 : w0.hosts = []) (hl : w0.links = []) : WorldOK w0 :=
  ⟨locOK_init w0 h0, linksOK_empty w0 hl⟩

/-- **no message from a down host appears on any link**: over a run of steps none of which is the host's
    own, every message with the host's ip number as its source that is on a link at the end was on that
    link at the beginning (up to its delivery status); a link created during the run carries none. -/
theorem quiet_run (h : Nat) (sts : List Step) (w : World) (hok : WorldOK w) (hh : h < w.hosts.length)
    (hdown : (w.host! h).running = false) (hq : ∀ p ∈ trail w sts, SilentAt h p.1 p.2) (hd : IpsDistinct (run w sts)) :
    ∀ (li : Nat) (l' : Link Env), (run w sts).links[li]? = some l' → ∀ x, OnLink l' x → x.src = (w.host! h).ipnum →
      ∃ l, w.links[li]? = some l ∧ Old l x := by
  induction sts generalizing w with
  | nil => intro li l' hl' x hx _; exact ⟨l', hl', Old.of_on hx⟩
  | cons st sts ih =>
    intro li l' hl' x hx hsrc
    rw [run_cons] at hl' hd
    have hs : SilentAt h w st := hq (w, st) (by simp [trail])
    obtain ⟨d1, d2, _, d4⟩ := down_step w st h hh hdown hs.silent
    have hnum : ((applyStep w st).host! h).ipnum = (w.host! h).ipnum := d1.fields.2.2.2.2.2.2.1
    have hdw : IpsDistinct w := ipsDistinct_of_step w st (ipsDistinct_of_run _ sts hd)
    obtain ⟨l1, hl1, hold1⟩ := ih (applyStep w st) (worldOK_step w st hok) d4 d2
      (fun p hp => hq p (by simp [trail, hp])) hd li l' hl' x hx (by rw [hnum]; exact hsrc)
    by_cases hlt : li < w.links.length
    · have hl0 := List.getElem?_eq_getElem hlt
      obtain ⟨ops, he, _, hnf⟩ := step_link_quiet w st li _ hl0 h (hok.links li _ hl0) hok.loc hdw hh hdown hs
      rw [he] at hl1
      cases hl1
      obtain ⟨x1, hx1, e1⟩ := hold1
      have hs1 : x1.src = (w.host! h).ipnum := (noStatus_fields e1).1.trans hsrc
      obtain ⟨x0, hx0, e0⟩ := keeps_grun _ _ _ ops hnf hx1 hs1
      exact ⟨_, hl0, x0, hx0, e0.trans e1⟩
    · have := new_link_empty w st li l1 (Nat.le_of_not_lt hlt) hl1
      obtain ⟨x1, hx1, _⟩ := hold1
      rw [OnLink, this.1, this.2.1, this.2.2] at hx1
      rcases hx1 with hx1 | hx1 | hx1 <;> cases hx1

/-! ### helpers for the host-level statements and the examples -/

instance (h : Nat) (w : World) (st : Step) : Decidable (SilentAt h w st) := by
  cases st <;> simp only [SilentAt] <;> infer_instance

theorem ipsDistinct_of_nodup (w : World) (h : (w.hosts.map (·.ipnum)).Nodup) : IpsDistinct w := by
  intro i j hi hj e
  have hi' : i < (w.hosts.map (·.ipnum)).length := by simpa using hi
  have hj' : j < (w.hosts.map (·.ipnum)).length := by simpa using hj
  refine (List.getElem_inj (h₀ := hi') (h₁ := hj') h).mp ?_
  unfold host! at e
  simp only [List.getD_eq_getElem?_getD, List.getElem?_eq_getElem hi, List.getElem?_eq_getElem hj, Option.getD_some] at e
  simpa using e

/-- registered hosts stay registered and keep their ip number. -/
theorem ipnum_run (w : World) (sts : List Step) (i : Nat) (hi : i < w.hosts.length) :
    i < (run w sts).hosts.length ∧ ((run w sts).host! i).ipnum = (w.host! i).ipnum := by
  induction sts generalizing w with
  | nil => exact ⟨hi, rfl⟩
  | cons st sts ih =>
    rw [run_cons]
    have hp := C15.pres_applyStep w st
    obtain ⟨a, b⟩ := ih (applyStep w st) (Nat.lt_of_lt_of_le hi hp.len)
    exact ⟨a, b.trans (hp.ipnum i hi)⟩

/-- every entry of the trail is a step of the run together with the world the prefix before it leads to. -/
theorem trail_split (w : World) (sts : List Step) (p : World × Step) (hp : p ∈ trail w sts) :
    ∃ pre post, sts = pre ++ p.2 :: post ∧ p.1 = run w pre := by
  induction sts generalizing w with
  | nil => cases hp
  | cons st sts ih =>
    simp only [trail, List.mem_cons] at hp
    rcases hp with rfl | hp
    · exact ⟨[], sts, rfl, rfl⟩
    · obtain ⟨pre, post, e1, e2⟩ := ih (applyStep w st) hp
      exact ⟨st :: pre, post, by rw [e1]; rfl, by rw [e2]; rfl⟩

/-- while `h` is down no host with `h`'s ip number takes a turn (the registered hosts have pairwise
    different numbers, and turns are turns of registered hosts other than `h`). -/
theorem silent_noTurn (w : World) (sts : List Step) (h : Nat) (hh : h < w.hosts.length)
    (hq : ∀ p ∈ trail w sts, SilentAt h p.1 p.2) (hd : IpsDistinct (run w sts)) :
    ∀ p ∈ trail w sts, ∀ g, p.2 = .turn g → (p.1.host! g).ipnum ≠ (w.host! h).ipnum := by
  intro p hp g hg
  obtain ⟨pre, post, e1, e2⟩ := trail_split w sts p hp
  have hs := hq p hp
  rw [hg] at hs
  obtain ⟨hne, hgl⟩ : g ≠ h ∧ g < p.1.hosts.length := hs
  have hdp : IpsDistinct p.1 := by
    apply ipsDistinct_of_run p.1 (p.2 :: post)
    rw [e2, ← run_append, ← e1]
    exact hd
  obtain ⟨hhp, hnum⟩ := ipnum_run w pre h hh
  rw [← e2] at hhp hnum
  rw [← hnum]
  exact fun e => hne (hdp g h hgl hhp e)

/-! ### the loopback queues hold only their own host's envelopes -/

/-- every envelope waiting in a host's loopback queue carries a source address of that host. -/
def LoOK (w : World) : Prop := ∀ g, ∀ e ∈ (w.host! g).lo, OwnIp g e.src

theorem lo_afterOther (w : World) (st : Step) (hs : Host) : (afterOther w st hs).lo = hs.lo := by
  cases st <;> rfl

/-- a host index that was not registered before a controller / clock step has an empty queue after it. -/
theorem lo_new_host (w : World) (st : Step) (i : Nat) (ha : Step.actor st = none) (hi : w.hosts.length ≤ i) :
    ((applyStep w st).host! i).lo = [] := by
  have hdef : ∀ W : World, W.hosts.length ≤ i → (W.host! i).lo = [] := by
    intro W hW; rw [host!_of_ge W i hW]; rfl
  cases st with
  | register ip c =>
    rcases Nat.lt_or_ge w.hosts.length i with hlt | hge
    · exact hdef _ (by simp [applyStep, register]; omega)
    · have : i = w.hosts.length := Nat.le_antisymm hge hi
      subst this
      show ((w.register ip c).host! w.hosts.length).lo = []
      rw [C05.host!_register_new]
  | stepEnd => exact hdef _ (by simp [applyStep, stepEnd]; exact hi)
  | dns name => exact hdef _ hi
  | stepBegin => exact hdef _ hi
  | link op x y => exact hdef _ (by rw [hosts_of_noActor w (.link op x y) rfl rfl rfl]; exact hi)
  | linkPairs op xs ys => exact hdef _ (by rw [hosts_of_noActor w (.linkPairs op xs ys) rfl rfl rfl]; exact hi)
  | deliver x y j => exact hdef _ (by rw [hosts_of_noActor w (.deliver x y j) rfl rfl rfl]; exact hi)
  | deliverAll x y => exact hdef _ (by rw [hosts_of_noActor w (.deliverAll x y) rfl rfl rfl]; exact hi)
  | host g op => cases ha
  | turn g => cases ha
  | loDeliver g j => cases ha
  | crash g => cases ha
  | bounce g => cases ha

/-- what a step of actor `g` adds to `g`'s own loopback queue carries `g`'s source address. -/
theorem log_actor (w : World) (st : Step) (g : Nat) (ha : Step.actor st = some g) (hl : HostLoc g (w.host! g)) :
    LoG g w (applyStep w st) := by
  cases st with
  | host h op => cases ha; exact log_applyHOp g w op hl
  | turn h => cases ha; exact log_turnStep g w
  | loDeliver h i => cases ha; exact log_loStep g w i
  | crash h => cases ha; exact log_crash g w hl
  | bounce h => cases ha; exact log_bounce g w hl
  | _ => cases ha

/-- **the loopback invariant is kept by every transition** (given the local-address invariant). -/
theorem loOK_applyStep (w : World) (st : Step) (hloc : LocOK w) (h : LoOK w) : LoOK (applyStep w st) := by
  intro i e he
  cases ha : Step.actor st with
  | some g =>
    by_cases hig : i = g
    · subst hig
      rcases log_actor w st i ha (hloc i) e he with h1 | h1
      · exact h i e h1
      · exact h1
    · rw [host_of_others w (applyStep w st) g i (only_actor w st g ha) hig] at he
      exact h i e he
  | none =>
    by_cases hi : i < w.hosts.length
    · rw [(host!_step_other w st i hi (by rw [ha]; exact fun e => nomatch e)).1, lo_afterOther] at he
      exact h i e he
    · rw [lo_new_host w st i ha (Nat.le_of_not_lt hi)] at he
      cases he

theorem loOK_init (w0 : World) (h0 : w0.hosts = []) : LoOK w0 := by
  intro g e he
  rw [host!_of_ge w0 g (by simp [h0])] at he
  cases he

end TV.C04
