import TvCore.Proofs.C09WorldOps
/-
  C09 end to end, part 5 — the delivering steps: what `Host::receive_from_network`, a host's turn
  (`Topology::deliver_messages`) and a loopback delivery do to the hosts, as far as UDP is concerned
  (`hview`: host number, loopback queue, UDP bind table of every host).
-/
namespace TV.C09
open TV TV.World TV.C04 TV.LW

/-! ### lists -/

theorem map_setAt_comm_at {α β : Type} (l : List α) (i : Nat) (f : α → α) (v : α → β) (g : β → β) (d : α)
    (h : v (f (l.getD i d)) = g (v (l.getD i d))) : (setAt l i f).map v = setAt (l.map v) i g := by
  induction l generalizing i with
  | nil => rfl
  | cons x xs ih =>
    cases i with
    | zero => simp only [setAt, List.map_cons]; rw [show v (f x) = g (v x) from h]
    | succ k => simp only [setAt, List.map_cons]; rw [ih k (by simpa using h)]

theorem setAt_id' {α : Type} (l : List α) (i : Nat) : setAt l i (fun x => x) = l := by
  induction l generalizing i with
  | nil => rfl
  | cons x xs ih => cases i with
    | zero => rfl
    | succ k => simp only [setAt]; rw [ih k]

theorem setAt_congr {α : Type} (l : List α) (i : Nat) (f g : α → α) (h : ∀ x, f x = g x) : setAt l i f = setAt l i g := by
  rw [show f = g from funext h]

/-! ### views -/

/-- host number, loopback queue, UDP bind table. -/
abbrev HV := Nat × List Env × List UdpBind

def viewOf (hs : Host) : HV := (hs.ipnum, hs.lo, hs.udp)

theorem hview_eq (w : World) : hview w = w.hosts.map viewOf := rfl

/-- one envelope handed to a host, on its view. -/
def vput (cap : Nat) (e : Env) (v : HV) : HV := (v.1, v.2.1, udpPut cap v.2.2 e)

/-- a list of envelopes handed to a host, in order, on its view. -/
def vputs (cap : Nat) (es : List Env) (v : HV) : HV := (v.1, v.2.1, tableAfter cap v.2.2 es)

theorem vputs_nil (cap : Nat) (v : HV) : vputs cap [] v = v := rfl

theorem vputs_append (cap : Nat) (xs ys : List Env) (v : HV) : vputs cap (xs ++ ys) v = vputs cap ys (vputs cap xs v) := by
  unfold vputs tableAfter
  rw [List.foldl_append]

theorem vputs_cons (cap : Nat) (e : Env) (es : List Env) (v : HV) : vputs cap (e :: es) v = vputs cap es (vput cap e v) := rfl

theorem udpPut_nonudp (cap : Nat) (u : List UdpBind) (e : Env) (he : isUdp e = false) : udpPut cap u e = u := by
  unfold udpPut
  unfold isUdp at he
  split
  · rename_i p hm; rw [hm] at he; cases he
  · rfl

theorem vput_nonudp (cap : Nat) (e : Env) (he : isUdp e = false) (v : HV) : vput cap e v = v := by
  unfold vput; rw [udpPut_nonudp cap _ e he]

/-- `udpReceive` changes nothing of a host but its bind table. -/
theorem udpReceive_frame (cap : Nat) (hs : Host) (src dst : Addr) (p : Hex) :
    (udpReceive cap hs src dst p).1 = { hs with udp := (udpReceive cap hs src dst p).1.udp } := by
  unfold udpReceive
  cases hs.udp.findIdx? (fun b => b.port == dst.port) with
  | none => rfl
  | some bi =>
    simp only
    generalize hs.udp.getD bi default = b
    unfold udpReceiveAt
    repeat' split
    all_goals rfl

theorem viewOf_udpReceive (cap : Nat) (hs : Host) (e : Env) (p : Hex) (hm : e.msg = .udp p) :
    viewOf (udpReceive cap hs e.src e.dst p).1 = vput cap e (viewOf hs) := by
  rw [udpReceive_frame]
  unfold viewOf vput udpPut
  simp only [hm]
  rw [(udpReceive_congr cap hs (tableHost hs.udp) e.src e.dst p rfl).2]

theorem hview_of_hosts {w w' : World} (h : w'.hosts = w.hosts) : hview w' = hview w := by unfold hview; rw [h]

theorem hview_setHost_at (w : World) (h : Nat) (f : Host → Host) (g : HV → HV)
    (hf : viewOf (f (w.host! h)) = g (viewOf (w.host! h))) : hview (w.setHost h f) = setAt (hview w) h g :=
  map_setAt_comm_at w.hosts h f viewOf g default hf

theorem hview_setHost_same (w : World) (h : Nat) (f : Host → Host) (hf : ∀ hs, viewOf (f hs) = viewOf hs) :
    hview (w.setHost h f) = hview w := by
  rw [hview_setHost_at w h f (fun x => x) (hf _), setAt_id']

theorem hview_tag (w : World) (t : String) : hview (w.tag t) = hview w := hview_of_hosts (hosts_tag w t)
theorem hview_panic (w : World) (t : String) : hview (w.panic t) = hview w := hview_of_hosts (hosts_panic w t)

theorem hview_dropSyn (w : World) (id : Nat) : hview (w.dropSyn id) = hview w := rfl
theorem hview_setChan (w : World) (c : Nat) (f : Chan → Chan) : hview (w.setChan c f) = hview w := rfl

theorem hview_removeSock (w : World) (h : Nat) (loc rem : Addr) : hview (w.removeSock h loc rem) = hview w := by
  unfold removeSock
  split
  · rfl
  · rw [hview_setChan, hview_setHost_same w h _ (by intro; rfl)]

theorem hview_sockBuffer (w : World) (h i seq : Nat) (seg : Seg) : hview (w.sockBuffer h i seq seg).2 = hview w := by
  unfold sockBuffer
  simp only
  rw [hview_setChan, hview_setHost_same _ h _ (by intro; rfl)]
  repeat' split
  all_goals simp only [hview_tag, hview_panic]

/-- **`Host::receive_from_network`, on the views**: a UDP envelope is `udpReceive` on the receiving host's
    bind table; nothing else changes any host number, loopback queue or UDP table. -/
theorem receive_view (w : World) (h : Nat) (e : Env) :
    hview (w.receive h e).2 = setAt (hview w) h (vput w.cfg.udpCap e) ∧ (w.receive h e).2.cfg = w.cfg := by
  refine ⟨?_, core_cfg (core_receive w h e)⟩
  cases hm : e.msg with
  | udp p =>
    rw [receive_udp w h e p hm]
    have h1 : hview (w.setHost h (fun _ => (udpReceive w.cfg.udpCap (w.host! h) e.src e.dst p).1)) =
        setAt (hview w) h (vput w.cfg.udpCap e) :=
      hview_setHost_at w h _ _ (viewOf_udpReceive w.cfg.udpCap (w.host! h) e p hm)
    simp only
    split
    · exact h1
    · rw [hview_tag]; exact h1
  | _ =>
    have hn : isUdp e = false := by unfold isUdp; rw [hm]
    have hid : setAt (hview w) h (vput w.cfg.udpCap e) = hview w := by
      rw [setAt_congr _ _ _ (fun x => x) (vput_nonudp _ e hn), setAt_id']
    rw [hid]
    unfold receive
    simp only [hm]
    repeat' split
    all_goals
      try simp only [hview_tag, hview_panic, hview_removeSock, hview_sockBuffer, hview_dropSyn]
    all_goals
      try (rw [hview_setHost_same _ h _ (by intro; rfl)]
           try simp only [hview_panic])

/-! ### a host's turn -/

theorem replyStep_view (h lj : Nat) (W : World) (s : Sent Env) :
    hview (replyStep h lj W s) = setAt (hview W) h (vput W.cfg.udpCap s.msg) ∧ (replyStep h lj W s).cfg = W.cfg := by
  obtain ⟨h1, h2⟩ := receive_view W h s.msg
  unfold replyStep
  split
  · exact ⟨(hview_of_hosts (hosts_linkEnqueue _ _ _ _ _)).trans h1, (cfg_linkEnqueue _ _ _ _ _).trans h2⟩
  · exact ⟨h1, h2⟩

theorem replies_view (h lj : Nat) (msgs : List (Sent Env)) (W : World) :
    hview (msgs.foldl (replyStep h lj) W) = setAt (hview W) h (vputs W.cfg.udpCap (msgs.map (·.msg))) ∧
    (msgs.foldl (replyStep h lj) W).cfg = W.cfg := by
  induction msgs generalizing W with
  | nil => exact ⟨by rw [List.map_nil, setAt_congr _ _ _ (fun x => x) (vputs_nil _), setAt_id']; rfl, rfl⟩
  | cons s ms ih =>
    obtain ⟨h1, h2⟩ := replyStep_view h lj W s
    obtain ⟨i1, i2⟩ := ih (replyStep h lj W s)
    simp only [List.foldl_cons, List.map_cons]
    refine ⟨?_, i2.trans h2⟩
    rw [i1, h1, C12.setAt_setAt, h2]
    exact setAt_congr _ _ _ _ (fun v => (vputs_cons _ _ _ v).symm)

theorem dIter_view (h n : Nat) (out : List Env) (W : World) (lj : Nat) :
    ∃ extra, (dIter h n (out, W) lj).1 = out ++ extra ∧
      hview (dIter h n (out, W) lj).2 = setAt (hview W) h (vputs W.cfg.udpCap extra) ∧
      (dIter h n (out, W) lj).2.cfg = W.cfg := by
  unfold dIter
  cases hl : W.links[lj]? with
  | none =>
    refine ⟨[], by simp, ?_, rfl⟩
    simp only
    rw [setAt_congr _ _ _ (fun x => x) (vputs_nil _), setAt_id']
  | some l =>
    simp only
    obtain ⟨h1, h2⟩ := replies_view h lj (l.drain n).2 { W with links := setAt W.links lj (fun _ => (l.drain n).1) }
    exact ⟨(l.drain n).2.map (fun (x : Sent Env) => x.msg), rfl, h1, h2⟩

theorem outer_view (h n : Nat) (idxs : List Nat) (out : List Env) (W : World) :
    ∃ extra, (idxs.foldl (dIter h n) (out, W)).1 = out ++ extra ∧
      hview (idxs.foldl (dIter h n) (out, W)).2 = setAt (hview W) h (vputs W.cfg.udpCap extra) ∧
      (idxs.foldl (dIter h n) (out, W)).2.cfg = W.cfg := by
  induction idxs generalizing out W with
  | nil =>
    refine ⟨[], by simp, ?_, rfl⟩
    simp only [List.foldl_nil]
    rw [setAt_congr _ _ _ (fun x => x) (vputs_nil _), setAt_id']
  | cons j rest ih =>
    obtain ⟨e1, d1, d2, d3⟩ := dIter_view h n out W j
    simp only [List.foldl_cons]
    rcases hr : dIter h n (out, W) j with ⟨out1, W1⟩
    rw [hr] at d1 d2 d3
    simp only at d1 d2 d3
    obtain ⟨e2, i1, i2, i3⟩ := ih out1 W1
    refine ⟨e1 ++ e2, by rw [i1, d1, List.append_assoc], ?_, i3.trans d3⟩
    rw [i2, d2, C12.setAt_setAt, d3]
    exact setAt_congr _ _ _ _ (fun v => (vputs_append _ _ _ v).symm)

/-- **`Topology::deliver_messages`, on the views**: host `h`'s bind table is `udpReceive` folded over the
    envelopes handed over, in order; no other host number, loopback queue or UDP table changes. -/
theorem deliverTo_view (w : World) (h : Nat) :
    hview (w.deliverTo h).2 = setAt (hview w) h (vputs w.cfg.udpCap (w.deliverTo h).1) ∧ (w.deliverTo h).2.cfg = w.cfg := by
  rw [deliverTo_eq]
  obtain ⟨extra, h1, h2, h3⟩ := outer_view h (w.host! h).ipnum (adjIdx w (w.host! h).ipnum) [] w
  rw [List.nil_append] at h1
  rw [h1]
  exact ⟨h2, h3⟩

theorem viewOf_hostTurnBegin (A : Nat) (hs : Host) : viewOf (hostTurnBegin A hs) = viewOf hs := by
  unfold hostTurnBegin
  simp only
  repeat' split
  all_goals rfl

theorem turnStep_view (w : World) (h : Nat) :
    hview (turnStep w h).2 = setAt (hview w) h (vputs w.cfg.udpCap (turnStep w h).1) ∧ (turnStep w h).2.cfg = w.cfg := by
  obtain ⟨h1, h2⟩ := deliverTo_view (w.turnBegin h) h
  have hb : hview (w.turnBegin h) = hview w := hview_setHost_same w h _ (viewOf_hostTurnBegin _)
  rw [hb] at h1
  exact ⟨h1, h2⟩

/-! ### a loopback delivery -/

theorem loStep_view (w : World) (h i : Nat) :
    hview (loStep w h i).1 =
      setAt (hview w) h (fun v => vput w.cfg.udpCap ((w.host! h).lo.getD i default) (v.1, v.2.1.eraseIdx i, v.2.2)) ∧
    (loStep w h i).1.cfg = w.cfg := by
  have h0 : hview (w.setHost h (fun hs => { hs with lo := hs.lo.eraseIdx i })) =
      setAt (hview w) h (fun v => (v.1, v.2.1.eraseIdx i, v.2.2)) := hview_setHost_at w h _ _ rfl
  obtain ⟨h1, h2⟩ := receive_view (w.setHost h (fun hs => { hs with lo := hs.lo.eraseIdx i })) h ((w.host! h).lo.getD i default)
  rw [h0, C12.setAt_setAt] at h1
  unfold loStep
  simp only
  split
  · obtain ⟨g1, g2⟩ := receive_view
      ((w.setHost h (fun hs => { hs with lo := hs.lo.eraseIdx i })).receive h ((w.host! h).lo.getD i default)).2 h
      { src := ((w.host! h).lo.getD i default).dst, dst := ((w.host! h).lo.getD i default).src, msg := .rst }
    refine ⟨?_, g2.trans h2⟩
    simp only
    rw [g1, setAt_congr _ _ _ (fun x => x) (vput_nonudp _ _ rfl), setAt_id']
    exact h1
  · exact ⟨h1, h2⟩

/-! ### from views to hosts -/

theorem viewOf_default : viewOf (default : Host) = (default, [], []) := rfl

theorem view_host (w : World) (i : Nat) : viewOf (w.host! i) = (hview w).getD i (default, [], []) := by
  unfold host! hview
  simp only [List.getD_eq_getElem?_getD, List.getElem?_map]
  cases w.hosts[i]? <;> rfl

/-- reading a view equation host by host. -/
theorem host_of_view {w w' : World} (h : Nat) (g : HV → HV) (hv : hview w' = setAt (hview w) h g) (i : Nat) :
    viewOf (w'.host! i) = if i = h ∧ h < w.hosts.length then g (viewOf (w.host! h)) else viewOf (w.host! i) := by
  rw [view_host, view_host, view_host, hv]
  have hlen : (hview w).length = w.hosts.length := by simp [hview]
  split
  · next c =>
    obtain ⟨rfl, hh⟩ := c
    exact setAt_getD _ _ _ _ (by rw [hlen]; exact hh)
  · next c =>
    by_cases e : i = h
    · subst e
      have : ¬ i < w.hosts.length := fun hh => c ⟨rfl, hh⟩
      rw [setAt_of_ge _ _ _ (by rw [hlen]; omega)]
    · exact getD_setAt_ne _ _ _ _ _ e

theorem udpPut_nil (cap : Nat) (e : Env) : udpPut cap [] e = [] := by
  unfold udpPut
  split
  · rfl
  · rfl

theorem tableAfter_nil (cap : Nat) (es : List Env) : tableAfter cap [] es = [] := by
  unfold tableAfter
  induction es with
  | nil => rfl
  | cons e es ih => simp only [List.foldl_cons, udpPut_nil]; exact ih

theorem hosts_length_of_view {w w' : World} (h : Nat) (g : HV → HV) (hv : hview w' = setAt (hview w) h g) :
    w'.hosts.length = w.hosts.length := by
  have := congrArg List.length hv
  simpa [hview] using this

end TV.C09
