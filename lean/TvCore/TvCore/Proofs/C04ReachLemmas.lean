import TvCore.Model.Step
import TvCore.Props.C04Own
import TvCore.Props.WorldLinks
/-
  Helper lemmas for `Props/C04Reach.lean`: the ownership invariant of the bind tables
  (`BindsOwned`, together with "slot keys of the object table are unique") is kept by every
  transition of `applyStep`.

  Method.  `Shrink a b` says host state `b` has the same socket objects as `a` and no bind-table
  port that `a` does not have; `Sh w w'` says so for every host index.  Almost every function of
  the model is `Sh` (it never touches `objs`, and touches the bind tables only by rewriting an entry
  in place), and `Sh` keeps the invariant.  The few places that write `objs` or add / remove binds
  (`setObj`, `delObj`, the two bind calls, the destructors) are treated one by one.
-/
namespace TV.C04
open TV TV.World

/-! ### the invariant -/

def uports (hs : Host) : List Nat := hs.udp.map (·.port)
def tports (hs : Host) : List Nat := hs.tcpBinds.map (·.port)

/-- slot keys are unique in the object table. -/
def KeysNodup (o : List (Nat × Obj)) : Prop := o.Pairwise (fun a b => a.1 ≠ b.1)

def OKs (u t : List Nat) (o : List (Nat × Obj)) : Prop :=
  (∀ p ∈ u, ∃ x ∈ o, udpPortOf x.2 = some p) ∧ (∀ p ∈ t, ∃ x ∈ o, lisPortOf x.2 = some p) ∧ KeysNodup o

def HostOK (hs : Host) : Prop := OKs (uports hs) (tports hs) hs.objs

/-- the invariant carried through the induction over `Reach`: for every host index (indices past the
    end read the default host, whose tables are empty). -/
def AllOK (w : World) : Prop := ∀ i, HostOK (w.host! i)

theorem HostOK.bindsOwned {hs : Host} (h : HostOK hs) : BindsOwned hs :=
  ⟨fun b hb => h.1 b.port (List.mem_map.mpr ⟨b, hb, rfl⟩), fun b hb => h.2.1 b.port (List.mem_map.mpr ⟨b, hb, rfl⟩)⟩

theorem hostOK_default : HostOK (default : Host) :=
  ⟨fun _ h => (by cases h), fun _ h => (by cases h), List.Pairwise.nil⟩

theorem allOK_mem {w : World} (h : AllOK w) : ∀ hs ∈ w.hosts, HostOK hs := by
  intro hs hm
  obtain ⟨i, hi, rfl⟩ := List.mem_iff_getElem.mp hm
  have := h i
  unfold host! at this
  rwa [List.getD_eq_getElem?_getD, List.getElem?_eq_getElem hi] at this

/-! ### `host!` after `setHost` -/

theorem getD_setAt_ne {α : Type} (l : List α) (i j : Nat) (f : α → α) (d : α) (h : j ≠ i) :
    (setAt l i f).getD j d = l.getD j d := by
  rw [List.getD_eq_getElem?_getD, List.getD_eq_getElem?_getD, WorldLinks.getElem?_setAt_ne _ _ _ _ h]

theorem host!_setHost_eq (w : World) (h : Nat) (f : Host → Host) (i : Nat) :
    (w.setHost h f).host! i = if i = h ∧ h < w.hosts.length then f (w.host! h) else w.host! i := by
  by_cases e : i = h
  · subst e
    rw [host!_setHost]
    by_cases hl : i < w.hosts.length <;> simp [hl]
  · simp only [e, false_and, if_false]
    unfold host! setHost
    exact getD_setAt_ne _ _ _ _ _ e

theorem host!_of_ge (w : World) (i : Nat) (h : w.hosts.length ≤ i) : w.host! i = default := by
  unfold host!
  rw [List.getD_eq_getElem?_getD, List.getElem?_eq_none h]
  rfl

theorem map_setAt {α β : Type} (l : List α) (i : Nat) (f : α → α) (g : α → β) (hg : ∀ x, g (f x) = g x) :
    (setAt l i f).map g = l.map g := by
  induction l generalizing i with
  | nil => rfl
  | cons x xs ih => cases i <;> simp [setAt, hg, ih]

/-! ### `Shrink` / `Sh` -/

def Shrink (a b : Host) : Prop :=
  b.objs = a.objs ∧ (∀ p ∈ uports b, p ∈ uports a) ∧ (∀ p ∈ tports b, p ∈ tports a)

theorem Shrink.refl (a : Host) : Shrink a a := ⟨rfl, fun _ h => h, fun _ h => h⟩
theorem Shrink.trans {a b c : Host} (h1 : Shrink a b) (h2 : Shrink b c) : Shrink a c :=
  ⟨h2.1.trans h1.1, fun p hp => h1.2.1 p (h2.2.1 p hp), fun p hp => h1.2.2 p (h2.2.2 p hp)⟩
theorem Shrink.of_eq {a b : Host} (ho : b.objs = a.objs) (hu : b.udp = a.udp) (ht : b.tcpBinds = a.tcpBinds) :
    Shrink a b := by
  refine ⟨ho, ?_, ?_⟩
  · unfold uports; rw [hu]; exact fun _ h => h
  · unfold tports; rw [ht]; exact fun _ h => h
theorem Shrink.of_ports {a b : Host} (ho : b.objs = a.objs) (hu : uports b = uports a) (ht : tports b = tports a) :
    Shrink a b := by
  refine ⟨ho, ?_, ?_⟩
  · rw [hu]; exact fun _ h => h
  · rw [ht]; exact fun _ h => h

theorem HostOK.shrink {a b : Host} (h : HostOK a) (s : Shrink a b) : HostOK b := by
  unfold HostOK
  rw [s.1]
  exact ⟨fun p hp => h.1 p (s.2.1 p hp), fun p hp => h.2.1 p (s.2.2 p hp), h.2.2⟩

def Sh (w w' : World) : Prop := w'.hosts.length = w.hosts.length ∧ ∀ i, Shrink (w.host! i) (w'.host! i)

theorem Sh.refl (w : World) : Sh w w := ⟨rfl, fun _ => Shrink.refl _⟩
theorem Sh.trans {a b c : World} (h1 : Sh a b) (h2 : Sh b c) : Sh a c :=
  ⟨h2.1.trans h1.1, fun i => (h1.2 i).trans (h2.2 i)⟩
theorem Sh.len {w w' : World} (h : Sh w w') : w'.hosts.length = w.hosts.length := h.1
theorem Sh.objs_eq {w w' : World} (h : Sh w w') (i : Nat) : (w'.host! i).objs = (w.host! i).objs := (h.2 i).1
theorem Sh.getObj_eq {w w' : World} (h : Sh w w') (i s : Nat) : w'.getObj i s = w.getObj i s := by
  unfold World.getObj; rw [h.objs_eq]

theorem AllOK.sh {w w' : World} (h : AllOK w) (s : Sh w w') : AllOK w' := fun i => (h i).shrink (s.2 i)

theorem sh_of_hosts {w w' : World} (e : w'.hosts = w.hosts) : Sh w w' := by
  unfold Sh host!; rw [e]; exact ⟨rfl, fun _ => Shrink.refl _⟩

theorem sh_setHost (w : World) (h : Nat) (f : Host → Host) (hf : Shrink (w.host! h) (f (w.host! h))) :
    Sh w (w.setHost h f) := by
  refine ⟨by simp [setHost], fun i => ?_⟩
  rw [host!_setHost_eq]
  split
  · next c => obtain ⟨rfl, _⟩ := c; exact hf
  · exact Shrink.refl _

theorem sh_tag (w : World) (t : String) : Sh w (w.tag t) := sh_of_hosts (hosts_tag w t)
theorem sh_panic (w : World) (t : String) : Sh w (w.panic t) := sh_of_hosts (hosts_panic w t)
theorem sh_ite {w a b : World} (c : Prop) [Decidable c] (ha : Sh w a) (hb : Sh w b) : Sh w (if c then a else b) := by
  split <;> assumption
theorem sh_foldl {α : Type} (f : World → α → World) (hf : ∀ w x, Sh w (f w x)) (l : List α) (w : World) :
    Sh w (l.foldl f w) := by
  induction l generalizing w with
  | nil => exact Sh.refl w
  | cons x xs ih => exact (hf w x).trans (ih _)

end TV.C04
