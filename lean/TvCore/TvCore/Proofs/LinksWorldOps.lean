import TvCore.Proofs.LinksWorldDefs
/-
  World ⟶ Link refinement: every function of the World model that host calls, destructors, loopback
  deliveries and the step clock are made of either leaves `core` (configuration, link table, oracle,
  topology clock) alone, or is a sequence of `Link.enqueue`s on links found through `findLink`
  (`LR IsSend`).
-/
namespace TV.LW
open TV TV.World

/-- an `enqueue` between the two end points of the link (either direction). -/
def IsSend (a b : Nat) : GOp → Prop
  | .enq _ _ _ s t _ => (s = a ∧ t = b) ∨ (s = b ∧ t = a)
  | _ => False

/-! ### the oracle pops -/

/-- same links / configuration / clock, oracle a suffix. -/
def Aux (w w1 : World) : Prop := w1.links = w.links ∧ w1.cfg = w.cfg ∧ w1.now = w.now ∧ w1.oracle <:+ w.oracle

theorem Aux.refl (w : World) : Aux w w := ⟨rfl, rfl, rfl, List.suffix_refl _⟩
theorem Aux.trans {a b c : World} (h1 : Aux a b) (h2 : Aux b c) : Aux a c :=
  ⟨h2.1.trans h1.1, h2.2.1.trans h1.2.1, h2.2.2.1.trans h1.2.2.1, h2.2.2.2.trans h1.2.2.2⟩

theorem aux_popFail (w : World) : Aux w w.popFail.2 := by
  unfold popFail
  split
  · rename_i b r hr
    exact ⟨rfl, rfl, rfl, by rw [hr]; exact List.suffix_cons _ _⟩
  · exact ⟨rfl, rfl, rfl, List.suffix_refl _⟩

theorem aux_popRepair (w : World) : Aux w w.popRepair.2 := by
  unfold popRepair
  split
  · rename_i r hr
    exact ⟨rfl, rfl, rfl, by rw [hr]; exact List.suffix_cons _ _⟩
  · exact Aux.refl w

theorem aux_popDelay (w : World) : Aux w w.popDelay.2 := by
  unfold popDelay
  split
  · rename_i dl r hr
    exact ⟨rfl, rfl, rfl, by rw [hr]; exact List.suffix_cons _ _⟩
  · exact ⟨rfl, rfl, rfl, List.suffix_refl _⟩

theorem aux_of_core {w w' : World} (h : core w' = core w) : Aux w w' :=
  ⟨core_links h, core_cfg h, core_now h, by rw [core_oracle h]; exact List.suffix_refl _⟩

/-- **`Link::enqueue_message` on link `li`** is `Link.enqueue` on that link with the coins and the
    delay the oracle supplies (the failure coin is the head of the oracle queue), and touches nothing
    else of `core`. -/
theorem linkEnqueue_spec (w : World) (li s d : Nat) (e : Env) (l : Link Env) (hl : w.links[li]? = some l) :
    ∃ cr dl, (w.linkEnqueue li s d e).links =
        setAt w.links li (fun _ => (l.enqueue w.cfg.link w.popFail.1 cr dl s d e).1) ∧
      (w.linkEnqueue li s d e).cfg = w.cfg ∧ (w.linkEnqueue li s d e).now = w.now ∧
      (w.linkEnqueue li s d e).oracle <:+ w.oracle := by
  unfold linkEnqueue
  simp only [hl]
  have h1 := aux_popFail w
  rcases hpf : w.popFail with ⟨cf, w1⟩
  rw [hpf] at h1
  simp only at h1 ⊢
  have h2 : Aux w1 (if l.wantsRepairCoin cf = true then w1.popRepair else (false, w1)).2 := by
    split
    · exact aux_popRepair w1
    · exact Aux.refl w1
  rcases hpr : (if l.wantsRepairCoin cf = true then w1.popRepair else (false, w1)) with ⟨cr, w2⟩
  rw [hpr] at h2
  simp only at h2 ⊢
  have h3 : Aux w2 (if (Link.randStep w2.cfg.link l cf cr).1.wantsDelay s d = true then w2.popDelay else (0, w2)).2 := by
    split
    · exact aux_popDelay w2
    · exact Aux.refl w2
  rcases hpd : (if (Link.randStep w2.cfg.link l cf cr).1.wantsDelay s d = true then w2.popDelay else (0, w2)) with ⟨dl, w3⟩
  rw [hpd] at h3
  simp only at h3 ⊢
  have h123 := (h1.trans h2).trans h3
  have hc2 : w2.cfg = w.cfg := (h1.trans h2).2.1
  refine ⟨cr, dl, ?_⟩
  have key : ∀ W : World, core W = core { w3 with links := setAt w3.links li (fun _ =>
      ((Link.randStep w2.cfg.link l cf cr).1.enqueueRaw dl s d e).1.processDeliverables) } →
      W.links = setAt w.links li (fun _ => (l.enqueue w.cfg.link cf cr dl s d e).1) ∧ W.cfg = w.cfg ∧ W.now = w.now ∧
        W.oracle <:+ w.oracle := by
    intro W hW
    refine ⟨?_, ?_, ?_, ?_⟩
    · rw [core_links hW]
      simp only [h123.1, hc2]
      rfl
    · rw [core_cfg hW]; exact h123.2.1
    · rw [core_now hW]; exact h123.2.2.1
    · rw [core_oracle hW]; exact h123.2.2.2
  apply key
  rw [core_dropEnvs]
  cases ((Link.randStep w2.cfg.link l cf cr).1.enqueueRaw dl s d e).2 <;> simp only <;> split <;> simp

/-! ### `LR` for the sending primitives -/

variable {li : Nat}

theorem lr_linkEnqueue_gen (Q : Nat → Nat → GOp → Prop) (w : World) (lj s d : Nat) (e : Env)
    (hQ : ∀ l, w.links[lj]? = some l → ∀ cf cr dl, Q l.a l.b (.enq cf cr dl s d e)) :
    LR Q li w (w.linkEnqueue lj s d e) := by
  cases hl : w.links[lj]? with
  | none =>
    have : w.linkEnqueue lj s d e = w := by unfold linkEnqueue; simp only [hl]
    rw [this]; exact LR.refl w
  | some l =>
    obtain ⟨cr, dl, hlinks, hcfg, hnow, hora⟩ := linkEnqueue_spec w lj s d e l hl
    refine ⟨hcfg, hnow, hora, by rw [hlinks, setAt_length], ?_⟩
    intro l0 hl0
    by_cases hij : li = lj
    · subst hij
      rw [hl] at hl0
      cases hl0
      refine ⟨[.enq w.popFail.1 cr dl s d e], ?_, ?_⟩
      · intro o ho
        simp only [List.mem_singleton] at ho
        subst ho
        exact ⟨hQ l hl _ _ _, fun hn => (C09.noFail_popFail w hn).1⟩
      · rw [hlinks, C03Sets.getElem?_setAt_self, hl, grun_single]
        rfl
    · refine ⟨[], by simp, ?_⟩
      rw [hlinks, WorldLinks.getElem?_setAt_ne _ _ _ _ hij, hl0]
      rfl

theorem lr_linkEnqueue (w : World) (lj s d : Nat) (e : Env)
    (hdir : ∀ l, w.links[lj]? = some l → (s = l.a ∧ d = l.b) ∨ (s = l.b ∧ d = l.a)) :
    LR IsSend li w (w.linkEnqueue lj s d e) :=
  lr_linkEnqueue_gen IsSend w lj s d e (fun l hl _ _ _ => hdir l hl)

/-- the link `findLink` returns joins exactly that pair. -/
theorem findLink_ends (w : World) (s d lj : Nat) (l : Link Env) (hf : w.findLink s d = some lj)
    (hl : w.links[lj]? = some l) : l.a = min s d ∧ l.b = max s d := by
  unfold findLink at hf
  obtain ⟨hlt, hp, _⟩ := List.findIdx?_eq_some_iff_getElem.mp hf
  rw [List.getElem?_eq_getElem hlt] at hl
  cases hl
  simpa using hp

theorem findLink_dir (w : World) (s d lj : Nat) (l : Link Env) (hne : s ≠ d) (hf : w.findLink s d = some lj)
    (hl : w.links[lj]? = some l) : (s = l.a ∧ d = l.b) ∨ (s = l.b ∧ d = l.a) := by
  obtain ⟨ha, hb⟩ := findLink_ends w s d lj l hf hl
  rw [ha, hb]
  rcases Nat.lt_or_gt_of_ne hne with h | h
  · left; omega
  · right; omega

theorem lr_sendMessage (w : World) (e : Env) : LR IsSend li w (w.sendMessage e).2 := by
  unfold sendMessage
  split
  · rename_i s d _ _
    split
    · exact LR.of_core (core_dropEnvs _ _)
    · rename_i hsd
      split
      · rename_i lj hf
        exact lr_linkEnqueue w lj s d e (fun l hl => findLink_dir w s d lj l (by simpa using hsd) hf hl)
      · exact LR.of_core (core_dropEnvs _ _)
  · exact LR.of_core (core_dropEnvs _ _)

@[simp] theorem core_sendLoopback (w : World) (h : Nat) (e : Env) : core (w.sendLoopback h e) = core w := by
  unfold sendLoopback; simp

theorem lr_netSend (w : World) (h : Nat) (e : Env) : LR IsSend li w (w.netSend h e).2 := by
  unfold netSend
  split
  · exact LR.of_core (core_sendLoopback w h e)
  · exact lr_sendMessage w e

/-! ### functions that leave `core` alone -/

@[simp] theorem core_assignPort (w : World) (h : Nat) : core (w.assignPort h).2 = core w := by
  unfold assignPort
  simp only
  split <;> split <;> simp

@[simp] theorem core_removeSock (w : World) (h : Nat) (loc rem : Addr) : core (w.removeSock h loc rem) = core w := by
  unfold removeSock
  split <;> simp

@[simp] theorem core_closeStreamHalf (w : World) (h : Nat) (loc rem : Addr) :
    core (w.closeStreamHalf h loc rem) = core w := by
  unfold closeStreamHalf
  simp only
  split <;> simp

@[simp] theorem core_newStream (w : World) (h : Nat) (loc rem : Addr) : core (w.newStream h loc rem).2 = core w := by
  unfold newStream newChan newFcPair
  simp only [core_setHost]
  split
  · show core (w.panic "already connected") = core w
    simp
  · rfl

@[simp] theorem core_sockBuffer (w : World) (h i seq : Nat) (seg : Seg) : core (w.sockBuffer h i seq seg).2 = core w := by
  unfold sockBuffer
  simp only [core_setChan, core_setHost]
  repeat' split
  all_goals simp

@[simp] theorem core_receive (w : World) (h : Nat) (e : Env) : core (w.receive h e).2 = core w := by
  unfold receive
  simp only
  repeat' split
  all_goals simp

@[simp] theorem core_loReceive (w : World) (h : Nat) (e : Env) : core (w.loReceive h e) = core w := by
  unfold loReceive
  simp only
  split <;> simp

/-! ### destructors -/

@[simp] theorem core_mgLeaveAll (w : World) (m : Addr) : core (w.mgLeaveAll m) = core w := rfl

@[simp] theorem core_udpUnbind (w : World) (h port : Nat) : core (w.udpUnbind h port) = core w := by
  unfold udpUnbind
  simp only [core_setHost]
  split <;> simp

@[simp] theorem core_tcpUnbind (w : World) (h port : Nat) : core (w.tcpUnbind h port) = core w := by
  unfold tcpUnbind
  split
  · simp
  · simp only
    rw [core_foldl (fun (w : World) (s : SynReq) => w.dropSyn s.id) (fun w s => core_dropSyn w s.id)]
    simp

theorem lr_dropRead (w : World) (h : Nat) (r : RdH) : LR IsSend li w (w.dropRead h r) := by
  unfold dropRead
  simp only
  refine LR.trans (LR.of_core (core_setChan w r.chan _)) (LR.ite _ ?_ (LR.of_core (core_closeStreamHalf _ _ _ _)))
  exact ((lr_netSend _ h _).trans (LR.of_core (core_removeSock _ _ _ _))).tag _

theorem lr_dropWrite (w : World) (h : Nat) (x : WrH) : LR IsSend li w (w.dropWrite h x) := by
  unfold dropWrite
  refine LR.trans ?_ (LR.of_core (core_closeStreamHalf _ _ _ _))
  split
  · split
    · exact (LR.of_core (core_setHost _ _ _)).trans (lr_netSend _ _ _)
    · exact LR.refl w
  · exact LR.refl w

theorem lr_dropObj (w : World) (h : Nat) (o : Obj) : LR IsSend li w (w.dropObj h o) := by
  unfold dropObj
  cases o with
  | udp loc stash => exact LR.of_core (by simp)
  | listener loc => exact LR.of_core (by simp)
  | connecting id loc rem chan fcW =>
    simp only
    split
    · exact LR.of_core (by simp; rfl)
    · exact LR.of_core (by simp; rfl)
  | stream rd wr =>
    simp only
    have h1 : LR IsSend li w (match rd with | some r => w.dropRead h r | none => w) := by
      cases rd with
      | some r => exact lr_dropRead w h r
      | none => exact LR.refl w
    cases wr with
    | some x => exact h1.trans (lr_dropWrite _ h x)
    | none => exact h1

theorem lr_dropAll (w : World) (h : Nat) : LR IsSend li w (w.dropAll h) := by
  unfold dropAll
  simp only
  refine LR.trans (LR.of_core ?_) (LR.foldl _ (fun (w : World) (p : Nat × Obj) => lr_dropObj w h p.2) _ _)
  simp

theorem lr_crash (w : World) (h : Nat) : LR IsSend li w (w.crash h) := by
  unfold crash
  refine LR.trans ?_ (LR.of_core (core_setHost _ _ _))
  split
  · exact lr_dropAll w h
  · exact LR.refl w

theorem lr_bounce (w : World) (h : Nat) : LR IsSend li w (w.bounce h) := by
  unfold bounce
  exact (lr_dropAll w h).trans (LR.of_core (core_setHost _ _ _))

/-! ### host calls -/

theorem core_ite_snd {α : Type} (c : Prop) [Decidable c] (w : World) (a b : α × World)
    (ha : core a.2 = core w) (hb : core b.2 = core w) : core (if c then a else b).2 = core w := by
  split <;> assumption

@[simp] theorem core_opUdpBind (w : World) (h s : Nat) (a : Addr) : core (w.opUdpBind h s a).1 = core w := by
  unfold opUdpBind
  split
  · rfl
  · simp only
    have s1 : core (if (a.port == 0) = true then w.assignPort h else (some a.port, w)).2 = core w :=
      core_ite_snd _ _ _ _ (core_assignPort w h) rfl
    generalize (if (a.port == 0) = true then w.assignPort h else (some a.port, w)) = r at s1 ⊢
    split
    · exact s1
    · split <;> simp [s1]

@[simp] theorem core_opTcpBind (w : World) (h s : Nat) (a : Addr) : core (w.opTcpBind h s a).1 = core w := by
  unfold opTcpBind
  split
  · rfl
  · simp only
    have s1 : core (if (a.port == 0) = true then w.assignPort h else (some a.port, w)).2 = core w :=
      core_ite_snd _ _ _ _ (core_assignPort w h) rfl
    generalize (if (a.port == 0) = true then w.assignPort h else (some a.port, w)) = r at s1 ⊢
    split
    · exact s1
    · split <;> simp [s1]

theorem lr_udpFanout (h : Nat) (src : Addr) (p : Hex) (loopOk : Addr → Bool) (ds : List Addr) (w : World) :
    LR IsSend li w (udpFanout w h src p loopOk ds).1 := by
  induction ds generalizing w with
  | nil => exact LR.refl w
  | cons d ds ih =>
    unfold udpFanout
    split
    · refine LR.trans ?_ (ih _)
      split
      · exact LR.of_core (core_sendLoopback _ _ _)
      · exact LR.refl w
    · simp only
      split
      · exact (lr_sendMessage _ _).trans (ih _)
      · exact lr_sendMessage _ _

theorem lr_opUdpSend (w : World) (h s : Nat) (dst : Addr) (p : Hex) : LR IsSend li w (w.opUdpSend h s dst p).1 := by
  unfold opUdpSend
  simp only
  repeat' split
  all_goals first
    | exact LR.refl w
    | exact (LR.of_core (core_tag w _)).trans (lr_udpFanout _ _ _ _ _ _)
    | exact lr_netSend _ _ _

@[simp] theorem core_opUdpTryRecv (w : World) (h s n : Nat) : core (w.opUdpTryRecv h s n).1 = core w := by
  unfold opUdpTryRecv
  split
  · split
    · simp
    · split
      · rfl
      · simp only
        generalize UdpBind.queue (List.getD _ _ _) = q
        cases q with
        | nil => rfl
        | cons x rest => simp
  · rfl

@[simp] theorem core_opUdpReadable (w : World) (h s : Nat) : core (w.opUdpReadable h s).1 = core w := by
  unfold opUdpReadable
  split
  · split
    · rfl
    · split
      · rfl
      · simp only
        generalize UdpBind.queue (List.getD _ _ _) = q
        cases q with
        | nil => rfl
        | cons x rest => simp
  · rfl

@[simp] theorem core_opUdpRecv (w : World) (h s n : Nat) : core (w.opUdpRecv h s n).1 = core w := by
  unfold opUdpRecv
  simp only
  split <;> simp

@[simp] theorem core_opUdpConnect (w : World) (h s : Nat) (dst : Addr) : core (w.opUdpConnect h s dst).1 = core w := by
  unfold opUdpConnect; split <;> simp
@[simp] theorem core_opUdpSetBcast (w : World) (h s : Nat) (on : Bool) : core (w.opUdpSetBcast h s on).1 = core w := by
  unfold opUdpSetBcast; split <;> simp
@[simp] theorem core_opUdpSetMloop (w : World) (h s : Nat) (on : Bool) : core (w.opUdpSetMloop h s on).1 = core w := by
  unfold opUdpSetMloop; split <;> simp
@[simp] theorem core_opUdpJoin (w : World) (h s : Nat) (g iface : Ip) : core (w.opUdpJoin h s g iface).1 = core w := by
  unfold opUdpJoin
  repeat' split
  all_goals rfl
@[simp] theorem core_opUdpLeave (w : World) (h s : Nat) (g iface : Ip) : core (w.opUdpLeave h s g iface).1 = core w := by
  unfold opUdpLeave
  simp only
  repeat' split
  all_goals rfl

@[simp] theorem core_connectPoll (w : World) (h s : Nat) : core (w.connectPoll h s).1 = core w := by
  unfold connectPoll
  repeat' split
  all_goals simp
  exact core_ite _ (by simp) (by simp)

theorem lr_opTcpConnect (w : World) (h s : Nat) (dst : Addr) : LR IsSend li w (w.opTcpConnect h s dst).1 := by
  unfold opTcpConnect
  simp only
  have s1 : LR IsSend li w (w.assignPort h).2 := LR.of_core (core_assignPort w h)
  split
  · exact s1
  · next p _ =>
    generalize ({ ip := if dst.ip.isLoopback = true then dst.ip else Ip.host h, port := p } : Addr) = loc
    split
    · exact s1.trans (LR.of_core (core_panic _ _))
    · have s2 := s1.trans (LR.of_core (Q := IsSend) (li := li) (core_newStream (w.assignPort h).2 h loc dst))
      generalize ((w.assignPort h).2.newStream h loc dst) = ns at s2 ⊢
      have s3 : LR IsSend li w { ns.2 with syns := ns.2.syns ++ [({} : SynCell)] } := s2.trans (LR.of_core rfl)
      generalize ({ ns.2 with syns := ns.2.syns ++ [({} : SynCell)] } : World) = w3 at s3 ⊢
      have s4 := s3.trans (lr_netSend w3 h { src := loc, dst := dst, msg := .syn ns.2.syns.length })
      split
      · refine LR.tag ?_ "refused"
        have s5 := s4.trans (LR.of_core (Q := IsSend) (li := li) (core_setChan _ ns.1.1 fun c => { c with rxAlive := false }))
        split
        · exact s5.trans (LR.of_core (core_removeSock _ _ _ _))
        · exact s5.tag _
      · exact s4.trans (LR.of_core (by simp))

@[simp] theorem core_acceptLoop (w : World) (h port : Nat) : core (w.acceptLoop h port).1 = core w := by
  unfold acceptLoop
  split
  · simp
  · simp only
    split
    · show core (if _ then _ else _) = core w
      exact core_ite _ (by simp) (by simp)
    · exact core_ite _ (by simp) (by simp)

@[simp] theorem core_opTcpAccept (w : World) (h ls s : Nat) : core (w.opTcpAccept h ls s).1 = core w := by
  unfold opTcpAccept
  split
  · next lloc _ =>
    simp only
    have s1 := core_acceptLoop w h lloc.port
    generalize w.acceptLoop h lloc.port = r at s1 ⊢
    repeat' split
    all_goals simp [s1]
  · rfl

theorem lr_tryWrite (w : World) (h : Nat) (x : WrH) (p : Hex) : LR IsSend li w (w.tryWrite h x p).1 := by
  unfold tryWrite
  simp only
  have h1 : LR IsSend li w { w with fcs := setAt w.fcs x.fc (· - 1) } := LR.of_core rfl
  repeat' split
  all_goals first
    | exact LR.refl w
    | exact LR.of_core (core_tag w _)
    | exact h1
    | exact (h1.trans (LR.of_core (core_setHost _ h _))).trans (lr_netSend _ _ _)

theorem lr_opTcpWrite (w : World) (h s : Nat) (p : Hex) (poll : Bool) : LR IsSend li w (w.opTcpWrite h s p poll).1 := by
  unfold opTcpWrite
  simp only
  repeat' split
  all_goals first
    | exact LR.refl w
    | exact lr_tryWrite _ _ _ _

theorem lr_opTcpShutdown (w : World) (h s : Nat) : LR IsSend li w (w.opTcpShutdown h s).1 := by
  unfold opTcpShutdown
  split
  · split
    · exact LR.refl w
    · split
      · exact LR.refl w
      · simp only
        split
        · exact ((LR.of_core (core_setHost w h _)).trans (lr_netSend _ _ _)).trans (LR.of_core (core_setObj _ _ _ _))
        · exact (LR.of_core (core_setHost w h _)).trans (lr_netSend _ _ _)
  · exact LR.refl w

@[simp] theorem core_redrain (w : World) (h : Nat) (r : RdH) : core (w.redrain h r) = core w := by
  unfold redrain
  split
  · rfl
  · split
    · rfl
    · simp

@[simp] theorem core_opTcpRead (w : World) (h s n : Nat) (peek : Bool) : core (w.opTcpRead h s n peek).1 = core w := by
  unfold opTcpRead
  split
  · split
    · rfl
    · split
      · split
        · rfl
        · simp
      · simp only
        split
        · split
          · simp only [core_redrain, core_setObj]
            exact core_ite _ (by rw [core_tag]; rfl) rfl
          · simp
        · split
          · simp
          · rfl
  · rfl

theorem lr_opDrop (w : World) (h s : Nat) : LR IsSend li w (w.opDrop h s).1 := by
  unfold opDrop
  split
  · exact (LR.of_core (core_delObj w h s)).trans (lr_dropObj _ _ _)
  · exact LR.refl w

theorem lr_opDropRead (w : World) (h s : Nat) : LR IsSend li w (w.opDropRead h s).1 := by
  unfold opDropRead
  split
  · next r wr _ =>
    simp only
    refine LR.trans ?_ (lr_dropRead _ h r)
    cases wr with
    | some _ => exact LR.of_core (core_setObj _ _ _ _)
    | none => exact LR.of_core (core_delObj _ _ _)
  · exact LR.refl w

theorem lr_opDropWrite (w : World) (h s : Nat) : LR IsSend li w (w.opDropWrite h s).1 := by
  unfold opDropWrite
  split
  · next rd x _ =>
    simp only
    refine LR.trans ?_ (lr_dropWrite _ h x)
    cases rd with
    | some _ => exact LR.of_core (core_setObj _ _ _ _)
    | none => exact LR.of_core (core_delObj _ _ _)
  · exact LR.refl w

theorem fst_mk' {α β : Type} (a : α) (b : β) : (a, b).1 = a := rfl

theorem core_hopSleep (w : World) (h ms : Nat) : core (hopSleep w h ms).1 = core w := by
  rw [hopSleep, fst_mk']
  exact core_setHost _ _ _

@[simp] theorem core_dnsLookup (w : World) (name : String) : core (w.dnsLookup name).2 = core w := rfl
@[simp] theorem core_stepEnd (w : World) : core w.stepEnd = core w := rfl
@[simp] theorem core_turnBegin (w : World) (h : Nat) : core (w.turnBegin h) = core w := rfl

@[simp] theorem core_loStep (w : World) (h i : Nat) : core (loStep w h i).1 = core w := by
  unfold loStep
  simp only
  split <;> simp

/-! ### every host call -/

/-- a host call other than a link-control call only ever sends. -/
theorem lr_applyHOp (w : World) (h : Nat) (op : HOp) (hnet : ∀ c a b, op ≠ .net c a b) :
    LR IsSend li w (applyHOp w h op).1 := by
  cases op with
  | udpBind s a =>
    show LR IsSend li w (if (w.getObj h s).isSome = true then (w, "err slotbusy") else w.opUdpBind h s a).1
    split
    · exact LR.refl w
    · exact LR.of_core (core_opUdpBind w h s a)
  | tcpBind s a =>
    show LR IsSend li w (if (w.getObj h s).isSome = true then (w, "err slotbusy") else w.opTcpBind h s a).1
    split
    · exact LR.refl w
    · exact LR.of_core (core_opTcpBind w h s a)
  | tcpConnect s a =>
    show LR IsSend li w (if (w.getObj h s).isSome = true then (w, "err slotbusy") else w.opTcpConnect h s a).1
    split
    · exact LR.refl w
    · exact lr_opTcpConnect w h s a
  | tcpAccept ls s =>
    show LR IsSend li w (if (w.getObj h s).isSome = true then (w, "err slotbusy") else w.opTcpAccept h ls s).1
    split
    · exact LR.refl w
    · exact LR.of_core (core_opTcpAccept w h ls s)
  | udpSend s a p => exact lr_opUdpSend w h s a p
  | udpTryRecv s n => exact LR.of_core (core_opUdpTryRecv w h s n)
  | udpRecv s n => exact LR.of_core (core_opUdpRecv w h s n)
  | udpReadable s => exact LR.of_core (core_opUdpReadable w h s)
  | udpConnect s a => exact LR.of_core (core_opUdpConnect w h s a)
  | udpBcast s on => exact LR.of_core (core_opUdpSetBcast w h s on)
  | udpMloop s on => exact LR.of_core (core_opUdpSetMloop w h s on)
  | udpJoin s g i => exact LR.of_core (core_opUdpJoin w h s g i)
  | udpLeave s g i => exact LR.of_core (core_opUdpLeave w h s g i)
  | tcpCPoll s => exact LR.of_core (core_connectPoll w h s)
  | tcpWrite s p => exact lr_opTcpWrite w h s p _
  | tcpSplit s => exact LR.refl w
  | tcpReunite s => exact LR.refl w
  | tcpPWrite s p => exact lr_opTcpWrite w h s p true
  | tcpShutdown s => exact lr_opTcpShutdown w h s
  | tcpRead s n => exact LR.of_core (core_opTcpRead w h s n false)
  | tcpPeek s n => exact LR.of_core (core_opTcpRead w h s n true)
  | drop s => exact lr_opDrop w h s
  | tcpDropR s => exact lr_opDropRead w h s
  | tcpDropW s => exact lr_opDropWrite w h s
  | count => exact LR.refl w
  | countOf a => exact LR.refl w
  | spawnTicker => exact LR.refl w
  | select4 => exact LR.refl w
  | exit => exact (lr_dropAll w h).trans (LR.of_core (core_setHost _ _ _))
  | net c a b => exact absurd rfl (hnet c a b)
  | sleep ms =>
    show LR IsSend li w (hopSleep w h ms).1
    exact LR.of_core (core_hopSleep w h ms)
  | clock => exact LR.refl w
  | lookup name => exact LR.of_core (core_dnsLookup w name)
  | unknown => exact LR.refl w

end TV.LW
