import TvCore.Proofs.C04LateOnly
import TvCore.Proofs.C04LateFrame
import TvCore.Proofs.C04LateLinks
import TvCore.Proofs.C04LateLoc
import TvCore.Proofs.C04LateSend
import TvCore.Proofs.C04LateLo
import TvCore.Proofs.C04LateQuiet
/-
  Helper lemmas for `Props/C04Late.lean` (umbrella):
    * `C04LateOnly`   — `Only g` (no host but `g` is written) for every host call, turn and loopback delivery;
    * `C04LateFrame`  — one step / a run seen from a host that is not the actor (`host!_step_other`, `down_run`);
                        `receive` and `deliver_messages` against empty tables (`onEmpty`, `deliverWith`);
    * `C04LateLinks`  — one link: where the messages on it come from (`gstep_mem`), `AllDir`, `QInv`, `keeps_grun`;
    * `C04LateLoc`    — the local addresses of socket objects are the holder's (`LocOK`, an invariant);
    * `C04LateSend`   — host calls and destructors send from the calling host's own ip number (`LR (QS m)`);
    * `C04LateLo`     — what a host's own steps add to its loopback queue carries its own source address (`LoG`);
    * `C04LateQuiet`  — worlds: the link invariants along runs, `step_link_quiet`, `quiet_run`, `LoOK`.
-/
