import TvCore.Proofs.C15WorldLemmas
/-
  `Pres` for the calls that add entries to the host tables (`newStream`, the two bind calls,
  `register`), for `dnsLookup`, and for every host-level / controller-level operation; finally for
  every transition of `applyStep`.
-/
namespace TV.C15
open TV TV.World TV.C04

/-! ### adding entries -/

theorem findSock_none_ne {hs : Host} {loc rem : Addr} (h : findSock hs loc rem = none) :
    ∀ s ∈ hs.socks, pairOf s ≠ (loc, rem) := by
  intro s hs' e
  have := List.findIdx?_eq_none_iff.mp h s hs'
  rw [(matchPair s loc rem).mpr e] at this
  exact Bool.noConfusion this

/-- appending a stream-table entry whose address pair is new (or: a panic is already recorded). -/
theorem pres_addSock (w : World) (h : Nat) (sk : Sock)
    (hok : w.panicked.isSome = true ∨ ∀ s ∈ (w.host! h).socks, pairOf s ≠ pairOf sk) :
    Pres w (w.setHost h fun hs => { hs with socks := hs.socks ++ [sk] }) := by
  refine pres_of_parts rfl rfl rfl (fun h => h) (by simp [setHost]) (fun i => ?_) (fun i => ?_) (fun hp i => ?_) (fun hp => ?_)
  · rw [host!_setHost_eq]; split
    · next c => obtain ⟨rfl, _⟩ := c; rfl
    · rfl
  · rw [host!_setHost_eq]; split
    · next c => obtain ⟨rfl, _⟩ := c; exact fun h => h
    · exact fun h => h
  · rw [host!_setHost_eq]; split
    · next c => obtain ⟨rfl, _⟩ := c; exact hp i
    · exact hp i
  · rcases hok with hok | hok
    · exact Or.inl hok
    · rcases hp with hp | hp
      · exact Or.inl hp
      · refine Or.inr (fun i => ?_)
        rw [host!_setHost_eq]; split
        · next c =>
          obtain ⟨rfl, _⟩ := c
          show PairsNodup ((w.host! i).socks ++ [sk])
          unfold PairsNodup
          rw [List.pairwise_append]
          refine ⟨hp i, List.pairwise_singleton _ _, fun a ha b hb => ?_⟩
          rw [List.mem_singleton] at hb
          subst hb
          exact hok a ha
        · exact hp i

theorem pres_chans_fcs (w : World) (c : List Chan) (f : List Nat) : Pres w { w with chans := c, fcs := f } :=
  pres_of_eq rfl rfl rfl rfl rfl

theorem pres_newStream (w : World) (h : Nat) (loc rem : Addr) : Pres w (w.newStream h loc rem).2 := by
  unfold newStream newChan newFcPair
  simp only
  cases hf : findSock (w.host! h) loc rem with
  | some i =>
    simp only [Option.isSome_some, if_true]
    refine Pres.trans ?_ (pres_addSock _ h _ (Or.inl ?_))
    · exact (pres_panic w "already connected").trans (pres_chans_fcs _ _ _)
    · exact panic_isSome w _
  | none =>
    simp only [Option.isSome_none, Bool.false_eq_true, if_false]
    refine Pres.trans ?_ (pres_addSock _ h _ (Or.inr ?_))
    · exact pres_chans_fcs _ _ _
    · exact findSock_none_ne (loc := loc) (rem := rem) hf

theorem nodup_append_one {l : List Nat} (h : l.Nodup) (p : Nat) (hp : p ∉ l) : (l ++ [p]).Nodup := by
  rw [List.nodup_append]
  refine ⟨h, List.pairwise_singleton _ _, fun a ha b hb => ?_⟩
  rw [List.mem_singleton] at hb
  subst hb
  exact fun e => hp (e ▸ ha)

theorem not_mem_uports {hs : Host} {p : Nat} (h : udpPortUsed hs p = false) : p ∉ uports hs := by
  intro hm
  obtain ⟨b, hb, rfl⟩ := List.mem_map.mp hm
  unfold udpPortUsed at h
  have := List.any_eq_false.mp h b hb
  simp at this

theorem not_mem_tports {hs : Host} {p : Nat} (h : hs.tcpBinds.any (·.port == p) = false) : p ∉ tports hs := by
  intro hm
  obtain ⟨b, hb, rfl⟩ := List.mem_map.mp hm
  have := List.any_eq_false.mp h b hb
  simp at this

/-- appending a UDP bind whose port is not in the table. -/
theorem pres_addUdp (w : World) (h : Nat) (b : UdpBind) (hfree : udpPortUsed (w.host! h) b.port = false) :
    Pres w (w.setHost h fun hs => { hs with udp := hs.udp ++ [b] }) := by
  refine pres_of_parts rfl rfl rfl (fun h => h) (by simp [setHost]) (fun i => ?_) (fun i => ?_) (fun hp i => ?_) (fun hp => ?_)
  · rw [host!_setHost_eq]; split
    · next c => obtain ⟨rfl, _⟩ := c; rfl
    · rfl
  · rw [host!_setHost_eq]; split
    · next c => obtain ⟨rfl, _⟩ := c; exact fun h => h
    · exact fun h => h
  · rw [host!_setHost_eq]; split
    · next c =>
      obtain ⟨rfl, _⟩ := c
      refine ⟨?_, (hp i).2⟩
      show (List.map (·.port) ((w.host! i).udp ++ [b])).Nodup
      rw [List.map_append]
      exact nodup_append_one (hp i).1 b.port (not_mem_uports hfree)
    · exact hp i
  · rcases hp with hp | hp
    · exact Or.inl hp
    · refine Or.inr (fun i => ?_)
      rw [host!_setHost_eq]; split
      · next c => obtain ⟨rfl, _⟩ := c; exact hp i
      · exact hp i

/-- appending a listener bind whose port is not in the table. -/
theorem pres_addTcp (w : World) (h : Nat) (b : TcpBind) (hfree : (w.host! h).tcpBinds.any (·.port == b.port) = false) :
    Pres w (w.setHost h fun hs => { hs with tcpBinds := hs.tcpBinds ++ [b] }) := by
  refine pres_of_parts rfl rfl rfl (fun h => h) (by simp [setHost]) (fun i => ?_) (fun i => ?_) (fun hp i => ?_) (fun hp => ?_)
  · rw [host!_setHost_eq]; split
    · next c => obtain ⟨rfl, _⟩ := c; rfl
    · rfl
  · rw [host!_setHost_eq]; split
    · next c => obtain ⟨rfl, _⟩ := c; exact fun h => h
    · exact fun h => h
  · rw [host!_setHost_eq]; split
    · next c =>
      obtain ⟨rfl, _⟩ := c
      refine ⟨(hp i).1, ?_⟩
      show (List.map (·.port) ((w.host! i).tcpBinds ++ [b])).Nodup
      rw [List.map_append]
      exact nodup_append_one (hp i).2 b.port (not_mem_tports hfree)
    · exact hp i
  · rcases hp with hp | hp
    · exact Or.inl hp
    · refine Or.inr (fun i => ?_)
      rw [host!_setHost_eq]; split
      · next c => obtain ⟨rfl, _⟩ := c; exact hp i
      · exact hp i

/-! ### host-level calls -/

theorem pres_udpQueue (w : World) (h bi : Nat) (q : List (Hex × Addr)) :
    Pres w (w.setHost h fun hs => { hs with udp := setAt hs.udp bi fun b => { b with queue := q } }) :=
  pres_setHost w h _ (hfr_setAtUdp _ _ _ (fun _ => rfl))

theorem pres_udpFanout (h : Nat) (src : Addr) (p : Hex) (loopOk : Addr → Bool) (ds : List Addr) (w : World) :
    Pres w (udpFanout w h src p loopOk ds).1 := by
  induction ds generalizing w with
  | nil => exact Pres.refl w
  | cons d ds ih =>
    unfold udpFanout
    split
    · exact Pres.trans (pres_ite _ (pres_sendLoopback _ _ _) (Pres.refl _)) (ih _)
    · simp only
      split
      · exact (pres_sendMessage _ _).trans (ih _)
      · exact pres_sendMessage _ _

theorem pres_opUdpSend (w : World) (h s : Nat) (dst : Addr) (p : Hex) : Pres w (w.opUdpSend h s dst p).1 := by
  unfold opUdpSend
  simp only
  repeat' split
  all_goals first
    | exact Pres.refl w
    | exact (pres_tag w _).trans (pres_udpFanout _ _ _ _ _ _)
    | exact pres_netSend _ _ _

theorem pres_opUdpTryRecv (w : World) (h s n : Nat) : Pres w (w.opUdpTryRecv h s n).1 := by
  unfold opUdpTryRecv
  split
  · split
    · exact pres_setObj _ _ _ _
    · split
      · exact Pres.refl _
      · simp only
        split
        · exact Pres.refl _
        · exact pres_udpQueue w h _ _
  · exact Pres.refl _

theorem pres_opUdpReadable (w : World) (h s : Nat) : Pres w (w.opUdpReadable h s).1 := by
  unfold opUdpReadable
  split
  · split
    · exact Pres.refl _
    · split
      · exact Pres.refl _
      · simp only
        split
        · exact Pres.refl _
        · exact (pres_udpQueue w h _ _).trans (pres_setObj _ _ _ _)
  · exact Pres.refl _

theorem pres_opUdpRecv (w : World) (h s n : Nat) : Pres w (w.opUdpRecv h s n).1 := by
  unfold opUdpRecv
  simp only
  split
  · exact (pres_opUdpReadable w h s).trans (pres_opUdpTryRecv _ h s n)
  · exact pres_opUdpReadable w h s

theorem pres_opUdpConnect (w : World) (h s : Nat) (dst : Addr) : Pres w (w.opUdpConnect h s dst).1 := by
  unfold opUdpConnect
  split
  · exact pres_setHost w h _ (hfr_mapUdp _ _ (fun b => by split <;> rfl))
  · exact Pres.refl w

theorem pres_opUdpSetBcast (w : World) (h s : Nat) (on : Bool) : Pres w (w.opUdpSetBcast h s on).1 := by
  unfold opUdpSetBcast
  split
  · exact pres_setHost w h _ (hfr_mapUdp _ _ (fun b => by split <;> rfl))
  · exact Pres.refl w

theorem pres_opUdpSetMloop (w : World) (h s : Nat) (on : Bool) : Pres w (w.opUdpSetMloop h s on).1 := by
  unfold opUdpSetMloop
  split
  · exact pres_setHost w h _ (hfr_mapUdp _ _ (fun b => by split <;> rfl))
  · exact Pres.refl w

theorem pres_mgroups (w : World) (g : List (Addr × List Addr)) : Pres w { w with mgroups := g } :=
  pres_of_eq rfl rfl rfl rfl rfl

theorem pres_opUdpJoin (w : World) (h s : Nat) (g iface : Ip) : Pres w (w.opUdpJoin h s g iface).1 := by
  unfold opUdpJoin
  repeat' split
  all_goals first
    | exact Pres.refl w
    | exact pres_mgroups _ _

theorem pres_opUdpLeave (w : World) (h s : Nat) (g iface : Ip) : Pres w (w.opUdpLeave h s g iface).1 := by
  unfold opUdpLeave
  simp only
  repeat' split
  all_goals first
    | exact Pres.refl w
    | exact pres_mgroups _ _

theorem pres_fcs (w : World) (f : List Nat) : Pres w { w with fcs := f } := pres_of_eq rfl rfl rfl rfl rfl
theorem pres_syns (w : World) (f : List SynCell) : Pres w { w with syns := f } := pres_of_eq rfl rfl rfl rfl rfl

theorem pres_tryWrite (w : World) (h : Nat) (x : WrH) (p : Hex) : Pres w (w.tryWrite h x p).1 := by
  unfold tryWrite
  simp only
  have h1 : Pres w { w with fcs := setAt w.fcs x.fc (· - 1) } := pres_fcs _ _
  repeat' split
  all_goals first
    | exact Pres.refl w
    | exact pres_tag w _
    | exact h1
    | exact (h1.trans (pres_bumpSeq _ h _)).trans (pres_netSend _ _ _)

theorem pres_opTcpWrite (w : World) (h s : Nat) (p : Hex) (poll : Bool) : Pres w (w.opTcpWrite h s p poll).1 := by
  unfold opTcpWrite
  simp only
  repeat' split
  all_goals first
    | exact Pres.refl w
    | exact pres_tryWrite _ _ _ _

theorem pres_setBuf (w : World) (h i : Nat) (buf : List (Nat × Seg)) (rs : Nat) :
    Pres w (w.setHost h fun hs => { hs with socks := setAt hs.socks i fun s => { s with buf := buf, recvSeq := rs } }) :=
  pres_setAtSocks w h i _ (fun _ => rfl)

theorem pres_redrain (w : World) (h : Nat) (r : RdH) : Pres w (w.redrain h r) := by
  unfold redrain
  simp only
  repeat' split
  all_goals first
    | exact Pres.refl w
    | exact (pres_setBuf _ h _ _ _).trans (pres_setChan _ _ _)

theorem pres_acceptLoop (w : World) (h port : Nat) : Pres w (w.acceptLoop h port).1 := by
  unfold acceptLoop
  split
  · exact pres_panic _ _
  · next bi _ =>
    simp only
    have h1 : Pres w (w.setHost h fun hs => { hs with tcpBinds := setAt hs.tcpBinds bi fun b =>
        { b with deque := (acceptPick w.synAlive ((w.host! h).tcpBinds.getD bi default).deque).2 } }) :=
      pres_setHost w h _ (hfr_setAtTcp _ _ _ (fun _ => rfl))
    have h2 := h1.trans (pres_ite (((w.host! h).tcpBinds.getD bi default).deque.length -
        (acceptPick w.synAlive ((w.host! h).tcpBinds.getD bi default).deque).2.length -
        (if (acceptPick w.synAlive ((w.host! h).tcpBinds.getD bi default).deque).1.isSome = true then 1 else 0) > 0)
        (pres_tag _ "skipdead") (Pres.refl _))
    split
    · exact h2.trans (pres_syns _ _)
    · exact h2

theorem pres_connectPoll (w : World) (h s : Nat) : Pres w (w.connectPoll h s).1 := by
  unfold connectPoll
  split
  · next id loc rem chan fcW hg =>
    split
    · exact Pres.refl _
    · exact pres_setObj _ _ _ _
    · simp only
      have h2 := (pres_delObj w h s).trans (pres_setChan _ chan fun c => { c with rxAlive := false })
      refine Pres.trans ?_ (pres_tag _ "refused")
      split
      · exact h2.trans (pres_removeSock _ _ _ _)
      · exact h2.trans (pres_tag _ _)
  · exact Pres.refl _

theorem pres_opTcpConnect (w : World) (h s : Nat) (dst : Addr) : Pres w (w.opTcpConnect h s dst).1 := by
  unfold opTcpConnect
  simp only
  have s1 := pres_assignPort w h
  split
  · exact s1
  · next p _ =>
    generalize ({ ip := if dst.ip.isLoopback = true then dst.ip else Ip.host h, port := p } : Addr) = loc
    split
    · exact s1.trans (pres_panic _ _)
    · have s2 := s1.trans (pres_newStream (w.assignPort h).2 h loc dst)
      generalize ((w.assignPort h).2.newStream h loc dst) = ns at s2 ⊢
      have s3 : Pres w { ns.2 with syns := ns.2.syns ++ [({} : SynCell)] } := s2.trans (pres_syns _ _)
      generalize ({ ns.2 with syns := ns.2.syns ++ [({} : SynCell)] } : World) = w3 at s3 ⊢
      have s4 := s3.trans (pres_netSend w3 h { src := loc, dst := dst, msg := .syn ns.2.syns.length })
      split
      · refine Pres.trans ?_ (pres_tag _ "refused")
        have s5 := s4.trans (pres_setChan _ ns.1.1 fun c => { c with rxAlive := false })
        split
        · exact s5.trans (pres_removeSock _ _ _ _)
        · exact s5.trans (pres_tag _ _)
      · exact (s4.trans (pres_setObj _ h s _)).trans (pres_connectPoll _ h s)

theorem pres_opTcpAccept (w : World) (h ls s : Nat) : Pres w (w.opTcpAccept h ls s).1 := by
  unfold opTcpAccept
  split
  · next lloc hg =>
    simp only
    have s1 := pres_acceptLoop w h lloc.port
    generalize (w.acceptLoop h lloc.port) = al at s1 ⊢
    split
    · exact s1
    · next r _ =>
      generalize (if (if r.src.ip.isLoopback = true then { ip := r.src.ip, port := lloc.port } else lloc).ip.isUnspecified = true then
          { ip := Ip.host h, port := (if r.src.ip.isLoopback = true then { ip := r.src.ip, port := lloc.port } else lloc).port }
        else if r.src.ip.isLoopback = true then { ip := r.src.ip, port := lloc.port } else lloc : Addr) = my
      split
      · exact s1.trans (pres_panic _ _)
      · have s2 := s1.trans (pres_newStream al.1 h my r.src)
        generalize (al.1.newStream h my r.src) = ns at s2 ⊢
        split
        · exact s2.trans (pres_panic _ _)
        · split
          · exact s2.trans (pres_panic _ _)
          · exact s2.trans (pres_setObj _ h s _)
  · exact Pres.refl _

theorem pres_opTcpShutdown (w : World) (h s : Nat) : Pres w (w.opTcpShutdown h s).1 := by
  unfold opTcpShutdown
  split
  · next rd x hg =>
    split
    · exact Pres.refl _
    · split
      · exact Pres.refl _
      · next i _ =>
        simp only
        have s2 := (pres_bumpSeq w h i).trans
          (pres_netSend _ h { src := x.loc, dst := x.rem, msg := .fin ((w.host! h).socks.getD i default).nextSendSeq })
        split
        · exact s2.trans (pres_setObj _ h s _)
        · exact s2
  · exact Pres.refl _

theorem pres_opDropRead (w : World) (h s : Nat) : Pres w (w.opDropRead h s).1 := by
  unfold opDropRead
  split
  · next r wr hg =>
    simp only
    refine Pres.trans ?_ (pres_dropRead _ h r)
    split
    · exact pres_setObj _ _ _ _
    · exact pres_delObj _ _ _
  · exact Pres.refl _

theorem pres_opDropWrite (w : World) (h s : Nat) : Pres w (w.opDropWrite h s).1 := by
  unfold opDropWrite
  split
  · next rd x hg =>
    simp only
    refine Pres.trans ?_ (pres_dropWrite _ h x)
    split
    · exact pres_setObj _ _ _ _
    · exact pres_delObj _ _ _
  · exact Pres.refl _

theorem pres_opTcpRead (w : World) (h s n : Nat) (peek : Bool) : Pres w (w.opTcpRead h s n peek).1 := by
  unfold opTcpRead
  split
  · next r wr hg =>
    split
    · exact Pres.refl _
    · split
      · split
        · exact Pres.refl _
        · exact pres_setObj _ _ _ _
      · simp only
        split
        · next seg rest _ =>
          have s1 := pres_setChan w r.chan fun c => { c with items := rest }
          split
          · next b _ =>
            simp only
            refine Pres.trans ?_ (pres_redrain _ h r)
            have s2 : Pres w { (w.setChan r.chan fun c => { c with items := rest }) with
                fcs := setAt (w.setChan r.chan fun c => { c with items := rest }).fcs r.fc (· + 1) } := s1.trans (pres_fcs _ _)
            have s3 := s2.trans (pres_ite (hexLen b > n) (pres_tag _ "partialread") (Pres.refl _))
            exact s3.trans (pres_setObj _ h s _)
          · refine Pres.trans ?_ (pres_redrain _ h r)
            refine Pres.trans ?_ (pres_tag _ "eof")
            exact s1.trans (pres_setObj _ h s _)
        · split
          · exact pres_tag _ _
          · exact Pres.refl _
  · exact Pres.refl _

theorem pres_opUdpBind (w : World) (h s : Nat) (a : Addr) : Pres w (w.opUdpBind h s a).1 := by
  unfold opUdpBind
  split
  · exact Pres.refl _
  · simp only
    have s1 : Pres w (if (a.port == 0) = true then w.assignPort h else (some a.port, w)).2 := by
      split
      · exact pres_assignPort w h
      · exact Pres.refl w
    generalize (if (a.port == 0) = true then w.assignPort h else (some a.port, w)) = r at s1 ⊢
    split
    · exact s1
    · next p _ =>
      split
      · exact s1.trans (pres_tag _ _)
      · next hfree =>
        refine (s1.trans (pres_addUdp r.2 h { port := p, bindAddr := { ip := a.ip, port := p } } ?_)).trans (pres_setObj _ h s _)
        simpa using hfree

theorem pres_opTcpBind (w : World) (h s : Nat) (a : Addr) : Pres w (w.opTcpBind h s a).1 := by
  unfold opTcpBind
  split
  · exact Pres.refl _
  · simp only
    have s1 : Pres w (if (a.port == 0) = true then w.assignPort h else (some a.port, w)).2 := by
      split
      · exact pres_assignPort w h
      · exact Pres.refl w
    generalize (if (a.port == 0) = true then w.assignPort h else (some a.port, w)) = r at s1 ⊢
    split
    · exact s1
    · next p _ =>
      split
      · exact s1.trans (pres_tag _ _)
      · next hfree =>
        refine (s1.trans (pres_addTcp r.2 h { port := p, bindAddr := { ip := a.ip, port := p } } ?_)).trans (pres_setObj _ h s _)
        simpa using hfree

theorem pres_opDrop (w : World) (h s : Nat) : Pres w (w.opDrop h s).1 := by
  unfold opDrop
  split
  · exact (pres_delObj w h s).trans (pres_dropObj _ h _)
  · exact Pres.refl _

theorem pres_exit (w : World) (h : Nat) : Pres w ((w.dropAll h).setHost h (fun hs => { hs with exited := true })) :=
  (pres_dropAll w h).trans (pres_setHost_eq _ h _ rfl rfl rfl rfl rfl)

/-! ### controller calls -/

theorem pres_crash (w : World) (h : Nat) : Pres w (w.crash h) := by
  unfold crash
  refine Pres.trans ?_ (pres_setHost_eq _ h _ rfl rfl rfl rfl rfl)
  split
  · exact pres_dropAll w h
  · exact Pres.refl w

theorem pres_bounce (w : World) (h : Nat) : Pres w (w.bounce h) := by
  unfold bounce
  exact (pres_dropAll w h).trans (pres_setHost_eq _ h _ rfl rfl rfl rfl rfl)

theorem pres_onLink (w : World) (x y : Nat) (f : Link Env → Link Env × List (Sent Env)) : Pres w (w.onLink x y f) := by
  unfold onLink
  simp only
  split
  · exact pres_panic _ _
  · split
    · exact Pres.refl _
    · exact (pres_links _ _).trans (pres_dropEnvs _ _)

theorem pres_netCtl (op : NetCtl) (w : World) (x y : Nat) : Pres w (op.apply w x y) := by
  cases op with
  | partition => exact pres_onLink w x y (fun l => l.explicitPartition)
  | partitionOneway => exact pres_onLink w x y (fun l => l.partitionOneway (w.host! x).ipnum (w.host! y).ipnum)
  | repair => exact pres_onLink w x y (fun l => (l.explicitRepair, []))
  | repairOneway => exact pres_onLink w x y (fun l => (l.repairOneway (w.host! x).ipnum (w.host! y).ipnum, []))
  | hold => exact pres_onLink w x y (fun l => (l.hold, []))
  | release => exact pres_onLink w x y (fun l => (l.release, []))

theorem pres_forPairs (w : World) (xs ys : List Nat) (f : World → Nat → Nat → World) (hf : ∀ w x y, Pres w (f w x y)) :
    Pres w (w.forPairs xs ys f) := by
  unfold forPairs
  refine pres_foldl _ (fun w x => pres_foldl _ (fun w y => ?_) _ _) _ _
  exact pres_ite _ (hf _ _ _) (Pres.refl _)

theorem pres_ctlDeliver (w : World) (x y i : Nat) : Pres w (w.ctlDeliver x y i) := pres_onLink w x y _
theorem pres_ctlDeliverAll (w : World) (x y : Nat) : Pres w (ctlDeliverAll w x y) := pres_onLink w x y _
theorem pres_stepBegin (w : World) : Pres w w.stepBegin := pres_of_eq rfl rfl rfl rfl rfl

theorem pres_turnBegin (w : World) (h : Nat) : Pres w (w.turnBegin h) := by
  unfold turnBegin
  refine pres_setHost w h _ ?_
  unfold hostTurnBegin
  simp only
  repeat' split
  all_goals exact HFr.of_eq rfl rfl rfl rfl rfl

theorem pres_cur (w : World) (c : Option Nat) : Pres w { w with cur := c } := pres_of_eq rfl rfl rfl rfl rfl

theorem pres_turnStep (w : World) (h : Nat) : Pres w (turnStep w h).2 := by
  unfold turnStep
  exact ((pres_turnBegin w h).trans (pres_deliverTo _ h)).trans (pres_cur _ _)

theorem pres_loStep (w : World) (h i : Nat) : Pres w (loStep w h i).1 := by
  unfold loStep
  simp only
  have h0 : Pres w (w.setHost h fun hs => { hs with lo := hs.lo.eraseIdx i }) := pres_setHost_eq w h _ rfl rfl rfl rfl rfl
  have h1 := h0.trans (pres_receive _ h ((w.host! h).lo.getD i default))
  split
  · exact h1.trans (pres_receive _ _ _)
  · exact h1

/- `hostSleep`: the field facts are proved for a variable `W` and only instantiated (see
   `C04.shrink_hostSleep`: never let the kernel compare against `ms * 1000000`). -/
theorem hfr_setHnow {lo hi : Nat} (hs : Host) (W : Nat) (b : Bool) : HFr lo hi hs (({ hs with hnow := W }, b) : Host × Bool).1 :=
  HFr.of_eq rfl rfl rfl rfl rfl
theorem hfr_setWake {lo hi : Nat} (hs : Host) (W : Option Nat) (b : Bool) : HFr lo hi hs (({ hs with wake := W }, b) : Host × Bool).1 :=
  HFr.of_eq rfl rfl rfl rfl rfl
theorem hfr_ite_fst {lo hi : Nat} {c : Prop} [Decidable c] {hs : Host} {a b : Host × Bool} (ha : HFr lo hi hs a.1) (hb : HFr lo hi hs b.1) :
    HFr lo hi hs (if c then a else b).1 := by split <;> assumption

theorem hfr_hostSleep {lo hi : Nat} (A : Nat) (hs : Host) (ms : Nat) : HFr lo hi hs (hostSleep A hs ms).1 := by
  unfold hostSleep
  exact hfr_ite_fst (hfr_setHnow _ _ _) (hfr_setWake _ _ _)

theorem pres_hopSleep (w : World) (h ms : Nat) : Pres w (hopSleep w h ms).1 := by
  rw [hopSleep, fst_mk]
  exact pres_setHost w h _ (hfr_hostSleep _ _ _)

theorem pres_stepEnd (w : World) : Pres w w.stepEnd := by
  refine pres_of_hfr rfl rfl rfl (fun h => h) (by simp [stepEnd]) (fun i => ?_)
  unfold stepEnd host!
  simp only [List.getD_eq_getElem?_getD, List.getElem?_map]
  cases w.hosts[i]? with
  | none => exact HFr.refl _ _ _
  | some a => exact HFr.of_eq rfl rfl rfl rfl rfl

/-! ### `dnsLookup` and `register` -/

theorem pres_dnsLookup (w : World) (name : String) : PresQ [name] w (w.dnsLookup name).2 :=
  ⟨rfl, rfl, rfl, Nat.le_refl _, fun _ _ => rfl, fun h => h, fun h => h, fun h => h, fun h => h⟩

theorem host!_register (w : World) (ip : Nat) (c : Bool) (i : Nat) :
    (w.register ip c).host! i =
      if i < w.hosts.length then w.host! i
      else if i = w.hosts.length then
        { ipnum := ip, isClient := c, nextEph := w.cfg.ephLo, startOffset := w.elapsed }
      else default := by
  unfold register host!
  simp only
  rw [List.getD_eq_getElem?_getD, List.getD_eq_getElem?_getD]
  rcases Nat.lt_trichotomy i w.hosts.length with hlt | heq | hgt
  · rw [List.getElem?_append_left hlt]; simp [hlt]
  · subst heq
    simp
  · rw [List.getElem?_eq_none (by simp; omega)]
    have h1 : ¬ i < w.hosts.length := by omega
    have h2 : ¬ i = w.hosts.length := by omega
    simp [h1, h2]

theorem pres_register (w : World) (ip : Nat) (c : Bool) : Pres w (w.register ip c) := by
  refine ⟨rfl, rfl, rfl, by simp [register], fun i hi => ?_, fun h => h, fun hp i => ?_, fun hr => ?_, fun hp => ?_⟩
  · rw [host!_register]; simp [hi]
  · rw [host!_register]
    split
    · exact hp i
    · split
      · exact ⟨List.nodup_nil, List.nodup_nil⟩
      · exact ⟨List.nodup_nil, List.nodup_nil⟩
  · refine ⟨hr.1, fun i hi => ?_⟩
    rw [host!_register]
    split
    · next hlt => exact hr.2 i hlt
    · split
      · exact ⟨Nat.le_refl _, hr.1⟩
      · next h1 h2 =>
        have : i < w.hosts.length + 1 := by simpa [register] using hi
        omega
  · rcases hp with hp | hp
    · exact Or.inl hp
    · refine Or.inr (fun i => ?_)
      rw [host!_register]
      split
      · exact hp i
      · split
        · exact List.Pairwise.nil
        · exact List.Pairwise.nil

/-! ### every transition -/

/-- the names a host call / a transition looks up in the name table. -/
def hopQs : HOp → List String
  | .lookup name => [name]
  | _ => []

def stepQs : Step → List String
  | .host _ op => hopQs op
  | .dns name => [name]
  | _ => []

theorem pres_applyHOp (w : World) (h : Nat) (op : HOp) : PresQ (hopQs op) w (applyHOp w h op).1 := by
  cases op with
  | udpBind s a =>
    show Pres w (if (w.getObj h s).isSome = true then (w, "err slotbusy") else w.opUdpBind h s a).1
    split
    · exact Pres.refl w
    · exact pres_opUdpBind w h s a
  | tcpBind s a =>
    show Pres w (if (w.getObj h s).isSome = true then (w, "err slotbusy") else w.opTcpBind h s a).1
    split
    · exact Pres.refl w
    · exact pres_opTcpBind w h s a
  | tcpConnect s a =>
    show Pres w (if (w.getObj h s).isSome = true then (w, "err slotbusy") else w.opTcpConnect h s a).1
    split
    · exact Pres.refl w
    · exact pres_opTcpConnect w h s a
  | tcpAccept ls s =>
    show Pres w (if (w.getObj h s).isSome = true then (w, "err slotbusy") else w.opTcpAccept h ls s).1
    split
    · exact Pres.refl w
    · exact pres_opTcpAccept w h ls s
  | udpSend s a p => exact pres_opUdpSend w h s a p
  | udpTryRecv s n => exact pres_opUdpTryRecv w h s n
  | udpRecv s n => exact pres_opUdpRecv w h s n
  | udpReadable s => exact pres_opUdpReadable w h s
  | udpConnect s a => exact pres_opUdpConnect w h s a
  | udpBcast s on => exact pres_opUdpSetBcast w h s on
  | udpMloop s on => exact pres_opUdpSetMloop w h s on
  | udpJoin s g i => exact pres_opUdpJoin w h s g i
  | udpLeave s g i => exact pres_opUdpLeave w h s g i
  | tcpCPoll s => exact pres_connectPoll w h s
  | tcpWrite s p => exact pres_opTcpWrite w h s p _
  | tcpSplit s => exact Pres.refl w
  | tcpReunite s => exact Pres.refl w
  | tcpPWrite s p => exact pres_opTcpWrite w h s p true
  | tcpShutdown s => exact pres_opTcpShutdown w h s
  | tcpRead s n => exact pres_opTcpRead w h s n false
  | tcpPeek s n => exact pres_opTcpRead w h s n true
  | drop s => exact pres_opDrop w h s
  | tcpDropR s => exact pres_opDropRead w h s
  | tcpDropW s => exact pres_opDropWrite w h s
  | count => exact Pres.refl w
  | countOf a => exact Pres.refl w
  | spawnTicker => exact Pres.refl w
  | select4 => exact Pres.refl w
  | exit => exact pres_exit w h
  | net op a b => exact pres_netCtl op w a b
  | sleep ms =>
    show Pres w (hopSleep w h ms).1
    exact pres_hopSleep w h ms
  | clock => exact Pres.refl w
  | lookup name => exact pres_dnsLookup w name
  | unknown => exact Pres.refl w

theorem pres_applyStep (w : World) (st : Step) : PresQ (stepQs st) w (applyStep w st) := by
  cases st with
  | host h op => exact pres_applyHOp w h op
  | register ip c => exact pres_register w ip c
  | dns name => exact pres_dnsLookup w name
  | stepBegin => exact pres_stepBegin w
  | stepEnd => exact pres_stepEnd w
  | crash h => exact pres_crash w h
  | bounce h => exact pres_bounce w h
  | link op x y => exact pres_netCtl op w x y
  | linkPairs op xs ys => exact pres_forPairs w xs ys op.apply (fun w x y => pres_netCtl op w x y)
  | deliver x y i => exact pres_ctlDeliver w x y i
  | deliverAll x y => exact pres_ctlDeliverAll w x y
  | turn h => exact pres_turnStep w h
  | loDeliver h i => exact pres_loStep w h i

end TV.C15
