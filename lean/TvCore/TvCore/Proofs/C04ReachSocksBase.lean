import TvCore.Proofs.C04ReachOps
import TvCore.Props.C04Socks
/-
  Stretch part of `Props/C04Reach.lean`: the ownership invariant of the stream-socket table
  (`SocksOwned`, with the connect-leak repair) in every reachable state that has not panicked.

  `SockLe l l'`: whatever release budget `n` suffices for table `l` suffices for `l'` (entries are only
  removed, or rewritten keeping the address pair and not raising the half-close count).
  `FrS w w'`: configuration unchanged, a recorded panic stays recorded, and at every host the object
  table is the same and the stream table is `SockLe`.  `FrX h` is the same except that nothing is said
  about host `h`.
-/
namespace TV.C04
open TV TV.World

def SockLe (l l' : List Sock) : Prop := ∀ n, Inv n l → Inv n l'

theorem SockLe.refl (l : List Sock) : SockLe l l := fun _ h => h
theorem SockLe.trans {a b c : List Sock} (h1 : SockLe a b) (h2 : SockLe b c) : SockLe a c := fun n h => h2 n (h1 n h)

theorem sockLe_eraseIdx (l : List Sock) (i : Nat) : SockLe l (l.eraseIdx i) := fun _ h =>
  ⟨h.1.sublist (List.eraseIdx_sublist l i), fun s hs => h.2 s ((List.eraseIdx_sublist l i).subset hs)⟩

theorem sockLe_setAt (l : List Sock) (i : Nat) (f : Sock → Sock)
    (hp : ∀ s, pairOf (f s) = pairOf s) (hr : ∀ s, (f s).refCt ≤ s.refCt) : SockLe l (setAt l i f) := by
  intro n hI
  refine ⟨pairwise_setAt l i f _ (fun a b h => by rw [hp]; exact h) (fun a b h => by rw [hp]; exact h) hI.1, fun s hs => ?_⟩
  rcases mem_setAt l i f s hs with hs | ⟨x, hx, rfl⟩
  · exact hI.2 s hs
  · rw [hp]
    have := hI.2 x hx
    have := hr x
    omega

theorem sockLe_closeHalf (l : List Sock) (loc rem : Addr) : SockLe l (closeHalfList l loc rem).1 := by
  unfold closeHalfList
  split
  · exact SockLe.refl l
  · simp only
    split
    · exact sockLe_eraseIdx l _
    · exact sockLe_setAt l _ _ (fun _ => rfl) (fun s => Nat.sub_le _ _)

/-! ### relations between worlds -/

/-- the configuration is never written and a recorded panic is never cleared. -/
def Meta (w w' : World) : Prop := w'.cfg = w.cfg ∧ (w.panicked.isSome = true → w'.panicked.isSome = true)

theorem Meta.refl (w : World) : Meta w w := ⟨rfl, fun h => h⟩
theorem Meta.trans {a b c : World} (h1 : Meta a b) (h2 : Meta b c) : Meta a c :=
  ⟨h2.1.trans h1.1, fun h => h2.2 (h1.2 h)⟩

theorem panic_isSome (w : World) (m : String) : (w.panic m).panicked.isSome = true := by
  unfold World.panic
  split
  · next h => simp [h]
  · rfl

theorem meta_panic (w : World) (m : String) : Meta w (w.panic m) := ⟨cfg_panic w m, fun _ => panic_isSome w m⟩
theorem meta_tag (w : World) (t : String) : Meta w (w.tag t) := by
  unfold tag; split <;> exact Meta.refl _

def AtS (a b : Host) : Prop := b.objs = a.objs ∧ SockLe a.socks b.socks

theorem AtS.refl (a : Host) : AtS a a := ⟨rfl, SockLe.refl _⟩
theorem AtS.trans {a b c : Host} (h1 : AtS a b) (h2 : AtS b c) : AtS a c := ⟨h2.1.trans h1.1, h1.2.trans h2.2⟩
theorem AtS.of_eq {a b : Host} (ho : b.objs = a.objs) (hs : b.socks = a.socks) : AtS a b := by
  refine ⟨ho, ?_⟩; rw [hs]; exact SockLe.refl _

def FrS (w w' : World) : Prop :=
  Meta w w' ∧ w'.hosts.length = w.hosts.length ∧ ∀ i, AtS (w.host! i) (w'.host! i)

def FrX (h : Nat) (w w' : World) : Prop :=
  Meta w w' ∧ w'.hosts.length = w.hosts.length ∧ ∀ i, i ≠ h → AtS (w.host! i) (w'.host! i)

theorem FrS.refl (w : World) : FrS w w := ⟨Meta.refl w, rfl, fun _ => AtS.refl _⟩
theorem FrS.trans {a b c : World} (h1 : FrS a b) (h2 : FrS b c) : FrS a c :=
  ⟨h1.1.trans h2.1, h2.2.1.trans h1.2.1, fun i => (h1.2.2 i).trans (h2.2.2 i)⟩
theorem FrX.refl (h : Nat) (w : World) : FrX h w w := ⟨Meta.refl w, rfl, fun _ _ => AtS.refl _⟩
theorem FrX.trans {h : Nat} {a b c : World} (h1 : FrX h a b) (h2 : FrX h b c) : FrX h a c :=
  ⟨h1.1.trans h2.1, h2.2.1.trans h1.2.1, fun i hi => (h1.2.2 i hi).trans (h2.2.2 i hi)⟩
theorem FrS.frx {w w' : World} (s : FrS w w') (h : Nat) : FrX h w w' := ⟨s.1, s.2.1, fun i _ => s.2.2 i⟩

theorem FrS.cfg_eq {w w' : World} (s : FrS w w') : w'.cfg = w.cfg := s.1.1
theorem FrX.cfg_eq {h : Nat} {w w' : World} (s : FrX h w w') : w'.cfg = w.cfg := s.1.1
theorem FrS.len {w w' : World} (s : FrS w w') : w'.hosts.length = w.hosts.length := s.2.1
theorem FrX.len {h : Nat} {w w' : World} (s : FrX h w w') : w'.hosts.length = w.hosts.length := s.2.1
theorem FrS.objs_eq {w w' : World} (s : FrS w w') (i : Nat) : (w'.host! i).objs = (w.host! i).objs := (s.2.2 i).1
theorem FrS.getObj_eq {w w' : World} (s : FrS w w') (i k : Nat) : w'.getObj i k = w.getObj i k := by
  unfold World.getObj; rw [s.objs_eq]
theorem FrS.hinv {w w' : World} (s : FrS w w') {n : Pair → Nat} {h : Nat} (hI : HInv n h w) : HInv n h w' :=
  (s.2.2 h).2 n hI

/-- a world that differs in fields other than `hosts` / `cfg` / `panicked`. -/
theorem frs_of_eq {w w' : World} (eh : w'.hosts = w.hosts) (ec : w'.cfg = w.cfg) (ep : w'.panicked = w.panicked) :
    FrS w w' := by
  refine ⟨⟨ec, by rw [ep]; exact fun h => h⟩, by rw [eh], fun i => ?_⟩
  unfold host!; rw [eh]; exact AtS.refl _

theorem frs_setHost (w : World) (h : Nat) (f : Host → Host) (hf : AtS (w.host! h) (f (w.host! h))) :
    FrS w (w.setHost h f) := by
  refine ⟨Meta.refl _, by simp [setHost], fun i => ?_⟩
  rw [host!_setHost_eq]
  split
  · next c => obtain ⟨rfl, _⟩ := c; exact hf
  · exact AtS.refl _

theorem frs_setHost_eq (w : World) (h : Nat) (f : Host → Host)
    (ho : (f (w.host! h)).objs = (w.host! h).objs) (hs : (f (w.host! h)).socks = (w.host! h).socks) :
    FrS w (w.setHost h f) := frs_setHost w h f (AtS.of_eq ho hs)

theorem frx_setHost (w : World) (h : Nat) (f : Host → Host) : FrX h w (w.setHost h f) := by
  refine ⟨Meta.refl _, by simp [setHost], fun i hi => ?_⟩
  rw [host!_setHost_eq]
  simp only [hi, false_and, if_false]
  exact AtS.refl _

theorem frs_tag (w : World) (t : String) : FrS w (w.tag t) := by
  unfold tag; split <;> exact FrS.refl _
theorem frs_panic (w : World) (t : String) : FrS w (w.panic t) := by
  refine ⟨meta_panic w t, by rw [hosts_panic], fun i => ?_⟩
  unfold host!; rw [hosts_panic]; exact AtS.refl _
theorem frs_ite {w a b : World} (c : Prop) [Decidable c] (ha : FrS w a) (hb : FrS w b) : FrS w (if c then a else b) := by
  split <;> assumption
theorem frs_foldl {α : Type} (f : World → α → World) (hf : ∀ w x, FrS w (f w x)) (l : List α) (w : World) :
    FrS w (l.foldl f w) := by
  induction l generalizing w with
  | nil => exact FrS.refl w
  | cons x xs ih => exact (hf w x).trans (ih _)

/-! ### the invariant -/

def SOK (hs : Host) : Prop := SocksOwned true hs
def AllS (w : World) : Prop := ∀ i, SOK (w.host! i)

theorem sok_default : SOK (default : Host) := ⟨List.Pairwise.nil, fun _ h => (by cases h)⟩

theorem SOK.ats {a b : Host} (h : SOK a) (s : AtS a b) : SOK b := by
  unfold SOK SocksOwned
  rw [s.1]
  exact s.2 _ h

theorem AllS.frs {w w' : World} (h : AllS w) (s : FrS w w') : AllS w' := fun i => (h i).ats (s.2.2 i)

/-- the transition is a frame for every host but `h`, and host `h` (when it exists) ends up owned. -/
theorem allS_at {h : Nat} {w w' : World} (hx : FrX h w w') (hall : AllS w)
    (hh : h < w.hosts.length → SOK (w'.host! h)) : AllS w' := by
  intro i
  by_cases e : i = h
  · subst e
    by_cases hl : i < w.hosts.length
    · exact hh hl
    · rw [host!_of_ge w' i (by rw [hx.len]; omega)]
      exact sok_default
  · exact (hall i).ats (hx.2.2 i e)

theorem allS_mem {w : World} (h : AllS w) : ∀ hs ∈ w.hosts, SOK hs := by
  intro hs hm
  obtain ⟨i, hi, rfl⟩ := List.mem_iff_getElem.mp hm
  have := h i
  unfold host! at this
  rwa [List.getD_eq_getElem?_getD, List.getElem?_eq_getElem hi] at this

end TV.C04
