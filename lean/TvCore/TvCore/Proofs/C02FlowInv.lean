import TvCore.Proofs.C02FlowRd
/-
  C02, flow control — deliveries: `receive` of any envelope at any host, the fold of `deliverTo` over the
  links adjacent to a host, a loopback delivery.  The invariant carried through the folds is
  `Inv` = `Pre` ∧ `RdOk` ∧ `SockC` ("only the reader's socket uses channel `c`").
-/
namespace TV.C02
open TV TV.World TV.LW

/-- only the reader's socket (host `b`, pair `rem / loc`) uses channel `c`. -/
def SockC (D : Dir) (w : World) : Prop :=
  ∀ h, ∀ sk ∈ (w.host! h).socks, sk.chan = D.c → h = D.b ∧ sk.loc = D.rem ∧ sk.rem = D.loc

def trip (s : Sock) : Addr × Addr × Nat := (s.loc, s.rem, s.chan)

/-- every socket of `w'` is (up to buffer and counters) a socket of `w`, host by host. -/
def SubT (w w' : World) : Prop := ∀ h, ∀ sk' ∈ (w'.host! h).socks, ∃ sk ∈ (w.host! h).socks, trip sk = trip sk'

theorem SubT.refl (w : World) : SubT w w := fun _ sk hs => ⟨sk, hs, rfl⟩
theorem SubT.trans {a b c : World} (h1 : SubT a b) (h2 : SubT b c) : SubT a c := by
  intro h sk3 h3
  obtain ⟨sk2, m2, e2⟩ := h2 h sk3 h3
  obtain ⟨sk1, m1, e1⟩ := h1 h sk2 m2
  exact ⟨sk1, m1, e1.trans e2⟩

theorem subT_of_hosts {w w' : World} (e : w'.hosts = w.hosts) : SubT w w' := by
  intro h sk hs
  rw [host!_of_hosts e] at hs
  exact ⟨sk, hs, rfl⟩

theorem subT_setHost (w : World) (h : Nat) (g : Host → Host)
    (hg : ∀ sk' ∈ (g (w.host! h)).socks, ∃ sk ∈ (w.host! h).socks, trip sk = trip sk') : SubT w (w.setHost h g) := by
  intro i sk hs
  rw [C04.host!_setHost_eq] at hs
  split at hs
  · next hc => obtain ⟨rfl, _⟩ := hc; exact hg sk hs
  · exact ⟨sk, hs, rfl⟩

theorem subT_tag (w : World) (t : String) : SubT w (w.tag t) := subT_of_hosts (C04.hosts_tag w t)
theorem subT_panic (w : World) (t : String) : SubT w (w.panic t) := subT_of_hosts (C04.hosts_panic w t)

theorem SockC.of_sub {D : Dir} {w w' : World} (hs : SubT w w') (hc : SockC D w) : SockC D w' := by
  intro h sk' hm hch
  obtain ⟨sk, m, e⟩ := hs h sk' hm
  unfold trip at e
  simp only [Prod.mk.injEq] at e
  have := hc h sk m (by rw [e.2.2]; exact hch)
  rw [← e.1, ← e.2.1]
  exact this

theorem mem_map_trip_setAt (l : List Sock) (i : Nat) (g : Sock → Sock) (hg : ∀ s, trip (g s) = trip s) (sk' : Sock)
    (hm : sk' ∈ setAt l i g) : ∃ sk ∈ l, trip sk = trip sk' := by
  have : trip sk' ∈ (setAt l i g).map trip := List.mem_map_of_mem hm
  rw [C04.map_setAt l i g trip hg] at this
  obtain ⟨sk, m, e⟩ := List.mem_map.mp this
  exact ⟨sk, m, e⟩

theorem subT_removeSock (w : World) (h : Nat) (loc rem : Addr) : SubT w (w.removeSock h loc rem) := by
  unfold removeSock
  split
  · exact SubT.refl w
  · refine SubT.trans (subT_setHost w h _ ?_) (subT_of_hosts rfl)
    intro sk' hm
    exact ⟨sk', (List.eraseIdx_sublist _ _).subset hm, rfl⟩

theorem subT_setRx (w : World) (h i c : Nat) (b : List (Nat × Seg)) (rs : Nat) (items : List Seg) :
    SubT w (setRx w h i c b rs items) := by
  unfold setRx
  refine SubT.trans (subT_setHost w h (sockUpd i b rs) ?_) (subT_of_hosts rfl)
  intro sk' hm
  exact mem_map_trip_setAt _ i (fun s => { s with buf := b, recvSeq := rs }) (fun _ => rfl) sk' hm

theorem subT_sockBuffer (w : World) (h i seq : Nat) (seg : Seg) : SubT w (w.sockBuffer h i seq seg).2 := by
  rcases hd : drainBuf (chanOf w h i).cap (chanOf w h i).rxAlive (((sockAt w h i).buf ++ [(seq, seg)]).length + 1)
      ((sockAt w h i).buf ++ [(seq, seg)]) (sockAt w h i).recvSeq (chanOf w h i).items with ⟨b, rs, items, rst⟩
  obtain ⟨W, hbk, he⟩ := sockBuffer_eq w h i seq seg b rs items rst hd
  rw [he]
  exact SubT.trans (subT_of_hosts hbk.hosts) (subT_setRx W h i _ b rs items)

theorem subT_receive (w : World) (h : Nat) (e : Env) : SubT w (w.receive h e).2 := by
  cases hm : e.msg with
  | udp p =>
    rw [C09.receive_udp w h e p hm]
    have h1 : SubT w (w.setHost h (fun _ => (udpReceive w.cfg.udpCap (w.host! h) e.src e.dst p).1)) := by
      refine subT_setHost w h _ ?_
      intro sk' hs
      rw [C09.udpReceive_frame] at hs
      exact ⟨sk', hs, rfl⟩
    simp only
    split
    · exact h1
    · exact h1.trans (subT_tag _ _)
  | syn id =>
    unfold receive
    simp only [hm]
    split
    · exact (subT_of_hosts rfl : SubT w (w.dropSyn id)).trans (subT_tag _ _)
    · rename_i bi hbi
      try simp only
      have h0 : SubT w (if ((w.host! h).tcpBinds.getD bi default).deque.length == w.cfg.tcpCap then
          w.panic "server socket buffer full" else w) := by
        split
        · exact subT_panic _ _
        · exact SubT.refl _
      split
      · exact h0.trans (subT_setHost _ h _ (fun sk' hs => ⟨sk', hs, rfl⟩))
      · exact (h0.trans (subT_of_hosts rfl)).trans (subT_tag _ _)
  | data q p =>
    unfold receive
    simp only [hm]
    split
    · exact subT_sockBuffer w h _ q _
    · exact subT_tag _ _
  | fin q =>
    unfold receive
    simp only [hm]
    split
    · exact subT_sockBuffer w h _ q _
    · exact subT_tag _ _
  | rst =>
    unfold receive
    simp only [hm]
    exact (subT_removeSock w h _ _).trans (subT_tag _ _)

/-- the invariant of the delivery folds. -/
structure FInv (D : Dir) (w : World) : Prop where
  pre : Pre D w
  rd : RdOk D w
  sc : SockC D w

theorem FInv.of_q {D : Dir} {w w' : World} (hq : Q D w w') (hs : SubT w w') (hI : FInv D w) : FInv D w' :=
  ⟨hq.pre hI.pre, RdOk.of_view (hq.view hI.pre) hI.rd, hI.sc.of_sub hs⟩

/-- a RST of the direction: its arrival at `b` removes the reader's socket. -/
def dirRst (D : Dir) (e : Env) : Prop := e.src = D.loc ∧ e.dst = D.rem ∧ e.msg = .rst

theorem oursE_iff (D : Dir) (e : Env) : oursE D e = true ↔ e.src = D.loc ∧ e.dst = D.rem ∧ isDataMsg e.msg = true := by
  unfold oursE
  simp only [Bool.and_eq_true, beq_iff_eq, and_assoc]

/-- **`Host::receive_from_network`, any envelope at any host**: `tot` grows by one exactly when host `b` is
    handed a data segment of the direction; the invariant is kept.  Excluded: a RST of the direction at `b`,
    a recorded panic (duplicate segment). -/
theorem recv_step (D : Dir) (w : World) (h : Nat) (e : Env) (hI : FInv D w)
    (hnp : (w.receive h e).2.panicked = none) (hrst : h = D.b → ¬ dirRst D e) :
    tot D (w.receive h e).2 = tot D w + (if h = D.b ∧ oursE D e = true then 1 else 0) ∧ FInv D (w.receive h e).2 := by
  have hsub := subT_receive w h e
  have viaQ : Q D w (w.receive h e).2 → oursE D e = false ∨ h ≠ D.b →
      tot D (w.receive h e).2 = tot D w + (if h = D.b ∧ oursE D e = true then 1 else 0) ∧ FInv D (w.receive h e).2 := by
    intro q hno
    refine ⟨?_, hI.of_q q hsub⟩
    rw [tot_q q hI.pre]
    have : ¬ (h = D.b ∧ oursE D e = true) := by
      rcases hno with e1 | e1
      · rw [e1]; simp
      · exact fun hc => e1 hc.1
    rw [if_neg this]; rfl
  -- TCP segments
  have seg_case : ∀ seg, segOf e.msg = some seg → isDataMsg e.msg = seg.isData →
      tot D (w.receive h e).2 = tot D w + (if h = D.b ∧ oursE D e = true then 1 else 0) ∧ FInv D (w.receive h e).2 := by
    intro seg hseg hisd
    have hrs := receive_is_sockBuffer w h e seg hseg
    cases hf : findSock (w.host! h) e.dst e.src with
    | none =>
      have he := hrs.2 hf
      have q : Q D w (w.receive h e).2 := by rw [he]; exact q_tag D w _
      refine viaQ q ?_
      by_cases hb : h = D.b
      · left
        cases ho : oursE D e with
        | false => rfl
        | true =>
          exfalso
          have ho' := (oursE_iff D e).mp ho
          obtain ⟨i, hi⟩ := idx_of_pre hI.pre
          unfold findSock at hf
          rw [hb, ho'.1, ho'.2.1] at hf
          unfold sockP at hi
          rw [hf] at hi
          cases hi
      · exact Or.inr hb
    | some i =>
      have he := hrs.1 i hf
      have hpair : (sockAt w h i).loc = e.dst ∧ (sockAt w h i).rem = e.src := by
        unfold findSock at hf
        exact pair_of_findIdx hf
      by_cases hours : h = D.b ∧ e.dst = D.rem ∧ e.src = D.loc
      · obtain ⟨hb, hd, hs⟩ := hours
        subst hb
        have hi : (w.host! D.b).socks.findIdx? (sockP D) = some i := by
          unfold findSock at hf
          rw [hd, hs] at hf
          exact hf
        rw [he] at hnp ⊢
        obtain ⟨t, p, r⟩ := tot_sockBuffer_ours D w i (msgSeq e.msg) seg hI.pre hI.rd hi hnp
        have hsub' : SubT w (w.sockBuffer D.b i (msgSeq e.msg) seg).2 := by rw [← he]; exact hsub
        refine ⟨?_, ⟨p, r, hI.sc.of_sub hsub'⟩⟩
        rw [t]
        have : (oursE D e = true) ↔ seg.isData = true := by
          rw [oursE_iff, hisd]
          exact ⟨fun h => h.2.2, fun h => ⟨hs, hd, h⟩⟩
        by_cases hsd : seg.isData = true
        · rw [if_pos hsd, if_pos ⟨rfl, this.mpr hsd⟩]
        · rw [if_neg hsd, if_neg (fun hc => hsd (this.mp hc.2))]
      · -- another socket
        have hlen : i < (w.host! h).socks.length := findSock_lt hf
        have hmem : sockAt w h i ∈ (w.host! h).socks := by
          unfold sockAt
          rw [List.getD_eq_getElem?_getD, List.getElem?_eq_getElem hlen]
          exact List.getElem_mem hlen
        have hcne : D.c ≠ (sockAt w h i).chan := by
          intro hc
          have := hI.sc h _ hmem hc.symm
          exact hours ⟨this.1, by rw [← hpair.1]; exact this.2.1, by rw [← hpair.2]; exact this.2.2⟩
        have hsp : h = D.b → sockP D (sockAt w h i) = false := by
          intro hb
          exact sockP_false_of_pair hpair.1 hpair.2 (fun hc => hours ⟨hb, hc.1, hc.2⟩)
        rcases hd : drainBuf (chanOf w h i).cap (chanOf w h i).rxAlive (((sockAt w h i).buf ++ [(msgSeq e.msg, seg)]).length + 1)
            ((sockAt w h i).buf ++ [(msgSeq e.msg, seg)]) (sockAt w h i).recvSeq (chanOf w h i).items with ⟨b, rs, items, rst⟩
        obtain ⟨W, hbk, hse⟩ := sockBuffer_eq w h i (msgSeq e.msg) seg b rs items rst hd
        have q : Q D w (w.receive h e).2 := by
          rw [he, hse]
          simp only
          have q1 : Q D w W := fun hp => ⟨by obtain ⟨cov, p, rfl⟩ := hbk; exact hp.1, view_bk hbk⟩
          refine q1.trans (q_setRx_other D W h i _ b rs items hcne ?_)
          intro hb
          rw [hbk.sockAt]
          exact hsp hb
        refine viaQ q ?_
        by_cases hb : h = D.b
        · left
          cases ho : oursE D e with
          | false => rfl
          | true =>
            have ho' := (oursE_iff D e).mp ho
            exact absurd ⟨hb, ho'.2.1, ho'.1⟩ hours
        · exact Or.inr hb
  cases hm : e.msg with
  | data q p => exact seg_case (.data p) (by rw [hm]; rfl) (by rw [hm]; rfl)
  | fin q => exact seg_case .fin (by rw [hm]; rfl) (by rw [hm]; rfl)
  | rst =>
    have hno : oursE D e = false := by unfold oursE; rw [hm]; simp [isDataMsg]
    refine viaQ ?_ (Or.inl hno)
    unfold receive
    simp only [hm]
    refine (q_removeSock D w h _ _ ?_).tag _
    intro hc
    exact hrst hc.1 ⟨hc.2.2, hc.2.1, hm⟩
  | syn id =>
    have hno : oursE D e = false := by unfold oursE; rw [hm]; simp [isDataMsg]
    refine viaQ ?_ (Or.inl hno)
    unfold receive
    simp only [hm]
    split
    · exact (q_dropSyn D w id).tag _
    · rename_i bi hbi
      try simp only
      have h0 : Q D w (if ((w.host! h).tcpBinds.getD bi default).deque.length == w.cfg.tcpCap then
          w.panic "server socket buffer full" else w) := Q.ite _ (q_panic D _ _) (Q.refl D _)
      split
      · exact h0.trans (q_setHost_eq D _ h _ (by intro; rfl) (by intro; rfl))
      · exact (h0.trans (q_dropSyn D _ id)).tag _
  | udp p =>
    have hno : oursE D e = false := by unfold oursE; rw [hm]; simp [isDataMsg]
    refine viaQ ?_ (Or.inl hno)
    rw [C09.receive_udp w h e p hm]
    have h1 : Q D w (w.setHost h (fun _ => (udpReceive w.cfg.udpCap (w.host! h) e.src e.dst p).1)) :=
      q_setHost D w h _ (fun _ => by rw [C09.udpReceive_frame]) (fun _ => by rw [C09.udpReceive_frame])
    simp only
    split
    · exact h1
    · exact h1.tag _

end TV.C02
