import TvCore.Model.StreamId
/-
  `World.halfHost` (repair of F-C02-2, `Tcp::own_socket`): the host index under which a stream half looks its
  table entry up is the half's own host, or — when the address pair is held by an entry with another identity
  — an index that is no host, where every lookup finds nothing and every table update is a no-op.
-/
namespace TV.World
open TV

theorem halfHost_cases (w : World) (h : Nat) (loc rem : Addr) (sid : Nat) :
    w.halfHost h loc rem sid = h ∨ w.halfHost h loc rem sid = w.hosts.length := by
  unfold halfHost
  split
  · split
    · split
      · exact Or.inl rfl
      · exact Or.inr rfl
    · exact Or.inl rfl
  · exact Or.inl rfl

/-- without the repair nothing changes. -/
theorem halfHost_off (w : World) (h : Nat) (loc rem : Addr) (sid : Nat) (hf : w.cfg.fixStreamId = false) :
    w.halfHost h loc rem sid = h := by
  unfold halfHost; simp [hf]

/-- the half's entry is its own (or the pair is not in the table): the lookup is the plain one. -/
theorem halfHost_own (w : World) (h : Nat) (loc rem : Addr) (sid i : Nat) (hf : findSock (w.host! h) loc rem = some i)
    (hs : ((w.host! h).socks.getD i default).chan = sid) : w.halfHost h loc rem sid = h := by
  unfold halfHost
  split
  · simp only [hf]
    have : (((w.host! h).socks.getD i default).chan == sid) = true := by rw [hs]; exact beq_self_eq_true sid
    rw [if_pos this]
  · rfl

theorem halfHost_none (w : World) (h : Nat) (loc rem : Addr) (sid : Nat) (hf : findSock (w.host! h) loc rem = none) :
    w.halfHost h loc rem sid = h := by
  unfold halfHost; simp [hf]

/-- a stale half: the repair is on and the pair's entry has another identity. -/
theorem halfHost_stale (w : World) (h : Nat) (loc rem : Addr) (sid i : Nat) (hfx : w.cfg.fixStreamId = true)
    (hf : findSock (w.host! h) loc rem = some i) (hs : ((w.host! h).socks.getD i default).chan ≠ sid) :
    w.halfHost h loc rem sid = w.hosts.length := by
  unfold halfHost
  rw [if_pos hfx]
  simp only [hf]
  have : (((w.host! h).socks.getD i default).chan == sid) = false := beq_eq_false_iff_ne.mpr hs
  rw [this]
  rfl

theorem host!_ge (w : World) (n : Nat) (hn : w.hosts.length ≤ n) : w.host! n = default := by
  unfold host!
  rw [List.getD_eq_getElem?_getD, List.getElem?_eq_none hn]; rfl

theorem findSock_ge (w : World) (n : Nat) (hn : w.hosts.length ≤ n) (loc rem : Addr) : findSock (w.host! n) loc rem = none := by
  rw [host!_ge w n hn]; rfl

theorem setAt_ge' {α : Type} (l : List α) (i : Nat) (f : α → α) (h : l.length ≤ i) : setAt l i f = l := by
  induction l generalizing i with
  | nil => rfl
  | cons x xs ih =>
    cases i with
    | zero => simp at h
    | succ k => simp only [setAt]; rw [ih k (by simpa using h)]

theorem setHost_ge (w : World) (n : Nat) (hn : w.hosts.length ≤ n) (f : Host → Host) : w.setHost n f = w := by
  unfold setHost; rw [setAt_ge' _ _ _ hn]

theorem removeSock_ge (w : World) (n : Nat) (hn : w.hosts.length ≤ n) (loc rem : Addr) : w.removeSock n loc rem = w := by
  unfold removeSock; rw [findSock_ge w n hn]

theorem closeStreamHalf_ge (w : World) (n : Nat) (hn : w.hosts.length ≤ n) (loc rem : Addr) : w.closeStreamHalf n loc rem = w := by
  unfold closeStreamHalf
  rw [host!_ge w n hn]
  show (w.setHost n _) = w
  exact setHost_ge w n hn _

/-- **transfer**: a property of `removeSock` at the half's own host and of the unchanged world holds of
    `removeSock` at `halfHost`. -/
theorem removeSock_hh (P : World → Prop) (w : World) (h : Nat) (loc rem : Addr) (sid : Nat)
    (h1 : P (w.removeSock h loc rem)) (h2 : P w) : P (w.removeSock (w.halfHost h loc rem sid) loc rem) := by
  rcases halfHost_cases w h loc rem sid with e | e
  · rw [e]; exact h1
  · rw [e, removeSock_ge w _ (Nat.le_refl _)]; exact h2

theorem closeStreamHalf_hh (P : World → Prop) (w : World) (h : Nat) (loc rem : Addr) (sid : Nat)
    (h1 : P (w.closeStreamHalf h loc rem)) (h2 : P w) : P (w.closeStreamHalf (w.halfHost h loc rem sid) loc rem) := by
  rcases halfHost_cases w h loc rem sid with e | e
  · rw [e]; exact h1
  · rw [e, closeStreamHalf_ge w _ (Nat.le_refl _)]; exact h2

end TV.World
