import TvCore.Proofs.C04ReachLemmas
/-
  `Sh` (same socket objects, no new bind-table ports, at every host) for the functions of the World
  model that do not create objects or binds.
-/
namespace TV.C04
open TV TV.World

theorem sh_setChan (w : World) (c : Nat) (f : Chan → Chan) : Sh w (w.setChan c f) := sh_of_hosts rfl
theorem sh_dropSyn (w : World) (id : Nat) : Sh w (w.dropSyn id) := sh_of_hosts rfl
theorem sh_dropEnvs (w : World) (es : List Env) : Sh w (w.dropEnvs es) := sh_of_hosts (hosts_dropEnvs w es)
theorem sh_linkEnqueue (w : World) (li s d : Nat) (e : Env) : Sh w (w.linkEnqueue li s d e) :=
  sh_of_hosts (hosts_linkEnqueue w li s d e)
theorem sh_sendMessage (w : World) (e : Env) : Sh w (w.sendMessage e).2 := sh_of_hosts (hosts_sendMessage w e)

/-- a host update that leaves `objs`, `udp`, `tcpBinds` alone. -/
theorem sh_setHost_eq (w : World) (h : Nat) (f : Host → Host)
    (ho : (f (w.host! h)).objs = (w.host! h).objs) (hu : (f (w.host! h)).udp = (w.host! h).udp)
    (ht : (f (w.host! h)).tcpBinds = (w.host! h).tcpBinds) : Sh w (w.setHost h f) :=
  sh_setHost w h f (Shrink.of_eq ho hu ht)

theorem sh_sendLoopback (w : World) (h : Nat) (e : Env) : Sh w (w.sendLoopback h e) :=
  (sh_setHost_eq w h _ rfl rfl rfl).trans (sh_tag _ _)

theorem sh_netSend (w : World) (h : Nat) (e : Env) : Sh w (w.netSend h e).2 := by
  unfold netSend
  split
  · exact sh_sendLoopback w h e
  · exact sh_sendMessage w e

theorem sh_assignPort (w : World) (h : Nat) : Sh w (w.assignPort h).2 := by
  unfold assignPort
  simp only
  have h1 := sh_setHost_eq w h (fun hs => { hs with nextEph := (assignEphemeral w.cfg.ephLo w.cfg.ephHi
    (fun p => udpPortUsed (w.host! h) p || tcpPortUsed (w.host! h) p) (w.host! h).nextEph).2 }) rfl rfl rfl
  have h2 := sh_ite (w := w) ((assignEphemeral w.cfg.ephLo w.cfg.ephHi
    (fun p => udpPortUsed (w.host! h) p || tcpPortUsed (w.host! h) p) (w.host! h).nextEph).2 ≤ (w.host! h).nextEph)
    (h1.trans (sh_tag _ "wrap")) h1
  split
  · exact h2
  · exact h2.trans (sh_panic _ _)

theorem sh_removeSock (w : World) (h : Nat) (loc rem : Addr) : Sh w (w.removeSock h loc rem) := by
  unfold removeSock
  split
  · exact Sh.refl w
  · exact (sh_setHost_eq w h _ rfl rfl rfl).trans (sh_setChan _ _ _)

theorem sh_closeStreamHalf (w : World) (h : Nat) (loc rem : Addr) : Sh w (w.closeStreamHalf h loc rem) := by
  unfold closeStreamHalf
  simp only
  split
  · exact (sh_setHost_eq w h _ rfl rfl rfl).trans (sh_setChan _ _ _)
  · exact sh_setHost_eq w h _ rfl rfl rfl

theorem sh_newStream (w : World) (h : Nat) (loc rem : Addr) : Sh w (w.newStream h loc rem).2 := by
  unfold newStream newChan newFcPair
  simp only
  refine Sh.trans ?_ (sh_setHost_eq _ h _ rfl rfl rfl)
  refine Sh.trans (b := if (findSock (w.host! h) loc rem).isSome = true then w.panic "already connected" else w) ?_ (sh_of_hosts rfl)
  exact sh_ite _ (sh_panic _ _) (Sh.refl _)

theorem sh_sockBuffer (w : World) (h i seq : Nat) (seg : Seg) : Sh w (w.sockBuffer h i seq seg).2 := by
  unfold sockBuffer
  simp only
  refine Sh.trans ?_ (sh_setChan _ _ _)
  refine Sh.trans ?_ (sh_setHost_eq _ h _ rfl rfl rfl)
  refine Sh.trans ?_ (sh_ite _ (sh_tag _ _) (Sh.refl _))
  refine Sh.trans ?_ (sh_ite _ (sh_tag _ _) (Sh.refl _))
  exact sh_ite _ (sh_panic _ _) (Sh.refl _)

theorem shrink_udpReceive (cap : Nat) (hs : Host) (src dst : Addr) (p : Hex) :
    Shrink hs (udpReceive cap hs src dst p).1 := by
  unfold udpReceive
  split
  · exact Shrink.refl _
  · unfold udpReceiveAt
    split
    · exact Shrink.refl _
    · split
      · exact Shrink.refl _
      · split
        · exact Shrink.refl _
        · exact Shrink.of_ports rfl (map_setAt _ _ _ _ (fun _ => rfl)) rfl

theorem sh_receive (w : World) (h : Nat) (e : Env) : Sh w (w.receive h e).2 := by
  unfold receive
  simp only
  split
  · split
    · exact (sh_dropSyn _ _).trans (sh_tag _ _)
    · split
      · refine Sh.trans (sh_ite _ (sh_panic _ _) (Sh.refl _)) (sh_setHost _ h _ ?_)
        exact Shrink.of_ports rfl rfl (map_setAt _ _ _ _ (fun _ => rfl))
      · exact ((sh_ite _ (sh_panic _ _) (Sh.refl _)).trans (sh_dropSyn _ _)).trans (sh_tag _ _)
  · split
    · exact sh_sockBuffer _ _ _ _ _
    · exact sh_tag _ _
  · split
    · exact sh_sockBuffer _ _ _ _ _
    · exact sh_tag _ _
  · exact (sh_removeSock _ _ _ _).trans (sh_tag _ _)
  · next p _ =>
    refine Sh.trans (sh_setHost w h (fun _ => (udpReceive w.cfg.udpCap (w.host! h) e.src e.dst p).1)
      (shrink_udpReceive _ _ _ _ _)) ?_
    exact sh_ite _ (Sh.refl _) (sh_tag _ _)

theorem sh_deliverTo (w : World) (h : Nat) : Sh w (w.deliverTo h).2 := by
  unfold deliverTo
  simp only
  generalize (List.filter _ _) = idxs
  suffices H : ∀ (l : List Nat) (acc : List Env × World), Sh w acc.2 →
      Sh w (l.foldl (fun (acc : List Env × World) li =>
        match acc.2.links[li]? with
        | none => (acc.1, acc.2)
        | some l =>
          (acc.1 ++ (l.drain (w.host! h).ipnum).2.map (·.msg),
           (l.drain (w.host! h).ipnum).2.foldl (fun w (s : Sent Env) =>
              if (w.receive h s.msg).1 = true then
                (w.receive h s.msg).2.linkEnqueue li s.dst s.src { src := s.msg.dst, dst := s.msg.src, msg := .rst }
              else (w.receive h s.msg).2)
            { acc.2 with links := setAt acc.2.links li (fun _ => (l.drain (w.host! h).ipnum).1) })) acc).2 from
    H idxs ([], w) (Sh.refl w)
  intro l
  induction l with
  | nil => intro acc ha; exact ha
  | cons li ls ih =>
    intro acc ha
    simp only [List.foldl_cons]
    apply ih
    split
    · exact ha
    · refine ha.trans (Sh.trans (sh_of_hosts rfl) (sh_foldl _ (fun w s => ?_) _ _))
      split
      · exact (sh_receive _ _ _).trans (sh_linkEnqueue _ _ _ _ _)
      · exact sh_receive _ _ _

/-! ### destructors -/

theorem mem_map_filter {α β : Type} (l : List α) (q : α → Bool) (g : α → β) (y : β)
    (h : y ∈ (l.filter q).map g) : y ∈ l.map g := by
  obtain ⟨x, hx, rfl⟩ := List.mem_map.mp h
  exact List.mem_map.mpr ⟨x, (List.mem_filter.mp hx).1, rfl⟩

theorem sh_mgLeaveAll (w : World) (m : Addr) : Sh w (w.mgLeaveAll m) := sh_of_hosts rfl

theorem sh_udpUnbind (w : World) (h port : Nat) : Sh w (w.udpUnbind h port) := by
  unfold udpUnbind
  refine Sh.trans (sh_ite _ (Sh.refl _) (sh_panic _ _)) (sh_setHost _ h _ ?_)
  exact ⟨rfl, fun p hp => mem_map_filter _ _ _ _ hp, fun _ hp => hp⟩

theorem sh_foldl_dropSyn (l : List SynReq) (w : World) : Sh w (l.foldl (fun w s => w.dropSyn s.id) w) :=
  sh_of_hosts (hosts_foldl_dropSyn l w)

theorem sh_tcpUnbind (w : World) (h port : Nat) : Sh w (w.tcpUnbind h port) := by
  unfold tcpUnbind
  split
  · exact sh_panic _ _
  · refine Sh.trans (sh_setHost _ h _ ?_) (sh_foldl_dropSyn _ _)
    exact ⟨rfl, fun _ hp => hp, fun p hp => mem_map_filter _ _ _ _ hp⟩

theorem sh_dropRead (w : World) (h : Nat) (r : RdH) : Sh w (w.dropRead h r) := by
  unfold dropRead
  simp only
  refine Sh.trans (sh_setChan w r.chan _) (sh_ite _ ?_ (sh_closeStreamHalf _ _ _ _))
  exact ((sh_netSend _ _ _).trans (sh_removeSock _ _ _ _)).trans (sh_tag _ _)

theorem sh_dropWrite (w : World) (h : Nat) (x : WrH) : Sh w (w.dropWrite h x) := by
  unfold dropWrite
  refine Sh.trans ?_ (sh_closeStreamHalf _ _ _ _)
  split
  · split
    · exact (sh_setHost_eq w h _ rfl rfl rfl).trans (sh_netSend _ _ _)
    · exact Sh.refl w
  · exact Sh.refl w

theorem sh_dropObj (w : World) (h : Nat) (o : Obj) : Sh w (w.dropObj h o) := by
  unfold dropObj
  cases o with
  | udp loc stash => exact (sh_mgLeaveAll w _).trans (sh_udpUnbind _ _ _)
  | listener loc => exact sh_tcpUnbind w _ _
  | connecting id loc rem chan fcW =>
    simp only
    have h1 : Sh w { w with syns := setAt w.syns id fun c => { c with rxAlive := false } } := sh_of_hosts rfl
    have h3 := (h1.trans (sh_setChan _ chan fun c => { c with rxAlive := false })).trans (sh_tag _ "connectdropped")
    split
    · exact h3.trans (sh_removeSock _ _ _ _)
    · exact h3
  | stream rd wr =>
    simp only
    have h1 : Sh w (match rd with | some r => w.dropRead h r | none => w) := by
      cases rd with
      | some r => exact sh_dropRead w h r
      | none => exact Sh.refl w
    cases wr with
    | some x => exact h1.trans (sh_dropWrite _ h x)
    | none => exact h1

theorem sh_foldl_dropObj (h : Nat) (objs : List (Nat × Obj)) (w : World) :
    Sh w (objs.foldl (fun w p => w.dropObj h p.2) w) :=
  sh_foldl _ (fun w p => sh_dropObj w h p.2) objs w

/-! ### host-level calls that create no object and no bind -/

theorem sh_udpFanout (h : Nat) (src : Addr) (p : Hex) (loopOk : Addr → Bool) (ds : List Addr) (w : World) :
    Sh w (udpFanout w h src p loopOk ds).1 := by
  induction ds generalizing w with
  | nil => exact Sh.refl w
  | cons d ds ih =>
    unfold udpFanout
    split
    · exact Sh.trans (sh_ite _ (sh_sendLoopback _ _ _) (Sh.refl _)) (ih _)
    · simp only
      split
      · exact (sh_sendMessage _ _).trans (ih _)
      · exact sh_sendMessage _ _

theorem sh_opUdpSend (w : World) (h s : Nat) (dst : Addr) (p : Hex) : Sh w (w.opUdpSend h s dst p).1 := by
  unfold opUdpSend
  simp only
  repeat' split
  all_goals first
    | exact Sh.refl w
    | exact (sh_tag w _).trans (sh_udpFanout _ _ _ _ _ _)
    | exact sh_netSend _ _ _

theorem shrink_mapUdp (hs : Host) (g : UdpBind → UdpBind) (hg : ∀ b, (g b).port = b.port) :
    Shrink hs { hs with udp := hs.udp.map g } := by
  refine Shrink.of_ports rfl ?_ rfl
  simp only [uports, List.map_map]
  exact List.map_congr_left (fun b _ => hg b)

theorem sh_opUdpConnect (w : World) (h s : Nat) (dst : Addr) : Sh w (w.opUdpConnect h s dst).1 := by
  unfold opUdpConnect
  split
  · exact sh_setHost w h _ (shrink_mapUdp _ _ (fun b => by split <;> rfl))
  · exact Sh.refl w

theorem sh_opUdpSetBcast (w : World) (h s : Nat) (on : Bool) : Sh w (w.opUdpSetBcast h s on).1 := by
  unfold opUdpSetBcast
  split
  · exact sh_setHost w h _ (shrink_mapUdp _ _ (fun b => by split <;> rfl))
  · exact Sh.refl w

theorem sh_opUdpSetMloop (w : World) (h s : Nat) (on : Bool) : Sh w (w.opUdpSetMloop h s on).1 := by
  unfold opUdpSetMloop
  split
  · exact sh_setHost w h _ (shrink_mapUdp _ _ (fun b => by split <;> rfl))
  · exact Sh.refl w

theorem sh_opUdpJoin (w : World) (h s : Nat) (g iface : Ip) : Sh w (w.opUdpJoin h s g iface).1 := by
  unfold opUdpJoin
  repeat' split
  all_goals exact sh_of_hosts rfl

theorem sh_opUdpLeave (w : World) (h s : Nat) (g iface : Ip) : Sh w (w.opUdpLeave h s g iface).1 := by
  unfold opUdpLeave
  simp only
  repeat' split
  all_goals exact sh_of_hosts rfl

theorem sh_tryWrite (w : World) (h : Nat) (x : WrH) (p : Hex) : Sh w (w.tryWrite h x p).1 := by
  unfold tryWrite
  simp only
  have h1 : Sh w { w with fcs := setAt w.fcs x.fc (· - 1) } := sh_of_hosts rfl
  repeat' split
  all_goals first
    | exact Sh.refl w
    | exact sh_tag w _
    | exact h1
    | exact (h1.trans (sh_setHost_eq _ h _ rfl rfl rfl)).trans (sh_netSend _ _ _)

theorem sh_opTcpWrite (w : World) (h s : Nat) (p : Hex) (poll : Bool) : Sh w (w.opTcpWrite h s p poll).1 := by
  unfold opTcpWrite
  simp only
  repeat' split
  all_goals first
    | exact Sh.refl w
    | exact sh_tryWrite _ _ _ _

theorem sh_redrain (w : World) (h : Nat) (r : RdH) : Sh w (w.redrain h r) := by
  unfold redrain
  simp only
  repeat' split
  all_goals first
    | exact Sh.refl w
    | exact (sh_setHost_eq _ h _ rfl rfl rfl).trans (sh_setChan _ _ _)

theorem sh_acceptLoop (w : World) (h port : Nat) : Sh w (w.acceptLoop h port).1 := by
  unfold acceptLoop
  split
  · exact sh_panic _ _
  · next bi _ =>
    simp only
    have h1 : Sh w (w.setHost h fun hs => { hs with tcpBinds := setAt hs.tcpBinds bi fun b =>
        { b with deque := (acceptPick w.synAlive ((w.host! h).tcpBinds.getD bi default).deque).2 } }) :=
      sh_setHost w h _ (Shrink.of_ports rfl rfl (map_setAt _ _ _ _ (fun _ => rfl)))
    have h2 := h1.trans (sh_ite (((w.host! h).tcpBinds.getD bi default).deque.length -
        (acceptPick w.synAlive ((w.host! h).tcpBinds.getD bi default).deque).2.length -
        (if (acceptPick w.synAlive ((w.host! h).tcpBinds.getD bi default).deque).1.isSome = true then 1 else 0) > 0)
        (sh_tag _ "skipdead") (Sh.refl _))
    split
    · exact h2.trans (sh_of_hosts rfl)
    · exact h2

theorem sh_onLink (w : World) (x y : Nat) (f : Link Env → Link Env × List (Sent Env)) : Sh w (w.onLink x y f) :=
  sh_of_hosts (WorldLinks.onLink_hosts w x y f)

theorem sh_netCtl (op : NetCtl) (w : World) (x y : Nat) : Sh w (op.apply w x y) := by
  cases op <;> exact sh_onLink w x y _

theorem sh_forPairs (w : World) (xs ys : List Nat) (f : World → Nat → Nat → World) (hf : ∀ w x y, Sh w (f w x y)) :
    Sh w (w.forPairs xs ys f) := by
  unfold forPairs
  refine sh_foldl _ (fun w x => sh_foldl _ (fun w y => ?_) _ _) _ _
  exact sh_ite _ (hf _ _ _) (Sh.refl _)

theorem sh_ctlDeliver (w : World) (x y i : Nat) : Sh w (w.ctlDeliver x y i) := sh_onLink w x y _
theorem sh_ctlDeliverAll (w : World) (x y : Nat) : Sh w (ctlDeliverAll w x y) := sh_onLink w x y _
theorem sh_stepBegin (w : World) : Sh w w.stepBegin := sh_of_hosts rfl
theorem sh_dnsLookup (w : World) (name : String) : Sh w (w.dnsLookup name).2 := sh_of_hosts rfl

theorem sh_turnBegin (w : World) (h : Nat) : Sh w (w.turnBegin h) := by
  unfold turnBegin
  refine sh_setHost w h _ ?_
  unfold hostTurnBegin
  simp only
  repeat' split
  all_goals exact Shrink.of_eq rfl rfl rfl

theorem sh_turnStep (w : World) (h : Nat) : Sh w (turnStep w h).2 := by
  unfold turnStep
  exact ((sh_turnBegin w h).trans (sh_deliverTo _ h)).trans (sh_of_hosts rfl)

theorem sh_loStep (w : World) (h i : Nat) : Sh w (loStep w h i).1 := by
  unfold loStep
  simp only
  have h1 := (sh_setHost_eq w h (fun hs => { hs with lo := hs.lo.eraseIdx i }) rfl rfl rfl).trans
    (sh_receive _ h ((w.host! h).lo.getD i default))
  split
  · exact h1.trans (sh_receive _ _ _)
  · exact h1

theorem fst_mk {α β : Type} (a : α) (b : β) : (a, b).1 = a := rfl

/- `hostSleep` writes `hnow := hs.hnow + ms * 1000000`.  A `rfl` about another field of that record makes
   the kernel compare the record with `hs` field by field (structure eta), and `hs.hnow =?= hs.hnow + ms * 1000000`
   is evaluated by unfolding `Nat.mul` a million times.  So the field facts are proved for a variable `W`
   and only instantiated. -/
theorem shrink_setHnow (hs : Host) (W : Nat) (b : Bool) : Shrink hs (({ hs with hnow := W }, b) : Host × Bool).1 :=
  Shrink.of_eq rfl rfl rfl
theorem shrink_setWake (hs : Host) (W : Option Nat) (b : Bool) : Shrink hs (({ hs with wake := W }, b) : Host × Bool).1 :=
  Shrink.of_eq rfl rfl rfl
theorem shrink_ite_fst {c : Prop} [Decidable c] {hs : Host} {a b : Host × Bool} (ha : Shrink hs a.1) (hb : Shrink hs b.1) :
    Shrink hs (if c then a else b).1 := by split <;> assumption

theorem shrink_hostSleep (A : Nat) (hs : Host) (ms : Nat) : Shrink hs (hostSleep A hs ms).1 := by
  unfold hostSleep
  exact shrink_ite_fst (shrink_setHnow _ _ _) (shrink_setWake _ _ _)

/-- (by rewriting only: the kernel must never be made to evaluate `hostSleep`, which compares
    against `ms * 1000000` on open terms) -/
theorem sh_hopSleep (w : World) (h ms : Nat) : Sh w (hopSleep w h ms).1 := by
  rw [hopSleep, fst_mk]
  exact sh_setHost w h _ (shrink_hostSleep _ _ _)

theorem sh_stepEnd (w : World) : Sh w w.stepEnd := by
  refine ⟨by simp [stepEnd], fun i => ?_⟩
  unfold stepEnd host!
  simp only [List.getD_eq_getElem?_getD, List.getElem?_map]
  cases w.hosts[i]? with
  | none => exact Shrink.refl _
  | some a => exact Shrink.of_eq rfl rfl rfl

end TV.C04
