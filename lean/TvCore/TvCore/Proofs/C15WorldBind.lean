import TvCore.Proofs.C15WorldOps
import Std.Data.String.ToNat
/-
  Helper lemmas for `Props/C15World.lean`: result strings of the bind calls, what `assignPort`
  does exactly (result, cursor, tables, panic flag), the two bind calls as equations.
-/
namespace TV.C15
open TV TV.World TV.C04

/-! ### result strings -/

theorem okp_eq (p : Nat) : s!"ok {p}" = "ok " ++ Nat.repr p := rfl

theorem okp_inj {p q : Nat} (h : s!"ok {p}" = s!"ok {q}") : p = q := by
  rw [okp_eq, okp_eq] at h
  exact Nat.repr_injective ((String.append_right_inj _).mp h)

theorem okp_toList (p : Nat) : (s!"ok {p}").toList = 'o' :: 'k' :: ' ' :: (Nat.repr p).toList := by
  rw [okp_eq]; simp [String.toList_append]

theorem okp_ne_panic (p : Nat) : s!"ok {p}" ≠ "panic" := by
  intro h; have := congrArg String.toList h; rw [okp_toList] at this; simp at this
theorem okp_ne_addrinuse (p : Nat) : s!"ok {p}" ≠ "err addrinuse" := by
  intro h; have := congrArg String.toList h; rw [okp_toList] at this; simp at this
theorem okp_ne_notavail (p : Nat) : s!"ok {p}" ≠ "err addrnotavailable" := by
  intro h; have := congrArg String.toList h; rw [okp_toList] at this; simp at this

/-! ### the scan -/

/-- what `Host::assign_ephemeral_port` consults: UDP binds, TCP listeners and the local ports of the
    stream table — jointly, whatever the protocol of the socket that asks. -/
def portUsed (hs : Host) : Nat → Bool := fun p => udpPortUsed hs p || tcpPortUsed hs p

/-- the cursor position after port `p` has been handed out. -/
def nextCur (lo hi p : Nat) : Nat := if p = hi then lo else p + 1

theorem scan_cursor_succ (lo hi : Nat) (used : Nat → Bool) :
    ∀ (fuel cur p c : Nat), scanPorts lo hi used fuel cur = (some p, c) → c = nextCur lo hi p
  | 0, cur, p, c, h => by simp [scanPorts] at h
  | fuel + 1, cur, p, c, h => by
    rw [scan_succ] at h
    split at h
    · exact scan_cursor_succ lo hi used fuel _ p c h
    · simp only [Prod.mk.injEq, Option.some.injEq] at h
      obtain ⟨rfl, rfl⟩ := h
      unfold nextCur
      by_cases he : cur = hi <;> simp [he]

/-- the scan `assignPort` runs on host `h`. -/
def scanOf (w : World) (h : Nat) : Option Nat × Nat :=
  assignEphemeral w.cfg.ephLo w.cfg.ephHi (portUsed (w.host! h)) (w.host! h).nextEph

/-- the world after `assignPort` when a port was found: the cursor is written (coverage tag "wrap"
    when it did not move forward). -/
def cursorSet (w : World) (h : Nat) : World :=
  if (scanOf w h).2 ≤ (w.host! h).nextEph then
    (w.setHost h fun hs => { hs with nextEph := (scanOf w h).2 }).tag "wrap"
  else w.setHost h fun hs => { hs with nextEph := (scanOf w h).2 }

theorem assignPort_eq (w : World) (h : Nat) :
    w.assignPort h = ((scanOf w h).1,
      match (scanOf w h).1 with
      | some _ => cursorSet w h
      | none => (cursorSet w h).panic "ports exhausted") := by
  unfold assignPort cursorSet scanOf portUsed
  simp only
  split <;> rename_i heq <;> rw [heq]

theorem assignPort_fst (w : World) (h : Nat) : (w.assignPort h).1 = (scanOf w h).1 := by
  rw [assignPort_eq]

theorem assignPort_some (w : World) (h p : Nat) (hp : (w.assignPort h).1 = some p) :
    w.assignPort h = (some p, cursorSet w h) := by
  rw [assignPort_fst] at hp
  rw [assignPort_eq, hp]

theorem assignPort_none (w : World) (h : Nat) (hp : (w.assignPort h).1 = none) :
    w.assignPort h = (none, (cursorSet w h).panic "ports exhausted") := by
  rw [assignPort_fst] at hp
  rw [assignPort_eq, hp]

theorem host!_cursorSet (w : World) (h i : Nat) :
    (cursorSet w h).host! i =
      if i = h ∧ h < w.hosts.length then { w.host! h with nextEph := (scanOf w h).2 } else w.host! i := by
  unfold cursorSet
  split
  · rw [C12.host!_tag, host!_setHost_eq]
  · rw [host!_setHost_eq]

theorem panicked_cursorSet (w : World) (h : Nat) : (cursorSet w h).panicked = w.panicked := by
  unfold cursorSet
  split
  · rw [panicked_tag]; rfl
  · rfl

theorem hostsLen_cursorSet (w : World) (h : Nat) : (cursorSet w h).hosts.length = w.hosts.length := by
  unfold cursorSet
  split
  · rw [hosts_tag]; simp [setHost]
  · simp [setHost]

theorem cfg_cursorSet (w : World) (h : Nat) : (cursorSet w h).cfg = w.cfg := by
  unfold cursorSet
  split
  · rw [cfg_tag]; rfl
  · rfl

/-! ### freshness -/

/-- port `p` is used by nothing on host `h`: no UDP bind, no TCP listener, no stream-table entry
    (of whatever state) has it as its local port; and it lies in the configured ephemeral range. -/
structure Fresh (w : World) (h p : Nat) : Prop where
  lo : w.cfg.ephLo ≤ p
  hi : p ≤ w.cfg.ephHi
  udp : ∀ b ∈ (w.host! h).udp, b.port ≠ p
  lis : ∀ b ∈ (w.host! h).tcpBinds, b.port ≠ p
  str : ∀ s ∈ (w.host! h).socks, s.loc.port ≠ p

theorem portUsed_false_iff (hs : Host) (p : Nat) :
    portUsed hs p = false ↔
      (∀ b ∈ hs.udp, b.port ≠ p) ∧ (∀ b ∈ hs.tcpBinds, b.port ≠ p) ∧ (∀ s ∈ hs.socks, s.loc.port ≠ p) := by
  unfold portUsed udpPortUsed tcpPortUsed
  simp only [Bool.or_eq_false_iff, List.any_eq_false, beq_iff_eq]

theorem portUsed_true_iff (hs : Host) (p : Nat) :
    portUsed hs p = true ↔
      (∃ b ∈ hs.udp, b.port = p) ∨ (∃ b ∈ hs.tcpBinds, b.port = p) ∨ (∃ s ∈ hs.socks, s.loc.port = p) := by
  unfold portUsed udpPortUsed tcpPortUsed
  simp only [Bool.or_eq_true, List.any_eq_true, beq_iff_eq]

/-- every port of the ephemeral range of host `h` is in use. -/
def Exhausted (w : World) (h : Nat) : Prop :=
  ∀ p, w.cfg.ephLo ≤ p → p ≤ w.cfg.ephHi → portUsed (w.host! h) p = true

theorem scanOf_some (w : World) (h p : Nat) (hr : InRange w.cfg.ephLo w.cfg.ephHi (w.host! h))
    (hp : (scanOf w h).1 = some p) :
    Fresh w h p ∧ (scanOf w h).2 = nextCur w.cfg.ephLo w.cfg.ephHi p := by
  have e : scanOf w h = (some p, (scanOf w h).2) := by rw [← hp]
  unfold scanOf at e
  have hf := assign_fresh _ _ _ _ _ _ hr.1 hr.2 e
  have hc := scan_cursor_succ _ _ _ _ _ _ _ e
  obtain ⟨h1, h2, h3⟩ := (portUsed_false_iff _ _).mp hf.1
  exact ⟨⟨hf.2.1, hf.2.2.1, h1, h2, h3⟩, hc⟩

theorem scanOf_none (w : World) (h : Nat) (hr : InRange w.cfg.ephLo w.cfg.ephHi (w.host! h))
    (hp : (scanOf w h).1 = none) : Exhausted w h := by
  have e : scanOf w h = (none, (scanOf w h).2) := by rw [← hp]
  unfold scanOf at e
  exact assign_none_all_used _ _ _ _ hr.1 hr.2 _ e

/-! ### the bind calls as equations -/

/-- the world after a successful UDP bind of address `a'` in slot `s`. -/
def udpBound (w : World) (h s : Nat) (a' : Addr) : World :=
  (w.setHost h fun hs => { hs with udp := hs.udp ++ [{ port := a'.port, bindAddr := a' }] }).setObj h s (.udp a' none)

/-- the world after a successful listener bind of address `a'` in slot `s`. -/
def tcpBound (w : World) (h s : Nat) (a' : Addr) : World :=
  (w.setHost h fun hs => { hs with tcpBinds := hs.tcpBinds ++ [{ port := a'.port, bindAddr := a' }] }).setObj h s (.listener a')

/-- `Udp::bind` once the port is known: `AddrInUse` iff the port is in the UDP table. -/
def udpBindCore (w : World) (h s : Nat) (a' : Addr) : World × String :=
  if udpPortUsed (w.host! h) a'.port then (w.tag "addrinuse", "err addrinuse")
  else (udpBound w h s a', s!"ok {a'.port}")

/-- `Tcp::bind` once the port is known: `AddrInUse` iff the port is in the listener table. -/
def tcpBindCore (w : World) (h s : Nat) (a' : Addr) : World × String :=
  if (w.host! h).tcpBinds.any (·.port == a'.port) then (w.tag "addrinuse", "err addrinuse")
  else (tcpBound w h s a', s!"ok {a'.port}")

theorem opUdpBind_explicit (w : World) (h s : Nat) (a : Addr) (ha : a.port ≠ 0) (hip : bindIpOk a.ip = true) :
    w.opUdpBind h s a = udpBindCore w h s a := by
  have h0 : (a.port == 0) = false := by simpa using ha
  unfold opUdpBind udpBindCore udpBound
  simp only [hip, h0, Bool.not_true, Bool.false_eq_true, if_false]

theorem opTcpBind_explicit (w : World) (h s : Nat) (a : Addr) (ha : a.port ≠ 0) (hip : bindIpOk a.ip = true) :
    w.opTcpBind h s a = tcpBindCore w h s a := by
  have h0 : (a.port == 0) = false := by simpa using ha
  unfold opTcpBind tcpBindCore tcpBound
  simp only [hip, h0, Bool.not_true, Bool.false_eq_true, if_false]

theorem opUdpBind_port0 (w : World) (h s : Nat) (a : Addr) (ha : a.port = 0) (hip : bindIpOk a.ip = true) :
    w.opUdpBind h s a =
      match (w.assignPort h).1 with
      | none => ((w.assignPort h).2, "panic")
      | some p => udpBindCore (w.assignPort h).2 h s { ip := a.ip, port := p } := by
  have h0 : (a.port == 0) = true := by simp [ha]
  unfold opUdpBind udpBindCore udpBound
  simp only [hip, h0, Bool.not_true, Bool.false_eq_true, if_false, if_true]
  cases hap : w.assignPort h with
  | mk r w1 => cases r <;> rfl

theorem opTcpBind_port0 (w : World) (h s : Nat) (a : Addr) (ha : a.port = 0) (hip : bindIpOk a.ip = true) :
    w.opTcpBind h s a =
      match (w.assignPort h).1 with
      | none => ((w.assignPort h).2, "panic")
      | some p => tcpBindCore (w.assignPort h).2 h s { ip := a.ip, port := p } := by
  have h0 : (a.port == 0) = true := by simp [ha]
  unfold opTcpBind tcpBindCore tcpBound
  simp only [hip, h0, Bool.not_true, Bool.false_eq_true, if_false, if_true]
  cases hap : w.assignPort h with
  | mk r w1 => cases r <;> rfl

theorem opBind_badip (w : World) (h s : Nat) (a : Addr) (hip : bindIpOk a.ip = false) :
    w.opUdpBind h s a = (w, "err addrnotavailable") ∧ w.opTcpBind h s a = (w, "err addrnotavailable") := by
  unfold opUdpBind opTcpBind
  simp [hip]

/-- host tables after a successful UDP bind. -/
theorem host!_udpBound (w : World) (h s : Nat) (a' : Addr) (hh : h < w.hosts.length) :
    (udpBound w h s a').host! h =
      { w.host! h with udp := (w.host! h).udp ++ [{ port := a'.port, bindAddr := a' }],
                       objs := (w.host! h).objs.filter (·.1 != s) ++ [(s, .udp a' none)] } := by
  unfold udpBound setObj
  rw [setHost_setHost, host!_setHost_self _ _ _ hh]

theorem host!_tcpBound (w : World) (h s : Nat) (a' : Addr) (hh : h < w.hosts.length) :
    (tcpBound w h s a').host! h =
      { w.host! h with tcpBinds := (w.host! h).tcpBinds ++ [{ port := a'.port, bindAddr := a' }],
                       objs := (w.host! h).objs.filter (·.1 != s) ++ [(s, .listener a')] } := by
  unfold tcpBound setObj
  rw [setHost_setHost, host!_setHost_self _ _ _ hh]

theorem host!_udpBound_ne (w : World) (h s i : Nat) (a' : Addr) (hi : i ≠ h) : (udpBound w h s a').host! i = w.host! i := by
  unfold udpBound setObj
  rw [setHost_setHost, host!_setHost_eq]
  simp [hi]

theorem host!_tcpBound_ne (w : World) (h s i : Nat) (a' : Addr) (hi : i ≠ h) : (tcpBound w h s a').host! i = w.host! i := by
  unfold tcpBound setObj
  rw [setHost_setHost, host!_setHost_eq]
  simp [hi]

/-! ### the tail of `opTcpConnect` on the connecting host

  `TailFr h w w'`: on host `h` both bind tables and the cursor are the same and every stream-table
  entry of `w'` has the address pair of an entry of `w` (entries are only removed or rewritten in
  place). -/

def TailFr (h : Nat) (w w' : World) : Prop :=
  (w'.host! h).udp = (w.host! h).udp ∧ (w'.host! h).tcpBinds = (w.host! h).tcpBinds ∧
  (w'.host! h).nextEph = (w.host! h).nextEph ∧
  ∀ sk ∈ (w'.host! h).socks, ∃ sk0 ∈ (w.host! h).socks, pairOf sk0 = pairOf sk

theorem TailFr.refl (h : Nat) (w : World) : TailFr h w w := ⟨rfl, rfl, rfl, fun sk hs => ⟨sk, hs, rfl⟩⟩

theorem TailFr.trans {h : Nat} {a b c : World} (h1 : TailFr h a b) (h2 : TailFr h b c) : TailFr h a c := by
  refine ⟨h2.1.trans h1.1, h2.2.1.trans h1.2.1, h2.2.2.1.trans h1.2.2.1, fun sk hs => ?_⟩
  obtain ⟨s1, hs1, e1⟩ := h2.2.2.2 sk hs
  obtain ⟨s0, hs0, e0⟩ := h1.2.2.2 s1 hs1
  exact ⟨s0, hs0, e0.trans e1⟩

theorem tailFr_of_hosts {h : Nat} {w w' : World} (e : w'.hosts = w.hosts) : TailFr h w w' := by
  have : w'.host! h = w.host! h := C12.host!_of_hosts e h
  unfold TailFr; rw [this]; exact TailFr.refl h w

theorem tailFr_setHost (w : World) (h : Nat) (f : Host → Host) (hu : ∀ a, (f a).udp = a.udp)
    (ht : ∀ a, (f a).tcpBinds = a.tcpBinds) (hn : ∀ a, (f a).nextEph = a.nextEph)
    (hs : ∀ a, ∀ sk ∈ (f a).socks, ∃ sk0 ∈ a.socks, pairOf sk0 = pairOf sk) : TailFr h w (w.setHost h f) := by
  unfold TailFr
  rw [host!_setHost]
  split
  · exact ⟨hu _, ht _, hn _, hs _⟩
  · exact TailFr.refl h w

theorem tailFr_tag (w : World) (h : Nat) (t : String) : TailFr h w (w.tag t) := tailFr_of_hosts (hosts_tag w t)
theorem tailFr_panic (w : World) (h : Nat) (t : String) : TailFr h w (w.panic t) := tailFr_of_hosts (hosts_panic w t)
theorem tailFr_setChan (w : World) (h c : Nat) (f : Chan → Chan) : TailFr h w (w.setChan c f) := tailFr_of_hosts rfl

theorem tailFr_netSend (w : World) (h : Nat) (e : Env) : TailFr h w (w.netSend h e).2 := by
  unfold netSend
  split
  · unfold sendLoopback
    refine TailFr.trans ?_ (tailFr_tag _ _ _)
    exact tailFr_setHost w h _ (fun _ => rfl) (fun _ => rfl) (fun _ => rfl) (fun _ sk hs => ⟨sk, hs, rfl⟩)
  · exact tailFr_of_hosts (hosts_sendMessage w e)

theorem tailFr_removeSock (w : World) (h : Nat) (loc rem : Addr) : TailFr h w (w.removeSock h loc rem) := by
  unfold removeSock
  split
  · exact TailFr.refl h w
  · refine TailFr.trans ?_ (tailFr_setChan _ _ _ _)
    refine tailFr_setHost w h _ (fun _ => rfl) (fun _ => rfl) (fun _ => rfl) (fun a sk hs => ?_)
    exact ⟨sk, (List.eraseIdx_sublist _ _).subset hs, rfl⟩

theorem tailFr_setObj (w : World) (h s : Nat) (o : Obj) : TailFr h w (w.setObj h s o) :=
  tailFr_setHost w h _ (fun _ => rfl) (fun _ => rfl) (fun _ => rfl) (fun _ sk hs => ⟨sk, hs, rfl⟩)

theorem tailFr_delObj (w : World) (h s : Nat) : TailFr h w (w.delObj h s) :=
  tailFr_setHost w h _ (fun _ => rfl) (fun _ => rfl) (fun _ => rfl) (fun _ sk hs => ⟨sk, hs, rfl⟩)

theorem tailFr_connectPoll (w : World) (h s : Nat) : TailFr h w (w.connectPoll h s).1 := by
  unfold connectPoll
  split
  · next id loc rem chan fcW hg =>
    split
    · exact TailFr.refl h w
    · exact tailFr_setObj _ _ _ _
    · simp only
      have h2 := (tailFr_delObj w h s).trans (tailFr_setChan _ h chan fun c => { c with rxAlive := false })
      refine TailFr.trans ?_ (tailFr_tag _ _ "refused")
      split
      · exact h2.trans (tailFr_removeSock _ _ _ _)
      · exact h2.trans (tailFr_tag _ _ _)
  · exact TailFr.refl h w

/-- host `h` right before the SYN is handed to the network. -/
theorem host!_connectPre (w1 : World) (h p : Nat) (dst : Addr) (hh : h < w1.hosts.length) :
    ∃ chan fcW, (C12.connectPre w1 h p dst).host! h =
      { w1.host! h with socks := (w1.host! h).socks ++
          [{ loc := C12.connectLocal h dst p, rem := dst, chan := chan, fcW := fcW }] } := by
  obtain ⟨pn, hpre, _, _⟩ := C12.connectPre_world w1 h p dst
  refine ⟨w1.chans.length, w1.fcs.length, ?_⟩
  rw [hpre]
  exact C12.host!_of_setAt (w := w1) (h := h) (f := fun hs => { hs with socks := hs.socks ++
    [{ loc := C12.connectLocal h dst p, rem := dst, chan := w1.chans.length, fcW := w1.fcs.length }] }) rfl hh

/-- from the world before the SYN is sent to the end of the call (when the `assert_ne` does not fire). -/
theorem tailFr_connectTail (w1 : World) (h s p : Nat) (dst : Addr) (hne : (C12.connectLocal h dst p == dst) = false) :
    TailFr h (C12.connectPre w1 h p dst) (C12.connectTail w1 h s p dst).1 := by
  unfold C12.connectTail
  simp only [hne, Bool.false_eq_true, if_false]
  have s4 := tailFr_netSend (C12.connectPre w1 h p dst) h
    { src := C12.connectLocal h dst p, dst := dst, msg := .syn (w1.newStream h (C12.connectLocal h dst p) dst).2.syns.length }
  split
  · refine TailFr.trans ?_ (tailFr_tag _ _ "refused")
    have s5 := s4.trans (tailFr_setChan _ h (w1.newStream h (C12.connectLocal h dst p) dst).1.1 fun c => { c with rxAlive := false })
    split
    · exact s5.trans (tailFr_removeSock _ _ _ _)
    · exact s5.trans (tailFr_tag _ _ _)
  · exact (s4.trans (tailFr_setObj _ h s _)).trans (tailFr_connectPoll _ h s)

end TV.C15
