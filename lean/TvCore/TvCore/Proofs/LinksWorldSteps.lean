import TvCore.Proofs.LinksWorldOps
/-
  World ⟶ Link refinement: the controller calls (`onLink`, `forPairs`), the step clock, `register`, and
  `Topology::deliver_messages` (`deliverTo`), each described exactly as operations on link `li`.
-/
namespace TV.LW
open TV TV.World

/-! ### controller calls -/

/-- the link-control call on the pair `x`, `y` concerns link `li`. -/
def Touches (w : World) (x y li : Nat) : Prop := w.findLink (w.host! x).ipnum (w.host! y).ipnum = some li

instance (w : World) (x y li : Nat) : Decidable (Touches w x y li) := by unfold Touches; exact inferInstance

theorem netCtl_apply (op : NetCtl) (w : World) (x y : Nat) :
    op.apply w x y = w.onLink x y (ctlOf op (w.host! x).ipnum (w.host! y).ipnum).fn := by
  cases op <;> rfl

theorem ctlDeliver_eq (w : World) (x y i : Nat) : w.ctlDeliver x y i = w.onLink x y (Ctl.manual i).fn := rfl

/-- `onLink`: exactly the link of the pair is rewritten by `f`; the rest of `core` and the hosts stay. -/
theorem onLink_spec (w : World) (x y : Nat) (f : Link Env → Link Env × List (Sent Env)) :
    (w.onLink x y f).cfg = w.cfg ∧ (w.onLink x y f).now = w.now ∧ (w.onLink x y f).oracle = w.oracle ∧
    (w.onLink x y f).hosts = w.hosts ∧ (w.onLink x y f).links.length = w.links.length ∧
    ∀ li, (w.onLink x y f).links[li]? =
      if Touches w x y li then (w.links[li]?).map (fun l => (f l).1) else w.links[li]? := by
  cases hf : w.findLink (w.host! x).ipnum (w.host! y).ipnum with
  | none =>
    have e : w.onLink x y f = w.panic "unable to find link" := by unfold onLink; simp only [hf]
    have hnt : ∀ li, ¬ Touches w x y li := by
      intro li ht; unfold Touches at ht; rw [hf] at ht; cases ht
    have hc := core_panic w "unable to find link"
    rw [e]
    refine ⟨core_cfg hc, core_now hc, core_oracle hc, by simp, by rw [core_links hc], fun li => ?_⟩
    rw [if_neg (hnt li), core_links hc]
  | some lj =>
    have ht : ∀ li, Touches w x y li ↔ li = lj := by
      intro li; unfold Touches; rw [hf]
      constructor
      · intro h; cases h; rfl
      · intro h; rw [h]
    cases hl : w.links[lj]? with
    | none =>
      have e : w.onLink x y f = w := by unfold onLink; simp only [hf, hl]
      rw [e]
      refine ⟨rfl, rfl, rfl, rfl, rfl, fun li => ?_⟩
      split
      · rename_i h; rw [(ht li).mp h, hl]; rfl
      · rfl
    | some l =>
      have e : w.onLink x y f = ({ w with links := setAt w.links lj (fun _ => (f l).1) } : World).dropEnvs
          ((f l).2.map (fun s => s.msg)) := by unfold onLink; simp only [hf, hl]
      have hc := core_dropEnvs { w with links := setAt w.links lj (fun _ => (f l).1) } ((f l).2.map (fun s => s.msg))
      rw [e]
      refine ⟨(core_cfg hc).trans rfl, (core_now hc).trans rfl, (core_oracle hc).trans rfl, by simp,
        by rw [core_links hc]; simp, fun li => ?_⟩
      rw [core_links hc]
      split
      · rename_i h
        rw [(ht li).mp h]
        simp only [C03Sets.getElem?_setAt_self, hl, Option.map_some]
      · rename_i h
        have : li ≠ lj := fun h' => h ((ht li).mpr h')
        exact WorldLinks.getElem?_setAt_ne _ _ _ _ this

/-- exact description of a stretch of a run as operations on link `li`; also hosts and `findLink`
    are unchanged (used for the controller calls). -/
structure LX (li : Nat) (w w' : World) (ops : List GOp) : Prop where
  cfg : w'.cfg = w.cfg
  now : w'.now = w.now
  ora : w'.oracle = w.oracle
  len : w'.links.length = w.links.length
  hosts : w'.hosts = w.hosts
  find : ∀ a b, w'.findLink a b = w.findLink a b
  link : ∀ l, w.links[li]? = some l → w'.links[li]? = some (grun w.cfg.link l ops).1

theorem LX.refl (li : Nat) (w : World) : LX li w w [] := ⟨rfl, rfl, rfl, rfl, rfl, fun _ _ => rfl, fun _ h => h⟩

theorem LX.trans {li : Nat} {a b c : World} {xs ys : List GOp} (h1 : LX li a b xs) (h2 : LX li b c ys) :
    LX li a c (xs ++ ys) where
  cfg := h2.cfg.trans h1.cfg
  now := h2.now.trans h1.now
  ora := h2.ora.trans h1.ora
  len := h2.len.trans h1.len
  hosts := h2.hosts.trans h1.hosts
  find := fun x y => (h2.find x y).trans (h1.find x y)
  link := by
    intro l hl
    rw [h2.link _ (h1.link l hl), grun_append, h1.cfg]

theorem findLink_setAt (w : World) (lj : Nat) (l l' : Link Env) (hl : w.links[lj]? = some l) (ha : l'.a = l.a) (hb : l'.b = l.b)
    (ls : List (Link Env)) (hls : ls = setAt w.links lj (fun _ => l')) (a b : Nat) :
    (List.findIdx? (fun k => k.a == min a b && k.b == max a b) ls) = w.findLink a b := by
  unfold findLink
  rw [hls]
  apply C03Sets.findIdx?_setAt_at
  intro z hz
  rw [hl] at hz
  cases hz
  simp [ha, hb]

/-- the operations a controller call on the pair `x`, `y` performs on link `li`. -/
def ctlOps (w : World) (li : Nat) (c : Nat → Nat → Ctl) (x y : Nat) : List GOp :=
  if Touches w x y li then [.ctl (c (w.host! x).ipnum (w.host! y).ipnum)] else []

theorem lx_onLink (w : World) (x y li : Nat) (c : Ctl) :
    LX li w (w.onLink x y c.fn) (if Touches w x y li then [.ctl c] else []) := by
  obtain ⟨h1, h2, h3, h4, h5, h6⟩ := onLink_spec w x y c.fn
  refine ⟨h1, h2, h3, h5, h4, ?_, ?_⟩
  · intro a b
    unfold onLink
    simp only
    cases hf : w.findLink (w.host! x).ipnum (w.host! y).ipnum with
    | none => simp only; unfold findLink; rw [C03Sets.links_panic]
    | some lj =>
      simp only
      cases hl : w.links[lj]? with
      | none => rfl
      | some l =>
        simp only
        unfold findLink
        rw [WorldLinks.links_dropEnvs]
        exact findLink_setAt w lj l (c.fn l).1 hl (ctl_ab c l).1 (ctl_ab c l).2 _ rfl a b
  · intro l hl
    rw [h6 li]
    split
    · rw [hl, grun_single]; rfl
    · exact hl

theorem lx_netCtl (op : NetCtl) (w : World) (x y li : Nat) :
    LX li w (op.apply w x y) (ctlOps w li (ctlOf op) x y) := by
  rw [netCtl_apply]
  exact lx_onLink w x y li _

/-- the ordered pairs `for_pairs` visits. -/
def pairList (xs ys : List Nat) : List (Nat × Nat) :=
  xs.flatMap (fun x => (ys.filter (fun y => x != y)).map (fun y => (x, y)))

theorem foldl_filter_ite {α : Type} (f : World → α → World) (q : α → Bool) (l : List α) (w : World) :
    l.foldl (fun w y => if q y then f w y else w) w = (l.filter q).foldl f w := by
  induction l generalizing w with
  | nil => rfl
  | cons y ys ih =>
    simp only [List.foldl_cons, List.filter_cons]
    cases q y <;> simp [ih]

theorem forPairs_eq (w : World) (xs ys : List Nat) (f : World → Nat → Nat → World) :
    w.forPairs xs ys f = (pairList xs ys).foldl (fun w p => f w p.1 p.2) w := by
  unfold forPairs pairList
  induction xs generalizing w with
  | nil => rfl
  | cons x xs ih =>
    simp only [List.foldl_cons, List.flatMap_cons, List.foldl_append]
    rw [ih]
    congr 1
    rw [foldl_filter_ite (fun w y => f w x y) (fun y => x != y)]
    rw [List.foldl_map]

theorem ctlOps_congr {w w' : World} (hh : w'.hosts = w.hosts) (hf : ∀ a b, w'.findLink a b = w.findLink a b)
    (li : Nat) (c : Nat → Nat → Ctl) (x y : Nat) : ctlOps w' li c x y = ctlOps w li c x y := by
  have e1 : ∀ z, w'.host! z = w.host! z := by intro z; unfold host!; rw [hh]
  have e2 : Touches w' x y li ↔ Touches w x y li := by unfold Touches; rw [e1, e1, hf]
  unfold ctlOps
  simp only [e2, e1]

theorem lx_forPairs (op : NetCtl) (li : Nat) (ps : List (Nat × Nat)) (w : World) :
    LX li w (ps.foldl (fun w p => op.apply w p.1 p.2) w) (ps.flatMap (fun p => ctlOps w li (ctlOf op) p.1 p.2)) := by
  induction ps generalizing w with
  | nil => exact LX.refl li w
  | cons p ps ih =>
    simp only [List.foldl_cons, List.flatMap_cons]
    have h1 := lx_netCtl op w p.1 p.2 li
    have h2 := ih (op.apply w p.1 p.2)
    have e : (ps.flatMap fun q => ctlOps (op.apply w p.1 p.2) li (ctlOf op) q.1 q.2) =
        (ps.flatMap fun q => ctlOps w li (ctlOf op) q.1 q.2) := by
      congr 1
      funext q
      exact ctlOps_congr h1.hosts h1.find li _ _ _
    rw [e] at h2
    exact h1.trans h2

/-- `LinkIter::deliver_all` = `SentRef::deliver` on every position of the in-flight queue. -/
theorem manualAll_eq (cfg : Cfg) (n : Nat) (l : Link Env) :
    (List.range n).foldl (fun l i => l.manualDeliver i) l =
      (grun cfg l ((List.range n).map (fun i => GOp.ctl (.manual i)))).1 := by
  induction n generalizing l with
  | zero => rfl
  | succ k ih =>
    rw [List.range_succ, List.foldl_append, List.map_append, grun_append, ih]
    rfl

theorem lx_ctlDeliverAll (w : World) (x y li : Nat) (l : Link Env) (hl : w.links[li]? = some l) :
    LX li w (ctlDeliverAll w x y)
      (if Touches w x y li then (List.range l.sent.length).map (fun i => GOp.ctl (.manual i)) else []) := by
  unfold ctlDeliverAll
  obtain ⟨h1, h2, h3, h4, h5, h6⟩ := onLink_spec w x y
    (fun l => ((List.range l.sent.length).foldl (fun l i => l.manualDeliver i) l, []))
  have hab : ∀ (n : Nat) (k : Link Env),
      ((List.range n).foldl (fun l i => l.manualDeliver i) k).a = k.a ∧
      ((List.range n).foldl (fun l i => l.manualDeliver i) k).b = k.b := by
    intro n k
    rw [manualAll_eq {} n k]
    exact grun_ab _ _ _
  refine ⟨h1, h2, h3, h5, h4, ?_, ?_⟩
  · intro a b
    unfold onLink
    simp only
    cases hf : w.findLink (w.host! x).ipnum (w.host! y).ipnum with
    | none => simp only; unfold findLink; rw [C03Sets.links_panic]
    | some lj =>
      simp only
      cases hl' : w.links[lj]? with
      | none => rfl
      | some l' =>
        simp only
        unfold findLink
        rw [WorldLinks.links_dropEnvs]
        exact findLink_setAt w lj l' _ hl' (hab _ l').1 (hab _ l').2 _ rfl a b
  · intro l0 hl0
    rw [hl] at hl0
    cases hl0
    rw [h6 li]
    split
    · rw [hl]
      simp only [Option.map_some]
      rw [manualAll_eq w.cfg.link]
    · exact hl

/-! ### the step clock and `register` -/

theorem stepBegin_spec (w : World) :
    w.stepBegin.cfg = w.cfg ∧ w.stepBegin.now = w.now + ceilMs w.cfg.tick ∧ w.stepBegin.oracle = w.oracle ∧
    w.stepBegin.hosts = w.hosts ∧ w.stepBegin.links.length = w.links.length ∧
    ∀ li : Nat, w.stepBegin.links[li]? = (w.links[li]?).map (fun (l : Link Env) => l.tick (w.now + ceilMs w.cfg.tick)) := by
  refine ⟨rfl, rfl, rfl, rfl, by simp [stepBegin], fun li => ?_⟩
  simp [stepBegin]

theorem register_spec (w : World) (ip : Nat) (c : Bool) :
    (w.register ip c).cfg = w.cfg ∧ (w.register ip c).now = w.now ∧ (w.register ip c).oracle = w.oracle ∧
    w.links <+: (w.register ip c).links ∧
    ∀ (li : Nat) (l : Link Env), w.links[li]? = some l → (w.register ip c).links[li]? = some l := by
  refine ⟨rfl, rfl, rfl, List.prefix_append _ _, fun li l hl => ?_⟩
  have hlt : li < w.links.length := (List.getElem?_eq_some_iff.mp hl).1
  simp only [register]
  rw [List.getElem?_append_left hlt]
  exact hl

/-! ### `Topology::deliver_messages` -/

/-- the RST the receiving host hands back for message `x` (reverse direction, same link). -/
def rstOf (x : Sent Env) : Env := { src := x.msg.dst, dst := x.msg.src, msg := .rst }

/-- an operation is the enqueue of the RST reply to one of the messages `msgs`. -/
def IsReply (msgs : List (Sent Env)) : GOp → Prop
  | .enq _ _ _ s t e => ∃ x ∈ msgs, s = x.dst ∧ t = x.src ∧ e = rstOf x
  | _ => False

/-- one message handed to host `h` from link `lj`: the host takes it; a refused TCP segment is answered
    with a RST on the same link. -/
def replyStep (h lj : Nat) (W : World) (s : Sent Env) : World :=
  if (W.receive h s.msg).1 = true then (W.receive h s.msg).2.linkEnqueue lj s.dst s.src (rstOf s)
  else (W.receive h s.msg).2

/-- `Link::deliver_messages` of link `lj` towards the host with ip number `n` (host index `h`). -/
def dIter (h n : Nat) (acc : List Env × World) (lj : Nat) : List Env × World :=
  match acc.2.links[lj]? with
  | none => acc
  | some l =>
    (acc.1 ++ (l.drain n).2.map (·.msg),
     (l.drain n).2.foldl (replyStep h lj) { acc.2 with links := setAt acc.2.links lj (fun _ => (l.drain n).1) })

/-- the links adjacent to ip number `n`, in table order. -/
def adjIdx (w : World) (n : Nat) : List Nat :=
  (List.range w.links.length).filter (fun li =>
    match w.links[li]? with | some l => l.a == n || l.b == n | none => false)

theorem deliverTo_eq (w : World) (h : Nat) :
    w.deliverTo h = (adjIdx w (w.host! h).ipnum).foldl (dIter h (w.host! h).ipnum) ([], w) := by
  unfold deliverTo adjIdx
  simp only
  congr 1

/-- same as `LR` but every other link is left exactly as it was. -/
theorem replyStep_other (h lj : Nat) (W : World) (s : Sent Env) (j : Nat) (hj : j ≠ lj) :
    (replyStep h lj W s).links[j]? = W.links[j]? := by
  unfold replyStep
  split
  · rw [WorldLinks.linkEnqueue_other _ _ _ _ _ _ hj, core_links (core_receive W h s.msg)]
  · rw [core_links (core_receive W h s.msg)]

theorem replies_other (h lj : Nat) (msgs : List (Sent Env)) (W : World) (j : Nat) (hj : j ≠ lj) :
    (msgs.foldl (replyStep h lj) W).links[j]? = W.links[j]? := by
  induction msgs generalizing W with
  | nil => rfl
  | cons s ms ih => simp only [List.foldl_cons]; rw [ih, replyStep_other h lj W s j hj]

theorem lr_replyStep (all : List (Sent Env)) (h lj : Nat) (W : World) (s : Sent Env) (hs : s ∈ all) :
    LR (fun _ _ o => IsReply all o) lj W (replyStep h lj W s) := by
  unfold replyStep
  have h1 : LR (fun _ _ o => IsReply all o) lj W (W.receive h s.msg).2 := LR.of_core (core_receive W h s.msg)
  split
  · refine h1.trans (lr_linkEnqueue_gen _ _ lj s.dst s.src (rstOf s) ?_)
    intro l _ cf cr dl
    exact ⟨s, hs, rfl, rfl, rfl⟩
  · exact h1

theorem lr_replies (all : List (Sent Env)) (h lj : Nat) (msgs : List (Sent Env)) (hsub : ∀ s ∈ msgs, s ∈ all) (W : World) :
    LR (fun _ _ o => IsReply all o) lj W (msgs.foldl (replyStep h lj) W) := by
  induction msgs generalizing W with
  | nil => exact LR.refl W
  | cons s ms ih =>
    simp only [List.foldl_cons]
    exact (lr_replyStep all h lj W s (hsub s (by simp))).trans (ih (fun x hx => hsub x (by simp [hx])) _)

/-- the frame of a stretch of `deliver_messages`. -/
structure DF (W W' : World) : Prop where
  cfg : W'.cfg = W.cfg
  now : W'.now = W.now
  ora : W'.oracle <:+ W.oracle
  len : W'.links.length = W.links.length

theorem DF.refl (W : World) : DF W W := ⟨rfl, rfl, List.suffix_refl _, rfl⟩
theorem DF.trans {a b c : World} (h1 : DF a b) (h2 : DF b c) : DF a c :=
  ⟨h2.cfg.trans h1.cfg, h2.now.trans h1.now, h2.ora.trans h1.ora, h2.len.trans h1.len⟩

/-- one link's `deliver_messages`: that link is drained towards `n` and then receives the RST replies;
    every other link is untouched; the drained messages are appended to the output. -/
theorem dIter_spec (h n : Nat) (out : List Env) (W : World) (lj : Nat) :
    DF W (dIter h n (out, W) lj).2 ∧
    (∀ j, j ≠ lj → (dIter h n (out, W) lj).2.links[j]? = W.links[j]?) ∧
    (dIter h n (out, W) lj).1 = out ++ (match W.links[lj]? with | some l => (l.drain n).2 | none => []).map (fun (x : Sent Env) => x.msg) ∧
    (∀ l, W.links[lj]? = some l → ∃ replies,
      (∀ o ∈ replies, IsReply (l.drain n).2 o ∧ (C09.NoFailCoin W → o.noFail)) ∧
      (dIter h n (out, W) lj).2.links[lj]? = some (grun W.cfg.link l (.drain n :: replies)).1) := by
  unfold dIter
  cases hl : W.links[lj]? with
  | none =>
    simp only
    exact ⟨DF.refl W, by simp, by simp, fun l hl' => by cases hl'⟩
  | some l =>
    simp only
    let W1 : World := { W with links := setAt W.links lj (fun _ => (l.drain n).1) }
    have hW1 : W1.links[lj]? = some (l.drain n).1 := by
      show (setAt W.links lj (fun _ => (l.drain n).1))[lj]? = _
      rw [C03Sets.getElem?_setAt_self, hl]; rfl
    have hlr := lr_replies (l.drain n).2 h lj (l.drain n).2 (fun _ hs => hs) W1
    refine ⟨⟨hlr.cfg, hlr.now, hlr.ora, by rw [hlr.len]; exact setAt_length _ _ _⟩, ?_, by simp, ?_⟩
    · intro j hj
      rw [replies_other h lj _ W1 j hj]
      exact WorldLinks.getElem?_setAt_ne _ _ _ _ hj
    · intro l0 hl0
      cases hl0
      obtain ⟨ops, hq, he⟩ := hlr.link _ hW1
      refine ⟨ops, fun o ho => ⟨(hq o ho).1, fun hn => (hq o ho).2 hn⟩, ?_⟩
      rw [he, grun_cons]
      rfl

/-- what link `j` hands to the host with ip number `n` when that host's turn begins (everything in the
    link's deliverable queue towards `n`; nothing if `n` is not an end point of the link). -/
def handedAt (w : World) (j n : Nat) : List (Sent Env) :=
  match w.links[j]? with | some l => (l.drain n).2 | none => []

theorem handedAt_congr {w w' : World} {j : Nat} (h : w'.links[j]? = w.links[j]?) (n : Nat) :
    handedAt w' j n = handedAt w j n := by unfold handedAt; rw [h]

theorem flatMap_congr' {α β : Type} (l : List α) (f g : α → List β) (h : ∀ x ∈ l, f x = g x) :
    l.flatMap f = l.flatMap g := by
  induction l with
  | nil => rfl
  | cons x xs ih =>
    simp only [List.flatMap_cons]
    rw [h x (by simp), ih (fun y hy => h y (by simp [hy]))]

theorem outer_fold (h n : Nat) (idxs : List Nat) (hnd : idxs.Nodup) (out : List Env) (W : World) :
    DF W (idxs.foldl (dIter h n) (out, W)).2 ∧
    (∀ j, j ∉ idxs → (idxs.foldl (dIter h n) (out, W)).2.links[j]? = W.links[j]?) ∧
    (idxs.foldl (dIter h n) (out, W)).1 = out ++ (idxs.flatMap (fun j => handedAt W j n)).map (fun (x : Sent Env) => x.msg) ∧
    (∀ j ∈ idxs, ∀ l, W.links[j]? = some l → ∃ replies,
      (∀ o ∈ replies, IsReply (l.drain n).2 o ∧ (C09.NoFailCoin W → o.noFail)) ∧
      (idxs.foldl (dIter h n) (out, W)).2.links[j]? = some (grun W.cfg.link l (.drain n :: replies)).1) := by
  induction idxs generalizing out W with
  | nil => exact ⟨DF.refl W, fun _ _ => rfl, by simp, fun j hj => by cases hj⟩
  | cons j rest ih =>
    have hj : j ∉ rest := (List.nodup_cons.mp hnd).1
    obtain ⟨d1, d2, d3, d4⟩ := dIter_spec h n out W j
    simp only [List.foldl_cons]
    rcases hr : dIter h n (out, W) j with ⟨out1, W1⟩
    rw [hr] at d1 d2 d3 d4
    simp only at d1 d2 d3 d4
    obtain ⟨i1, i2, i3, i4⟩ := ih (List.nodup_cons.mp hnd).2 out1 W1
    refine ⟨d1.trans i1, ?_, ?_, ?_⟩
    · intro k hk
      have hk1 : k ≠ j := fun e => hk (by simp [e])
      have hk2 : k ∉ rest := fun e => hk (by simp [e])
      rw [i2 k hk2, d2 k hk1]
    · rw [i3, d3]
      have e : (rest.flatMap fun k => handedAt W1 k n) = (rest.flatMap fun k => handedAt W k n) := by
        apply flatMap_congr'
        intro k hk
        exact handedAt_congr (d2 k (fun e => hj (e ▸ hk))) n
      rw [e]
      simp [handedAt, List.flatMap_cons]
    · intro k hk l hl
      rcases List.mem_cons.mp hk with e | hk'
      · subst e
        obtain ⟨replies, hq, he⟩ := d4 l hl
        exact ⟨replies, hq, by rw [i2 k hj, he]⟩
      · have hkj : k ≠ j := fun e => hj (e ▸ hk')
        obtain ⟨replies, hq, he⟩ := i4 k hk' l (by rw [d2 k hkj]; exact hl)
        refine ⟨replies, fun o ho => ⟨(hq o ho).1, fun hn => (hq o ho).2 (noFail_suffix d1.ora hn)⟩, ?_⟩
        rw [he, d1.cfg]

theorem adjIdx_nodup (w : World) (n : Nat) : (adjIdx w n).Nodup :=
  List.Pairwise.filter _ List.nodup_range

theorem mem_adjIdx (w : World) (n j : Nat) (l : Link Env) (hl : w.links[j]? = some l) :
    j ∈ adjIdx w n ↔ (l.a == n || l.b == n) = true := by
  unfold adjIdx
  rw [List.mem_filter, List.mem_range]
  simp only [hl]
  constructor
  · exact fun h => h.2
  · exact fun h => ⟨(List.getElem?_eq_some_iff.mp hl).1, h⟩

theorem drain_nonadj (l : Link Env) (n : Nat) (h : (l.a == n || l.b == n) = false) : l.drain n = (l, []) := by
  unfold Link.drain
  simp only [Bool.or_eq_false_iff, beq_eq_false_iff_ne] at h
  have h1 : (n == l.a) = false := by simpa using fun e => h.1 e.symm
  have h2 : (n == l.b) = false := by simpa using fun e => h.2 e.symm
  simp [h1, h2]

/-- **`deliverTo`, the envelopes**: what `Topology::deliver_messages` hands to host `h` is, link by
    link in table order, the whole deliverable queue towards `h` of every link as it stood when the
    turn began (`Link.drain`; a link of which `h` is no end point contributes nothing). -/
theorem deliverTo_out (w : World) (h : Nat) :
    (w.deliverTo h).1 =
      ((List.range w.links.length).flatMap (fun j => handedAt w j (w.host! h).ipnum)).map (fun (x : Sent Env) => x.msg) := by
  rw [deliverTo_eq]
  rw [(outer_fold h (w.host! h).ipnum _ (adjIdx_nodup w _) [] w).2.2.1]
  simp only [List.nil_append]
  congr 1
  unfold adjIdx
  generalize List.range w.links.length = r
  induction r with
  | nil => rfl
  | cons j r ih =>
    simp only [List.filter_cons, List.flatMap_cons]
    cases hl : w.links[j]? with
    | none =>
      simp only [Bool.false_eq_true, if_false]
      rw [ih]
      simp [handedAt, hl]
    | some l =>
      simp only
      by_cases hadj : (l.a == (w.host! h).ipnum || l.b == (w.host! h).ipnum) = true
      · rw [if_pos hadj, List.flatMap_cons, ih]
      · rw [if_neg hadj, ih]
        have hadj' : (l.a == (w.host! h).ipnum || l.b == (w.host! h).ipnum) = false := by simpa using hadj
        simp [handedAt, hl, drain_nonadj l _ hadj']

/-- **`deliverTo`, link by link**: link `li` is drained towards `h` (if `h` is one of its end points)
    and then receives the RST replies to refused segments among the drained messages; nothing else
    happens to it.  Configuration and topology clock stay; the oracle queue loses a prefix. -/
theorem deliverTo_link (w : World) (h li : Nat) :
    DF w (w.deliverTo h).2 ∧
    ∀ l, w.links[li]? = some l → ∃ replies,
      (∀ o ∈ replies, IsReply (l.drain (w.host! h).ipnum).2 o ∧ (C09.NoFailCoin w → o.noFail)) ∧
      (w.deliverTo h).2.links[li]? = some (grun w.cfg.link l
        (if (l.a == (w.host! h).ipnum || l.b == (w.host! h).ipnum) = true then .drain (w.host! h).ipnum :: replies else [])).1 := by
  rw [deliverTo_eq]
  obtain ⟨o1, o2, _, o4⟩ := outer_fold h (w.host! h).ipnum _ (adjIdx_nodup w (w.host! h).ipnum) [] w
  refine ⟨o1, fun l hl => ?_⟩
  by_cases hadj : (l.a == (w.host! h).ipnum || l.b == (w.host! h).ipnum) = true
  · obtain ⟨replies, hq, he⟩ := o4 li ((mem_adjIdx w _ li l hl).mpr hadj) l hl
    exact ⟨replies, hq, by rw [he, if_pos hadj]⟩
  · refine ⟨[], by simp, ?_⟩
    rw [o2 li (fun hm => hadj ((mem_adjIdx w _ li l hl).mp hm)), if_neg hadj, hl]
    rfl

/-! ### every step -/

theorem ipnum_hostTurnBegin (A : Nat) (hs : Host) : (hostTurnBegin A hs).ipnum = hs.ipnum := by
  unfold hostTurnBegin
  simp only
  repeat' split
  all_goals rfl

theorem ipnum_turnBegin (w : World) (h : Nat) : ((w.turnBegin h).host! h).ipnum = (w.host! h).ipnum := by
  unfold turnBegin
  rw [C04.host!_setHost]
  split
  · exact ipnum_hostTurnBegin _ _
  · rfl

/-- "all operations are sends between the link's end points, with the failure coin down whenever the
    oracle queue holds no failure coin". -/
def Sends (w : World) (l : Link Env) (ops : List GOp) : Prop :=
  ∀ o ∈ ops, IsSend l.a l.b o ∧ (C09.NoFailCoin w → o.noFail)

/-- **What one step does to link `li`** (state `l` before the step), as a condition on the list of link
    operations:
    * `stepBegin`: one `tick` to the new topology clock;
    * a host's turn: if the host is an end point, one `drain` towards it followed by the RST replies to
      drained messages; otherwise nothing;
    * a link-control call (from the `Sim` handle or from host code) on a pair joined by this link: that
      one controller operation; on a pair list: one per pair visited, in order; `deliver` /
      `deliver_all`: `SentRef::deliver` on the position(s);
    * any other host call, `crash`, `bounce`: only sends between the end points;
    * `register`, DNS, `stepEnd`, a loopback delivery: nothing. -/
def StepOps (w : World) (li : Nat) (l : Link Env) (ops : List GOp) : Step → Prop
  | .stepBegin => ops = [.tick (w.now + ceilMs w.cfg.tick)]
  | .turn h =>
      ∃ replies, (∀ o ∈ replies, IsReply (l.drain (w.host! h).ipnum).2 o ∧ (C09.NoFailCoin w → o.noFail)) ∧
        ops = if (l.a == (w.host! h).ipnum || l.b == (w.host! h).ipnum) = true
              then .drain (w.host! h).ipnum :: replies else []
  | .link op x y => ops = ctlOps w li (ctlOf op) x y
  | .linkPairs op xs ys => ops = (pairList xs ys).flatMap (fun p => ctlOps w li (ctlOf op) p.1 p.2)
  | .deliver x y i => ops = ctlOps w li (fun _ _ => .manual i) x y
  | .deliverAll x y =>
      ops = if Touches w x y li then (List.range l.sent.length).map (fun i => GOp.ctl (.manual i)) else []
  | .host _ hop =>
      match hop with
      | .net op x y => ops = ctlOps w li (ctlOf op) x y
      | _ => Sends w l ops
  | .crash _ => Sends w l ops
  | .bounce _ => Sends w l ops
  | .register _ _ => ops = []
  | .dns _ => ops = []
  | .stepEnd => ops = []
  | .loDeliver _ _ => ops = []

/-- the frame of one step: the configuration is never written, the oracle queue only loses a prefix,
    links are never removed (and only `register` adds any), and the topology clock moves only at
    `stepBegin`. -/
structure SF (w w' : World) (st : Step) : Prop where
  cfg : w'.cfg = w.cfg
  ora : w'.oracle <:+ w.oracle
  len : w.links.length ≤ w'.links.length
  leneq : (∀ ip c, st ≠ .register ip c) → w'.links.length = w.links.length
  now : w'.now = match st with | .stepBegin => w.now + ceilMs w.cfg.tick | _ => w.now

theorem sf_of_lr {w w' : World} {st : Step} (h : LR IsSend 0 w w') (hst : st ≠ .stepBegin) : SF w w' st := by
  refine ⟨h.cfg, h.ora, Nat.le_of_eq h.len.symm, fun _ => h.len, ?_⟩
  rw [h.now]
  cases st <;> first | rfl | exact absurd rfl hst

theorem sf_of_lx {w w' : World} {st : Step} {ops : List GOp} (h : LX 0 w w' ops) (hst : st ≠ .stepBegin) : SF w w' st := by
  refine ⟨h.cfg, by rw [h.ora]; exact List.suffix_refl _, Nat.le_of_eq h.len.symm, fun _ => h.len, ?_⟩
  rw [h.now]
  cases st <;> first | rfl | exact absurd rfl hst

theorem sends_of_lr {w w' : World} {li : Nat} {l : Link Env} (h : LR IsSend li w w') (hl : w.links[li]? = some l) :
    ∃ ops, w'.links[li]? = some (grun w.cfg.link l ops).1 ∧ Sends w l ops := by
  obtain ⟨ops, hq, he⟩ := h.link l hl
  exact ⟨ops, he, hq⟩

theorem hop_net_cases (hop : HOp) : (∃ c a b, hop = .net c a b) ∨ (∀ c a b, hop ≠ .net c a b) := by
  cases hop
  case net c a b => exact Or.inl ⟨c, a, b, rfl⟩
  all_goals exact Or.inr (fun _ _ _ e => by cases e)

/-- **One step, link by link**: link `li` of the next world is link `li` of this world after a list of
    link operations that satisfies `StepOps`. -/
theorem step_link (w : World) (st : Step) (li : Nat) (l : Link Env) (hl : w.links[li]? = some l) :
    ∃ ops, (applyStep w st).links[li]? = some (grun w.cfg.link l ops).1 ∧ StepOps w li l ops st := by
  cases st with
  | host h hop =>
    rcases hop_net_cases hop with ⟨c, a, b, rfl⟩ | hnet
    · exact ⟨_, (lx_netCtl c w a b li).link l hl, rfl⟩
    · obtain ⟨ops, he, hs⟩ := sends_of_lr (lr_applyHOp (li := li) w h hop hnet) hl
      refine ⟨ops, he, ?_⟩
      cases hop
      case net c a b => exact absurd rfl (hnet c a b)
      all_goals exact hs
  | register ip c => exact ⟨[], (register_spec w ip c).2.2.2.2 li l hl, rfl⟩
  | dns name => exact ⟨[], by show (w.dnsLookup name).2.links[li]? = _; rw [core_links (core_dnsLookup w name)]; exact hl, rfl⟩
  | stepBegin =>
    refine ⟨_, ?_, rfl⟩
    show w.stepBegin.links[li]? = _
    rw [(stepBegin_spec w).2.2.2.2.2 li, hl, grun_single]
    rfl
  | stepEnd => exact ⟨[], hl, rfl⟩
  | crash h => exact sends_of_lr (lr_crash w h) hl
  | bounce h => exact sends_of_lr (lr_bounce w h) hl
  | link op x y => exact ⟨_, (lx_netCtl op w x y li).link l hl, rfl⟩
  | linkPairs op xs ys =>
    refine ⟨_, ?_, rfl⟩
    show (w.forPairs xs ys op.apply).links[li]? = _
    rw [forPairs_eq]
    exact (lx_forPairs op li (pairList xs ys) w).link l hl
  | deliver x y i => exact ⟨_, (lx_onLink w x y li (.manual i)).link l hl, rfl⟩
  | deliverAll x y => exact ⟨_, (lx_ctlDeliverAll w x y li l hl).link l hl, rfl⟩
  | turn h =>
    show ∃ ops, (turnStep w h).2.links[li]? = _ ∧ _
    have hl' : (w.turnBegin h).links[li]? = some l := hl
    obtain ⟨replies, hq, he⟩ := (deliverTo_link (w.turnBegin h) h li).2 l hl'
    rw [ipnum_turnBegin] at hq he
    exact ⟨_, he, replies, hq, rfl⟩
  | loDeliver h i => exact ⟨[], by show (loStep w h i).1.links[li]? = _; rw [core_links (core_loStep w h i)]; exact hl, rfl⟩

theorem step_frame (w : World) (st : Step) : SF w (applyStep w st) st := by
  cases st with
  | host h hop =>
    rcases hop_net_cases hop with ⟨c, a, b, rfl⟩ | hnet
    · exact sf_of_lx (lx_netCtl c w a b 0) (by simp)
    · exact sf_of_lr (lr_applyHOp w h hop hnet) (by simp)
  | register ip c =>
    obtain ⟨h1, h2, h3, h4, _⟩ := register_spec w ip c
    exact ⟨h1, by rw [show (applyStep w (.register ip c)).oracle = w.oracle from h3]; exact List.suffix_refl _, h4.length_le,
      fun hne => absurd rfl (hne ip c), h2⟩
  | dns name => exact sf_of_lr (LR.of_core (core_dnsLookup w name)) (by simp)
  | stepBegin =>
    obtain ⟨h1, h2, h3, _, h5, _⟩ := stepBegin_spec w
    exact ⟨h1, by rw [show (applyStep w .stepBegin).oracle = w.oracle from h3]; exact List.suffix_refl _,
      Nat.le_of_eq h5.symm, fun _ => h5, h2⟩
  | stepEnd => exact sf_of_lr (LR.of_core (core_stepEnd w)) (by simp)
  | crash h => exact sf_of_lr (lr_crash w h) (by simp)
  | bounce h => exact sf_of_lr (lr_bounce w h) (by simp)
  | link op x y => exact sf_of_lx (lx_netCtl op w x y 0) (by simp)
  | linkPairs op xs ys =>
    have := lx_forPairs op 0 (pairList xs ys) w
    rw [← forPairs_eq] at this
    exact sf_of_lx this (by simp)
  | deliver x y i => exact sf_of_lx (lx_onLink w x y 0 (.manual i)) (by simp)
  | deliverAll x y =>
    obtain ⟨h1, h2, h3, _, h5, _⟩ := onLink_spec w x y
      (fun l => ((List.range l.sent.length).foldl (fun l i => l.manualDeliver i) l, []))
    exact ⟨h1, by rw [show (applyStep w (.deliverAll x y)).oracle = w.oracle from h3]; exact List.suffix_refl _,
      Nat.le_of_eq h5.symm, fun _ => h5, h2⟩
  | turn h =>
    have d := (deliverTo_link (w.turnBegin h) h 0).1
    exact ⟨d.cfg, d.ora, Nat.le_of_eq d.len.symm, fun _ => d.len, d.now⟩
  | loDeliver h i => exact sf_of_lr (LR.of_core (core_loStep w h i)) (by simp)

end TV.LW
