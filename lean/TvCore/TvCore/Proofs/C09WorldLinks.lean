import TvCore.Proofs.C09WorldDefs
/-
  C09 end to end, part 3 — link level: conservation of keyed envelopes under every link operation
  (`gstep` / `grun`), lifted to the link table, and the routing invariant `Geo` ("a message waits in the
  deliverable queue of its destination").
-/
namespace TV.C09
open TV TV.World TV.C04 TV.LW TV.Link

/-! ### lists -/

theorem count_flatMap_setAt {α β : Type} [BEq β] (g : α → List β) (L : List α) (i : Nat) (f : α → α) (x : α) (k : β)
    (hx : L[i]? = some x) :
    ((setAt L i f).flatMap g).count k + (g x).count k = (L.flatMap g).count k + (g (f x)).count k := by
  induction L generalizing i with
  | nil => simp at hx
  | cons y ys ih =>
    cases i with
    | zero =>
      simp only [List.getElem?_cons_zero, Option.some.injEq] at hx
      subst hx
      simp only [setAt, List.flatMap_cons, List.count_append]
      omega
    | succ j =>
      simp only [List.getElem?_cons_succ] at hx
      have := ih j hx
      simp only [setAt, List.flatMap_cons, List.count_append]
      omega

/-- pointwise inequalities add up. -/
theorem sum_pointwise {α γ : Type} (f f' : α → Nat) (o : γ → Nat) :
    ∀ (L L' : List α) (O : List γ), L'.length = L.length → O.length = L.length →
      (∀ (j : Nat) x x' y, L[j]? = some x → L'[j]? = some x' → O[j]? = some y → f' x' + o y ≤ f x) →
      (L'.map f').sum + (O.map o).sum ≤ (L.map f).sum
  | [], [], [], _, _, _ => by simp
  | [], _ :: _, _, h, _, _ => by simp at h
  | [], [], _ :: _, _, h, _ => by simp at h
  | _ :: _, [], _, h, _, _ => by simp at h
  | _ :: _, _ :: _, [], _, h, _ => by simp at h
  | x :: L, x' :: L', y :: O, h1, h2, h => by
    have h0 := h 0 x x' y rfl rfl rfl
    have ih := sum_pointwise f f' o L L' O (by simpa using h1) (by simpa using h2)
      (fun j a a' b ha ha' hb => h (j + 1) a a' b (by simpa using ha) (by simpa using ha') (by simpa using hb))
    simp only [List.map_cons, List.sum_cons]
    omega

theorem kf_status (s : Sent Env) (st : Status) : kf { s with status := st } = kf s := rfl

theorem kf_releaseOne (now : Nat) (s : Sent Env) : kf (releaseOne now s) = kf s := by
  unfold releaseOne; split <;> rfl

theorem linkKeys_eq (l : Link Env) : linkKeys l = l.sent.map kf ++ l.toA.map kf ++ l.toB.map kf := by
  simp [linkKeys, allMsgs]

theorem map_kf_deliverAt (t : Nat) : ∀ (i : Nat) (xs : List (Sent Env)), (deliverAt t i xs).map kf = xs.map kf
  | _, [] => by cases ‹Nat› <;> rfl
  | 0, x :: xs => rfl
  | i + 1, x :: xs => by simp only [deliverAt, List.map_cons, map_kf_deliverAt t i xs]

/-! ### one link operation -/

/-- the envelope an operation puts on the link (`enq` only). -/
def enqKey : GOp → List (Nat × Env)
  | .enq _ _ _ _ d e => [(d, e)]
  | _ => []

theorem lk_randStep (cfg : Cfg) (l : Link Env) (cf cr : Bool) (k : Nat × Env) :
    (linkKeys (randStep cfg l cf cr).1).count k ≤ (linkKeys l).count k := by
  have hfil : ∀ (q : Sent Env → Bool), ((l.sent.filter q).map kf).count k ≤ (l.sent.map kf).count k :=
    fun q => List.Sublist.count_le k (List.filter_sublist.map kf)
  simp only [linkKeys_eq, List.count_append]
  unfold randStep
  split
  · split
    · simp only
      have := hfil (fun s => !(if s.src < s.dst then l.stAB == LState.healthy else l.stBA == LState.healthy))
      omega
    · split <;> exact Nat.le_refl _
  · split
    · simp only [List.map_nil, List.count_nil]; omega
    · split
      · simp only [release, List.map_map]
        rw [show (kf ∘ releaseOne l.now) = kf from funext (kf_releaseOne _)]
        exact Nat.le_refl _
      · exact Nat.le_refl _

theorem lk_enqueueRaw (l : Link Env) (dl s d : Nat) (e : Env) (k : Nat × Env) :
    (linkKeys (l.enqueueRaw dl s d e).1).count k ≤ (linkKeys l).count k + [(d, e)].count k := by
  simp only [linkKeys_eq, List.count_append]
  unfold enqueueRaw
  simp only
  split
  · simp only [List.map_append, List.count_append, List.map_cons, List.map_nil]
    show _ + [(d, e)].count k + _ + _ ≤ _
    omega
  · simp only [List.map_append, List.count_append, List.map_cons, List.map_nil]
    show _ + [(d, e)].count k + _ + _ ≤ _
    omega
  · simp only; omega

theorem allMsgs_process_perm (l : Link Env) : (allMsgs l.processDeliverables).Perm (allMsgs l) := by
  unfold allMsgs processDeliverables
  simp only
  have hs := List.filter_append_perm (matured l.now) l.sent
  generalize l.sent.filter (matured l.now) = ready at hs ⊢
  generalize l.sent.filter (fun s => !matured l.now s) = rest at hs ⊢
  have hr : (ready.filter (fun s => s.dst == l.a) ++ ready.filter (fun s => s.dst != l.a)).Perm ready := by
    have := List.filter_append_perm (fun s : Sent Env => s.dst == l.a) ready
    simpa [bne] using this
  generalize ready.filter (fun s => s.dst == l.a) = rA at hr ⊢
  generalize ready.filter (fun s => s.dst != l.a) = rB at hr ⊢
  rw [List.perm_iff_count]
  intro a
  have h2 := hs.count_eq a
  have h3 := hr.count_eq a
  simp only [List.count_append] at h2 h3 ⊢
  omega

theorem lk_process (l : Link Env) (k : Nat × Env) : (linkKeys l.processDeliverables).count k = (linkKeys l).count k :=
  ((allMsgs_process_perm l).map kf).count_eq k

theorem lk_enqueue (cfg : Cfg) (l : Link Env) (cf cr : Bool) (dl s d : Nat) (e : Env) (k : Nat × Env) :
    (linkKeys (l.enqueue cfg cf cr dl s d e).1).count k ≤ (linkKeys l).count k + [(d, e)].count k := by
  show (linkKeys ((randStep cfg l cf cr).1.enqueueRaw dl s d e).1.processDeliverables).count k ≤ _
  rw [lk_process]
  exact Nat.le_trans (lk_enqueueRaw _ dl s d e k) (Nat.add_le_add_right (lk_randStep cfg l cf cr k) _)

theorem lk_tick (l : Link Env) (now : Nat) (k : Nat × Env) : (linkKeys (l.tick now)).count k = (linkKeys l).count k := by
  unfold tick
  rw [lk_process]
  rfl

theorem lk_drain (l : Link Env) (n : Nat) (k : Nat × Env) :
    (linkKeys (l.drain n).1).count k + ((l.drain n).2.map kf).count k = (linkKeys l).count k := by
  simp only [linkKeys_eq, List.count_append]
  unfold drain
  split
  · simp only [List.map_nil, List.count_nil]; omega
  · split
    · simp only [List.map_nil, List.count_nil]; omega
    · simp only [List.map_nil, List.count_nil]; omega

theorem lk_le_of_sublists {l l' : Link Env} (hs : l'.sent.Sublist l.sent) (hA : l'.toA.Sublist l.toA)
    (hB : l'.toB.Sublist l.toB) (k : Nat × Env) : (linkKeys l').count k ≤ (linkKeys l).count k := by
  simp only [linkKeys_eq, List.count_append]
  have h1 := List.Sublist.count_le k (hs.map kf)
  have h2 := List.Sublist.count_le k (hA.map kf)
  have h3 := List.Sublist.count_le k (hB.map kf)
  omega

theorem lk_ctl (c : Ctl) (l : Link Env) (k : Nat × Env) : (linkKeys (c.fn l).1).count k ≤ (linkKeys l).count k := by
  cases c with
  | partition =>
    obtain ⟨_, _, es, _, _, _, _, sA, sB, _⟩ := Link.explicitPartition_fields l
    exact lk_le_of_sublists (by rw [es]; exact List.nil_sublist _) sA sB k
  | partitionOneway s d =>
    obtain ⟨_, _, es, _, _, _, _, sA, sB, _⟩ := Link.partitionOneway_fields l s d
    exact lk_le_of_sublists (by rw [es]; exact List.filter_sublist) sA sB k
  | repair => exact Nat.le_refl _
  | repairOneway s d =>
    simp only [linkKeys_eq, List.count_append, Ctl.fn]
    unfold repairOneway
    split <;> exact Nat.le_refl _
  | hold =>
    have hst : ∀ (st : Status) (xs : List (Sent Env)),
        (xs.map (fun s : Sent Env => { s with status := st })).map kf = xs.map kf := by
      intro st xs; rw [List.map_map]; rfl
    simp only [linkKeys_eq, List.count_append, Ctl.fn]
    unfold Link.hold
    split
    · simp only [holdRaw, recall, List.map_append, hst, List.map_nil, List.count_nil, List.count_append]
      omega
    · simp only [holdRaw, hst]
      exact Nat.le_refl _
  | release =>
    simp only [linkKeys_eq, List.count_append, Ctl.fn, release, List.map_map]
    rw [show (kf ∘ releaseOne l.now) = kf from funext (kf_releaseOne _)]
    exact Nat.le_refl _
  | manual i =>
    simp only [linkKeys_eq, List.count_append, Ctl.fn, manualDeliver, map_kf_deliverAt]
    exact Nat.le_refl _

/-- **conservation, one operation**: what the link holds afterwards, plus what it handed to a host, is
    at most what it held plus the envelope the operation put on it. -/
theorem lk_gstep (cfg : Cfg) (l : Link Env) (o : GOp) (k : Nat × Env) :
    (linkKeys (gstep cfg l o).1).count k + ((gstep cfg l o).2.map kf).count k ≤ (linkKeys l).count k + (enqKey o).count k := by
  cases o with
  | enq cf cr dl s d e =>
    simp only [gstep, List.map_nil, List.count_nil, Nat.add_zero]
    exact lk_enqueue cfg l cf cr dl s d e k
  | tick now =>
    simp only [gstep, enqKey, List.map_nil, List.count_nil, Nat.add_zero]
    exact Nat.le_of_eq (lk_tick l now k)
  | drain n =>
    simp only [gstep, enqKey, List.count_nil, Nat.add_zero]
    exact Nat.le_of_eq (lk_drain l n k)
  | ctl c =>
    simp only [gstep, enqKey, List.map_nil, List.count_nil, Nat.add_zero]
    exact lk_ctl c l k

/-- an operation that puts no datagram on the link. -/
def NoUdpEnq : GOp → Prop
  | .enq _ _ _ _ _ e => isUdp e = false
  | _ => True

/-- **conservation, a list of operations none of which enqueues a datagram**: for a datagram key, what
    the link holds afterwards plus what it handed out is at most what it held. -/
theorem lk_grun (cfg : Cfg) (l : Link Env) (ops : List GOp) (h : ∀ o ∈ ops, NoUdpEnq o) (k : Nat × Env)
    (hk : isUdp k.2 = true) :
    (linkKeys (grun cfg l ops).1).count k + ((grun cfg l ops).2.map kf).count k ≤ (linkKeys l).count k := by
  induction ops generalizing l with
  | nil => simp
  | cons o ops ih =>
    rw [grun_cons]
    have h1 := lk_gstep cfg l o k
    have h2 := ih (gstep cfg l o).1 (fun o' ho' => h o' (by simp [ho']))
    have h3 : (enqKey o).count k = 0 := by
      cases o with
      | enq cf cr dl s d e =>
        have he : isUdp e = false := h (.enq cf cr dl s d e) (by simp)
        simp only [enqKey]
        apply List.count_eq_zero.mpr
        intro hm
        simp only [List.mem_singleton] at hm
        rw [hm] at hk
        simp only at hk
        rw [he] at hk
        cases hk
      | _ => rfl
    simp only [List.map_append, List.count_append]
    omega

theorem isReply_noUdp {ms : List (Sent Env)} {o : GOp} (h : IsReply ms o) : NoUdpEnq o := by
  cases o with
  | enq cf cr dl s d e =>
    obtain ⟨x, _, _, _, rfl⟩ := h
    rfl
  | _ => exact trivial

theorem ctlOps_noUdp (w : World) (li : Nat) (c : Nat → Nat → Ctl) (x y : Nat) : ∀ o ∈ ctlOps w li c x y, NoUdpEnq o := by
  intro o ho
  unfold ctlOps at ho
  split at ho
  · simp only [List.mem_singleton] at ho; subst ho; exact trivial
  · cases ho

/-- the steps whose link operations are fully described by `StepOps`: everything but host calls that
    send (any host call other than a link-control call), `crash`, `bounce` and `register`. -/
def Plain : Step → Prop
  | .host _ hop => match hop with | .net _ _ _ => True | _ => False
  | .crash _ => False
  | .bounce _ => False
  | .register _ _ => False
  | _ => True

theorem stepOps_noUdp (w : World) (li : Nat) (l : Link Env) (ops : List GOp) (st : Step) (hp : Plain st)
    (h : StepOps w li l ops st) : ∀ o ∈ ops, NoUdpEnq o := by
  cases st with
  | stepBegin => have h' : ops = _ := h; subst h'; intro o ho; simp only [List.mem_singleton] at ho; subst ho; exact trivial
  | turn hh =>
    obtain ⟨replies, hq, he⟩ := h
    subst he
    intro o ho
    split at ho
    · rcases List.mem_cons.mp ho with e | ho
      · subst e; exact trivial
      · exact isReply_noUdp (hq o ho).1
    · cases ho
  | host hh hop =>
    cases hop
    case net c a b =>
      have h' : ops = ctlOps w li (ctlOf c) a b := h
      subst h'
      exact ctlOps_noUdp _ _ _ _ _
    all_goals exact absurd hp (by simp [Plain])
  | crash hh => exact absurd hp (by simp [Plain])
  | bounce hh => exact absurd hp (by simp [Plain])
  | register ip c => exact absurd hp (by simp [Plain])
  | dns n => have h' : ops = [] := h; subst h'; exact fun _ ho => by cases ho
  | stepEnd => have h' : ops = [] := h; subst h'; exact fun _ ho => by cases ho
  | loDeliver a b => have h' : ops = [] := h; subst h'; exact fun _ ho => by cases ho
  | link op x y =>
    have h' : ops = ctlOps w li (ctlOf op) x y := h
    subst h'
    exact ctlOps_noUdp _ _ _ _ _
  | deliver x y i =>
    have h' : ops = ctlOps w li (fun _ _ => .manual i) x y := h
    subst h'
    exact ctlOps_noUdp _ _ _ _ _
  | linkPairs op xs ys =>
    have h' : ops = (pairList xs ys).flatMap (fun p => ctlOps w li (ctlOf op) p.1 p.2) := h
    subst h'
    intro o ho
    obtain ⟨p, _, hp'⟩ := List.mem_flatMap.mp ho
    exact ctlOps_noUdp _ _ _ _ _ o hp'
  | deliverAll x y =>
    have h' : ops = if Touches w x y li then (List.range l.sent.length).map (fun i => GOp.ctl (.manual i)) else [] := h
    subst h'
    intro o ho
    split at ho
    · obtain ⟨i, _, rfl⟩ := List.mem_map.mp ho; exact trivial
    · cases ho

/-- everything the links hand to hosts in a step, keyed, link by link in table order. -/
def handedAll (w : World) (st : Step) : List (Nat × Env) :=
  ((List.range w.links.length).flatMap (fun j => handed w j st)).map kf

/-- **conservation on the link table, one plain step**: for a datagram key, what the links hold after
    the step plus what they handed to hosts during it is at most what they held before. -/
theorem netKeys_plain (w : World) (st : Step) (hp : Plain st) (k : Nat × Env) (hk : isUdp k.2 = true) :
    (netKeys (applyStep w st)).count k + (handedAll w st).count k ≤ (netKeys w).count k := by
  have hlen : (applyStep w st).links.length = w.links.length :=
    (step_frame w st).leneq (by intro ip c e; subst e; exact hp)
  unfold netKeys handedAll
  rw [List.count_flatMap, List.count_flatMap, List.map_flatMap, List.count_flatMap]
  have := sum_pointwise (List.count k ∘ linkKeys) (List.count k ∘ linkKeys) (fun j => ((handed w j st).map kf).count k)
    w.links (applyStep w st).links (List.range w.links.length) hlen (by simp) (by
      intro j l l' y hl hl' hy
      have hy' : y = j := by
        have := List.getElem?_eq_some_iff.mp hy
        obtain ⟨_, e⟩ := this
        simpa using e.symm
      subst hy'
      obtain ⟨ops, he, hs⟩ := step_link w st y l hl
      rw [he] at hl'
      cases hl'
      have hout := stepOps_out w.cfg.link w y l ops st hl hs
      have := lk_grun w.cfg.link l ops (stepOps_noUdp w y l ops st hp hs) k hk
      rw [hout] at this
      exact this)
  simpa [Function.comp_def] using this

/-! ### routing: a message waits in the deliverable queue of its destination -/

/-- the routing invariant of a link: every message it holds travels between its two end points, and the
    deliverable queue of an end point holds only messages addressed to it. -/
structure Geo (l : Link Env) : Prop where
  dir : ∀ s ∈ allMsgs l, Dir l.a l.b s
  fileA : ∀ s ∈ l.toA, s.dst = l.a
  fileB : ∀ s ∈ l.toB, s.dst = l.b

theorem mem_allMsgs {l : Link Env} {s : Sent Env} : s ∈ allMsgs l ↔ s ∈ l.sent ∨ s ∈ l.toA ∨ s ∈ l.toB := by
  simp [allMsgs]

/-- a later state of a link whose in-flight messages are earlier messages up to their delivery status and
    whose deliverable queues only lost messages keeps the invariant. -/
theorem geo_of_sub {l l' : Link Env} (h : Geo l) (ha : l'.a = l.a) (hb : l'.b = l.b)
    (hs : ∀ s' ∈ l'.sent, ∃ s ∈ allMsgs l, s'.src = s.src ∧ s'.dst = s.dst)
    (hA : ∀ s ∈ l'.toA, s ∈ l.toA) (hB : ∀ s ∈ l'.toB, s ∈ l.toB) : Geo l' := by
  refine ⟨fun s hm => ?_, fun s hm => by rw [ha]; exact h.fileA s (hA s hm), fun s hm => by rw [hb]; exact h.fileB s (hB s hm)⟩
  rw [ha, hb]
  rcases mem_allMsgs.mp hm with hm | hm | hm
  · obtain ⟨s0, h0, e1, e2⟩ := hs s hm
    have := h.dir s0 h0
    unfold Dir at this ⊢
    rw [e1, e2]; exact this
  · exact h.dir s (mem_allMsgs.mpr (Or.inr (Or.inl (hA s hm))))
  · exact h.dir s (mem_allMsgs.mpr (Or.inr (Or.inr (hB s hm))))

theorem geo_process {l : Link Env} (h : Geo l) : Geo l.processDeliverables := by
  have hd : ∀ s ∈ l.sent, Dir l.a l.b s := fun s hs => h.dir s (mem_allMsgs.mpr (Or.inl hs))
  refine ⟨fun s hm => ?_, fun s hm => ?_, fun s hm => ?_⟩
  · show Dir l.a l.b s
    rcases mem_allMsgs.mp hm with hm | hm | hm
    · exact hd s (List.mem_filter.mp hm).1
    · simp only [processDeliverables, List.mem_append, List.mem_filter] at hm
      rcases hm with hm | hm
      · exact h.dir s (mem_allMsgs.mpr (Or.inr (Or.inl hm)))
      · exact hd s hm.1.1
    · simp only [processDeliverables, List.mem_append, List.mem_filter] at hm
      rcases hm with hm | hm
      · exact h.dir s (mem_allMsgs.mpr (Or.inr (Or.inr hm)))
      · exact hd s hm.1.1
  · show s.dst = l.a
    simp only [processDeliverables, List.mem_append, List.mem_filter] at hm
    rcases hm with hm | hm
    · exact h.fileA s hm
    · simpa using hm.2
  · show s.dst = l.b
    simp only [processDeliverables, List.mem_append, List.mem_filter] at hm
    rcases hm with hm | hm
    · exact h.fileB s hm
    · have hne : s.dst ≠ l.a := by simpa [bne] using hm.2
      rcases hd s hm.1.1 with ⟨_, e⟩ | ⟨_, e⟩
      · exact e
      · exact absurd e hne

theorem geo_randStep {l : Link Env} (h : Geo l) (cfg : Cfg) (cf cr : Bool) : Geo (randStep cfg l cf cr).1 := by
  have hab := randStep_ab cfg l cf cr
  refine geo_of_sub h hab.1 hab.2 ?_ ?_ ?_
  · intro s' hs'
    unfold randStep at hs'
    split at hs'
    · split at hs'
      · exact ⟨s', mem_allMsgs.mpr (Or.inl (List.mem_filter.mp hs').1), rfl, rfl⟩
      · split at hs' <;> exact ⟨s', mem_allMsgs.mpr (Or.inl hs'), rfl, rfl⟩
    · split at hs'
      · cases hs'
      · split at hs'
        · simp only [release, List.mem_map] at hs'
          obtain ⟨s0, h0, rfl⟩ := hs'
          refine ⟨s0, mem_allMsgs.mpr (Or.inl h0), ?_, ?_⟩ <;> (unfold releaseOne; split <;> rfl)
        · exact ⟨s', mem_allMsgs.mpr (Or.inl hs'), rfl, rfl⟩
  · intro s hs
    have : (randStep cfg l cf cr).1.toA = l.toA := by
      unfold randStep release; repeat' split
      all_goals rfl
    rwa [this] at hs
  · intro s hs
    have : (randStep cfg l cf cr).1.toB = l.toB := by
      unfold randStep release; repeat' split
      all_goals rfl
    rwa [this] at hs

theorem geo_enqueueRaw {l : Link Env} (h : Geo l) (dl s t : Nat) (e : Env)
    (hdir : (s = l.a ∧ t = l.b) ∨ (s = l.b ∧ t = l.a)) : Geo (l.enqueueRaw dl s t e).1 := by
  have key : ∀ x : Sent Env, x.src = s → x.dst = t →
      Geo { l with sent := l.sent ++ [x], nextId := l.nextId + 1 } := by
    intro x hx1 hx2
    refine ⟨fun y hy => ?_, h.fileA, h.fileB⟩
    show Dir l.a l.b y
    rcases mem_allMsgs.mp hy with hy | hy | hy
    · rcases List.mem_append.mp hy with hy | hy
      · exact h.dir y (mem_allMsgs.mpr (Or.inl hy))
      · simp only [List.mem_singleton] at hy
        subst hy
        unfold Dir; rw [hx1, hx2]; exact hdir
    · exact h.dir y (mem_allMsgs.mpr (Or.inr (Or.inl hy)))
    · exact h.dir y (mem_allMsgs.mpr (Or.inr (Or.inr hy)))
  unfold enqueueRaw
  simp only
  split
  · exact key _ rfl rfl
  · exact key _ rfl rfl
  · exact ⟨h.dir, h.fileA, h.fileB⟩

theorem geo_drain {l : Link Env} (h : Geo l) (n : Nat) : Geo (l.drain n).1 := by
  unfold Link.drain
  split
  · exact geo_of_sub h rfl rfl (fun s hs => ⟨s, mem_allMsgs.mpr (Or.inl hs), rfl, rfl⟩) (fun s hs => by cases hs) (fun s hs => hs)
  · split
    · exact geo_of_sub h rfl rfl (fun s hs => ⟨s, mem_allMsgs.mpr (Or.inl hs), rfl, rfl⟩) (fun s hs => hs) (fun s hs => by cases hs)
    · exact h

theorem mem_deliverAt {t : Nat} : ∀ (i : Nat) (xs : List (Sent Env)) (s' : Sent Env), s' ∈ deliverAt t i xs →
    ∃ s ∈ xs, s'.src = s.src ∧ s'.dst = s.dst
  | _, [], _, h => by cases ‹Nat› <;> cases h
  | 0, x :: xs, s', h => by
    simp only [deliverAt, List.mem_cons] at h
    rcases h with rfl | h
    · exact ⟨x, by simp, rfl, rfl⟩
    · exact ⟨s', by simp [h], rfl, rfl⟩
  | i + 1, x :: xs, s', h => by
    simp only [deliverAt, List.mem_cons] at h
    rcases h with rfl | h
    · exact ⟨s', by simp, rfl, rfl⟩
    · obtain ⟨s, hs, e⟩ := mem_deliverAt i xs s' h
      exact ⟨s, by simp [hs], e⟩

theorem geo_ctl {l : Link Env} (h : Geo l) (c : Ctl) : Geo (c.fn l).1 := by
  have hab := ctl_ab c l
  cases c with
  | partition =>
    obtain ⟨_, _, es, _, _, _, _, sA, sB, _⟩ := Link.explicitPartition_fields l
    exact geo_of_sub h hab.1 hab.2 (fun s hs => by rw [show (Ctl.partition.fn l).1.sent = [] from es] at hs; cases hs)
      (fun s hs => sA.subset hs) (fun s hs => sB.subset hs)
  | partitionOneway s d =>
    obtain ⟨_, _, es, _, _, _, _, sA, sB, _⟩ := Link.partitionOneway_fields l s d
    exact geo_of_sub h hab.1 hab.2
      (fun x hx => by
        rw [show ((Ctl.partitionOneway s d).fn l).1.sent = _ from es] at hx
        exact ⟨x, mem_allMsgs.mpr (Or.inl (List.mem_filter.mp hx).1), rfl, rfl⟩)
      (fun x hx => sA.subset hx) (fun x hx => sB.subset hx)
  | repair => exact ⟨h.dir, h.fileA, h.fileB⟩
  | repairOneway s d =>
    refine geo_of_sub h hab.1 hab.2 (fun x hx => ⟨x, mem_allMsgs.mpr (Or.inl ?_), rfl, rfl⟩) (fun x hx => ?_) (fun x hx => ?_)
    all_goals
      simp only [Ctl.fn] at hx
      unfold repairOneway at hx
      split at hx <;> exact hx
  | hold =>
    refine geo_of_sub h hab.1 hab.2 (fun x hx => ?_) (fun x hx => ?_) (fun x hx => ?_)
    · simp only [Ctl.fn] at hx
      unfold Link.hold at hx
      split at hx
      · simp only [holdRaw, recall, List.mem_map, List.mem_append] at hx
        obtain ⟨y, hy, rfl⟩ := hx
        rcases hy with ⟨z, hz, rfl⟩ | hy
        · exact ⟨z, mem_allMsgs.mpr (Or.inr hz), rfl, rfl⟩
        · exact ⟨y, mem_allMsgs.mpr (Or.inl hy), rfl, rfl⟩
      · simp only [holdRaw, List.mem_map] at hx
        obtain ⟨y, hy, rfl⟩ := hx
        exact ⟨y, mem_allMsgs.mpr (Or.inl hy), rfl, rfl⟩
    · simp only [Ctl.fn] at hx
      unfold Link.hold at hx
      split at hx
      · cases hx
      · exact hx
    · simp only [Ctl.fn] at hx
      unfold Link.hold at hx
      split at hx
      · cases hx
      · exact hx
  | release =>
    refine geo_of_sub h hab.1 hab.2 (fun x hx => ?_) (fun x hx => hx) (fun x hx => hx)
    simp only [Ctl.fn, release, List.mem_map] at hx
    obtain ⟨y, hy, rfl⟩ := hx
    refine ⟨y, mem_allMsgs.mpr (Or.inl hy), ?_, ?_⟩ <;> (unfold releaseOne; split <;> rfl)
  | manual i =>
    refine geo_of_sub h hab.1 hab.2 (fun x hx => ?_) (fun x hx => hx) (fun x hx => hx)
    obtain ⟨y, hy, e⟩ := mem_deliverAt i l.sent x hx
    exact ⟨y, mem_allMsgs.mpr (Or.inl hy), e⟩

/-- an enqueue between the link's end points (any other operation). -/
def DirOp (a b : Nat) : GOp → Prop
  | .enq _ _ _ s t _ => (s = a ∧ t = b) ∨ (s = b ∧ t = a)
  | _ => True

theorem geo_gstep (cfg : Cfg) {l : Link Env} (h : Geo l) (o : GOp) (ho : DirOp l.a l.b o) : Geo (gstep cfg l o).1 := by
  cases o with
  | enq cf cr dl s t e =>
    have h1 := geo_randStep h cfg cf cr
    have hab := randStep_ab cfg l cf cr
    have h2 := geo_enqueueRaw h1 dl s t e (by rw [hab.1, hab.2]; exact ho)
    exact geo_process h2
  | tick now => exact geo_process (l := { l with now := now }) ⟨h.dir, h.fileA, h.fileB⟩
  | drain n => exact geo_drain h n
  | ctl c => exact geo_ctl h c

theorem geo_grun (cfg : Cfg) {l : Link Env} (h : Geo l) (ops : List GOp) (ho : ∀ o ∈ ops, DirOp l.a l.b o) :
    Geo (grun cfg l ops).1 := by
  induction ops generalizing l with
  | nil => exact h
  | cons o ops ih =>
    rw [grun_cons]
    have hab := gstep_ab cfg l o
    exact ih (geo_gstep cfg h o (ho o (by simp))) (fun o' ho' => by rw [hab.1, hab.2]; exact ho o' (by simp [ho']))

theorem isSend_dirOp {a b : Nat} {o : GOp} (h : IsSend a b o) : DirOp a b o := by
  cases o <;> first | exact h | exact trivial

theorem isReply_dirOp {a b : Nat} {ms : List (Sent Env)} (hms : ∀ x ∈ ms, Dir a b x) {o : GOp} (h : IsReply ms o) :
    DirOp a b o := by
  cases o with
  | enq cf cr dl s t e =>
    obtain ⟨x, hx, rfl, rfl, _⟩ := h
    rcases hms x hx with ⟨e1, e2⟩ | ⟨e1, e2⟩
    · exact Or.inr ⟨e2, e1⟩
    · exact Or.inl ⟨e2, e1⟩
  | _ => exact trivial

theorem ctlOps_dirOp (w : World) (li : Nat) (c : Nat → Nat → Ctl) (x y a b : Nat) : ∀ o ∈ ctlOps w li c x y, DirOp a b o := by
  intro o ho
  unfold ctlOps at ho
  split at ho
  · simp only [List.mem_singleton] at ho; subst ho; exact trivial
  · cases ho

theorem stepOps_dirOp (w : World) (li : Nat) (l : Link Env) (ops : List GOp) (st : Step) (hg : Geo l)
    (h : StepOps w li l ops st) : ∀ o ∈ ops, DirOp l.a l.b o := by
  cases st with
  | stepBegin => have h' : ops = _ := h; subst h'; intro o ho; simp only [List.mem_singleton] at ho; subst ho; exact trivial
  | turn hh =>
    obtain ⟨replies, hq, he⟩ := h
    subst he
    intro o ho
    split at ho
    · rcases List.mem_cons.mp ho with e | ho
      · subst e; exact trivial
      · refine isReply_dirOp ?_ (hq o ho).1
        intro x hx
        rcases drain_sub l _ x hx with hx | hx
        · exact hg.dir x (mem_allMsgs.mpr (Or.inr (Or.inl hx)))
        · exact hg.dir x (mem_allMsgs.mpr (Or.inr (Or.inr hx)))
    · cases ho
  | host hh hop =>
    cases hop
    case net c a b =>
      have h' : ops = ctlOps w li (ctlOf c) a b := h
      subst h'
      exact ctlOps_dirOp _ _ _ _ _ _ _
    all_goals exact fun o ho => isSend_dirOp ((h : LW.Sends w l ops) o ho).1
  | crash hh => exact fun o ho => isSend_dirOp ((h : LW.Sends w l ops) o ho).1
  | bounce hh => exact fun o ho => isSend_dirOp ((h : LW.Sends w l ops) o ho).1
  | register ip c => have h' : ops = [] := h; subst h'; exact fun _ ho => by cases ho
  | dns n => have h' : ops = [] := h; subst h'; exact fun _ ho => by cases ho
  | stepEnd => have h' : ops = [] := h; subst h'; exact fun _ ho => by cases ho
  | loDeliver a b => have h' : ops = [] := h; subst h'; exact fun _ ho => by cases ho
  | link op x y =>
    have h' : ops = ctlOps w li (ctlOf op) x y := h
    subst h'
    exact ctlOps_dirOp _ _ _ _ _ _ _
  | deliver x y i =>
    have h' : ops = ctlOps w li (fun _ _ => .manual i) x y := h
    subst h'
    exact ctlOps_dirOp _ _ _ _ _ _ _
  | linkPairs op xs ys =>
    have h' : ops = (pairList xs ys).flatMap (fun p => ctlOps w li (ctlOf op) p.1 p.2) := h
    subst h'
    intro o ho
    obtain ⟨p, _, hp'⟩ := List.mem_flatMap.mp ho
    exact ctlOps_dirOp _ _ _ _ _ _ _ o hp'
  | deliverAll x y =>
    have h' : ops = if Touches w x y li then (List.range l.sent.length).map (fun i => GOp.ctl (.manual i)) else [] := h
    subst h'
    intro o ho
    split at ho
    · obtain ⟨i, _, rfl⟩ := List.mem_map.mp ho; exact trivial
    · cases ho

/-- every link of the world satisfies the routing invariant. -/
def GeoW (w : World) : Prop := ∀ (li : Nat) (l : Link Env), w.links[li]? = some l → Geo l

/-- **the routing invariant holds in every reachable world**: `register` creates empty links, every other
    step runs link operations between the link's end points. -/
theorem geoW_step (w : World) (st : Step) (h : GeoW w) : GeoW (applyStep w st) := by
  intro li l' hl'
  have hf := step_frame w st
  by_cases hlt : li < w.links.length
  · obtain ⟨ops, he, hs⟩ := step_link w st li (w.links[li]) (List.getElem?_eq_getElem hlt)
    rw [he] at hl'
    cases hl'
    have h0 := h li _ (List.getElem?_eq_getElem hlt)
    exact geo_grun _ h0 ops (stepOps_dirOp w li _ ops st h0 hs)
  · cases st with
    | register ip c =>
      have hge : w.links.length ≤ li := Nat.le_of_not_lt hlt
      simp only [applyStep, register] at hl'
      rw [List.getElem?_append_right hge] at hl'
      have hm := List.mem_of_getElem? hl'
      obtain ⟨hs, _, rfl⟩ := List.mem_map.mp hm
      exact ⟨fun s hs => (by cases hs), fun s hs => (by cases hs), fun s hs => (by cases hs)⟩
    | _ =>
      have hlen := hf.leneq (by intro ip c e; cases e)
      have := (List.getElem?_eq_some_iff.mp hl').1
      omega

theorem geoW_run (w : World) (sts : List Step) (h : GeoW w) : GeoW (run w sts) := by
  induction sts generalizing w with
  | nil => exact h
  | cons st sts ih => exact ih _ (geoW_step w st h)

theorem geoW_empty (w : World) (h : w.links = []) : GeoW w := by
  intro li l hl; rw [h] at hl; cases hl

/-- what a link hands to the host with ip number `n` is addressed to `n`. -/
theorem handedAt_dst (w : World) (hg : GeoW w) (j n : Nat) : ∀ x ∈ handedAt w j n, x.dst = n := by
  intro x hx
  unfold handedAt at hx
  cases hl : w.links[j]? with
  | none => rw [hl] at hx; cases hx
  | some l =>
    rw [hl] at hx
    simp only at hx
    have g := hg j l hl
    unfold Link.drain at hx
    split at hx
    · next hc => rw [g.fileA x hx]; exact (by simpa using hc : n = l.a).symm
    · split at hx
      · next hc => rw [g.fileB x hx]; exact (by simpa using hc : n = l.b).symm
      · cases hx

end TV.C09
