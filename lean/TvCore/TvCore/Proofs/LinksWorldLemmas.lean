import TvCore.Proofs.LinksWorldSteps
/-
  World ⟶ Link refinement: runs of steps, what a turn hands over, and the link-level lemmas about
  lists of link operations (`grun`) that the World-level theorems of `Props/LinksWorld.lean` lift.
-/
namespace TV.LW
open TV TV.World TV.Link

/-! ### runs -/

/-- the world after a sequence of steps. -/
def run (w : World) (sts : List Step) : World := sts.foldl applyStep w

/-- every step of a run paired with the world it is applied to. -/
def trail (w : World) : List Step → List (World × Step)
  | [] => []
  | st :: sts => (w, st) :: trail (applyStep w st) sts

/-- the messages link `li` hands to a host in this step: at the start of host `h`'s turn the whole
    deliverable queue of the link towards `h` (nothing if `h` is not an end point); nothing otherwise. -/
def handed (w : World) (li : Nat) : Step → List (Sent Env)
  | .turn h => handedAt w li (w.host! h).ipnum
  | _ => []

/-- everything link `li` hands to hosts during a run, in order. -/
def handedOn (li : Nat) (w : World) : List Step → List (Sent Env)
  | [] => []
  | st :: sts => handed w li st ++ handedOn li (applyStep w st) sts

@[simp] theorem run_nil (w : World) : run w [] = w := rfl
theorem run_cons (w : World) (st : Step) (sts : List Step) : run w (st :: sts) = run (applyStep w st) sts := rfl
theorem run_append (w : World) (xs ys : List Step) : run w (xs ++ ys) = run (run w xs) ys := by
  unfold run; rw [List.foldl_append]

theorem handedOn_append (li : Nat) (w : World) (xs ys : List Step) :
    handedOn li w (xs ++ ys) = handedOn li w xs ++ handedOn li (run w xs) ys := by
  induction xs generalizing w with
  | nil => simp [handedOn]
  | cons x xs ih => simp only [List.cons_append, handedOn, run_cons, ih, List.append_assoc]

theorem trail_append (w : World) (xs ys : List Step) : trail w (xs ++ ys) = trail w xs ++ trail (run w xs) ys := by
  induction xs generalizing w with
  | nil => simp [trail]
  | cons x xs ih => simp only [List.cons_append, trail, run_cons, ih]

/-- **`turnStep`, the envelopes**: what the start of host `h`'s turn returns is, link by link in table
    order, what each link hands over (`handed`). -/
theorem turnStep_out (w : World) (h : Nat) :
    (turnStep w h).1 =
      ((List.range w.links.length).flatMap (fun j => handed w j (.turn h))).map (fun (x : Sent Env) => x.msg) := by
  show ((w.turnBegin h).deliverTo h).1 = _
  rw [deliverTo_out, ipnum_turnBegin]
  rfl

/-! ### outputs of operation lists -/

def GOp.isDrain : GOp → Prop
  | .drain _ => True
  | _ => False

theorem grun_out_nil (cfg : Cfg) (l : Link Env) (ops : List GOp) (h : ∀ o ∈ ops, ¬ o.isDrain) : (grun cfg l ops).2 = [] := by
  induction ops generalizing l with
  | nil => rfl
  | cons o ops ih =>
    rw [grun_cons]
    have h1 : (gstep cfg l o).2 = [] := by
      cases o with
      | drain n => exact absurd (show (GOp.drain n).isDrain from trivial) (h (.drain n) (by simp))
      | _ => rfl
    simp only [h1, List.nil_append]
    exact ih _ (fun o' ho' => h o' (by simp [ho']))

theorem isSend_not_drain {a b : Nat} {o : GOp} (h : IsSend a b o) : ¬ o.isDrain := by
  cases o <;> simp [IsSend, GOp.isDrain] at h ⊢

theorem isReply_not_drain {ms : List (Sent Env)} {o : GOp} (h : IsReply ms o) : ¬ o.isDrain := by
  cases o <;> simp [IsReply, GOp.isDrain] at h ⊢

theorem ctlOps_not_drain (w : World) (li : Nat) (c : Nat → Nat → Ctl) (x y : Nat) : ∀ o ∈ ctlOps w li c x y, ¬ o.isDrain := by
  intro o ho
  unfold ctlOps at ho
  split at ho
  · simp only [List.mem_singleton] at ho; subst ho; exact fun h => h
  · cases ho

/-- **what the operations of a step hand out is what `handed` says.** -/
theorem stepOps_out (cfg : Cfg) (w : World) (li : Nat) (l : Link Env) (ops : List GOp) (st : Step)
    (hl : w.links[li]? = some l) (h : StepOps w li l ops st) : (grun cfg l ops).2 = handed w li st := by
  cases st with
  | turn hh =>
    obtain ⟨replies, hq, he⟩ := h
    subst he
    show _ = handedAt w li (w.host! hh).ipnum
    unfold handedAt
    rw [hl]
    simp only
    split
    · rw [grun_cons]
      rw [grun_out_nil cfg _ replies (fun o ho => isReply_not_drain (hq o ho).1)]
      simp [gstep]
    · rename_i hadj
      have hadj' : (l.a == (w.host! hh).ipnum || l.b == (w.host! hh).ipnum) = false := by simpa using hadj
      rw [drain_nonadj l _ hadj']
      rfl
  | host hh hop =>
    show _ = []
    cases hop
    case net c a b =>
      have h' : ops = ctlOps w li (ctlOf c) a b := h
      subst h'
      exact grun_out_nil _ _ _ (ctlOps_not_drain _ _ _ _ _)
    all_goals exact grun_out_nil _ _ _ (fun o ho => isSend_not_drain ((h : Sends w l ops) o ho).1)
  | crash hh => exact grun_out_nil _ _ _ (fun o ho => isSend_not_drain ((h : Sends w l ops) o ho).1)
  | bounce hh => exact grun_out_nil _ _ _ (fun o ho => isSend_not_drain ((h : Sends w l ops) o ho).1)
  | stepBegin => have h' : ops = _ := h; subst h'; rfl
  | register ip c => have h' : ops = [] := h; subst h'; rfl
  | dns n => have h' : ops = [] := h; subst h'; rfl
  | stepEnd => have h' : ops = [] := h; subst h'; rfl
  | loDeliver a b => have h' : ops = [] := h; subst h'; rfl
  | link op x y =>
    have h' : ops = ctlOps w li (ctlOf op) x y := h
    subst h'
    exact grun_out_nil _ _ _ (ctlOps_not_drain _ _ _ _ _)
  | deliver x y i =>
    have h' : ops = ctlOps w li (fun _ _ => .manual i) x y := h
    subst h'
    exact grun_out_nil _ _ _ (ctlOps_not_drain _ _ _ _ _)
  | linkPairs op xs ys =>
    have h' : ops = (pairList xs ys).flatMap (fun p => ctlOps w li (ctlOf op) p.1 p.2) := h
    subst h'
    apply grun_out_nil
    intro o ho
    obtain ⟨p, _, hp⟩ := List.mem_flatMap.mp ho
    exact ctlOps_not_drain _ _ _ _ _ o hp
  | deliverAll x y =>
    have h' : ops = if Touches w x y li then (List.range l.sent.length).map (fun i => GOp.ctl (.manual i)) else [] := h
    subst h'
    apply grun_out_nil
    intro o ho
    split at ho
    · obtain ⟨i, _, rfl⟩ := List.mem_map.mp ho; exact fun h => h
    · cases ho

/-! ### the generic induction over runs -/

/-- **Invariants of one link along a run.**  `J w l H`: a statement about the world, link `li`'s state and
    everything the link has handed to hosts so far.  If every admissible step (`A`) keeps it — where the
    step's effect on the link is given as a list of link operations satisfying `StepOps` — then it holds
    after every run of admissible steps.  Along the run the configuration is that of the first world and
    the oracle queue a suffix of its queue. -/
theorem run_inv (li : Nat) (w0 : World) (J : World → Link Env → List (Sent Env) → Prop) (A : World → Step → Prop)
    (hJ : ∀ (w : World) (st : Step) (l : Link Env) (ops : List GOp) (H : List (Sent Env)),
      w.cfg = w0.cfg → w.oracle <:+ w0.oracle → A w st → w.links[li]? = some l → StepOps w li l ops st →
      (applyStep w st).links[li]? = some (grun w.cfg.link l ops).1 → J w l H →
      J (applyStep w st) (grun w.cfg.link l ops).1 (H ++ handed w li st))
    (sts : List Step) (l : Link Env) (hl : w0.links[li]? = some l) (hA : ∀ p ∈ trail w0 sts, A p.1 p.2)
    (h0 : J w0 l []) :
    ∃ l', (run w0 sts).links[li]? = some l' ∧ J (run w0 sts) l' (handedOn li w0 sts) := by
  suffices H : ∀ (sts : List Step) (w : World) (l : Link Env) (Hd : List (Sent Env)), w.cfg = w0.cfg → w.oracle <:+ w0.oracle →
      w.links[li]? = some l → (∀ p ∈ trail w sts, A p.1 p.2) → J w l Hd →
      ∃ l', (run w sts).links[li]? = some l' ∧ J (run w sts) l' (Hd ++ handedOn li w sts) by
    have := H sts w0 l [] rfl (List.suffix_refl _) hl hA h0
    simpa using this
  intro sts
  induction sts with
  | nil =>
    intro w l Hd _ _ hl _ hj
    exact ⟨l, hl, by simpa [handedOn] using hj⟩
  | cons st sts ih =>
    intro w l Hd hc ho hl hA hj
    obtain ⟨ops, he, hs⟩ := step_link w st li l hl
    have hf := step_frame w st
    have hj' := hJ w st l ops Hd hc ho (hA (w, st) (by simp [trail])) hl hs he hj
    obtain ⟨l', hl', hj''⟩ := ih (applyStep w st) _ _ (hf.cfg.trans hc) (hf.ora.trans ho) he
      (fun p hp => hA p (by simp [trail, hp])) hj'
    refine ⟨l', hl', ?_⟩
    rw [run_cons]
    simpa [handedOn, List.append_assoc] using hj''

/-! ### C08: operations on a held link -/

open C08 in
/-- relation between a held link, a later state of it, and what was handed out in between: still
    held; the in-flight queue only grew (at the end); the deliverable queues only shrank — by exactly
    what was handed out. -/
structure HeldRel (l l' : Link Env) (out : List (Sent Env)) : Prop where
  held : C08.Held l'
  sent : ∃ new, l'.sent = l.sent ++ new
  queues : (l'.toA ++ l'.toB ++ out).Perm (l.toA ++ l.toB)
  nextId : l.nextId ≤ l'.nextId

theorem HeldRel.refl {l : Link Env} (h : C08.Held l) : HeldRel l l [] :=
  ⟨h, ⟨[], by simp⟩, by simp, Nat.le_refl _⟩

theorem HeldRel.trans {a b c : Link Env} {o1 o2 : List (Sent Env)} (h1 : HeldRel a b o1) (h2 : HeldRel b c o2) :
    HeldRel a c (o1 ++ o2) := by
  refine ⟨h2.held, ?_, ?_, Nat.le_trans h1.nextId h2.nextId⟩
  · obtain ⟨n1, e1⟩ := h1.sent
    obtain ⟨n2, e2⟩ := h2.sent
    exact ⟨n1 ++ n2, by rw [e2, e1, List.append_assoc]⟩
  · have e1 : (c.toA ++ c.toB ++ (o1 ++ o2)).Perm ((c.toA ++ c.toB ++ o2) ++ o1) := by
      rw [List.append_assoc (c.toA ++ c.toB) o2 o1]
      exact List.Perm.append_left _ List.perm_append_comm
    exact e1.trans ((h2.queues.append_right o1).trans h1.queues)

/-- operations that do not end a hold. -/
def HoldOk : GOp → Prop
  | .enq _ _ _ _ _ _ => True
  | .tick _ => True
  | .drain _ => True
  | .ctl .hold => True
  | .ctl _ => False

/-- with the repair of F-C08-1 (`fixMatured`) the ready queues of the link are empty — the state `hold`
    leaves them in, and which lasts as long as the hold (nothing matures on a held link). -/
def ReadyOK (l : Link Env) : Prop := l.fixMatured = true → l.toA = [] ∧ l.toB = []

theorem holdRaw_of_held {l : Link Env} (h : C08.Held l) : l.holdRaw.sent = l.sent := by
  unfold Link.holdRaw
  simp only
  have : ∀ s ∈ l.sent, (fun s : Sent Env => { s with status := Status.hold }) s = s := by
    intro s hs
    have := h.all s hs
    cases s
    simp only at this
    subst this
    rfl
  exact (List.map_congr_left this).trans (List.map_id _)

/-- `hold` on a link that is already held (ready queues empty under the repair) changes nothing. -/
theorem hold_of_held {l : Link Env} (h : C08.Held l) (hq : ReadyOK l) :
    l.hold.sent = l.sent ∧ l.hold.toA = l.toA ∧ l.hold.toB = l.toB ∧ l.hold.nextId = l.nextId := by
  unfold Link.hold
  split
  · rename_i hf
    obtain ⟨qa, qb⟩ := hq hf
    have e : l.recall.sent = l.sent := by simp [Link.recall, qa, qb]
    have hh : C08.Held l.recall := ⟨h.ab, h.ba, by rw [e]; exact h.all⟩
    refine ⟨(holdRaw_of_held hh).trans e, ?_, ?_, rfl⟩
    · show ([] : List (Sent Env)) = l.toA
      rw [qa]
    · show ([] : List (Sent Env)) = l.toB
      rw [qb]
  · exact ⟨holdRaw_of_held h, rfl, rfl, rfl⟩

theorem held_gstep (cfg : Cfg) {l : Link Env} (h : C08.Held l) (hq : ReadyOK l) (o : GOp) (ho : HoldOk o) :
    HeldRel l (gstep cfg l o).1 (gstep cfg l o).2 := by
  cases o with
  | enq cf cr d s t e =>
    obtain ⟨x, _, _, _, _, h5, h6, h7, _, h9⟩ := C08.enqueue_held cfg h cf cr d s t e
    refine ⟨h9, ⟨[x], h5⟩, ?_, ?_⟩
    · show ((l.enqueue cfg cf cr d s t e).1.toA ++ (l.enqueue cfg cf cr d s t e).1.toB ++ []).Perm _
      rw [h6, h7]; simp
    · show l.nextId ≤ (l.enqueue cfg cf cr d s t e).1.nextId
      unfold Link.enqueue
      rw [C08.randStep_held cfg h]
      simp only
      have hst : l.stateFor s t = .hold := by unfold Link.stateFor; split <;> simp [h.ab, h.ba]
      simp only [Link.enqueueRaw, hst, Link.processDeliverables]
      exact Nat.le_succ _
  | tick now =>
    obtain ⟨h1, h2, h3, h4⟩ := C08.tick_held h now
    refine ⟨h4, ⟨[], by simp [gstep, h1]⟩, ?_, Nat.le_refl _⟩
    show ((l.tick now).toA ++ (l.tick now).toB ++ []).Perm _
    rw [h2, h3]; simp
  | drain n =>
    simp only [gstep]
    unfold Link.drain
    split
    · refine ⟨⟨h.ab, h.ba, h.all⟩, ⟨[], by simp⟩, ?_, Nat.le_refl _⟩
      simp only [List.nil_append]
      exact List.perm_append_comm
    · split
      · refine ⟨⟨h.ab, h.ba, h.all⟩, ⟨[], by simp⟩, ?_, Nat.le_refl _⟩
        simp
      · exact HeldRel.refl h
  | ctl c =>
    cases c with
    | hold =>
      obtain ⟨e1, e2, e3, e4⟩ := hold_of_held h hq
      refine ⟨C08.hold_establishes l, ⟨[], by simp [gstep, Ctl.fn, e1]⟩, ?_, Nat.le_of_eq e4.symm⟩
      simp [gstep, Ctl.fn, e2, e3]
    | _ => exact absurd ho (by simp [HoldOk])

theorem HeldRel.readyOK {l l' : Link Env} {out : List (Sent Env)} (hr : HeldRel l l' out)
    (hf : l'.fixMatured = l.fixMatured) (hq : ReadyOK l) : ReadyOK l' := by
  intro hf'
  obtain ⟨qa, qb⟩ := hq (hf ▸ hf')
  have hp := hr.queues
  rw [qa, qb] at hp
  have hl := hp.length_eq
  simp only [List.length_append, List.append_nil, List.length_nil] at hl
  exact ⟨List.eq_nil_of_length_eq_zero (by omega), List.eq_nil_of_length_eq_zero (by omega)⟩

theorem held_grun (cfg : Cfg) {l : Link Env} (h : C08.Held l) (hq : ReadyOK l) (ops : List GOp) (ho : ∀ o ∈ ops, HoldOk o) :
    HeldRel l (grun cfg l ops).1 (grun cfg l ops).2 := by
  induction ops generalizing l with
  | nil => exact HeldRel.refl h
  | cons o ops ih =>
    rw [grun_cons]
    have h1 := held_gstep cfg h hq o (ho o (by simp))
    exact h1.trans (ih h1.held (h1.readyOK (gstep_flag cfg l o) hq) (fun o' ho' => ho o' (by simp [ho'])))

theorem isSend_holdOk {a b : Nat} {o : GOp} (h : IsSend a b o) : HoldOk o := by
  cases o <;> simp [IsSend, HoldOk] at h ⊢

theorem isReply_holdOk {ms : List (Sent Env)} {o : GOp} (h : IsReply ms o) : HoldOk o := by
  cases o <;> simp [IsReply, HoldOk] at h ⊢

theorem deliverAt_ge {M : Type} (t : Nat) : ∀ (i : Nat) (xs : List (Sent M)), xs.length ≤ i → Link.deliverAt t i xs = xs
  | _, [], _ => by cases ‹Nat› <;> rfl
  | 0, x :: xs, h => by simp at h
  | i + 1, x :: xs, h => by
    simp only [Link.deliverAt]
    rw [deliverAt_ge t i xs (by simpa using h)]

theorem manual_ge (l : Link Env) (i : Nat) (h : l.sent.length ≤ i) : l.manualDeliver i = l := by
  unfold Link.manualDeliver
  rw [deliverAt_ge _ _ _ h]

/-! ### C08: release, manual delivery -/

/-- a message without its delivery status. -/
def noStatus (s : Sent Env) : Sent Env := { s with status := .hold }

theorem noStatus_releaseOne (now : Nat) (s : Sent Env) : noStatus (releaseOne now s) = noStatus s := by
  unfold releaseOne noStatus
  cases s.status <;> rfl

/-- `C08.release_all_in_order`, for the whole message instead of its id: after `release` the next
    maturing pass at a time not before the link's clock moves every held message to its destination's
    queue — behind what already waits there, in the order of the in-flight queue — and leaves nothing
    in flight.  (Only the delivery status of a message changes.) -/
theorem release_tick_queues {l : Link Env} (h : C08.Held l) (now : Nat) (hnow : l.now ≤ now) :
    (l.release.tick now).sent = [] ∧
    (l.release.tick now).toA.map noStatus = (l.toA ++ l.sent.filter (fun s => s.dst == l.a)).map noStatus ∧
    (l.release.tick now).toB.map noStatus = (l.toB ++ l.sent.filter (fun s => s.dst != l.a)).map noStatus ∧
    (l.release.tick now).stAB = .healthy ∧ (l.release.tick now).stBA = .healthy ∧
    (l.release.tick now).a = l.a ∧ (l.release.tick now).b = l.b := by
  have hmat : ∀ s ∈ l.release.sent, matured now s = true := by
    intro s hs
    simp only [release, List.mem_map] at hs
    obtain ⟨x, hx, rfl⟩ := hs
    simp [releaseOne, h.all x hx, matured, hnow]
  have hf : (l.release.sent).filter (matured now) = l.release.sent := List.filter_eq_self.mpr hmat
  have hnf : (l.release.sent).filter (fun s => !matured now s) = [] := by
    apply List.filter_eq_nil_iff.mpr
    intro s hs; simp [hmat s hs]
  have hmap : ∀ (p : Sent Env → Bool), (∀ s : Sent Env, p (releaseOne l.now s) = p s) →
      ((l.release.sent).filter p).map noStatus = (l.sent.filter p).map noStatus := by
    intro p hp
    simp only [release]
    induction l.sent with
    | nil => rfl
    | cons x xs ih =>
      simp only [List.map_cons, List.filter_cons, hp]
      cases hpx : p x
      · simp only [Bool.false_eq_true, if_false]; exact ih
      · simp only [if_true, List.map_cons, noStatus_releaseOne, ih]
  unfold tick processDeliverables
  simp only [hf, hnf]
  refine ⟨trivial, ?_, ?_, rfl, rfl, rfl, rfl⟩
  · simp only [List.map_append]
    congr 1
    exact hmap (fun s => s.dst == l.a) (fun s => by unfold releaseOne; cases s.status <;> rfl)
  · simp only [List.map_append]
    congr 1
    exact hmap (fun s => s.dst != l.a) (fun s => by unfold releaseOne; cases s.status <;> rfl)

/-! ### the link clocks follow the topology clock -/

def GOp.isTick : GOp → Prop
  | .tick _ => True
  | _ => False

theorem enqueue_now (cfg : Cfg) (l : Link Env) (cf cr : Bool) (d s t : Nat) (e : Env) :
    (l.enqueue cfg cf cr d s t e).1.now = l.now := by
  have h1 : (randStep cfg l cf cr).1.now = l.now := by
    unfold randStep release; repeat' split
    all_goals rfl
  have h2 : ∀ k : Link Env, (k.enqueueRaw d s t e).1.now = k.now := by
    intro k; unfold enqueueRaw; simp only; split <;> rfl
  show ((randStep cfg l cf cr).1.enqueueRaw d s t e).1.processDeliverables.now = l.now
  have h3 : ∀ k : Link Env, k.processDeliverables.now = k.now := fun _ => rfl
  rw [h3, h2, h1]

theorem ctl_now (c : Ctl) (l : Link Env) : (c.fn l).1.now = l.now := by
  cases c with
  | partition => exact (Link.explicitPartition_fields l).2.2.2.2.2.2.2.2.2.1
  | hold => unfold Ctl.fn Link.hold; simp only; split <;> rfl
  | partitionOneway s d => exact (Link.partitionOneway_fields l s d).2.2.2.2.2.2.2.2.2.1
  | repairOneway s d => unfold Ctl.fn Link.repairOneway; simp only; split <;> rfl
  | _ => rfl

theorem drain_now (l : Link Env) (n : Nat) : (l.drain n).1.now = l.now := by
  unfold Link.drain
  split
  · rfl
  · split <;> rfl

theorem gstep_now (cfg : Cfg) (l : Link Env) (o : GOp) (h : ¬ o.isTick) : (gstep cfg l o).1.now = l.now := by
  cases o with
  | enq cf cr d s t e => exact enqueue_now cfg l cf cr d s t e
  | tick n => exact absurd trivial h
  | drain n => exact drain_now l n
  | ctl c => exact ctl_now c l

theorem grun_now (cfg : Cfg) (l : Link Env) (ops : List GOp) (h : ∀ o ∈ ops, ¬ o.isTick) : (grun cfg l ops).1.now = l.now := by
  induction ops generalizing l with
  | nil => rfl
  | cons o ops ih =>
    rw [grun_cons]
    show (grun cfg (gstep cfg l o).1 ops).1.now = l.now
    rw [ih _ (fun o' ho' => h o' (by simp [ho'])), gstep_now cfg l o (h o (by simp))]

theorem isSend_not_tick {a b : Nat} {o : GOp} (h : IsSend a b o) : ¬ o.isTick := by
  cases o <;> simp [IsSend, GOp.isTick] at h ⊢

theorem isReply_not_tick {ms : List (Sent Env)} {o : GOp} (h : IsReply ms o) : ¬ o.isTick := by
  cases o <;> simp [IsReply, GOp.isTick] at h ⊢

theorem ctlOps_not_tick (w : World) (li : Nat) (c : Nat → Nat → Ctl) (x y : Nat) : ∀ o ∈ ctlOps w li c x y, ¬ o.isTick := by
  intro o ho
  unfold ctlOps at ho
  split at ho
  · simp only [List.mem_singleton] at ho; subst ho; exact fun h => h
  · cases ho

/-- only `stepBegin` ticks a link. -/
theorem stepOps_noTick (w : World) (li : Nat) (l : Link Env) (ops : List GOp) (st : Step)
    (hst : st ≠ .stepBegin) (h : StepOps w li l ops st) : ∀ o ∈ ops, ¬ o.isTick := by
  cases st with
  | stepBegin => exact absurd rfl hst
  | turn hh =>
    obtain ⟨replies, hq, he⟩ := h
    subst he
    intro o ho
    split at ho
    · rcases List.mem_cons.mp ho with e | ho
      · subst e; exact fun h => h
      · exact isReply_not_tick (hq o ho).1
    · cases ho
  | host hh hop =>
    cases hop
    case net c a b =>
      have h' : ops = ctlOps w li (ctlOf c) a b := h
      subst h'
      exact ctlOps_not_tick _ _ _ _ _
    all_goals exact fun o ho => isSend_not_tick ((h : Sends w l ops) o ho).1
  | crash hh => exact fun o ho => isSend_not_tick ((h : Sends w l ops) o ho).1
  | bounce hh => exact fun o ho => isSend_not_tick ((h : Sends w l ops) o ho).1
  | register ip c => have h' : ops = [] := h; subst h'; exact fun _ ho => by cases ho
  | dns n => have h' : ops = [] := h; subst h'; exact fun _ ho => by cases ho
  | stepEnd => have h' : ops = [] := h; subst h'; exact fun _ ho => by cases ho
  | loDeliver a b => have h' : ops = [] := h; subst h'; exact fun _ ho => by cases ho
  | link op x y =>
    have h' : ops = ctlOps w li (ctlOf op) x y := h
    subst h'
    exact ctlOps_not_tick _ _ _ _ _
  | deliver x y i =>
    have h' : ops = ctlOps w li (fun _ _ => .manual i) x y := h
    subst h'
    exact ctlOps_not_tick _ _ _ _ _
  | linkPairs op xs ys =>
    have h' : ops = (pairList xs ys).flatMap (fun p => ctlOps w li (ctlOf op) p.1 p.2) := h
    subst h'
    intro o ho
    obtain ⟨p, _, hp⟩ := List.mem_flatMap.mp ho
    exact ctlOps_not_tick _ _ _ _ _ o hp
  | deliverAll x y =>
    have h' : ops = if Touches w x y li then (List.range l.sent.length).map (fun i => GOp.ctl (.manual i)) else [] := h
    subst h'
    intro o ho
    split at ho
    · obtain ⟨i, _, rfl⟩ := List.mem_map.mp ho; exact fun h => h
    · cases ho

/-- every link's clock is the topology clock. -/
def ClockOK (w : World) : Prop := ∀ (li : Nat) (l : Link Env), w.links[li]? = some l → l.now = w.now

/-- **the link clocks follow the topology clock**: `register` creates links at the topology's time,
    `stepBegin` ticks every link to the new time, nothing else moves either clock. -/
theorem clockOK_step (w : World) (st : Step) (h : ClockOK w) : ClockOK (applyStep w st) := by
  intro li l' hl'
  have hf := step_frame w st
  by_cases hlt : li < w.links.length
  · obtain ⟨ops, he, hs⟩ := step_link w st li (w.links[li]) (List.getElem?_eq_getElem hlt)
    rw [he] at hl'
    cases hl'
    have h0 := h li _ (List.getElem?_eq_getElem hlt)
    by_cases hst : st = .stepBegin
    · subst hst
      have h' : ops = [.tick (w.now + ceilMs w.cfg.tick)] := hs
      subst h'
      rw [hf.now]
      rfl
    · rw [grun_now _ _ _ (stepOps_noTick w li _ ops st hst hs), h0, hf.now]
      cases st <;> first | rfl | exact absurd rfl hst
  · cases st with
    | register ip c =>
      have hge : w.links.length ≤ li := Nat.le_of_not_lt hlt
      simp only [applyStep, register] at hl' ⊢
      rw [List.getElem?_append_right hge] at hl'
      have hm := List.mem_of_getElem? hl'
      obtain ⟨hs, _, rfl⟩ := List.mem_map.mp hm
      rfl
    | _ =>
      have hlen := hf.leneq (by intro ip c e; cases e)
      have := (List.getElem?_eq_some_iff.mp hl').1
      omega

theorem clockOK_run (w : World) (sts : List Step) (h : ClockOK w) : ClockOK (run w sts) := by
  induction sts generalizing w with
  | nil => exact h
  | cons st sts ih => exact ih _ (clockOK_step w st h)

theorem clockOK_empty (w : World) (h : w.links = []) : ClockOK w := by
  intro li l hl; rw [h] at hl; cases hl

end TV.LW
