import TvCore.Props.C04Mcast
import TvCore.Props.C09
import TvCore.Props.WorldLinks
/-
  C09, sender side — definitions and helper lemmas for `TvCore/Props/C09Fanout.lean`.

  Definitions used by the statements:
    * `mkEnv src p d`   the UDP envelope a send creates for destination `d`,
    * `linkEnvs l`      every envelope a link holds: in flight (`sent`, any status) and matured but
                        not yet handed to a host (`toA`, `toB`),
    * `inflight w`      every envelope queued anywhere in the world: on links and on the hosts'
                        loopback queues (`lo`),
    * `NoFailCoin w`    the oracle queue holds no "this link fails now" coin (`fail_rate` never fires),
    * `Delta strict a b N`  list `b` is list `a`, minus some `lost`, plus a SUB-list of `N`, up to
                        permutation; nothing is lost when `strict` holds,
    * `Frame w w'`      nothing of any host but its loopback queue differs, and the group table is the same,
    * `Sends w w' N`    the three together for a world transition.
-/
namespace TV.C09
open TV TV.World TV.C04 TV.WorldLinks

/-- the envelope `udp.rs::send` builds for one destination. -/
def mkEnv (src : Addr) (p : Hex) (d : Addr) : Env := { src := src, dst := d, msg := .udp p }

/-- every envelope held by a link: in flight (`sent`) or deliverable (`toA`, `toB`). -/
def linkEnvs (l : Link Env) : List Env := (l.sent ++ l.toA ++ l.toB).map (·.msg)

/-- every envelope queued anywhere in the world: on links (any status, including the per-host
    deliverable queues) and on the hosts' loopback queues. -/
def inflight (w : World) : List Env := w.links.flatMap linkEnvs ++ w.hosts.flatMap (·.lo)

/-- the oracle never says "fail" (turmoil's `fail_rate` coin never comes up). -/
def NoFailCoin (w : World) : Prop := Ora.fail true ∉ w.oracle

/-! ### list algebra -/

section Lists
variable {α : Type}

/-- a sublist can be carried across a permutation (Batteries' `Sublist.exists_perm_sublist`). -/
theorem exists_perm_sublist {l₁ l₂ l₂' : List α} (s : l₁.Sublist l₂) (p : l₂.Perm l₂') :
    ∃ l₁' : List α, l₁'.Perm l₁ ∧ l₁'.Sublist l₂' := by
  induction p generalizing l₁ with
  | nil => exact ⟨[], List.sublist_nil.mp s ▸ .rfl, List.nil_sublist _⟩
  | cons x _ IH =>
    match s with
    | .cons _ s => let ⟨l₁', p', s'⟩ := IH s; exact ⟨l₁', p', s'.cons _⟩
    | .cons_cons _ s => let ⟨l₁', p', s'⟩ := IH s; exact ⟨x :: l₁', p'.cons x, s'.cons_cons _⟩
  | swap x y l' =>
    match s with
    | .cons _ (.cons _ s) => exact ⟨_, .rfl, (s.cons _).cons _⟩
    | .cons _ (.cons_cons _ s) => exact ⟨x :: _, .rfl, (s.cons _).cons_cons _⟩
    | .cons_cons _ (.cons _ s) => exact ⟨y :: _, .rfl, (s.cons_cons _).cons _⟩
    | .cons_cons _ (.cons_cons _ s) => exact ⟨x :: y :: _, .swap .., (s.cons_cons _).cons_cons _⟩
  | trans _ _ IH₁ IH₂ =>
    let ⟨_, pm, sm⟩ := IH₁ s
    let ⟨r₁, pr, sr⟩ := IH₂ sm
    exact ⟨r₁, pr.trans pm, sr⟩

/-- `b` is `a` minus `lost` plus `new`, `new` a sublist of `N`; `strict` forbids losses. -/
def Delta (strict : Prop) (a b N : List α) : Prop :=
  ∃ new lost, new.Sublist N ∧ (strict → lost = []) ∧ (b ++ lost).Perm (a ++ new)

theorem Delta.of_perm {s : Prop} {a b : List α} (N : List α) (h : b.Perm a) : Delta s a b N :=
  ⟨[], [], List.nil_sublist _, fun _ => rfl, by simpa using h⟩

theorem Delta.refl (s : Prop) (a N : List α) : Delta s a a N := Delta.of_perm N .rfl

theorem Delta.mono {s : Prop} {a b N N' : List α} (h : Delta s a b N) (hn : N.Sublist N') : Delta s a b N' := by
  obtain ⟨n, l, hs, hl, hp⟩ := h
  exact ⟨n, l, hs.trans hn, hl, hp⟩

theorem Delta.imp {s s' : Prop} {a b N : List α} (h : Delta s a b N) (hs : s' → s) : Delta s' a b N := by
  obtain ⟨n, l, hn, hl, hp⟩ := h
  exact ⟨n, l, hn, fun x => hl (hs x), hp⟩

theorem Delta.trans {s s' : Prop} {a b c N M : List α} (h1 : Delta s a b N) (h2 : Delta s' b c M)
    (hs : s → s') : Delta s a c (N ++ M) := by
  obtain ⟨n1, l1, hn1, hl1, hp1⟩ := h1
  obtain ⟨n2, l2, hn2, hl2, hp2⟩ := h2
  refine ⟨n1 ++ n2, l2 ++ l1, hn1.append hn2, ?_, ?_⟩
  · intro x; rw [hl1 x, hl2 (hs x)]; rfl
  · -- c ++ (l2 ++ l1) ~ (c ++ l2) ++ l1 ~ (b ++ n2) ++ l1 ~ (b ++ l1) ++ n2 ~ (a ++ n1) ++ n2
    have e1 : (c ++ (l2 ++ l1)).Perm ((b ++ n2) ++ l1) := by
      rw [← List.append_assoc]; exact hp2.append_right l1
    have e2 : ((b ++ n2) ++ l1).Perm ((b ++ l1) ++ n2) := by
      rw [List.append_assoc, List.append_assoc]
      exact List.Perm.append_left b List.perm_append_comm
    have e3 : ((b ++ l1) ++ n2).Perm ((a ++ n1) ++ n2) := hp1.append_right n2
    have e4 := (e1.trans e2).trans e3
    simpa [List.append_assoc] using e4

theorem Delta.append_left {s : Prop} {a b N : List α} (c : List α) (h : Delta s a b N) :
    Delta s (c ++ a) (c ++ b) N := by
  obtain ⟨n, l, hn, hl, hp⟩ := h
  refine ⟨n, l, hn, hl, ?_⟩
  rw [List.append_assoc, List.append_assoc]
  exact hp.append_left c

theorem Delta.append_right {s : Prop} {a b N : List α} (c : List α) (h : Delta s a b N) :
    Delta s (a ++ c) (b ++ c) N := by
  obtain ⟨n, l, hn, hl, hp⟩ := h
  refine ⟨n, l, hn, hl, ?_⟩
  have e1 : ((b ++ c) ++ l).Perm ((b ++ l) ++ c) := by
    rw [List.append_assoc, List.append_assoc]; exact List.Perm.append_left b List.perm_append_comm
  have e2 : ((a ++ n) ++ c).Perm ((a ++ c) ++ n) := by
    rw [List.append_assoc, List.append_assoc]; exact List.Perm.append_left a List.perm_append_comm
  exact (e1.trans (hp.append_right c)).trans e2

/-- the readable form: what is there afterwards is a sub-list of what was there plus a sub-list of `N`. -/
theorem Delta.kept_new {s : Prop} {a b N : List α} (h : Delta s a b N) :
    ∃ kept new, kept.Sublist a ∧ new.Sublist N ∧ b.Perm (kept ++ new) := by
  obtain ⟨n, l, hn, _, hp⟩ := h
  obtain ⟨b', hb', hs⟩ := exists_perm_sublist (List.sublist_append_left b l) hp
  obtain ⟨k, m, rfl, hk, hm⟩ := List.sublist_append_iff.mp hs
  exact ⟨k, m, hk, hm.trans hn, hb'.symm⟩

/-- … and when nothing is lost: exactly what was there plus a sub-list of `N`. -/
theorem Delta.strict_new {s : Prop} {a b N : List α} (h : Delta s a b N) (hs : s) :
    ∃ new, new.Sublist N ∧ b.Perm (a ++ new) := by
  obtain ⟨n, l, hn, hl, hp⟩ := h
  rw [hl hs, List.append_nil] at hp
  exact ⟨n, hn, hp⟩

theorem setAt_of_ge' (l : List α) (i : Nat) (f : α → α) (h : l.length ≤ i) : setAt l i f = l :=
  setAt_of_ge l i f h

/-- replacing one element of a list changes the concatenation `flatMap f` by that element's change. -/
theorem delta_flatMap_setAt {β : Type} {s : Prop} (f : β → List α) (L : List β) (i : Nat) (g : β → β)
    (N : List α) (h : ∀ x, L[i]? = some x → Delta s (f x) (f (g x)) N) :
    Delta s (L.flatMap f) ((setAt L i g).flatMap f) N := by
  induction L generalizing i with
  | nil => exact Delta.refl _ _ _
  | cons x xs ih =>
    cases i with
    | zero =>
      simp only [setAt, List.flatMap_cons]
      exact (h x (by simp)).append_right _
    | succ k =>
      simp only [setAt, List.flatMap_cons]
      exact (ih k (fun y hy => h y (by simpa using hy))).append_left _

theorem map_setAt_of_eq {β γ : Type} (L : List β) (i : Nat) (g : β → β) (f : β → γ) (h : ∀ x, f (g x) = f x) :
    (setAt L i g).map f = L.map f := by
  induction L generalizing i with
  | nil => rfl
  | cons x xs ih => cases i <;> simp [setAt, h, ih]

end Lists

/-! ### one link -/

theorem linkEnvs_eq (l : Link Env) :
    linkEnvs l = l.sent.map (·.msg) ++ l.toA.map (·.msg) ++ l.toB.map (·.msg) := by
  simp [linkEnvs]

theorem delta_sent {s : Prop} (l l' : Link Env) (hA : l'.toA = l.toA) (hB : l'.toB = l.toB) (N : List Env)
    (h : Delta s (l.sent.map (·.msg)) (l'.sent.map (·.msg)) N) : Delta s (linkEnvs l) (linkEnvs l') N := by
  rw [linkEnvs_eq, linkEnvs_eq, hA, hB]
  exact (h.append_right _).append_right _

theorem releaseOne_msg (now : Nat) (s : Sent Env) : (Link.releaseOne now s).msg = s.msg := by
  unfold Link.releaseOne; split <;> rfl

/-- the random failure / repair process only ever discards messages, and only on a "fail" coin. -/
theorem randStep_delta (cfg : Cfg) (l : Link Env) (cf cr : Bool) :
    Delta (cf = false) (linkEnvs l) (linkEnvs (Link.randStep cfg l cf cr).1) [] := by
  have hfilter : ∀ (q : Sent Env → Bool), cf = true →
      Delta (cf = false) (l.sent.map (·.msg)) ((l.sent.filter (fun s => !q s)).map (·.msg)) [] := by
    intro q hc
    refine ⟨[], (l.sent.filter q).map (·.msg), List.nil_sublist _, fun h => by simp [hc] at h, ?_⟩
    rw [List.append_nil, ← List.map_append]
    exact ((List.perm_append_comm).trans (List.filter_append_perm q l.sent)).map _
  unfold Link.randStep
  split
  · split
    · rename_i hc
      have hc' : cf = true := by simp at hc; exact hc.2
      exact delta_sent _ _ (by rfl) (by rfl) _ (hfilter _ hc')
    · split
      · exact delta_sent _ _ (by rfl) (by rfl) _ (Delta.refl _ _ _)
      · exact Delta.refl _ _ _
  · split
    · rename_i hc
      have hc' : cf = true := by simp at hc; exact hc.2
      refine delta_sent _ _ (by rfl) (by rfl) _ ?_
      refine ⟨[], l.sent.map (·.msg), List.nil_sublist _, fun h => by simp [hc'] at h, ?_⟩
      simp
    · split
      · refine delta_sent _ _ (by rfl) (by rfl) _ (Delta.of_perm _ ?_)
        simp only [Link.release, List.map_map]
        rw [show ((fun x : Sent Env => x.msg) ∘ Link.releaseOne l.now) = (fun x => x.msg) from
          funext (releaseOne_msg _)]
      · exact Delta.refl _ _ _

/-- `enqueue`: the message is appended to `sent` (healthy / hold) or refused (partitioned). -/
theorem enqueueRaw_delta (s : Prop) (l : Link Env) (dl sn dn : Nat) (e : Env) :
    Delta s (linkEnvs l) (linkEnvs (l.enqueueRaw dl sn dn e).1) [e] := by
  unfold Link.enqueueRaw
  simp only
  split
  · refine delta_sent _ _ (by rfl) (by rfl) _ ⟨[e], [], List.Sublist.refl _, fun _ => rfl, ?_⟩
    simp
  · refine delta_sent _ _ (by rfl) (by rfl) _ ⟨[e], [], List.Sublist.refl _, fun _ => rfl, ?_⟩
    simp
  · exact delta_sent _ _ (by rfl) (by rfl) _ (Delta.refl _ _ _)

/-- `process_deliverables` only moves messages from `sent` to the deliverable queues. -/
theorem processDeliverables_perm (l : Link Env) : (linkEnvs l.processDeliverables).Perm (linkEnvs l) := by
  unfold linkEnvs Link.processDeliverables
  apply List.Perm.map
  simp only
  have hs := List.filter_append_perm (Link.matured l.now) l.sent
  generalize l.sent.filter (Link.matured l.now) = ready at hs ⊢
  generalize l.sent.filter (fun s => !Link.matured l.now s) = rest at hs ⊢
  have hr : (ready.filter (fun s => s.dst == l.a) ++ ready.filter (fun s => s.dst != l.a)).Perm ready := by
    have := List.filter_append_perm (fun s : Sent Env => s.dst == l.a) ready
    simpa [bne] using this
  generalize ready.filter (fun s => s.dst == l.a) = rA at hr ⊢
  generalize ready.filter (fun s => s.dst != l.a) = rB at hr ⊢
  rw [List.perm_iff_count]
  intro a
  have h2 := hs.count_eq a
  have h3 := hr.count_eq a
  simp only [List.count_append] at h2 h3 ⊢
  omega

/-! ### the world: what leaves links, hosts and the oracle alone -/

theorem inflight_congr {w w' : World} (hl : w'.links = w.links) (hh : w'.hosts = w.hosts) :
    inflight w' = inflight w := by unfold inflight; rw [hl, hh]

@[simp] theorem oracle_tag (w : World) (t : String) : (w.tag t).oracle = w.oracle := by unfold tag; split <;> rfl
@[simp] theorem oracle_dropEnvs (w : World) (es : List Env) : (w.dropEnvs es).oracle = w.oracle := by
  unfold dropEnvs
  induction es generalizing w with
  | nil => rfl
  | cons e es ih =>
    simp only [List.foldl_cons]
    rw [ih]
    cases e.msg <;> simp [dropSyn]

@[simp] theorem inflight_tag (w : World) (t : String) : inflight (w.tag t) = inflight w :=
  inflight_congr (links_tag w t) (hosts_tag w t)
@[simp] theorem inflight_dropEnvs (w : World) (es : List Env) : inflight (w.dropEnvs es) = inflight w :=
  inflight_congr (links_dropEnvs w es) (hosts_dropEnvs w es)

theorem noFail_of_oracle {w w' : World} (h : w'.oracle = w.oracle) (hn : NoFailCoin w) : NoFailCoin w' := by
  unfold NoFailCoin at *; rw [h]; exact hn

theorem noFail_popFail (w : World) (hn : NoFailCoin w) : w.popFail.1 = false ∧ NoFailCoin w.popFail.2 := by
  unfold NoFailCoin at *
  unfold popFail
  split
  · rename_i b r hr
    rw [hr] at hn
    simp only [List.mem_cons, not_or] at hn
    refine ⟨?_, hn.2⟩
    cases b
    · rfl
    · exact absurd rfl hn.1
  · exact ⟨rfl, hn⟩

theorem noFail_popRepair (w : World) (hn : NoFailCoin w) : NoFailCoin w.popRepair.2 := by
  unfold NoFailCoin at *
  unfold popRepair
  split
  · rename_i r hr
    rw [hr] at hn
    simp only [List.mem_cons, not_or] at hn
    exact hn.2
  · exact hn

theorem noFail_popDelay (w : World) (hn : NoFailCoin w) : NoFailCoin w.popDelay.2 := by
  unfold NoFailCoin at *
  unfold popDelay
  split
  · rename_i dl r hr
    rw [hr] at hn
    simp only [List.mem_cons, not_or] at hn
    exact hn.2
  · exact hn

/-- a host without its loopback queue. -/
def stripLo (hs : Host) : Host := { hs with lo := [] }

/-- nothing of any host but its loopback queue differs; the multicast group table is the same. -/
def Frame (w w' : World) : Prop :=
  w'.hosts.map stripLo = w.hosts.map stripLo ∧ w'.mgroups = w.mgroups

theorem Frame.refl (w : World) : Frame w w := ⟨rfl, rfl⟩
theorem Frame.trans {a b c : World} (h1 : Frame a b) (h2 : Frame b c) : Frame a c :=
  ⟨h2.1.trans h1.1, h2.2.trans h1.2⟩
theorem Frame.of_eq {w w' : World} (hh : w'.hosts = w.hosts) (hm : w'.mgroups = w.mgroups) : Frame w w' := by
  unfold Frame; rw [hh, hm]; exact ⟨rfl, rfl⟩

/-- `Sends w w' N`: going from `w` to `w'` hands a sub-list of `N` to the network (and may lose
    in-flight messages only if a link-failure coin is drawn), keeps `NoFailCoin`, changes no host table. -/
def Sends (w w' : World) (N : List Env) : Prop :=
  Delta (NoFailCoin w) (inflight w) (inflight w') N ∧ (NoFailCoin w → NoFailCoin w') ∧ Frame w w'

theorem Sends.refl (w : World) (N : List Env) : Sends w w N := ⟨Delta.refl _ _ _, id, Frame.refl w⟩

theorem Sends.trans {a b c : World} {N M : List Env} (h1 : Sends a b N) (h2 : Sends b c M) :
    Sends a c (N ++ M) :=
  ⟨h1.1.trans h2.1 h1.2.1, fun x => h2.2.1 (h1.2.1 x), h1.2.2.trans h2.2.2⟩

theorem Sends.mono {a b : World} {N N' : List Env} (h : Sends a b N) (hn : N.Sublist N') : Sends a b N' :=
  ⟨h.1.mono hn, h.2.1, h.2.2⟩

theorem Sends.of_eq {w w' : World} (N : List Env) (hl : w'.links = w.links) (hh : w'.hosts = w.hosts)
    (ho : w'.oracle = w.oracle) (hm : w'.mgroups = w.mgroups) : Sends w w' N :=
  ⟨by rw [inflight_congr hl hh]; exact Delta.refl _ _ _, noFail_of_oracle ho, Frame.of_eq hh hm⟩

theorem sends_tag (w : World) (t : String) (N : List Env) : Sends w (w.tag t) N :=
  Sends.of_eq N (links_tag w t) (hosts_tag w t) (oracle_tag w t) (mg_tag w t)

theorem sends_dropEnvs (w : World) (es : List Env) (N : List Env) : Sends w (w.dropEnvs es) N :=
  Sends.of_eq N (links_dropEnvs w es) (hosts_dropEnvs w es) (oracle_dropEnvs w es) (mg_dropEnvs w es)

theorem Delta.perm_right {α : Type} {s : Prop} {a b b' N : List α} (h : Delta s a b N) (hp : b'.Perm b) :
    Delta s a b' N := by
  obtain ⟨n, l, hn, hl, hq⟩ := h
  exact ⟨n, l, hn, hl, (hp.append_right l).trans hq⟩

/-- the three stages of `Link::enqueue_message` on one link. -/
theorem link_delta (s : Prop) (cfg : Cfg) (l : Link Env) (cf cr : Bool) (dl sn dn : Nat) (e : Env)
    (hs : s → cf = false) :
    Delta s (linkEnvs l)
      (linkEnvs ((Link.randStep cfg l cf cr).1.enqueueRaw dl sn dn e).1.processDeliverables) [e] := by
  have h := ((randStep_delta cfg l cf cr).imp hs).trans
    (enqueueRaw_delta s (Link.randStep cfg l cf cr).1 dl sn dn e) id
  exact h.perm_right (processDeliverables_perm _)

theorem snd_ite_popRepair (c : Prop) [Decidable c] (w : World) :
    (if c then w.popRepair else (false, w)).2.links = w.links ∧
    (if c then w.popRepair else (false, w)).2.hosts = w.hosts ∧
    (NoFailCoin w → NoFailCoin (if c then w.popRepair else (false, w)).2) := by
  split
  · exact ⟨links_popRepair w, hosts_popRepair w, noFail_popRepair w⟩
  · exact ⟨rfl, rfl, id⟩

theorem snd_ite_popDelay (c : Prop) [Decidable c] (w : World) :
    (if c then w.popDelay else (0, w)).2.links = w.links ∧
    (if c then w.popDelay else (0, w)).2.hosts = w.hosts ∧
    (NoFailCoin w → NoFailCoin (if c then w.popDelay else (0, w)).2) := by
  split
  · exact ⟨links_popDelay w, hosts_popDelay w, noFail_popDelay w⟩
  · exact ⟨rfl, rfl, id⟩

/-- **One `enqueue_message`**: the link gains the envelope or refuses it; what it held before can only
    shrink, and only when the failure coin comes up. -/
theorem sends_linkEnqueue (w : World) (li sn dn : Nat) (e : Env) : Sends w (w.linkEnqueue li sn dn e) [e] := by
  have hF := Frame.of_eq (hosts_linkEnqueue w li sn dn e) (mg_linkEnqueue w li sn dn e)
  suffices h : Delta (NoFailCoin w) (inflight w) (inflight (w.linkEnqueue li sn dn e)) [e] ∧
      (NoFailCoin w → NoFailCoin (w.linkEnqueue li sn dn e)) from ⟨h.1, h.2, hF⟩
  clear hF
  unfold linkEnqueue
  split
  · exact ⟨Delta.refl _ _ _, id⟩
  · rename_i l hl
    simp only
    have hpf1 := noFail_popFail w
    have hpfl := links_popFail w
    have hpfh := hosts_popFail w
    rcases hpf : w.popFail with ⟨cf, w1⟩
    rw [hpf] at hpf1 hpfl hpfh
    simp only at hpf1 hpfl hpfh ⊢
    have hpr1 := snd_ite_popRepair (l.wantsRepairCoin cf = true) w1
    rcases hpr : (if l.wantsRepairCoin cf = true then w1.popRepair else (false, w1)) with ⟨cr, w2⟩
    rw [hpr] at hpr1
    simp only at hpr1 ⊢
    rcases hrs : Link.randStep w2.cfg.link l cf cr with ⟨l1, gone⟩
    have hrs1 : l1 = (Link.randStep w2.cfg.link l cf cr).1 := by rw [hrs]
    simp only
    have hpd1 := snd_ite_popDelay (l1.wantsDelay sn dn = true) w2
    rcases hpd : (if l1.wantsDelay sn dn = true then w2.popDelay else (0, w2)) with ⟨dl, w3⟩
    rw [hpd] at hpd1
    simp only at hpd1 ⊢
    rcases her : l1.enqueueRaw dl sn dn e with ⟨l2, dropped⟩
    have her1 : l2 = (l1.enqueueRaw dl sn dn e).1 := by rw [her]
    simp only
    constructor
    · rw [inflight_dropEnvs]
      have hfin : ∀ W : World, W.links = setAt w.links li (fun _ => l2.processDeliverables) → W.hosts = w.hosts →
          Delta (NoFailCoin w) (inflight w) (inflight W) [e] := by
        intro W hWl hWh
        unfold inflight
        rw [hWl, hWh]
        refine Delta.append_right _ (delta_flatMap_setAt linkEnvs w.links li _ [e] ?_)
        intro x hx
        rw [hl] at hx
        cases hx
        rw [her1, hrs1]
        exact link_delta _ _ _ _ _ _ _ _ _ (fun hn => (hpf1 hn).1)
      apply hfin
      · cases dropped <;> simp only <;> split <;> simp [hpd1.1, hpr1.1, hpfl]
      · cases dropped <;> simp only <;> split <;> simp [hpd1.2.1, hpr1.2.1, hpfh]
    · intro hn
      refine noFail_of_oracle (w := w3) ?_ (hpd1.2.2 (hpr1.2.2 (hpf1 hn).2))
      rw [oracle_dropEnvs]
      cases dropped <;> simp only <;> split <;> simp

/-- `World::send_message`: at most the one envelope is handed to a link. -/
theorem sends_sendMessage (w : World) (e : Env) : Sends w (w.sendMessage e).2 [e] := by
  unfold sendMessage
  repeat' split
  all_goals first | exact sends_dropEnvs _ _ _ | exact sends_linkEnqueue _ _ _ _ _

/-- `send_loopback`: the envelope is queued on the host's loopback queue. -/
theorem sends_sendLoopback (w : World) (h : Nat) (e : Env) : Sends w (w.sendLoopback h e) [e] := by
  unfold sendLoopback
  have h1 : Sends w (w.setHost h (fun hs => { hs with lo := hs.lo ++ [e] })) [e] := by
    refine ⟨?_, noFail_of_oracle rfl, ?_, rfl⟩
    · unfold inflight setHost
      refine Delta.append_left _ (delta_flatMap_setAt (·.lo) w.hosts h _ [e] ?_)
      intro x _
      exact ⟨[e], [], List.Sublist.refl _, fun _ => rfl, by simp⟩
    · exact map_setAt_of_eq _ _ _ _ (fun _ => rfl)
  have h2 := h1.trans (sends_tag _ "loopback" [])
  simpa using h2

/-- destinations the fan-out does not skip: other hosts, and same-host ones the loop flag lets through. -/
def allowed (src : Addr) (loopOk : Addr → Bool) (d : Addr) : Bool := src.ip != d.ip || loopOk d

/-- **The fan-out**: over the whole destination list, one envelope per destination position at most. -/
theorem sends_udpFanout (h : Nat) (src : Addr) (p : Hex) (loopOk : Addr → Bool) (ds : List Addr) (w : World) :
    Sends w (udpFanout w h src p loopOk ds).1 ((ds.filter (allowed src loopOk)).map (mkEnv src p)) := by
  induction ds generalizing w with
  | nil => exact Sends.refl _ _
  | cons d ds ih =>
    unfold udpFanout
    by_cases hip : src.ip = d.ip
    · simp only [hip, beq_self_eq_true, if_true]
      by_cases hl : loopOk d = true
      · have ha : allowed src loopOk d = true := by simp [allowed, hl]
        simp only [hl, if_true, List.filter_cons, ha, List.map_cons]
        exact (sends_sendLoopback w h _).trans (ih _)
      · have ha : allowed src loopOk d = false := by simp [allowed, hl, hip]
        simp only [hl, List.filter_cons, ha]
        exact ih _
    · have hb : (src.ip == d.ip) = false := by simpa using hip
      have ha : allowed src loopOk d = true := by simp [allowed, hip]
      simp only [hb, Bool.false_eq_true, if_false, List.filter_cons, ha, if_true, List.map_cons]
      have h1 := sends_sendMessage w (mkEnv src p d)
      split
      · exact h1.trans (ih _)
      · exact h1.mono (by simp)

/-! ### reading `Frame` host by host -/

theorem Frame.host {w w' : World} (hF : Frame w w') (i : Nat) : stripLo (w'.host! i) = stripLo (w.host! i) := by
  have h := congrArg (fun l => l[i]?) hF.1
  simp only [List.getElem?_map] at h
  unfold host!
  simp only [List.getD_eq_getElem?_getD]
  cases h1 : w'.hosts[i]? <;> cases h2 : w.hosts[i]? <;> simp [h1, h2] at h ⊢
  exact h

theorem Frame.tables {w w' : World} (hF : Frame w w') (i : Nat) :
    (w'.host! i).udp = (w.host! i).udp ∧ (w'.host! i).tcpBinds = (w.host! i).tcpBinds ∧
    (w'.host! i).socks = (w.host! i).socks ∧ (w'.host! i).objs = (w.host! i).objs := by
  have h := hF.host i
  have h1 : (stripLo (w'.host! i)).udp = (stripLo (w.host! i)).udp := congrArg Host.udp h
  have h2 : (stripLo (w'.host! i)).tcpBinds = (stripLo (w.host! i)).tcpBinds := congrArg Host.tcpBinds h
  have h3 : (stripLo (w'.host! i)).socks = (stripLo (w.host! i)).socks := congrArg Host.socks h
  have h4 : (stripLo (w'.host! i)).objs = (stripLo (w.host! i)).objs := congrArg Host.objs h
  exact ⟨h1, h2, h3, h4⟩

theorem Frame.length {w w' : World} (hF : Frame w w') : w'.hosts.length = w.hosts.length := by
  have h := congrArg List.length hF.1
  simpa using h

/-- the loopback queue of host `h` after a fan-out: exactly the same-host destinations the loop
    flag lets through, in order, up to where the fan-out stopped (`ok` = it did not stop). -/
theorem fanout_lo (h : Nat) (src : Addr) (p : Hex) (loopOk : Addr → Bool) (ds : List Addr) (w : World)
    (hh : h < w.hosts.length) :
    ∃ ds', ds' <+: ds ∧ ((udpFanout w h src p loopOk ds).2 = true → ds' = ds) ∧
      ((udpFanout w h src p loopOk ds).1.host! h).lo =
        (w.host! h).lo ++ (ds'.filter (fun d => src.ip == d.ip && loopOk d)).map (mkEnv src p) := by
  induction ds generalizing w with
  | nil => exact ⟨[], List.prefix_refl _, fun _ => rfl, by simp [udpFanout]⟩
  | cons d ds ih =>
    unfold udpFanout
    by_cases hip : src.ip = d.ip
    · have hbt : (src.ip == d.ip) = true := by simpa using hip
      simp only [hbt, if_true]
      cases hl : loopOk d
      case true =>
        simp only [if_true]
        have hlen : h < (w.sendLoopback h (mkEnv src p d)).hosts.length := by
          unfold sendLoopback setHost; simpa using hh
        obtain ⟨ds', hp, hok, hlo⟩ := ih (w.sendLoopback h (mkEnv src p d)) hlen
        refine ⟨d :: ds', List.prefix_cons_inj d |>.mpr hp, fun x => by rw [hok x], ?_⟩
        have e : (mkEnv src p d) = { src := src, dst := d, msg := .udp p } := rfl
        rw [← e, hlo]
        have hlo1 : ((w.sendLoopback h (mkEnv src p d)).host! h).lo = (w.host! h).lo ++ [mkEnv src p d] := by
          unfold sendLoopback
          unfold host!
          rw [hosts_tag]
          have := host!_setHost_self w h (fun hs => { hs with lo := hs.lo ++ [mkEnv src p d] }) hh
          unfold host! at this
          rw [this]
        rw [hlo1]
        simp [hbt, hl]
      case false =>
        simp only [Bool.false_eq_true, if_false]
        obtain ⟨ds', hp, hok, hlo⟩ := ih w hh
        refine ⟨d :: ds', List.prefix_cons_inj d |>.mpr hp, fun x => by rw [hok x], ?_⟩
        rw [hlo]
        simp [hl]
    · have hb : (src.ip == d.ip) = false := by simpa using hip
      simp only [hb, Bool.false_eq_true, if_false]
      have hhosts := hosts_sendMessage w { src := src, dst := d, msg := .udp p }
      split
      · have hlen : h < (w.sendMessage { src := src, dst := d, msg := .udp p }).2.hosts.length := by
          rw [hhosts]; exact hh
        obtain ⟨ds', hp, hok, hlo⟩ := ih _ hlen
        refine ⟨d :: ds', List.prefix_cons_inj d |>.mpr hp, fun x => by rw [hok x], ?_⟩
        rw [hlo]
        unfold host!
        rw [hhosts]
        simp [hb]
      · refine ⟨[], List.nil_prefix, fun x => by simp at x, ?_⟩
        unfold host!
        rw [hhosts]
        simp

/-! ### lists: `find?` against `findIdx?`, `setAt`, `swapRemoveAt` -/

section Lists2
variable {α : Type}

theorem find?_of_findIdx? (l : List α) (q : α → Bool) (i : Nat) (hi : l.findIdx? q = some i) :
    l.find? q = l[i]? := by
  induction l generalizing i with
  | nil => simp at hi
  | cons x xs ih =>
    rw [List.findIdx?_cons] at hi
    cases hq : q x
    · simp only [hq, Bool.false_eq_true, if_false, Option.map_eq_some_iff] at hi
      obtain ⟨k, hk, rfl⟩ := hi
      simp [hq, ih k hk]
    · simp only [hq, if_true, Option.some.injEq] at hi
      subst hi
      simp [hq]

theorem find?_setAt_first (l : List α) (q : α → Bool) (f : α → α) (i : Nat) (hq : ∀ x, q (f x) = q x)
    (hi : l.findIdx? q = some i) : (setAt l i f).find? q = (l.find? q).map f := by
  induction l generalizing i with
  | nil => simp at hi
  | cons x xs ih =>
    rw [List.findIdx?_cons] at hi
    cases hx : q x
    · simp only [hx, Bool.false_eq_true, if_false, Option.map_eq_some_iff] at hi
      obtain ⟨k, hk, rfl⟩ := hi
      simp [setAt, hx, ih k hk]
    · simp only [hx, if_true, Option.some.injEq] at hi
      subst hi
      simp [setAt, hx, hq]

theorem length_swapRemoveAt (l : List α) (i : Nat) (hi : i < l.length) :
    (swapRemoveAt l i).length = l.length - 1 := by
  unfold swapRemoveAt
  simp only [hi, if_true]
  cases hl : l.getLast? with
  | none =>
    have : l = [] := List.getLast?_eq_none_iff.mp hl
    subst this; simp at hi
  | some last =>
    simp only
    split <;> simp

theorem nodup_swapRemoveAt (l : List α) (i : Nat) (hn : l.Nodup) : (swapRemoveAt l i).Nodup := by
  by_cases hi : i < l.length
  · have hp := List.pairwise_iff_getElem.mp hn
    refine List.pairwise_iff_getElem.mpr ?_
    intro j k hj hk hjk
    rw [length_swapRemoveAt l i hi] at hj hk
    have ej := getElem?_swapRemoveAt l i j hi
    have ek := getElem?_swapRemoveAt l i k hi
    rw [if_pos hj] at ej
    rw [if_pos hk] at ek
    have hj' : j < (swapRemoveAt l i).length := by rw [length_swapRemoveAt l i hi]; exact hj
    have hk' : k < (swapRemoveAt l i).length := by rw [length_swapRemoveAt l i hi]; exact hk
    rw [List.getElem?_eq_getElem hj'] at ej
    rw [List.getElem?_eq_getElem hk'] at ek
    have hlast : l.length - 1 < l.length := by omega
    intro heq
    by_cases hji : j = i
    · have hki : k ≠ i := by omega
      rw [if_pos hji, List.getElem?_eq_getElem hlast] at ej
      rw [if_neg hki, List.getElem?_eq_getElem (by omega : k < l.length)] at ek
      have e1 := Option.some.inj ej
      have e2 := Option.some.inj ek
      exact hp k (l.length - 1) (by omega) hlast hk (by rw [← e1, ← e2]; exact heq.symm)
    · rw [if_neg hji, List.getElem?_eq_getElem (by omega : j < l.length)] at ej
      have e1 := Option.some.inj ej
      by_cases hki : k = i
      · rw [if_pos hki, List.getElem?_eq_getElem hlast] at ek
        have e2 := Option.some.inj ek
        exact hp j (l.length - 1) (by omega) hlast hj (by rw [← e1, ← e2]; exact heq)
      · rw [if_neg hki, List.getElem?_eq_getElem (by omega : k < l.length)] at ek
        have e2 := Option.some.inj ek
        exact hp j k (by omega) (by omega) hjk (by rw [← e1, ← e2]; exact heq)
  · unfold swapRemoveAt
    simp only [hi, if_false]
    exact hn

theorem map_swapRemoveAt {β : Type} (l : List α) (i : Nat) (f : α → β) :
    (swapRemoveAt l i).map f = swapRemoveAt (l.map f) i := by
  by_cases hi : i < l.length
  · apply List.ext_getElem?
    intro j
    rw [List.getElem?_map, getElem?_swapRemoveAt l i j hi,
      getElem?_swapRemoveAt (l.map f) i j (by simpa using hi)]
    simp only [List.length_map, List.getElem?_map]
    split
    · split <;> rfl
    · rfl
  · unfold swapRemoveAt
    simp [hi]

end Lists2

/-! ### the multicast group table -/

/-- group addresses are distinct (`MulticastGroups` is an `IndexMap`). -/
def GroupKeysNodup (w : World) : Prop := (w.mgroups.map (·.1)).Nodup

theorem members_cases (w : World) (g : Addr) :
    members w g = [] ∨ ∃ p ∈ w.mgroups, p.1 = g ∧ members w g = p.2 := by
  unfold members
  cases hf : w.mgroups.find? (·.1 == g) with
  | none => exact Or.inl rfl
  | some p =>
    refine Or.inr ⟨p, List.mem_of_find?_eq_some hf, ?_, rfl⟩
    have := List.find?_some hf
    simpa using this

theorem members_nodup (w : World) (g : Addr) (hw : GroupsNodup w) : (members w g).Nodup := by
  rcases members_cases w g with h | ⟨p, hp, _, h⟩
  · rw [h]; exact List.nodup_nil
  · rw [h]; exact hw p hp

/-- the leave branch of `opUdpLeave`, on the group table alone. -/
def leaveTable (gs : List (Addr × List Addr)) (key m : Addr) : Option (List (Addr × List Addr)) :=
  match gs.findIdx? (·.1 == key) with
  | none => none
  | some gi =>
    let ms := (gs.getD gi default).2
    match ms.findIdx? (· == m) with
    | none => none
    | some mi =>
      let ms' := swapRemoveAt ms mi
      some (if ms'.isEmpty then swapRemoveAt gs gi else setAt gs gi (fun p => (p.1, ms')))

theorem opUdpLeave_ok (w : World) (h s : Nat) (g iface : Ip) (hok : (w.opUdpLeave h s g iface).2 = "ok") :
    ∃ loc stash gs', w.getObj h s = some (.udp loc stash) ∧ g.isMulticast = true ∧
      leaveTable w.mgroups { ip := g, port := loc.port } { ip := .host h, port := loc.port } = some gs' ∧
      (w.opUdpLeave h s g iface).1 = { w with mgroups := gs' } := by
  unfold opUdpLeave at hok ⊢
  split at hok
  · rename_i loc stash ho
    rw [ho]
    simp only
    split at hok
    · simp at hok
    · rename_i hg
      split at hok
      · simp at hok
      · rename_i hif
        simp only [hg, hif] at hok ⊢
        refine ⟨loc, stash, ?_⟩
        unfold leaveTable
        split at hok
        · simp at hok
        · rename_i gi hgi
          simp only [hgi] at hok ⊢
          split at hok
          · simp at hok
          · rename_i mi hmi
            simp only [hmi] at hok ⊢
            refine ⟨_, trivial, by simpa using hg, rfl, ?_⟩
            simp
  · simp at hok

/-- `members` on a bare table. -/
def membersOf (gs : List (Addr × List Addr)) (g : Addr) : List Addr :=
  match gs.find? (·.1 == g) with | some p => p.2 | none => []

theorem members_eq (w : World) (g : Addr) : members w g = membersOf w.mgroups g := rfl

theorem leaveTable_spec (gs : List (Addr × List Addr)) (key m : Addr) (gs' : List (Addr × List Addr))
    (h : leaveTable gs key m = some gs') :
    ∃ gi mi p0, gs.findIdx? (·.1 == key) = some gi ∧ gs[gi]? = some p0 ∧ p0.1 = key ∧
      p0.2.findIdx? (· == m) = some mi ∧ membersOf gs key = p0.2 ∧
      gs' = (if (swapRemoveAt p0.2 mi).isEmpty then swapRemoveAt gs gi
             else setAt gs gi (fun p => (p.1, swapRemoveAt p0.2 mi))) := by
  unfold leaveTable at h
  cases hgi : gs.findIdx? (·.1 == key) with
  | none => simp [hgi] at h
  | some gi =>
    simp only [hgi] at h
    obtain ⟨hlt, hkey, _⟩ := List.findIdx?_eq_some_iff_getElem.mp hgi
    have hget : gs.getD gi default = gs[gi] := by simp [List.getD, List.getElem?_eq_getElem hlt]
    rw [hget] at h
    cases hmi : (gs[gi]).2.findIdx? (· == m) with
    | none => simp [hmi] at h
    | some mi =>
      simp only [hmi, Option.some.injEq] at h
      refine ⟨gi, mi, gs[gi], rfl, List.getElem?_eq_getElem hlt, by simpa using hkey, hmi, ?_, h.symm⟩
      unfold membersOf
      rw [find?_of_findIdx? gs _ gi hgi, List.getElem?_eq_getElem hlt]

/-- **The leaver is gone** from its group. -/
theorem leaveTable_removes (gs : List (Addr × List Addr)) (key m : Addr) (gs' : List (Addr × List Addr))
    (hn : ∀ p ∈ gs, p.2.Nodup) (hk : (gs.map (·.1)).Nodup) (h : leaveTable gs key m = some gs') :
    m ∉ membersOf gs' key := by
  obtain ⟨gi, mi, p0, hgi, hp0, hkey, hmi, _, rfl⟩ := leaveTable_spec gs key m gs' h
  obtain ⟨hlt, _, _⟩ := List.findIdx?_eq_some_iff_getElem.mp hgi
  have hp0mem : p0 ∈ gs := List.mem_iff_getElem?.mpr ⟨gi, hp0⟩
  have hm : m ∉ swapRemoveAt p0.2 mi := by
    have := leaveOne_removes m p0 (hn p0 hp0mem)
    unfold leaveOne at this
    simpa [hmi] using this
  split
  · -- the group became empty and is removed: no other group has this address
    unfold membersOf
    cases hf : (swapRemoveAt gs gi).find? (·.1 == key) with
    | none => simp
    | some p =>
      exfalso
      have hpm := List.mem_of_find?_eq_some hf
      have hpk : p.1 = key := by simpa using List.find?_some hf
      obtain ⟨j, hji, hj⟩ := (mem_swapRemoveAt gs gi hlt p).mp hpm
      obtain ⟨hjl, hjv⟩ := List.getElem?_eq_some_iff.mp hj
      have hgv : gs[gi] = p0 := by
        rw [List.getElem?_eq_getElem hlt] at hp0; exact Option.some.inj hp0
      have hpw := List.pairwise_iff_getElem.mp hk
      have e : (gs.map (·.1))[j]'(by simpa using hjl) = (gs.map (·.1))[gi]'(by simpa using hlt) := by
        simp [hjv, hgv, hpk, hkey]
      rcases Nat.lt_or_gt_of_ne hji with hl | hg
      · exact hpw j gi (by simpa using hjl) (by simpa using hlt) hl e
      · exact hpw gi j (by simpa using hlt) (by simpa using hjl) hg e.symm
  · unfold membersOf
    rw [find?_setAt_first gs _ (fun p => (p.1, swapRemoveAt p0.2 mi)) gi (fun _ => rfl) hgi, find?_of_findIdx? gs _ gi hgi, hp0]
    exact hm

/-- every other member of that group stays. -/
theorem leaveTable_keeps (gs : List (Addr × List Addr)) (key m : Addr) (gs' : List (Addr × List Addr))
    (h : leaveTable gs key m = some gs') (x : Addr) (hx : x ∈ membersOf gs key) (hne : x ≠ m) :
    x ∈ membersOf gs' key := by
  obtain ⟨gi, mi, p0, hgi, hp0, hkey, hmi, hmem, rfl⟩ := leaveTable_spec gs key m gs' h
  rw [hmem] at hx
  have hk := (leaveOne_keeps m p0 x hx hne).2
  unfold leaveOne at hk
  simp only [hmi] at hk
  split
  · rename_i he
    rw [List.isEmpty_iff] at he
    rw [he] at hk
    simp at hk
  · unfold membersOf
    rw [find?_setAt_first gs _ (fun p => (p.1, swapRemoveAt p0.2 mi)) gi (fun _ => rfl) hgi, find?_of_findIdx? gs _ gi hgi, hp0]
    exact hk

theorem leaveTable_groupsNodup (gs : List (Addr × List Addr)) (key m : Addr) (gs' : List (Addr × List Addr))
    (hn : ∀ p ∈ gs, p.2.Nodup) (h : leaveTable gs key m = some gs') : ∀ p ∈ gs', p.2.Nodup := by
  obtain ⟨gi, mi, p0, hgi, hp0, _, _, _, rfl⟩ := leaveTable_spec gs key m gs' h
  obtain ⟨hlt, _, _⟩ := List.findIdx?_eq_some_iff_getElem.mp hgi
  have hp0mem : p0 ∈ gs := List.mem_iff_getElem?.mpr ⟨gi, hp0⟩
  intro p hp
  split at hp
  · obtain ⟨j, _, hj⟩ := (mem_swapRemoveAt gs gi hlt p).mp hp
    exact hn p (List.mem_iff_getElem?.mpr ⟨j, hj⟩)
  · rcases mem_setAt gs gi _ p hp with hp | ⟨q, _, rfl⟩
    · exact hn p hp
    · exact nodup_swapRemoveAt _ _ (hn p0 hp0mem)

theorem leaveTable_keysNodup (gs : List (Addr × List Addr)) (key m : Addr) (gs' : List (Addr × List Addr))
    (hk : (gs.map (·.1)).Nodup) (h : leaveTable gs key m = some gs') : (gs'.map (·.1)).Nodup := by
  obtain ⟨gi, mi, p0, _, _, _, _, _, rfl⟩ := leaveTable_spec gs key m gs' h
  split
  · rw [map_swapRemoveAt]; exact nodup_swapRemoveAt _ _ hk
  · rw [map_setAt_of_eq gs gi (fun p => (p.1, swapRemoveAt p0.2 mi)) (·.1) (fun _ => rfl)]; exact hk

/-- the join branch of `opUdpJoin`, on the group table alone. -/
def joinTable (gs : List (Addr × List Addr)) (key m : Addr) : List (Addr × List Addr) :=
  if gs.any (·.1 == key) then
    gs.map (fun p => if p.1 == key then (p.1, if p.2.contains m then p.2 else p.2 ++ [m]) else p)
  else gs ++ [(key, [m])]

theorem opUdpJoin_table (w : World) (h s : Nat) (g iface : Ip) :
    (w.opUdpJoin h s g iface).1 = w ∨
    ∃ loc stash, w.getObj h s = some (.udp loc stash) ∧ g.isMulticast = true ∧
      (w.opUdpJoin h s g iface).1 =
        { w with mgroups := joinTable w.mgroups { ip := g, port := loc.port } { ip := .host h, port := loc.port } } := by
  unfold opUdpJoin
  split
  · rename_i loc stash ho
    split
    · exact Or.inl rfl
    · rename_i hg
      split
      · exact Or.inl rfl
      · exact Or.inr ⟨loc, stash, ho, by simpa using hg, rfl⟩
  · exact Or.inl rfl

/-- **Only joining makes a member**: after a join, the members of any group are those from before,
    plus the joiner in the group it joined. -/
theorem joinTable_adds_only (gs : List (Addr × List Addr)) (key m k x : Addr)
    (hx : x ∈ membersOf (joinTable gs key m) k) : x ∈ membersOf gs k ∨ (x = m ∧ k = key) := by
  unfold joinTable at hx
  by_cases hany : (gs.any (fun p => p.1 == key)) = true
  · rw [if_pos hany] at hx
    unfold membersOf at hx ⊢
    rw [List.find?_map] at hx
    have hq : ((fun p : Addr × List Addr => p.1 == k) ∘
        (fun p : Addr × List Addr => if p.1 == key then (p.1, if p.2.contains m then p.2 else p.2 ++ [m]) else p))
        = (fun p => p.1 == k) := by
      funext p; simp only [Function.comp]; split <;> rfl
    rw [hq] at hx
    cases hf : gs.find? (fun p => p.1 == k) with
    | none => simp [hf] at hx
    | some p =>
      have hpk : p.1 = k := by simpa using List.find?_some hf
      simp only [hf, Option.map_some] at hx ⊢
      split at hx
      · rename_i hkey
        have hkey' : p.1 = key := by simpa using hkey
        simp only at hx
        split at hx
        · exact Or.inl hx
        · rcases List.mem_append.mp hx with hx | hx
          · exact Or.inl hx
          · exact Or.inr ⟨by simpa using hx, hpk.symm.trans hkey'⟩
      · exact Or.inl hx
  · rw [if_neg hany] at hx
    unfold membersOf at hx ⊢
    rw [List.find?_append] at hx
    cases hf : gs.find? (fun p => p.1 == k) with
    | some p => simp only [hf, Option.some_or] at hx ⊢; exact Or.inl hx
    | none =>
      simp only [hf, Option.none_or] at hx
      by_cases hkk : key = k
      · subst hkk
        simp at hx
        exact Or.inr ⟨hx, rfl⟩
      · have : (key == k) = false := by simpa using hkk
        simp [this] at hx

/-- … and the joiner is a member of the group it joined. -/
theorem joinTable_member (gs : List (Addr × List Addr)) (key m : Addr) : m ∈ membersOf (joinTable gs key m) key := by
  unfold joinTable
  by_cases hany : (gs.any (fun p => p.1 == key)) = true
  · rw [if_pos hany]
    unfold membersOf
    rw [List.find?_map]
    have hq : ((fun p : Addr × List Addr => p.1 == key) ∘
        (fun p : Addr × List Addr => if p.1 == key then (p.1, if p.2.contains m then p.2 else p.2 ++ [m]) else p))
        = (fun p => p.1 == key) := by
      funext p; simp only [Function.comp]; split <;> rfl
    rw [hq]
    cases hf : gs.find? (fun p => p.1 == key) with
    | none =>
      have := List.find?_eq_none.mp hf
      obtain ⟨p, hp, hpk⟩ := List.any_eq_true.mp hany
      exact absurd hpk (this p hp)
    | some p =>
      have hpk : (p.1 == key) = true := by simpa using List.find?_some hf
      simp only [Option.map_some, hpk, if_true]
      split
      · rename_i hc; simpa using hc
      · simp
  · rw [if_neg hany]
    unfold membersOf
    rw [List.find?_append]
    have : gs.find? (fun p => p.1 == key) = none := by
      apply List.find?_eq_none.mpr
      intro p hp hpk
      exact hany (List.any_eq_true.mpr ⟨p, hp, hpk⟩)
    simp [this]

theorem joinTable_keysNodup (gs : List (Addr × List Addr)) (key m : Addr) (hk : (gs.map (·.1)).Nodup) :
    ((joinTable gs key m).map (·.1)).Nodup := by
  unfold joinTable
  split
  · rw [List.map_map]
    have hq : ((fun p : Addr × List Addr => p.1) ∘
        (fun p : Addr × List Addr => if p.1 == key then (p.1, if p.2.contains m then p.2 else p.2 ++ [m]) else p))
        = (fun p => p.1) := by
      funext p; simp only [Function.comp]; split <;> rfl
    rw [hq]; exact hk
  · rename_i hany
    rw [List.map_append]
    refine List.nodup_append.mpr ⟨hk, by simp, ?_⟩
    intro a ha b hb
    simp at hb; subst hb
    intro hab; subst hab
    obtain ⟨p, hp, rfl⟩ := List.mem_map.mp ha
    exact hany (List.any_eq_true.mpr ⟨p, hp, by simp⟩)

end TV.C09
