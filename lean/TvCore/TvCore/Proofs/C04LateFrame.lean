import TvCore.Proofs.C04LateOnly
import TvCore.Proofs.C05ReachHost
import TvCore.Proofs.LinksWorldLemmas
import TvCore.Proofs.C04NotifyLemmas
/-
  Helper lemmas for `Props/C04Late.lean`, part 1: what one step does to the record of a host that is
  not the step's actor, and `receive` / `deliver_messages` against a host whose tables are empty.
-/
namespace TV.C04
open TV TV.World TV.LW

/-! ### the actor of a step -/

/-- the host whose code, turn, loopback task or destructors a step runs (`none`: the steps of the
    controller and of the clock). -/
def Step.actor : Step → Option Nat
  | .host h _ => some h
  | .turn h => some h
  | .loDeliver h _ => some h
  | .crash h => some h
  | .bounce h => some h
  | _ => none

/-- **a step writes no host but its actor.** -/
theorem only_actor (w : World) (st : Step) (g : Nat) (ha : Step.actor st = some g) : Only g w (applyStep w st) := by
  cases st with
  | host h op => cases ha; exact only_applyHOp g w op
  | turn h => cases ha; exact only_turnStep g w
  | loDeliver h i => cases ha; exact only_loStep g w i
  | crash h => cases ha; exact only_crash g w
  | bounce h => cases ha; exact only_bounce g w
  | _ => cases ha

/-- the controller's link calls, DNS and the start of a step leave the whole host table alone. -/
theorem hosts_of_noActor (w : World) (st : Step) (ha : Step.actor st = none)
    (h1 : C05.isEnd st = false) (h2 : C05.isReg st = false) : (applyStep w st).hosts = w.hosts := by
  cases st with
  | register ip c => cases h2
  | stepEnd => cases h1
  | dns name => rfl
  | stepBegin => rfl
  | link op x y => cases op <;> exact WorldLinks.onLink_hosts w x y _
  | linkPairs op xs ys =>
    show (w.forPairs xs ys op.apply).hosts = w.hosts
    have key : ∀ (l : List (Nat × Nat)) (W : World), (l.foldl (fun w p => op.apply w p.1 p.2) W).hosts = W.hosts := by
      intro l
      induction l with
      | nil => intro W; rfl
      | cons p ps ih =>
        intro W
        simp only [List.foldl_cons]
        rw [ih]
        cases op <;> exact WorldLinks.onLink_hosts W p.1 p.2 _
    rw [forPairs_eq]
    exact key _ w
  | deliver x y i => exact WorldLinks.onLink_hosts w x y _
  | deliverAll x y => exact WorldLinks.onLink_hosts w x y _
  | host h op => cases ha
  | turn h => cases ha
  | loDeliver h i => cases ha
  | crash h => cases ha
  | bounce h => cases ha

/-- what a step of somebody else makes of a host's record: nothing, except that the end of a step advances
    its timer (`hostStepEnd`). -/
def afterOther (w : World) (st : Step) (hs : Host) : Host :=
  match st with
  | .stepEnd => hostStepEnd w.cfg.tick (ceilMs w.cfg.tick) hs
  | _ => hs

theorem afterOther_of_notEnd (w : World) (st : Step) (hs : Host) (h : C05.isEnd st = false) : afterOther w st hs = hs := by
  cases st <;> first | rfl | cases h

/-- **One step, seen from a registered host `h` that is not its actor**: the record of `h` is untouched,
    except that the end of a step advances its timer (`hostStepEnd`). -/
theorem host!_step_other (w : World) (st : Step) (h : Nat) (hh : h < w.hosts.length) (hne : Step.actor st ≠ some h) :
    (applyStep w st).host! h = afterOther w st (w.host! h) ∧ h < (applyStep w st).hosts.length := by
  cases ha : Step.actor st with
  | some g =>
    have hgh : h ≠ g := fun e => hne (by rw [ha, e])
    have ho := only_actor w st g ha
    have e := host_of_others w (applyStep w st) g h ho hgh
    refine ⟨?_, by rw [ho.2]; exact hh⟩
    cases st <;> first | exact e | cases ha
  | none =>
    cases st with
    | register ip c => exact ⟨C05.host!_register_lt w ip c h hh, by simp [applyStep, register]; omega⟩
    | stepEnd => exact ⟨C05.host!_stepEnd_lt w h hh, by simp [applyStep, stepEnd]; exact hh⟩
    | dns name => exact ⟨rfl, hh⟩
    | stepBegin => exact ⟨rfl, hh⟩
    | link op x y =>
      have e := hosts_of_noActor w (.link op x y) rfl rfl rfl
      exact ⟨by unfold host!; rw [e]; rfl, by rw [e]; exact hh⟩
    | linkPairs op xs ys =>
      have e := hosts_of_noActor w (.linkPairs op xs ys) rfl rfl rfl
      exact ⟨by unfold host!; rw [e]; rfl, by rw [e]; exact hh⟩
    | deliver x y i =>
      have e := hosts_of_noActor w (.deliver x y i) rfl rfl rfl
      exact ⟨by unfold host!; rw [e]; rfl, by rw [e]; exact hh⟩
    | deliverAll x y =>
      have e := hosts_of_noActor w (.deliverAll x y) rfl rfl rfl
      exact ⟨by unfold host!; rw [e]; rfl, by rw [e]; exact hh⟩
    | host g op => cases ha
    | turn g => cases ha
    | loDeliver g i => cases ha
    | crash g => cases ha
    | bounce g => cases ha

/-! ### a host that is down -/

/-- `b` is `a` up to the two fields the end of a step writes on a host that is not running: the timer
    `elapsed` (it advances by one tick per step whether or not the host runs) and the flag `exited`
    (cleared). -/
def SameButTimer (a b : Host) : Prop := { b with elapsed := a.elapsed, exited := a.exited } = a

theorem SameButTimer.refl (a : Host) : SameButTimer a a := rfl

theorem SameButTimer.trans {a b c : Host} (h1 : SameButTimer a b) (h2 : SameButTimer b c) : SameButTimer a c := by
  unfold SameButTimer at *
  rw [← h1, ← h2]

theorem sameButTimer_stepEnd (tick A : Nat) (a : Host) (hr : a.running = false) :
    SameButTimer a (hostStepEnd tick A a) ∧ (hostStepEnd tick A a).running = false ∧
    (hostStepEnd tick A a).elapsed = a.elapsed + tick := by
  refine ⟨?_, ?_, rfl⟩
  · unfold SameButTimer hostStepEnd
    cases a
    simp_all
  · unfold hostStepEnd
    simp [hr]

theorem SameButTimer.fields {a b : Host} (h : SameButTimer a b) :
    b.udp = a.udp ∧ b.tcpBinds = a.tcpBinds ∧ b.socks = a.socks ∧ b.objs = a.objs ∧ b.lo = a.lo ∧
    b.running = a.running ∧ b.ipnum = a.ipnum ∧ b.nextEph = a.nextEph ∧ b.startOffset = a.startOffset ∧
    b.winStart = a.winStart ∧ b.hnow = a.hnow ∧ b.wake = a.wake ∧ b.t0 = a.t0 ∧ b.isClient = a.isClient := by
  unfold SameButTimer at h
  rw [← h]
  exact ⟨rfl, rfl, rfl, rfl, rfl, rfl, rfl, rfl, rfl, rfl, rfl, rfl, rfl, rfl⟩

/-- crashing a host that is already down changes nothing of it. -/
theorem crash_down_host (w : World) (h : Nat) (hr : (w.host! h).running = false) :
    w.crash h = w.setHost h (fun hs => { hs with running := false }) ∧ (w.crash h).host! h = w.host! h := by
  have e : w.crash h = w.setHost h (fun hs => { hs with running := false }) := by
    unfold crash
    simp only [hr, Bool.false_eq_true, if_false]
  refine ⟨e, ?_⟩
  rw [e, host!_setHost]
  split
  · generalize w.host! h = a at hr ⊢
    cases a
    simp_all
  · rfl

/-! ### `receive` against empty tables -/

/-- the three network tables of a host are empty. -/
def TablesEmpty (hs : Host) : Prop := hs.udp = [] ∧ hs.tcpBinds = [] ∧ hs.socks = []

/-- what `Host::receive_from_network` does when the host's tables are empty, written out: a datagram is
    dropped, a SYN's one-shot is dropped (the connector's poll will say `ConnectionRefused`), a data / FIN
    segment asks for a RST, a RST is ignored — and NO host is written in any of the four cases. -/
def onEmpty (w : World) (e : Env) : Bool × World :=
  match e.msg with
  | .udp _ => (false, w.tag "udpnobind")
  | .syn id => (false, (w.dropSyn id).tag "synnobind")
  | .data _ _ => (true, w.tag "rstnosock")
  | .fin _ => (true, w.tag "rstnosock")
  | .rst => (false, w.tag "rstrecv")

theorem setAt_getD_self {α : Type} (l : List α) (i : Nat) (d : α) : setAt l i (fun _ => l.getD i d) = l := by
  induction l generalizing i with
  | nil => rfl
  | cons x xs ih =>
    cases i with
    | zero => rfl
    | succ k =>
      simp only [setAt, List.getD_cons_succ]
      rw [ih]

theorem setHost_self (w : World) (h : Nat) : w.setHost h (fun _ => w.host! h) = w := by
  unfold setHost host!
  rw [setAt_getD_self]

@[simp] theorem hosts_onEmpty (w : World) (e : Env) : (onEmpty w e).2.hosts = w.hosts := by
  unfold onEmpty
  split <;> simp

/-- **`receive` on a host with empty tables is `onEmpty`.** -/
theorem receive_on_empty (w : World) (h : Nat) (e : Env) (hE : TablesEmpty (w.host! h)) :
    w.receive h e = onEmpty w e := by
  obtain ⟨hu, ht, hs⟩ := hE
  unfold receive onEmpty
  simp only
  cases hm : e.msg with
  | udp p =>
    simp only
    have : udpReceive w.cfg.udpCap (w.host! h) e.src e.dst p = (w.host! h, "udpnobind") := by
      unfold udpReceive
      rw [hu]
      rfl
    rw [this]
    simp only
    rw [setHost_self]
    rfl
  | syn id =>
    simp only
    rw [ht]
    rfl
  | data seq p =>
    simp only
    unfold findSock
    rw [hs]
    rfl
  | fin seq =>
    simp only
    unfold findSock
    rw [hs]
    rfl
  | rst =>
    simp only
    unfold removeSock findSock
    rw [hs]
    rfl

/-! ### `deliver_messages` with the host's `receive` as a parameter -/

/-- `World.deliverTo` with the function run for every envelope handed over as a parameter
    (`deliverTo_eq_with`: with `World.receive` it IS `deliverTo`). -/
def deliverWith (rcv : World → Env → Bool × World) (w : World) (h : Nat) : List Env × World :=
  let n := (w.host! h).ipnum
  let idxs := (List.range w.links.length).filter (fun li =>
    match w.links[li]? with | some l => l.a == n || l.b == n | none => false)
  idxs.foldl (fun (acc : List Env × World) li =>
    let (out, w) := acc
    match w.links[li]? with
    | none => (out, w)
    | some l =>
      let (l', msgs) := l.drain n
      let w := { w with links := setAt w.links li (fun _ => l') }
      let w := msgs.foldl (fun w (s : Sent Env) =>
        let e := s.msg
        let (rst, w) := rcv w e
        if rst then w.linkEnqueue li s.dst s.src { src := e.dst, dst := e.src, msg := .rst } else w) w
      (out ++ msgs.map (·.msg), w)) ([], w)

theorem deliverTo_eq_with (w : World) (h : Nat) : w.deliverTo h = deliverWith (fun W e => W.receive h e) w h := rfl

theorem foldl_congr_inv {α β : Type} (P : β → Prop) (f g : β → α → β)
    (hfg : ∀ b a, P b → f b a = g b a) (hP : ∀ b a, P b → P (g b a)) (l : List α) (b : β) (hb : P b) :
    l.foldl f b = l.foldl g b ∧ P (l.foldl g b) := by
  induction l generalizing b with
  | nil => exact ⟨rfl, hb⟩
  | cons a as ih =>
    simp only [List.foldl_cons]
    rw [hfg b a hb]
    exact ih _ (hP b a hb)

/-- two `receive` functions that agree on the worlds satisfying an invariant `P` of the delivery loop
    give the same `deliver_messages`. -/
theorem deliverWith_congr (r1 r2 : World → Env → Bool × World) (P : World → Prop) (w : World) (h : Nat)
    (hP0 : P w) (h12 : ∀ W e, P W → r1 W e = r2 W e) (hPr : ∀ W e, P W → P (r2 W e).2)
    (hPl : ∀ W li s d e, P W → P (W.linkEnqueue li s d e))
    (hPs : ∀ (W : World) (ls : List (Link Env)), P W → P { W with links := ls }) :
    deliverWith r1 w h = deliverWith r2 w h ∧ P (deliverWith r2 w h).2 := by
  unfold deliverWith
  simp only
  generalize (List.filter _ _) = idxs
  refine foldl_congr_inv (fun (acc : List Env × World) => P acc.2) _ _ ?_ ?_ idxs ([], w) hP0
  · intro acc li hacc
    cases hl : acc.2.links[li]? with
    | none => rfl
    | some l =>
      simp only
      congr 1
      exact (foldl_congr_inv P _ _
        (fun W s hW => by rw [h12 W s.msg hW])
        (fun W s hW => by
          split
          · exact hPl _ _ _ _ _ (hPr W s.msg hW)
          · exact hPr W s.msg hW)
        _ _ (hPs acc.2 _ hacc)).1
  · intro acc li hacc
    cases hl : acc.2.links[li]? with
    | none => exact hacc
    | some l =>
      simp only
      exact (foldl_congr_inv P _ _
        (fun W s hW => rfl)
        (fun W s hW => by
          split
          · exact hPl _ _ _ _ _ (hPr W s.msg hW)
          · exact hPr W s.msg hW)
        _ _ (hPs acc.2 _ hacc)).2

/-- **`deliver_messages` to a host with empty tables** runs `onEmpty` on every envelope it hands over, and
    writes no host. -/
theorem deliverTo_on_empty (w : World) (h : Nat) (hE : TablesEmpty (w.host! h)) :
    w.deliverTo h = deliverWith onEmpty w h ∧ (w.deliverTo h).2.hosts = w.hosts := by
  have hP : ∀ W : World, W.hosts = w.hosts → TablesEmpty (W.host! h) := by
    intro W e; unfold host!; rw [e]; exact hE
  have key := deliverWith_congr (fun W e => W.receive h e) onEmpty (fun W => W.hosts = w.hosts) w h rfl
    (fun W e hW => receive_on_empty W h e (hP W hW))
    (fun W e hW => by rw [hosts_onEmpty]; exact hW)
    (fun W li s d e hW => by rw [hosts_linkEnqueue]; exact hW)
    (fun W ls hW => hW)
  rw [deliverTo_eq_with]
  exact ⟨key.1, by rw [key.1]; exact key.2⟩

/-- the per-message work of a turn (`LW.replyStep`: `receive`, then the RST reply if one is asked for) on a
    host with empty tables, case by case: nothing is queued on any socket; a data / FIN segment draws a
    RST on the link it came over. -/
theorem replyStep_on_empty (w : World) (h lj : Nat) (s : Sent Env) (hE : TablesEmpty (w.host! h)) :
    LW.replyStep h lj w s =
      match s.msg.msg with
      | .udp _ => w.tag "udpnobind"
      | .syn id => (w.dropSyn id).tag "synnobind"
      | .data _ _ => (w.tag "rstnosock").linkEnqueue lj s.dst s.src (LW.rstOf s)
      | .fin _ => (w.tag "rstnosock").linkEnqueue lj s.dst s.src (LW.rstOf s)
      | .rst => w.tag "rstrecv" := by
  unfold LW.replyStep
  rw [receive_on_empty w h s.msg hE]
  unfold onEmpty
  cases s.msg.msg <;> rfl

/-! ### the one-shot cells during a delivery against empty tables -/

/-- the table of connect one-shots keeps its length and every cell only moves `pending → dropped`. -/
def SynMono (w w' : World) : Prop :=
  w'.syns.length = w.syns.length ∧ ∀ id, cellLe (w.syns.getD id default) (w'.syns.getD id default)

theorem SynMono.refl (w : World) : SynMono w w := ⟨rfl, fun _ => cellLe.refl _⟩
theorem SynMono.trans {a b c : World} (h1 : SynMono a b) (h2 : SynMono b c) : SynMono a c :=
  ⟨h2.1.trans h1.1, fun id => (h1.2 id).trans (h2.2 id)⟩
theorem SynMono.of_quiet {h : Nat} {w w' : World} (q : Quiet h w w') : SynMono w w' := ⟨q.synLen, q.cells⟩
theorem SynMono.of_syns {w w' : World} (e : w'.syns = w.syns) : SynMono w w' := by
  unfold SynMono; rw [e]; exact ⟨rfl, fun _ => cellLe.refl _⟩

theorem notPending_mono {x y : SynCell} (h : cellLe x y) (hx : x.st ≠ .pending) : y.st ≠ .pending := by
  rcases h.1 with e | ⟨e, _⟩
  · rw [e]; exact hx
  · exact absurd e hx

theorem synMono_onEmpty (w : World) (e : Env) : SynMono w (onEmpty w e).2 := by
  unfold onEmpty
  split
  · exact SynMono.of_quiet (quiet_tag 0 w _)
  · exact SynMono.of_quiet ((quiet_dropSyn 0 w _).trans (quiet_tag 0 _ _))
  · exact SynMono.of_quiet (quiet_tag 0 w _)
  · exact SynMono.of_quiet (quiet_tag 0 w _)
  · exact SynMono.of_quiet (quiet_tag 0 w _)

/-- one message of a delivery against empty tables. -/
def emptyStep (li : Nat) (W : World) (s : Sent Env) : World :=
  if (onEmpty W s.msg).1 = true then
    (onEmpty W s.msg).2.linkEnqueue li s.dst s.src { src := s.msg.dst, dst := s.msg.src, msg := .rst }
  else (onEmpty W s.msg).2

theorem synMono_emptyStep (li : Nat) (W : World) (s : Sent Env) : SynMono W (emptyStep li W s) := by
  unfold emptyStep
  split
  · exact (synMono_onEmpty W s.msg).trans (SynMono.of_quiet (quiet_linkEnqueue 0 _ _ _ _ _))
  · exact synMono_onEmpty W s.msg

theorem emptyStep_syn (li : Nat) (W : World) (s : Sent Env) (id : Nat) (hs : s.msg.msg = .syn id) (hid : id < W.syns.length) :
    ((emptyStep li W s).syns.getD id default).st ≠ .pending := by
  have e : emptyStep li W s = (W.dropSyn id).tag "synnobind" := by
    unfold emptyStep onEmpty
    rw [hs]
    rfl
  rw [e]
  have h1 : ((W.dropSyn id).syns.getD id default).st ≠ .pending := by
    unfold dropSyn
    simp only
    rw [setAt_getD _ _ _ _ hid]
    split
    · exact fun hc => by cases hc
    · rename_i hp; simpa using hp
  exact notPending_mono ((SynMono.of_quiet (quiet_tag 0 (W.dropSyn id) "synnobind")).2 id) h1

theorem emptyFold_syns (li : Nat) (msgs : List (Sent Env)) (W : World) :
    SynMono W (msgs.foldl (emptyStep li) W) ∧
    ∀ s ∈ msgs, ∀ id, s.msg.msg = .syn id → id < W.syns.length →
      ((msgs.foldl (emptyStep li) W).syns.getD id default).st ≠ .pending := by
  induction msgs generalizing W with
  | nil => exact ⟨SynMono.refl W, fun s hs => by cases hs⟩
  | cons s ms ih =>
    simp only [List.foldl_cons]
    have h1 := synMono_emptyStep li W s
    obtain ⟨i1, i2⟩ := ih (emptyStep li W s)
    refine ⟨h1.trans i1, fun x hx id hm hid => ?_⟩
    rcases List.mem_cons.mp hx with rfl | hx
    · exact notPending_mono (i1.2 id) (emptyStep_syn li W x id hm hid)
    · exact i2 x hx id hm (by rw [h1.1]; exact hid)

/-- **the connect one-shots across a delivery against empty tables**: every cell only moves
    `pending → dropped`, and the cell of EVERY SYN handed over is no longer pending afterwards — so it is
    `dropped` if it was pending, and the connector's poll returns `ConnectionRefused`. -/
theorem deliverWith_onEmpty_syns (w : World) (h : Nat) :
    SynMono w (deliverWith onEmpty w h).2 ∧
    ∀ e ∈ (deliverWith onEmpty w h).1, ∀ id, e.msg = .syn id → id < w.syns.length →
      (((deliverWith onEmpty w h).2).syns.getD id default).st ≠ .pending := by
  unfold deliverWith
  simp only
  generalize (List.filter _ _) = idxs
  suffices H : ∀ (l : List Nat) (acc : List Env × World),
      (SynMono w acc.2 ∧ ∀ e ∈ acc.1, ∀ id, e.msg = .syn id → id < w.syns.length → ((acc.2).syns.getD id default).st ≠ .pending) →
      (SynMono w (l.foldl (fun (acc : List Env × World) li =>
          match acc.2.links[li]? with
          | none => (acc.1, acc.2)
          | some lk =>
            (acc.1 ++ (lk.drain (w.host! h).ipnum).2.map (·.msg),
             (lk.drain (w.host! h).ipnum).2.foldl (emptyStep li)
               { acc.2 with links := setAt acc.2.links li (fun _ => (lk.drain (w.host! h).ipnum).1) })) acc).2 ∧
       ∀ e ∈ (l.foldl (fun (acc : List Env × World) li =>
          match acc.2.links[li]? with
          | none => (acc.1, acc.2)
          | some lk =>
            (acc.1 ++ (lk.drain (w.host! h).ipnum).2.map (·.msg),
             (lk.drain (w.host! h).ipnum).2.foldl (emptyStep li)
               { acc.2 with links := setAt acc.2.links li (fun _ => (lk.drain (w.host! h).ipnum).1) })) acc).1,
         ∀ id, e.msg = .syn id → id < w.syns.length →
         (((l.foldl (fun (acc : List Env × World) li =>
          match acc.2.links[li]? with
          | none => (acc.1, acc.2)
          | some lk =>
            (acc.1 ++ (lk.drain (w.host! h).ipnum).2.map (·.msg),
             (lk.drain (w.host! h).ipnum).2.foldl (emptyStep li)
               { acc.2 with links := setAt acc.2.links li (fun _ => (lk.drain (w.host! h).ipnum).1) })) acc).2).syns.getD id default).st ≠ .pending) from
    H idxs ([], w) ⟨SynMono.refl w, fun e he => by cases he⟩
  intro l
  induction l with
  | nil => intro acc ha; exact ha
  | cons li ls ih =>
    intro acc ha
    simp only [List.foldl_cons]
    apply ih
    cases hl : acc.2.links[li]? with
    | none => exact ha
    | some lk =>
      simp only
      have hW1 : SynMono acc.2 ({ acc.2 with links := setAt acc.2.links li (fun _ => (lk.drain (w.host! h).ipnum).1) } : World) :=
        SynMono.of_syns rfl
      obtain ⟨f1, f2⟩ := emptyFold_syns li (lk.drain (w.host! h).ipnum).2
        ({ acc.2 with links := setAt acc.2.links li (fun _ => (lk.drain (w.host! h).ipnum).1) } : World)
      refine ⟨(ha.1.trans hW1).trans f1, fun e he id hm hid => ?_⟩
      rcases List.mem_append.mp he with he | he
      · exact notPending_mono ((hW1.trans f1).2 id) (ha.2 e he id hm hid)
      · obtain ⟨s, hs, rfl⟩ := List.mem_map.mp he
        exact f2 s hs id hm (by show id < acc.2.syns.length; rw [ha.1.1]; exact hid)

/-! ### runs of steps none of which is the host's own -/

/-- the tables of a host: bind tables, stream table, socket objects, loopback queue. -/
def tablesOf (hs : Host) : List UdpBind × List TcpBind × List Sock × List (Nat × Obj) × List Env :=
  (hs.udp, hs.tcpBinds, hs.socks, hs.objs, hs.lo)

/-- **the steps of others never write a host's tables** (nor its address, its port cursor or — except for
    the end of a step — its clock). -/
theorem tables_step_other (w : World) (st : Step) (h : Nat) (hh : h < w.hosts.length) (hne : Step.actor st ≠ some h) :
    tablesOf ((applyStep w st).host! h) = tablesOf (w.host! h) ∧
    ((applyStep w st).host! h).ipnum = (w.host! h).ipnum ∧
    (((w.host! h).running = true ∧ (w.host! h).exited = false) →
      ((applyStep w st).host! h).running = true ∧ ((applyStep w st).host! h).exited = false) ∧
    h < (applyStep w st).hosts.length := by
  obtain ⟨e, hl⟩ := host!_step_other w st h hh hne
  rw [e]
  refine ⟨?_, ?_, ?_, hl⟩
  · cases st <;> rfl
  · cases st <;> rfl
  · intro hr
    cases st <;> first | exact hr | (simp [afterOther, hostStepEnd, hr.1, hr.2])

theorem tables_run_other (w : World) (sts : List Step) (h : Nat) (hh : h < w.hosts.length)
    (hq : ∀ st ∈ sts, Step.actor st ≠ some h) :
    tablesOf ((run w sts).host! h) = tablesOf (w.host! h) ∧
    ((run w sts).host! h).ipnum = (w.host! h).ipnum ∧
    (((w.host! h).running = true ∧ (w.host! h).exited = false) →
      ((run w sts).host! h).running = true ∧ ((run w sts).host! h).exited = false) ∧
    h < (run w sts).hosts.length := by
  induction sts generalizing w with
  | nil => exact ⟨rfl, rfl, fun x => x, hh⟩
  | cons st sts ih =>
    rw [run_cons]
    obtain ⟨a1, a2, a3, a4⟩ := tables_step_other w st h hh (hq st (by simp))
    obtain ⟨b1, b2, b3, b4⟩ := ih (applyStep w st) a4 (fun s hs => hq s (by simp [hs]))
    exact ⟨b1.trans a1, b2.trans a2, fun x => b3 (a3 x), b4⟩

/-- the steps `Sim::step` and the test can perform while host `h` is down: everything except a turn of
    `h`, a call of `h`'s code, a delivery by one of `h`'s loopback tasks, and `bounce h`.
    (`crash h` is allowed: crashing a crashed host does nothing.) -/
def Silent (h : Nat) : Step → Prop
  | .host g _ => g ≠ h
  | .turn g => g ≠ h
  | .loDeliver g _ => g ≠ h
  | .bounce g => g ≠ h
  | _ => True

/-- the number of completed steps in a run. -/
def endsIn (sts : List Step) : Nat := (sts.filter C05.isEnd).length

/-- **one step while the host is down**: its record is untouched but for the timer. -/
theorem down_step (w : World) (st : Step) (h : Nat) (hh : h < w.hosts.length) (hr : (w.host! h).running = false)
    (hs : Silent h st) :
    SameButTimer (w.host! h) ((applyStep w st).host! h) ∧ ((applyStep w st).host! h).running = false ∧
    ((applyStep w st).host! h).elapsed = (w.host! h).elapsed + (if C05.isEnd st then w.cfg.tick else 0) ∧
    h < (applyStep w st).hosts.length := by
  by_cases hc : st = .crash h
  · subst hc
    obtain ⟨e1, e2⟩ := crash_down_host w h hr
    have e2' : (applyStep w (.crash h)).host! h = w.host! h := e2
    rw [e2']
    refine ⟨SameButTimer.refl _, hr, by simp [C05.isEnd], ?_⟩
    show h < (w.crash h).hosts.length
    rw [(only_crash h w).2]; exact hh
  · have hne : Step.actor st ≠ some h := by
      cases st with
      | host g op => exact fun e => hs (Option.some.inj e)
      | turn g => exact fun e => hs (Option.some.inj e)
      | loDeliver g i => exact fun e => hs (Option.some.inj e)
      | bounce g => exact fun e => hs (Option.some.inj e)
      | crash g => exact fun e => hc (by rw [Option.some.inj e])
      | _ => exact fun e => by cases e
    obtain ⟨e, hl⟩ := host!_step_other w st h hh hne
    rw [e]
    by_cases he : st = .stepEnd
    · subst he
      obtain ⟨s1, s2, s3⟩ := sameButTimer_stepEnd w.cfg.tick (ceilMs w.cfg.tick) (w.host! h) hr
      have ea : afterOther w .stepEnd (w.host! h) = hostStepEnd w.cfg.tick (ceilMs w.cfg.tick) (w.host! h) := rfl
      rw [ea]
      exact ⟨s1, s2, by rw [s3]; simp [C05.isEnd], hl⟩
    · have e3 : C05.isEnd st = false := by cases st <;> first | rfl | exact absurd rfl he
      rw [afterOther_of_notEnd w st _ e3]
      exact ⟨SameButTimer.refl _, hr, by simp [e3], hl⟩

theorem down_run (w : World) (sts : List Step) (h : Nat) (hh : h < w.hosts.length) (hr : (w.host! h).running = false)
    (hq : ∀ st ∈ sts, Silent h st) :
    SameButTimer (w.host! h) ((run w sts).host! h) ∧ ((run w sts).host! h).running = false ∧
    ((run w sts).host! h).elapsed = (w.host! h).elapsed + endsIn sts * w.cfg.tick ∧
    h < (run w sts).hosts.length := by
  induction sts generalizing w with
  | nil => exact ⟨SameButTimer.refl _, hr, by simp [endsIn], hh⟩
  | cons st sts ih =>
    rw [run_cons]
    obtain ⟨a1, a2, a3, a4⟩ := down_step w st h hh hr (hq st (by simp))
    obtain ⟨b1, b2, b3, b4⟩ := ih (applyStep w st) a4 a2 (fun s hs => hq s (by simp [hs]))
    refine ⟨a1.trans b1, b2, ?_, b4⟩
    have e : endsIn (st :: sts) = (if C05.isEnd st = true then 1 else 0) + endsIn sts := by
      unfold endsIn
      simp only [List.filter_cons]
      split <;> simp [Nat.add_comm]
    rw [b3, a3, (step_frame w st).cfg, e, Nat.add_mul]
    cases hE : C05.isEnd st
    · simp
    · simp only [if_true, Nat.one_mul]; omega

/-! ### `bounce` with the object table taken in its stored order (for evaluation) -/

/-- `bounce` with the destructor sweep in table order (`dropAllS`): equal to `bounce` when the object table
    is in slot order (`bounce_sorted`); `List.mergeSort` does not reduce in the kernel. -/
def bounceS (w : World) (h : Nat) : World :=
  (dropAllS w h).setHost h (fun hs => { hs with running := true, exited := false, winStart := 0, hnow := 0, wake := none, t0 := 0 })

theorem bounce_sorted (w : World) (h : Nat)
    (hs : (w.host! h).objs.Pairwise (fun a b => decide (a.1 ≤ b.1) = true)) : w.bounce h = bounceS w h := by
  unfold bounce bounceS
  rw [dropAll_sorted w h hs]

/-! ### reading `tablesOf` -/

theorem tablesOf_hostTurnBegin (A : Nat) (hs : Host) : tablesOf (hostTurnBegin A hs) = tablesOf hs := by
  unfold hostTurnBegin
  simp only
  repeat' split
  all_goals rfl

theorem tablesOf_turnBegin (w : World) (h : Nat) : tablesOf ((w.turnBegin h).host! h) = tablesOf (w.host! h) := by
  unfold turnBegin
  rw [host!_setHost]
  split
  · exact tablesOf_hostTurnBegin _ _
  · rfl

theorem tablesEmpty_of_tables {a b : Host} (e : tablesOf b = tablesOf a) (h : TablesEmpty a) : TablesEmpty b := by
  unfold tablesOf at e
  simp only [Prod.mk.injEq] at e
  obtain ⟨e1, e2, e3, _⟩ := e
  unfold TablesEmpty
  rw [e1, e2, e3]
  exact h

theorem objs_of_tables {a b : Host} (e : tablesOf b = tablesOf a) : b.objs = a.objs ∧ b.lo = a.lo := by
  unfold tablesOf at e
  simp only [Prod.mk.injEq] at e
  exact ⟨e.2.2.2.1, e.2.2.2.2⟩

end TV.C04
