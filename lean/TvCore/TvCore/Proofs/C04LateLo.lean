import TvCore.Proofs.C04LateOnly
import TvCore.Proofs.C04LateLoc
/-
  Helper lemmas for `Props/C04Late.lean`, part 6: the loopback queues.

  `LoOK w`: every envelope waiting in a host's loopback queue carries a source address of THAT host (its
  own address or loopback).  It is an invariant of every transition (given the local-address invariant
  `LocOK`): a loopback queue is written only by its own host's code (`Only`), which appends envelopes it
  builds from its own socket objects (`LoG`).  So no envelope with another host's source address — in
  particular none with the address of a host that is down — is ever in any loopback queue but that
  host's own.
-/
namespace TV.C04
open TV TV.World

/-- going from `w` to `w'`, whatever is new in host `g`'s loopback queue carries a source address of `g`. -/
def LoG (g : Nat) (w w' : World) : Prop := ∀ e ∈ (w'.host! g).lo, e ∈ (w.host! g).lo ∨ OwnIp g e.src

theorem LoG.refl (g : Nat) (w : World) : LoG g w w := fun _ he => Or.inl he

theorem LoG.trans {g : Nat} {a b c : World} (h1 : LoG g a b) (h2 : LoG g b c) : LoG g a c := by
  intro e he
  rcases h2 e he with h | h
  · exact h1 e h
  · exact Or.inr h

theorem log_of_hosts {g : Nat} {w w' : World} (e : w'.hosts = w.hosts) : LoG g w w' := by
  intro x hx
  unfold host! at hx ⊢
  rw [e] at hx
  exact Or.inl hx

/-- a host update that only shrinks (or keeps) the loopback queue. -/
theorem log_setHost (g : Nat) (w : World) (i : Nat) (f : Host → Host) (hf : ∀ a, ∀ e ∈ (f a).lo, e ∈ a.lo) :
    LoG g w (w.setHost i f) := by
  intro e he
  rw [host!_setHost_eq] at he
  split at he
  · next c => obtain ⟨rfl, _⟩ := c; exact Or.inl (hf _ e he)
  · exact Or.inl he

theorem log_setHost_eq (g : Nat) (w : World) (i : Nat) (f : Host → Host)
    (hf : ∀ a, (f a).lo = a.lo := by intro _; rfl) : LoG g w (w.setHost i f) :=
  log_setHost g w i f (fun a e he => by rw [hf a] at he; exact he)

theorem log_tag {g : Nat} {w w' : World} (t : String) (h : LoG g w w') : LoG g w (w'.tag t) :=
  h.trans (log_of_hosts (hosts_tag w' t))
theorem log_panic {g : Nat} {w w' : World} (t : String) (h : LoG g w w') : LoG g w (w'.panic t) :=
  h.trans (log_of_hosts (hosts_panic w' t))
theorem log_ite {g : Nat} {w a b : World} (c : Prop) [Decidable c] (ha : LoG g w a) (hb : LoG g w b) :
    LoG g w (if c then a else b) := by split <;> assumption
theorem log_foldl {α : Type} (g : Nat) (f : World → α → World) (hf : ∀ w x, LoG g w (f w x)) (l : List α) (w : World) :
    LoG g w (l.foldl f w) := by
  induction l generalizing w with
  | nil => exact LoG.refl g w
  | cons x xs ih => exact (hf w x).trans (ih _)

theorem log_setChan (g : Nat) (w : World) (c : Nat) (f : Chan → Chan) : LoG g w (w.setChan c f) := log_of_hosts rfl
theorem log_dropSyn (g : Nat) (w : World) (id : Nat) : LoG g w (w.dropSyn id) := log_of_hosts rfl
theorem log_dropEnvs (g : Nat) (w : World) (es : List Env) : LoG g w (w.dropEnvs es) := log_of_hosts (hosts_dropEnvs w es)
theorem log_linkEnqueue (g : Nat) (w : World) (li s d : Nat) (e : Env) : LoG g w (w.linkEnqueue li s d e) :=
  log_of_hosts (hosts_linkEnqueue w li s d e)
theorem log_sendMessage (g : Nat) (w : World) (e : Env) : LoG g w (w.sendMessage e).2 :=
  log_of_hosts (hosts_sendMessage w e)

/-- `send_loopback` by host `g` of an envelope with one of `g`'s source addresses. -/
theorem log_sendLoopback (g : Nat) (w : World) (e : Env) (ho : OwnIp g e.src) : LoG g w (w.sendLoopback g e) := by
  unfold sendLoopback
  refine log_tag _ ?_
  intro x hx
  rw [host!_setHost_eq] at hx
  split at hx
  · rcases List.mem_append.mp hx with hx | hx
    · exact Or.inl hx
    · simp only [List.mem_singleton] at hx; subst hx; exact Or.inr ho
  · exact Or.inl hx

theorem log_netSend (g : Nat) (w : World) (e : Env) (ho : OwnIp g e.src) : LoG g w (w.netSend g e).2 := by
  unfold netSend
  split
  · exact log_sendLoopback g w e ho
  · exact log_sendMessage g w e

theorem log_assignPort (g : Nat) (w : World) : LoG g w (w.assignPort g).2 := by
  unfold assignPort
  simp only
  have h1 := log_setHost_eq g w g (fun hs => { hs with nextEph := (assignEphemeral w.cfg.ephLo w.cfg.ephHi
    (fun p => udpPortUsed (w.host! g) p || tcpPortUsed (w.host! g) p) (w.host! g).nextEph).2 })
  have h2 := log_ite (w := w) ((assignEphemeral w.cfg.ephLo w.cfg.ephHi
    (fun p => udpPortUsed (w.host! g) p || tcpPortUsed (w.host! g) p) (w.host! g).nextEph).2 ≤ (w.host! g).nextEph)
    (log_tag "wrap" h1) h1
  split
  · exact h2
  · exact log_panic _ h2

theorem log_removeSock (g : Nat) (w : World) (loc rem : Addr) : LoG g w (w.removeSock g loc rem) := by
  unfold removeSock
  split
  · exact LoG.refl g w
  · exact (log_setHost_eq g w g _).trans (log_setChan g _ _ _)

theorem log_closeStreamHalf (g : Nat) (w : World) (loc rem : Addr) : LoG g w (w.closeStreamHalf g loc rem) := by
  unfold closeStreamHalf
  simp only
  split
  · exact (log_setHost_eq g w g _).trans (log_setChan g _ _ _)
  · exact log_setHost_eq g w g _

theorem log_newStream (g : Nat) (w : World) (loc rem : Addr) : LoG g w (w.newStream g loc rem).2 := by
  unfold newStream newChan newFcPair
  simp only
  refine LoG.trans ?_ (log_setHost_eq g _ g _)
  refine LoG.trans (b := if (findSock (w.host! g) loc rem).isSome = true then w.panic "already connected" else w) ?_
    (log_of_hosts rfl)
  exact log_ite _ (log_panic _ (LoG.refl g w)) (LoG.refl g w)

theorem log_sockBuffer (g : Nat) (w : World) (i seq : Nat) (seg : Seg) : LoG g w (w.sockBuffer g i seq seg).2 := by
  unfold sockBuffer
  simp only
  refine LoG.trans ?_ (log_setChan g _ _ _)
  refine LoG.trans ?_ (log_setHost_eq g _ g _)
  refine LoG.trans ?_ (log_ite _ (log_tag _ (LoG.refl g _)) (LoG.refl g _))
  refine LoG.trans ?_ (log_ite _ (log_tag _ (LoG.refl g _)) (LoG.refl g _))
  exact log_ite _ (log_panic _ (LoG.refl g w)) (LoG.refl g w)

theorem lo_udpReceive (cap : Nat) (hs : Host) (src dst : Addr) (p : Hex) : (udpReceive cap hs src dst p).1.lo = hs.lo := by
  unfold udpReceive
  split
  · rfl
  · unfold udpReceiveAt
    repeat' split
    all_goals rfl

theorem log_receive (g : Nat) (w : World) (e : Env) : LoG g w (w.receive g e).2 := by
  unfold receive
  simp only
  split
  · split
    · exact log_tag _ (log_dropSyn g _ _)
    · split
      · exact LoG.trans (log_ite _ (log_panic _ (LoG.refl g w)) (LoG.refl g w)) (log_setHost_eq g _ g _)
      · exact log_tag _ ((log_ite _ (log_panic _ (LoG.refl g w)) (LoG.refl g w)).trans (log_dropSyn g _ _))
  · split
    · exact log_sockBuffer _ _ _ _ _
    · exact log_tag _ (LoG.refl g w)
  · split
    · exact log_sockBuffer _ _ _ _ _
    · exact log_tag _ (LoG.refl g w)
  · exact log_tag _ (log_removeSock g _ _ _)
  · next p _ =>
    have h1 : LoG g w (w.setHost g fun _ => (udpReceive w.cfg.udpCap (w.host! g) e.src e.dst p).1) := by
      intro x hx
      rw [host!_setHost_eq] at hx
      split at hx
      · rw [lo_udpReceive] at hx; exact Or.inl hx
      · exact Or.inl hx
    exact log_ite _ h1 (log_tag _ h1)

theorem log_deliverTo (g : Nat) (w : World) : LoG g w (w.deliverTo g).2 := by
  unfold deliverTo
  simp only
  generalize (List.filter _ _) = idxs
  suffices H : ∀ (l : List Nat) (acc : List Env × World), LoG g w acc.2 →
      LoG g w (l.foldl (fun (acc : List Env × World) li =>
        match acc.2.links[li]? with
        | none => (acc.1, acc.2)
        | some l =>
          (acc.1 ++ (l.drain (w.host! g).ipnum).2.map (·.msg),
           (l.drain (w.host! g).ipnum).2.foldl (fun w (s : Sent Env) =>
              if (w.receive g s.msg).1 = true then
                (w.receive g s.msg).2.linkEnqueue li s.dst s.src { src := s.msg.dst, dst := s.msg.src, msg := .rst }
              else (w.receive g s.msg).2)
            { acc.2 with links := setAt acc.2.links li (fun _ => (l.drain (w.host! g).ipnum).1) })) acc).2 from
    H idxs ([], w) (LoG.refl g w)
  intro l
  induction l with
  | nil => intro acc ha; exact ha
  | cons li ls ih =>
    intro acc ha
    simp only [List.foldl_cons]
    apply ih
    split
    · exact ha
    · refine ha.trans (LoG.trans (log_of_hosts rfl) (log_foldl g _ (fun w s => ?_) _ _))
      split
      · exact (log_receive _ _ _).trans (log_linkEnqueue g _ _ _ _ _)
      · exact log_receive _ _ _

/-! ### destructors -/

theorem log_udpUnbind (g : Nat) (w : World) (p : Nat) : LoG g w (w.udpUnbind g p) := by
  unfold udpUnbind
  refine LoG.trans ?_ (log_setHost_eq g _ g _)
  exact log_ite _ (LoG.refl g w) (log_panic _ (LoG.refl g w))

theorem log_tcpUnbind (g : Nat) (w : World) (p : Nat) : LoG g w (w.tcpUnbind g p) := by
  unfold tcpUnbind
  split
  · exact log_panic _ (LoG.refl g w)
  · exact (log_setHost_eq g w g _).trans (log_foldl g _ (fun (w : World) (s : SynReq) => log_dropSyn g w s.id) _ _)

theorem log_dropRead (g : Nat) (w : World) (r : RdH) (ho : OwnIp g r.loc) : LoG g w (w.dropRead g r) := by
  unfold dropRead
  simp only
  refine LoG.trans (log_setChan g w r.chan _) (log_ite _ ?_ (log_closeStreamHalf g _ _ _))
  exact log_tag _ ((log_netSend g _ _ ho).trans (log_removeSock g _ _ _))

theorem log_dropWrite (g : Nat) (w : World) (x : WrH) (ho : OwnIp g x.loc) : LoG g w (w.dropWrite g x) := by
  unfold dropWrite
  refine LoG.trans ?_ (log_closeStreamHalf g _ _ _)
  split
  · split
    · exact (log_setHost_eq g w g _).trans (log_netSend g _ _ ho)
    · exact LoG.refl g w
  · exact LoG.refl g w

theorem log_dropObj (g : Nat) (w : World) (o : Obj) (hl : LocGood g o) : LoG g w (w.dropObj g o) := by
  unfold dropObj
  cases o with
  | udp loc stash => exact (log_of_hosts rfl).trans (log_udpUnbind g _ _)
  | listener loc => exact log_tcpUnbind g w _
  | connecting id loc rem chan fcW =>
    simp only
    have h1 : LoG g w { w with syns := setAt w.syns id fun c => { c with rxAlive := false } } := log_of_hosts rfl
    have h3 := log_tag "connectdropped" (h1.trans (log_setChan g _ chan fun c => { c with rxAlive := false }))
    split
    · exact h3.trans (log_removeSock g _ _ _)
    · exact h3
  | stream rd wr =>
    simp only
    cases rd with
    | some r =>
      have h1 := log_dropRead g w r (hl.1 r rfl)
      cases wr with
      | some x => exact h1.trans (log_dropWrite g _ x (hl.2 x rfl))
      | none => exact h1
    | none =>
      cases wr with
      | some x => exact log_dropWrite g w x (hl.2 x rfl)
      | none => exact LoG.refl g w

theorem log_foldl_dropObj (g : Nat) (objs : List (Nat × Obj)) (hl : ∀ p ∈ objs, LocGood g p.2) (w : World) :
    LoG g w (objs.foldl (fun w p => w.dropObj g p.2) w) := by
  induction objs generalizing w with
  | nil => exact LoG.refl g w
  | cons p ps ih =>
    simp only [List.foldl_cons]
    exact (log_dropObj g w p.2 (hl p (by simp))).trans (ih (fun q hq => hl q (by simp [hq])) _)

theorem log_dropAll (g : Nat) (w : World) (hl : HostLoc g (w.host! g)) : LoG g w (w.dropAll g) := by
  unfold dropAll
  simp only
  refine LoG.trans ?_ (log_foldl_dropObj g _ (fun p hp => hl p (List.mem_mergeSort.mp hp)) _)
  exact (log_setHost g w g _ (fun _ e he => by cases he)).trans (log_dropEnvs g _ _)

/-! ### host calls -/

theorem log_setObj (g : Nat) (w : World) (s : Nat) (o : Obj) : LoG g w (w.setObj g s o) := log_setHost_eq g w g _
theorem log_delObj (g : Nat) (w : World) (s : Nat) : LoG g w (w.delObj g s) := log_setHost_eq g w g _

theorem log_ite_fst {g : Nat} {w : World} {α : Type} (c : Prop) [Decidable c] (a b : World × α)
    (ha : LoG g w a.1) (hb : LoG g w b.1) : LoG g w (if c then a else b).1 := by split <;> assumption
theorem log_ite_snd {g : Nat} {w : World} {α : Type} (c : Prop) [Decidable c] (a b : α × World)
    (ha : LoG g w a.2) (hb : LoG g w b.2) : LoG g w (if c then a else b).2 := by split <;> assumption

theorem log_opUdpBind (g : Nat) (w : World) (s : Nat) (a : Addr) : LoG g w (w.opUdpBind g s a).1 := by
  unfold opUdpBind
  split
  · exact LoG.refl g w
  · simp only
    have s1 : LoG g w (if (a.port == 0) = true then w.assignPort g else (some a.port, w)).2 :=
      log_ite_snd _ _ _ (log_assignPort g w) (LoG.refl g w)
    generalize (if (a.port == 0) = true then w.assignPort g else (some a.port, w)) = r at s1 ⊢
    split
    · exact s1
    · split
      · exact log_tag _ s1
      · exact (s1.trans (log_setHost_eq g _ g _)).trans (log_setObj g _ _ _)

theorem log_opTcpBind (g : Nat) (w : World) (s : Nat) (a : Addr) : LoG g w (w.opTcpBind g s a).1 := by
  unfold opTcpBind
  split
  · exact LoG.refl g w
  · simp only
    have s1 : LoG g w (if (a.port == 0) = true then w.assignPort g else (some a.port, w)).2 :=
      log_ite_snd _ _ _ (log_assignPort g w) (LoG.refl g w)
    generalize (if (a.port == 0) = true then w.assignPort g else (some a.port, w)) = r at s1 ⊢
    split
    · exact s1
    · split
      · exact log_tag _ s1
      · exact (s1.trans (log_setHost_eq g _ g _)).trans (log_setObj g _ _ _)

theorem log_udpFanout (g : Nat) (src : Addr) (p : Hex) (loopOk : Addr → Bool) (ds : List Addr) (w : World)
    (hs : OwnIp g src) : LoG g w (udpFanout w g src p loopOk ds).1 := by
  induction ds generalizing w with
  | nil => exact LoG.refl g w
  | cons d ds ih =>
    unfold udpFanout
    split
    · exact LoG.trans (log_ite _ (log_sendLoopback g _ _ hs) (LoG.refl g _)) (ih _)
    · simp only
      split
      · exact (log_sendMessage g _ _).trans (ih _)
      · exact log_sendMessage g _ _

theorem ownIp_udpSrc' (g : Nat) (loc dst : Addr) (hb : BindIp loc) : OwnIp g (udpSrc g loc dst) := by
  unfold udpSrc OwnIp
  unfold BindIp at hb
  cases hd : dst.ip <;> rcases hb with hl | hl <;> simp [hl, Ip.isLoopback, Ip.isUnspecified]

theorem log_opUdpSend (g : Nat) (w : World) (s : Nat) (dst : Addr) (p : Hex) (hl : HostLoc g (w.host! g)) :
    LoG g w (w.opUdpSend g s dst p).1 := by
  unfold opUdpSend
  split
  · next loc stash hg =>
    have hb : BindIp loc := hl _ (getObj_mem hg)
    have hsrc := ownIp_udpSrc' g loc dst hb
    simp only
    generalize udpSrc g loc dst = src at hsrc ⊢
    repeat' split
    all_goals first
      | exact LoG.refl g w
      | exact (log_tag _ (LoG.refl g w)).trans (log_udpFanout g _ _ _ _ _ hsrc)
      | exact log_netSend g _ _ hsrc
  · exact LoG.refl g w

theorem log_opUdpTryRecv (g : Nat) (w : World) (s n : Nat) : LoG g w (w.opUdpTryRecv g s n).1 := by
  unfold opUdpTryRecv
  split
  · split
    · exact log_setObj g w _ _
    · split
      · exact LoG.refl g w
      · simp only
        split
        · exact LoG.refl g w
        · exact log_setHost_eq g w g _
  · exact LoG.refl g w

theorem log_opUdpReadable (g : Nat) (w : World) (s : Nat) : LoG g w (w.opUdpReadable g s).1 := by
  unfold opUdpReadable
  split
  · split
    · exact LoG.refl g w
    · split
      · exact LoG.refl g w
      · simp only
        split
        · exact LoG.refl g w
        · exact (log_setHost_eq g w g _).trans (log_setObj g _ _ _)
  · exact LoG.refl g w

theorem log_opUdpRecv (g : Nat) (w : World) (s n : Nat) : LoG g w (w.opUdpRecv g s n).1 := by
  unfold opUdpRecv
  simp only
  split
  · exact (log_opUdpReadable g w s).trans (log_opUdpTryRecv g _ s n)
  · exact log_opUdpReadable g w s

theorem log_opUdpConnect (g : Nat) (w : World) (s : Nat) (dst : Addr) : LoG g w (w.opUdpConnect g s dst).1 := by
  unfold opUdpConnect
  split
  · exact log_setHost_eq g w g _
  · exact LoG.refl g w

theorem log_opUdpSetBcast (g : Nat) (w : World) (s : Nat) (on : Bool) : LoG g w (w.opUdpSetBcast g s on).1 := by
  unfold opUdpSetBcast
  split
  · exact log_setHost_eq g w g _
  · exact LoG.refl g w

theorem log_opUdpSetMloop (g : Nat) (w : World) (s : Nat) (on : Bool) : LoG g w (w.opUdpSetMloop g s on).1 := by
  unfold opUdpSetMloop
  split
  · exact log_setHost_eq g w g _
  · exact LoG.refl g w

theorem log_opUdpJoin (g : Nat) (w : World) (s : Nat) (gr iface : Ip) : LoG g w (w.opUdpJoin g s gr iface).1 := by
  unfold opUdpJoin
  repeat' split
  all_goals exact log_of_hosts rfl

theorem log_opUdpLeave (g : Nat) (w : World) (s : Nat) (gr iface : Ip) : LoG g w (w.opUdpLeave g s gr iface).1 := by
  unfold opUdpLeave
  simp only
  repeat' split
  all_goals exact log_of_hosts rfl

theorem log_connectPoll (g : Nat) (w : World) (s : Nat) : LoG g w (w.connectPoll g s).1 := by
  unfold connectPoll
  split
  · next id loc rem chan fcW hg =>
    split
    · exact LoG.refl g w
    · exact log_setObj g w _ _
    · simp only
      have h2 := (log_delObj g w s).trans (log_setChan g _ chan fun c => { c with rxAlive := false })
      refine log_tag "refused" ?_
      split
      · exact h2.trans (log_removeSock g _ _ _)
      · exact log_tag _ h2
  · exact LoG.refl g w

theorem log_opTcpConnect (g : Nat) (w : World) (s : Nat) (dst : Addr) : LoG g w (w.opTcpConnect g s dst).1 := by
  unfold opTcpConnect
  simp only
  have s1 := log_assignPort g w
  split
  · exact s1
  · next p _ =>
    have hloc : OwnIp g ({ ip := if dst.ip.isLoopback = true then dst.ip else Ip.host g, port := p } : Addr) := by
      unfold OwnIp
      simp only
      split
      · rename_i hl
        right
        cases hd : dst.ip <;> simp [hd, Ip.isLoopback] at hl ⊢
      · left; rfl
    generalize ({ ip := if dst.ip.isLoopback = true then dst.ip else Ip.host g, port := p } : Addr) = loc at hloc ⊢
    split
    · exact log_panic _ s1
    · have s2 := s1.trans (log_newStream g (w.assignPort g).2 loc dst)
      generalize ((w.assignPort g).2.newStream g loc dst) = ns at s2 ⊢
      have s3 : LoG g w { ns.2 with syns := ns.2.syns ++ [({} : SynCell)] } := s2.trans (log_of_hosts rfl)
      generalize ({ ns.2 with syns := ns.2.syns ++ [({} : SynCell)] } : World) = w3 at s3 ⊢
      have s4 := s3.trans (log_netSend g w3 { src := loc, dst := dst, msg := .syn ns.2.syns.length } hloc)
      split
      · refine log_tag "refused" ?_
        have s5 := s4.trans (log_setChan g _ ns.1.1 fun c => { c with rxAlive := false })
        split
        · exact s5.trans (log_removeSock g _ _ _)
        · exact log_tag _ s5
      · exact (s4.trans (log_setObj g _ _ _)).trans (log_connectPoll g _ s)

theorem log_acceptLoop (g : Nat) (w : World) (port : Nat) : LoG g w (w.acceptLoop g port).1 := by
  unfold acceptLoop
  split
  · exact log_panic _ (LoG.refl g w)
  · next bi _ =>
    simp only
    have h1 : LoG g w (w.setHost g fun hs => { hs with tcpBinds := setAt hs.tcpBinds bi fun b =>
        { b with deque := (acceptPick w.synAlive ((w.host! g).tcpBinds.getD bi default).deque).2 } }) :=
      log_setHost_eq g w g _
    have h2 := h1.trans (log_ite (((w.host! g).tcpBinds.getD bi default).deque.length -
        (acceptPick w.synAlive ((w.host! g).tcpBinds.getD bi default).deque).2.length -
        (if (acceptPick w.synAlive ((w.host! g).tcpBinds.getD bi default).deque).1.isSome = true then 1 else 0) > 0)
        (log_tag "skipdead" (LoG.refl g _)) (LoG.refl g _))
    split
    · exact h2.trans (log_of_hosts rfl)
    · exact h2

theorem log_opTcpAccept (g : Nat) (w : World) (ls s : Nat) : LoG g w (w.opTcpAccept g ls s).1 := by
  unfold opTcpAccept
  split
  · next lloc hg =>
    simp only
    have s1 := log_acceptLoop g w lloc.port
    generalize (w.acceptLoop g lloc.port) = al at s1 ⊢
    split
    · exact s1
    · next r _ =>
      generalize (if (if r.src.ip.isLoopback = true then { ip := r.src.ip, port := lloc.port } else lloc).ip.isUnspecified = true then
          { ip := Ip.host g, port := (if r.src.ip.isLoopback = true then { ip := r.src.ip, port := lloc.port } else lloc).port }
        else if r.src.ip.isLoopback = true then { ip := r.src.ip, port := lloc.port } else lloc : Addr) = my
      split
      · exact log_panic _ s1
      · have s2 := s1.trans (log_newStream g al.1 my r.src)
        generalize (al.1.newStream g my r.src) = ns at s2 ⊢
        split
        · exact log_panic _ s2
        · split
          · exact log_panic _ s2
          · exact s2.trans (log_setObj g _ _ _)
  · exact LoG.refl g w

theorem log_tryWrite (g : Nat) (w : World) (x : WrH) (p : Hex) (ho : OwnIp g x.loc) : LoG g w (w.tryWrite g x p).1 := by
  unfold tryWrite
  simp only
  have h1 : LoG g w { w with fcs := setAt w.fcs x.fc (· - 1) } := log_of_hosts rfl
  repeat' split
  all_goals first
    | exact LoG.refl g w
    | exact log_tag _ (LoG.refl g w)
    | exact h1
    | exact (h1.trans (log_setHost_eq g _ g _)).trans (log_netSend g _ _ ho)

theorem log_opTcpWrite (g : Nat) (w : World) (s : Nat) (p : Hex) (poll : Bool) (hl : HostLoc g (w.host! g)) :
    LoG g w (w.opTcpWrite g s p poll).1 := by
  unfold opTcpWrite
  split
  · next rd x hg =>
    have ho : OwnIp g x.loc := (hl _ (getObj_mem hg)).2 x rfl
    simp only
    split
    · exact LoG.refl g w
    · exact log_tryWrite g w x p ho
  · exact LoG.refl g w

theorem log_opTcpShutdown (g : Nat) (w : World) (s : Nat) (hl : HostLoc g (w.host! g)) : LoG g w (w.opTcpShutdown g s).1 := by
  unfold opTcpShutdown
  split
  · next rd x hg =>
    have ho : OwnIp g x.loc := (hl _ (getObj_mem hg)).2 x rfl
    split
    · exact LoG.refl g w
    · split
      · exact LoG.refl g w
      · next i _ =>
        simp only
        have s2 := (log_setHost_eq g w g (fun hs => { hs with socks := setAt hs.socks i fun s => { s with nextSendSeq := s.nextSendSeq + 1 } })).trans
          (log_netSend g _ { src := x.loc, dst := x.rem, msg := .fin ((w.host! g).socks.getD i default).nextSendSeq } ho)
        split
        · exact s2.trans (log_setObj g _ _ _)
        · exact s2
  · exact LoG.refl g w

theorem log_redrain (g : Nat) (w : World) (r : RdH) : LoG g w (w.redrain g r) := by
  unfold redrain
  simp only
  repeat' split
  all_goals first
    | exact LoG.refl g w
    | exact (log_setHost_eq g _ g _).trans (log_setChan g _ _ _)

theorem log_opTcpRead (g : Nat) (w : World) (s n : Nat) (peek : Bool) : LoG g w (w.opTcpRead g s n peek).1 := by
  unfold opTcpRead
  split
  · next r wr hg =>
    split
    · exact LoG.refl g w
    · split
      · split
        · exact LoG.refl g w
        · exact log_setObj g w _ _
      · simp only
        split
        · next seg rest _ =>
          have s1 := log_setChan g w r.chan fun c => { c with items := rest }
          split
          · next b _ =>
            simp only
            refine LoG.trans ?_ (log_redrain g _ r)
            have s2 : LoG g w { (w.setChan r.chan fun c => { c with items := rest }) with
                fcs := setAt (w.setChan r.chan fun c => { c with items := rest }).fcs r.fc (· + 1) } := s1.trans (log_of_hosts rfl)
            have s3 := s2.trans (log_ite (hexLen b > n) (log_tag "partialread" (LoG.refl g _)) (LoG.refl g _))
            exact s3.trans (log_setObj g _ _ _)
          · refine LoG.trans ?_ (log_redrain g _ r)
            exact log_tag "eof" (s1.trans (log_setObj g _ _ _))
        · split
          · exact log_tag _ (LoG.refl g w)
          · exact LoG.refl g w
  · exact LoG.refl g w

theorem log_opDrop (g : Nat) (w : World) (s : Nat) (hl : HostLoc g (w.host! g)) : LoG g w (w.opDrop g s).1 := by
  unfold opDrop
  split
  · next o hg => exact (log_delObj g w s).trans (log_dropObj g _ o (hl _ (getObj_mem hg)))
  · exact LoG.refl g w

theorem log_opDropRead (g : Nat) (w : World) (s : Nat) (hl : HostLoc g (w.host! g)) : LoG g w (w.opDropRead g s).1 := by
  unfold opDropRead
  split
  · next r wr hg =>
    have ho : OwnIp g r.loc := (hl _ (getObj_mem hg)).1 r rfl
    simp only
    refine LoG.trans ?_ (log_dropRead g _ r ho)
    cases wr with
    | some _ => exact log_setObj g w _ _
    | none => exact log_delObj g w _
  · exact LoG.refl g w

theorem log_opDropWrite (g : Nat) (w : World) (s : Nat) (hl : HostLoc g (w.host! g)) : LoG g w (w.opDropWrite g s).1 := by
  unfold opDropWrite
  split
  · next rd x hg =>
    have ho : OwnIp g x.loc := (hl _ (getObj_mem hg)).2 x rfl
    simp only
    refine LoG.trans ?_ (log_dropWrite g _ x ho)
    cases rd with
    | some _ => exact log_setObj g w _ _
    | none => exact log_delObj g w _
  · exact LoG.refl g w

theorem log_onLink (g : Nat) (w : World) (x y : Nat) (f : Link Env → Link Env × List (Sent Env)) : LoG g w (w.onLink x y f) :=
  log_of_hosts (WorldLinks.onLink_hosts w x y f)

theorem log_netCtl (g : Nat) (op : NetCtl) (w : World) (x y : Nat) : LoG g w (op.apply w x y) := by
  cases op <;> exact log_onLink g w x y _

theorem lo_setHnow (hs : Host) (W : Nat) (b : Bool) : (({ hs with hnow := W }, b) : Host × Bool).1.lo = hs.lo := rfl
theorem lo_setWake (hs : Host) (W : Option Nat) (b : Bool) : (({ hs with wake := W }, b) : Host × Bool).1.lo = hs.lo := rfl
theorem lo_ite_fst {c : Prop} [Decidable c] {hs : Host} {a b : Host × Bool} (ha : a.1.lo = hs.lo) (hb : b.1.lo = hs.lo) :
    (if c then a else b).1.lo = hs.lo := by split <;> assumption

theorem lo_hostSleep (A : Nat) (hs : Host) (ms : Nat) : (hostSleep A hs ms).1.lo = hs.lo := by
  unfold hostSleep
  exact lo_ite_fst (lo_setHnow _ _ _) (lo_setWake _ _ _)

theorem log_hopSleep (g : Nat) (w : World) (ms : Nat) : LoG g w (hopSleep w g ms).1 := by
  rw [hopSleep, only_fst_mk]
  intro e he
  rw [host!_setHost_eq] at he
  split at he
  · rw [lo_hostSleep] at he; exact Or.inl he
  · exact Or.inl he

theorem lo_hostTurnBegin (A : Nat) (hs : Host) : (hostTurnBegin A hs).lo = hs.lo := by
  unfold hostTurnBegin
  simp only
  repeat' split
  all_goals rfl

theorem log_turnStep (g : Nat) (w : World) : LoG g w (turnStep w g).2 := by
  unfold turnStep
  have h1 : LoG g w (w.turnBegin g) := log_setHost_eq g w g _ (fun a => lo_hostTurnBegin _ a)
  exact (h1.trans (log_deliverTo g _)).trans (log_of_hosts rfl)

theorem log_loStep (g : Nat) (w : World) (i : Nat) : LoG g w (loStep w g i).1 := by
  unfold loStep
  simp only
  have h1 := (log_setHost g w g (fun hs => { hs with lo := hs.lo.eraseIdx i })
      (fun a e he => (List.eraseIdx_sublist a.lo i).subset he)).trans
    (log_receive g _ ((w.host! g).lo.getD i default))
  split
  · exact h1.trans (log_receive g _ _)
  · exact h1

theorem log_crash (g : Nat) (w : World) (hl : HostLoc g (w.host! g)) : LoG g w (w.crash g) := by
  unfold crash
  refine LoG.trans ?_ (log_setHost_eq g _ g _)
  split
  · exact log_dropAll g w hl
  · exact LoG.refl g w

theorem log_bounce (g : Nat) (w : World) (hl : HostLoc g (w.host! g)) : LoG g w (w.bounce g) := by
  unfold bounce
  exact (log_dropAll g w hl).trans (log_setHost_eq g _ g _)

theorem log_applyHOp (g : Nat) (w : World) (op : HOp) (hl : HostLoc g (w.host! g)) : LoG g w (applyHOp w g op).1 := by
  cases op with
  | udpBind s a =>
    show LoG g w (if (w.getObj g s).isSome = true then (w, "err slotbusy") else w.opUdpBind g s a).1
    exact log_ite_fst _ _ _ (LoG.refl g w) (log_opUdpBind g w s a)
  | tcpBind s a =>
    show LoG g w (if (w.getObj g s).isSome = true then (w, "err slotbusy") else w.opTcpBind g s a).1
    exact log_ite_fst _ _ _ (LoG.refl g w) (log_opTcpBind g w s a)
  | tcpConnect s a =>
    show LoG g w (if (w.getObj g s).isSome = true then (w, "err slotbusy") else w.opTcpConnect g s a).1
    exact log_ite_fst _ _ _ (LoG.refl g w) (log_opTcpConnect g w s a)
  | tcpAccept ls s =>
    show LoG g w (if (w.getObj g s).isSome = true then (w, "err slotbusy") else w.opTcpAccept g ls s).1
    exact log_ite_fst _ _ _ (LoG.refl g w) (log_opTcpAccept g w ls s)
  | udpSend s a p => exact log_opUdpSend g w s a p hl
  | udpTryRecv s n => exact log_opUdpTryRecv g w s n
  | udpRecv s n => exact log_opUdpRecv g w s n
  | udpReadable s => exact log_opUdpReadable g w s
  | udpConnect s a => exact log_opUdpConnect g w s a
  | udpBcast s on => exact log_opUdpSetBcast g w s on
  | udpMloop s on => exact log_opUdpSetMloop g w s on
  | udpJoin s gr i => exact log_opUdpJoin g w s gr i
  | udpLeave s gr i => exact log_opUdpLeave g w s gr i
  | tcpCPoll s => exact log_connectPoll g w s
  | tcpWrite s p => exact log_opTcpWrite g w s p _ hl
  | tcpSplit s => exact LoG.refl g w
  | tcpReunite s => exact LoG.refl g w
  | tcpPWrite s p => exact log_opTcpWrite g w s p true hl
  | tcpShutdown s => exact log_opTcpShutdown g w s hl
  | tcpRead s n => exact log_opTcpRead g w s n false
  | tcpPeek s n => exact log_opTcpRead g w s n true
  | drop s => exact log_opDrop g w s hl
  | tcpDropR s => exact log_opDropRead g w s hl
  | tcpDropW s => exact log_opDropWrite g w s hl
  | count => exact LoG.refl g w
  | countOf a => exact LoG.refl g w
  | spawnTicker => exact LoG.refl g w
  | select4 => exact LoG.refl g w
  | exit => exact (log_dropAll g w hl).trans (log_setHost_eq g _ g _)
  | net op a b => exact log_netCtl g op w a b
  | sleep ms =>
    show LoG g w (hopSleep w g ms).1
    exact log_hopSleep g w ms
  | clock => exact LoG.refl g w
  | lookup name => exact log_of_hosts rfl
  | unknown => exact LoG.refl g w

end TV.C04
