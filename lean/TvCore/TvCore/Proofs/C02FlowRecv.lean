import TvCore.Proofs.C02FlowOps
import TvCore.Props.C04Reach
/-
  C02, flow control — the receive side: the drain loop moves segments between reorder buffer and channel
  without losing or duplicating one; an arrival at the direction's socket; arrivals elsewhere.
-/
namespace TV.C02
open TV TV.World

/-! ### the drain loop conserves segments -/

theorem countP_filter_ne_of_nodup (buf : List (Nat × Seg)) (q : Nat) (seg : Seg) (hn : (buf.map (·.1)).Nodup)
    (hm : (q, seg) ∈ buf) :
    parkedData (buf.filter (fun p => p.1 != q)) + (if seg.isData then 1 else 0) = parkedData buf := by
  induction buf with
  | nil => cases hm
  | cons x xs ih =>
    simp only [List.map_cons, List.nodup_cons] at hn
    rcases List.mem_cons.mp hm with e | hm'
    · subst e
      have hall : xs.filter (fun p => p.1 != q) = xs := by
        apply List.filter_eq_self.mpr
        intro p hp
        have : p.1 ≠ q := fun e => hn.1 (by have hm2 := List.mem_map_of_mem (f := (·.1)) hp; rwa [e] at hm2)
        simpa using this
      unfold parkedData
      simp only [List.filter_cons, bne_self_eq_false, Bool.false_eq_true, if_false, hall, List.countP_cons]
      try omega
    · have hne : x.1 ≠ q := fun e => hn.1 (by rw [e]; exact List.mem_map_of_mem (f := (·.1)) hm')
      have ih' := ih hn.2 hm'
      unfold parkedData at ih' ⊢
      have hb : (x.1 != q) = true := by simpa using hne
      simp only [List.filter_cons, hb, if_true, List.countP_cons]
      omega

theorem nodup_filter_fst (buf : List (Nat × Seg)) (p : Nat × Seg → Bool) (hn : (buf.map (·.1)).Nodup) :
    ((buf.filter p).map (·.1)).Nodup :=
  (List.filter_sublist.map _).nodup hn

/-- **the drain loop conserves data segments** (receiver alive, sequence numbers in the buffer distinct). -/
theorem drainBuf_conserves (cap : Nat) :
    ∀ (fuel : Nat) (buf : List (Nat × Seg)) (rs : Nat) (items : List Seg), (buf.map (·.1)).Nodup →
      parkedData (drainBuf cap true fuel buf rs items).1 + dataSegs (drainBuf cap true fuel buf rs items).2.2.1 =
        parkedData buf + dataSegs items ∧
      ((drainBuf cap true fuel buf rs items).1.map (·.1)).Nodup
  | 0, buf, rs, items, hn => ⟨rfl, hn⟩
  | fuel + 1, buf, rs, items, hn => by
    unfold drainBuf
    cases hf : buf.find? (fun p => p.1 == rs + 1) with
    | none => exact ⟨rfl, hn⟩
    | some pr =>
      obtain ⟨q, seg⟩ := pr
      have hmem : (q, seg) ∈ buf := List.mem_of_find?_eq_some hf
      have hq : q = rs + 1 := by simpa using List.find?_some hf
      simp only [Bool.not_true, Bool.false_eq_true, if_false]
      by_cases hfull : items.length ≥ cap
      · simp only [hfull, if_true]
        exact ⟨trivial, hn⟩
      · simp only [hfull, if_false]
        have ih := drainBuf_conserves cap fuel (buf.filter (fun p => p.1 != rs + 1)) (rs + 1) (items ++ [seg])
          (nodup_filter_fst _ _ hn)
        refine ⟨?_, ih.2⟩
        rw [ih.1]
        have := countP_filter_ne_of_nodup buf (rs + 1) seg hn (by rw [← hq]; exact hmem)
        unfold dataSegs
        simp only [List.countP_append, List.countP_cons, List.countP_nil]
        omega

/-! ### writing a socket's buffer and its channel -/

theorem skv_setAt_other (D : Dir) (g : Sock → Sock) (hg : ∀ s, sockP D (g s) = sockP D s) :
    ∀ (l : List Sock) (i : Nat), sockP D (l.getD i default) = false → skv D (setAt l i g) = skv D l
  | [], _, _ => rfl
  | x :: xs, 0, h => by
    have hx : sockP D x = false := h
    unfold skv
    simp only [setAt, List.find?_cons, hg x, hx]
  | x :: xs, i + 1, h => by
    have ih := skv_setAt_other D g hg xs i (by simpa using h)
    unfold skv at ih ⊢
    simp only [setAt, List.find?_cons]
    cases sockP D x
    · exact ih
    · rfl

theorem skv_setAt_found (D : Dir) (g : Sock → Sock) (hg : ∀ s, sockP D (g s) = sockP D s) :
    ∀ (l : List Sock) (i : Nat), l.findIdx? (sockP D) = some i →
      skv D (setAt l i g) = some ((g (l.getD i default)).buf, (g (l.getD i default)).recvSeq, (g (l.getD i default)).chan) ∧
      skv D l = some ((l.getD i default).buf, (l.getD i default).recvSeq, (l.getD i default).chan)
  | [], _, h => by simp at h
  | x :: xs, i, h => by
    rw [List.findIdx?_cons] at h
    cases hx : sockP D x with
    | true =>
      simp only [hx, if_true, Option.some.injEq] at h
      subst h
      unfold skv
      simp only [setAt, List.find?_cons, hg x, hx, Option.map_some, List.getD_cons_zero]
      exact ⟨trivial, trivial⟩
    | false =>
      simp only [hx, Bool.false_eq_true, if_false, Option.map_eq_some_iff] at h
      obtain ⟨j, hj, rfl⟩ := h
      have ih := skv_setAt_found D g hg xs j hj
      unfold skv at ih ⊢
      simp only [setAt, List.find?_cons, hx, List.getD_cons_succ]
      exact ih

theorem chanD_setChan_self (w : World) (c : Nat) (g : Chan → Chan) (h : c < w.chans.length) :
    (w.setChan c g).chan! c = g (w.chan! c) := by
  unfold World.chan! World.setChan
  exact setAt_getD _ _ _ _ h

/-- socket `i` of host `h` is not the reader's socket, and its channel is not the direction's. -/
theorem q_setRx_other (D : Dir) (w : World) (h i c : Nat) (b : List (Nat × Seg)) (rs : Nat) (items : List Seg)
    (hc : D.c ≠ c) (hs : h = D.b → sockP D (sockAt w h i) = false) : Q D w (setRx w h i c b rs items) := by
  unfold setRx
  refine (q_setHost D w h (sockUpd i b rs) (fun _ => rfl) (fun hb => ?_)).trans (q_setChan_ne D _ c _ hc)
  exact skv_setAt_other D (fun s => { s with buf := b, recvSeq := rs }) (fun _ => rfl) _ i (hs hb)

/-- the view after the reader's socket and the direction's channel were written. -/
theorem view_setRx_ours (D : Dir) (w : World) (i : Nat) (b : List (Nat × Seg)) (rs : Nat) (items : List Seg)
    (hp : Pre D w) (hi : (w.host! D.b).socks.findIdx? (sockP D) = some i) (hch : (sockAt w D.b i).chan = D.c) :
    view D (setRx w D.b i D.c b rs items) =
      (w.credits D.f, netFl D w, loFl D w, some (b, rs, D.c), items, (w.chan! D.c).cap, (w.chan! D.c).rxAlive) := by
  have hlt : D.b < w.hosts.length := by
    apply Classical.byContradiction
    intro hge
    have : w.host! D.b = default := by
      unfold World.host!
      rw [List.getD_eq_getElem?_getD, List.getElem?_eq_none (by omega)]; rfl
    rw [this] at hi
    cases hi
  unfold view setRx
  have e1 : ((w.setHost D.b (sockUpd i b rs)).setChan D.c (fun ch => { ch with items := items })).chan! D.c =
      { w.chan! D.c with items := items } := chanD_setChan_self (w.setHost D.b (sockUpd i b rs)) D.c _ hp.cIn
  have e2 : ((w.setHost D.b (sockUpd i b rs)).setChan D.c (fun ch => { ch with items := items })).host! D.b =
      sockUpd i b rs (w.host! D.b) := C04.host!_setHost_self w D.b _ hlt
  have e3 := (skv_setAt_found D (fun s => { s with buf := b, recvSeq := rs }) (fun _ => rfl) (w.host! D.b).socks i hi).1
  have e4 : skv D (sockUpd i b rs (w.host! D.b)).socks = some (b, rs, D.c) := by
    rw [show (sockUpd i b rs (w.host! D.b)).socks = setAt (w.host! D.b).socks i (fun s => { s with buf := b, recvSeq := rs }) from rfl, e3]
    simp only
    rw [show ((w.host! D.b).socks.getD i default).chan = D.c from hch]
  unfold loFl
  rw [e1, e2, e4]
  rfl

/-! ### panics are never cleared -/

theorem noPanic_of_meta {w w' : World} (m : C04.Meta w w') (h : w'.panicked = none) : w.panicked = none := by
  cases hp : w.panicked with
  | none => rfl
  | some x =>
    have := m.2 (by rw [hp]; rfl)
    rw [h] at this
    cases this

theorem panicked_tag (w : World) (t : String) : (w.tag t).panicked = w.panicked := by unfold World.tag; split <;> rfl

theorem sockBuffer_nodup (w : World) (h i seq : Nat) (seg : Seg) (hn : (w.sockBuffer h i seq seg).2.panicked = none) :
    ((sockAt w h i).buf.any fun p => p.1 == seq) = false := by
  cases hd : ((sockAt w h i).buf.any fun p => p.1 == seq) with
  | false => rfl
  | true =>
    exfalso
    have hsome : (w.sockBuffer h i seq seg).2.panicked.isSome = true := by
      unfold sockBuffer
      unfold sockAt at hd
      simp only [hd, if_true]
      show (_ : World).panicked.isSome = true
      repeat' split
      all_goals simp only [World.setChan, World.setHost, panicked_tag, C04.panic_isSome]
    rw [hn] at hsome
    cases hsome

end TV.C02
