import TvCore.Props.C02Refine
import TvCore.Props.C09World
/-
  C02, flow control — vocabulary and the primitive frame lemmas.

  One direction of an established stream is described by `Dir`: the reader's host `b` (ip number `nb`), the
  writer's address pair `loc → rem` (so the reader's socket has the pair `rem / loc`), the flow-control
  cell `f` both halves share and the channel `c` of the reader's socket.

  Where a data segment of the direction can be:
    * `netFl`   on a link (in flight or deliverable), addressed to ip number `nb`,
    * `loFl`    on the loopback queue of host `b` (same-host streams),
    * `parked`  in the reorder buffer of the reader's socket,
    * `queued`  in the channel.
  `view D w` is the part of a world these (and the credit count) are computed from; `Q D w w'` says a
  transition leaves the view alone (given that no failure coin is left in the oracle queue).
-/
namespace TV.C02
open TV TV.World

structure Dir where
  b : Nat
  nb : Nat
  loc : Addr
  rem : Addr
  f : Nat
  c : Nat

def isDataMsg : Msg → Bool
  | .data _ _ => true
  | _ => false

/-- a data segment of the direction (envelope level). -/
def oursE (D : Dir) (e : Env) : Bool := e.src == D.loc && e.dst == D.rem && isDataMsg e.msg

/-- … on a link: addressed to the reader's ip number. -/
def oursS (D : Dir) (s : Sent Env) : Bool := s.dst == D.nb && oursE D s.msg

def linkFl (D : Dir) (l : Link Env) : Nat := (C09.allMsgs l).countP (oursS D)
def netFl (D : Dir) (w : World) : Nat := (w.links.map (linkFl D)).sum
def loFl (D : Dir) (w : World) : Nat := (w.host! D.b).lo.countP (oursE D)

/-- the reader's socket is the first entry of host `b`'s table with the pair `rem / loc`. -/
def sockP (D : Dir) (s : Sock) : Bool := s.loc == D.rem && s.rem == D.loc

def skOf (D : Dir) (w : World) : Option Sock := (w.host! D.b).socks.find? (sockP D)

def parkedData (buf : List (Nat × Seg)) : Nat := buf.countP (fun p => p.2.isData)
def dataSegs (l : List Seg) : Nat := l.countP Seg.isData

def parked (D : Dir) (w : World) : Nat :=
  match skOf D w with
  | some s => parkedData s.buf
  | none => 0

def queued (D : Dir) (w : World) : Nat := dataSegs (w.chan! D.c).items

/-- **the balance**: credits + segments on links / loopback + parked + queued = capacity. -/
def Bal (D : Dir) (cap : Nat) (w : World) : Prop :=
  w.credits D.f + netFl D w + loFl D w + parked D w + queued D w = cap

/-- what of the reader's socket the view keeps: buffer, `recv_seq`, channel. -/
def skv (D : Dir) (socks : List Sock) : Option (List (Nat × Seg) × Nat × Nat) :=
  (socks.find? (sockP D)).map (fun s => (s.buf, s.recvSeq, s.chan))

def view (D : Dir) (w : World) :
    Nat × Nat × Nat × Option (List (Nat × Seg) × Nat × Nat) × List Seg × Nat × Bool :=
  (w.credits D.f, netFl D w, loFl D w, skv D (w.host! D.b).socks, (w.chan! D.c).items, (w.chan! D.c).cap,
   (w.chan! D.c).rxAlive)

theorem parked_eq (D : Dir) (w : World) :
    parked D w = match skv D (w.host! D.b).socks with | some v => parkedData v.1 | none => 0 := by
  unfold parked skOf skv
  cases (w.host! D.b).socks.find? (sockP D) <;> rfl

theorem bal_of_view {D : Dir} {cap : Nat} {w w' : World} (hv : view D w' = view D w) (hb : Bal D cap w) :
    Bal D cap w' := by
  unfold Bal at *
  rw [parked_eq] at hb ⊢
  unfold queued
  unfold view at hv
  simp only [Prod.mk.injEq] at hv
  obtain ⟨h1, h2, h3, h4, h5, _, _⟩ := hv
  rw [h1, h2, h3, h4, h5]
  exact hb

/-- standing assumptions of the frame lemmas: no failure coin is left in the oracle queue, and the
    direction's cell and channel exist. -/
def Pre0 (D : Dir) (w : World) : Prop := C09.NoFailCoin w ∧ D.f < w.fcs.length ∧ D.c < w.chans.length

/-- … and the reader's socket is in host `b`'s table. -/
def Pre (D : Dir) (w : World) : Prop := Pre0 D w ∧ (skv D (w.host! D.b).socks).isSome = true

theorem Pre.noFail {D : Dir} {w : World} (h : Pre D w) : C09.NoFailCoin w := h.1.1
theorem Pre.fIn {D : Dir} {w : World} (h : Pre D w) : D.f < w.fcs.length := h.1.2.1
theorem Pre.cIn {D : Dir} {w : World} (h : Pre D w) : D.c < w.chans.length := h.1.2.2

/-- **`Q D w w'`**: the transition keeps the standing assumptions and the view. -/
def Q (D : Dir) (w w' : World) : Prop := Pre D w → Pre0 D w' ∧ view D w' = view D w

theorem skv_of_view {D : Dir} {w w' : World} (hv : view D w' = view D w) :
    skv D (w'.host! D.b).socks = skv D (w.host! D.b).socks := by
  unfold view at hv
  simp only [Prod.mk.injEq] at hv
  exact hv.2.2.2.1

theorem Q.pre {D : Dir} {w w' : World} (h : Q D w w') (hp : Pre D w) : Pre D w' :=
  ⟨(h hp).1, by rw [skv_of_view (h hp).2]; exact hp.2⟩

theorem Q.view {D : Dir} {w w' : World} (h : Q D w w') (hp : Pre D w) : view D w' = view D w := (h hp).2

theorem Q.refl (D : Dir) (w : World) : Q D w w := fun h => ⟨h.1, rfl⟩

theorem Q.trans {D : Dir} {a b c : World} (h1 : Q D a b) (h2 : Q D b c) : Q D a c := fun h =>
  ⟨(h2 (h1.pre h)).1, (h2 (h1.pre h)).2.trans (h1 h).2⟩

theorem Q.ite {D : Dir} {w a b : World} (c : Prop) [Decidable c] (ha : Q D w a) (hb : Q D w b) :
    Q D w (if c then a else b) := by split <;> assumption

theorem Q.foldl {D : Dir} {α : Type} (f : World → α → World) (hf : ∀ w x, Q D w (f w x)) (l : List α) (w : World) :
    Q D w (l.foldl f w) := by
  induction l generalizing w with
  | nil => exact Q.refl D w
  | cons x xs ih => exact (hf w x).trans (ih _)

theorem Q.foldl_mem {D : Dir} {α : Type} (f : World → α → World) (l : List α) (hf : ∀ x ∈ l, ∀ w, Q D w (f w x)) (w : World) :
    Q D w (l.foldl f w) := by
  induction l generalizing w with
  | nil => exact Q.refl D w
  | cons x xs ih =>
    exact (hf x (by simp) w).trans (ih (fun y hy => hf y (by simp [hy])) _)

theorem host!_of_hosts {w w' : World} (h : w'.hosts = w.hosts) (i : Nat) : w'.host! i = w.host! i := by
  unfold World.host!; rw [h]

/-- a transition that writes none of: oracle, credits, links, hosts, channels. -/
theorem q_of_eq {D : Dir} {w w' : World} (ho : w'.oracle = w.oracle) (hf : w'.fcs = w.fcs) (hl : w'.links = w.links)
    (hh : w'.hosts = w.hosts) (hc : w'.chans = w.chans) : Q D w w' := by
  intro hp
  refine ⟨⟨by unfold C09.NoFailCoin; rw [ho]; exact hp.noFail, by rw [hf]; exact hp.fIn, by rw [hc]; exact hp.cIn⟩, ?_⟩
  unfold view netFl loFl World.credits World.chan!
  rw [hf, hl, hc, host!_of_hosts hh]

theorem q_tag (D : Dir) (w : World) (t : String) : Q D w (w.tag t) := by
  unfold World.tag; split
  · exact Q.refl D w
  · exact q_of_eq rfl rfl rfl rfl rfl

theorem q_panic (D : Dir) (w : World) (t : String) : Q D w (w.panic t) := by
  unfold World.panic; split
  · exact Q.refl D w
  · exact q_of_eq rfl rfl rfl rfl rfl

theorem Q.tag {D : Dir} {w w' : World} (h : Q D w w') (t : String) : Q D w (w'.tag t) := h.trans (q_tag D _ t)
theorem Q.panic {D : Dir} {w w' : World} (h : Q D w w') (t : String) : Q D w (w'.panic t) := h.trans (q_panic D _ t)

theorem q_dropSyn (D : Dir) (w : World) (id : Nat) : Q D w (w.dropSyn id) := q_of_eq rfl rfl rfl rfl rfl

theorem q_dropEnvs (D : Dir) (w : World) (es : List Env) : Q D w (w.dropEnvs es) := by
  unfold World.dropEnvs
  apply Q.foldl
  intro w e
  cases e.msg <;> first | exact Q.refl D w | exact q_dropSyn D w _

/-! ### host updates -/

theorem chanD_setChan_ne (w : World) (c c' : Nat) (g : Chan → Chan) (h : c ≠ c') :
    (w.setChan c' g).chan! c = w.chan! c := by
  unfold World.chan! World.setChan
  exact C12.getD_setAt_ne _ _ _ _ _ h

/-- a host update that keeps (the count on) the loopback queue and the reader's socket. -/
theorem q_setHost (D : Dir) (w : World) (h : Nat) (g : Host → Host)
    (hlo : h = D.b → (g (w.host! h)).lo.countP (oursE D) = (w.host! h).lo.countP (oursE D))
    (hsk : h = D.b → skv D (g (w.host! h)).socks = skv D (w.host! h).socks) : Q D w (w.setHost h g) := by
  intro hp
  refine ⟨hp.1, ?_⟩
  unfold view
  have e1 : (w.setHost h g).credits D.f = w.credits D.f := rfl
  have e2 : netFl D (w.setHost h g) = netFl D w := rfl
  have e5 : (w.setHost h g).chan! D.c = w.chan! D.c := rfl
  rw [e1, e2, e5]
  unfold loFl
  rw [C04.host!_setHost_eq]
  split
  · next hc =>
    obtain ⟨hb, _⟩ := hc
    rw [hlo hb.symm, hsk hb.symm, ← hb]
  · rfl

/-- a host update that writes neither the loopback queue nor the stream table. -/
theorem q_setHost_eq (D : Dir) (w : World) (h : Nat) (g : Host → Host) (hl : ∀ hs, (g hs).lo = hs.lo)
    (hs : ∀ hs, (g hs).socks = hs.socks) : Q D w (w.setHost h g) :=
  q_setHost D w h g (fun _ => by rw [hl]) (fun _ => by rw [hs])

theorem q_setObj (D : Dir) (w : World) (h s : Nat) (o : Obj) : Q D w (w.setObj h s o) :=
  q_setHost_eq D w h _ (fun _ => rfl) (fun _ => rfl)

theorem q_delObj (D : Dir) (w : World) (h s : Nat) : Q D w (w.delObj h s) :=
  q_setHost_eq D w h _ (fun _ => rfl) (fun _ => rfl)

/-! ### the reader's socket under table updates -/

theorem skv_setAt (D : Dir) (g : Sock → Sock) (hg : ∀ s, sockP D (g s) = sockP D s ∧ (g s).buf = s.buf ∧
    (g s).recvSeq = s.recvSeq ∧ (g s).chan = s.chan) : ∀ (l : List Sock) (i : Nat), skv D (setAt l i g) = skv D l
  | [], _ => rfl
  | x :: xs, 0 => by
    unfold skv
    simp only [setAt, List.find?_cons, (hg x).1]
    cases sockP D x
    · rfl
    · simp only [Option.map_some, (hg x).2.1, (hg x).2.2.1, (hg x).2.2.2]
  | x :: xs, i + 1 => by
    have ih := skv_setAt D g hg xs i
    unfold skv at ih ⊢
    simp only [setAt, List.find?_cons]
    cases sockP D x
    · exact ih
    · rfl

theorem skv_append (D : Dir) (l : List Sock) (x : Sock) (h : (skv D l).isSome = true) : skv D (l ++ [x]) = skv D l := by
  unfold skv at *
  rw [List.find?_append]
  cases hf : l.find? (sockP D) with
  | none => rw [hf] at h; cases h
  | some s => rfl

theorem skv_eraseIdx (D : Dir) : ∀ (l : List Sock) (j : Nat), sockP D (l.getD j default) = false →
    skv D (l.eraseIdx j) = skv D l
  | [], _, _ => rfl
  | x :: xs, 0, h => by
    have hx : sockP D x = false := h
    unfold skv
    simp only [List.eraseIdx_cons_zero, List.find?_cons, hx]
  | x :: xs, j + 1, h => by
    have ih := skv_eraseIdx D xs j (by simpa using h)
    unfold skv at ih ⊢
    simp only [List.eraseIdx_cons_succ, List.find?_cons]
    cases sockP D x
    · exact ih
    · rfl

/-- the entry `findIdx?` finds for a pair has that pair. -/
theorem pair_of_findIdx {socks : List Sock} {loc rem : Addr} {i : Nat}
    (h : socks.findIdx? (fun s => s.loc == loc && s.rem == rem) = some i) :
    (socks.getD i default).loc = loc ∧ (socks.getD i default).rem = rem := by
  have := List.findIdx?_eq_some_iff_getElem.mp h
  obtain ⟨hlt, hp, _⟩ := this
  rw [List.getD_eq_getElem?_getD, List.getElem?_eq_getElem hlt]
  simp only [Option.getD_some]
  simpa using hp

theorem sockP_false_of_pair {D : Dir} {s : Sock} {loc rem : Addr} (h1 : s.loc = loc) (h2 : s.rem = rem)
    (hne : ¬ (loc = D.rem ∧ rem = D.loc)) : sockP D s = false := by
  unfold sockP
  rw [h1, h2]
  cases h : (loc == D.rem && rem == D.loc) with
  | false => rfl
  | true => simp only [Bool.and_eq_true, beq_iff_eq] at h; exact absurd h hne

/-! ### channels and credits -/

theorem q_setChan_ne (D : Dir) (w : World) (c : Nat) (g : Chan → Chan) (h : D.c ≠ c) : Q D w (w.setChan c g) := by
  intro hp
  refine ⟨⟨hp.noFail, hp.fIn, by show D.c < (setAt w.chans c g).length; rw [setAt_length]; exact hp.cIn⟩, ?_⟩
  unfold view
  rw [chanD_setChan_ne w D.c c g h]
  rfl

/-- a channel update that only drops the sender. -/
theorem q_setChan_tx (D : Dir) (w : World) (c : Nat) : Q D w (w.setChan c (fun ch => { ch with txAlive := false })) := by
  intro hp
  refine ⟨⟨hp.noFail, hp.fIn, by show D.c < (setAt w.chans c _).length; rw [setAt_length]; exact hp.cIn⟩, ?_⟩
  by_cases h : D.c = c
  · subst h
    unfold view
    have e : (w.setChan D.c (fun ch => { ch with txAlive := false })).chan! D.c = { w.chan! D.c with txAlive := false } := by
      unfold World.chan! World.setChan
      exact setAt_getD _ _ _ _ hp.cIn
    rw [e]
    rfl
  · unfold view
    rw [chanD_setChan_ne w D.c c _ h]
    rfl

theorem q_fcs_ne (D : Dir) (w : World) (k : Nat) (g : Nat → Nat) (h : D.f ≠ k) :
    Q D w { w with fcs := setAt w.fcs k g } := by
  intro hp
  refine ⟨⟨hp.noFail, by show D.f < (setAt w.fcs k g).length; rw [setAt_length]; exact hp.fIn, hp.cIn⟩, ?_⟩
  unfold view
  have e : ({ w with fcs := setAt w.fcs k g } : World).credits D.f = w.credits D.f := by
    unfold World.credits
    exact C12.getD_setAt_ne _ _ _ _ _ h
  rw [e]
  rfl

theorem getD_append_lt {α : Type} (l m : List α) (i : Nat) (d : α) (h : i < l.length) : (l ++ m).getD i d = l.getD i d := by
  rw [List.getD_eq_getElem?_getD, List.getD_eq_getElem?_getD, List.getElem?_append_left h]

theorem q_newChan (D : Dir) (w : World) (cap : Nat) : Q D w (w.newChan cap).2 := by
  intro hp
  refine ⟨⟨hp.noFail, hp.fIn, by show D.c < (w.chans ++ _).length; rw [List.length_append]; exact Nat.lt_add_right _ hp.cIn⟩, ?_⟩
  unfold view
  have e : (w.newChan cap).2.chan! D.c = w.chan! D.c := by
    unfold World.chan! World.newChan
    exact getD_append_lt _ _ _ _ hp.cIn
  rw [e]
  rfl

theorem q_newFcPair (D : Dir) (w : World) (cap : Nat) : Q D w (w.newFcPair cap).2 := by
  intro hp
  refine ⟨⟨hp.noFail, by show D.f < (w.fcs ++ _).length; rw [List.length_append]; exact Nat.lt_add_right _ hp.fIn, hp.cIn⟩, ?_⟩
  unfold view
  have e : (w.newFcPair cap).2.credits D.f = w.credits D.f := by
    unfold World.credits World.newFcPair
    exact getD_append_lt _ _ _ _ hp.fIn
  rw [e]
  rfl

end TV.C02
