import TvCore.Proofs.C02FlowLemmas
/-
  C02, flow control — the direction's data segments on links: what each `Link` function does to their
  number, and the sending primitives of the World.
-/
namespace TV.C02
open TV TV.World TV.Link TV.LW

theorem linkFl_eq (D : Dir) (l : Link Env) :
    linkFl D l = l.sent.countP (oursS D) + l.toA.countP (oursS D) + l.toB.countP (oursS D) := by
  unfold linkFl C09.allMsgs
  simp only [List.countP_append]

theorem oursS_releaseOne (D : Dir) (now : Nat) (s : Sent Env) : oursS D (releaseOne now s) = oursS D s := by
  unfold releaseOne; split <;> rfl

theorem countP_map_status (D : Dir) (g : Sent Env → Sent Env) (hg : ∀ s, oursS D (g s) = oursS D s) (xs : List (Sent Env)) :
    (xs.map g).countP (oursS D) = xs.countP (oursS D) := by
  rw [List.countP_map]
  congr 1
  funext s
  exact hg s

theorem countP_deliverAt (D : Dir) (t : Nat) : ∀ (i : Nat) (xs : List (Sent Env)),
    (deliverAt t i xs).countP (oursS D) = xs.countP (oursS D)
  | _, [] => by simp [deliverAt]
  | 0, x :: xs => by
    simp only [deliverAt, List.countP_cons]
    rfl
  | i + 1, x :: xs => by
    simp only [deliverAt, List.countP_cons, countP_deliverAt D t i xs]

/-- the random process with the failure coin down discards nothing. -/
theorem linkFl_randStep (D : Dir) (cfg : Cfg) (l : Link Env) (cr : Bool) :
    linkFl D (randStep cfg l false cr).1 = linkFl D l := by
  simp only [linkFl_eq]
  unfold randStep
  simp only [Bool.and_false, Bool.false_eq_true, if_false]
  split
  · split <;> rfl
  · split
    · simp only [release]
      rw [countP_map_status D _ (oursS_releaseOne D l.now)]
    · rfl

theorem linkFl_process (D : Dir) (l : Link Env) : linkFl D l.processDeliverables = linkFl D l :=
  (C09.allMsgs_process_perm l).countP_eq _

theorem linkFl_tick (D : Dir) (l : Link Env) (now : Nat) : linkFl D (l.tick now) = linkFl D l := by
  unfold Link.tick
  rw [linkFl_process]
  rfl

theorem oursS_mk (D : Dir) (s d : Nat) (st : Status) (e : Env) (id : Nat) (bad : Bool) (at' dl : Nat) :
    oursS D ⟨s, d, st, e, id, bad, at', dl⟩ = (d == D.nb && oursE D e) := rfl

/-- `enqueue` of an envelope that is not a data segment of the direction towards `nb`. -/
theorem linkFl_enqueueRaw_other (D : Dir) (l : Link Env) (dl s d : Nat) (e : Env) (hne : (d == D.nb && oursE D e) = false) :
    linkFl D (l.enqueueRaw dl s d e).1 = linkFl D l := by
  simp only [linkFl_eq]
  unfold enqueueRaw
  simp only
  split
  · simp only [List.countP_append, List.countP_cons, List.countP_nil, oursS_mk, hne]
    simp
  · simp only [List.countP_append, List.countP_cons, List.countP_nil, oursS_mk, hne]
    simp
  · rfl

/-- `enqueue` of a data segment of the direction on a direction that is healthy or held. -/
theorem linkFl_enqueueRaw_ours (D : Dir) (l : Link Env) (dl s d : Nat) (e : Env) (ho : (d == D.nb && oursE D e) = true)
    (hst : l.stateFor s d = .healthy ∨ l.stateFor s d = .hold) :
    linkFl D (l.enqueueRaw dl s d e).1 = linkFl D l + 1 := by
  simp only [linkFl_eq]
  unfold enqueueRaw
  simp only
  rcases hst with h | h
  · rw [h]
    simp only [List.countP_append, List.countP_cons, List.countP_nil, oursS_mk, ho]
    simp; omega
  · rw [h]
    simp only [List.countP_append, List.countP_cons, List.countP_nil, oursS_mk, ho]
    simp; omega

theorem linkFl_enqueue_other (D : Dir) (cfg : Cfg) (l : Link Env) (cr : Bool) (dl s d : Nat) (e : Env)
    (hne : (d == D.nb && oursE D e) = false) : linkFl D (l.enqueue cfg false cr dl s d e).1 = linkFl D l := by
  show linkFl D ((randStep cfg l false cr).1.enqueueRaw dl s d e).1.processDeliverables = _
  rw [linkFl_process, linkFl_enqueueRaw_other D _ dl s d e hne, linkFl_randStep]

/-- with the failure coin down a direction that is healthy or held stays so. -/
theorem stateFor_randStep (cfg : Cfg) (l : Link Env) (cr : Bool) (s d : Nat)
    (hst : l.stateFor s d = .healthy ∨ l.stateFor s d = .hold) :
    (randStep cfg l false cr).1.stateFor s d = .healthy ∨ (randStep cfg l false cr).1.stateFor s d = .hold := by
  unfold randStep
  simp only [Bool.and_false, Bool.false_eq_true, if_false]
  unfold stateFor at *
  by_cases hlt : s < d
  · simp only [hlt, if_true] at hst ⊢
    split
    · split
      · simp only
        rcases hst with h | h <;> rw [h] <;> simp
      · exact hst
    · split
      · exact Or.inl rfl
      · exact hst
  · simp only [hlt, if_false] at hst ⊢
    split
    · split
      · simp only
        rcases hst with h | h <;> rw [h] <;> simp
      · exact hst
    · split
      · exact Or.inl rfl
      · exact hst

theorem linkFl_enqueue_ours (D : Dir) (cfg : Cfg) (l : Link Env) (cr : Bool) (dl s d : Nat) (e : Env)
    (ho : (d == D.nb && oursE D e) = true) (hst : l.stateFor s d = .healthy ∨ l.stateFor s d = .hold) :
    linkFl D (l.enqueue cfg false cr dl s d e).1 = linkFl D l + 1 := by
  show linkFl D ((randStep cfg l false cr).1.enqueueRaw dl s d e).1.processDeliverables = _
  rw [linkFl_process, linkFl_enqueueRaw_ours D _ dl s d e ho (stateFor_randStep cfg l cr s d hst), linkFl_randStep]

theorem linkFl_drain (D : Dir) (l : Link Env) (n : Nat) :
    linkFl D (l.drain n).1 + (l.drain n).2.countP (oursS D) = linkFl D l := by
  simp only [linkFl_eq]
  unfold drain
  split
  · simp only [List.countP_nil]; omega
  · split
    · simp only [List.countP_nil]; omega
    · simp only [List.countP_nil]; omega

/-- the controller calls that discard nothing. -/
def Ctl.keeps : Ctl → Bool
  | .partition => false
  | .partitionOneway _ _ => false
  | _ => true

theorem linkFl_ctl_keeps (D : Dir) (c : Ctl) (l : Link Env) (hk : Ctl.keeps c = true) : linkFl D (c.fn l).1 = linkFl D l := by
  have hst : ∀ (st : Status) (s : Sent Env), oursS D { s with status := st } = oursS D s := fun _ _ => rfl
  cases c with
  | partition => cases hk
  | partitionOneway s d => cases hk
  | repair => rfl
  | repairOneway s d =>
    simp only [Ctl.fn]
    unfold repairOneway
    split <;> rfl
  | hold =>
    simp only [linkFl_eq, Ctl.fn]
    unfold Link.hold
    split
    · simp only [holdRaw, recall, List.countP_nil, List.map_append, List.countP_append]
      rw [countP_map_status D _ (hst _), countP_map_status D _ (hst _), countP_map_status D _ (hst _),
        countP_map_status D _ (hst _), countP_map_status D _ (hst _)]
      omega
    · simp only [holdRaw]
      rw [countP_map_status D _ (hst _)]
  | release =>
    simp only [linkFl_eq, Ctl.fn, release]
    rw [countP_map_status D _ (oursS_releaseOne D l.now)]
  | manual i =>
    simp only [linkFl_eq, Ctl.fn, manualDeliver, countP_deliverAt]

/-- a partition never adds a segment. -/
theorem linkFl_ctl_le (D : Dir) (c : Ctl) (l : Link Env) : linkFl D (c.fn l).1 ≤ linkFl D l := by
  by_cases hk : Ctl.keeps c = true
  · exact Nat.le_of_eq (linkFl_ctl_keeps D c l hk)
  · have key : ∀ l' : Link Env, l'.sent.Sublist l.sent → l'.toA.Sublist l.toA → l'.toB.Sublist l.toB →
        linkFl D l' ≤ linkFl D l := by
      intro l' h1 h2 h3
      simp only [linkFl_eq]
      have e1 : l'.sent.countP (oursS D) ≤ l.sent.countP (oursS D) := h1.countP_le
      have e2 : l'.toA.countP (oursS D) ≤ l.toA.countP (oursS D) := h2.countP_le
      have e3 : l'.toB.countP (oursS D) ≤ l.toB.countP (oursS D) := h3.countP_le
      omega
    cases c with
    | partition =>
      obtain ⟨_, _, es, _, _, _, _, sA, sB, _⟩ := Link.explicitPartition_fields l
      show linkFl D l.explicitPartition.1 ≤ _
      exact key _ (by rw [es]; exact List.nil_sublist _) sA sB
    | partitionOneway s d =>
      obtain ⟨_, _, es, _, _, _, _, sA, sB, _⟩ := Link.partitionOneway_fields l s d
      show linkFl D (l.partitionOneway s d).1 ≤ _
      exact key _ (by rw [es]; exact List.filter_sublist) sA sB
    | _ => exact absurd rfl hk

/-! ### the link table -/

theorem sum_map_setAt {α : Type} (g : α → Nat) : ∀ (L : List α) (i : Nat) (f : α → α) (x : α), L[i]? = some x →
    ((setAt L i f).map g).sum + g x = (L.map g).sum + g (f x)
  | [], _, _, _, h => by simp at h
  | y :: ys, 0, f, x, h => by
    simp only [List.getElem?_cons_zero, Option.some.injEq] at h
    subst h
    simp only [setAt, List.map_cons, List.sum_cons]; omega
  | y :: ys, i + 1, f, x, h => by
    simp only [List.getElem?_cons_succ] at h
    have := sum_map_setAt g ys i f x h
    simp only [setAt, List.map_cons, List.sum_cons]; omega

theorem netFl_setLink (D : Dir) (w : World) (links : List (Link Env)) (li : Nat) (l l' : Link Env)
    (hl : links[li]? = some l) (w' : World) (hw : w'.links = setAt links li (fun _ => l')) (h0 : w.links = links) :
    netFl D w' + linkFl D l = netFl D w + linkFl D l' := by
  unfold netFl
  rw [hw, h0]
  exact sum_map_setAt (linkFl D) links li (fun _ => l') l hl

/-! ### `linkEnqueue` writes links, oracle and bookkeeping only -/

theorem fcs_dropEnvs (w : World) (es : List Env) : (w.dropEnvs es).fcs = w.fcs := by
  unfold dropEnvs
  induction es generalizing w with
  | nil => rfl
  | cons e es ih =>
    simp only [List.foldl_cons]
    rw [ih]
    cases e.msg <;> rfl

theorem chans_dropEnvs (w : World) (es : List Env) : (w.dropEnvs es).chans = w.chans := by
  unfold dropEnvs
  induction es generalizing w with
  | nil => rfl
  | cons e es ih =>
    simp only [List.foldl_cons]
    rw [ih]
    cases e.msg <;> rfl

theorem fcs_tag (w : World) (t : String) : (w.tag t).fcs = w.fcs := by unfold tag; split <;> rfl
theorem chans_tag (w : World) (t : String) : (w.tag t).chans = w.chans := by unfold tag; split <;> rfl

theorem fcs_linkEnqueue (w : World) (li s d : Nat) (e : Env) : (w.linkEnqueue li s d e).fcs = w.fcs := by
  unfold linkEnqueue
  split
  · rfl
  · simp only
    rw [fcs_dropEnvs]
    unfold popFail popRepair popDelay
    repeat' split
    all_goals simp only [fcs_tag]

theorem chans_linkEnqueue (w : World) (li s d : Nat) (e : Env) : (w.linkEnqueue li s d e).chans = w.chans := by
  unfold linkEnqueue
  split
  · rfl
  · simp only
    rw [chans_dropEnvs]
    unfold popFail popRepair popDelay
    repeat' split
    all_goals simp only [chans_tag]

theorem popFail_noFail (w : World) (h : C09.NoFailCoin w) : w.popFail.1 = false := by
  unfold popFail
  split
  · next b r heq =>
    cases b with
    | false => rfl
    | true => exact absurd (by rw [heq]; simp) h
  · rfl

theorem pre_linkEnqueue (D : Dir) (w : World) (li s d : Nat) (e : Env) (hp : Pre D w) : Pre0 D (w.linkEnqueue li s d e) := by
  refine ⟨?_, by rw [fcs_linkEnqueue]; exact hp.fIn, by rw [chans_linkEnqueue]; exact hp.cIn⟩
  cases hl : w.links[li]? with
  | none =>
    have : w.linkEnqueue li s d e = w := by unfold linkEnqueue; simp only [hl]
    rw [this]; exact hp.noFail
  | some l =>
    obtain ⟨_, _, _, _, _, hora⟩ := linkEnqueue_spec w li s d e l hl
    exact noFail_suffix hora hp.noFail

/-- the view after `linkEnqueue` differs from the one before at most in the link count. -/
theorem view_linkEnqueue (D : Dir) (w : World) (li s d : Nat) (e : Env) (hn : netFl D (w.linkEnqueue li s d e) = netFl D w) :
    view D (w.linkEnqueue li s d e) = view D w := by
  unfold view loFl World.credits World.chan!
  rw [hn, fcs_linkEnqueue, chans_linkEnqueue, host!_of_hosts (C04.hosts_linkEnqueue w li s d e)]

theorem netFl_linkEnqueue_other (D : Dir) (w : World) (li s d : Nat) (e : Env) (hp : Pre D w)
    (hne : (d == D.nb && oursE D e) = false) : netFl D (w.linkEnqueue li s d e) = netFl D w := by
  cases hl : w.links[li]? with
  | none =>
    have : w.linkEnqueue li s d e = w := by unfold linkEnqueue; simp only [hl]
    rw [this]
  | some l =>
    obtain ⟨cr, dl, hlinks, _⟩ := linkEnqueue_spec w li s d e l hl
    have h1 := netFl_setLink D w w.links li l _ hl _ hlinks rfl
    rw [popFail_noFail w hp.noFail, linkFl_enqueue_other D _ l cr dl s d e hne] at h1
    omega

theorem netFl_linkEnqueue_ours (D : Dir) (w : World) (li s d : Nat) (e : Env) (l : Link Env) (hp : Pre D w)
    (hl : w.links[li]? = some l) (ho : (d == D.nb && oursE D e) = true)
    (hst : l.stateFor s d = .healthy ∨ l.stateFor s d = .hold) :
    netFl D (w.linkEnqueue li s d e) = netFl D w + 1 := by
  obtain ⟨cr, dl, hlinks, _⟩ := linkEnqueue_spec w li s d e l hl
  have h1 := netFl_setLink D w w.links li l _ hl _ hlinks rfl
  rw [popFail_noFail w hp.noFail, linkFl_enqueue_ours D _ l cr dl s d e ho hst] at h1
  omega

theorem q_linkEnqueue_other (D : Dir) (w : World) (li s d : Nat) (e : Env) (hne : (d == D.nb && oursE D e) = false) :
    Q D w (w.linkEnqueue li s d e) := fun hp =>
  ⟨pre_linkEnqueue D w li s d e hp, view_linkEnqueue D w li s d e (netFl_linkEnqueue_other D w li s d e hp hne)⟩

/-! ### `sendLoopback`, `sendMessage`, `netSend` -/

theorem q_sendLoopback_other (D : Dir) (w : World) (h : Nat) (e : Env) (hne : ¬ (h = D.b ∧ oursE D e = true)) :
    Q D w (w.sendLoopback h e) := by
  unfold sendLoopback
  refine Q.tag ?_ _
  refine q_setHost D w h _ (fun hb => ?_) (fun _ => rfl)
  simp only [List.countP_append, List.countP_cons, List.countP_nil]
  have : oursE D e = false := by
    cases ho : oursE D e with
    | false => rfl
    | true => exact absurd ⟨hb, ho⟩ hne
  rw [this]; simp

/-- envelopes that are no data segments of the direction. -/
theorem q_sendMessage_other (D : Dir) (w : World) (e : Env) (hne : oursE D e = false) : Q D w (w.sendMessage e).2 := by
  unfold sendMessage
  split
  · split
    · exact q_dropEnvs D w [e]
    · split
      · exact q_linkEnqueue_other D w _ _ _ e (by rw [hne]; simp)
      · exact q_dropEnvs D w [e]
  · exact q_dropEnvs D w [e]

theorem q_netSend_other (D : Dir) (w : World) (h : Nat) (e : Env) (hne : oursE D e = false) : Q D w (w.netSend h e).2 := by
  unfold netSend
  split
  · exact q_sendLoopback_other D w h e (fun hc => by rw [hne] at hc; exact absurd hc.2 (by simp))
  · exact q_sendMessage_other D w e hne

theorem oursE_fin (D : Dir) (s d : Addr) (q : Nat) : oursE D { src := s, dst := d, msg := .fin q } = false := by
  unfold oursE isDataMsg; simp
theorem oursE_rst (D : Dir) (s d : Addr) : oursE D { src := s, dst := d, msg := .rst } = false := by
  unfold oursE isDataMsg; simp
theorem oursE_syn (D : Dir) (s d : Addr) (id : Nat) : oursE D { src := s, dst := d, msg := .syn id } = false := by
  unfold oursE isDataMsg; simp
theorem oursE_udp (D : Dir) (s d : Addr) (p : Hex) : oursE D { src := s, dst := d, msg := .udp p } = false := by
  unfold oursE isDataMsg; simp

end TV.C02
