import TvCore.Proofs.LinksWorldC03
import TvCore.Proofs.LinksWorldC14
import TvCore.Proofs.LinksWorldIds
/-
  Helper lemmas for `Props/C04Late.lean`, part 2 (one link): where the messages a link holds after an
  operation come from.  Every message on the link after any `GOp` is — up to its delivery status — a
  message that was on it before, or the one message an `enq` creates (`gstep_mem`).  Consequences, for
  every model variant and every operation list: messages travel between the end points (`AllDir`), each
  ready queue only holds messages for its own end point (`QInv`), and a list of operations none of which
  is a send FROM `n` adds no message from `n` (`keeps_grun`).
-/
namespace TV.C04
open TV TV.World TV.LW TV.Link

/-- `x` is on the link (in flight or ready for either end). -/
def OnLink (l : Link Env) (x : Sent Env) : Prop := x ∈ l.sent ∨ x ∈ l.toA ∨ x ∈ l.toB

/-- `x` was on the link, up to its delivery status. -/
def Old (l : Link Env) (x : Sent Env) : Prop := ∃ x0, OnLink l x0 ∧ noStatus x0 = noStatus x

theorem Old.of_on {l : Link Env} {x : Sent Env} (h : OnLink l x) : Old l x := ⟨x, h, rfl⟩

theorem Old.trans {l l1 : Link Env} {x : Sent Env} (h1 : ∀ y, OnLink l1 y → Old l y) (h : Old l1 x) : Old l x := by
  obtain ⟨x1, hx1, e1⟩ := h
  obtain ⟨x0, hx0, e0⟩ := h1 x1 hx1
  exact ⟨x0, hx0, e0.trans e1⟩

theorem noStatus_fields {x y : Sent Env} (h : noStatus x = noStatus y) :
    x.src = y.src ∧ x.dst = y.dst ∧ x.msg = y.msg ∧ x.id = y.id := by
  unfold noStatus at h
  cases x; cases y
  simp only [Sent.mk.injEq] at h
  exact ⟨h.1, h.2.1, h.2.2.2.1, h.2.2.2.2.1⟩

theorem noStatus_setStatus (x : Sent Env) (st : Status) : noStatus { x with status := st } = noStatus x := rfl

/-- the message an operation creates: an `enq` creates one carrying its source, destination and envelope. -/
def IsNew : GOp → Sent Env → Prop
  | .enq _ _ _ s t e, x => x.src = s ∧ x.dst = t ∧ x.msg = e
  | _, _ => False

theorem process_on {l : Link Env} {x : Sent Env} (h : OnLink l.processDeliverables x) : OnLink l x := by
  unfold OnLink at h ⊢
  simp only [processDeliverables, List.mem_append, List.mem_filter] at h
  rcases h with h | h | h
  · exact Or.inl h.1
  · rcases h with h | h
    · exact Or.inr (Or.inl h)
    · exact Or.inl h.1.1
  · rcases h with h | h
    · exact Or.inr (Or.inr h)
    · exact Or.inl h.1.1

theorem randStep_on (cfg : Cfg) (l : Link Env) (cf cr : Bool) {x : Sent Env}
    (h : OnLink (randStep cfg l cf cr).1 x) : Old l x := by
  have hq := randStep_queues cfg l cf cr
  unfold OnLink at h
  rw [hq.1, hq.2.1] at h
  rcases h with h | h | h
  · -- the in-flight queue: filtered, emptied, released or untouched
    have : ∃ x0 ∈ l.sent, noStatus x0 = noStatus x := by
      revert h
      unfold randStep release
      repeat' split
      all_goals intro h
      all_goals first
        | exact ⟨x, (List.mem_filter.mp h).1, rfl⟩
        | exact ⟨x, h, rfl⟩
        | (cases h)
        | (obtain ⟨x0, hx0, rfl⟩ := List.mem_map.mp h; exact ⟨x0, hx0, (noStatus_releaseOne _ _).symm⟩)
    obtain ⟨x0, hx0, e⟩ := this
    exact ⟨x0, Or.inl hx0, e⟩
  · exact Old.of_on (Or.inr (Or.inl h))
  · exact Old.of_on (Or.inr (Or.inr h))

theorem enqueueRaw_on (l : Link Env) (d s t : Nat) (e : Env) {x : Sent Env}
    (h : OnLink (l.enqueueRaw d s t e).1 x) : OnLink l x ∨ (x.src = s ∧ x.dst = t ∧ x.msg = e) := by
  have hq := enqueueRaw_queues l d s t e
  unfold OnLink at h ⊢
  rw [hq.1, hq.2.1] at h
  rcases h with h | h | h
  · revert h
    unfold enqueueRaw
    simp only
    split
    · intro h
      rcases List.mem_append.mp h with h | h
      · exact Or.inl (Or.inl h)
      · simp only [List.mem_singleton] at h; subst h; exact Or.inr ⟨rfl, rfl, rfl⟩
    · intro h
      rcases List.mem_append.mp h with h | h
      · exact Or.inl (Or.inl h)
      · simp only [List.mem_singleton] at h; subst h; exact Or.inr ⟨rfl, rfl, rfl⟩
    · intro h; exact Or.inl (Or.inl h)
  · exact Or.inl (Or.inr (Or.inl h))
  · exact Or.inl (Or.inr (Or.inr h))

theorem drain_on (l : Link Env) (n : Nat) {x : Sent Env} (h : OnLink (l.drain n).1 x) : OnLink l x := by
  unfold OnLink at h ⊢
  revert h
  unfold Link.drain
  split
  · intro h
    rcases h with h | h | h
    · exact Or.inl h
    · cases h
    · exact Or.inr (Or.inr h)
  · split
    · intro h
      rcases h with h | h | h
      · exact Or.inl h
      · exact Or.inr (Or.inl h)
      · cases h
    · exact fun h => h

theorem deliverAt_on (t : Nat) : ∀ (i : Nat) (xs : List (Sent Env)) (x : Sent Env), x ∈ deliverAt t i xs →
    ∃ x0 ∈ xs, noStatus x0 = noStatus x
  | _, [], _, h => by simp [deliverAt] at h
  | 0, y :: ys, x, h => by
    simp only [deliverAt, List.mem_cons] at h
    rcases h with rfl | h
    · exact ⟨y, by simp, rfl⟩
    · exact ⟨x, by simp [h], rfl⟩
  | i + 1, y :: ys, x, h => by
    simp only [deliverAt, List.mem_cons] at h
    rcases h with rfl | h
    · exact ⟨x, by simp, rfl⟩
    · obtain ⟨x0, hx0, e⟩ := deliverAt_on t i ys x h
      exact ⟨x0, by simp [hx0], e⟩

theorem holdRaw_on (l : Link Env) {x : Sent Env} (h : OnLink l.holdRaw x) : Old l x := by
  unfold OnLink holdRaw at h
  simp only at h
  rcases h with h | h | h
  · obtain ⟨x0, hx0, rfl⟩ := List.mem_map.mp h
    exact ⟨x0, Or.inl hx0, rfl⟩
  · exact Old.of_on (Or.inr (Or.inl h))
  · exact Old.of_on (Or.inr (Or.inr h))

theorem recall_on (l : Link Env) {x : Sent Env} (h : OnLink l.recall x) : Old l x := by
  unfold OnLink recall at h
  simp only at h
  rcases h with h | h | h
  · rcases List.mem_append.mp h with h | h
    · obtain ⟨x0, hx0, rfl⟩ := List.mem_map.mp h
      rcases List.mem_append.mp hx0 with hx0 | hx0
      · exact ⟨x0, Or.inr (Or.inl hx0), rfl⟩
      · exact ⟨x0, Or.inr (Or.inr hx0), rfl⟩
    · exact Old.of_on (Or.inl h)
  · cases h
  · cases h

theorem ctl_on (c : Ctl) (l : Link Env) {x : Sent Env} (h : OnLink (c.fn l).1 x) : Old l x := by
  cases c with
  | partition =>
    obtain ⟨_, _, es, _, _, _, _, sA, sB, _⟩ := Link.explicitPartition_fields l
    have h : OnLink l.explicitPartition.1 x := h
    unfold OnLink at h
    rw [es] at h
    rcases h with h | h | h
    · cases h
    · exact Old.of_on (Or.inr (Or.inl (sA.subset h)))
    · exact Old.of_on (Or.inr (Or.inr (sB.subset h)))
  | partitionOneway s d =>
    obtain ⟨_, _, es, _, _, _, _, sA, sB, _⟩ := Link.partitionOneway_fields l s d
    have h : OnLink (l.partitionOneway s d).1 x := h
    unfold OnLink at h
    rw [es] at h
    rcases h with h | h | h
    · exact Old.of_on (Or.inl (List.mem_filter.mp h).1)
    · exact Old.of_on (Or.inr (Or.inl (sA.subset h)))
    · exact Old.of_on (Or.inr (Or.inr (sB.subset h)))
  | repair => exact Old.of_on h
  | repairOneway s d =>
    have h : OnLink (l.repairOneway s d) x := h
    unfold Link.repairOneway at h
    split at h <;> exact Old.of_on h
  | hold =>
    have h : OnLink l.hold x := h
    unfold Link.hold at h
    split at h
    · exact Old.trans (fun y hy => recall_on l hy) (holdRaw_on l.recall h)
    · exact holdRaw_on l h
  | release =>
    have h : OnLink l.release x := h
    unfold OnLink Link.release at h
    simp only at h
    rcases h with h | h | h
    · obtain ⟨x0, hx0, rfl⟩ := List.mem_map.mp h
      exact ⟨x0, Or.inl hx0, (noStatus_releaseOne _ _).symm⟩
    · exact Old.of_on (Or.inr (Or.inl h))
    · exact Old.of_on (Or.inr (Or.inr h))
  | manual i =>
    have h : OnLink (l.manualDeliver i) x := h
    unfold OnLink Link.manualDeliver at h
    simp only at h
    rcases h with h | h | h
    · obtain ⟨x0, hx0, e⟩ := deliverAt_on l.now i l.sent x h
      exact ⟨x0, Or.inl hx0, e⟩
    · exact Old.of_on (Or.inr (Or.inl h))
    · exact Old.of_on (Or.inr (Or.inr h))

/-- **where the messages on a link come from**: after any operation, every message on the link was on
    it before (up to its delivery status) or is the message the `enq` created. -/
theorem gstep_mem (cfg : Cfg) (l : Link Env) (o : GOp) {x : Sent Env} (h : OnLink (gstep cfg l o).1 x) :
    Old l x ∨ IsNew o x := by
  cases o with
  | enq cf cr d s t e =>
    have h : OnLink ((randStep cfg l cf cr).1.enqueueRaw d s t e).1.processDeliverables x := h
    rcases enqueueRaw_on _ d s t e (process_on h) with h1 | h1
    · exact Or.inl (randStep_on cfg l cf cr h1)
    · exact Or.inr h1
  | tick now =>
    have h : OnLink (processDeliverables { l with now := now }) x := h
    have h2 : OnLink ({ l with now := now } : Link Env) x := process_on h
    exact Or.inl (Old.of_on h2)
  | drain n => exact Or.inl (Old.of_on (drain_on l n h))
  | ctl c => exact Or.inl (ctl_on c l h)

/-! ### messages travel between the end points (all variants, all operations) -/

/-- an `enq` is a send between `a` and `b`. -/
def DirOk (a b : Nat) : GOp → Prop
  | .enq _ _ _ s t _ => (s = a ∧ t = b) ∨ (s = b ∧ t = a)
  | _ => True

theorem dir_of_noStatus {a b : Nat} {x y : Sent Env} (e : noStatus x = noStatus y) (h : Dir a b x) : Dir a b y := by
  obtain ⟨e1, e2, _⟩ := noStatus_fields e
  unfold Dir at h ⊢
  rw [← e1, ← e2]; exact h

theorem allDir_gstep (cfg : Cfg) {l : Link Env} (h : AllDir l) (o : GOp) (ho : DirOk l.a l.b o) :
    AllDir (gstep cfg l o).1 := by
  intro x hx
  have hab := gstep_ab cfg l o
  rw [hab.1, hab.2]
  rcases gstep_mem cfg l o hx with ⟨x0, hx0, e⟩ | hn
  · exact dir_of_noStatus e (h x0 hx0)
  · cases o with
    | enq cf cr d s t e =>
      obtain ⟨e1, e2, _⟩ := hn
      unfold Dir
      rw [e1, e2]
      exact ho
    | _ => exact hn.elim

theorem allDir_grun (cfg : Cfg) {l : Link Env} (h : AllDir l) (ops : List GOp) (ho : ∀ o ∈ ops, DirOk l.a l.b o) :
    AllDir (grun cfg l ops).1 := by
  induction ops generalizing l with
  | nil => exact h
  | cons o ops ih =>
    rw [grun_cons]
    have hab := gstep_ab cfg l o
    exact ih (allDir_gstep cfg h o (ho o (by simp))) (fun o' ho' => by rw [hab.1, hab.2]; exact ho o' (by simp [ho']))

theorem isSend_dirOk {a b : Nat} {o : GOp} (h : IsSend a b o) : DirOk a b o := by
  cases o <;> first | exact h | trivial

theorem isReply_dirOk {a b : Nat} {ms : List (Sent Env)} (hms : ∀ x ∈ ms, Dir a b x) {o : GOp} (h : IsReply ms o) :
    DirOk a b o := by
  cases o with
  | enq cf cr d s t e =>
    obtain ⟨x, hx, rfl, rfl, _⟩ := h
    rcases hms x hx with ⟨h1, h2⟩ | ⟨h1, h2⟩
    · exact Or.inr ⟨h2, h1⟩
    · exact Or.inl ⟨h2, h1⟩
  | _ => trivial

/-! ### each ready queue holds messages for its own end point -/

/-- what waits for `a` is addressed to `a`; what waits for `b` is not addressed to `a`. -/
def QInv (l : Link Env) : Prop := (∀ x ∈ l.toA, x.dst = l.a) ∧ (∀ x ∈ l.toB, x.dst ≠ l.a)

theorem qinv_of_sub {l l' : Link Env} (h : QInv l) (ha : l'.a = l.a) (hA : ∀ x ∈ l'.toA, x ∈ l.toA)
    (hB : ∀ x ∈ l'.toB, x ∈ l.toB) : QInv l' :=
  ⟨fun x hx => by rw [ha]; exact h.1 x (hA x hx), fun x hx => by rw [ha]; exact h.2 x (hB x hx)⟩

theorem qinv_process {l : Link Env} (h : QInv l) : QInv l.processDeliverables := by
  refine ⟨fun x hx => ?_, fun x hx => ?_⟩
  · simp only [processDeliverables, List.mem_append, List.mem_filter] at hx
    show x.dst = l.a
    rcases hx with hx | hx
    · exact h.1 x hx
    · simpa using hx.2
  · simp only [processDeliverables, List.mem_append, List.mem_filter] at hx
    show x.dst ≠ l.a
    rcases hx with hx | hx
    · exact h.2 x hx
    · simpa using hx.2

theorem qinv_gstep (cfg : Cfg) {l : Link Env} (h : QInv l) (o : GOp) : QInv (gstep cfg l o).1 := by
  cases o with
  | enq cf cr d s t e =>
    show QInv ((randStep cfg l cf cr).1.enqueueRaw d s t e).1.processDeliverables
    apply qinv_process
    have q1 := randStep_queues cfg l cf cr
    have q2 := enqueueRaw_queues (randStep cfg l cf cr).1 d s t e
    refine qinv_of_sub h ((enqueueRaw_ab _ d s t e).1.trans (randStep_a cfg l cf cr)) ?_ ?_
    · rw [q2.1, q1.1]; exact fun _ hx => hx
    · rw [q2.2.1, q1.2.1]; exact fun _ hx => hx
  | tick now =>
    show QInv (processDeliverables { l with now := now })
    exact qinv_process (l := { l with now := now }) h
  | drain n =>
    show QInv (l.drain n).1
    unfold Link.drain
    split
    · exact ⟨fun _ hx => (by cases hx), h.2⟩
    · split
      · exact ⟨h.1, fun _ hx => (by cases hx)⟩
      · exact h
  | ctl c =>
    have hs := ctl_queues_sub c l
    exact qinv_of_sub h (ctl_ab c l).1 (fun x hx => hs.1.subset hx) (fun x hx => hs.2.subset hx)

theorem qinv_grun (cfg : Cfg) {l : Link Env} (h : QInv l) (ops : List GOp) : QInv (grun cfg l ops).1 := by
  induction ops generalizing l with
  | nil => exact h
  | cons o ops ih => rw [grun_cons]; exact ih (qinv_gstep cfg h o)

/-- under both invariants what the link hands to the end point `n` is addressed to `n`. -/
theorem drain_dst {l : Link Env} (hd : AllDir l) (hq : QInv l) (n : Nat) : ∀ x ∈ (l.drain n).2, x.dst = n := by
  intro x hx
  unfold Link.drain at hx
  split at hx
  · rename_i hn
    have hn : n = l.a := by simpa using hn
    rw [hn]; exact hq.1 x hx
  · split at hx
    · rename_i hn
      have hn : n = l.b := by simpa using hn
      have h1 := hq.2 x hx
      rcases hd x (Or.inr (Or.inr hx)) with ⟨_, h2⟩ | ⟨_, h2⟩
      · rw [hn]; exact h2
      · exact absurd h2 h1
    · cases hx

/-! ### no send from `n`, no new message from `n` -/

/-- the operation is not a send from the end point `n`. -/
def NotFrom (n : Nat) : GOp → Prop
  | .enq _ _ _ s _ _ => s ≠ n
  | _ => True

theorem keeps_gstep (cfg : Cfg) (n : Nat) (l : Link Env) (o : GOp) (ho : NotFrom n o) {x : Sent Env}
    (hx : OnLink (gstep cfg l o).1 x) (hs : x.src = n) : Old l x := by
  rcases gstep_mem cfg l o hx with h | h
  · exact h
  · cases o with
    | enq cf cr d s t e => exact absurd (h.1.symm.trans hs) ho
    | _ => exact h.elim

/-- **a list of operations none of which is a send from `n` puts no new message from `n` on the link**:
    every message from `n` on the link afterwards was on it before (up to its delivery status). -/
theorem keeps_grun (cfg : Cfg) (n : Nat) (l : Link Env) (ops : List GOp) (ho : ∀ o ∈ ops, NotFrom n o) {x : Sent Env}
    (hx : OnLink (grun cfg l ops).1 x) (hs : x.src = n) : Old l x := by
  induction ops generalizing l with
  | nil => exact Old.of_on hx
  | cons o ops ih =>
    rw [grun_cons] at hx
    obtain ⟨x1, hx1, e1⟩ := ih (gstep cfg l o).1 (fun o' ho' => ho o' (by simp [ho'])) hx
    have hs1 : x1.src = n := (noStatus_fields e1).1.trans hs
    obtain ⟨x0, hx0, e0⟩ := keeps_gstep cfg n l o (ho o (by simp)) hx1 hs1
    exact ⟨x0, hx0, e0.trans e1⟩

/-! ### ready queues and message numbers -/

theorem IdsOK.forget {l : Link Env} {H : List (Sent Env)} (h : IdsOK l H) : IdsOK l [] := by
  refine ⟨?_, fun i hi => h.lt i ?_⟩
  · have := (List.nodup_append.mp h.nodup).1
    simpa using this
  · simp only [List.map_nil, List.append_nil] at hi
    exact List.mem_append_left _ hi

/-- a message cannot sit in both ready queues of a link whose message numbers are distinct. -/
theorem not_both_queues {l : Link Env} {x : Sent Env} (hn : (C08.ids l).Nodup) (ha : x ∈ l.toA) (hb : x ∈ l.toB) : False := by
  unfold C08.ids at hn
  rw [List.map_append, List.map_append, List.append_assoc] at hn
  have h2 := (List.nodup_append.mp hn).2.1
  exact (List.nodup_append.mp h2).2.2 x.id (List.mem_map.mpr ⟨x, ha, rfl⟩) x.id (List.mem_map.mpr ⟨x, hb, rfl⟩) rfl

/-- a message waiting for the end point `n` is not in what the link hands to any OTHER end point. -/
theorem drain_other {l : Link Env} {x : Sent Env} {n m : Nat} (hn : (C08.ids l).Nodup) (hq : inQueue l x)
    (hr : Receiver l x n) (hne : m ≠ n) : x ∉ (l.drain m).2 := by
  intro hx
  unfold Link.drain at hx
  unfold inQueue at hq
  unfold Receiver at hr
  split at hx
  · rename_i hma
    have hma : m = l.a := by simpa using hma
    rcases hq with ⟨q1, q2⟩ | ⟨q1, q2⟩
    · rcases hr with ⟨_, r2⟩ | ⟨r1, _⟩
      · exact hne (hma.trans r2.symm)
      · rw [q1] at r1; cases r1
    · exact not_both_queues hn hx q2
  · split at hx
    · rename_i hmb
      have hmb : m = l.b := by simpa using hmb
      rcases hq with ⟨q1, q2⟩ | ⟨q1, q2⟩
      · exact not_both_queues hn q2 hx
      · rcases hr with ⟨r1, _⟩ | ⟨_, r2, _⟩
        · rw [q1] at r1; cases r1
        · exact hne (hmb.trans r2.symm)
    · cases hx

end TV.C04
