import TvCore.Proofs.C05ReachLemmas
/-
  Helper lemmas for `Props/C05Reach.lean`, second part: the host-level calls of `Model/Ops.lean` and
  the transitions of `Model/Step.lean` leave the clock view alone, except for the few that are
  described by `clockPart`.
-/
namespace TV.C05
open TV TV.World

theorem tv_opTcpBind (w : World) (h s : Nat) (a : Addr) : tv (w.opTcpBind h s a).1 = tv w := by
  unfold opTcpBind
  tv_cases
  all_goals tv_auto

theorem tv_udpFanout (h : Nat) (src : Addr) (p : Hex) (loopOk : Addr → Bool) (ds : List Addr) (w : World) :
    tv (udpFanout w h src p loopOk ds).1 = tv w := by
  induction ds generalizing w with
  | nil => rfl
  | cons d ds ih =>
    unfold udpFanout
    split
    · exact (ih _).trans (tv_ite _ (tv_sendLoopback _ _ _) rfl)
    · simp only
      split
      · exact (ih _).trans (tv_sendMessage _ _)
      · exact tv_sendMessage _ _

theorem tv_opUdpSend (w : World) (h s : Nat) (dst : Addr) (p : Hex) : tv (w.opUdpSend h s dst p).1 = tv w := by
  unfold opUdpSend
  simp only
  repeat' split
  all_goals first
    | exact rfl
    | exact (tv_udpFanout _ _ _ _ _ _).trans (tv_tag w _)
    | exact tv_netSend _ _ _

theorem tv_opUdpTryRecv (w : World) (h s n : Nat) : tv (w.opUdpTryRecv h s n).1 = tv w := by
  unfold opUdpTryRecv
  tv_cases
  all_goals tv_auto

theorem tv_opUdpReadable (w : World) (h s : Nat) : tv (w.opUdpReadable h s).1 = tv w := by
  unfold opUdpReadable
  tv_cases
  all_goals tv_auto

theorem tv_opUdpRecv (w : World) (h s n : Nat) : tv (w.opUdpRecv h s n).1 = tv w := by
  unfold opUdpRecv
  simp only
  split
  · exact (tv_opUdpTryRecv _ _ _ _).trans (tv_opUdpReadable _ _ _)
  · exact tv_opUdpReadable _ _ _

theorem tv_opUdpConnect (w : World) (h s : Nat) (dst : Addr) : tv (w.opUdpConnect h s dst).1 = tv w := by
  unfold opUdpConnect
  split <;> tv_auto

theorem tv_opUdpSetBcast (w : World) (h s : Nat) (on : Bool) : tv (w.opUdpSetBcast h s on).1 = tv w := by
  unfold opUdpSetBcast
  split <;> tv_auto

theorem tv_opUdpSetMloop (w : World) (h s : Nat) (on : Bool) : tv (w.opUdpSetMloop h s on).1 = tv w := by
  unfold opUdpSetMloop
  split <;> tv_auto

theorem tv_opUdpJoin (w : World) (h s : Nat) (g iface : Ip) : tv (w.opUdpJoin h s g iface).1 = tv w := by
  unfold opUdpJoin
  repeat' split
  all_goals exact rfl

theorem tv_opUdpLeave (w : World) (h s : Nat) (g iface : Ip) : tv (w.opUdpLeave h s g iface).1 = tv w := by
  unfold opUdpLeave
  simp only
  repeat' split
  all_goals exact rfl

theorem tv_connectPoll (w : World) (h s : Nat) : tv (w.connectPoll h s).1 = tv w := by
  unfold connectPoll
  repeat' split
  all_goals tv_auto

theorem tv_opTcpConnect (w : World) (h s : Nat) (dst : Addr) : tv (w.opTcpConnect h s dst).1 = tv w := by
  unfold opTcpConnect
  tv_cases
  all_goals first
    | (tv_auto; done)
    | (refine Eq.trans (tv_connectPoll _ _ _) ?_; tv_auto; done)

theorem tv_acceptLoop (w : World) (h port : Nat) : tv (w.acceptLoop h port).1 = tv w := by
  unfold acceptLoop
  tv_cases
  all_goals tv_auto

theorem tv_opTcpAccept (w : World) (h ls s : Nat) : tv (w.opTcpAccept h ls s).1 = tv w := by
  unfold opTcpAccept
  tv_cases
  all_goals first
    | (tv_auto; done)
    | (tv_auto; exact tv_acceptLoop _ _ _)

theorem tv_tryWrite (w : World) (h : Nat) (x : WrH) (p : Hex) : tv (w.tryWrite h x p).1 = tv w := by
  unfold tryWrite
  tv_cases
  all_goals tv_auto

theorem tv_opTcpWrite (w : World) (h s : Nat) (p : Hex) (poll : Bool) : tv (w.opTcpWrite h s p poll).1 = tv w := by
  unfold opTcpWrite
  tv_cases
  all_goals first
    | exact rfl
    | exact tv_tryWrite _ _ _ _

theorem tv_opTcpShutdown (w : World) (h s : Nat) : tv (w.opTcpShutdown h s).1 = tv w := by
  unfold opTcpShutdown
  tv_cases
  all_goals tv_auto

theorem tv_redrain (w : World) (h : Nat) (r : RdH) : tv (w.redrain h r) = tv w := by
  unfold redrain
  tv_cases
  all_goals tv_auto

theorem tv_opTcpRead (w : World) (h s n : Nat) (peek : Bool) : tv (w.opTcpRead h s n peek).1 = tv w := by
  unfold opTcpRead
  tv_cases
  all_goals first
    | (tv_auto; done)
    | (refine Eq.trans (tv_redrain _ _ _) ?_; tv_auto; done)

theorem tv_opDrop (w : World) (h s : Nat) : tv (w.opDrop h s).1 = tv w := by
  unfold opDrop
  tv_cases
  all_goals tv_auto

theorem tv_opDropRead (w : World) (h s : Nat) : tv (w.opDropRead h s).1 = tv w := by
  unfold opDropRead
  tv_cases
  all_goals tv_auto

theorem tv_opDropWrite (w : World) (h s : Nat) : tv (w.opDropWrite h s).1 = tv w := by
  unfold opDropWrite
  tv_cases
  all_goals tv_auto

/-! ### controller calls and the transitions of `Model/Step.lean` -/

theorem tv_onLink (w : World) (x y : Nat) (f : Link Env → Link Env × List (Sent Env)) : tv (w.onLink x y f) = tv w := by
  unfold onLink
  tv_cases
  all_goals tv_auto

theorem tv_netCtl (op : NetCtl) (w : World) (x y : Nat) : tv (op.apply w x y) = tv w := by
  cases op <;> exact tv_onLink w x y _

theorem tv_forPairs (w : World) (xs ys : List Nat) (f : World → Nat → Nat → World) (hf : ∀ w x y, tv (f w x y) = tv w) :
    tv (w.forPairs xs ys f) = tv w := by
  unfold forPairs
  refine tv_foldl _ (fun w x => tv_foldl _ (fun w y => ?_) _ _) _ _
  exact tv_ite _ (hf _ _ _) rfl

theorem tv_ctlDeliver (w : World) (x y i : Nat) : tv (w.ctlDeliver x y i) = tv w := tv_onLink w x y _
theorem tv_ctlDeliverAll (w : World) (x y : Nat) : tv (ctlDeliverAll w x y) = tv w := tv_onLink w x y _
theorem tv_stepBegin (w : World) : tv w.stepBegin = tv w := rfl
theorem tv_dnsLookup (w : World) (name : String) : tv (w.dnsLookup name).2 = tv w := rfl

theorem tv_loStep (w : World) (h i : Nat) : tv (loStep w h i).1 = tv w := by
  unfold loStep
  tv_cases
  all_goals tv_auto

/-- a turn start: the clock part is `turnBegin`; delivery and `cur` do not touch the clock view. -/
theorem tv_turnStep (w : World) (h : Nat) : tv (turnStep w h).2 = tv (w.turnBegin h) := by
  unfold turnStep
  simp only
  exact Eq.trans rfl (tv_deliverTo _ h)

/-! ### the clock part of every transition -/

/-- software returned: the flag the end of the step reads. -/
def markExited (hs : Host) : Host := { hs with exited := true }
/-- `Rt::crash`: the software handle is taken. -/
def markCrashed (hs : Host) : Host := { hs with running := false }
/-- `Rt::bounce`: a fresh tokio runtime (its clock starts again) running fresh software; `HostTimer` is not touched. -/
def freshRuntime (hs : Host) : Host :=
  { hs with running := true, exited := false, winStart := 0, hnow := 0, wake := none, t0 := 0 }

/-- the clock part of a host-level call: only `exit` and `sleep` write clock fields. -/
def hopClockPart (w : World) (h : Nat) : HOp → World
  | .exit => w.setHost h markExited
  | .sleep ms => (hopSleep w h ms).1
  | _ => w

/-- the clock part of a transition. -/
def clockPart (w : World) : Step → World
  | .host h op => hopClockPart w h op
  | .register ip c => w.register ip c
  | .stepEnd => w.stepEnd
  | .crash h => w.setHost h markCrashed
  | .bounce h => w.setHost h freshRuntime
  | .turn h => w.turnBegin h
  | _ => w

theorem tv_congr_setHost {w w' : World} (e : tv w' = tv w) (h : Nat) (f g : Host → Host)
    (hfg : ∀ a b, clk a = clk b → clk (f a) = clk (g b)) : tv (w'.setHost h f) = tv (w.setHost h g) := by
  unfold tv setHost at *
  simp only
  have eh : w'.hosts.map clk = w.hosts.map clk := congrArg TView.hosts e
  have ee : w'.elapsed = w.elapsed := congrArg TView.elapsed e
  have ec : w'.cfg = w.cfg := congrArg TView.cfg e
  rw [ee, ec]
  congr 1
  generalize w'.hosts = l' at eh
  generalize w.hosts = l at eh
  induction l' generalizing l h with
  | nil =>
    cases l with
    | nil => rfl
    | cons y ys => simp at eh
  | cons x xs ih =>
    cases l with
    | nil => simp at eh
    | cons y ys =>
      simp only [List.map_cons, List.cons.injEq] at eh
      cases h with
      | zero => simp [setAt, eh.2, hfg x y eh.1]
      | succ k => simp [setAt, eh.1, ih k ys eh.2]

theorem tv_exit (w : World) (h : Nat) :
    tv ((w.dropAll h).setHost h (fun hs => { hs with exited := true })) = tv (w.setHost h markExited) :=
  tv_congr_setHost (tv_dropAll w h) h _ _ (fun a b e => by
    unfold markExited clk at *
    simp only [HClk.mk.injEq] at e ⊢
    simp [e])

theorem tv_applyHOp (w : World) (h : Nat) (op : HOp) : tv (applyHOp w h op).1 = tv (hopClockPart w h op) := by
  cases op with
  | udpBind s a =>
    show tv (if (w.getObj h s).isSome = true then (w, "err slotbusy") else w.opUdpBind h s a).1 = tv w
    split
    · rfl
    · exact tv_opUdpBind w h s a
  | tcpBind s a =>
    show tv (if (w.getObj h s).isSome = true then (w, "err slotbusy") else w.opTcpBind h s a).1 = tv w
    split
    · rfl
    · exact tv_opTcpBind w h s a
  | tcpConnect s a =>
    show tv (if (w.getObj h s).isSome = true then (w, "err slotbusy") else w.opTcpConnect h s a).1 = tv w
    split
    · rfl
    · exact tv_opTcpConnect w h s a
  | tcpAccept ls s =>
    show tv (if (w.getObj h s).isSome = true then (w, "err slotbusy") else w.opTcpAccept h ls s).1 = tv w
    split
    · rfl
    · exact tv_opTcpAccept w h ls s
  | udpSend s a p => exact tv_opUdpSend w h s a p
  | udpTryRecv s n => exact tv_opUdpTryRecv w h s n
  | udpRecv s n => exact tv_opUdpRecv w h s n
  | udpReadable s => exact tv_opUdpReadable w h s
  | udpConnect s a => exact tv_opUdpConnect w h s a
  | udpBcast s on => exact tv_opUdpSetBcast w h s on
  | udpMloop s on => exact tv_opUdpSetMloop w h s on
  | udpJoin s g i => exact tv_opUdpJoin w h s g i
  | udpLeave s g i => exact tv_opUdpLeave w h s g i
  | tcpCPoll s => exact tv_connectPoll w h s
  | tcpWrite s p => exact tv_opTcpWrite w h s p _
  | tcpSplit s => rfl
  | tcpReunite s => rfl
  | tcpPWrite s p => exact tv_opTcpWrite w h s p true
  | tcpShutdown s => exact tv_opTcpShutdown w h s
  | tcpRead s n => exact tv_opTcpRead w h s n false
  | tcpPeek s n => exact tv_opTcpRead w h s n true
  | drop s => exact tv_opDrop w h s
  | tcpDropR s => exact tv_opDropRead w h s
  | tcpDropW s => exact tv_opDropWrite w h s
  | count => rfl
  | countOf a => rfl
  | spawnTicker => rfl
  | select4 => rfl
  | exit => exact tv_exit w h
  | net op a b => exact tv_netCtl op w a b
  | sleep ms =>
    show tv (hopSleep w h ms).1 = tv (hopSleep w h ms).1
    rfl
  | clock => rfl
  | lookup name => exact tv_dnsLookup w name
  | unknown => rfl

theorem tv_crash (w : World) (h : Nat) : tv (w.crash h) = tv (w.setHost h markCrashed) := by
  unfold crash
  refine tv_congr_setHost ?_ h _ _ (fun a b e => ?_)
  · exact tv_ite _ (tv_dropAll w h) rfl
  · unfold markCrashed clk at *
    simp only [HClk.mk.injEq] at e ⊢
    simp [e]

theorem tv_bounce (w : World) (h : Nat) : tv (w.bounce h) = tv (w.setHost h freshRuntime) := by
  unfold bounce
  refine tv_congr_setHost (tv_dropAll w h) h _ _ (fun a b e => ?_)
  unfold freshRuntime clk at *
  simp only [HClk.mk.injEq] at e ⊢
  simp [e]

/-- **every transition acts on the clocks through its clock part only**. -/
theorem tv_applyStep (w : World) (st : Step) : tv (applyStep w st) = tv (clockPart w st) := by
  cases st with
  | host h op => exact tv_applyHOp w h op
  | register ip c => rfl
  | dns name => exact tv_dnsLookup w name
  | stepBegin => exact tv_stepBegin w
  | stepEnd => rfl
  | crash h => exact tv_crash w h
  | bounce h => exact tv_bounce w h
  | link op x y => exact tv_netCtl op w x y
  | linkPairs op xs ys => exact tv_forPairs w xs ys op.apply (fun w x y => tv_netCtl op w x y)
  | deliver x y i => exact tv_ctlDeliver w x y i
  | deliverAll x y => exact tv_ctlDeliverAll w x y
  | turn h => exact tv_turnStep w h
  | loDeliver h i => exact tv_loStep w h i

end TV.C05
