import TvCore.Props.C12
import TvCore.Props.C04Socks
/-
  Helper lemmas for `Props/C12World.lean`: result strings, list utilities, frame facts about the
  world fields touched by `acceptLoop` / `newStream` / `setObj` / `receive` / `tcpUnbind`.
-/
namespace TV.C12
open TV TV.World TV.C04

/-! ### result strings -/

theorem ok_toList (a b : String) :
    (s!"ok {a} {b}").toList = 'o' :: 'k' :: ' ' :: (a.toList ++ ' ' :: b.toList) := by
  show ("ok " ++ a ++ " " ++ b).toList = _
  simp [String.toList_append]

theorem ok_ne_pending (a b : String) : s!"ok {a} {b}" ≠ "pending" := by
  intro h; have := congrArg String.toList h; rw [ok_toList] at this; simp at this
theorem ok_ne_panic (a b : String) : s!"ok {a} {b}" ≠ "panic" := by
  intro h; have := congrArg String.toList h; rw [ok_toList] at this; simp at this
theorem ok_ne_badslot (a b : String) : s!"ok {a} {b}" ≠ "err badslot" := by
  intro h; have := congrArg String.toList h; rw [ok_toList] at this; simp at this
theorem ok_ne_refused (a b : String) : s!"ok {a} {b}" ≠ "err refused" := by
  intro h; have := congrArg String.toList h; rw [ok_toList] at this; simp at this

/-! ### lists -/

theorem setAt_setAt {α : Type} (l : List α) (i : Nat) (f g : α → α) :
    setAt (setAt l i f) i g = setAt l i (fun x => g (f x)) := by
  induction l generalizing i with
  | nil => rfl
  | cons x xs ih => cases i with
    | zero => rfl
    | succ k => simp only [setAt]; rw [ih k]

theorem setAt_id {α : Type} (l : List α) (i : Nat) (f : α → α) (d : α)
    (h : f (l.getD i d) = l.getD i d) (hi : i < l.length) : setAt l i f = l := by
  induction l generalizing i with
  | nil => rfl
  | cons x xs ih => cases i with
    | zero => simp only [setAt]; simp [List.getD] at h; rw [h]
    | succ k =>
      simp only [setAt]
      rw [ih k (by simpa [List.getD] using h) (by simpa using hi)]

theorem find?_of_findIdx? {α : Type} [Inhabited α] (l : List α) (p : α → Bool) (i : Nat)
    (h : l.findIdx? p = some i) : l.find? p = some (l.getD i default) := by
  induction l generalizing i with
  | nil => simp at h
  | cons x xs ih =>
    simp only [List.findIdx?_cons] at h
    by_cases hx : p x = true
    · simp only [hx, if_true, Option.some.injEq] at h
      subst h
      simp [hx]
    · simp only [hx, Bool.false_eq_true, if_false, Option.map_eq_some_iff] at h
      obtain ⟨j, hj, rfl⟩ := h
      have := ih j hj
      simpa [List.find?_cons, hx, List.getD] using this

theorem find?_none_of_findIdx? {α : Type} (l : List α) (p : α → Bool)
    (h : l.findIdx? p = none) : l.find? p = none := by
  rw [List.find?_eq_none]
  intro x hx
  have := List.findIdx?_eq_none_iff.mp h x hx
  simp [this]

theorem findIdx?_lt {α : Type} (l : List α) (p : α → Bool) (i : Nat) (h : l.findIdx? p = some i) :
    i < l.length := (List.findIdx?_eq_some_iff_getElem.mp h).1

/-! ### world frame facts -/

theorem tag_eq (w : World) (t : String) : w.tag t = { w with cov := (w.tag t).cov } := by
  unfold tag; split <;> rfl

theorem host!_of_hosts {w w' : World} (e : w'.hosts = w.hosts) (h : Nat) : w'.host! h = w.host! h := by
  unfold host!; rw [e]

@[simp] theorem host!_tag (w : World) (t : String) (h : Nat) : (w.tag t).host! h = w.host! h :=
  host!_of_hosts (hosts_tag w t) h
@[simp] theorem host!_panic (w : World) (t : String) (h : Nat) : (w.panic t).host! h = w.host! h :=
  host!_of_hosts (hosts_panic w t) h
@[simp] theorem host!_dropSyn (w : World) (id : Nat) (h : Nat) : (w.dropSyn id).host! h = w.host! h := rfl
@[simp] theorem host!_setChan (w : World) (c : Nat) (f : Chan → Chan) (h : Nat) :
    (w.setChan c f).host! h = w.host! h := rfl

theorem host!_setHost_ne (w : World) (h c : Nat) (f : Host → Host) (hc : c ≠ h) :
    (w.setHost h f).host! c = w.host! c := by
  unfold host! setHost
  exact getD_setAt_ne _ _ _ _ _ hc

theorem getObj_of_host {w w' : World} {h : Nat} (e : (w'.host! h).objs = (w.host! h).objs) (s : Nat) :
    w'.getObj h s = w.getObj h s := by
  unfold getObj; rw [e]

theorem host!_default_of_ge (w : World) (h : Nat) (hn : ¬ h < w.hosts.length) : w.host! h = default := by
  unfold host!
  simp only [List.getD_eq_getElem?_getD]
  rw [List.getElem?_eq_none (by omega)]
  rfl

theorem lt_of_bind (w : World) (h port bi : Nat)
    (hb : (w.host! h).tcpBinds.findIdx? (·.port == port) = some bi) : h < w.hosts.length := by
  apply Classical.byContradiction
  intro hn
  have hd : (default : Host).tcpBinds = [] := rfl
  rw [host!_default_of_ge w h hn, hd] at hb
  simp at hb

theorem lt_of_getObj (w : World) (h s : Nat) (o : Obj) (ho : w.getObj h s = some o) : h < w.hosts.length := by
  apply Classical.byContradiction
  intro hn
  have : w.host! h = default := by
    unfold host!
    simp only [List.getD_eq_getElem?_getD]
    rw [List.getElem?_eq_none (by omega)]
    rfl
  have hd : (default : Host).objs = [] := rfl
  unfold getObj at ho
  rw [this, hd] at ho
  simp at ho

@[simp] theorem syns_panic (w : World) (t : String) : (w.panic t).syns = w.syns := by
  unfold World.panic; split <;> rfl
@[simp] theorem syns_setChan (w : World) (c : Nat) (f : Chan → Chan) : (w.setChan c f).syns = w.syns := rfl
@[simp] theorem links_panic (w : World) (t : String) : (w.panic t).links = w.links := by
  unfold World.panic; split <;> rfl
@[simp] theorem links_setHost (w : World) (h : Nat) (f : Host → Host) : (w.setHost h f).links = w.links := rfl
@[simp] theorem links_setChan (w : World) (c : Nat) (f : Chan → Chan) : (w.setChan c f).links = w.links := rfl

/-! ### user objects -/

theorem getObj_setObj_self (w : World) (h s : Nat) (o : Obj) (hh : h < w.hosts.length) :
    (w.setObj h s o).getObj h s = some o := by
  unfold getObj setObj
  rw [host!_setHost_self _ _ _ hh]
  simp only
  rw [List.find?_append]
  have : ((w.host! h).objs.filter (·.1 != s)).find? (·.1 == s) = none := by
    rw [List.find?_eq_none]
    intro x hx
    have := (List.mem_filter.mp hx).2
    simp only [bne_iff_ne, ne_eq] at this
    simp [this]
  rw [this]
  simp

theorem find?_filter_ne {α : Type} (l : List (Nat × α)) (s s' : Nat) (hs : s' ≠ s) :
    (l.filter (·.1 != s)).find? (·.1 == s') = l.find? (·.1 == s') := by
  induction l with
  | nil => rfl
  | cons x xs ih =>
    by_cases hx : x.1 = s
    · have h2 : (s == s') = false := by
        simp only [beq_eq_false_iff_ne, ne_eq]; exact fun e => hs e.symm
      simp only [List.filter_cons, hx, bne_self_eq_false, Bool.false_eq_true, if_false, List.find?_cons, h2]
      exact ih
    · have h1 : (x.1 != s) = true := by simp [hx]
      simp only [List.filter_cons, h1, if_true, List.find?_cons]
      rw [ih]

theorem getObj_setObj_ne_slot (w : World) (h s s' : Nat) (o : Obj) (hs : s' ≠ s) :
    (w.setObj h s o).getObj h s' = w.getObj h s' := by
  unfold getObj setObj
  rw [host!_setHost]
  split
  · simp only
    rw [List.find?_append, find?_filter_ne _ _ _ hs]
    have : [(s, o)].find? (·.1 == s') = none := by
      simp only [List.find?_cons, List.find?_nil]
      have : (s == s') = false := by simp only [beq_eq_false_iff_ne, ne_eq]; exact fun e => hs e.symm
      simp [this]
    rw [this]
    simp
  · rfl

theorem getObj_setObj_ne_host (w : World) (h c s s' : Nat) (o : Obj) (hc : c ≠ h) :
    (w.setObj h s o).getObj c s' = w.getObj c s' := by
  unfold getObj setObj
  rw [host!_setHost_ne _ _ _ _ hc]

theorem getObj_delObj_ne_slot (w : World) (h s s' : Nat) (hs : s' ≠ s) :
    (w.delObj h s).getObj h s' = w.getObj h s' := by
  unfold getObj delObj
  rw [host!_setHost]
  split
  · simp only
    rw [find?_filter_ne _ _ _ hs]
  · rfl

theorem getObj_delObj_ne_host (w : World) (h c s s' : Nat) (hc : c ≠ h) :
    (w.delObj h s).getObj c s' = w.getObj c s' := by
  unfold getObj delObj
  rw [host!_setHost_ne _ _ _ _ hc]

/-! ### the listener's queue and `acceptLoop` -/

/-- the pending-request queue of the listener bound to `port` on host `h` (empty when nothing is
    bound to the port). -/
def pendingQueue (w : World) (h port : Nat) : List SynReq :=
  match (w.host! h).tcpBinds.findIdx? (·.port == port) with
  | some bi => ((w.host! h).tcpBinds.getD bi default).deque
  | none => []

theorem pendingQueue_of_bind (w : World) (h port bi : Nat)
    (hb : (w.host! h).tcpBinds.findIdx? (·.port == port) = some bi) :
    pendingQueue w h port = ((w.host! h).tcpBinds.getD bi default).deque := by
  unfold pendingQueue; rw [hb]

theorem pendingQueue_nobind (w : World) (h port : Nat)
    (hb : (w.host! h).tcpBinds.findIdx? (·.port == port) = none) : pendingQueue w h port = [] := by
  unfold pendingQueue; rw [hb]

theorem bind_of_pendingQueue_ne (w : World) (h port : Nat) (hq : pendingQueue w h port ≠ []) :
    ∃ bi, (w.host! h).tcpBinds.findIdx? (·.port == port) = some bi := by
  unfold pendingQueue at hq
  cases hb : (w.host! h).tcpBinds.findIdx? (·.port == port) with
  | none => simp [hb] at hq
  | some bi => exact ⟨bi, rfl⟩

theorem pendingQueue_after (w X : World) (h port bi : Nat) (rest : List SynReq)
    (hb : (w.host! h).tcpBinds.findIdx? (·.port == port) = some bi)
    (hX : (X.host! h).tcpBinds = setAt (w.host! h).tcpBinds bi (fun b => { b with deque := rest })) :
    pendingQueue X h port = rest := by
  unfold pendingQueue
  rw [hX, findIdx?_setAt (w.host! h).tcpBinds bi (fun b => { b with deque := rest }) (fun x => x.port == port) (fun _ => rfl), hb]
  simp only
  rw [setAt_getD _ _ _ _ (findIdx?_lt _ _ _ hb)]

/-- the request `accept` hands out is the scan of the pending queue. -/
theorem acceptLoop_pick (w : World) (h port : Nat) :
    (acceptLoop w h port).2 = (acceptPick w.synAlive (pendingQueue w h port)).1 := by
  unfold acceptLoop pendingQueue
  cases hb : (w.host! h).tcpBinds.findIdx? (·.port == port) with
  | none => rfl
  | some bi =>
    simp only
    cases hp : acceptPick w.synAlive ((w.host! h).tcpBinds.getD bi default).deque with
    | mk r? rest => cases r? <;> rfl

/-- the world after the scan: the queue is replaced by what the scan left, the one-shot cell of the
    picked request (if any) is answered, nothing else changes (up to coverage tags). -/
theorem acceptLoop_world (w : World) (h port bi : Nat)
    (hb : (w.host! h).tcpBinds.findIdx? (·.port == port) = some bi) :
    ∃ c, (acceptLoop w h port).1 =
      { w with
        hosts := setAt w.hosts h (fun hs => { hs with tcpBinds := setAt hs.tcpBinds bi (fun b =>
          { b with deque := (acceptPick w.synAlive (pendingQueue w h port)).2 }) })
        syns := match (acceptPick w.synAlive (pendingQueue w h port)).1 with
          | some r => setAt w.syns r.id (fun c => { c with st := .acked })
          | none => w.syns
        cov := c } := by
  unfold acceptLoop pendingQueue
  simp only [hb]
  cases hp : acceptPick w.synAlive ((w.host! h).tcpBinds.getD bi default).deque with
  | mk r? rest =>
    cases r? with
    | none =>
      simp only [Option.isSome_none, Bool.false_eq_true, if_false]
      split
      · exact ⟨_, by rw [tag_eq]; rfl⟩
      · exact ⟨_, rfl⟩
    | some r =>
      simp only [Option.isSome_some, if_true]
      split
      · exact ⟨_, by rw [tag_eq]; rfl⟩
      · exact ⟨_, rfl⟩

theorem acceptLoop_nobind (w : World) (h port : Nat)
    (hb : (w.host! h).tcpBinds.findIdx? (·.port == port) = none) :
    acceptLoop w h port = (w.panic "no bind", none) := by
  unfold acceptLoop; simp only [hb]

/-! ### `newStream` and the tail of `opTcpAccept` -/

theorem newStream_world (w : World) (h : Nat) (loc rem : Addr) :
    ∃ p, w.newStream h loc rem = ((w.chans.length, w.fcs.length),
      { w with
        hosts := setAt w.hosts h (fun hs => { hs with socks := hs.socks ++
          [{ loc := loc, rem := rem, chan := w.chans.length, fcW := w.fcs.length }] })
        chans := w.chans ++ [{ cap := w.cfg.tcpCap }]
        fcs := w.fcs ++ [w.cfg.tcpCap, w.cfg.tcpCap]
        panicked := p }) := by
  unfold newStream newChan newFcPair setHost
  simp only
  split
  · unfold World.panic
    split
    · exact ⟨_, rfl⟩
    · exact ⟨_, rfl⟩
  · exact ⟨_, rfl⟩

/-- the local address of the accepted stream, as `TcpListener::accept` computes it from the
    listener's address and the request's origin. -/
def acceptLocal (h : Nat) (lloc origin : Addr) : Addr :=
  let my : Addr := if origin.ip.isLoopback then { lloc with ip := origin.ip } else lloc
  if my.ip.isUnspecified then { my with ip := .host h } else my

/-- the host whose stream table holds the connector's half-open entry. -/
def clientHost (h : Nat) (origin : Addr) : Option Nat :=
  match origin.ip with | .host i => some i | .lo => some h | _ => none

/-- the stream object `accept` hands out. -/
def acceptedObj (my origin : Addr) (chan fc : Nat) : Obj :=
  .stream (some { loc := my, rem := origin, chan := chan, fc := fc })
          (some { loc := my, rem := origin, fc := fc + 1, sid := chan })

/-- `opTcpAccept` after the queue scan has handed out `req` (the model's text with `acceptLocal`,
    `clientHost`, `acceptedObj` folded). -/
def acceptTail (wA : World) (h s : Nat) (lloc : Addr) (req : SynReq) : World × String :=
  let my := acceptLocal h lloc req.src
  if my == req.src then (wA.panic "assert_ne", "panic") else
  let wN := (wA.newStream h my req.src).2
  match clientHost h req.src with
  | none => (wN.panic "client host missing", "panic")
  | some ci =>
    match findSock (wN.host! ci) req.src my with
    | none => (wN.panic "missing stream socket", "panic")
    | some i =>
      (wN.setObj h s (acceptedObj my req.src (wA.newStream h my req.src).1.1 ((wN.host! ci).socks.getD i default).fcW),
       s!"ok {my.toTok} {req.src.toTok}")

theorem opTcpAccept_eq (w : World) (h ls s : Nat) (lloc : Addr)
    (ho : w.getObj h ls = some (.listener lloc)) :
    w.opTcpAccept h ls s =
      match (acceptLoop w h lloc.port).2 with
      | none => ((acceptLoop w h lloc.port).1, "pending")
      | some req => acceptTail (acceptLoop w h lloc.port).1 h s lloc req := by
  unfold opTcpAccept
  simp only [ho]
  cases hacc : acceptLoop w h lloc.port with
  | mk wA r? => cases r? <;> rfl

theorem opTcpAccept_badslot (w : World) (h ls s : Nat)
    (ho : ∀ lloc, w.getObj h ls ≠ some (.listener lloc)) : w.opTcpAccept h ls s = (w, "err badslot") := by
  unfold opTcpAccept
  cases hg : w.getObj h ls with
  | none => rfl
  | some o =>
    cases o with
    | listener lloc => exact absurd hg (ho lloc)
    | udp a b => rfl
    | connecting a b c d e => rfl
    | stream a b => rfl

theorem acceptTail_cases (wA : World) (h s : Nat) (lloc : Addr) (req : SynReq) :
    (acceptTail wA h s lloc req).2 = "panic" ∨
    (acceptTail wA h s lloc req).2 = s!"ok {(acceptLocal h lloc req.src).toTok} {req.src.toTok}" := by
  unfold acceptTail
  simp only
  repeat' split
  all_goals first | exact Or.inl rfl | exact Or.inr rfl

theorem acceptTail_inv (wA : World) (h s : Nat) (lloc : Addr) (req : SynReq)
    (h2 : (acceptTail wA h s lloc req).2 ≠ "panic") :
    ∃ ci i,
      acceptLocal h lloc req.src ≠ req.src ∧
      clientHost h req.src = some ci ∧
      findSock ((wA.newStream h (acceptLocal h lloc req.src) req.src).2.host! ci)
        req.src (acceptLocal h lloc req.src) = some i ∧
      acceptTail wA h s lloc req =
        ((wA.newStream h (acceptLocal h lloc req.src) req.src).2.setObj h s
          (acceptedObj (acceptLocal h lloc req.src) req.src wA.chans.length
            (((wA.newStream h (acceptLocal h lloc req.src) req.src).2.host! ci).socks.getD i default).fcW),
         s!"ok {(acceptLocal h lloc req.src).toTok} {req.src.toTok}") := by
  unfold acceptTail at h2 ⊢
  simp only at h2 ⊢
  by_cases hne : (acceptLocal h lloc req.src == req.src) = true
  · simp [hne] at h2
  · simp only [hne, Bool.false_eq_true, if_false] at h2 ⊢
    cases hc : clientHost h req.src with
    | none => simp [hc] at h2
    | some ci =>
      simp only [hc] at h2 ⊢
      cases hf : findSock ((wA.newStream h (acceptLocal h lloc req.src) req.src).2.host! ci) req.src (acceptLocal h lloc req.src) with
      | none => simp [hf] at h2
      | some i =>
        refine ⟨ci, i, by simpa using hne, rfl, hf, ?_⟩
        obtain ⟨p, hp⟩ := newStream_world wA h (acceptLocal h lloc req.src) req.src
        simp only [hp]

/-- the converse: with distinct addresses, a client host and its half-open entry the tail succeeds. -/
theorem acceptTail_ok (wA : World) (h s : Nat) (lloc : Addr) (req : SynReq) (ci i : Nat)
    (hne : acceptLocal h lloc req.src ≠ req.src) (hc : clientHost h req.src = some ci)
    (hf : findSock ((wA.newStream h (acceptLocal h lloc req.src) req.src).2.host! ci)
        req.src (acceptLocal h lloc req.src) = some i) :
    (acceptTail wA h s lloc req).2 = s!"ok {(acceptLocal h lloc req.src).toTok} {req.src.toTok}" := by
  unfold acceptTail
  have : (acceptLocal h lloc req.src == req.src) = false := by simpa using hne
  simp only [this, Bool.false_eq_true, if_false, hc, hf]

/-- everything `accept` does to the world once it has a request, in one equation. -/
theorem accept_world (w : World) (h port bi : Nat)
    (hb : (w.host! h).tcpBinds.findIdx? (·.port == port) = some bi) (loc rem : Addr) (s : Nat) (o : Obj) :
    ∃ c p, ((acceptLoop w h port).1.newStream h loc rem).2.setObj h s o =
      { w with
        hosts := setAt w.hosts h (fun hs => { hs with
          tcpBinds := setAt hs.tcpBinds bi (fun b => { b with deque := (acceptPick w.synAlive (pendingQueue w h port)).2 })
          socks := hs.socks ++ [{ loc := loc, rem := rem, chan := w.chans.length, fcW := w.fcs.length }]
          objs := hs.objs.filter (·.1 != s) ++ [(s, o)] })
        syns := match (acceptPick w.synAlive (pendingQueue w h port)).1 with
          | some r => setAt w.syns r.id (fun c => { c with st := .acked })
          | none => w.syns
        chans := w.chans ++ [{ cap := w.cfg.tcpCap }]
        fcs := w.fcs ++ [w.cfg.tcpCap, w.cfg.tcpCap]
        panicked := p
        cov := c } := by
  obtain ⟨c, hA⟩ := acceptLoop_world w h port bi hb
  rw [hA]
  obtain ⟨p, hN⟩ := newStream_world { w with
        hosts := setAt w.hosts h (fun hs => { hs with tcpBinds := setAt hs.tcpBinds bi (fun b =>
          { b with deque := (acceptPick w.synAlive (pendingQueue w h port)).2 }) })
        syns := match (acceptPick w.synAlive (pendingQueue w h port)).1 with
          | some r => setAt w.syns r.id (fun c => { c with st := .acked })
          | none => w.syns
        cov := c } h loc rem
  rw [hN]
  unfold setObj setHost
  simp only [setAt_setAt]
  exact ⟨c, p, rfl⟩

/-- … and before the object is stored (the state `flow_control(client_pair)` is looked up in). -/
theorem accept_world_pre (w : World) (h port bi : Nat)
    (hb : (w.host! h).tcpBinds.findIdx? (·.port == port) = some bi) (loc rem : Addr) :
    ((acceptLoop w h port).1.newStream h loc rem).2.hosts =
      setAt w.hosts h (fun hs => { hs with
          tcpBinds := setAt hs.tcpBinds bi (fun b => { b with deque := (acceptPick w.synAlive (pendingQueue w h port)).2 })
          socks := hs.socks ++ [{ loc := loc, rem := rem, chan := w.chans.length, fcW := w.fcs.length }] }) ∧
    (acceptLoop w h port).1.chans = w.chans := by
  obtain ⟨c, hA⟩ := acceptLoop_world w h port bi hb
  rw [hA]
  obtain ⟨p, hN⟩ := newStream_world { w with
        hosts := setAt w.hosts h (fun hs => { hs with tcpBinds := setAt hs.tcpBinds bi (fun b =>
          { b with deque := (acceptPick w.synAlive (pendingQueue w h port)).2 }) })
        syns := match (acceptPick w.synAlive (pendingQueue w h port)).1 with
          | some r => setAt w.syns r.id (fun c => { c with st := .acked })
          | none => w.syns
        cov := c } h loc rem
  rw [hN]
  refine ⟨?_, rfl⟩
  simp only [setAt_setAt]

theorem host!_of_setAt {w w' : World} {h : Nat} {f : Host → Host} (e : w'.hosts = setAt w.hosts h f)
    (hh : h < w.hosts.length) : w'.host! h = f (w.host! h) := by
  unfold host!; rw [e]; exact setAt_getD _ _ _ _ hh

theorem host!_of_setAt_ne {w w' : World} {h c : Nat} {f : Host → Host} (e : w'.hosts = setAt w.hosts h f)
    (hc : c ≠ h) : w'.host! c = w.host! c := by
  unfold host!; rw [e]; exact getD_setAt_ne _ _ _ _ _ hc

theorem others_of_setAt {w w' : World} {h : Nat} {f : Host → Host} (e : w'.hosts = setAt w.hosts h f) :
    others h w' = others h w := by
  unfold others; rw [e]; exact eraseIdx_setAt _ _ _

/-- looking a pair up in a table that got one more entry of a different pair. -/
theorem findIdx?_append_one {α : Type} (l : List α) (x : α) (p : α → Bool) (hx : p x = false) :
    (l ++ [x]).findIdx? p = l.findIdx? p := by
  induction l with
  | nil => simp [List.findIdx?_cons, hx]
  | cons y ys ih =>
    simp only [List.cons_append, List.findIdx?_cons]
    split
    · rfl
    · rw [ih]

theorem getD_append_lt {α : Type} (l m : List α) (i : Nat) (d : α) (hi : i < l.length) :
    (l ++ m).getD i d = l.getD i d := by
  simp only [List.getD_eq_getElem?_getD]
  rw [List.getElem?_append_left hi]

/-! ### receiving a SYN -/

/-- does a listener of this host take a SYN addressed to `dst`?  (a bind on the destination port
    whose bind address accepts the destination: wildcard, or exactly that address) -/
def listenerFor (hs : Host) (dst : Addr) : Bool :=
  match hs.tcpBinds.findIdx? (·.port == dst.port) with
  | none => false
  | some bi => addrMatches (hs.tcpBinds.getD bi default).bindAddr dst

theorem pendingQueue_setAt (w X : World) (h port bi : Nat) (f : TcpBind → TcpBind)
    (hf : ∀ b, (f b).port = b.port)
    (hb : (w.host! h).tcpBinds.findIdx? (·.port == port) = some bi)
    (hX : (X.host! h).tcpBinds = setAt (w.host! h).tcpBinds bi f) :
    pendingQueue X h port = (f ((w.host! h).tcpBinds.getD bi default)).deque := by
  unfold pendingQueue
  rw [hX, findIdx?_setAt (w.host! h).tcpBinds bi f (fun x => x.port == port) (fun b => by simp only [hf]), hb]
  simp only
  rw [setAt_getD _ _ _ _ (findIdx?_lt _ _ _ hb)]

theorem panic_dropSyn (w : World) (m : String) (id : Nat) :
    ∃ p, (w.panic m).dropSyn id = { w.dropSyn id with panicked := p } := by
  unfold World.panic
  split
  · exact ⟨_, rfl⟩
  · exact ⟨_, rfl⟩

/-- a SYN nobody listens for: not queued, no RST envelope is produced (`false`); the SYN object —
    the sender half of the connector's one-shot — is dropped. -/
theorem receive_syn_refused (w : World) (h : Nat) (src dst : Addr) (id : Nat)
    (hno : listenerFor (w.host! h) dst = false) :
    ∃ c p, w.receive h { src := src, dst := dst, msg := .syn id } =
      (false, { w.dropSyn id with cov := c, panicked := p }) := by
  unfold listenerFor at hno
  unfold receive
  simp only
  cases hb : (w.host! h).tcpBinds.findIdx? (·.port == dst.port) with
  | none =>
    simp only
    exact ⟨_, _, by rw [tag_eq]⟩
  | some bi =>
    simp only [hb] at hno
    simp only [hno, Bool.false_eq_true, if_false]
    split
    · obtain ⟨p, hp⟩ := panic_dropSyn w "server socket buffer full" id
      rw [tag_eq, hp]
      exact ⟨_, _, rfl⟩
    · rw [tag_eq]
      exact ⟨_, _, rfl⟩

/-- a SYN somebody listens for: appended to that listener's queue, nothing else happens. -/
theorem receive_syn_queued (w : World) (h : Nat) (src dst : Addr) (id bi : Nat)
    (hb : (w.host! h).tcpBinds.findIdx? (·.port == dst.port) = some bi)
    (hyes : listenerFor (w.host! h) dst = true) :
    ∃ p, w.receive h { src := src, dst := dst, msg := .syn id } =
      (false, { w with
        hosts := setAt w.hosts h (fun hs => { hs with tcpBinds := setAt hs.tcpBinds bi (fun b =>
          { b with deque := b.deque ++ [{ id := id, src := src }] }) })
        panicked := p }) := by
  unfold listenerFor at hyes
  simp only [hb] at hyes
  unfold receive
  simp only [hb, hyes, if_true]
  split
  · unfold World.panic setHost
    split
    · exact ⟨_, rfl⟩
    · exact ⟨_, rfl⟩
  · exact ⟨_, rfl⟩

/-! ### dropping a listener -/

theorem foldl_dropSyn_length (l : List SynReq) (w : World) :
    (l.foldl (fun w s => w.dropSyn s.id) w).syns.length = w.syns.length := by
  induction l generalizing w with
  | nil => rfl
  | cons x xs ih => simp only [List.foldl_cons]; rw [ih, syns_length_dropSyn]

theorem foldl_dropSyn_keeps_dropped (l : List SynReq) (w : World) (id : Nat)
    (hd : (w.syns.getD id default).st = .dropped) :
    ((l.foldl (fun w s => w.dropSyn s.id) w).syns.getD id default).st = .dropped := by
  induction l generalizing w with
  | nil => exact hd
  | cons x xs ih => simp only [List.foldl_cons]; exact ih _ (dropSyn_keeps_dropped w id x.id hd)

/-- every still-pending request of the list is refused … -/
theorem foldl_dropSyn_drops (l : List SynReq) (w : World) (id : Nat) (hid : id < w.syns.length)
    (hp : (w.syns.getD id default).st = .pending) (hmem : ∃ r ∈ l, r.id = id) :
    ((l.foldl (fun w s => w.dropSyn s.id) w).syns.getD id default).st = .dropped := by
  induction l generalizing w with
  | nil => obtain ⟨r, hr, _⟩ := hmem; exact absurd hr (by simp)
  | cons x xs ih =>
    simp only [List.foldl_cons]
    by_cases e : x.id = id
    · rw [e]
      exact foldl_dropSyn_keeps_dropped xs _ id (dropSyn_dropped w id hid hp)
    · apply ih (w.dropSyn x.id)
      · rw [syns_length_dropSyn]; exact hid
      · rw [dropSyn_other w id x.id (fun h => e h.symm)]; exact hp
      · obtain ⟨r, hr, hrid⟩ := hmem
        rcases List.mem_cons.mp hr with h | h
        · subst h; exact absurd hrid e
        · exact ⟨r, h, hrid⟩

/-- … and no other cell is touched. -/
theorem foldl_dropSyn_other (l : List SynReq) (w : World) (id : Nat) (hno : ∀ r ∈ l, r.id ≠ id) :
    (l.foldl (fun w s => w.dropSyn s.id) w).syns.getD id default = w.syns.getD id default := by
  induction l generalizing w with
  | nil => rfl
  | cons x xs ih =>
    simp only [List.foldl_cons]
    rw [ih _ (fun r hr => hno r (List.mem_cons_of_mem _ hr))]
    exact dropSyn_other w id x.id (fun h => hno x (by simp) h.symm)

theorem getObj_setHost_objs (w : World) (h c s : Nat) (f : Host → Host) (hf : ∀ a, (f a).objs = a.objs) :
    (w.setHost h f).getObj c s = w.getObj c s := by
  apply getObj_of_host
  by_cases hc : c = h
  · subst hc
    rw [host!_setHost]
    split
    · exact hf _
    · rfl
  · rw [host!_setHost_ne _ _ _ _ hc]

/-- the world after `opDrop` of a listener whose port is bound. -/
theorem tcpUnbind_world (w : World) (h port bi : Nat)
    (hb : (w.host! h).tcpBinds.findIdx? (·.port == port) = some bi) :
    w.tcpUnbind h port =
      (pendingQueue w h port).foldl (fun w s => w.dropSyn s.id)
        (w.setHost h (fun hs => { hs with tcpBinds := hs.tcpBinds.filter (·.port != port) })) := by
  unfold tcpUnbind
  rw [find?_of_findIdx? _ _ _ hb, pendingQueue_of_bind w h port bi hb]

/-! ### mirrored addresses -/

/-- the local address `accept` computes is the destination the connector used, whenever the SYN
    passed the listener's `matches` check and was routed to this host (by its own address, or over
    loopback with a loopback source — the two forms `TcpStream::connect` produces). -/
theorem acceptLocal_eq_dst (h : Nat) (lloc src dst : Addr) (hb : bindIpOk lloc.ip = true)
    (hm : addrMatches lloc dst = true)
    (hd : (dst.ip = .host h ∧ src.ip.isLoopback = false) ∨ (dst.ip.isLoopback = true ∧ src.ip = dst.ip)) :
    acceptLocal h lloc src = dst := by
  obtain ⟨lip, lport⟩ := lloc
  obtain ⟨dip, dport⟩ := dst
  obtain ⟨sip, sport⟩ := src
  unfold acceptLocal
  unfold addrMatches at hm
  unfold bindIpOk at hb
  simp only at hd hm hb ⊢
  rcases hd with ⟨hd1, hs1⟩ | ⟨hd1, hs1⟩
  · subst hd1
    cases lip <;> simp_all [Ip.isLoopback, Ip.isUnspecified]
  · subst hs1
    have hport : lport = dport := by
      rcases Bool.or_eq_true _ _ ▸ hm with hm | hm
      · exact (of_decide_eq_true (Bool.and_eq_true _ _ ▸ hm).2)
      · exact (Addr.mk.inj (of_decide_eq_true hm)).2
    subst hport
    cases sip <;> simp_all [Ip.isLoopback, Ip.isUnspecified]

/-! ### misc -/

theorem find?_objs_update {α : Type} (l : List (Nat × α)) (s s' : Nat) (o : α) (hs : s' ≠ s) :
    (l.filter (·.1 != s) ++ [(s, o)]).find? (·.1 == s') = l.find? (·.1 == s') := by
  rw [List.find?_append, find?_filter_ne _ _ _ hs]
  have : [(s, o)].find? (·.1 == s') = none := by
    simp only [List.find?_cons, List.find?_nil]
    have : (s == s') = false := by simp only [beq_eq_false_iff_ne, ne_eq]; exact fun e => hs e.symm
    simp [this]
  rw [this]
  simp

theorem getD_of_eraseIdx_eq {α : Type} (l l' : List α) (h c : Nat) (d : α)
    (e : l'.eraseIdx h = l.eraseIdx h) (hc : c ≠ h) : l'.getD c d = l.getD c d := by
  simp only [List.getD_eq_getElem?_getD]
  congr 1
  rcases Nat.lt_or_gt_of_ne hc with hlt | hgt
  · have := congrArg (·[c]?) e
    simpa [List.getElem?_eraseIdx, hlt] using this
  · obtain ⟨j, rfl⟩ : ∃ j, c = j + 1 := ⟨c - 1, by omega⟩
    have := congrArg (·[j]?) e
    have hj : ¬ j < h := by omega
    simpa [List.getElem?_eraseIdx, hj] using this

theorem host!_of_others {w w' : World} {h c : Nat} (e : others h w' = others h w) (hc : c ≠ h) :
    w'.host! c = w.host! c := by
  unfold host!
  exact getD_of_eraseIdx_eq _ _ h c default e hc

/-- a request whose connector no longer waits (gave up, or was already answered / refused) is never
    handed out by any listener's scan. -/
theorem dead_never_accepted (w : World) (id : Nat) (hdead : w.synAlive id = false)
    (h port : Nat) (r : SynReq) (hacc : (acceptLoop w h port).2 = some r) : r.id ≠ id := by
  intro e
  have := accepted_was_waiting w h port r hacc
  rw [e, hdead] at this
  exact Bool.noConfusion this

end TV.C12
