import TvCore.Proofs.C02FlowDeliver
/-
  C02, flow control — the remaining host calls, the controller steps, and the assembly: every `Step`
  satisfying `StepOk` keeps `tot` in a world satisfying `Estab`.
-/
namespace TV.C02
open TV TV.World TV.LW

/-! ### reads, drops, sleep by others -/

theorem q_redrain_other (D : Dir) (w : World) (h : Nat) (r : RdH) (hsc : SockC D w) (hn : NotRd D h r.loc r.rem) :
    Q D w (w.redrain h r) := by
  cases hfx : w.cfg.fixFinRedrain with
  | false => rw [redrain_faithful w h r hfx]; exact Q.refl D w
  | true =>
    cases hf : findSock (w.host! h) r.loc r.rem with
    | none => rw [redrain_nosock w h r hf]; exact Q.refl D w
    | some i =>
      have hpair : (sockAt w h i).loc = r.loc ∧ (sockAt w h i).rem = r.rem := by
        unfold findSock at hf; exact pair_of_findIdx hf
      have hlen : i < (w.host! h).socks.length := findSock_lt hf
      have hmem : sockAt w h i ∈ (w.host! h).socks := by
        unfold sockAt
        rw [List.getD_eq_getElem?_getD, List.getElem?_eq_getElem hlen]
        exact List.getElem_mem hlen
      have hcne : D.c ≠ (sockAt w h i).chan := by
        intro hc
        have := hsc h _ hmem hc.symm
        exact hn ⟨this.1, by rw [← hpair.1]; exact this.2.1, by rw [← hpair.2]; exact this.2.2⟩
      rcases hd : drainBuf (chanOf w h i).cap (chanOf w h i).rxAlive ((sockAt w h i).buf.length + 1)
          (sockAt w h i).buf (sockAt w h i).recvSeq (chanOf w h i).items with ⟨b, rs, items, rst⟩
      rw [redrain_eq w h r i hfx hf b rs items rst hd]
      exact q_setRx_other D w h i _ b rs items hcne
        (fun hb => sockP_false_of_pair hpair.1 hpair.2 (fun hc => hn ⟨hb, hc.1, hc.2⟩))

/-- a read by a read half that is not the direction's. -/
theorem q_opTcpRead_other (D : Dir) (w : World) (h s n : Nat) (peek : Bool) (hsc : SockC D w)
    (ho : ∀ r wr, w.getObj h s = some (.stream (some r) wr) → D.c ≠ r.chan ∧ D.f ≠ r.fc ∧ NotRd D h r.loc r.rem) :
    Q D w (w.opTcpRead h s n peek).1 := by
  cases hobj : w.getObj h s with
  | none => unfold opTcpRead; rw [hobj]; exact Q.refl D w
  | some o =>
    cases o with
    | udp _ _ => unfold opTcpRead; rw [hobj]; exact Q.refl D w
    | listener _ => unfold opTcpRead; rw [hobj]; exact Q.refl D w
    | connecting _ _ _ _ _ => unfold opTcpRead; rw [hobj]; exact Q.refl D w
    | stream rd wr =>
      cases rd with
      | none => unfold opTcpRead; rw [hobj]; exact Q.refl D w
      | some r =>
        obtain ⟨hc, hf, hn⟩ := ho r wr hobj
        by_cases hz : r.closed = true ∨ n = 0
        · rw [opTcpRead_idle w h s n peek r wr hobj hz]; exact Q.refl D w
        · have hcl : r.closed = false := by
            cases hcc : r.closed with
            | false => rfl
            | true => exact absurd (Or.inl hcc) hz
          have hn0 : n ≠ 0 := fun e => hz (Or.inr e)
          cases hst : r.stash with
          | some b =>
            rw [opTcpRead_stash w h s n peek r wr b hobj hcl hn0 hst]
            cases peek
            · exact q_setObj D w _ _ _
            · exact Q.refl D w
          | none =>
            cases hit : (w.chan! r.chan).items with
            | nil =>
              rw [opTcpRead_empty w h s n peek r wr hobj hcl hn0 hst hit]
              split
              · exact Q.refl D w
              · exact q_tag D w _
            | cons seg rest =>
              have hsub : ∀ W, SubT w W → SockC D W := fun W hs => hsc.of_sub hs
              have s0 : SubT w (w.setChan r.chan (fun c => { c with items := rest })) := subT_of_hosts rfl
              cases seg with
              | data b =>
                rw [opTcpRead_data w h s n peek r wr b rest hobj hcl hn0 hst hit]
                simp only
                have q1 : Q D w (popW w r rest) := (q_setChan_ne D w r.chan _ hc).trans (q_fcs_ne D _ r.fc _ hf)
                have s1 : SubT w (popW w r rest) := subT_of_hosts rfl
                have q2 : Q D w ((if hexLen b > n then (popW w r rest).tag "partialread" else popW w r rest).setObj h s
                    (.stream (some { r with stash := if peek then some b else stashAfter b n }) wr)) :=
                  (q1.trans (Q.ite _ (q_tag D _ _) (Q.refl D _))).trans (q_setObj D _ _ _ _)
                have s2 : SubT w ((if hexLen b > n then (popW w r rest).tag "partialread" else popW w r rest).setObj h s
                    (.stream (some { r with stash := if peek then some b else stashAfter b n }) wr)) := by
                  refine SubT.trans (b := if hexLen b > n then (popW w r rest).tag "partialread" else popW w r rest) ?_
                    (subT_setHost _ h _ (fun sk' hs => ⟨sk', hs, rfl⟩))
                  split
                  · exact s1.trans (subT_tag _ _)
                  · exact s1
                exact q2.trans (q_redrain_other D _ h r (hsub _ s2) hn)
              | fin =>
                rw [opTcpRead_fin w h s n peek r wr rest hobj hcl hn0 hst hit]
                simp only
                have q2 : Q D w (((w.setChan r.chan (fun c => { c with items := rest })).setObj h s
                    (.stream (some { r with closed := true }) wr)).tag "eof") :=
                  ((q_setChan_ne D w r.chan _ hc).trans (q_setObj D _ _ _ _)).tag _
                have s2 : SubT w (((w.setChan r.chan (fun c => { c with items := rest })).setObj h s
                    (.stream (some { r with closed := true }) wr)).tag "eof") :=
                  (s0.trans (subT_setHost _ h _ (fun sk' hs => ⟨sk', hs, rfl⟩))).trans (subT_tag _ _)
                exact q2.trans (q_redrain_other D _ h r (hsub _ s2) hn)

theorem q_opDrop (D : Dir) (w : World) (h s : Nat) (hs : ∀ o, w.getObj h s = some o → ObjSafe D h o) :
    Q D w (w.opDrop h s).1 := by
  unfold opDrop
  split
  · next o ho => exact (q_delObj D w h s).trans (q_dropObj D _ _ _ (hs o ho))
  · exact Q.refl D w

theorem q_opDropRead (D : Dir) (w : World) (h s : Nat)
    (hs : ∀ r wr, w.getObj h s = some (.stream (some r) wr) → RdSafe D h r) : Q D w (w.opDropRead h s).1 := by
  unfold opDropRead
  split
  · next r wr ho =>
    simp only
    refine Q.trans ?_ (q_dropRead D _ h r (hs r wr ho))
    cases wr with
    | some _ => exact q_setObj D _ _ _ _
    | none => exact q_delObj D _ _ _
  · exact Q.refl D w

theorem q_opDropWrite (D : Dir) (w : World) (h s : Nat)
    (hs : ∀ rd x, w.getObj h s = some (.stream rd (some x)) → NotRd D h x.loc x.rem) : Q D w (w.opDropWrite h s).1 := by
  unfold opDropWrite
  split
  · next rd x ho =>
    simp only
    refine Q.trans ?_ (q_dropWrite D _ h x (hs rd x ho))
    cases rd with
    | some _ => exact q_setObj D _ _ _ _
    | none => exact q_delObj D _ _ _
  · exact Q.refl D w

theorem lo_setHnow (hs : Host) (W : Nat) (b : Bool) : (({ hs with hnow := W }, b) : Host × Bool).1.lo = hs.lo := rfl
theorem lo_setWake (hs : Host) (W : Option Nat) (b : Bool) : (({ hs with wake := W }, b) : Host × Bool).1.lo = hs.lo := rfl
theorem lo_ite_fst {c : Prop} [Decidable c] {hs : Host} {a b : Host × Bool} (ha : a.1.lo = hs.lo) (hb : b.1.lo = hs.lo) :
    (if c then a else b).1.lo = hs.lo := by split <;> assumption
theorem lo_hostSleep (A : Nat) (hs : Host) (ms : Nat) : (hostSleep A hs ms).1.lo = hs.lo := by
  unfold hostSleep
  exact lo_ite_fst (lo_setHnow _ _ _) (lo_setWake _ _ _)

theorem socks_setHnow (hs : Host) (W : Nat) (b : Bool) : (({ hs with hnow := W }, b) : Host × Bool).1.socks = hs.socks := rfl
theorem socks_setWake (hs : Host) (W : Option Nat) (b : Bool) : (({ hs with wake := W }, b) : Host × Bool).1.socks = hs.socks := rfl
theorem socks_ite_fst {c : Prop} [Decidable c] {hs : Host} {a b : Host × Bool} (ha : a.1.socks = hs.socks) (hb : b.1.socks = hs.socks) :
    (if c then a else b).1.socks = hs.socks := by split <;> assumption
theorem socks_hostSleep (A : Nat) (hs : Host) (ms : Nat) : (hostSleep A hs ms).1.socks = hs.socks := by
  unfold hostSleep
  exact socks_ite_fst (socks_setHnow _ _ _) (socks_setWake _ _ _)

theorem q_setHost_const (D : Dir) (w : World) (h : Nat) (hs' : Host) (hl : hs'.lo = (w.host! h).lo)
    (hk : hs'.socks = (w.host! h).socks) : Q D w (w.setHost h (fun _ => hs')) :=
  q_setHost D w h _ (fun _ => by rw [hl]) (fun _ => by rw [hk])

theorem q_hopSleep (D : Dir) (w : World) (h ms : Nat) : Q D w (hopSleep w h ms).1 := by
  rw [hopSleep, LW.fst_mk']
  exact q_setHost_const D w h _ (lo_hostSleep _ _ _) (socks_hostSleep _ _ _)

/-! ### controller calls on links -/

theorem tot_links_only {D : Dir} {w w' : World} (hf : w'.fcs = w.fcs) (hh : w'.hosts = w.hosts) (hc : w'.chans = w.chans) :
    tot D w' + netFl D w = tot D w + netFl D w' := by
  unfold tot parked skOf loFl queued World.credits World.chan!
  rw [hf, hc, host!_of_hosts hh]
  omega

theorem onLink_fc (w : World) (x y : Nat) (f : Link Env → Link Env × List (Sent Env)) :
    (w.onLink x y f).fcs = w.fcs ∧ (w.onLink x y f).chans = w.chans := by
  unfold onLink
  simp only
  split
  · exact ⟨fcs_panic _ _, chans_panic _ _⟩
  · split
    · exact ⟨rfl, rfl⟩
    · exact ⟨by rw [fcs_dropEnvs], by rw [chans_dropEnvs]⟩

theorem netFl_le_of_links {D : Dir} : ∀ (L : List (Link Env)) (li : Nat) (l l' : Link Env), L[li]? = some l →
    linkFl D l' ≤ linkFl D l → ((setAt L li (fun _ => l')).map (linkFl D)).sum ≤ (L.map (linkFl D)).sum := by
  intro L li l l' hl hle
  have := sum_map_setAt (linkFl D) L li (fun _ => l') l hl
  omega

/-- a function applied to one link that never adds a segment of the direction: the number on links does
    not grow; it stays if the function keeps it. -/
theorem netFl_onLink (D : Dir) (w : World) (x y : Nat) (f : Link Env → Link Env × List (Sent Env))
    (hle : ∀ l, linkFl D (f l).1 ≤ linkFl D l) :
    netFl D (w.onLink x y f) ≤ netFl D w ∧ ((∀ l, linkFl D (f l).1 = linkFl D l) → netFl D (w.onLink x y f) = netFl D w) := by
  unfold onLink
  simp only
  split
  · have : netFl D (w.panic "unable to find link") = netFl D w := by unfold netFl; rw [C03Sets.links_panic]
    rw [this]; exact ⟨Nat.le_refl _, fun _ => rfl⟩
  · next li _ =>
    split
    · exact ⟨Nat.le_refl _, fun _ => rfl⟩
    · next l hl =>
      have e : netFl D (({ w with links := setAt w.links li (fun _ => (f l).1) } : World).dropEnvs
          ((f l).2.map (fun (s : Sent Env) => s.msg))) = ((setAt w.links li (fun _ => (f l).1)).map (linkFl D)).sum := by
        unfold netFl; rw [WorldLinks.links_dropEnvs]
      rw [e]
      have hs := sum_map_setAt (linkFl D) w.links li (fun _ => (f l).1) l hl
      have := hle l
      refine ⟨by unfold netFl; omega, fun hk => ?_⟩
      have := hk l
      unfold netFl; omega

theorem tot_onLink_keeps (D : Dir) (w : World) (x y : Nat) (f : Link Env → Link Env × List (Sent Env))
    (hk : ∀ l, linkFl D (f l).1 = linkFl D l) : tot D (w.onLink x y f) = tot D w := by
  have h1 := tot_links_only (D := D) (onLink_fc w x y f).1 (onLink_spec w x y f).2.2.2.1 (onLink_fc w x y f).2
  have h2 := (netFl_onLink D w x y f (fun l => Nat.le_of_eq (hk l))).2 hk
  omega

theorem tot_onLink_zero (D : Dir) (w : World) (x y : Nat) (f : Link Env → Link Env × List (Sent Env))
    (hle : ∀ l, linkFl D (f l).1 ≤ linkFl D l) (hz : netFl D w = 0) :
    tot D (w.onLink x y f) = tot D w ∧ netFl D (w.onLink x y f) = 0 := by
  have h1 := tot_links_only (D := D) (onLink_fc w x y f).1 (onLink_spec w x y f).2.2.2.1 (onLink_fc w x y f).2
  have h2 := (netFl_onLink D w x y f hle).1
  omega

/-- a link-control call is harmless: it is none of the two partitions, or no data segment of the
    direction is on any link. -/
def CtlOk (D : Dir) (w : World) (op : NetCtl) : Prop :=
  (op ≠ .partition ∧ op ≠ .partitionOneway) ∨ netFl D w = 0

theorem keeps_ctlOf (op : NetCtl) (s d : Nat) (h : op ≠ .partition ∧ op ≠ .partitionOneway) : Ctl.keeps (ctlOf op s d) = true := by
  cases op <;> first | rfl | exact absurd rfl h.1 | exact absurd rfl h.2

theorem tot_netCtl (D : Dir) (w : World) (op : NetCtl) (x y : Nat) (hok : CtlOk D w op) :
    tot D (op.apply w x y) = tot D w ∧ (netFl D w = 0 → netFl D (op.apply w x y) = 0) := by
  rw [netCtl_apply]
  have hle := fun l => linkFl_ctl_le D (ctlOf op (w.host! x).ipnum (w.host! y).ipnum) l
  refine ⟨?_, fun hz => (tot_onLink_zero D w x y _ hle hz).2⟩
  rcases hok with hk | hz
  · exact tot_onLink_keeps D w x y _ (fun l => linkFl_ctl_keeps D _ l (keeps_ctlOf op _ _ hk))
  · exact (tot_onLink_zero D w x y _ hle hz).1

theorem tot_forPairs (D : Dir) (op : NetCtl) : ∀ (ps : List (Nat × Nat)) (w : World), CtlOk D w op →
    tot D (ps.foldl (fun w p => op.apply w p.1 p.2) w) = tot D w
  | [], _, _ => rfl
  | p :: ps, w, hok => by
    simp only [List.foldl_cons]
    have h1 := tot_netCtl D w op p.1 p.2 hok
    have hok' : CtlOk D (op.apply w p.1 p.2) op := by
      rcases hok with hk | hz
      · exact Or.inl hk
      · exact Or.inr (h1.2 hz)
    rw [tot_forPairs D op ps _ hok', h1.1]

theorem linkFl_manualAll (D : Dir) : ∀ (is : List Nat) (l : Link Env),
    linkFl D (is.foldl (fun l i => l.manualDeliver i) l) = linkFl D l
  | [], _ => rfl
  | i :: is, l => by
    simp only [List.foldl_cons]
    rw [linkFl_manualAll D is, show l.manualDeliver i = ((Ctl.manual i).fn l).1 from rfl, linkFl_ctl_keeps D (.manual i) l rfl]

/-! ### the step clock, registration, DNS -/

theorem sum_map_congr {α : Type} (f g : α → Nat) (l : List α) (h : ∀ x, f x = g x) : (l.map f).sum = (l.map g).sum := by
  rw [show f = g from funext h]

theorem tot_stepBegin (D : Dir) (w : World) : tot D w.stepBegin = tot D w := by
  have hn : netFl D w.stepBegin = netFl D w := by
    unfold netFl stepBegin
    simp only [List.map_map]
    exact sum_map_congr _ _ _ (fun l => linkFl_tick D l _)
  have := tot_links_only (D := D) (w := w) (w' := w.stepBegin) rfl rfl rfl
  omega

theorem getD_map_lt {α β : Type} (l : List α) (g : α → β) (i : Nat) (d : α) (d' : β) (h : i < l.length) :
    (l.map g).getD i d' = g (l.getD i d) := by
  rw [List.getD_eq_getElem?_getD, List.getD_eq_getElem?_getD, List.getElem?_map, List.getElem?_eq_getElem h]
  rfl

theorem tot_stepEnd (D : Dir) (w : World) (hp : Pre D w) : tot D w.stepEnd = tot D w := by
  have hb := b_lt_of_pre hp
  have hh : w.stepEnd.host! D.b = hostStepEnd w.cfg.tick (ceilMs w.cfg.tick) (w.host! D.b) := by
    unfold World.host! stepEnd
    exact getD_map_lt _ _ _ _ _ hb
  unfold tot parked skOf loFl
  rw [hh]
  rfl

theorem sum_map_zero {α : Type} (l : List α) (g : α → Nat) (h : ∀ x, g x = 0) : (l.map g).sum = 0 := by
  induction l with
  | nil => rfl
  | cons x xs ih => simp only [List.map_cons, List.sum_cons, h x, ih]

theorem tot_register (D : Dir) (w : World) (ip : Nat) (c : Bool) (hp : Pre D w) : tot D (w.register ip c) = tot D w := by
  have hb := b_lt_of_pre hp
  have hh : (w.register ip c).host! D.b = w.host! D.b := by
    unfold World.host! register
    exact getD_append_lt _ _ _ _ hb
  have hn : netFl D (w.register ip c) = netFl D w := by
    unfold netFl register
    simp only [List.map_append, List.sum_append, List.map_map]
    have : ((w.hosts.map (fun h => ({ a := min h.ipnum ip, b := max h.ipnum ip, now := w.now, fixMatured := w.cfg.link.fixMatured } : Link Env))).map (linkFl D)).sum = 0 := by
      rw [List.map_map]
      exact sum_map_zero _ _ (fun _ => rfl)
    simp only [List.map_map] at this
    omega
  unfold tot parked skOf loFl
  rw [hh, hn]
  rfl

/-! ### the assembly -/

/-- **the direction is established in `w` and shares its identifiers with nothing else**: the standing
    facts (`FInv`: no failure coin left, cell / channel / reader's socket exist, receiver alive, buffer
    sequence numbers distinct, only the reader's socket uses channel `c`), the routing invariant of the links,
    `b`'s ip number is `nb` and no other host has it, and for every socket object any host holds: a write half
    uses cell `f` iff it is a write half of the direction (`Mine`); a read half is the direction's (on `b`,
    channel `c`, cell `f`, pair `rem / loc`) or shares none of these; a pending connect does not use channel
    `c` nor the reader's pair.  (`witness_stale_half_same_pair`, Props/C02Stale.lean: these no-sharing facts are
    NOT an invariant of all reachable worlds — F-C02-2.) -/
structure Estab (D : Dir) (w : World) : Prop where
  inv : FInv D w
  geo : C09.GeoW w
  ipb : (w.host! D.b).ipnum = D.nb
  ipu : ∀ h, h < w.hosts.length → (w.host! h).ipnum = D.nb → h = D.b
  wr : ∀ h, ∀ p ∈ (w.host! h).objs, ∀ rd x, p.2 = .stream rd (some x) →
    (Mine D h x ∧ x.fc = D.f) ∨ (¬ Mine D h x ∧ D.f ≠ x.fc)
  rd : ∀ h, ∀ p ∈ (w.host! h).objs, ∀ r wr, p.2 = .stream (some r) wr →
    (h = D.b ∧ r.chan = D.c ∧ r.fc = D.f ∧ r.loc = D.rem ∧ r.rem = D.loc) ∨ (D.c ≠ r.chan ∧ D.f ≠ r.fc ∧ NotRd D h r.loc r.rem)
  conn : ∀ h, ∀ p ∈ (w.host! h).objs, ∀ id loc rem chan fcW, p.2 = .connecting id loc rem chan fcW →
    D.c ≠ chan ∧ NotRd D h loc rem

theorem mem_of_getObj {w : World} {h s : Nat} {o : Obj} (ho : w.getObj h s = some o) : ∃ p ∈ (w.host! h).objs, p.2 = o := by
  unfold World.getObj at ho
  cases hf : (w.host! h).objs.find? (·.1 == s) with
  | none => rw [hf] at ho; cases ho
  | some p =>
    rw [hf] at ho
    simp only [Option.map_some, Option.some.injEq] at ho
    exact ⟨p, List.mem_of_find?_eq_some hf, ho⟩

/-- what a host call must not do (everything else is allowed). -/
def HopOk (D : Dir) (w : World) (h : Nat) : HOp → Prop
  | .tcpConnect _ dst => ConnSafe D w h dst
  | .tcpWrite s _ => ∀ rd x, w.getObj h s = some (.stream rd (some x)) → Mine D h x →
      (findSock (w.host! h) x.loc x.rem).isSome = true ∧ Route D w h
  | .tcpPWrite s _ => ∀ rd x, w.getObj h s = some (.stream rd (some x)) → Mine D h x →
      (findSock (w.host! h) x.loc x.rem).isSome = true ∧ Route D w h
  | .drop s => ∀ o, w.getObj h s = some o → ObjSafe D h o
  | .tcpDropR s => ∀ r wr, w.getObj h s = some (.stream (some r) wr) → RdSafe D h r
  | .tcpDropW s => ∀ rd x, w.getObj h s = some (.stream rd (some x)) → NotRd D h x.loc x.rem
  | .exit => h ≠ D.b
  | .net op _ _ => CtlOk D w op
  | _ => True

/-- **the steps that keep the balance** — excluded are exactly: a connect from `b` to the writer's address
    that takes the reader's own port; a write of the direction while its route is down (partitioned or
    randomly failed direction, missing link) or its socket is gone; dropping the reader's read half / socket
    (or a half with the reader's address pair on `b`); crash / bounce / exit of `b`; a partition while a data
    segment of the direction is on a link; the turn of a host index that does not exist; the delivery of a
    RST of the direction to `b`. -/
def StepOk (D : Dir) (w : World) : Step → Prop
  | .host h op => HopOk D w h op
  | .crash h => h ≠ D.b
  | .bounce h => h ≠ D.b
  | .link op _ _ => CtlOk D w op
  | .linkPairs op _ _ => CtlOk D w op
  | .turn h => h < w.hosts.length ∧ (h = D.b → ∀ l ∈ w.links, ∀ s ∈ (l.drain (w.host! h).ipnum).2, ¬ dirRst D s.msg)
  | .loDeliver h i => h = D.b → ¬ dirRst D ((w.host! h).lo.getD i default) ∧
      ¬ dirRst D { src := ((w.host! h).lo.getD i default).dst, dst := ((w.host! h).lo.getD i default).src, msg := .rst }
  | _ => True

theorem objSafe_of_estab {D : Dir} {w : World} (he : Estab D w) (h : Nat) (hb : h ≠ D.b) :
    ∀ p ∈ (w.host! h).objs, ObjSafe D h p.2 := by
  intro p hp
  have hnr : ∀ loc rem, NotRd D h loc rem := fun _ _ hc => hb hc.1
  cases ho : p.2 with
  | udp _ _ => trivial
  | listener _ => trivial
  | connecting id loc rem chan fcW => exact ⟨(he.conn h p hp id loc rem chan fcW ho).1, hnr _ _⟩
  | stream rd wr =>
    refine ⟨fun r hr => ?_, fun x _ => hnr _ _⟩
    subst hr
    rcases he.rd h p hp r wr ho with h1 | h1
    · exact absurd h1.1 hb
    · exact ⟨h1.1, hnr _ _⟩

theorem tot_opTcpWrite (D : Dir) (w : World) (h s : Nat) (p : Hex) (poll : Bool) (he : Estab D w)
    (hok : ∀ rd x, w.getObj h s = some (.stream rd (some x)) → Mine D h x →
      (findSock (w.host! h) x.loc x.rem).isSome = true ∧ Route D w h) :
    tot D (w.opTcpWrite h s p poll).1 = tot D w := by
  cases hobj : w.getObj h s with
  | none => unfold opTcpWrite; rw [hobj]
  | some o =>
    cases o with
    | udp _ _ => unfold opTcpWrite; rw [hobj]
    | listener _ => unfold opTcpWrite; rw [hobj]
    | connecting _ _ _ _ _ => unfold opTcpWrite; rw [hobj]
    | stream rd wr =>
      cases wr with
      | none => unfold opTcpWrite; rw [hobj]
      | some x =>
        obtain ⟨pp, hpm, hpe⟩ := mem_of_getObj hobj
        unfold opTcpWrite
        rw [hobj]
        simp only
        split
        · rfl
        · rcases he.wr h pp hpm rd x hpe with hm | hm
          · obtain ⟨hs, hr⟩ := hok rd x hobj hm.1
            exact (tot_tryWrite_mine D w h x p he.inv.pre hm.1 hm.2 hs hr).1
          · exact tot_q (q_tryWrite D w h x p hm.2 hm.1) he.inv.pre

theorem tot_opTcpRead (D : Dir) (w : World) (h s n : Nat) (peek : Bool) (he : Estab D w) :
    tot D (w.opTcpRead h s n peek).1 = tot D w := by
  by_cases hmine : ∃ r wr, w.getObj h s = some (.stream (some r) wr) ∧
      (h = D.b ∧ r.chan = D.c ∧ r.fc = D.f ∧ r.loc = D.rem ∧ r.rem = D.loc)
  · obtain ⟨r, wr, hobj, hb, h1, h2, h3, h4⟩ := hmine
    subst hb
    exact (tot_opTcpRead_mine D w s n peek r wr he.inv.pre he.inv.rd hobj h1 h2 h3 h4).1
  · refine tot_q (q_opTcpRead_other D w h s n peek he.inv.sc ?_) he.inv.pre
    intro r wr hobj
    obtain ⟨pp, hpm, hpe⟩ := mem_of_getObj hobj
    rcases he.rd h pp hpm r wr hpe with h1 | h1
    · exact absurd ⟨r, wr, hobj, h1⟩ hmine
    · exact h1

/-- **every host call satisfying `HopOk` keeps `tot`.** -/
theorem hop_keeps_tot (D : Dir) (w : World) (h : Nat) (op : HOp) (he : Estab D w) (hok : HopOk D w h op) :
    tot D (applyHOp w h op).1 = tot D w := by
  have hp := he.inv.pre
  have Qt : ∀ {W : World}, Q D w W → tot D W = tot D w := fun q => tot_q q hp
  cases op with
  | udpBind s a =>
    show tot D (if (w.getObj h s).isSome = true then (w, "err slotbusy") else w.opUdpBind h s a).1 = _
    split
    · rfl
    · exact Qt (q_opUdpBind D w h s a)
  | tcpBind s a =>
    show tot D (if (w.getObj h s).isSome = true then (w, "err slotbusy") else w.opTcpBind h s a).1 = _
    split
    · rfl
    · exact Qt (q_opTcpBind D w h s a)
  | tcpConnect s a =>
    show tot D (if (w.getObj h s).isSome = true then (w, "err slotbusy") else w.opTcpConnect h s a).1 = _
    split
    · rfl
    · exact Qt (q_opTcpConnect D w h s a hok)
  | tcpAccept ls s =>
    show tot D (if (w.getObj h s).isSome = true then (w, "err slotbusy") else w.opTcpAccept h ls s).1 = _
    split
    · rfl
    · exact Qt (q_opTcpAccept D w h ls s)
  | udpSend s a p => exact Qt (q_opUdpSend D w h s a p)
  | udpTryRecv s n => exact Qt (q_opUdpTryRecv D w h s n)
  | udpRecv s n => exact Qt (q_opUdpRecv D w h s n)
  | udpReadable s => exact Qt (q_opUdpReadable D w h s)
  | udpConnect s a => exact Qt (q_opUdpConnect D w h s a)
  | udpBcast s on => exact Qt (q_opUdpSetBcast D w h s on)
  | udpMloop s on => exact Qt (q_opUdpSetMloop D w h s on)
  | udpJoin s g i => exact Qt (q_opUdpJoin D w h s g i)
  | udpLeave s g i => exact Qt (q_opUdpLeave D w h s g i)
  | tcpCPoll s =>
    refine Qt (q_connectPoll D w h s ?_)
    intro id loc rem chan fcW ho
    obtain ⟨pp, hpm, hpe⟩ := mem_of_getObj ho
    exact he.conn h pp hpm id loc rem chan fcW hpe
  | tcpWrite s p => exact tot_opTcpWrite D w h s p _ he hok
  | tcpSplit s => rfl
  | tcpReunite s => rfl
  | tcpPWrite s p => exact tot_opTcpWrite D w h s p true he hok
  | tcpShutdown s => exact Qt (q_opTcpShutdown D w h s)
  | tcpRead s n => exact tot_opTcpRead D w h s n false he
  | tcpPeek s n => exact tot_opTcpRead D w h s n true he
  | drop s => exact Qt (q_opDrop D w h s hok)
  | tcpDropR s => exact Qt (q_opDropRead D w h s hok)
  | tcpDropW s => exact Qt (q_opDropWrite D w h s hok)
  | count => rfl
  | countOf a => rfl
  | spawnTicker => rfl
  | select4 => rfl
  | exit =>
    exact Qt ((q_dropAll D w h hok (objSafe_of_estab he h hok)).trans (q_setHost_eq D _ h _ (by intro; rfl) (by intro; rfl)))
  | net c a b => exact (tot_netCtl D w c a b hok).1
  | sleep ms =>
    show tot D (hopSleep w h ms).1 = _
    exact Qt (q_hopSleep D w h ms)
  | clock => rfl
  | lookup name => exact Qt (q_world rfl rfl rfl rfl rfl)
  | unknown => rfl

/-- **every step satisfying `StepOk` keeps `tot`** in a world in which the direction is established, provided
    no panic is recorded afterwards. -/
theorem step_keeps_tot (D : Dir) (w : World) (st : Step) (he : Estab D w) (hok : StepOk D w st)
    (hnp : (applyStep w st).panicked = none) : tot D (applyStep w st) = tot D w := by
  have hp := he.inv.pre
  cases st with
  | host h op => exact hop_keeps_tot D w h op he hok
  | register ip c => exact tot_register D w ip c hp
  | dns name => exact tot_q (q_world rfl rfl rfl rfl rfl) hp
  | stepBegin => exact tot_stepBegin D w
  | stepEnd => exact tot_stepEnd D w hp
  | crash h =>
    refine tot_q ?_ hp
    show Q D w (w.crash h)
    unfold crash
    exact (Q.ite _ (q_dropAll D w h hok (objSafe_of_estab he h hok)) (Q.refl D w)).trans
      (q_setHost_eq D _ h _ (by intro; rfl) (by intro; rfl))
  | bounce h =>
    refine tot_q ?_ hp
    show Q D w (w.bounce h)
    unfold bounce
    exact (q_dropAll D w h hok (objSafe_of_estab he h hok)).trans (q_setHost_eq D _ h _ (by intro; rfl) (by intro; rfl))
  | link op x y => exact (tot_netCtl D w op x y hok).1
  | linkPairs op xs ys =>
    show tot D (w.forPairs xs ys op.apply) = _
    rw [forPairs_eq]
    exact tot_forPairs D op _ w hok
  | deliver x y i =>
    show tot D (w.ctlDeliver x y i) = _
    rw [ctlDeliver_eq]
    exact tot_onLink_keeps D w x y _ (fun l => linkFl_ctl_keeps D (.manual i) l rfl)
  | deliverAll x y =>
    show tot D (ctlDeliverAll w x y) = _
    unfold ctlDeliverAll
    exact tot_onLink_keeps D w x y _ (fun l => linkFl_manualAll D _ l)
  | turn h =>
    have hnb : h = D.b ↔ (w.host! h).ipnum = D.nb := ⟨fun e => by rw [e]; exact he.ipb, fun e => he.ipu h hok.1 e⟩
    exact (turnStep_step D w h he.inv he.geo hok.1 hnb hnp hok.2).1
  | loDeliver h i => exact (loStep_step D w h i he.inv hnp hok).1

end TV.C02
