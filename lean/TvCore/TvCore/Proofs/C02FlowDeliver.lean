import TvCore.Proofs.C02FlowInv
/-
  C02, flow control — a host's turn (`deliverTo` folded over its links) and a loopback delivery keep `tot`.
-/
namespace TV.C02
open TV TV.World TV.LW

/-- 1 when host `h` being handed `e` is the reader being handed a data segment of the direction. -/
def ind (D : Dir) (h : Nat) (e : Env) : Nat := if h = D.b ∧ oursE D e = true then 1 else 0

theorem meta_nopanic {w w' : World} (m : C04.Meta w w') (h : w'.panicked = none) : w.panicked = none :=
  noPanic_of_meta m h

theorem meta_replyStep (h lj : Nat) (W : World) (s : Sent Env) : C04.Meta W (replyStep h lj W s) := by
  unfold replyStep
  split
  · exact (C04.frs_receive W h s.msg).1.trans (C04.frs_linkEnqueue _ _ _ _ _).1
  · exact (C04.frs_receive W h s.msg).1

theorem meta_replies (h lj : Nat) (msgs : List (Sent Env)) (W : World) : C04.Meta W (msgs.foldl (replyStep h lj) W) := by
  induction msgs generalizing W with
  | nil => exact C04.Meta.refl W
  | cons s ms ih => exact (meta_replyStep h lj W s).trans (ih _)

theorem replyStep_step (D : Dir) (h lj : Nat) (W : World) (s : Sent Env) (hI : FInv D W)
    (hnp : (replyStep h lj W s).panicked = none) (hrst : h = D.b → ¬ dirRst D s.msg) :
    tot D (replyStep h lj W s) = tot D W + ind D h s.msg ∧ FInv D (replyStep h lj W s) := by
  unfold replyStep at hnp ⊢
  split
  · next hr =>
    rw [if_pos hr] at hnp
    have hnp1 := meta_nopanic (C04.frs_linkEnqueue _ _ _ _ _).1 hnp
    obtain ⟨t, i⟩ := recv_step D W h s.msg hI hnp1 hrst
    have q := q_linkEnqueue_other D (W.receive h s.msg).2 lj s.dst s.src (rstOf s) (by rw [show oursE D (rstOf s) = false from oursE_rst D _ _]; simp)
    exact ⟨by rw [tot_q q i.pre, t]; rfl, i.of_q q (subT_of_hosts (C04.hosts_linkEnqueue _ _ _ _ _))⟩
  · next hr =>
    rw [if_neg hr] at hnp
    obtain ⟨t, i⟩ := recv_step D W h s.msg hI hnp hrst
    exact ⟨t, i⟩

theorem replies_fold (D : Dir) (h lj : Nat) : ∀ (msgs : List (Sent Env)) (W : World), FInv D W →
    (msgs.foldl (replyStep h lj) W).panicked = none → (∀ s ∈ msgs, h = D.b → ¬ dirRst D s.msg) →
    tot D (msgs.foldl (replyStep h lj) W) = tot D W + (msgs.map (fun s => ind D h s.msg)).sum ∧
    FInv D (msgs.foldl (replyStep h lj) W)
  | [], W, hI, _, _ => ⟨rfl, hI⟩
  | s :: ms, W, hI, hnp, hrst => by
    simp only [List.foldl_cons] at hnp ⊢
    have hnp1 := meta_nopanic (meta_replies h lj ms (replyStep h lj W s)) hnp
    obtain ⟨t1, i1⟩ := replyStep_step D h lj W s hI hnp1 (hrst s (by simp))
    obtain ⟨t2, i2⟩ := replies_fold D h lj ms _ i1 hnp (fun x hx => hrst x (by simp [hx]))
    refine ⟨?_, i2⟩
    rw [t2, t1]
    simp only [List.map_cons, List.sum_cons]
    omega

theorem drain_dst {l : Link Env} (hg : C09.Geo l) (n : Nat) : ∀ s ∈ (l.drain n).2, s.dst = n := by
  intro s hs
  unfold Link.drain at hs
  split at hs
  · next e => rw [hg.fileA s hs]; exact (by simpa using e : n = l.a).symm
  · split at hs
    · next e => rw [hg.fileB s hs]; exact (by simpa using e : n = l.b).symm
    · cases hs

theorem sum_ind_eq (D : Dir) (h n : Nat) (hnb : h = D.b ↔ n = D.nb) : ∀ (msgs : List (Sent Env)), (∀ s ∈ msgs, s.dst = n) →
    (msgs.map (fun s => ind D h s.msg)).sum = msgs.countP (oursS D)
  | [], _ => rfl
  | s :: ms, hd => by
    have ih := sum_ind_eq D h n hnb ms (fun x hx => hd x (by simp [hx]))
    simp only [List.map_cons, List.sum_cons, List.countP_cons, ih]
    have hs : s.dst = n := hd s (by simp)
    unfold ind oursS
    rw [hs]
    by_cases hb : h = D.b
    · have : (n == D.nb) = true := by simpa using hnb.mp hb
      rw [this]
      simp only [hb, true_and, Bool.true_and]
      omega
    · have : (n == D.nb) = false := by simpa using fun e => hb (hnb.mpr e)
      rw [this]
      simp [hb]

theorem meta_setLinks (W : World) (links : List (Link Env)) : C04.Meta W { W with links := links } := ⟨rfl, fun h => h⟩

theorem meta_dIter (h n : Nat) (out : List Env) (W : World) (lj : Nat) : C04.Meta W (dIter h n (out, W) lj).2 := by
  unfold dIter
  cases W.links[lj]? with
  | none => exact C04.Meta.refl W
  | some l => exact (meta_setLinks W _).trans (meta_replies h lj _ _)

theorem meta_outer (h n : Nat) : ∀ (idxs : List Nat) (out : List Env) (W : World),
    C04.Meta W (idxs.foldl (dIter h n) (out, W)).2
  | [], _, W => C04.Meta.refl W
  | j :: rest, out, W => by
    simp only [List.foldl_cons]
    have := meta_outer h n rest (dIter h n (out, W) j).1 (dIter h n (out, W) j).2
    exact (meta_dIter h n out W j).trans this

/-- one link's `deliver_messages` at host `h` (ip number `n`). -/
theorem dIter_step (D : Dir) (h n : Nat) (hnb : h = D.b ↔ n = D.nb) (out : List Env) (W : World) (lj : Nat) (hI : FInv D W)
    (hnp : (dIter h n (out, W) lj).2.panicked = none)
    (hl : ∀ l, W.links[lj]? = some l → C09.Geo l ∧ ∀ s ∈ (l.drain n).2, h = D.b → ¬ dirRst D s.msg) :
    tot D (dIter h n (out, W) lj).2 = tot D W ∧ FInv D (dIter h n (out, W) lj).2 := by
  unfold dIter at hnp ⊢
  cases hlk : W.links[lj]? with
  | none => simp only [hlk] at hnp ⊢; exact ⟨trivial, hI⟩
  | some l =>
    simp only [hlk] at hnp ⊢
    obtain ⟨hg, hr⟩ := hl l hlk
    have hnet := netFl_setLink D W W.links lj l (l.drain n).1 hlk { W with links := setAt W.links lj (fun _ => (l.drain n).1) } rfl rfl
    have hdr := linkFl_drain D l n
    have hI1 : FInv D ({ W with links := setAt W.links lj (fun _ => (l.drain n).1) } : World) := ⟨hI.pre, hI.rd, hI.sc⟩
    have t1 : tot D ({ W with links := setAt W.links lj (fun _ => (l.drain n).1) } : World) + (l.drain n).2.countP (oursS D) = tot D W := by
      unfold tot
      show W.credits D.f + netFl D ({ W with links := setAt W.links lj (fun _ => (l.drain n).1) } : World) + loFl D W + parked D W +
        queued D W + _ = W.credits D.f + netFl D W + loFl D W + parked D W + queued D W
      omega
    obtain ⟨t2, i2⟩ := replies_fold D h lj (l.drain n).2 _ hI1 hnp hr
    refine ⟨?_, i2⟩
    rw [t2, sum_ind_eq D h n hnb _ (drain_dst hg n)]
    exact t1

theorem outer_step (D : Dir) (h n : Nat) (hnb : h = D.b ↔ n = D.nb) : ∀ (idxs : List Nat), idxs.Nodup → ∀ (out : List Env) (W : World),
    FInv D W → (idxs.foldl (dIter h n) (out, W)).2.panicked = none →
    (∀ j ∈ idxs, ∀ l, W.links[j]? = some l → C09.Geo l ∧ ∀ s ∈ (l.drain n).2, h = D.b → ¬ dirRst D s.msg) →
    tot D (idxs.foldl (dIter h n) (out, W)).2 = tot D W ∧ FInv D (idxs.foldl (dIter h n) (out, W)).2
  | [], _, _, W, hI, _, _ => ⟨rfl, hI⟩
  | j :: rest, hnd, out, W, hI, hnp, hl => by
    simp only [List.foldl_cons] at hnp ⊢
    have hj : j ∉ rest := (List.nodup_cons.mp hnd).1
    have hnp1 : (dIter h n (out, W) j).2.panicked = none :=
      meta_nopanic (meta_outer h n rest (dIter h n (out, W) j).1 (dIter h n (out, W) j).2) hnp
    obtain ⟨t1, i1⟩ := dIter_step D h n hnb out W j hI hnp1 (hl j (by simp))
    have hother := (dIter_spec h n out W j).2.1
    obtain ⟨t2, i2⟩ := outer_step D h n hnb rest (List.nodup_cons.mp hnd).2 (dIter h n (out, W) j).1 (dIter h n (out, W) j).2 i1 hnp
      (fun k hk l hlk => hl k (by simp [hk]) l (by rw [← hother k (fun e => hj (e ▸ hk))]; exact hlk))
    exact ⟨t2.trans t1, i2⟩

/-- **`Topology::deliver_messages` for host `h`** keeps `tot` and the invariant: every data segment of the
    direction the links hand to `b` moves from "on a link" to "buffer + channel".  Needs the routing
    invariant `GeoW`, `h`'s ip number to be `nb` exactly when `h = b`, no RST of the direction among what is
    handed to `b`, no panic recorded afterwards. -/
theorem deliverTo_step (D : Dir) (w : World) (h : Nat) (hI : FInv D w) (hg : C09.GeoW w)
    (hnb : h = D.b ↔ (w.host! h).ipnum = D.nb) (hnp : (w.deliverTo h).2.panicked = none)
    (hrst : h = D.b → ∀ l ∈ w.links, ∀ s ∈ (l.drain (w.host! h).ipnum).2, ¬ dirRst D s.msg) :
    tot D (w.deliverTo h).2 = tot D w ∧ FInv D (w.deliverTo h).2 := by
  rw [deliverTo_eq] at hnp ⊢
  refine outer_step D h _ hnb _ (adjIdx_nodup w _) [] w hI hnp ?_
  intro j _ l hl
  exact ⟨hg j l hl, fun s hs hb => hrst hb l (List.mem_of_getElem? hl) s hs⟩

theorem lo_hostTurnBegin (A : Nat) (hs : Host) : (hostTurnBegin A hs).lo = hs.lo ∧ (hostTurnBegin A hs).socks = hs.socks ∧
    (hostTurnBegin A hs).ipnum = hs.ipnum := by
  unfold hostTurnBegin
  simp only
  repeat' split
  all_goals exact ⟨rfl, rfl, rfl⟩

/-- **a host's turn begins** (`turnStep`). -/
theorem turnStep_step (D : Dir) (w : World) (h : Nat) (hI : FInv D w) (hg : C09.GeoW w) (hh : h < w.hosts.length)
    (hnb : h = D.b ↔ (w.host! h).ipnum = D.nb) (hnp : (turnStep w h).2.panicked = none)
    (hrst : h = D.b → ∀ l ∈ w.links, ∀ s ∈ (l.drain (w.host! h).ipnum).2, ¬ dirRst D s.msg) :
    tot D (turnStep w h).2 = tot D w ∧ FInv D (turnStep w h).2 := by
  have q0 : Q D w (w.turnBegin h) :=
    q_setHost_eq D w h _ (fun hs => (lo_hostTurnBegin _ hs).1) (fun hs => (lo_hostTurnBegin _ hs).2.1)
  have hsub0 : SubT w (w.turnBegin h) :=
    subT_setHost w h _ (fun sk' hs => ⟨sk', by rw [(lo_hostTurnBegin _ _).2.1] at hs; exact hs, rfl⟩)
  have hI0 := hI.of_q q0 hsub0
  have hip : ((w.turnBegin h).host! h).ipnum = (w.host! h).ipnum := by
    unfold turnBegin
    rw [C04.host!_setHost_self w h _ hh]
    exact (lo_hostTurnBegin _ _).2.2
  have hnp' : ((w.turnBegin h).deliverTo h).2.panicked = none := hnp
  obtain ⟨t, i⟩ := deliverTo_step D (w.turnBegin h) h hI0 hg (by rw [hip]; exact hnb) hnp'
    (fun hb l hl s hs => hrst hb l hl s (by rw [← hip]; exact hs))
  have q2 : Q D ((w.turnBegin h).deliverTo h).2 (turnStep w h).2 := q_of_eq rfl rfl rfl rfl rfl
  have hs2 : SubT ((w.turnBegin h).deliverTo h).2 (turnStep w h).2 := subT_of_hosts rfl
  exact ⟨by rw [tot_q q2 i.pre, t, tot_q q0 hI.pre], i.of_q q2 hs2⟩

/-! ### a loopback delivery -/

theorem countP_eraseIdx {α : Type} (p : α → Bool) (d : α) : ∀ (l : List α) (i : Nat), i < l.length →
    (l.eraseIdx i).countP p + (if p (l.getD i d) then 1 else 0) = l.countP p
  | [], _, h => by simp at h
  | x :: xs, 0, _ => by
    simp only [List.eraseIdx_cons_zero, List.getD_cons_zero, List.countP_cons]
  | x :: xs, i + 1, h => by
    have := countP_eraseIdx p d xs i (by simpa using h)
    simp only [List.eraseIdx_cons_succ, List.getD_cons_succ, List.countP_cons]
    omega

/-- **`loStep`**: the `i`-th loopback envelope of host `h` is delivered (and a refused segment answered with a
    RST that is delivered at once). -/
theorem loStep_step (D : Dir) (w : World) (h i : Nat) (hI : FInv D w) (hnp : (loStep w h i).1.panicked = none)
    (hrst : h = D.b → ¬ dirRst D ((w.host! h).lo.getD i default) ∧
      ¬ dirRst D { src := ((w.host! h).lo.getD i default).dst, dst := ((w.host! h).lo.getD i default).src, msg := .rst }) :
    tot D (loStep w h i).1 = tot D w ∧ FInv D (loStep w h i).1 := by
  have hbl := b_lt_of_pre hI.pre
  -- the queue loses the envelope
  have hsk1 : h = D.b → skv D ((fun hs : Host => { hs with lo := hs.lo.eraseIdx i }) (w.host! h)).socks = skv D (w.host! h).socks :=
    fun _ => rfl
  have hI1 : FInv D (w.setHost h (fun hs => { hs with lo := hs.lo.eraseIdx i })) := by
    refine ⟨⟨hI.pre.1, ?_⟩, ?_, hI.sc.of_sub (subT_setHost w h _ (fun sk' hs => ⟨sk', hs, rfl⟩))⟩
    · rw [C04.host!_setHost_eq]; split
      · next hc => obtain ⟨hb, _⟩ := hc; rw [← hb]; exact hI.pre.2
      · exact hI.pre.2
    · refine ⟨hI.rd.1, ?_⟩
      rw [C04.host!_setHost_eq]; split
      · next hc => obtain ⟨hb, _⟩ := hc; rw [← hb]; exact hI.rd.2
      · exact hI.rd.2
  have t1 : tot D (w.setHost h (fun hs => { hs with lo := hs.lo.eraseIdx i })) + ind D h ((w.host! h).lo.getD i default) = tot D w := by
    have ep : parked D (w.setHost h (fun hs => { hs with lo := hs.lo.eraseIdx i })) = parked D w := by
      have eh : ((w.setHost h (fun hs => { hs with lo := hs.lo.eraseIdx i })).host! D.b).socks = (w.host! D.b).socks := by
        rw [C04.host!_setHost_eq]; split
        · next hc => obtain ⟨hb, _⟩ := hc; rw [hb]
        · rfl
      rw [parked_eq, parked_eq, eh]
    unfold tot
    rw [ep]
    show w.credits D.f + netFl D w + loFl D (w.setHost h (fun hs => { hs with lo := hs.lo.eraseIdx i })) + parked D w + queued D w + _ = _
    unfold loFl ind
    rw [C04.host!_setHost_eq]
    by_cases hb : h = D.b
    · subst hb
      simp only [hbl, and_self, if_true, true_and]
      by_cases hi : i < (w.host! D.b).lo.length
      · have := countP_eraseIdx (oursE D) default (w.host! D.b).lo i hi
        omega
      · have e1 : (w.host! D.b).lo.eraseIdx i = (w.host! D.b).lo := List.eraseIdx_of_length_le (by omega)
        have e2 : (w.host! D.b).lo.getD i default = default := by
          rw [List.getD_eq_getElem?_getD, List.getElem?_eq_none (by omega)]; rfl
        rw [e1, e2]
        have : oursE D (default : Env) = false := by
          have hm : (default : Env).msg = Msg.udp default := rfl
          unfold oursE
          rw [hm]
          simp [isDataMsg]
        rw [this]; simp
    · have hne : ¬ (D.b = h ∧ h < w.hosts.length) := fun hc => hb hc.1.symm
      rw [if_neg hne]
      simp [hb]
  unfold loStep at hnp ⊢
  simp only at hnp ⊢
  split
  · next hr =>
    rw [if_pos hr] at hnp
    have hnp1 := meta_nopanic (C04.frs_receive _ h _).1 hnp
    obtain ⟨t2, i2⟩ := recv_step D _ h ((w.host! h).lo.getD i default) hI1 hnp1 (fun hb => (hrst hb).1)
    obtain ⟨t3, i3⟩ := recv_step D _ h { src := ((w.host! h).lo.getD i default).dst, dst := ((w.host! h).lo.getD i default).src, msg := .rst }
      i2 hnp (fun hb => (hrst hb).2)
    refine ⟨?_, i3⟩
    rw [t3, t2]
    have : oursE D { src := ((w.host! h).lo.getD i default).dst, dst := ((w.host! h).lo.getD i default).src, msg := .rst } = false :=
      oursE_rst D _ _
    rw [this]
    unfold ind at t1
    simp only [Bool.false_eq_true, and_false, if_false, Nat.add_zero]
    exact t1
  · next hr =>
    rw [if_neg hr] at hnp
    obtain ⟨t2, i2⟩ := recv_step D _ h ((w.host! h).lo.getD i default) hI1 hnp (fun hb => (hrst hb).1)
    refine ⟨?_, i2⟩
    rw [t2]
    unfold ind at t1
    exact t1

end TV.C02
