import TvCore.Proofs.C02FlowCore
/-
  C02, flow control — a write by the direction's write half takes one credit and puts one data segment in
  flight; a read by its read half takes one data segment off the channel and returns one credit.
-/
namespace TV.C02
open TV TV.World

theorem tot_tag (D : Dir) (w : World) (t : String) : tot D (w.tag t) = tot D w := by
  unfold World.tag; split <;> rfl

theorem pre_tag {D : Dir} {w : World} (t : String) (hp : Pre D w) : Pre D (w.tag t) := (q_tag D w t).pre hp

/-- one credit is taken. -/
theorem tot_fcs_dec (D : Dir) (w : World) (hp : Pre D w) (hc : w.credits D.f ≠ 0) :
    tot D { w with fcs := setAt w.fcs D.f (· - 1) } + 1 = tot D w := by
  have e : ({ w with fcs := setAt w.fcs D.f (· - 1) } : World).credits D.f = w.credits D.f - 1 := by
    unfold World.credits
    exact setAt_getD _ _ _ _ hp.fIn
  unfold tot
  rw [e]
  show w.credits D.f - 1 + netFl D w + loFl D w + parked D w + queued D w + 1 = _
  omega

theorem pre_fcs (D : Dir) (w : World) (k : Nat) (g : Nat → Nat) (hp : Pre D w) : Pre D { w with fcs := setAt w.fcs k g } :=
  ⟨⟨hp.noFail, by show D.f < (setAt w.fcs k g).length; rw [setAt_length]; exact hp.fIn, hp.cIn⟩, hp.2⟩

/-- a data segment of the direction put on the loopback queue of host `b`. -/
theorem tot_sendLoopback_ours (D : Dir) (w : World) (e : Env) (hp : Pre D w) (ho : oursE D e = true) :
    tot D (w.sendLoopback D.b e) = tot D w + 1 ∧ Pre D (w.sendLoopback D.b e) := by
  have hlt := b_lt_of_pre hp
  unfold sendLoopback
  have hh : (w.setHost D.b (fun hs => { hs with lo := hs.lo ++ [e] })).host! D.b = { w.host! D.b with lo := (w.host! D.b).lo ++ [e] } :=
    C04.host!_setHost_self w D.b _ hlt
  have hpre : Pre D (w.setHost D.b (fun hs => { hs with lo := hs.lo ++ [e] })) :=
    ⟨hp.1, by rw [hh]; exact hp.2⟩
  refine ⟨?_, pre_tag _ hpre⟩
  rw [tot_tag]
  have e1 : parked D (w.setHost D.b (fun hs => { hs with lo := hs.lo ++ [e] })) = parked D w := by
    rw [parked_eq, parked_eq, hh]
  have e2 : loFl D (w.setHost D.b (fun hs => { hs with lo := hs.lo ++ [e] })) = loFl D w + 1 := by
    unfold loFl
    rw [hh]
    simp only [List.countP_append, List.countP_cons, List.countP_nil, ho, if_true]
  unfold tot
  rw [e1, e2]
  show w.credits D.f + netFl D w + (loFl D w + 1) + parked D w + queued D w = _
  omega

/-- a data segment of the direction put on a link whose direction is healthy or held. -/
theorem tot_linkEnqueue_ours (D : Dir) (w : World) (li s : Nat) (e : Env) (l : Link Env) (hp : Pre D w)
    (hl : w.links[li]? = some l) (ho : oursE D e = true)
    (hst : l.stateFor s D.nb = .healthy ∨ l.stateFor s D.nb = .hold) :
    tot D (w.linkEnqueue li s D.nb e) = tot D w + 1 ∧ Pre D (w.linkEnqueue li s D.nb e) := by
  have hn := netFl_linkEnqueue_ours D w li s D.nb e l hp hl (by rw [ho]; simp) hst
  have hh := host!_of_hosts (C04.hosts_linkEnqueue w li s D.nb e)
  refine ⟨?_, pre_linkEnqueue D w li s D.nb e hp, by rw [hh]; exact hp.2⟩
  unfold tot parked skOf loFl queued World.credits World.chan!
  rw [hn, fcs_linkEnqueue, chans_linkEnqueue, hh]
  omega

/-- **the route of the direction is up**: same-host streams use the loopback queue of host `b`; otherwise
    both addresses resolve (the reader's to `nb`), a link joins them and its direction towards `nb` is
    healthy or held (not partitioned, not randomly failed). -/
def Route (D : Dir) (w : World) (h : Nat) : Prop :=
  (isSame D.loc D.rem = true ∧ h = D.b) ∨
  (isSame D.loc D.rem = false ∧ ∃ s li l, w.ipnumOf D.loc.ip = some s ∧ w.ipnumOf D.rem.ip = some D.nb ∧ s ≠ D.nb ∧
    w.findLink s D.nb = some li ∧ w.links[li]? = some l ∧ (l.stateFor s D.nb = .healthy ∨ l.stateFor s D.nb = .hold))

theorem tot_netSend_ours (D : Dir) (w : World) (h : Nat) (e : Env) (hp : Pre D w) (ho : oursE D e = true)
    (hr : Route D w h) : tot D (w.netSend h e).2 = tot D w + 1 ∧ Pre D (w.netSend h e).2 ∧ (w.netSend h e).1 = true := by
  have hsd : e.src = D.loc ∧ e.dst = D.rem := by
    unfold oursE at ho
    simp only [Bool.and_eq_true, beq_iff_eq] at ho
    exact ⟨ho.1.1, ho.1.2⟩
  unfold netSend
  rw [hsd.1, hsd.2]
  rcases hr with ⟨hs, hb⟩ | ⟨hs, s, li, l, h1, h2, h3, h4, h5, h6⟩
  · subst hb
    simp only [hs, if_true]
    have := tot_sendLoopback_ours D w e hp ho
    exact ⟨this.1, this.2, trivial⟩
  · simp only [hs, Bool.false_eq_true, if_false]
    unfold sendMessage
    rw [hsd.1, hsd.2, h1, h2]
    simp only
    have hne : (s == D.nb) = false := by simpa using h3
    simp only [hne, Bool.false_eq_true, if_false, h4]
    have := tot_linkEnqueue_ours D w li s e l hp h5 ho h6
    exact ⟨this.1, this.2, trivial⟩

theorem ipnumOf_setHost (w : World) (h : Nat) (g : Host → Host) (hg : ∀ hs, (g hs).ipnum = hs.ipnum) (ip : Ip) :
    (w.setHost h g).ipnumOf ip = w.ipnumOf ip :=
  C09.ipnumOf_of_nums (C09.map_setAt_at _ _ _ _ default (hg _)) ip

theorem route_frame {D : Dir} {w w' : World} {h : Nat} (hl : w'.links = w.links)
    (hi : ∀ ip, w'.ipnumOf ip = w.ipnumOf ip) (hr : Route D w h) : Route D w' h := by
  rcases hr with hr | ⟨hs, s, li, l, h1, h2, h3, h4, h5, h6⟩
  · exact Or.inl hr
  · refine Or.inr ⟨hs, s, li, l, by rw [hi]; exact h1, by rw [hi]; exact h2, h3, ?_, by rw [hl]; exact h5, h6⟩
    unfold World.findLink at h4 ⊢
    rw [hl]; exact h4

/-- **a write by the direction's write half** (non-empty buffer or not, credits or not): the balance is
    kept — a credit is taken exactly when a data segment is put in flight. -/
theorem tot_tryWrite_mine (D : Dir) (w : World) (h : Nat) (x : WrH) (p : Hex) (hp : Pre D w)
    (hm : Mine D h x) (hfc : x.fc = D.f) (hsock : (findSock (w.host! h) x.loc x.rem).isSome = true)
    (hr : Route D w h) :
    tot D (w.tryWrite h x p).1 = tot D w ∧ Pre D (w.tryWrite h x p).1 := by
  by_cases hlen : hexLen p = 0
  · rw [(tryWrite_nosend w h x p).1 hlen]; exact ⟨rfl, hp⟩
  · cases hsd : x.shutdown with
    | true => rw [(tryWrite_nosend w h x p).2.1 hlen hsd]; exact ⟨rfl, hp⟩
    | false =>
      by_cases hc : w.credits x.fc = 0
      · rw [(tryWrite_nosend w h x p).2.2.1 hlen hsd hc (Or.inr hsock)]
        exact ⟨tot_tag D w _, pre_tag _ hp⟩
      · obtain ⟨i, hi⟩ := Option.isSome_iff_exists.mp hsock
        have hh : h < w.hosts.length := by
          apply Classical.byContradiction
          intro hge
          have : w.host! h = default := by
            unfold World.host!
            rw [List.getD_eq_getElem?_getD, List.getElem?_eq_none (by omega)]; rfl
          rw [this] at hi
          cases hi
        have hn := (tryWrite_numbers w h x p i hh hlen hsd hc hi).1
        rw [hn]
        simp only
        rw [hfc] at hc ⊢
        have hp1 := pre_fcs D w D.f (· - 1) hp
        have t1 := tot_fcs_dec D w hp hc
        have q2 : Q D ({ w with fcs := setAt w.fcs D.f (· - 1) } : World)
            (({ w with fcs := setAt w.fcs D.f (· - 1) } : World).setHost h (bumpSeq i)) :=
          q_bump D ({ w with fcs := setAt w.fcs D.f (· - 1) } : World) h i
        have hp2 := q2.pre hp1
        have t2 := tot_q q2 hp1
        have hr1 : Route D ({ w with fcs := setAt w.fcs D.f (· - 1) } : World) h :=
          route_frame (w := w) rfl (fun _ => rfl) hr
        have hr2 : Route D (({ w with fcs := setAt w.fcs D.f (· - 1) } : World).setHost h (bumpSeq i)) h :=
          route_frame (w := ({ w with fcs := setAt w.fcs D.f (· - 1) } : World)) rfl
            (fun ip => ipnumOf_setHost ({ w with fcs := setAt w.fcs D.f (· - 1) } : World) h (bumpSeq i)
              (fun _ => rfl) ip) hr1
        have ho : oursE D { src := x.loc, dst := x.rem, msg := .data (sockAt w h i).nextSendSeq p } = true := by
          unfold oursE isDataMsg
          simp [hm.1, hm.2.1]
        have t3 := tot_netSend_ours D (({ w with fcs := setAt w.fcs D.f (· - 1) } : World).setHost h (bumpSeq i)) h
          { src := x.loc, dst := x.rem, msg := .data (sockAt w h i).nextSendSeq p } hp2 ho hr2
        refine ⟨?_, t3.2.1⟩
        rw [t3.1]
        omega

/-- **backpressure**: a write half without credits sends nothing; the world is unchanged but for the
    coverage tag (`try_write` reports `WouldBlock`, `poll_write` is pending). -/
theorem tryWrite_nocredit (w : World) (h : Nat) (x : WrH) (p : Hex) (hlen : hexLen p ≠ 0) (hs : x.shutdown = false)
    (hc : w.credits x.fc = 0) (hsock : (findSock (w.host! h) x.loc x.rem).isSome = true) :
    w.tryWrite h x p = (w.tag "nocredit", "err wouldblock") ∧
    (∃ cov, w.tag "nocredit" = { w with cov := cov }) := by
  refine ⟨(tryWrite_nosend w h x p).2.2.1 hlen hs hc (Or.inr hsock), ?_⟩
  unfold World.tag
  split
  · exact ⟨w.cov, rfl⟩
  · exact ⟨_, rfl⟩

/-! ### a read by the direction's read half -/

/-- the drain on the reader's socket (the repair `fixFinRedrain`) keeps `tot`. -/
theorem tot_redrain_ours (D : Dir) (w : World) (r : RdH) (hp : Pre D w) (hr : RdOk D w)
    (hloc : r.loc = D.rem) (hrem : r.rem = D.loc) :
    tot D (w.redrain D.b r) = tot D w ∧ Pre D (w.redrain D.b r) ∧ RdOk D (w.redrain D.b r) := by
  cases hfx : w.cfg.fixFinRedrain with
  | false => rw [redrain_faithful w D.b r hfx]; exact ⟨rfl, hp, hr⟩
  | true =>
    obtain ⟨i, hi⟩ := idx_of_pre hp
    have hsk := skv_found hi
    have hch : (sockAt w D.b i).chan = D.c := (hr.2 _ hsk).1
    have hnd : ((sockAt w D.b i).buf.map (·.1)).Nodup := (hr.2 _ hsk).2
    have hf : findSock (w.host! D.b) r.loc r.rem = some i := by
      unfold findSock; rw [hloc, hrem]; exact hi
    have hco : chanOf w D.b i = w.chan! D.c := by unfold chanOf; rw [hch]
    rcases hd : drainBuf (chanOf w D.b i).cap (chanOf w D.b i).rxAlive ((sockAt w D.b i).buf.length + 1)
        (sockAt w D.b i).buf (sockAt w D.b i).recvSeq (chanOf w D.b i).items with ⟨b, rs, items, rst⟩
    rw [redrain_eq w D.b r i hfx hf b rs items rst hd, hch]
    rw [hco, hr.1] at hd
    have key := tot_setRx_drain D w i hp hi hch ((sockAt w D.b i).buf.length + 1) (sockAt w D.b i).buf
      (sockAt w D.b i).recvSeq (w.chan! D.c).items hnd
    rw [hd] at key
    simp only at key
    have hview := view_setRx_ours D w i b rs items hp hi hch
    have hcons := (drainBuf_conserves (w.chan! D.c).cap ((sockAt w D.b i).buf.length + 1) (sockAt w D.b i).buf
      (sockAt w D.b i).recvSeq (w.chan! D.c).items hnd).2
    rw [hd] at hcons
    unfold view at hview
    simp only [Prod.mk.injEq] at hview
    obtain ⟨_, _, _, h4, _, _, h7⟩ := hview
    refine ⟨by rw [key, tot_found hi], ⟨⟨hp.noFail, hp.fIn, ?_⟩, by rw [h4]; rfl⟩, ⟨by rw [h7]; exact hr.1, ?_⟩⟩
    · show D.c < (setRx w D.b i D.c b rs items).chans.length
      rw [chans_setRx_length]; exact hp.cIn
    · intro v hv
      rw [h4] at hv
      cases hv
      exact ⟨rfl, hcons⟩

end TV.C02
