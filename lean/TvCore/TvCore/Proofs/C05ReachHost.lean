import TvCore.Proofs.C05ReachOps
/-
  Helper lemmas for `Props/C05Reach.lean`, third part: what one transition does to the clock record
  of one registered host (`HStep`), and the host-level arithmetic (grid, window, observed time).
-/
namespace TV.C05
open TV TV.World

/-! ### reading a clock view -/

theorem clk_elapsed {a b : Host} (e : clk b = clk a) : b.elapsed = a.elapsed := congrArg HClk.elapsed e
theorem clk_startOffset {a b : Host} (e : clk b = clk a) : b.startOffset = a.startOffset := congrArg HClk.startOffset e
theorem clk_winStart {a b : Host} (e : clk b = clk a) : b.winStart = a.winStart := congrArg HClk.winStart e
theorem clk_hnow {a b : Host} (e : clk b = clk a) : b.hnow = a.hnow := congrArg HClk.hnow e
theorem clk_wake {a b : Host} (e : clk b = clk a) : b.wake = a.wake := congrArg HClk.wake e
theorem clk_running {a b : Host} (e : clk b = clk a) : b.running = a.running := congrArg HClk.running e
theorem clk_exited {a b : Host} (e : clk b = clk a) : b.exited = a.exited := congrArg HClk.exited e

theorem elapsedNow_congr {a b : Host} (e : clk b = clk a) : elapsedNow b = elapsedNow a := by
  unfold elapsedNow; rw [clk_elapsed e, clk_hnow e, clk_winStart e]
theorem simNow_congr {a b : Host} (e : clk b = clk a) : simNow b = simNow a := by
  unfold simNow; rw [elapsedNow_congr e, clk_startOffset e]
theorem epochNow_congr {a b : Host} (e : clk b = clk a) (epoch : Nat) : epochNow epoch b = epochNow epoch a := by
  unfold epochNow; rw [simNow_congr e]
theorem inWindow_congr {a b : Host} (e : clk b = clk a) (A : Nat) : InWindow A b ↔ InWindow A a := by
  unfold InWindow; rw [clk_hnow e, clk_winStart e]

theorem len_of_tv {w w' : World} (e : tv w' = tv w) : w'.hosts.length = w.hosts.length := by
  have := congrArg (fun v => v.hosts.length) e
  simpa [tv] using this
theorem elapsed_of_tv {w w' : World} (e : tv w' = tv w) : w'.elapsed = w.elapsed := congrArg TView.elapsed e
theorem cfg_of_tv {w w' : World} (e : tv w' = tv w) : w'.cfg = w.cfg := congrArg TView.cfg e

theorem clk_getD (l : List Host) (i : Nat) : clk (l.getD i default) = (l.map clk).getD i (clk default) := by
  induction l generalizing i with
  | nil => rfl
  | cons x xs ih =>
    cases i with
    | zero => rfl
    | succ k => exact ih k

theorem clk_host!_of_tv {w w' : World} (e : tv w' = tv w) (i : Nat) : clk (w'.host! i) = clk (w.host! i) := by
  unfold host!
  rw [clk_getD, clk_getD]
  exact congrArg (fun v => v.hosts.getD i (clk default)) e

/-! ### the shape of `clockPart` -/

def isEnd : Step → Bool | .stepEnd => true | _ => false
def isReg : Step → Bool | .register _ _ => true | _ => false

theorem hopSleep_eq (w : World) (h ms : Nat) :
    (hopSleep w h ms).1 = w.setHost h (fun _ => (hostSleep (ceilMs w.cfg.tick) (w.host! h) ms).1) := by
  rw [hopSleep]

theorem hopClockPart_facts (w : World) (h : Nat) (op : HOp) :
    (hopClockPart w h op).hosts.length = w.hosts.length ∧ (hopClockPart w h op).cfg = w.cfg ∧
    (hopClockPart w h op).elapsed = w.elapsed := by
  cases op
  case exit => exact ⟨by simp [hopClockPart, setHost], rfl, rfl⟩
  case sleep ms =>
    show (hopSleep w h ms).1.hosts.length = _ ∧ (hopSleep w h ms).1.cfg = _ ∧ (hopSleep w h ms).1.elapsed = _
    rw [hopSleep_eq]
    exact ⟨by simp [setHost], rfl, rfl⟩
  all_goals exact ⟨rfl, rfl, rfl⟩

theorem clockPart_len (w : World) (st : Step) :
    (clockPart w st).hosts.length = w.hosts.length + (if isReg st then 1 else 0) := by
  cases st
  case host h op => exact (hopClockPart_facts w h op).1
  case register ip c => simp [clockPart, register, isReg]
  case stepEnd => simp [clockPart, stepEnd, isReg]
  case crash h => simp [clockPart, setHost, isReg]
  case bounce h => simp [clockPart, setHost, isReg]
  case turn h => simp [clockPart, turnBegin, setHost, isReg]
  all_goals rfl

theorem clockPart_cfg (w : World) (st : Step) : (clockPart w st).cfg = w.cfg := by
  cases st
  case host h op => exact (hopClockPart_facts w h op).2.1
  all_goals rfl

theorem clockPart_elapsed (w : World) (st : Step) :
    (clockPart w st).elapsed = w.elapsed + (if isEnd st then w.cfg.tick else 0) := by
  cases st
  case host h op => exact (hopClockPart_facts w h op).2.2
  all_goals rfl

theorem applyStep_len (w : World) (st : Step) :
    (applyStep w st).hosts.length = w.hosts.length + (if isReg st then 1 else 0) :=
  (len_of_tv (tv_applyStep w st)).trans (clockPart_len w st)
theorem applyStep_cfg (w : World) (st : Step) : (applyStep w st).cfg = w.cfg :=
  (cfg_of_tv (tv_applyStep w st)).trans (clockPart_cfg w st)
theorem applyStep_elapsed (w : World) (st : Step) :
    (applyStep w st).elapsed = w.elapsed + (if isEnd st then w.cfg.tick else 0) :=
  (elapsed_of_tv (tv_applyStep w st)).trans (clockPart_elapsed w st)

/-! ### `host!` after the clock parts -/

theorem host!_register_lt (w : World) (ip : Nat) (c : Bool) (i : Nat) (hi : i < w.hosts.length) :
    (w.register ip c).host! i = w.host! i := by
  unfold host! register
  simp only [List.getD_eq_getElem?_getD]
  rw [List.getElem?_append_left hi]

theorem host!_register_new (w : World) (ip : Nat) (c : Bool) :
    (w.register ip c).host! w.hosts.length =
      { ipnum := ip, isClient := c, nextEph := w.cfg.ephLo, startOffset := w.elapsed } := by
  unfold host! register
  simp only [List.getD_eq_getElem?_getD]
  rw [List.getElem?_append_right (Nat.le_refl _)]
  simp

theorem host!_stepEnd_lt (w : World) (i : Nat) (hi : i < w.hosts.length) :
    w.stepEnd.host! i = hostStepEnd w.cfg.tick (ceilMs w.cfg.tick) (w.host! i) := by
  unfold host! stepEnd
  simp only [List.getD_eq_getElem?_getD, List.getElem?_map, List.getElem?_eq_getElem hi]
  rfl

/-! ### one transition seen from one registered host -/

/-- the ghost flag "this host's turn has begun in the current step" after a transition. -/
def turnedAfter (T : Nat → Bool) : Step → Nat → Bool
  | .turn h => fun i => i == h || T i
  | .stepEnd => fun _ => false
  | _ => T

/-- the scheduling discipline of `Sim::step` that matters for clocks: a host's turn begins at most once
    per step, and a host is not bounced in the middle of a step in which it has run. -/
def Allowed (T : Nat → Bool) : Step → Prop
  | .turn h => T h = false
  | .bounce h => T h = false
  | _ => True

instance (T : Nat → Bool) (st : Step) : Decidable (Allowed T st) := by
  cases st <;> unfold Allowed <;> infer_instance

/-- what one transition does to the clock record of a registered host and to its ghost flag
    (`d`: the transition respects the scheduling discipline). -/
inductive HStep (A tick : Nat) (d : Prop) : Bool → Host → Bool → Host → Prop
  | same {t a b} : clk b = clk a → HStep A tick d t a t b
  | exited {t a b} : clk b = clk (markExited a) → HStep A tick d t a t b
  | crashed {t a b} : clk b = clk (markCrashed a) → HStep A tick d t a t b
  | sleep {t a b} (ms : Nat) : clk b = clk (hostSleep A a ms).1 → HStep A tick d t a t b
  | fresh {t a b} : (d → t = false) → clk b = clk (freshRuntime a) → HStep A tick d t a t b
  | turn {t a b} : (d → t = false) → clk b = clk (hostTurnBegin A a) → HStep A tick d t a true b
  | stepEnd {t a b} : clk b = clk (hostStepEnd tick A a) → HStep A tick d t a false b

theorem hstep_setHost (A tick : Nat) (d : Prop) (w : World) (h : Nat) (g : Host → Host) (t : Bool) (i : Nat)
    (hg : ∀ a b, clk b = clk (g a) → HStep A tick d t a t b) :
    HStep A tick d t (w.host! i) t ((w.setHost h g).host! i) := by
  rw [C04.host!_setHost_eq]
  split
  · next c => obtain ⟨rfl, _⟩ := c; exact hg _ _ rfl
  · exact HStep.same rfl

theorem hstep_clockPart (d : Prop) (w : World) (st : Step) (T : Nat → Bool) (i : Nat) (hi : i < w.hosts.length)
    (ha : d → Allowed T st) :
    HStep (ceilMs w.cfg.tick) w.cfg.tick d (T i) (w.host! i) (turnedAfter T st i) ((clockPart w st).host! i) := by
  cases st
  case host h op =>
    cases op
    case exit => exact hstep_setHost _ _ d w h markExited (T i) i (fun _ _ e => HStep.exited e)
    case sleep ms =>
      show HStep _ _ d (T i) (w.host! i) (T i) ((hopSleep w h ms).1.host! i)
      rw [hopSleep_eq, C04.host!_setHost_eq]
      split
      · next c => obtain ⟨rfl, _⟩ := c; exact HStep.sleep ms rfl
      · exact HStep.same rfl
    all_goals exact HStep.same rfl
  case register ip c =>
    show HStep _ _ d (T i) (w.host! i) (T i) ((w.register ip c).host! i)
    rw [host!_register_lt w ip c i hi]
    exact HStep.same rfl
  case stepEnd =>
    show HStep _ _ d (T i) (w.host! i) false (w.stepEnd.host! i)
    rw [host!_stepEnd_lt w i hi]
    exact HStep.stepEnd rfl
  case crash h => exact hstep_setHost _ _ d w h markCrashed (T i) i (fun _ _ e => HStep.crashed e)
  case bounce h =>
    show HStep _ _ d (T i) (w.host! i) (T i) ((w.setHost h freshRuntime).host! i)
    rw [C04.host!_setHost_eq]
    split
    · next c => obtain ⟨rfl, _⟩ := c; exact HStep.fresh (fun hd => ha hd) rfl
    · exact HStep.same rfl
  case turn h =>
    show HStep _ _ d (T i) (w.host! i) (i == h || T i) ((w.setHost h (hostTurnBegin (ceilMs w.cfg.tick))).host! i)
    rw [C04.host!_setHost_eq]
    split
    · next c =>
      obtain ⟨rfl, _⟩ := c
      rw [show (i == i || T i) = true by simp]
      exact HStep.turn (fun hd => ha hd) rfl
    · next c =>
      have hne : i ≠ h := fun e => c ⟨e, e ▸ hi⟩
      rw [show (i == h || T i) = T i by simp [hne]]
      exact HStep.same rfl
  all_goals exact HStep.same rfl

theorem HStep.congr_right {A tick : Nat} {d : Prop} {t t' : Bool} {a b b' : Host} (e : clk b' = clk b)
    (h : HStep A tick d t a t' b) : HStep A tick d t a t' b' := by
  cases h with
  | same e0 => exact .same (e.trans e0)
  | exited e0 => exact .exited (e.trans e0)
  | crashed e0 => exact .crashed (e.trans e0)
  | sleep ms e0 => exact .sleep ms (e.trans e0)
  | fresh hd e0 => exact .fresh hd (e.trans e0)
  | turn hd e0 => exact .turn hd (e.trans e0)
  | stepEnd e0 => exact .stepEnd (e.trans e0)

/-- **one transition, one registered host**: its clock record and ghost flag change by one `HStep`. -/
theorem hstep_applyStep (d : Prop) (w : World) (st : Step) (T : Nat → Bool) (i : Nat) (hi : i < w.hosts.length)
    (ha : d → Allowed T st) :
    HStep (ceilMs w.cfg.tick) w.cfg.tick d (T i) (w.host! i) (turnedAfter T st i) ((applyStep w st).host! i) :=
  (hstep_clockPart d w st T i hi ha).congr_right (clk_host!_of_tv (tv_applyStep w st) i)

/-! ### host-level arithmetic -/

/-- the runtime clock of a host is always on the millisecond grid (window starts, the scripted task's
    Instant, a pending wake-up). -/
def Grid (hs : Host) : Prop :=
  hs.hnow % 1000000 = 0 ∧ hs.winStart % 1000000 = 0 ∧ ∀ W, hs.wake = some W → W % 1000000 = 0

/-- `InWindow`, or — the only possibility when the window is empty (`A = 0`, tick 0) — at its start. -/
def InWin0 (A : Nat) (hs : Host) : Prop :=
  hs.winStart ≤ hs.hnow ∧ (hs.hnow < hs.winStart + A ∨ hs.hnow = hs.winStart)

theorem InWin0.inWindow {A : Nat} {hs : Host} (h : InWin0 A hs) (hA : 0 < A) : InWindow A hs := by
  unfold InWin0 at h; unfold InWindow; omega

/-- the invariant of one host: on the grid, and inside the window once its turn has begun. -/
def HInv (A : Nat) (t : Bool) (hs : Host) : Prop := Grid hs ∧ (t = true → InWin0 A hs)

theorem grid_congr {a b : Host} (e : clk b = clk a) (h : Grid a) : Grid b := by
  unfold Grid at *; rw [clk_hnow e, clk_winStart e, clk_wake e]; exact h
theorem inWin0_congr {A : Nat} {a b : Host} (e : clk b = clk a) (h : InWin0 A a) : InWin0 A b := by
  unfold InWin0 at *; rw [clk_hnow e, clk_winStart e]; exact h
theorem hinv_congr {A : Nat} {t : Bool} {a b : Host} (e : clk b = clk a) (h : HInv A t a) : HInv A t b :=
  ⟨grid_congr e h.1, fun ht => inWin0_congr e (h.2 ht)⟩

/-- the fields of `hostSleep`'s result (by `simp` only — never a `rfl` that would make the kernel evaluate
    `ms * 1000000`: see the note in `Proofs/C04ReachSh.lean`). -/
theorem hostSleep_cases (A : Nat) (hs : Host) (ms : Nat) :
    (hs.hnow + ms * 1000000 < hs.winStart + A ∧
      (hostSleep A hs ms).1.hnow = hs.hnow + ms * 1000000 ∧ (hostSleep A hs ms).1.wake = hs.wake ∧
      (hostSleep A hs ms).1.winStart = hs.winStart ∧ (hostSleep A hs ms).1.elapsed = hs.elapsed ∧
      (hostSleep A hs ms).1.startOffset = hs.startOffset) ∨
    (¬ hs.hnow + ms * 1000000 < hs.winStart + A ∧
      (hostSleep A hs ms).1.hnow = hs.hnow ∧ (hostSleep A hs ms).1.wake = some (hs.hnow + ms * 1000000) ∧
      (hostSleep A hs ms).1.winStart = hs.winStart ∧ (hostSleep A hs ms).1.elapsed = hs.elapsed ∧
      (hostSleep A hs ms).1.startOffset = hs.startOffset) := by
  unfold hostSleep
  by_cases h1 : hs.hnow + ms * 1000000 < hs.winStart + A
  · left; simp [h1]
  · right; simp [h1]

/-- the fields of `hostTurnBegin`'s result. -/
theorem hostTurnBegin_cases (A : Nat) (hs : Host) :
    (hostTurnBegin A hs).winStart = hs.winStart ∧ (hostTurnBegin A hs).elapsed = hs.elapsed ∧
    (hostTurnBegin A hs).startOffset = hs.startOffset ∧
    (((hostTurnBegin A hs).hnow = hs.winStart ∧ ((hostTurnBegin A hs).wake = none ∨ (hostTurnBegin A hs).wake = hs.wake)) ∨
     (∃ W, hs.wake = some W ∧ hs.winStart < W ∧ W < hs.winStart + A ∧ (hostTurnBegin A hs).hnow = W ∧
        (hostTurnBegin A hs).wake = none)) := by
  unfold hostTurnBegin
  cases hw : hs.wake with
  | none => simp
  | some W =>
    simp only
    by_cases h1 : W ≤ hs.winStart
    · simp [h1]
    · by_cases h2 : W < hs.winStart + A
      · rw [if_neg h1, if_pos h2]
        exact ⟨rfl, rfl, rfl, Or.inr ⟨W, rfl, by omega, h2, rfl, rfl⟩⟩
      · rw [if_neg h1, if_neg h2]
        exact ⟨rfl, rfl, rfl, Or.inl ⟨rfl, Or.inr rfl⟩⟩

theorem hinv_step {A tick : Nat} {d : Prop} {t t' : Bool} {a b : Host} (hA : A % 1000000 = 0)
    (hs : HStep A tick d t a t' b) (hi : HInv A t a) : HInv A t' b := by
  cases hs with
  | same e => exact hinv_congr e hi
  | exited e => exact hinv_congr (a := markExited a) e hi
  | crashed e => exact hinv_congr (a := markCrashed a) e hi
  | sleep ms e =>
    refine hinv_congr e ?_
    obtain ⟨⟨g1, g2, g3⟩, hw⟩ := hi
    rcases hostSleep_cases A a ms with ⟨hlt, e1, e2, e3, _, _⟩ | ⟨hge, e1, e2, e3, _, _⟩
    · refine ⟨⟨by rw [e1]; omega, by rw [e3]; exact g2, by rw [e2]; exact g3⟩, fun ht => ?_⟩
      have := hw ht
      unfold InWin0 at *
      rw [e1, e3]
      omega
    · refine ⟨⟨by rw [e1]; exact g1, by rw [e3]; exact g2, ?_⟩, fun ht => ?_⟩
      · intro W hW
        rw [e2] at hW
        cases hW
        omega
      · have := hw ht
        unfold InWin0 at *
        rw [e1, e3]
        exact this
  | fresh _ e =>
    refine hinv_congr e ?_
    exact ⟨⟨rfl, rfl, fun W hW => by cases hW⟩, fun _ => ⟨Nat.le_refl _, Or.inr rfl⟩⟩
  | turn _ e =>
    refine hinv_congr e ?_
    obtain ⟨⟨g1, g2, g3⟩, _⟩ := hi
    obtain ⟨e3, _, _, hc⟩ := hostTurnBegin_cases A a
    rcases hc with ⟨e1, e2⟩ | ⟨W, hW, hlo, hhi, e1, e2⟩
    · refine ⟨⟨by rw [e1]; exact g2, by rw [e3]; exact g2, ?_⟩, fun _ => ?_⟩
      · rcases e2 with e2 | e2
        · rw [e2]; intro W hW; cases hW
        · rw [e2]; exact g3
      · unfold InWin0; rw [e1, e3]; exact ⟨Nat.le_refl _, Or.inr rfl⟩
    · refine ⟨⟨by rw [e1]; exact g3 W hW, by rw [e3]; exact g2, by rw [e2]; intro W hW; cases hW⟩, fun _ => ?_⟩
      unfold InWin0; rw [e1, e3]; omega
  | stepEnd e =>
    refine hinv_congr e ?_
    obtain ⟨⟨g1, g2, g3⟩, _⟩ := hi
    refine ⟨⟨g1, ?_, g3⟩, fun ht => by cases ht⟩
    show (if a.running then a.winStart + A else a.winStart) % 1000000 = 0
    split <;> omega

/-- the time host code observed last / will observe next: inside a turn what the clock reads, between
    turns the host timer. -/
def obsTime (t : Bool) (hs : Host) : Nat := if t then elapsedNow hs else hs.elapsed

theorem obsTime_congr {a b : Host} (e : clk b = clk a) (t : Bool) : obsTime t b = obsTime t a := by
  unfold obsTime; rw [elapsedNow_congr e, clk_elapsed e]

/-- inside a turn the clock reads less than one tick past the host timer (any tick, also below a
    millisecond: the runtime clock moves on the millisecond grid). -/
theorem elapsedNow_lt_tick {tick : Nat} {hs : Host} (hpos : 0 < tick) (hg : Grid hs) (hw : InWin0 (ceilMs tick) hs) :
    hs.elapsed ≤ elapsedNow hs ∧ elapsedNow hs < hs.elapsed + tick := by
  unfold Grid at hg; unfold InWin0 ceilMs at hw; unfold elapsedNow
  omega

theorem elapsedNow_le_tick {tick : Nat} {hs : Host} (hg : Grid hs) (hw : InWin0 (ceilMs tick) hs) :
    hs.elapsed ≤ elapsedNow hs ∧ elapsedNow hs ≤ hs.elapsed + tick := by
  unfold Grid at hg; unfold InWin0 ceilMs at hw; unfold elapsedNow
  omega

/-- **observed time never goes back** over a transition that respects the scheduling discipline; the
    registration offset is never written. -/
theorem obs_step {tick : Nat} {t t' : Bool} {a b : Host}
    (hs : HStep (ceilMs tick) tick True t a t' b) (hi : HInv (ceilMs tick) t a) :
    obsTime t a ≤ obsTime t' b ∧ b.startOffset = a.startOffset := by
  cases hs with
  | same e => rw [obsTime_congr e, clk_startOffset e]; exact ⟨Nat.le_refl _, rfl⟩
  | exited e => rw [obsTime_congr e, clk_startOffset e]; exact ⟨Nat.le_refl (obsTime t a), rfl⟩
  | crashed e => rw [obsTime_congr e, clk_startOffset e]; exact ⟨Nat.le_refl (obsTime t a), rfl⟩
  | sleep ms e =>
    rw [obsTime_congr e, clk_startOffset e]
    rcases hostSleep_cases (ceilMs tick) a ms with ⟨_, e1, _, e3, e4, e5⟩ | ⟨_, e1, _, e3, e4, e5⟩
    all_goals
      refine ⟨?_, e5⟩
      unfold obsTime elapsedNow
      rw [e1, e3, e4]
      split <;> omega
  | fresh hd e =>
    rw [obsTime_congr e, clk_startOffset e, hd trivial]
    exact ⟨Nat.le_refl _, rfl⟩
  | turn hd e =>
    rw [obsTime_congr e, clk_startOffset e, hd trivial]
    obtain ⟨_, e4, e5, _⟩ := hostTurnBegin_cases (ceilMs tick) a
    refine ⟨?_, e5⟩
    unfold obsTime elapsedNow
    rw [e4]
    simp
  | stepEnd e =>
    rw [obsTime_congr e, clk_startOffset e]
    refine ⟨?_, rfl⟩
    show obsTime t a ≤ a.elapsed + tick
    unfold obsTime
    split
    · next ht => exact (elapsedNow_le_tick hi.1 (hi.2 ht)).2
    · omega

/-- the host timer itself: written by the end of a step only. -/
theorem hstep_timer {A tick : Nat} {d : Prop} {t t' : Bool} {a b : Host} (hs : HStep A tick d t a t' b) :
    b.startOffset = a.startOffset ∧ (b.elapsed = a.elapsed ∨ b.elapsed = a.elapsed + tick) := by
  cases hs with
  | same e => exact ⟨clk_startOffset e, Or.inl (clk_elapsed e)⟩
  | exited e => exact ⟨clk_startOffset (a := markExited a) e, Or.inl (clk_elapsed (a := markExited a) e)⟩
  | crashed e => exact ⟨clk_startOffset (a := markCrashed a) e, Or.inl (clk_elapsed (a := markCrashed a) e)⟩
  | sleep ms e =>
    rw [clk_startOffset e, clk_elapsed e]
    rcases hostSleep_cases A a ms with ⟨_, _, _, _, e4, e5⟩ | ⟨_, _, _, _, e4, e5⟩
    all_goals exact ⟨e5, Or.inl e4⟩
  | fresh _ e => exact ⟨clk_startOffset (a := freshRuntime a) e, Or.inl (clk_elapsed (a := freshRuntime a) e)⟩
  | turn _ e =>
    rw [clk_startOffset e, clk_elapsed e]
    obtain ⟨_, e4, e5, _⟩ := hostTurnBegin_cases A a
    exact ⟨e5, Or.inl e4⟩
  | stepEnd e => exact ⟨clk_startOffset (a := hostStepEnd tick A a) e, Or.inr (clk_elapsed (a := hostStepEnd tick A a) e)⟩

end TV.C05
