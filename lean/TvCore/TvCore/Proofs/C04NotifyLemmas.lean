import TvCore.Props.C02Refine
import TvCore.Props.C09Fanout
import TvCore.Props.C12World
/-
  C04, the peers' side — definitions and helper lemmas for `TvCore/Props/C04Notify.lean`.

  Vocabulary (the `inflight` / `NoFailCoin` / `Delta` vocabulary of `Proofs/C09FanoutLemmas.lean` is reused):
    * `Hands w w' N`      going from `w` to `w'` at most the envelopes `N` are handed to the network and nothing that
                          was queued is lost unless a link-failure coin is drawn (`Sends` of C09 without its host-table
                          frame: destructors do change the stream table);
    * `passes l s d`      direction `s → d` of link `l` takes messages: `healthy` (scheduled) or `hold` (parked);
    * `Open w h a b`      an envelope `a → b` sent by host `h` is queued: loopback (`is_same`) on an existing host, or both
                          addresses belong to two different hosts joined by a link whose direction `passes`;
    * `net w`             links, host numbers, loopback queues, oracle: everything `inflight`, `Open`, `NoFailCoin` read;
    * `Quiet h w w'`      the monotone frame every destructor step satisfies: no failure coin appears, under
                          `NoFailCoin` nothing queued is lost and no open route closes; one-shot cells only move
                          `pending → dropped` and a dead connector stays dead; channels keep their contents and capacity,
                          dead ends stay dead;
    * `Ent socks p k q`   the stream table still has the entry of address pair `p`, with at least `k` half-close
                          references left and `next_send_seq = q` (vacuous for `k = 0`).
-/
namespace TV.C04
open TV TV.World TV.C09

/-! ## 0. lists -/

theorem getD_setAt_rel {α : Type} (R : α → α → Prop) (hr : ∀ x, R x x) (l : List α) (i : Nat) (f : α → α)
    (hf : ∀ x, R x (f x)) (d : α) (j : Nat) : R (l.getD j d) ((setAt l i f).getD j d) := by
  by_cases hj : j = i
  · subst hj
    by_cases hl : j < l.length
    · rw [setAt_getD _ _ _ _ hl]; exact hf _
    · rw [setAt_of_ge _ _ _ (by omega)]; exact hr _
  · rw [C12.getD_setAt_ne _ _ _ _ _ hj]; exact hr _

/-- replacing one element whose image grows by `N` grows the concatenation by `N`. -/
theorem flatMap_setAt_perm {α β : Type} (g : β → List α) (L : List β) (i : Nat) (f : β → β) (N : List α) (x : β)
    (hx : L[i]? = some x) (h : (g (f x)).Perm (g x ++ N)) :
    ((setAt L i f).flatMap g).Perm (L.flatMap g ++ N) := by
  induction L generalizing i with
  | nil => simp at hx
  | cons y ys ih =>
    cases i with
    | zero =>
      simp only [List.getElem?_cons_zero, Option.some.injEq] at hx
      subst hx
      simp only [setAt, List.flatMap_cons]
      have e1 : (g (f y) ++ ys.flatMap g).Perm ((g y ++ N) ++ ys.flatMap g) := h.append_right _
      refine e1.trans ?_
      rw [List.append_assoc, List.append_assoc]
      exact List.Perm.append_left _ List.perm_append_comm
    | succ k =>
      simp only [List.getElem?_cons_succ] at hx
      simp only [setAt, List.flatMap_cons, List.append_assoc]
      exact List.Perm.append_left _ (ih k hx)

theorem findIdx?_setAt_at {α : Type} (l : List α) (i : Nat) (f : α → α) (p : α → Bool)
    (hp : ∀ x, l[i]? = some x → p (f x) = p x) : (setAt l i f).findIdx? p = l.findIdx? p := by
  induction l generalizing i with
  | nil => rfl
  | cons x xs ih =>
    cases i with
    | zero => simp [setAt, List.findIdx?_cons, hp x (by simp)]
    | succ k =>
      have := ih k (fun y hy => hp y (by simpa using hy))
      simp [setAt, List.findIdx?_cons, this]

/-! ## 1. the network part of a world -/

/-- at most the envelopes `N` are handed to the network; what was queued is lost only on a failure coin. -/
def Hands (w w' : World) (N : List Env) : Prop :=
  Delta (NoFailCoin w) (inflight w) (inflight w') N ∧ (NoFailCoin w → NoFailCoin w')

theorem Hands.refl (w : World) (N : List Env) : Hands w w N := ⟨Delta.refl _ _ _, id⟩
theorem Hands.trans {a b c : World} {N M : List Env} (h1 : Hands a b N) (h2 : Hands b c M) : Hands a c (N ++ M) :=
  ⟨h1.1.trans h2.1 h1.2, fun x => h2.2 (h1.2 x)⟩
theorem Hands.mono {a b : World} {N N' : List Env} (h : Hands a b N) (hn : N.Sublist N') : Hands a b N' :=
  ⟨h.1.mono hn, h.2⟩
theorem hands_of_sends {w w' : World} {N : List Env} (h : Sends w w' N) : Hands w w' N := ⟨h.1, h.2.1⟩

/-- under `NoFailCoin` everything that was queued stays queued. -/
theorem Hands.keep {w w' : World} {N : List Env} (h : Hands w w' N) (hn : NoFailCoin w) (e : Env)
    (he : e ∈ inflight w) : e ∈ inflight w' := by
  obtain ⟨new, _, hp⟩ := h.1.strict_new hn
  exact hp.mem_iff.mpr (List.mem_append_left _ he)

/-- everything new is one of `N`. -/
theorem Hands.new_mem {w w' : World} {N : List Env} (h : Hands w w' N) (e : Env)
    (he : e ∈ inflight w') (hn : e ∉ inflight w) : e ∈ N := by
  obtain ⟨k, n, hk, hnn, hp⟩ := h.1.kept_new
  rcases List.mem_append.mp (hp.mem_iff.mp he) with h1 | h1
  · exact absurd (hk.mem h1) hn
  · exact hnn.mem h1

/-- a link state that takes messages. -/
def okSt : LState → Bool
  | .healthy => true
  | .hold => true
  | _ => false

/-- direction `s → d` of the link takes messages (schedules or parks them; does not hand them back). -/
def passes (l : Link Env) (s d : Nat) : Bool := okSt (l.stateFor s d)

/-- an envelope `a → b` sent by host `h` gets queued. -/
def Open (w : World) (h : Nat) (a b : Addr) : Prop :=
  if isSame a b then h < w.hosts.length
  else ∃ s d li l, w.ipnumOf a.ip = some s ∧ w.ipnumOf b.ip = some d ∧ s ≠ d ∧
    w.findLink s d = some li ∧ w.links[li]? = some l ∧ passes l s d = true

/-- everything of a world the network reads. -/
def net (w : World) : List (Link Env) × List Nat × List (List Env) × List Ora :=
  (w.links, w.hosts.map (·.ipnum), w.hosts.map (·.lo), w.oracle)

section Net
variable {w w' : World}

theorem net_links (h : net w' = net w) : w'.links = w.links := congrArg (·.1) h
theorem net_nums (h : net w' = net w) : w'.hosts.map (·.ipnum) = w.hosts.map (·.ipnum) := congrArg (·.2.1) h
theorem net_lo (h : net w' = net w) : w'.hosts.map (·.lo) = w.hosts.map (·.lo) := congrArg (·.2.2.1) h
theorem net_oracle (h : net w' = net w) : w'.oracle = w.oracle := congrArg (·.2.2.2) h
theorem net_len (h : net w' = net w) : w'.hosts.length = w.hosts.length := by
  have := congrArg List.length (net_nums h)
  simpa using this

theorem flatMap_lo (w : World) : w.hosts.flatMap (·.lo) = (w.hosts.map (·.lo)).flatten := by
  induction w.hosts with
  | nil => rfl
  | cons x xs ih => simp [ih]

theorem inflight_of_net (h : net w' = net w) : inflight w' = inflight w := by
  unfold inflight
  rw [net_links h, flatMap_lo, flatMap_lo, net_lo h]

theorem noFail_of_net (h : net w' = net w) : NoFailCoin w ↔ NoFailCoin w' := by
  unfold NoFailCoin; rw [net_oracle h]

end Net

theorem ipnumOf_nums (w : World) (ip : Ip) :
    w.ipnumOf ip = match ip with | .host i => (w.hosts.map (·.ipnum))[i]? | _ => none := by
  cases ip <;> simp [ipnumOf]

theorem ipnumOf_of_nums {w w' : World} (h : w'.hosts.map (·.ipnum) = w.hosts.map (·.ipnum)) (ip : Ip) :
    w'.ipnumOf ip = w.ipnumOf ip := by
  rw [ipnumOf_nums, ipnumOf_nums, h]

theorem findLink_of_links {w w' : World} (h : w'.links = w.links) (s d : Nat) : w'.findLink s d = w.findLink s d := by
  unfold findLink; rw [h]

theorem open_congr {w w' : World} (hl : w'.links = w.links)
    (hnum : w'.hosts.map (·.ipnum) = w.hosts.map (·.ipnum)) (h : Nat) (a b : Addr) (ho : Open w h a b) :
    Open w' h a b := by
  have hlen : w'.hosts.length = w.hosts.length := by
    have := congrArg List.length hnum
    simpa using this
  unfold Open at ho ⊢
  split
  · rename_i hs
    rw [if_pos hs] at ho
    rw [hlen]; exact ho
  · rename_i hs
    rw [if_neg hs] at ho
    obtain ⟨s, d, li, l, h1, h2, h3, h4, h5, h6⟩ := ho
    exact ⟨s, d, li, l, by rw [ipnumOf_of_nums hnum]; exact h1, by rw [ipnumOf_of_nums hnum]; exact h2, h3,
      by rw [findLink_of_links hl]; exact h4, by rw [hl]; exact h5, h6⟩

theorem open_of_net {w w' : World} (hn : net w' = net w) (h : Nat) (a b : Addr) (ho : Open w h a b) :
    Open w' h a b := open_congr (net_links hn) (net_nums hn) h a b ho

/-- one link is replaced by a link with the same end points in which every direction that took messages
    still does: every open route stays open. -/
theorem open_of_setLink {w w' : World} (h li : Nat) (l l' : Link Env)
    (hnum : w'.hosts.map (·.ipnum) = w.hosts.map (·.ipnum))
    (hlinks : w'.links = setAt w.links li (fun _ => l')) (hl : w.links[li]? = some l)
    (ha : l'.a = l.a) (hb : l'.b = l.b) (hp : ∀ x y, passes l x y = true → passes l' x y = true)
    (a b : Addr) (ho : Open w h a b) : Open w' h a b := by
  have hlen : w'.hosts.length = w.hosts.length := by
    have := congrArg List.length hnum
    simpa using this
  unfold Open at ho ⊢
  split
  · rename_i hs
    rw [if_pos hs] at ho
    rw [hlen]; exact ho
  · rename_i hs
    rw [if_neg hs] at ho
    obtain ⟨s, d, lj, lk, h1, h2, h3, h4, h5, h6⟩ := ho
    have hfind : w'.findLink s d = some lj := by
      unfold findLink at h4 ⊢
      rw [hlinks, findIdx?_setAt_at _ _ _ _ (fun x hx => ?_)]
      · exact h4
      · rw [hl] at hx
        cases hx
        simp only [ha, hb]
    by_cases e : lj = li
    · subst e
      rw [hl] at h5
      cases h5
      refine ⟨s, d, lj, l', by rw [ipnumOf_of_nums hnum]; exact h1, by rw [ipnumOf_of_nums hnum]; exact h2, h3, hfind, ?_, hp s d h6⟩
      rw [hlinks, getElem?_setAt_eq, hl]
      rfl
    · refine ⟨s, d, lj, lk, by rw [ipnumOf_of_nums hnum]; exact h1, by rw [ipnumOf_of_nums hnum]; exact h2, h3, hfind, ?_, h6⟩
      rw [hlinks, WorldLinks.getElem?_setAt_ne _ _ _ _ e]
      exact h5

/-! ## 2. the monotone frame of destructor steps -/

/-- a channel keeps its contents and capacity; an end that is gone stays gone. -/
def chLe (x y : Chan) : Prop :=
  y.items = x.items ∧ y.cap = x.cap ∧ (x.rxAlive = false → y.rxAlive = false) ∧ (x.txAlive = false → y.txAlive = false)

theorem chLe.refl (x : Chan) : chLe x x := ⟨rfl, rfl, id, id⟩
theorem chLe.trans {x y z : Chan} (h1 : chLe x y) (h2 : chLe y z) : chLe x z :=
  ⟨h2.1.trans h1.1, h2.2.1.trans h1.2.1, fun a => h2.2.2.1 (h1.2.2.1 a), fun a => h2.2.2.2 (h1.2.2.2 a)⟩

/-- a one-shot cell only moves `pending → dropped`; a connector that is gone stays gone. -/
def cellLe (x y : SynCell) : Prop :=
  (y.st = x.st ∨ (x.st = .pending ∧ y.st = .dropped)) ∧ (x.rxAlive = false → y.rxAlive = false)

theorem cellLe.refl (x : SynCell) : cellLe x x := ⟨Or.inl rfl, id⟩
theorem cellLe.trans {x y z : SynCell} (h1 : cellLe x y) (h2 : cellLe y z) : cellLe x z := by
  refine ⟨?_, fun a => h2.2 (h1.2 a)⟩
  rcases h1.1 with e1 | ⟨e1, e1'⟩
  · rcases h2.1 with e2 | ⟨e2, e2'⟩
    · exact Or.inl (e2.trans e1)
    · exact Or.inr ⟨by rw [← e1]; exact e2, e2'⟩
  · rcases h2.1 with e2 | ⟨e2, _⟩
    · exact Or.inr ⟨e1, e2.trans e1'⟩
    · rw [e1'] at e2; exact absurd e2 (by decide)

structure Quiet (h : Nat) (w w' : World) : Prop where
  coin : NoFailCoin w → NoFailCoin w'
  keep : NoFailCoin w → ∀ e ∈ inflight w, e ∈ inflight w'
  opn : NoFailCoin w → ∀ a b, Open w h a b → Open w' h a b
  hostsLen : w'.hosts.length = w.hosts.length
  synLen : w'.syns.length = w.syns.length
  cells : ∀ id, cellLe (w.syns.getD id default) (w'.syns.getD id default)
  chanLen : w'.chans.length = w.chans.length
  chs : ∀ c, chLe (w.chan! c) (w'.chan! c)
  cfg : w'.cfg = w.cfg

theorem Quiet.refl (h : Nat) (w : World) : Quiet h w w :=
  ⟨id, fun _ _ x => x, fun _ _ _ x => x, rfl, rfl, fun _ => cellLe.refl _, rfl, fun _ => chLe.refl _, rfl⟩

theorem Quiet.trans {h : Nat} {a b c : World} (h1 : Quiet h a b) (h2 : Quiet h b c) : Quiet h a c :=
  ⟨fun x => h2.coin (h1.coin x), fun x e he => h2.keep (h1.coin x) e (h1.keep x e he),
   fun x p q ho => h2.opn (h1.coin x) p q (h1.opn x p q ho), h2.hostsLen.trans h1.hostsLen,
   h2.synLen.trans h1.synLen, fun id => (h1.cells id).trans (h2.cells id), h2.chanLen.trans h1.chanLen,
   fun c => (h1.chs c).trans (h2.chs c), h2.cfg.trans h1.cfg⟩

theorem Quiet.of_net {h : Nat} {w w' : World} (hn : net w' = net w) (hsl : w'.syns.length = w.syns.length)
    (hs : ∀ id, cellLe (w.syns.getD id default) (w'.syns.getD id default))
    (hcl : w'.chans.length = w.chans.length) (hc : ∀ c, chLe (w.chan! c) (w'.chan! c)) (hcfg : w'.cfg = w.cfg) :
    Quiet h w w' :=
  ⟨(noFail_of_net hn).mp, fun _ e he => by rw [inflight_of_net hn]; exact he,
   fun _ a b ho => open_of_net hn h a b ho, net_len hn, hsl, hs, hcl, hc, hcfg⟩

theorem Quiet.of_same {h : Nat} {w w' : World} (hn : net w' = net w) (hs : w'.syns = w.syns)
    (hc : w'.chans = w.chans) (hcfg : w'.cfg = w.cfg) : Quiet h w w' :=
  Quiet.of_net hn (by rw [hs]) (fun id => by rw [hs]; exact cellLe.refl _) (by rw [hc])
    (fun c => by unfold chan!; rw [hc]; exact chLe.refl _) hcfg

theorem quiet_ite {h : Nat} {w a b : World} (c : Prop) [Decidable c] (ha : Quiet h w a) (hb : Quiet h w b) :
    Quiet h w (if c then a else b) := by
  split <;> assumption

theorem quiet_tag (h : Nat) (w : World) (t : String) : Quiet h w (w.tag t) := by
  have e : w.tag t = { w with cov := (w.tag t).cov } := C12.tag_eq w t
  rw [e]
  exact Quiet.of_same rfl rfl rfl rfl

theorem quiet_panic (h : Nat) (w : World) (t : String) : Quiet h w (w.panic t) := by
  unfold World.panic
  split
  · exact Quiet.refl h w
  · exact Quiet.of_same rfl rfl rfl rfl

theorem quiet_setChan (h : Nat) (w : World) (c : Nat) (f : Chan → Chan) (hf : ∀ x, chLe x (f x)) :
    Quiet h w (w.setChan c f) := by
  refine Quiet.of_net rfl rfl (fun _ => cellLe.refl _) (by simp [setChan]) (fun c' => ?_) rfl
  unfold chan! setChan
  exact getD_setAt_rel chLe chLe.refl _ _ _ hf _ _

theorem map_setAt_same {α β : Type} (L : List α) (i : Nat) (g : α → α) (f : α → β) (h : ∀ x, f (g x) = f x) :
    (setAt L i g).map f = L.map f := map_setAt_of_eq L i g f h

theorem net_setHost (w : World) (h : Nat) (f : Host → Host) (hlo : ∀ a, (f a).lo = a.lo)
    (hip : ∀ a, (f a).ipnum = a.ipnum) : net (w.setHost h f) = net w := by
  unfold net setHost
  simp only
  rw [map_setAt_same _ _ _ _ hlo, map_setAt_same _ _ _ _ hip]

theorem quiet_setHost (h h' : Nat) (w : World) (f : Host → Host) (hlo : ∀ a, (f a).lo = a.lo)
    (hip : ∀ a, (f a).ipnum = a.ipnum) : Quiet h w (w.setHost h' f) :=
  Quiet.of_same (net_setHost w h' f hlo hip) rfl rfl rfl

theorem cellLe_dropCell (c : SynCell) : cellLe c (if c.st == .pending then { c with st := .dropped } else c) := by
  split
  · rename_i hp
    exact ⟨Or.inr ⟨by simpa using hp, rfl⟩, id⟩
  · exact cellLe.refl c

theorem quiet_dropSyn (h : Nat) (w : World) (id : Nat) : Quiet h w (w.dropSyn id) := by
  refine Quiet.of_net rfl (C12.syns_length_dropSyn w id) (fun j => ?_) rfl (fun _ => chLe.refl _) rfl
  unfold dropSyn
  exact getD_setAt_rel cellLe cellLe.refl _ _ _ cellLe_dropCell _ _

theorem quiet_dropEnvs (h : Nat) (w : World) (es : List Env) : Quiet h w (w.dropEnvs es) := by
  unfold dropEnvs
  induction es generalizing w with
  | nil => exact Quiet.refl h w
  | cons e es ih =>
    simp only [List.foldl_cons]
    refine Quiet.trans ?_ (ih _)
    cases e.msg with
    | syn id => exact quiet_dropSyn h w id
    | _ => exact Quiet.refl h w

theorem quiet_foldl_dropSyn (h : Nat) (l : List SynReq) (w : World) :
    Quiet h w (l.foldl (fun w s => w.dropSyn s.id) w) := by
  induction l generalizing w with
  | nil => exact Quiet.refl h w
  | cons x xs ih => exact (quiet_dropSyn h w x.id).trans (ih _)

/-- the connector of request `id` is gone. -/
theorem quiet_synGone (h : Nat) (w : World) (id : Nat) :
    Quiet h w { w with syns := setAt w.syns id (fun c => { c with rxAlive := false }) } := by
  refine Quiet.of_net rfl (by simp) (fun j => ?_) rfl (fun _ => chLe.refl _) rfl
  exact getD_setAt_rel cellLe cellLe.refl _ _ _ (by intro c; exact ⟨Or.inl rfl, fun _ => rfl⟩) _ _

theorem quiet_mgroups (h : Nat) (w : World) (g : List (Addr × List Addr)) : Quiet h w { w with mgroups := g } :=
  Quiet.of_same rfl rfl rfl rfl

/-! ## 3. one `enqueue_message` without a failure coin -/

/-- the random process without a failure coin: a direction that takes messages still does (it can only heal). -/
theorem randStep_nofail (cfg : Cfg) (l : Link Env) (cr : Bool) :
    (Link.randStep cfg l false cr).1.a = l.a ∧ (Link.randStep cfg l false cr).1.b = l.b ∧
    (okSt l.stAB = true → okSt (Link.randStep cfg l false cr).1.stAB = true) ∧
    (okSt l.stBA = true → okSt (Link.randStep cfg l false cr).1.stBA = true) := by
  unfold Link.randStep Link.release
  simp only [Bool.and_false, Bool.false_eq_true, if_false]
  split
  · split
    · refine ⟨rfl, rfl, ?_, ?_⟩
      · intro h; simp only; split
        · rfl
        · exact h
      · intro h; simp only; split
        · rfl
        · exact h
    · exact ⟨rfl, rfl, id, id⟩
  · split
    · exact ⟨rfl, rfl, fun _ => rfl, fun _ => rfl⟩
    · exact ⟨rfl, rfl, id, id⟩

theorem enqueueRaw_states (l : Link Env) (dl s d : Nat) (e : Env) :
    (l.enqueueRaw dl s d e).1.a = l.a ∧ (l.enqueueRaw dl s d e).1.b = l.b ∧
    (l.enqueueRaw dl s d e).1.stAB = l.stAB ∧ (l.enqueueRaw dl s d e).1.stBA = l.stBA := by
  unfold Link.enqueueRaw
  simp only
  split <;> exact ⟨rfl, rfl, rfl, rfl⟩

/-- a direction that takes messages takes this one: it is appended to `sent` (scheduled or parked). -/
theorem enqueueRaw_passes (l : Link Env) (dl s d : Nat) (e : Env) (hp : passes l s d = true) :
    (linkEnvs (l.enqueueRaw dl s d e).1).Perm (linkEnvs l ++ [e]) ∧ (l.enqueueRaw dl s d e).2 = none := by
  have key : ∀ (m : Sent Env), m.msg = e → ∀ k : Nat,
      (linkEnvs { l with sent := l.sent ++ [m], nextId := k }).Perm (linkEnvs l ++ [e]) := by
    intro m hm k
    rw [linkEnvs_eq, linkEnvs_eq]
    simp only [List.map_append, List.map_cons, List.map_nil, hm, List.append_assoc]
    refine List.Perm.append_left _ ?_
    rw [← List.append_assoc (List.map (fun x => x.msg) l.toA)]
    exact List.perm_append_comm
  unfold passes at hp
  unfold Link.enqueueRaw
  simp only
  split
  · exact ⟨key _ rfl _, rfl⟩
  · exact ⟨key _ rfl _, rfl⟩
  · rename_i h1 h2
    exfalso
    cases hst : l.stateFor s d <;> simp_all [okSt]

/-- the three stages of `Link::enqueue_message` when the failure coin does not come up. -/
def chain (cfg : Cfg) (l : Link Env) (cr : Bool) (dl s d : Nat) (e : Env) : Link Env :=
  ((Link.randStep cfg l false cr).1.enqueueRaw dl s d e).1.processDeliverables

theorem chain_spec (cfg : Cfg) (l : Link Env) (cr : Bool) (dl s d : Nat) (e : Env) :
    (chain cfg l cr dl s d e).a = l.a ∧ (chain cfg l cr dl s d e).b = l.b ∧
    (∀ x y, passes l x y = true → passes (chain cfg l cr dl s d e) x y = true) ∧
    (passes l s d = true → (linkEnvs (chain cfg l cr dl s d e)).Perm (linkEnvs l ++ [e])) := by
  have hr := randStep_nofail cfg l cr
  have he := enqueueRaw_states (Link.randStep cfg l false cr).1 dl s d e
  have hpass : ∀ x y, passes l x y = true → passes (Link.randStep cfg l false cr).1 x y = true := by
    intro x y
    unfold passes Link.stateFor
    split
    · exact hr.2.2.1
    · exact hr.2.2.2
  refine ⟨he.1.trans hr.1, he.2.1.trans hr.2.1, ?_, ?_⟩
  · intro x y hp
    have := hpass x y hp
    unfold passes Link.stateFor at this ⊢
    show okSt (if x < y then ((Link.randStep cfg l false cr).1.enqueueRaw dl s d e).1.stAB
      else ((Link.randStep cfg l false cr).1.enqueueRaw dl s d e).1.stBA) = true
    rw [he.2.2.1, he.2.2.2]
    exact this
  · intro hp
    have h1 : (linkEnvs (Link.randStep cfg l false cr).1).Perm (linkEnvs l) := by
      obtain ⟨new, hn, hperm⟩ := (randStep_delta cfg l false cr).strict_new rfl
      have : new = [] := List.sublist_nil.mp hn
      rw [this, List.append_nil] at hperm
      exact hperm
    have h2 := (enqueueRaw_passes (Link.randStep cfg l false cr).1 dl s d e (hpass s d hp)).1
    exact (processDeliverables_perm _).trans (h2.trans (h1.append_right _))

/-- the link table after `enqueue_message` on link `li`. -/
theorem linkEnqueue_links (w : World) (li s d : Nat) (e : Env) (l : Link Env) (hl : w.links[li]? = some l) :
    ∃ (cfg : Cfg) (cr : Bool) (dl : Nat),
      (w.linkEnqueue li s d e).links =
        setAt w.links li (fun _ => ((Link.randStep cfg l w.popFail.1 cr).1.enqueueRaw dl s d e).1.processDeliverables) := by
  unfold linkEnqueue
  simp only [hl]
  cases hpf : w.popFail with
  | mk cf wa =>
    have hla : wa.links = w.links := by have := WorldLinks.links_popFail w; rw [hpf] at this; exact this
    simp only
    generalize hwb : (if l.wantsRepairCoin cf = true then wa.popRepair else (false, wa)) = rb
    obtain ⟨cr, wb⟩ := rb
    have hlb : wb.links = w.links := by
      split at hwb
      · have := WorldLinks.links_popRepair wa; rw [hwb] at this; exact this.trans hla
      · injection hwb with _ h2; rw [← h2]; exact hla
    simp only
    generalize hwc : (if (Link.randStep wb.cfg.link l cf cr).1.wantsDelay s d = true then wb.popDelay else (0, wb)) = rc
    obtain ⟨dl, wc⟩ := rc
    have hlc : wc.links = w.links := by
      split at hwc
      · have := WorldLinks.links_popDelay wb; rw [hwc] at this; exact this.trans hlb
      · injection hwc with _ h2; rw [← h2]; exact hlb
    refine ⟨wb.cfg.link, cr, dl, ?_⟩
    repeat' split
    all_goals simp [hlc]

/-! ## 4. `netSend` -/

@[simp] theorem chans_tag (w : World) (t : String) : (w.tag t).chans = w.chans := by unfold tag; split <;> rfl
@[simp] theorem chans_panic (w : World) (t : String) : (w.panic t).chans = w.chans := by unfold World.panic; split <;> rfl
@[simp] theorem chans_dropSyn (w : World) (id : Nat) : (w.dropSyn id).chans = w.chans := rfl
@[simp] theorem chans_setHost (w : World) (h : Nat) (f : Host → Host) : (w.setHost h f).chans = w.chans := rfl
@[simp] theorem chans_dropEnvs (w : World) (es : List Env) : (w.dropEnvs es).chans = w.chans := by
  unfold dropEnvs
  induction es generalizing w with
  | nil => rfl
  | cons e es ih =>
    simp only [List.foldl_cons]
    rw [ih]
    cases e.msg <;> rfl
@[simp] theorem chans_popFail (w : World) : (w.popFail).2.chans = w.chans := by unfold popFail; split <;> rfl
@[simp] theorem chans_popRepair (w : World) : (w.popRepair).2.chans = w.chans := by unfold popRepair; split <;> rfl
@[simp] theorem chans_popDelay (w : World) : (w.popDelay).2.chans = w.chans := by unfold popDelay; split <;> rfl
@[simp] theorem chans_linkEnqueue (w : World) (li s d : Nat) (e : Env) : (w.linkEnqueue li s d e).chans = w.chans := by
  unfold linkEnqueue
  split
  · rfl
  · simp only
    repeat' split
    all_goals simp

theorem chs_of_chans {w w' : World} (h : w'.chans = w.chans) (c : Nat) : chLe (w.chan! c) (w'.chan! c) := by
  unfold chan!; rw [h]; exact chLe.refl _

theorem quiet_linkEnqueue (h : Nat) (w : World) (li s d : Nat) (e : Env) : Quiet h w (w.linkEnqueue li s d e) := by
  have hH := hands_of_sends (sends_linkEnqueue w li s d e)
  cases hl : w.links[li]? with
  | none =>
    have : w.linkEnqueue li s d e = w := by unfold linkEnqueue; simp only [hl]
    rw [this]; exact Quiet.refl h w
  | some l =>
    refine ⟨hH.2, fun hn e' he' => hH.keep hn e' he', ?_, by rw [hosts_linkEnqueue], C12.synsLen_linkEnqueue w li s d e,
      ?_, by rw [chans_linkEnqueue], chs_of_chans (chans_linkEnqueue w li s d e), cfg_linkEnqueue w li s d e⟩
    · intro hn a b ho
      obtain ⟨cfg, cr, dl, hlinks⟩ := linkEnqueue_links w li s d e l hl
      rw [(noFail_popFail w hn).1] at hlinks
      have hc := chain_spec cfg l cr dl s d e
      exact open_of_setLink h li l (chain cfg l cr dl s d e) (by rw [hosts_linkEnqueue]) hlinks hl hc.1 hc.2.1 hc.2.2.1 a b ho
    · intro id
      obtain ⟨cfg, cf, cr, dl, w', hs, heq⟩ := C12.linkEnqueue_syns w li s d e l hl
      rw [heq]
      have := (quiet_dropEnvs h w' (((Link.randStep cfg l cf cr).2 ++
          ((Link.randStep cfg l cf cr).1.enqueueRaw dl s d e).2.toList).map (·.msg))).cells id
      rw [hs] at this
      exact this

theorem quiet_sendMessage (h : Nat) (w : World) (e : Env) : Quiet h w (w.sendMessage e).2 := by
  unfold sendMessage
  repeat' split
  all_goals first | exact quiet_dropEnvs _ _ _ | exact quiet_linkEnqueue _ _ _ _ _ _

theorem quiet_sendLoopback (h h' : Nat) (w : World) (e : Env) : Quiet h w (w.sendLoopback h' e) := by
  have hH := hands_of_sends (sends_sendLoopback w h' e)
  have hnum : (w.sendLoopback h' e).hosts.map (·.ipnum) = w.hosts.map (·.ipnum) := by
    unfold sendLoopback
    rw [hosts_tag]
    exact map_setAt_same _ _ _ _ (fun _ => rfl)
  have hlk : (w.sendLoopback h' e).links = w.links := by unfold sendLoopback; rw [WorldLinks.links_tag]; rfl
  have hsy : (w.sendLoopback h' e).syns = w.syns := by unfold sendLoopback; rw [C12.tag_syns]; rfl
  have hch : (w.sendLoopback h' e).chans = w.chans := by unfold sendLoopback; rw [chans_tag]; rfl
  refine ⟨hH.2, fun hn e' he' => hH.keep hn e' he', fun _ a b ho => open_congr hlk hnum h a b ho, ?_, by rw [hsy],
    fun id => by rw [hsy]; exact cellLe.refl _, by rw [hch], chs_of_chans hch, ?_⟩
  · have := congrArg List.length hnum
    simpa using this
  · unfold sendLoopback; rw [cfg_tag]; rfl

theorem quiet_netSend (h h' : Nat) (w : World) (e : Env) : Quiet h w (w.netSend h' e).2 := by
  unfold netSend
  split
  · exact quiet_sendLoopback h h' w e
  · exact quiet_sendMessage h w e

/-- a loopback send is queued exactly. -/
theorem sendLoopback_exact (w : World) (h : Nat) (e : Env) (hh : h < w.hosts.length) :
    (inflight (w.sendLoopback h e)).Perm (inflight w ++ [e]) := by
  unfold sendLoopback
  rw [inflight_tag]
  unfold inflight setHost
  simp only
  rw [List.append_assoc]
  refine List.Perm.append_left _ ?_
  exact flatMap_setAt_perm (·.lo) w.hosts h (fun hs => { hs with lo := hs.lo ++ [e] }) [e] w.hosts[h]
    (List.getElem?_eq_getElem hh) (List.Perm.refl _)

/-- a send into a direction that takes messages, without a failure coin, is queued exactly. -/
theorem linkEnqueue_exact (w : World) (li s d : Nat) (e : Env) (l : Link Env) (hl : w.links[li]? = some l)
    (hn : NoFailCoin w) (hp : passes l s d = true) :
    (inflight (w.linkEnqueue li s d e)).Perm (inflight w ++ [e]) := by
  obtain ⟨cfg, cr, dl, hlinks⟩ := linkEnqueue_links w li s d e l hl
  rw [(noFail_popFail w hn).1] at hlinks
  have hc := (chain_spec cfg l cr dl s d e).2.2.2 hp
  unfold inflight
  rw [hlinks, hosts_linkEnqueue]
  have h1 := flatMap_setAt_perm linkEnvs w.links li (fun _ => chain cfg l cr dl s d e) [e] l hl hc
  refine (h1.append_right _).trans ?_
  rw [List.append_assoc, List.append_assoc]
  exact List.Perm.append_left _ List.perm_append_comm

/-- **an open route, no failure coin**: `netSend` reports success and the envelope is queued — the queued
    envelopes afterwards are exactly those from before plus this one. -/
theorem netSend_open (w : World) (h : Nat) (e : Env) (hn : NoFailCoin w) (ho : Open w h e.src e.dst) :
    (w.netSend h e).1 = true ∧ (inflight (w.netSend h e).2).Perm (inflight w ++ [e]) := by
  unfold Open at ho
  unfold netSend
  by_cases hs : isSame e.src e.dst = true
  · rw [if_pos hs] at ho ⊢
    exact ⟨rfl, sendLoopback_exact w h e ho⟩
  · rw [if_neg hs] at ho ⊢
    obtain ⟨s, d, li, l, h1, h2, h3, h4, h5, h6⟩ := ho
    have hne : (s == d) = false := by simpa using h3
    unfold sendMessage
    simp only [h1, h2, hne, h4, Bool.false_eq_true, if_false]
    exact ⟨trivial, linkEnqueue_exact w li s d e l h5 hn h6⟩

/-! ## 5. the destructors: frame -/

theorem chLe_txGone (c : Chan) : chLe c { c with txAlive := false } := ⟨rfl, rfl, id, fun _ => rfl⟩
theorem chLe_rxGone (c : Chan) : chLe c { c with rxAlive := false } := ⟨rfl, rfl, fun _ => rfl, id⟩

theorem net_tag (w : World) (t : String) : net (w.tag t) = net w := by unfold tag; split <;> rfl
theorem net_panic (w : World) (t : String) : net (w.panic t) = net w := by unfold World.panic; split <;> rfl
theorem net_setChan (w : World) (c : Nat) (f : Chan → Chan) : net (w.setChan c f) = net w := rfl

theorem net_removeSock (w : World) (h : Nat) (loc rem : Addr) : net (w.removeSock h loc rem) = net w := by
  unfold removeSock
  split
  · rfl
  · exact (net_setChan _ _ _).trans (net_setHost w h _ (fun _ => rfl) (fun _ => rfl))

theorem net_closeStreamHalf (w : World) (h : Nat) (loc rem : Addr) : net (w.closeStreamHalf h loc rem) = net w := by
  unfold closeStreamHalf
  simp only
  split
  · exact (net_setChan _ _ _).trans (net_setHost w h _ (fun _ => rfl) (fun _ => rfl))
  · exact net_setHost w h _ (fun _ => rfl) (fun _ => rfl)

theorem hands_of_net {w w' : World} (hn : net w' = net w) (N : List Env) : Hands w w' N :=
  ⟨by rw [inflight_of_net hn]; exact Delta.refl _ _ _, (noFail_of_net hn).mp⟩

theorem hands_netSend (w : World) (h : Nat) (e : Env) : Hands w (w.netSend h e).2 [e] := by
  unfold netSend
  split
  · exact hands_of_sends (sends_sendLoopback w h e)
  · exact hands_of_sends (sends_sendMessage w e)

theorem quiet_removeSock (h h' : Nat) (w : World) (loc rem : Addr) : Quiet h w (w.removeSock h' loc rem) := by
  unfold removeSock
  split
  · exact Quiet.refl h w
  · exact (quiet_setHost h h' w _ (by intro a; rfl) (by intro a; rfl)).trans (quiet_setChan h _ _ _ chLe_txGone)

theorem quiet_closeStreamHalf (h h' : Nat) (w : World) (loc rem : Addr) : Quiet h w (w.closeStreamHalf h' loc rem) := by
  unfold closeStreamHalf
  simp only
  split
  · exact (quiet_setHost h h' w _ (by intro a; rfl) (by intro a; rfl)).trans (quiet_setChan h _ _ _ chLe_txGone)
  · exact quiet_setHost h h' w _ (by intro a; rfl) (by intro a; rfl)

theorem quiet_dropRead (h h' : Nat) (w : World) (r : RdH) : Quiet h w (w.dropRead h' r) := by
  unfold dropRead
  simp only
  have h0 : Quiet h w (w.setChan r.chan fun c => { c with rxAlive := false }) := quiet_setChan h w _ _ chLe_rxGone
  apply quiet_ite
  · exact ((h0.trans (quiet_netSend h h' _ _)).trans (quiet_removeSock h h' _ _ _)).trans (quiet_tag h _ _)
  · exact h0.trans (quiet_closeStreamHalf h h' _ _ _)

theorem quiet_dropWrite (h h' : Nat) (w : World) (x : WrH) : Quiet h w (w.dropWrite h' x) := by
  unfold dropWrite
  refine Quiet.trans ?_ (quiet_closeStreamHalf h h' _ _ _)
  split
  · split
    · exact (quiet_setHost h h' w _ (by intro a; rfl) (by intro a; rfl)).trans (quiet_netSend h h' _ _)
    · exact Quiet.refl h w
  · exact Quiet.refl h w

theorem quiet_udpUnbind (h h' : Nat) (w : World) (p : Nat) : Quiet h w (w.udpUnbind h' p) := by
  unfold udpUnbind
  refine Quiet.trans ?_ (quiet_setHost h h' _ _ (by intro a; rfl) (by intro a; rfl))
  split
  · exact Quiet.refl h w
  · exact quiet_panic h w _

theorem quiet_tcpUnbind (h h' : Nat) (w : World) (p : Nat) : Quiet h w (w.tcpUnbind h' p) := by
  unfold tcpUnbind
  split
  · exact quiet_panic h w _
  · exact (quiet_setHost h h' w _ (by intro a; rfl) (by intro a; rfl)).trans (quiet_foldl_dropSyn h _ _)

/-- **every destructor is quiet**: no failure coin appears; without one nothing queued is retracted and no
    open route closes; one-shot cells only move `pending → dropped`; channels keep their contents. -/
theorem quiet_dropObj (h h' : Nat) (w : World) (o : Obj) : Quiet h w (w.dropObj h' o) := by
  unfold dropObj
  cases o with
  | udp loc stash => exact (quiet_mgroups h w _).trans (quiet_udpUnbind h h' _ _)
  | listener loc => exact quiet_tcpUnbind h h' w _
  | connecting id loc rem chan fcW =>
    simp only
    have h3 := ((quiet_synGone h w id).trans (quiet_setChan h _ chan _ chLe_rxGone)).trans (quiet_tag h _ "connectdropped")
    split
    · exact h3.trans (quiet_removeSock h h' _ _ _)
    · exact h3
  | stream rd wr =>
    simp only
    have h1 : Quiet h w (match rd with | some r => w.dropRead h' r | none => w) := by
      cases rd with
      | some r => exact quiet_dropRead h h' w r
      | none => exact Quiet.refl h w
    cases wr with
    | some x => exact h1.trans (quiet_dropWrite h h' _ x)
    | none => exact h1

theorem quiet_foldl_dropObj (h h' : Nat) (objs : List (Nat × Obj)) (w : World) :
    Quiet h w (objs.foldl (fun w p => w.dropObj h' p.2) w) := by
  induction objs generalizing w with
  | nil => exact Quiet.refl h w
  | cons x xs ih => exact (quiet_dropObj h h' w x.2).trans (ih _)

/-! ## 6. the destructors: what they hand to the network (ghost) -/

/-- the RST of a read half. -/
def rstEnv (r : RdH) : Env := { src := r.loc, dst := r.rem, msg := .rst }
/-- the FIN of a write half, numbered `q`. -/
def finEnv (x : WrH) (q : Nat) : Env := { src := x.loc, dst := x.rem, msg := .fin q }

/-- ghost: what `Drop for ReadHalf` hands to `netSend`. -/
def dropReadSent (w : World) (h : Nat) (r : RdH) : List Env := if C02.hasUnread w h r then [rstEnv r] else []

/-- ghost: what `Drop for WriteHalf` hands to `netSend`. -/
def dropWriteSent (w : World) (h : Nat) (x : WrH) : List Env :=
  if x.shutdown then [] else
  match findSock (w.host! h) x.loc x.rem with
  | some i => [finEnv x (C02.sockAt w h i).nextSendSeq]
  | none => []

/-- ghost: what the destructor of one socket object hands to `netSend`, in order. -/
def dropObjSent (w : World) (h : Nat) : Obj → List Env
  | .stream rd wr =>
    (match rd with | some r => dropReadSent w h r | none => []) ++
    (match wr with
     | some x => dropWriteSent (match rd with | some r => w.dropRead h r | none => w) h x
     | none => [])
  | _ => []

/-- ghost: … of a list of socket objects dropped one after the other. -/
def dropObjsSent (h : Nat) : World → List (Nat × Obj) → List Env
  | _, [] => []
  | w, p :: ps => dropObjSent w h p.2 ++ dropObjsSent h (w.dropObj h p.2) ps

/-- the world in which the destructor sweep of `crash` / `bounce` starts: the host's tasks (socket objects,
    loopback deliveries) are taken away, SYNs travelling on loopback are refused. -/
def crashStart (w : World) (h : Nat) : World :=
  (w.setHost h (fun hs => { hs with objs := [], lo := [] })).dropEnvs (w.host! h).lo

/-- the objects in the order their destructors run. -/
def crashObjs (w : World) (h : Nat) : List (Nat × Obj) := (w.host! h).objs.mergeSort (fun a b => a.1 ≤ b.1)

/-- ghost: everything the destructor sweep hands to `netSend`, in order. -/
def crashSent (w : World) (h : Nat) : List Env := dropObjsSent h (crashStart w h) (crashObjs w h)

theorem dropAll_eq (w : World) (h : Nat) :
    w.dropAll h = (crashObjs w h).foldl (fun w p => w.dropObj h p.2) (crashStart w h) := rfl

/-- `Drop for ReadHalf`, the resetting case, step by step. -/
theorem dropRead_unread (w : World) (h : Nat) (r : RdH) (hu : C02.hasUnread w h r = true) :
    w.dropRead h r =
      (((w.setChan r.chan fun c => { c with rxAlive := false }).netSend h (rstEnv r)).2.removeSock h r.loc r.rem).tag "rstunread" := by
  rw [C02.dropRead_cases, hu]; rfl

theorem dropRead_read (w : World) (h : Nat) (r : RdH) (hu : C02.hasUnread w h r = false) :
    w.dropRead h r = (w.setChan r.chan fun c => { c with rxAlive := false }).closeStreamHalf h r.loc r.rem := by
  rw [C02.dropRead_cases, hu]; rfl

theorem dropRead_hands (w : World) (h : Nat) (r : RdH) : Hands w (w.dropRead h r) (dropReadSent w h r) := by
  unfold dropReadSent
  cases hu : C02.hasUnread w h r with
  | true =>
    rw [dropRead_unread w h r hu]
    simp only [if_true]
    have h1 : Hands w (w.setChan r.chan fun c => { c with rxAlive := false }) [] := hands_of_net (net_setChan _ _ _) []
    have h2 := h1.trans (hands_netSend _ h (rstEnv r))
    have h3 := h2.trans (hands_of_net (net_removeSock _ h r.loc r.rem) [])
    have h4 := h3.trans (hands_of_net (net_tag _ "rstunread") [])
    simpa using h4
  | false =>
    rw [dropRead_read w h r hu]
    simp only [Bool.false_eq_true, if_false]
    exact hands_of_net ((net_closeStreamHalf _ h r.loc r.rem).trans (net_setChan _ _ _)) []

/-- nothing unread: the network is untouched (links, loopback queues, oracle). -/
theorem dropRead_silent (w : World) (h : Nat) (r : RdH) (hu : C02.hasUnread w h r = false) :
    net (w.dropRead h r) = net w := by
  rw [dropRead_read w h r hu]
  exact (net_closeStreamHalf _ h r.loc r.rem).trans (net_setChan _ _ _)

/-- unread data, an open route, no failure coin: exactly the RST is added to what is queued. -/
theorem dropRead_exact (w : World) (h : Nat) (r : RdH) (hu : C02.hasUnread w h r = true)
    (hn : NoFailCoin w) (ho : Open w h r.loc r.rem) :
    (inflight (w.dropRead h r)).Perm (inflight w ++ [rstEnv r]) := by
  rw [dropRead_unread w h r hu, inflight_tag, inflight_of_net (net_removeSock _ h r.loc r.rem)]
  have hn1 : NoFailCoin (w.setChan r.chan fun c => { c with rxAlive := false }) := hn
  have ho1 : Open (w.setChan r.chan fun c => { c with rxAlive := false }) h (rstEnv r).src (rstEnv r).dst :=
    open_of_net (net_setChan _ _ _) h _ _ ho
  exact (netSend_open _ h (rstEnv r) hn1 ho1).2

/-- the receiver of the read half's channel is gone afterwards. -/
theorem dropRead_rxGone (w : World) (h : Nat) (r : RdH) (hc : r.chan < w.chans.length) :
    ((w.dropRead h r).chan! r.chan).rxAlive = false := by
  have h0 : ((w.setChan r.chan fun c => { c with rxAlive := false }).chan! r.chan).rxAlive = false := by
    unfold chan! setChan
    simp only
    rw [setAt_getD _ _ _ _ hc]
  cases hu : C02.hasUnread w h r with
  | true =>
    rw [dropRead_unread w h r hu]
    have hq := ((quiet_netSend h h (w.setChan r.chan fun c => { c with rxAlive := false }) (rstEnv r)).trans
      (quiet_removeSock h h _ r.loc r.rem)).trans (quiet_tag h _ "rstunread")
    exact (hq.chs r.chan).2.2.1 h0
  | false =>
    rw [dropRead_read w h r hu]
    exact ((quiet_closeStreamHalf h h _ r.loc r.rem).chs r.chan).2.2.1 h0

/-- `Drop for WriteHalf`, the three cases. -/
theorem dropWrite_fin (w : World) (h : Nat) (x : WrH) (i : Nat) (hs : x.shutdown = false)
    (hf : findSock (w.host! h) x.loc x.rem = some i) :
    w.dropWrite h x =
      ((w.setHost h (C02.bumpSeq i)).netSend h (finEnv x (C02.sockAt w h i).nextSendSeq)).2.closeStreamHalf h x.loc x.rem :=
  C02.dropWrite_numbers w h x i hs hf

theorem dropWrite_nofin (w : World) (h : Nat) (x : WrH)
    (hno : x.shutdown = true ∨ findSock (w.host! h) x.loc x.rem = none) :
    w.dropWrite h x = w.closeStreamHalf h x.loc x.rem := by
  unfold dropWrite
  rcases hno with hs | hf
  · simp only [hs, Bool.not_true, Bool.false_eq_true, if_false]
  · split
    · simp only [hf]
    · rfl

theorem net_bumpSeq (w : World) (h i : Nat) : net (w.setHost h (C02.bumpSeq i)) = net w :=
  net_setHost w h _ (fun _ => rfl) (fun _ => rfl)

theorem dropWrite_hands (w : World) (h : Nat) (x : WrH) : Hands w (w.dropWrite h x) (dropWriteSent w h x) := by
  unfold dropWriteSent
  cases hs : x.shutdown with
  | true =>
    rw [dropWrite_nofin w h x (Or.inl hs)]
    simp only [if_true]
    exact hands_of_net (net_closeStreamHalf _ h _ _) []
  | false =>
    simp only [Bool.false_eq_true, if_false]
    cases hf : findSock (w.host! h) x.loc x.rem with
    | none =>
      rw [dropWrite_nofin w h x (Or.inr hf)]
      exact hands_of_net (net_closeStreamHalf _ h _ _) []
    | some i =>
      rw [dropWrite_fin w h x i hs hf]
      simp only
      have h1 : Hands w (w.setHost h (C02.bumpSeq i)) [] := hands_of_net (net_bumpSeq w h i) []
      have h2 := h1.trans (hands_netSend _ h (finEnv x (C02.sockAt w h i).nextSendSeq))
      have h3 := h2.trans (hands_of_net (net_closeStreamHalf _ h x.loc x.rem) [])
      simpa using h3

/-- already shut down (the FIN went out with `shutdown`) or no table entry (the peer reset the stream): the
    network is untouched. -/
theorem dropWrite_silent (w : World) (h : Nat) (x : WrH)
    (hno : x.shutdown = true ∨ findSock (w.host! h) x.loc x.rem = none) : net (w.dropWrite h x) = net w := by
  rw [dropWrite_nofin w h x hno]
  exact net_closeStreamHalf _ h _ _

/-- an open write half with a table entry, an open route, no failure coin: exactly the FIN, numbered with
    the socket's `next_send_seq`, is added to what is queued. -/
theorem dropWrite_exact (w : World) (h : Nat) (x : WrH) (i : Nat) (hs : x.shutdown = false)
    (hf : findSock (w.host! h) x.loc x.rem = some i) (hn : NoFailCoin w) (ho : Open w h x.loc x.rem) :
    (inflight (w.dropWrite h x)).Perm (inflight w ++ [finEnv x (C02.sockAt w h i).nextSendSeq]) := by
  rw [dropWrite_fin w h x i hs hf, inflight_of_net (net_closeStreamHalf _ h x.loc x.rem)]
  have hn1 : NoFailCoin (w.setHost h (C02.bumpSeq i)) := (noFail_of_net (net_bumpSeq w h i)).mp hn
  have ho1 : Open (w.setHost h (C02.bumpSeq i)) h (finEnv x (C02.sockAt w h i).nextSendSeq).src
      (finEnv x (C02.sockAt w h i).nextSendSeq).dst := open_of_net (net_bumpSeq w h i) h _ _ ho
  have := (netSend_open _ h _ hn1 ho1).2
  rw [inflight_of_net (net_bumpSeq w h i)] at this
  exact this

/-! ## 7. the whole sweep: nothing handed over earlier is retracted by a later destructor -/

theorem net_foldl_dropSyn (l : List SynReq) (w : World) : net (l.foldl (fun w s => w.dropSyn s.id) w) = net w := by
  induction l generalizing w with
  | nil => rfl
  | cons x xs ih => simp only [List.foldl_cons]; rw [ih]; rfl

/-- destructors of UDP sockets, listeners and pending connects send nothing. -/
theorem net_dropObj_nonstream (w : World) (h : Nat) (o : Obj) (ho : ∀ rd wr, o ≠ .stream rd wr) :
    net (w.dropObj h o) = net w := by
  cases o with
  | udp loc stash =>
    unfold dropObj udpUnbind
    simp only
    refine (net_setHost _ h _ (by intro a; rfl) (by intro a; rfl)).trans ?_
    split
    · rfl
    · exact net_panic _ _
  | listener loc =>
    unfold dropObj tcpUnbind
    simp only
    split
    · exact net_panic _ _
    · exact (net_foldl_dropSyn _ _).trans (net_setHost w h _ (fun _ => rfl) (fun _ => rfl))
  | connecting id loc rem chan fcW =>
    unfold dropObj
    simp only
    split
    · exact (net_removeSock _ h loc rem).trans (net_tag _ _)
    · exact net_tag _ _
  | stream rd wr => exact absurd rfl (ho rd wr)

theorem dropObj_hands (w : World) (h : Nat) (o : Obj) : Hands w (w.dropObj h o) (dropObjSent w h o) := by
  cases o with
  | udp loc stash => exact hands_of_net (net_dropObj_nonstream w h _ (fun _ _ => by simp)) _
  | listener loc => exact hands_of_net (net_dropObj_nonstream w h _ (fun _ _ => by simp)) _
  | connecting id loc rem chan fcW => exact hands_of_net (net_dropObj_nonstream w h _ (fun _ _ => by simp)) _
  | stream rd wr =>
    unfold dropObj dropObjSent
    simp only
    cases rd with
    | none =>
      cases wr with
      | none => exact Hands.refl w _
      | some x => simpa using dropWrite_hands w h x
    | some r =>
      cases wr with
      | none => simpa using dropRead_hands w h r
      | some x => exact (dropRead_hands w h r).trans (dropWrite_hands _ h x)

theorem foldl_dropObj_hands (h : Nat) (objs : List (Nat × Obj)) (w : World) :
    Hands w (objs.foldl (fun w p => w.dropObj h p.2) w) (dropObjsSent h w objs) := by
  induction objs generalizing w with
  | nil => exact Hands.refl w _
  | cons x xs ih => exact (dropObj_hands w h x.2).trans (ih _)

/-- one destructor: everything it hands to `netSend` over an open route is queued when it returns. -/
theorem dropObj_sent_inflight (w : World) (h : Nat) (o : Obj) (hn : NoFailCoin w) (e : Env)
    (he : e ∈ dropObjSent w h o) (ho : Open w h e.src e.dst) : e ∈ inflight (w.dropObj h o) := by
  have rd_case : ∀ r : RdH, e ∈ dropReadSent w h r → e ∈ inflight (w.dropRead h r) := by
    intro r her
    unfold dropReadSent at her
    cases hu : C02.hasUnread w h r with
    | false => simp [hu] at her
    | true =>
      simp only [hu, if_true, List.mem_singleton] at her
      subst her
      exact (dropRead_exact w h r hu hn ho).mem_iff.mpr (List.mem_append_right _ (List.mem_singleton.mpr rfl))
  have wr_case : ∀ (w1 : World) (x : WrH), NoFailCoin w1 → Open w1 h e.src e.dst → e ∈ dropWriteSent w1 h x →
      e ∈ inflight (w1.dropWrite h x) := by
    intro w1 x hn1 ho1 hew
    unfold dropWriteSent at hew
    cases hs : x.shutdown with
    | true => simp [hs] at hew
    | false =>
      simp only [hs, Bool.false_eq_true, if_false] at hew
      cases hf : findSock (w1.host! h) x.loc x.rem with
      | none => simp [hf] at hew
      | some i =>
        simp only [hf, List.mem_singleton] at hew
        subst hew
        exact (dropWrite_exact w1 h x i hs hf hn1 ho1).mem_iff.mpr (List.mem_append_right _ (List.mem_singleton.mpr rfl))
  cases o with
  | udp loc stash => simp [dropObjSent] at he
  | listener loc => simp [dropObjSent] at he
  | connecting id loc rem chan fcW => simp [dropObjSent] at he
  | stream rd wr =>
    unfold dropObjSent at he
    unfold dropObj
    simp only at he ⊢
    cases rd with
    | none =>
      cases wr with
      | none => simp at he
      | some x => exact wr_case w x hn ho (by simpa using he)
    | some r =>
      have hq := quiet_dropRead h h w r
      cases wr with
      | none => exact rd_case r (by simpa using he)
      | some x =>
        rcases List.mem_append.mp he with h1 | h1
        · exact (quiet_dropWrite h h _ x).keep (hq.coin hn) e (rd_case r h1)
        · exact wr_case _ x (hq.coin hn) (hq.opn hn _ _ ho) h1

/-- **the whole sweep**: every envelope any of the destructors hands to `netSend` over a route that is open
    when the sweep starts is queued when the sweep ends — no later destructor retracts it — provided no
    link-failure coin is drawn. -/
theorem foldl_sent_inflight (h : Nat) (objs : List (Nat × Obj)) (w : World) (hn : NoFailCoin w) (e : Env)
    (he : e ∈ dropObjsSent h w objs) (ho : Open w h e.src e.dst) :
    e ∈ inflight (objs.foldl (fun w p => w.dropObj h p.2) w) := by
  induction objs generalizing w with
  | nil => simp [dropObjsSent] at he
  | cons x xs ih =>
    simp only [List.foldl_cons]
    have hq := quiet_dropObj h h w x.2
    unfold dropObjsSent at he
    rcases List.mem_append.mp he with h1 | h1
    · exact (quiet_foldl_dropObj h h xs _).keep (hq.coin hn) e (dropObj_sent_inflight w h x.2 hn e h1 ho)
    · exact ih _ (hq.coin hn) h1 (hq.opn hn _ _ ho)

theorem host!_crashStart (w : World) (h : Nat) (hh : h < w.hosts.length) :
    (crashStart w h).host! h = { w.host! h with objs := [], lo := [] } := by
  unfold crashStart host!
  rw [hosts_dropEnvs]
  exact host!_setHost_self w h _ hh

theorem links_crashStart (w : World) (h : Nat) : (crashStart w h).links = w.links := by
  unfold crashStart; rw [WorldLinks.links_dropEnvs]; rfl

theorem nums_crashStart (w : World) (h : Nat) : (crashStart w h).hosts.map (·.ipnum) = w.hosts.map (·.ipnum) := by
  unfold crashStart; rw [hosts_dropEnvs]; exact map_setAt_same _ _ _ _ (fun _ => rfl)

theorem oracle_crashStart (w : World) (h : Nat) : (crashStart w h).oracle = w.oracle := by
  unfold crashStart; rw [oracle_dropEnvs]; rfl

theorem cfg_crashStart (w : World) (h : Nat) : (crashStart w h).cfg = w.cfg := by
  unfold crashStart; rw [cfg_dropEnvs]; rfl

theorem dropAll_sent_inflight (w : World) (h : Nat) (hn : NoFailCoin w) (e : Env) (he : e ∈ crashSent w h)
    (ho : Open w h e.src e.dst) : e ∈ inflight (w.dropAll h) := by
  rw [dropAll_eq]
  refine foldl_sent_inflight h _ _ ?_ e he (open_congr (links_crashStart w h) (nums_crashStart w h) h _ _ ho)
  unfold NoFailCoin at hn ⊢
  rw [oracle_crashStart]; exact hn

theorem inflight_setHost_lo (w : World) (h : Nat) (f : Host → Host) (hf : ∀ a, (f a).lo = a.lo)
    (hip : ∀ a, (f a).ipnum = a.ipnum) : inflight (w.setHost h f) = inflight w :=
  inflight_of_net (net_setHost w h f hf hip)

/-! ## 8. the table entry of one address pair through the sweep -/

section Lists
variable {α : Type}

theorem find?_findIdx? [Inhabited α] (l : List α) (P : α → Bool) (x : α) (h : l.find? P = some x) :
    ∃ i, l.findIdx? P = some i ∧ l.getD i default = x := by
  induction l with
  | nil => simp at h
  | cons y ys ih =>
    rw [List.find?_cons] at h
    cases hy : P y with
    | true =>
      simp only [hy] at h
      cases h
      exact ⟨0, by simp [List.findIdx?_cons, hy], rfl⟩
    | false =>
      simp only [hy] at h
      obtain ⟨i, hi, hx⟩ := ih h
      exact ⟨i + 1, by simp [List.findIdx?_cons, hy, hi], by simpa [List.getD] using hx⟩

theorem find?_eraseIdx_other (l : List α) (P : α → Bool) (j : Nat) (hj : ∀ y, l[j]? = some y → P y = false) :
    (l.eraseIdx j).find? P = l.find? P := by
  induction l generalizing j with
  | nil => rfl
  | cons x xs ih =>
    cases j with
    | zero =>
      have := hj x (by simp)
      simp [this]
    | succ k =>
      have := ih k (fun y hy => hj y (by simpa using hy))
      simp [List.find?_cons, this]

theorem find?_setAt_other (l : List α) (P : α → Bool) (j : Nat) (f : α → α)
    (hj : ∀ y, l[j]? = some y → P y = false ∧ P (f y) = false) : (setAt l j f).find? P = l.find? P := by
  induction l generalizing j with
  | nil => rfl
  | cons x xs ih =>
    cases j with
    | zero =>
      have := hj x (by simp)
      simp [setAt, this.1, this.2]
    | succ k =>
      have := ih k (fun y hy => hj y (by simpa using hy))
      simp [setAt, List.find?_cons, this]

theorem getElem?_of_findIdx? (l : List α) (P : α → Bool) (i : Nat) (h : l.findIdx? P = some i) :
    ∃ y, l[i]? = some y ∧ P y = true := by
  obtain ⟨hi, hp, _⟩ := List.findIdx?_eq_some_iff_getElem.mp h
  exact ⟨l[i], List.getElem?_eq_getElem hi, hp⟩

end Lists

/-- the table lookup of `Tcp::sockets` for the pair `p`. -/
def pmatch (p : Pair) : Sock → Bool := fun s => s.loc == p.1 && s.rem == p.2

theorem pmatch_iff (p : Pair) (s : Sock) : pmatch p s = true ↔ pairOf s = p := by
  obtain ⟨a, b⟩ := p
  exact matchPair s a b

theorem pmatch_other {p q : Pair} {s : Sock} (hs : pmatch q s = true) (hne : q ≠ p) : pmatch p s = false := by
  cases h : pmatch p s with
  | false => rfl
  | true => exact absurd (((pmatch_iff q s).mp hs).symm.trans ((pmatch_iff p s).mp h)) hne

/-- the stream table still has the entry of pair `p`, with at least `k` half-close references and
    `next_send_seq = q`; nothing is claimed for `k = 0` (no half of that pair is left to be dropped). -/
def Ent (socks : List Sock) (p : Pair) (k q : Nat) : Prop :=
  k = 0 ∨ ∃ sk, socks.find? (pmatch p) = some sk ∧ k ≤ sk.refCt ∧ sk.nextSendSeq = q

theorem Ent.mono {socks : List Sock} {p : Pair} {k k' q : Nat} (h : Ent socks p k q) (hk : k' ≤ k) : Ent socks p k' q := by
  rcases h with h | ⟨sk, h1, h2, h3⟩
  · exact Or.inl (by omega)
  · exact Or.inr ⟨sk, h1, by omega, h3⟩

theorem Ent.of_find {socks socks' : List Sock} {p : Pair} {k q : Nat} (h : Ent socks p k q)
    (e : socks'.find? (pmatch p) = socks.find? (pmatch p)) : Ent socks' p k q := by
  rcases h with h | ⟨sk, h1, h2, h3⟩
  · exact Or.inl h
  · exact Or.inr ⟨sk, by rw [e]; exact h1, h2, h3⟩

/-- `close_stream_half` of the same pair uses up one reference. -/
theorem ent_closeHalf_same (socks : List Sock) (p : Pair) (k q : Nat) (hE : Ent socks p (k + 1) q) :
    Ent (closeHalfList socks p.1 p.2).1 p k q := by
  cases k with
  | zero => exact Or.inl rfl
  | succ k =>
    rcases hE with h | ⟨sk, h1, h2, h3⟩
    · omega
    · obtain ⟨i, hi, hx⟩ := find?_findIdx? socks (pmatch p) sk h1
      unfold closeHalfList
      have hi' : socks.findIdx? (fun s => s.loc == p.1 && s.rem == p.2) = some i := hi
      simp only [hi', hx]
      have hnot : ¬ sk.refCt ≤ 1 := by omega
      simp only [hnot, if_false]
      refine Or.inr ⟨{ sk with refCt := sk.refCt - 1 }, ?_, ?_, h3⟩
      · have := C09.find?_setAt_first socks (pmatch p) (fun s => { s with refCt := s.refCt - 1 }) i (fun _ => rfl) hi
        rw [this, h1]
        rfl
      · show k + 1 ≤ sk.refCt - 1
        omega

/-- `close_stream_half` of another pair leaves the entry alone. -/
theorem ent_closeHalf_other (socks : List Sock) (p : Pair) (loc rem : Addr) (k q : Nat) (hne : (loc, rem) ≠ p)
    (hE : Ent socks p k q) : Ent (closeHalfList socks loc rem).1 p k q := by
  unfold closeHalfList
  cases hf : socks.findIdx? (fun s => s.loc == loc && s.rem == rem) with
  | none => exact hE
  | some i =>
    simp only
    obtain ⟨y, hy, hpy⟩ := getElem?_of_findIdx? socks _ i hf
    have hpy' : pmatch (loc, rem) y = true := hpy
    have hno : pmatch p y = false := pmatch_other hpy' hne
    split
    · exact hE.of_find (find?_eraseIdx_other socks (pmatch p) i (fun z hz => by rw [hy] at hz; cases hz; exact hno))
    · refine hE.of_find (find?_setAt_other socks (pmatch p) i _ (fun z hz => ?_))
      rw [hy] at hz; cases hz
      exact ⟨hno, hno⟩

theorem ent_erase_other (socks : List Sock) (p : Pair) (loc rem : Addr) (i k q : Nat) (hne : (loc, rem) ≠ p)
    (hf : socks.findIdx? (fun s => s.loc == loc && s.rem == rem) = some i) (hE : Ent socks p k q) :
    Ent (socks.eraseIdx i) p k q := by
  obtain ⟨y, hy, hpy⟩ := getElem?_of_findIdx? socks _ i hf
  have hpy' : pmatch (loc, rem) y = true := hpy
  have hno : pmatch p y = false := pmatch_other hpy' hne
  exact hE.of_find (find?_eraseIdx_other socks (pmatch p) i (fun z hz => by rw [hy] at hz; cases hz; exact hno))

theorem ent_bump_other (socks : List Sock) (p : Pair) (loc rem : Addr) (i k q : Nat) (hne : (loc, rem) ≠ p)
    (hf : socks.findIdx? (fun s => s.loc == loc && s.rem == rem) = some i) (hE : Ent socks p k q) :
    Ent (setAt socks i (fun s => { s with nextSendSeq := s.nextSendSeq + 1 })) p k q := by
  obtain ⟨y, hy, hpy⟩ := getElem?_of_findIdx? socks _ i hf
  have hpy' : pmatch (loc, rem) y = true := hpy
  have hno : pmatch p y = false := pmatch_other hpy' hne
  refine hE.of_find (find?_setAt_other socks (pmatch p) i _ (fun z hz => ?_))
  rw [hy] at hz; cases hz
  exact ⟨hno, hno⟩

/-- … at world level, for host `h`. -/
def EntW (w : World) (h : Nat) (p : Pair) (k q : Nat) : Prop := Ent (w.host! h).socks p k q

theorem EntW.of_socks {w w' : World} {h : Nat} {p : Pair} {k q : Nat} (hE : EntW w h p k q)
    (e : (w'.host! h).socks = (w.host! h).socks) : EntW w' h p k q := by
  unfold EntW at hE ⊢; rw [e]; exact hE

theorem socks_removeSock (w : World) (h : Nat) (loc rem : Addr) (hh : h < w.hosts.length) :
    ((w.removeSock h loc rem).host! h).socks =
      match findSock (w.host! h) loc rem with
      | none => (w.host! h).socks
      | some i => (w.host! h).socks.eraseIdx i := by
  unfold removeSock
  cases hf : findSock (w.host! h) loc rem with
  | none => rfl
  | some i =>
    simp only
    rw [C12.host!_setChan, host!_setHost_self _ _ _ hh]

theorem entW_removeSock_other (w : World) (h : Nat) (p : Pair) (loc rem : Addr) (k q : Nat) (hh : h < w.hosts.length)
    (hne : (loc, rem) ≠ p) (hE : EntW w h p k q) : EntW (w.removeSock h loc rem) h p k q := by
  unfold EntW at hE ⊢
  rw [socks_removeSock w h loc rem hh]
  cases hf : findSock (w.host! h) loc rem with
  | none => exact hE
  | some i => exact ent_erase_other _ p loc rem i k q hne hf hE

theorem entW_closeStreamHalf_other (w : World) (h : Nat) (p : Pair) (loc rem : Addr) (k q : Nat) (hh : h < w.hosts.length)
    (hne : (loc, rem) ≠ p) (hE : EntW w h p k q) : EntW (w.closeStreamHalf h loc rem) h p k q := by
  unfold EntW at hE ⊢
  rw [socks_closeStreamHalf h w loc rem hh]
  exact ent_closeHalf_other _ p loc rem k q hne hE

theorem entW_closeStreamHalf_same (w : World) (h : Nat) (p : Pair) (k q : Nat) (hh : h < w.hosts.length)
    (hE : EntW w h p (k + 1) q) : EntW (w.closeStreamHalf h p.1 p.2) h p k q := by
  unfold EntW at hE ⊢
  rw [socks_closeStreamHalf h w p.1 p.2 hh]
  exact ent_closeHalf_same _ p k q hE

/-- an envelope that tells the peer of pair `p`: the RST, or the FIN numbered `q`. -/
def isNotice (p : Pair) (q : Nat) (e : Env) : Prop := e.src = p.1 ∧ e.dst = p.2 ∧ (e.msg = .rst ∨ e.msg = .fin q)

/-- **one read half**: either its RST tells the peer of pair `p`, or the entry of `p` survives with the
    references the remaining halves need. -/
theorem read_step (w : World) (h : Nat) (r : RdH) (p : Pair) (m q : Nat) (hh : h < w.hosts.length)
    (hE : EntW w h p ((if p = (r.loc, r.rem) then 1 else 0) + m) q) :
    (∃ e ∈ dropReadSent w h r, isNotice p q e) ∨ EntW (w.dropRead h r) h p m q := by
  have hh1 : h < (w.setChan r.chan fun c => { c with rxAlive := false }).hosts.length := hh
  have hE1 : EntW (w.setChan r.chan fun c => { c with rxAlive := false }) h p ((if p = (r.loc, r.rem) then 1 else 0) + m) q := hE
  cases hu : C02.hasUnread w h r with
  | true =>
    by_cases hp : p = (r.loc, r.rem)
    · left
      refine ⟨rstEnv r, by simp [dropReadSent, hu], ?_⟩
      rw [hp]
      exact ⟨rfl, rfl, Or.inl rfl⟩
    · right
      rw [if_neg hp, Nat.zero_add] at hE1
      rw [dropRead_unread w h r hu]
      have hl : h < ((w.setChan r.chan fun c => { c with rxAlive := false }).netSend h (rstEnv r)).2.hosts.length := by
        rw [len_netSend]; exact hh1
      have h2 : EntW ((w.setChan r.chan fun c => { c with rxAlive := false }).netSend h (rstEnv r)).2 h p m q :=
        hE1.of_socks (keepsS_netSend h _ _)
      have h3 := entW_removeSock_other _ h p r.loc r.rem m q hl (fun e => hp e.symm) h2
      exact h3.of_socks (by rw [C12.host!_tag])
  | false =>
    right
    rw [dropRead_read w h r hu]
    by_cases hp : p = (r.loc, r.rem)
    · rw [if_pos hp, Nat.add_comm] at hE1
      have := entW_closeStreamHalf_same _ h p m q hh1 hE1
      rw [hp] at this ⊢
      exact this
    · rw [if_neg hp, Nat.zero_add] at hE1
      exact entW_closeStreamHalf_other _ h p r.loc r.rem m q hh1 (fun e => hp e.symm) hE1

theorem findSock_of_ent {w : World} {h : Nat} {p : Pair} {k q : Nat} (hE : EntW w h p (k + 1) q) :
    ∃ i, findSock (w.host! h) p.1 p.2 = some i ∧ (C02.sockAt w h i).nextSendSeq = q := by
  rcases hE with hE | ⟨sk, h1, _, h3⟩
  · omega
  · obtain ⟨i, hi, hx⟩ := find?_findIdx? _ (pmatch p) sk h1
    exact ⟨i, hi, by unfold C02.sockAt; rw [hx]; exact h3⟩

/-- **one write half**: either its FIN tells the peer of pair `p`, or the entry of `p` survives. -/
theorem write_step (w : World) (h : Nat) (x : WrH) (p : Pair) (m q : Nat) (hh : h < w.hosts.length)
    (hE : EntW w h p ((if p = (x.loc, x.rem) then 1 else 0) + m) q) :
    (∃ e ∈ dropWriteSent w h x, isNotice p q e) ∨ EntW (w.dropWrite h x) h p m q := by
  by_cases hp : p = (x.loc, x.rem)
  · rw [if_pos hp, Nat.add_comm] at hE
    cases hs : x.shutdown with
    | true =>
      right
      rw [dropWrite_nofin w h x (Or.inl hs)]
      have := entW_closeStreamHalf_same w h p m q hh hE
      rw [hp] at this ⊢
      exact this
    | false =>
      left
      obtain ⟨i, hi, hq⟩ := findSock_of_ent hE
      rw [hp] at hi
      refine ⟨finEnv x q, ?_, ?_⟩
      · unfold dropWriteSent
        simp only [hs, Bool.false_eq_true, if_false]
        have hi' : findSock (w.host! h) x.loc x.rem = some i := hi
        rw [hi']
        simp [hq]
      · rw [hp]
        exact ⟨rfl, rfl, Or.inr rfl⟩
  · right
    rw [if_neg hp, Nat.zero_add] at hE
    by_cases hno : x.shutdown = true ∨ findSock (w.host! h) x.loc x.rem = none
    · rw [dropWrite_nofin w h x hno]
      exact entW_closeStreamHalf_other w h p x.loc x.rem m q hh (fun e => hp e.symm) hE
    · have hs : x.shutdown = false := by
        cases hs : x.shutdown with
        | false => rfl
        | true => exact absurd (Or.inl hs) hno
      cases hf : findSock (w.host! h) x.loc x.rem with
      | none => exact absurd (Or.inr hf) hno
      | some i =>
        rw [dropWrite_fin w h x i hs hf]
        have hl1 : h < (w.setHost h (C02.bumpSeq i)).hosts.length := by simpa [setHost] using hh
        have h1 : EntW (w.setHost h (C02.bumpSeq i)) h p m q := by
          unfold EntW at hE ⊢
          rw [host!_setHost_self _ _ _ hh]
          exact ent_bump_other _ p x.loc x.rem i m q (fun e => hp e.symm) hf hE
        have hl2 : h < ((w.setHost h (C02.bumpSeq i)).netSend h (finEnv x (C02.sockAt w h i).nextSendSeq)).2.hosts.length := by
          rw [len_netSend]; exact hl1
        have h2 : EntW ((w.setHost h (C02.bumpSeq i)).netSend h (finEnv x (C02.sockAt w h i).nextSendSeq)).2 h p m q :=
          h1.of_socks (keepsS_netSend h _ _)
        exact entW_closeStreamHalf_other _ h p x.loc x.rem m q hl2 (fun e => hp e.symm) h2

/-- an open write half of pair `p` whose entry exists: its FIN tells the peer. -/
theorem write_target (w : World) (h : Nat) (x : WrH) (p : Pair) (m q : Nat) (hx : (x.loc, x.rem) = p)
    (hs : x.shutdown = false) (hE : EntW w h p (m + 1) q) : ∃ e ∈ dropWriteSent w h x, isNotice p q e := by
  obtain ⟨i, hi, hq⟩ := findSock_of_ent hE
  rw [← hx] at hi
  refine ⟨finEnv x q, ?_, ?_⟩
  · unfold dropWriteSent
    simp only [hs, Bool.false_eq_true, if_false]
    have hi' : findSock (w.host! h) x.loc x.rem = some i := hi
    rw [hi']
    simp [hq]
  · rw [← hx]
    exact ⟨rfl, rfl, Or.inr rfl⟩

/-- no pending connect of the host sits on pair `p` (its destructor, with the connect-leak repair, removes the
    table entry of its own pair without telling anybody). -/
def NoConnAt (fix : Bool) (objs : List (Nat × Obj)) (p : Pair) : Prop :=
  fix = true → ∀ o ∈ objs, ∀ id loc rem c f, o.2 = .connecting id loc rem c f → (loc, rem) ≠ p

theorem socks_dropObj_bind (w : World) (h : Nat) (o : Obj) (ho : (∃ a b, o = .udp a b) ∨ (∃ a, o = .listener a)) :
    ((w.dropObj h o).host! h).socks = (w.host! h).socks := by
  rcases ho with ⟨a, b, rfl⟩ | ⟨a, rfl⟩
  · show KeepsS h w _
    unfold dropObj udpUnbind
    simp only
    refine KeepsS.trans ?_ (keepsS_setHost h _ _ (fun _ => rfl))
    split
    · exact keepsS_of_hosts rfl
    · exact keepsS_of_hosts (by rw [hosts_panic]; rfl)
  · show KeepsS h w _
    unfold dropObj tcpUnbind
    simp only
    split
    · exact keepsS_of_hosts (hosts_panic w _)
    · refine KeepsS.trans ?_ (keepsS_of_hosts (hosts_foldl_dropSyn _ _))
      exact keepsS_setHost h w _ (fun _ => rfl)

theorem contrib_stream (rd : Option RdH) (wr : Option WrH) (p : Pair) :
    contrib false (.stream rd wr) p =
      (match rd with | some r => if p = (r.loc, r.rem) then 1 else 0 | none => 0) +
      (match wr with | some x => if p = (x.loc, x.rem) then 1 else 0 | none => 0) := rfl

/-- **one destructor**: either it tells the peer of pair `p`, or the entry of `p` survives with the
    references the objects still to be dropped need. -/
theorem dropObj_step (w : World) (h : Nat) (o : Obj) (p : Pair) (k q : Nat) (hh : h < w.hosts.length)
    (hc : w.cfg.fixConnectLeak = true → ∀ id loc rem c f, o = .connecting id loc rem c f → (loc, rem) ≠ p)
    (hE : EntW w h p (contrib false o p + k) q) :
    (∃ e ∈ dropObjSent w h o, isNotice p q e) ∨ EntW (w.dropObj h o) h p k q := by
  cases o with
  | udp loc stash =>
    right
    have : contrib false (.udp loc stash) p = 0 := rfl
    rw [this, Nat.zero_add] at hE
    exact hE.of_socks (socks_dropObj_bind w h _ (Or.inl ⟨_, _, rfl⟩))
  | listener loc =>
    right
    have : contrib false (.listener loc) p = 0 := rfl
    rw [this, Nat.zero_add] at hE
    exact hE.of_socks (socks_dropObj_bind w h _ (Or.inr ⟨_, rfl⟩))
  | connecting id loc rem chan fcW =>
    right
    have : contrib false (.connecting id loc rem chan fcW) p = 0 := by simp [contrib]
    rw [this, Nat.zero_add] at hE
    unfold dropObj
    simp only
    have hk : KeepsS h w (({ w with syns := setAt w.syns id fun c => { c with rxAlive := false } }.setChan chan
        fun c => { c with rxAlive := false }).tag "connectdropped") := keepsS_tag _ (keepsS_of_hosts rfl)
    have hl : h < (({ w with syns := setAt w.syns id fun c => { c with rxAlive := false } }.setChan chan
        fun c => { c with rxAlive := false }).tag "connectdropped").hosts.length := by rw [hosts_tag]; exact hh
    have hcf : (({ w with syns := setAt w.syns id fun c => { c with rxAlive := false } }.setChan chan
        fun c => { c with rxAlive := false }).tag "connectdropped").cfg = w.cfg := by rw [cfg_tag]; rfl
    rw [hcf]
    split
    · rename_i hfix
      exact entW_removeSock_other _ h p loc rem k q hl (hc hfix id loc rem chan fcW rfl) (hE.of_socks hk)
    · exact hE.of_socks hk
  | stream rd wr =>
    unfold dropObj dropObjSent
    simp only
    rw [contrib_stream] at hE
    cases rd with
    | none =>
      simp only [Nat.zero_add] at hE
      cases wr with
      | none =>
        right
        simpa using hE
      | some x =>
        simp only at hE
        rcases write_step w h x p k q hh hE with ⟨e, he, hn⟩ | h2
        · exact Or.inl ⟨e, by simpa using he, hn⟩
        · exact Or.inr h2
    | some r =>
      simp only at hE
      rw [Nat.add_assoc] at hE
      rcases read_step w h r p _ q hh hE with ⟨e, he, hn⟩ | h1
      · exact Or.inl ⟨e, List.mem_append_left _ he, hn⟩
      · have hl1 : h < (w.dropRead h r).hosts.length := by rw [(only_dropRead h w r).2]; exact hh
        cases wr with
        | none =>
          right
          simpa using h1
        | some x =>
          simp only at h1
          rcases write_step _ h x p k q hl1 h1 with ⟨e, he, hn⟩ | h2
          · exact Or.inl ⟨e, List.mem_append_right _ he, hn⟩
          · exact Or.inr h2

/-- the object that holds an open write half of pair `p`: it does tell the peer. -/
theorem dropObj_target (w : World) (h : Nat) (rd : Option RdH) (x : WrH) (p : Pair) (k q : Nat) (hh : h < w.hosts.length)
    (hx : (x.loc, x.rem) = p) (hs : x.shutdown = false)
    (hE : EntW w h p (contrib false (.stream rd (some x)) p + k) q) :
    ∃ e ∈ dropObjSent w h (.stream rd (some x)), isNotice p q e := by
  unfold dropObjSent
  simp only
  rw [contrib_stream] at hE
  simp only [if_pos hx.symm] at hE
  cases rd with
  | none =>
    simp only [Nat.zero_add] at hE
    rw [Nat.add_comm] at hE
    obtain ⟨e, he, hn⟩ := write_target w h x p k q hx hs hE
    exact ⟨e, by simpa using he, hn⟩
  | some r =>
    simp only at hE
    rw [Nat.add_assoc] at hE
    rcases read_step w h r p _ q hh hE with ⟨e, he, hn⟩ | h1
    · exact ⟨e, List.mem_append_left _ he, hn⟩
    · rw [Nat.add_comm] at h1
      obtain ⟨e, he, hn⟩ := write_target _ h x p k q hx hs h1
      exact ⟨e, List.mem_append_right _ he, hn⟩

/-- **the whole sweep tells the peer**: if the entry of pair `p` is backed by as many references as the
    objects to be dropped hold halves of `p`, and one of them holds an open write half of `p`, then a RST or
    the FIN numbered with the entry's `next_send_seq` for `p` is handed to `netSend` during the sweep. -/
theorem foldl_told (h : Nat) (p : Pair) (q : Nat) : ∀ (objs : List (Nat × Obj)) (w : World), h < w.hosts.length →
    NoConnAt w.cfg.fixConnectLeak objs p → EntW w h p (avail false objs p) q →
    (∃ s rd x, (s, Obj.stream rd (some x)) ∈ objs ∧ (x.loc, x.rem) = p ∧ x.shutdown = false) →
    ∃ e ∈ dropObjsSent h w objs, isNotice p q e
  | [], _, _, _, _, ht => by
    obtain ⟨s, rd, x, hm, _⟩ := ht
    exact absurd hm (by simp)
  | o :: os, w, hh, hc, hE, ht => by
    have hav : avail false (o :: os) p = contrib false o.2 p + avail false os p := by simp [avail]
    rw [hav] at hE
    unfold dropObjsSent
    obtain ⟨s, rd, x, hm, hx, hs⟩ := ht
    rcases List.mem_cons.mp hm with e | hm'
    · have ho : o.2 = .stream rd (some x) := by rw [← e]
      rw [ho] at hE ⊢
      obtain ⟨e', he', hn⟩ := dropObj_target w h rd x p _ q hh hx hs hE
      exact ⟨e', List.mem_append_left _ he', hn⟩
    · have hco : w.cfg.fixConnectLeak = true → ∀ id loc rem c f, o.2 = .connecting id loc rem c f → (loc, rem) ≠ p :=
        fun hfix id loc rem c f e => hc hfix o (by simp) id loc rem c f e
      rcases dropObj_step w h o.2 p _ q hh hco hE with ⟨e', he', hn⟩ | h1
      · exact ⟨e', List.mem_append_left _ he', hn⟩
      · have hl : h < (w.dropObj h o.2).hosts.length := by rw [length_dropObj]; exact hh
        have hc' : NoConnAt (w.dropObj h o.2).cfg.fixConnectLeak os p := by
          rw [cfg_dropObj]
          exact fun hfix o' ho' => hc hfix o' (List.mem_cons_of_mem _ ho')
        obtain ⟨e', he', hn⟩ := foldl_told h p q os (w.dropObj h o.2) hl hc' h1 ⟨s, rd, x, hm', hx, hs⟩
        exact ⟨e', List.mem_append_right _ he', hn⟩

/-- … for `crash` / `bounce`. -/
theorem dropAll_told (w : World) (h : Nat) (hh : h < w.hosts.length) (p : Pair) (sk : Sock)
    (hfind : (w.host! h).socks.find? (pmatch p) = some sk) (hback : avail false (w.host! h).objs p ≤ sk.refCt)
    (hconn : NoConnAt w.cfg.fixConnectLeak (w.host! h).objs p)
    (ht : ∃ s rd x, (s, Obj.stream rd (some x)) ∈ (w.host! h).objs ∧ (x.loc, x.rem) = p ∧ x.shutdown = false) :
    ∃ e ∈ crashSent w h, isNotice p sk.nextSendSeq e := by
  unfold crashSent
  have hl : h < (crashStart w h).hosts.length := by
    unfold crashStart; rw [hosts_dropEnvs]; simpa [setHost] using hh
  apply foldl_told h p sk.nextSendSeq (crashObjs w h) (crashStart w h) hl
  · rw [cfg_crashStart]
    intro hfix o ho
    exact hconn hfix o ((List.mem_mergeSort).mp ho)
  · unfold EntW
    rw [host!_crashStart w h hh]
    simp only
    refine Or.inr ⟨sk, hfind, ?_, rfl⟩
    unfold crashObjs
    rw [avail_perm false (List.mergeSort_perm _ _) p]
    exact hback
  · obtain ⟨s, rd, x, hm, hx, hs⟩ := ht
    exact ⟨s, rd, x, (List.mem_mergeSort).mpr hm, hx, hs⟩

/-! ## 9. pending connects and listeners in the sweep -/

/-- the destructor of a pending connect marks its one-shot cell: the connector is gone. -/
theorem dropObj_conn_dead (w : World) (h id : Nat) (loc rem : Addr) (c f : Nat) (hid : id < w.syns.length) :
    ((w.dropObj h (.connecting id loc rem c f)).syns.getD id default).rxAlive = false := by
  have h0 : (({ w with syns := setAt w.syns id (fun c => { c with rxAlive := false }) } : World).syns.getD id default).rxAlive
      = false := by
    simp only
    rw [setAt_getD _ _ _ _ hid]
  have hq : Quiet h ({ w with syns := setAt w.syns id (fun c => { c with rxAlive := false }) } : World)
      (w.dropObj h (.connecting id loc rem c f)) := by
    unfold dropObj
    simp only
    have h3 := (quiet_setChan h ({ w with syns := setAt w.syns id (fun c => { c with rxAlive := false }) } : World) c _
      chLe_rxGone).trans (quiet_tag h _ "connectdropped")
    split
    · exact h3.trans (quiet_removeSock h h _ _ _)
    · exact h3
  exact (hq.cells id).2 h0

theorem foldl_conn_dead (h id : Nat) : ∀ (objs : List (Nat × Obj)) (w : World), id < w.syns.length →
    (∃ s loc rem c f, (s, Obj.connecting id loc rem c f) ∈ objs) →
    ((objs.foldl (fun w p => w.dropObj h p.2) w).syns.getD id default).rxAlive = false
  | [], _, _, ht => by
    obtain ⟨s, loc, rem, c, f, hm⟩ := ht
    exact absurd hm (by simp)
  | o :: os, w, hid, ht => by
    simp only [List.foldl_cons]
    obtain ⟨s, loc, rem, c, f, hm⟩ := ht
    rcases List.mem_cons.mp hm with e | hm'
    · have ho : o.2 = .connecting id loc rem c f := by rw [← e]
      rw [ho]
      exact ((quiet_foldl_dropObj h h os _).cells id).2 (dropObj_conn_dead w h id loc rem c f hid)
    · exact foldl_conn_dead h id os _ (by rw [(quiet_dropObj h h w o.2).synLen]; exact hid) ⟨s, loc, rem, c, f, hm'⟩

theorem quiet_crashStart_syn (h : Nat) (w : World) :
    (crashStart w h).syns.length = w.syns.length ∧
    ∀ id, cellLe (w.syns.getD id default) ((crashStart w h).syns.getD id default) := by
  unfold crashStart
  have hq := quiet_dropEnvs h (w.setHost h (fun hs => { hs with objs := [], lo := [] })) (w.host! h).lo
  exact ⟨hq.synLen, hq.cells⟩

/-- **after the sweep the connector of every pending connect the host held is gone.** -/
theorem dropAll_conn_dead (w : World) (h id s : Nat) (loc rem : Addr) (c f : Nat) (hid : id < w.syns.length)
    (hm : (s, Obj.connecting id loc rem c f) ∈ (w.host! h).objs) : (w.dropAll h).synAlive id = false := by
  have hr : ((w.dropAll h).syns.getD id default).rxAlive = false := by
    rw [dropAll_eq]
    exact foldl_conn_dead h id _ _ (by rw [(quiet_crashStart_syn h w).1]; exact hid)
      ⟨s, loc, rem, c, f, (List.mem_mergeSort).mpr hm⟩
  unfold synAlive
  simp only [hr, Bool.false_and]

theorem find?_filter_keep {α : Type} (l : List α) (keep P : α → Bool) (hk : ∀ x, P x = true → keep x = true) :
    (l.filter keep).find? P = l.find? P := by
  induction l with
  | nil => rfl
  | cons x xs ih =>
    cases hx : P x with
    | true => simp [hk x hx, hx]
    | false =>
      cases hkx : keep x with
      | true => simp [hkx, hx, ih]
      | false => simp [hkx, hx, ih]

theorem st_dropped_of_le {x y : SynCell} (h : cellLe x y) (hx : x.st = .dropped) : y.st = .dropped := by
  rcases h.1 with e | ⟨e, _⟩
  · rw [e]; exact hx
  · rw [hx] at e; exact absurd e (by decide)

theorem st_notAcked_of_le {x y : SynCell} (h : cellLe x y) (hx : x.st ≠ .acked) : y.st ≠ .acked := by
  rcases h.1 with e | ⟨_, e⟩
  · rw [e]; exact hx
  · rw [e]; decide

/-- the destructor of a listener on port `P` refuses every request queued on the bind of `P`. -/
theorem tcpUnbind_refuses (w : World) (h P : Nat) (b : TcpBind) (r : SynReq)
    (hb : (w.host! h).tcpBinds.find? (·.port == P) = some b) (hr : r ∈ b.deque) (hid : r.id < w.syns.length)
    (hna : (w.syns.getD r.id default).st ≠ .acked) :
    ((w.tcpUnbind h P).syns.getD r.id default).st = .dropped := by
  unfold tcpUnbind
  rw [hb]
  simp only
  cases hst : (w.syns.getD r.id default).st with
  | acked => exact absurd hst hna
  | pending => exact C12.foldl_dropSyn_drops _ _ r.id hid hst ⟨r, hr, rfl⟩
  | dropped => exact C12.foldl_dropSyn_keeps_dropped _ _ r.id hst

theorem foldl_listener_refuses (h P : Nat) (b : TcpBind) (r : SynReq) (hr : r ∈ b.deque) :
    ∀ (objs : List (Nat × Obj)) (w : World), h < w.hosts.length →
    (w.host! h).tcpBinds.find? (·.port == P) = some b → r.id < w.syns.length →
    (w.syns.getD r.id default).st ≠ .acked →
    (∃ s lloc, (s, Obj.listener lloc) ∈ objs ∧ lloc.port = P) →
    ((objs.foldl (fun w p => w.dropObj h p.2) w).syns.getD r.id default).st = .dropped
  | [], _, _, _, _, _, ht => by
    obtain ⟨s, lloc, hm, _⟩ := ht
    exact absurd hm (by simp)
  | o :: os, w, hh, hb, hid, hna, ht => by
    simp only [List.foldl_cons]
    by_cases hl : ∃ lloc, o.2 = .listener lloc ∧ lloc.port = P
    · obtain ⟨lloc, ho, hp⟩ := hl
      have hd : ((w.dropObj h o.2).syns.getD r.id default).st = .dropped := by
        rw [ho]
        unfold dropObj
        simp only
        rw [hp]
        exact tcpUnbind_refuses w h P b r hb hr hid hna
      exact st_dropped_of_le ((quiet_foldl_dropObj h h os _).cells r.id) hd
    · have hq := quiet_dropObj h h w o.2
      apply foldl_listener_refuses h P b r hr os (w.dropObj h o.2)
      · rw [length_dropObj]; exact hh
      · rw [(dropObj_binds h w o.2 hh).2]
        rw [find?_filter_keep _ _ _ (fun x hx => ?_)]
        · exact hb
        · unfold lisKeep lisPortOf
          cases ho : o.2 with
          | listener lloc =>
            simp only
            have hne : lloc.port ≠ P := fun e => hl ⟨lloc, ho, e⟩
            have hxp : x.port = P := by simpa using hx
            simp [hxp, Ne.symm hne]
          | udp _ _ => rfl
          | connecting _ _ _ _ _ => rfl
          | stream _ _ => rfl
      · rw [hq.synLen]; exact hid
      · exact st_notAcked_of_le (hq.cells r.id) hna
      · obtain ⟨s, lloc, hm, hp⟩ := ht
        rcases List.mem_cons.mp hm with e | hm'
        · exact absurd ⟨lloc, by rw [← e], hp⟩ hl
        · exact ⟨s, lloc, hm', hp⟩

/-- **after the sweep every request that was queued at a listener the host held is refused** (its one-shot
    is dropped), unless it had been accepted already. -/
theorem dropAll_listener_refuses (w : World) (h s : Nat) (lloc : Addr) (r : SynReq) (hh : h < w.hosts.length)
    (hm : (s, Obj.listener lloc) ∈ (w.host! h).objs) (hr : r ∈ C12.pendingQueue w h lloc.port)
    (hid : r.id < w.syns.length) (hna : (w.syns.getD r.id default).st ≠ .acked) :
    ((w.dropAll h).syns.getD r.id default).st = .dropped := by
  obtain ⟨bi, hbi⟩ := C12.bind_of_pendingQueue_ne w h lloc.port (List.ne_nil_of_mem hr)
  have hfind := C12.find?_of_findIdx? _ _ _ hbi
  rw [C12.pendingQueue_of_bind w h lloc.port bi hbi] at hr
  have hqs := quiet_crashStart_syn h w
  rw [dropAll_eq]
  apply foldl_listener_refuses h lloc.port _ r hr (crashObjs w h) (crashStart w h)
  · unfold crashStart; rw [hosts_dropEnvs]; simpa [setHost] using hh
  · rw [host!_crashStart w h hh]; exact hfind
  · rw [hqs.1]; exact hid
  · exact st_notAcked_of_le (hqs.2 r.id) hna
  · exact ⟨s, lloc, (List.mem_mergeSort).mpr hm, rfl⟩

/-! ## 10. channels of other hosts through the sweep -/

/-- the receiver flag of channel `c` is what it was. -/
def RxKeep (c : Nat) (w w' : World) : Prop := (w'.chan! c).rxAlive = (w.chan! c).rxAlive

theorem RxKeep.refl (c : Nat) (w : World) : RxKeep c w w := rfl
theorem RxKeep.trans {c : Nat} {x y z : World} (h1 : RxKeep c x y) (h2 : RxKeep c y z) : RxKeep c x z :=
  Eq.trans h2 h1
theorem rxKeep_of_chans {c : Nat} {w w' : World} (e : w'.chans = w.chans) : RxKeep c w w' := by
  unfold RxKeep chan!; rw [e]

theorem rxKeep_setChan_tx (c c' : Nat) (w : World) :
    RxKeep c w (w.setChan c' fun ch => { ch with txAlive := false }) := by
  unfold RxKeep chan! setChan
  exact (getD_setAt_rel (fun x y : Chan => x.rxAlive = y.rxAlive) (fun _ => rfl) w.chans c'
    (fun ch => { ch with txAlive := false }) (fun _ => rfl) _ c).symm

theorem rxKeep_setChan_ne (c c' : Nat) (w : World) (f : Chan → Chan) (hne : c ≠ c') : RxKeep c w (w.setChan c' f) := by
  unfold RxKeep chan! setChan
  simp only
  rw [C12.getD_setAt_ne _ _ _ _ _ hne]

@[simp] theorem chans_sendMessage (w : World) (e : Env) : (w.sendMessage e).2.chans = w.chans := by
  unfold sendMessage
  repeat' split
  all_goals simp

@[simp] theorem chans_netSend (w : World) (h : Nat) (e : Env) : (w.netSend h e).2.chans = w.chans := by
  unfold netSend sendLoopback
  split <;> simp

theorem rxKeep_removeSock (c h : Nat) (w : World) (loc rem : Addr) : RxKeep c w (w.removeSock h loc rem) := by
  unfold removeSock
  split
  · exact RxKeep.refl c w
  · exact (rxKeep_of_chans (chans_setHost _ _ _)).trans (rxKeep_setChan_tx c _ _)

theorem rxKeep_closeStreamHalf (c h : Nat) (w : World) (loc rem : Addr) : RxKeep c w (w.closeStreamHalf h loc rem) := by
  unfold closeStreamHalf
  simp only
  split
  · exact (rxKeep_of_chans (chans_setHost _ _ _)).trans (rxKeep_setChan_tx c _ _)
  · exact rxKeep_of_chans (chans_setHost _ _ _)

theorem rxKeep_dropRead (c h : Nat) (w : World) (r : RdH) (hne : c ≠ r.chan) : RxKeep c w (w.dropRead h r) := by
  have h0 : RxKeep c w (w.setChan r.chan fun ch => { ch with rxAlive := false }) := rxKeep_setChan_ne c r.chan w _ hne
  cases hu : C02.hasUnread w h r with
  | true =>
    rw [dropRead_unread w h r hu]
    exact ((h0.trans (rxKeep_of_chans (chans_netSend _ _ _))).trans (rxKeep_removeSock c h _ _ _)).trans
      (rxKeep_of_chans (chans_tag _ _))
  | false =>
    rw [dropRead_read w h r hu]
    exact h0.trans (rxKeep_closeStreamHalf c h _ _ _)

theorem rxKeep_dropWrite (c h : Nat) (w : World) (x : WrH) : RxKeep c w (w.dropWrite h x) := by
  unfold dropWrite
  refine RxKeep.trans ?_ (rxKeep_closeStreamHalf c h _ _ _)
  split
  · split
    · exact (rxKeep_of_chans (chans_setHost _ _ _)).trans (rxKeep_of_chans (chans_netSend _ _ _))
    · exact RxKeep.refl c w
  · exact RxKeep.refl c w

/-- the object receives on channel `c`. -/
def readsChan (c : Nat) : Obj → Prop
  | .stream (some r) _ => r.chan = c
  | .connecting _ _ _ chan _ => chan = c
  | _ => False

theorem chans_foldl_dropSyn (l : List SynReq) (w : World) : (l.foldl (fun w s => w.dropSyn s.id) w).chans = w.chans := by
  induction l generalizing w with
  | nil => rfl
  | cons x xs ih => simp only [List.foldl_cons]; rw [ih]; rfl

theorem rxKeep_dropObj (c h : Nat) (w : World) (o : Obj) (hno : ¬ readsChan c o) : RxKeep c w (w.dropObj h o) := by
  cases o with
  | udp loc stash =>
    apply rxKeep_of_chans
    unfold dropObj udpUnbind
    simp only [chans_setHost]
    split
    · rfl
    · rw [chans_panic]; rfl
  | listener loc =>
    apply rxKeep_of_chans
    unfold dropObj tcpUnbind
    simp only
    split
    · exact chans_panic w _
    · rw [chans_foldl_dropSyn]; rfl
  | connecting id loc rem chan fcW =>
    have hne : c ≠ chan := fun e => hno e.symm
    unfold dropObj
    simp only
    have h3 : RxKeep c w (({ w with syns := setAt w.syns id fun c => { c with rxAlive := false } }.setChan chan
        fun c => { c with rxAlive := false }).tag "connectdropped") :=
      (RxKeep.trans (rxKeep_of_chans rfl) (rxKeep_setChan_ne c chan _ _ hne)).trans (rxKeep_of_chans (chans_tag _ _))
    split
    · exact h3.trans (rxKeep_removeSock c h _ _ _)
    · exact h3
  | stream rd wr =>
    unfold dropObj
    simp only
    cases rd with
    | none =>
      cases wr with
      | none => exact RxKeep.refl c w
      | some x => exact rxKeep_dropWrite c h w x
    | some r =>
      have h1 := rxKeep_dropRead c h w r (fun e => hno e.symm)
      cases wr with
      | none => exact h1
      | some x => exact h1.trans (rxKeep_dropWrite c h _ x)

theorem rxKeep_foldl_dropObj (c h : Nat) (objs : List (Nat × Obj)) (w : World) (hno : ∀ o ∈ objs, ¬ readsChan c o.2) :
    RxKeep c w (objs.foldl (fun w p => w.dropObj h p.2) w) := by
  induction objs generalizing w with
  | nil => exact RxKeep.refl c w
  | cons x xs ih =>
    exact (rxKeep_dropObj c h w x.2 (hno x (by simp))).trans (ih _ (fun o ho => hno o (List.mem_cons_of_mem _ ho)))

theorem chans_crashStart (w : World) (h : Nat) : (crashStart w h).chans = w.chans := by
  unfold crashStart; rw [chans_dropEnvs]; rfl

/-- the sweep as a whole, on channels and configuration: contents and capacity kept, dead ends stay dead. -/
theorem dropAll_chans (w : World) (h : Nat) :
    (w.dropAll h).chans.length = w.chans.length ∧ (∀ c, chLe (w.chan! c) ((w.dropAll h).chan! c)) ∧
    (w.dropAll h).cfg = w.cfg := by
  rw [dropAll_eq]
  have hq := quiet_foldl_dropObj h h (crashObjs w h) (crashStart w h)
  refine ⟨by rw [hq.chanLen, chans_crashStart], fun c => ?_, by rw [hq.cfg, cfg_crashStart]⟩
  have := hq.chs c
  unfold chan! at this ⊢
  rw [chans_crashStart] at this
  exact this

/-- a channel none of the host's objects receives on keeps its receiver flag through the sweep. -/
theorem dropAll_rxKeep (w : World) (h c : Nat) (hno : ∀ o ∈ (w.host! h).objs, ¬ readsChan c o.2) :
    ((w.dropAll h).chan! c).rxAlive = (w.chan! c).rxAlive := by
  rw [dropAll_eq]
  have := rxKeep_foldl_dropObj c h (crashObjs w h) (crashStart w h) (fun o ho => hno o ((List.mem_mergeSort).mp ho))
  unfold RxKeep chan! at this
  rw [chans_crashStart] at this
  exact this

/-! ## 11. the peer's side: what arrives -/

theorem arrive_next_empty (cap rs : Nat) (seg : Seg) (cons : List Seg) (hcap : 0 < cap) :
    C02.arrive cap { buf := [], recvSeq := rs, chan := [], consumed := cons } (rs + 1) seg =
      { buf := [], recvSeq := rs + 1, chan := [seg], consumed := cons } := by
  have hc : ¬ cap ≤ 0 := by omega
  simp [C02.arrive, drainBuf, hc]

/-- **the FIN arrives in order at a drained socket**: nothing parked, channel empty, the FIN numbered
    `recv_seq + 1`, room in the channel — it is queued for the reader; no RST is asked for; the socket, its
    channel and the stream object stay linked; no user object changes. -/
theorem fin_arrival (w : World) (p i s : Nat) (loc rem : Addr) (c cap : Nat) (fx : Bool)
    (hl : C02.Linked w p i s loc rem c cap fx) (hcap : 0 < cap) (hitems : (w.chan! c).items = [])
    (hbuf : (C02.sockAt w p i).buf = []) :
    (w.receive p { src := rem, dst := loc, msg := .fin ((C02.sockAt w p i).recvSeq + 1) }).1 = false ∧
    C02.Linked (w.receive p { src := rem, dst := loc, msg := .fin ((C02.sockAt w p i).recvSeq + 1) }).2 p i s loc rem c cap fx ∧
    ((w.receive p { src := rem, dst := loc, msg := .fin ((C02.sockAt w p i).recvSeq + 1) }).2.chan! c).items = [.fin] ∧
    (∀ s', (w.receive p { src := rem, dst := loc, msg := .fin ((C02.sockAt w p i).recvSeq + 1) }).2.getObj p s' = w.getObj p s') := by
  have hrecv := (C02.receive_is_sockBuffer w p { src := rem, dst := loc, msg := .fin ((C02.sockAt w p i).recvSeq + 1) } .fin rfl).1
    i hl.find
  rw [hrecv]
  simp only [C02.msgSeq]
  have hco : C02.chanOf w p i = w.chan! c := by unfold C02.chanOf; rw [hl.chan]
  have halive : (C02.chanOf w p i).rxAlive = true := by rw [hco]; exact hl.alive
  obtain ⟨h1, h2, h3⟩ := C02.sockBuffer_refines w p i ((C02.sockAt w p i).recvSeq + 1) .fin [] hl.wf halive
  have hl' := hl.of_frame h3
  refine ⟨h2, hl', ?_, ?_⟩
  · have hrx : C02.rxOf w p i [] = { buf := [], recvSeq := (C02.sockAt w p i).recvSeq, chan := [], consumed := [] } := by
      unfold C02.rxOf
      rw [hco, hbuf, hitems]
    rw [hrx, hco, hl.cap, arrive_next_empty cap _ .fin [] hcap] at h1
    have := congrArg C02.Rx.chan h1
    unfold C02.rxOf C02.chanOf at this
    simp only at this
    rw [hl'.chan] at this
    exact this
  · intro s'
    obtain ⟨socks', hh⟩ := h3.hostRest
    exact C12.getObj_of_host (by rw [hh]) s'

theorem findSock_none_of_hasKey {hs : Host} {loc rem : Addr} (h : C12.hasKey hs.socks loc rem = false) :
    findSock hs loc rem = none := by
  unfold findSock
  unfold C12.hasKey at h
  rw [List.findIdx?_eq_none_iff]
  intro x hx
  have := List.any_eq_false.mp h x hx
  simpa using this

/-- **the RST arrives**: the table entry of the pair is removed, the sender of its channel is gone; channel
    contents, flow-control credits and user objects are untouched; no RST is sent back. -/
theorem rst_arrival (w : World) (p i : Nat) (loc rem : Addr) (hp : p < w.hosts.length)
    (hf : findSock (w.host! p) loc rem = some i) (hu : C12.UniqueKeys (w.host! p).socks)
    (hc : (C02.sockAt w p i).chan < w.chans.length) :
    (w.receive p { src := rem, dst := loc, msg := .rst }).1 = false ∧
    findSock ((w.receive p { src := rem, dst := loc, msg := .rst }).2.host! p) loc rem = none ∧
    ((w.receive p { src := rem, dst := loc, msg := .rst }).2.chan! (C02.sockAt w p i).chan).txAlive = false ∧
    (∀ c, ((w.receive p { src := rem, dst := loc, msg := .rst }).2.chan! c).items = (w.chan! c).items) ∧
    (∀ s', (w.receive p { src := rem, dst := loc, msg := .rst }).2.getObj p s' = w.getObj p s') ∧
    (w.receive p { src := rem, dst := loc, msg := .rst }).2.fcs = w.fcs := by
  have hr : w.receive p { src := rem, dst := loc, msg := .rst } = (false, (w.removeSock p loc rem).tag "rstrecv") := rfl
  rw [hr]
  have hrm : w.removeSock p loc rem =
      (w.setHost p (fun hs => { hs with socks := hs.socks.eraseIdx i })).setChan (C02.sockAt w p i).chan
        (fun c => { c with txAlive := false }) := by
    unfold removeSock
    rw [hf]
    rfl
  refine ⟨rfl, ?_, ?_, ?_, ?_, ?_⟩
  · simp only
    rw [C12.host!_tag, hrm, C12.host!_setChan, host!_setHost_self _ _ _ hp]
    exact findSock_none_of_hasKey (C12.eraseIdx_removes_key _ loc rem hu i hf)
  · simp only
    have : ∀ (W : World) (t : String) (c : Nat), (W.tag t).chan! c = W.chan! c := by
      intro W t c; unfold chan!; rw [chans_tag]
    rw [this, hrm]
    unfold chan! setChan
    simp only [chans_setHost]
    rw [setAt_getD _ _ _ _ hc]
  · intro c
    simp only
    have := ((quiet_removeSock p p w loc rem).trans (quiet_tag p _ "rstrecv")).chs c
    exact this.1
  · intro s'
    simp only
    apply C12.getObj_of_host
    rw [C12.host!_tag, hrm, C12.host!_setChan, host!_setHost_self _ _ _ hp]
  · simp only
    have : ∀ (W : World) (t : String), (W.tag t).fcs = W.fcs := by
      intro W t; unfold tag; split <;> rfl
    rw [this, hrm]
    rfl

/-! ## 12. an evaluable form of the sweep (for `decide` on concrete worlds)

  `List.mergeSort` is defined by well-founded recursion, which kernel evaluation does not unfold.  When the
  object table is already in slot order — as in the example worlds — the sweep is the plain fold. -/

def dropAllS (w : World) (h : Nat) : World :=
  (w.host! h).objs.foldl (fun w p => w.dropObj h p.2) (crashStart w h)

def crashS (w : World) (h : Nat) : World :=
  (if (w.host! h).running then dropAllS w h else w).setHost h (fun hs => { hs with running := false })

def crashSentS (w : World) (h : Nat) : List Env := dropObjsSent h (crashStart w h) (w.host! h).objs

theorem crashObjs_sorted (w : World) (h : Nat)
    (hs : (w.host! h).objs.Pairwise (fun a b => decide (a.1 ≤ b.1) = true)) : crashObjs w h = (w.host! h).objs :=
  List.mergeSort_of_pairwise hs

theorem dropAll_sorted (w : World) (h : Nat)
    (hs : (w.host! h).objs.Pairwise (fun a b => decide (a.1 ≤ b.1) = true)) : w.dropAll h = dropAllS w h := by
  rw [dropAll_eq, crashObjs_sorted w h hs]; rfl

theorem crash_sorted (w : World) (h : Nat)
    (hs : (w.host! h).objs.Pairwise (fun a b => decide (a.1 ≤ b.1) = true)) : w.crash h = crashS w h := by
  unfold crash crashS
  rw [dropAll_sorted w h hs]

theorem crashSent_sorted (w : World) (h : Nat)
    (hs : (w.host! h).objs.Pairwise (fun a b => decide (a.1 ≤ b.1) = true)) : crashSent w h = crashSentS w h := by
  unfold crashSent crashSentS
  rw [crashObjs_sorted w h hs]

/-! ## 13. executable forms of the hypotheses (for the driver and for non-vacuity examples) -/

def openB (w : World) (h : Nat) (a b : Addr) : Bool :=
  if isSame a b then decide (h < w.hosts.length) else
  match w.ipnumOf a.ip, w.ipnumOf b.ip with
  | some s, some d =>
    s != d &&
    (match w.findLink s d with
     | some li => (match w.links[li]? with | some l => passes l s d | none => false)
     | none => false)
  | _, _ => false

theorem open_of_B (w : World) (h : Nat) (a b : Addr) (hb : openB w h a b = true) : Open w h a b := by
  unfold openB at hb
  unfold Open
  split
  · rename_i hs
    rw [if_pos hs] at hb
    exact of_decide_eq_true hb
  · rename_i hs
    rw [if_neg hs] at hb
    cases h1 : w.ipnumOf a.ip with
    | none => simp [h1] at hb
    | some s =>
      cases h2 : w.ipnumOf b.ip with
      | none => simp [h1, h2] at hb
      | some d =>
        simp only [h1, h2, Bool.and_eq_true, bne_iff_ne, ne_eq] at hb
        cases h4 : w.findLink s d with
        | none => simp [h4] at hb
        | some li =>
          cases h5 : w.links[li]? with
          | none => simp [h4, h5] at hb
          | some l =>
            simp only [h4, h5] at hb
            exact ⟨s, d, li, l, rfl, rfl, hb.1, h4, h5, hb.2⟩

def noConnB (fix : Bool) (objs : List (Nat × Obj)) (p : Pair) : Bool :=
  !fix || objs.all (fun o => match o.2 with | .connecting _ loc rem _ _ => (loc, rem) != p | _ => true)

theorem noConn_of_B (fix : Bool) (objs : List (Nat × Obj)) (p : Pair) (hb : noConnB fix objs p = true) :
    NoConnAt fix objs p := by
  intro hfix o ho id loc rem c f e
  unfold noConnB at hb
  simp only [hfix, Bool.not_true, Bool.false_or, List.all_eq_true] at hb
  have := hb o ho
  rw [e] at this
  simpa using this

instance (c : Nat) (o : Obj) : Decidable (readsChan c o) := by
  cases o with
  | udp _ _ => exact isFalse (fun h => h)
  | listener _ => exact isFalse (fun h => h)
  | connecting _ _ _ chan _ => exact inferInstanceAs (Decidable (chan = c))
  | stream rd wr =>
    cases rd with
    | none => exact isFalse (fun h => h)
    | some r => exact inferInstanceAs (Decidable (r.chan = c))

/-- executable: every open write half the host holds whose table entry exists is backed — the entry has at
    least as many half-close references as the host's objects hold halves of that pair, and no pending
    connect sits on the pair. -/
def writeHalvesBackedB (fix : Bool) (hs : Host) : Bool :=
  hs.objs.all (fun o =>
    match o.2 with
    | .stream _ (some x) =>
      match findSock hs x.loc x.rem with
      | some i => decide (avail false hs.objs (x.loc, x.rem) ≤ (hs.socks.getD i default).refCt) &&
                  noConnB fix hs.objs (x.loc, x.rem)
      | none => true
    | _ => true)

end TV.C04
