import TvCore.Proofs.LinksWorldSteps
import TvCore.Proofs.C15WorldOps
import TvCore.Proofs.C04LateOnly
import TvCore.Proofs.C04LateLoc
/-
  Helper lemmas for `Props/C04Late.lean`, part 4: WHO sends.

  `LinksWorldOps.lean` shows that host calls and destructors only ever `Link.enqueue` between a link's
  end points (`LR IsSend`).  Here the same pass is made with the finer condition `QS m`: every enqueue
  carries the SOURCE NUMBER `m` — the ip number of the host whose code runs.  It needs the local-address
  invariant (`LocOK`: the source address of every envelope host code builds is the host's own or
  loopback), and that the ip number of a registered host never changes (`C15.Pres`).
-/
namespace TV.C04
open TV TV.World TV.LW

/-- the operation, if it is a send, is a send from `m`. -/
def SrcIs (m : Nat) : GOp → Prop
  | .enq _ _ _ s _ _ => s = m
  | _ => True

/-- a send between the end points, from `m`. -/
def QS (m : Nat) (a b : Nat) (o : GOp) : Prop := IsSend a b o ∧ SrcIs m o

/-- if host `g` is registered its ip number is `m` (vacuous for an index that is not registered: such a
    "host" has no address and nothing it sends reaches a link). -/
def Num (g m : Nat) (w : World) : Prop := g < w.hosts.length → (w.host! g).ipnum = m

theorem Num.step {g m : Nat} {w w' : World} (hn : Num g m w) (hl : w'.hosts.length = w.hosts.length)
    (hp : C15.Pres w w') : Num g m w' := by
  intro hlt'
  have hlt : g < w.hosts.length := by rw [← hl]; exact hlt'
  exact (hp.ipnum g hlt).trans (hn hlt)

theorem Num.only {g g' m : Nat} {w w' : World} (hn : Num g m w) (ho : Only g' w w') (hp : C15.Pres w w') : Num g m w' :=
  hn.step ho.2 hp

theorem Num.hosts {g m : Nat} {w w' : World} (hn : Num g m w) (e : w'.hosts = w.hosts) : Num g m w' := by
  intro hlt
  unfold host!; rw [e]
  exact hn (by rw [← e]; exact hlt)

/-- an envelope with source address `a` leaves through a link as a send from `m` (or not at all). -/
def SrcOK (m : Nat) (w : World) (a : Addr) : Prop := ∀ s, w.ipnumOf a.ip = some s → s = m

theorem srcOK_own {g m : Nat} {w : World} {a : Addr} (hn : Num g m w) (ho : OwnIp g a) : SrcOK m w a := by
  intro s hs
  rcases ho with e | e
  · rw [e] at hs
    have hs : (w.hosts[g]?).map (·.ipnum) = some s := hs
    cases hg : w.hosts[g]? with
    | none => rw [hg] at hs; cases hs
    | some hs0 =>
      have hlt : g < w.hosts.length := (List.getElem?_eq_some_iff.mp hg).1
      rw [hg] at hs
      simp only [Option.map_some, Option.some.injEq] at hs
      rw [← hs]
      have := hn hlt
      unfold host! at this
      rw [List.getD_eq_getElem?_getD, hg] at this
      exact this
  · rw [e] at hs
    cases hs

variable {li : Nat}

/-! ### the sending primitives -/

theorem lrq_sendMessage (m : Nat) (w : World) (e : Env) (hs : SrcOK m w e.src) : LR (QS m) li w (w.sendMessage e).2 := by
  unfold sendMessage
  split
  · rename_i s d hsrc _
    split
    · exact LR.of_core (core_dropEnvs _ _)
    · rename_i hsd
      split
      · rename_i lj hf
        exact lr_linkEnqueue_gen (QS m) w lj s d e
          (fun l hl _ _ _ => ⟨findLink_dir w s d lj l (by simpa using hsd) hf hl, hs s hsrc⟩)
      · exact LR.of_core (core_dropEnvs _ _)
  · exact LR.of_core (core_dropEnvs _ _)

theorem lrq_netSend (m : Nat) (w : World) (h : Nat) (e : Env) (hs : SrcOK m w e.src) : LR (QS m) li w (w.netSend h e).2 := by
  unfold netSend
  split
  · exact LR.of_core (core_sendLoopback w h e)
  · exact lrq_sendMessage m w e hs

/-! ### destructors -/

theorem lrq_dropRead (m : Nat) (w : World) (g : Nat) (r : RdH) (hn : Num g m w) (ho : OwnIp g r.loc) :
    LR (QS m) li w (w.dropRead g r) := by
  unfold dropRead
  simp only
  refine LR.trans (LR.of_core (core_setChan w r.chan _)) (LR.ite _ ?_ (LR.of_core (core_closeStreamHalf _ _ _ _)))
  have hn1 : Num g m (w.setChan r.chan fun c => { c with rxAlive := false }) := hn.hosts rfl
  exact ((lrq_netSend m _ g _ (srcOK_own hn1 ho)).trans (LR.of_core (core_removeSock _ _ _ _))).tag _

theorem lrq_dropWrite (m : Nat) (w : World) (g : Nat) (x : WrH) (hn : Num g m w) (ho : OwnIp g x.loc) :
    LR (QS m) li w (w.dropWrite g x) := by
  unfold dropWrite
  refine LR.trans ?_ (LR.of_core (core_closeStreamHalf _ _ _ _))
  split
  · split
    · next i _ =>
      have hn1 := hn.only (only_setHost g w (fun hs => { hs with socks := setAt hs.socks i fun s => { s with nextSendSeq := s.nextSendSeq + 1 } }))
        (C15.pres_bumpSeq w g i)
      exact (LR.of_core (core_setHost _ _ _)).trans (lrq_netSend m _ _ _ (srcOK_own hn1 ho))
    · exact LR.refl w
  · exact LR.refl w

theorem lrq_dropObj (m : Nat) (w : World) (g : Nat) (o : Obj) (hn : Num g m w) (hl : LocGood g o) :
    LR (QS m) li w (w.dropObj g o) := by
  unfold dropObj
  cases o with
  | udp loc stash => exact LR.of_core (by simp)
  | listener loc => exact LR.of_core (by simp)
  | connecting id loc rem chan fcW =>
    simp only
    split
    · exact LR.of_core (by simp; rfl)
    · exact LR.of_core (by simp; rfl)
  | stream rd wr =>
    simp only
    cases rd with
    | some r =>
      have h1 := lrq_dropRead (li := li) m w g r hn (hl.1 r rfl)
      have n1 := hn.only (only_dropRead g w r) (C15.pres_dropRead w g r)
      cases wr with
      | some x => exact h1.trans (lrq_dropWrite m _ g x n1 (hl.2 x rfl))
      | none => exact h1
    | none =>
      cases wr with
      | some x => exact lrq_dropWrite m w g x hn (hl.2 x rfl)
      | none => exact LR.refl w

theorem lrq_foldl_dropObj (m g : Nat) (objs : List (Nat × Obj)) (hl : ∀ p ∈ objs, LocGood g p.2) (w : World) (hn : Num g m w) :
    LR (QS m) li w (objs.foldl (fun w p => w.dropObj g p.2) w) := by
  induction objs generalizing w with
  | nil => exact LR.refl w
  | cons p ps ih =>
    simp only [List.foldl_cons]
    exact (lrq_dropObj m w g p.2 hn (hl p (by simp))).trans
      (ih (fun q hq => hl q (by simp [hq])) _ (hn.only (only_dropObj g w p.2) (C15.pres_dropObj w g p.2)))

theorem lrq_dropAll (m : Nat) (w : World) (g : Nat) (hn : Num g m w) (hl : HostLoc g (w.host! g)) :
    LR (QS m) li w (w.dropAll g) := by
  unfold dropAll
  simp only
  refine LR.trans (LR.of_core ?_) (lrq_foldl_dropObj m g _ (fun p hp => hl p (List.mem_mergeSort.mp hp)) _ ?_)
  · simp
  · exact (hn.only (only_setHost g w _) (C15.pres_setHost_eq w g _ rfl rfl rfl rfl rfl)).hosts (hosts_dropEnvs _ _)

theorem lrq_crash (m : Nat) (w : World) (g : Nat) (hn : Num g m w) (hl : HostLoc g (w.host! g)) :
    LR (QS m) li w (w.crash g) := by
  unfold crash
  refine LR.trans ?_ (LR.of_core (core_setHost _ _ _))
  split
  · exact lrq_dropAll m w g hn hl
  · exact LR.refl w

theorem lrq_bounce (m : Nat) (w : World) (g : Nat) (hn : Num g m w) (hl : HostLoc g (w.host! g)) :
    LR (QS m) li w (w.bounce g) := by
  unfold bounce
  exact (lrq_dropAll m w g hn hl).trans (LR.of_core (core_setHost _ _ _))

/-! ### host calls -/

theorem ownIp_udpSrc (g : Nat) (loc dst : Addr) (hb : BindIp loc) : OwnIp g (udpSrc g loc dst) := by
  unfold udpSrc OwnIp
  unfold BindIp at hb
  cases hd : dst.ip <;> rcases hb with hl | hl <;> simp [hl, Ip.isLoopback, Ip.isUnspecified]

theorem lrq_udpFanout (m g : Nat) (src : Addr) (p : Hex) (loopOk : Addr → Bool) (ds : List Addr) (w : World)
    (hn : Num g m w) (hs : OwnIp g src) : LR (QS m) li w (udpFanout w g src p loopOk ds).1 := by
  induction ds generalizing w with
  | nil => exact LR.refl w
  | cons d ds ih =>
    unfold udpFanout
    split
    · split
      · exact (LR.of_core (core_sendLoopback _ _ _)).trans
          (ih _ (hn.only (only_sendLoopback g w _) (C15.pres_sendLoopback w g _)))
      · exact ih _ hn
    · simp only
      have h1 := lrq_sendMessage (li := li) m w { src := src, dst := d, msg := .udp p } (srcOK_own hn hs)
      have hn1 := hn.only (only_sendMessage g w { src := src, dst := d, msg := .udp p })
        (C15.pres_sendMessage w { src := src, dst := d, msg := .udp p })
      split
      · exact h1.trans (ih _ hn1)
      · exact h1

theorem lrq_opUdpSend (m : Nat) (w : World) (g s : Nat) (dst : Addr) (p : Hex) (hn : Num g m w)
    (hl : HostLoc g (w.host! g)) : LR (QS m) li w (w.opUdpSend g s dst p).1 := by
  unfold opUdpSend
  split
  · next loc stash hg =>
    have hb : BindIp loc := hl _ (getObj_mem hg)
    have hsrc := ownIp_udpSrc g loc dst hb
    have hnt : ∀ t, Num g m (w.tag t) := fun t => hn.hosts (hosts_tag w t)
    simp only
    generalize udpSrc g loc dst = src at hsrc ⊢
    repeat' split
    all_goals first
      | exact LR.refl w
      | exact (LR.of_core (core_tag w _)).trans (lrq_udpFanout m g _ _ _ _ _ (hnt _) hsrc)
      | exact lrq_netSend m _ _ _ (srcOK_own hn hsrc)
  · exact LR.refl w

theorem lrq_opTcpConnect (m : Nat) (w : World) (g s : Nat) (dst : Addr) (hn : Num g m w) :
    LR (QS m) li w (w.opTcpConnect g s dst).1 := by
  unfold opTcpConnect
  simp only
  have s1 : LR (QS m) li w (w.assignPort g).2 := LR.of_core (core_assignPort w g)
  have n1 : Num g m (w.assignPort g).2 := hn.only (only_assignPort g w) (C15.pres_assignPort w g)
  split
  · exact s1
  · next p _ =>
    have hloc : OwnIp g ({ ip := if dst.ip.isLoopback = true then dst.ip else Ip.host g, port := p } : Addr) := by
      unfold OwnIp
      simp only
      split
      · rename_i hl
        right
        cases hd : dst.ip <;> simp [hd, Ip.isLoopback] at hl ⊢
      · left; rfl
    generalize ({ ip := if dst.ip.isLoopback = true then dst.ip else Ip.host g, port := p } : Addr) = loc at hloc ⊢
    split
    · exact s1.trans (LR.of_core (core_panic _ _))
    · have s2 := s1.trans (LR.of_core (Q := QS m) (li := li) (core_newStream (w.assignPort g).2 g loc dst))
      have n2 : Num g m ((w.assignPort g).2.newStream g loc dst).2 :=
        n1.only (only_newStream g _ loc dst) (C15.pres_newStream _ g loc dst)
      generalize ((w.assignPort g).2.newStream g loc dst) = ns at s2 n2 ⊢
      have s3 : LR (QS m) li w { ns.2 with syns := ns.2.syns ++ [({} : SynCell)] } := s2.trans (LR.of_core rfl)
      have n3 : Num g m { ns.2 with syns := ns.2.syns ++ [({} : SynCell)] } := n2.hosts rfl
      generalize ({ ns.2 with syns := ns.2.syns ++ [({} : SynCell)] } : World) = w3 at s3 n3 ⊢
      have s4 := s3.trans (lrq_netSend m w3 g { src := loc, dst := dst, msg := .syn ns.2.syns.length } (srcOK_own n3 hloc))
      split
      · refine LR.tag ?_ "refused"
        have s5 := s4.trans (LR.of_core (Q := QS m) (li := li) (core_setChan _ ns.1.1 fun c => { c with rxAlive := false }))
        split
        · exact s5.trans (LR.of_core (core_removeSock _ _ _ _))
        · exact s5.tag _
      · exact s4.trans (LR.of_core (by simp))

theorem lrq_tryWrite (m : Nat) (w : World) (g : Nat) (x : WrH) (p : Hex) (hn : Num g m w) (ho : OwnIp g x.loc) :
    LR (QS m) li w (w.tryWrite g x p).1 := by
  unfold tryWrite
  simp only
  have h1 : LR (QS m) li w { w with fcs := setAt w.fcs x.fc (· - 1) } := LR.of_core rfl
  have n1 : Num g m { w with fcs := setAt w.fcs x.fc (· - 1) } := hn.hosts rfl
  repeat' split
  all_goals first
    | exact LR.refl w
    | exact LR.of_core (core_tag w _)
    | exact h1
    | exact (h1.trans (LR.of_core (core_setHost _ g _))).trans
        (lrq_netSend m _ _ _ (srcOK_own (n1.only (only_setHost g _ _) (C15.pres_bumpSeq _ g _)) ho))

theorem lrq_opTcpWrite (m : Nat) (w : World) (g s : Nat) (p : Hex) (poll : Bool) (hn : Num g m w)
    (hl : HostLoc g (w.host! g)) : LR (QS m) li w (w.opTcpWrite g s p poll).1 := by
  unfold opTcpWrite
  split
  · next rd x hg =>
    have ho : OwnIp g x.loc := (hl _ (getObj_mem hg)).2 x rfl
    simp only
    split
    · exact LR.refl w
    · exact lrq_tryWrite m w g x p hn ho
  · exact LR.refl w

theorem lrq_opTcpShutdown (m : Nat) (w : World) (g s : Nat) (hn : Num g m w) (hl : HostLoc g (w.host! g)) :
    LR (QS m) li w (w.opTcpShutdown g s).1 := by
  unfold opTcpShutdown
  split
  · next rd x hg =>
    have ho : OwnIp g x.loc := (hl _ (getObj_mem hg)).2 x rfl
    split
    · exact LR.refl w
    · split
      · exact LR.refl w
      · next i _ =>
        simp only
        have n1 := hn.only (only_setHost g w (fun hs => { hs with socks := setAt hs.socks i fun s => { s with nextSendSeq := s.nextSendSeq + 1 } }))
          (C15.pres_bumpSeq w g i)
        have s2 := (LR.of_core (Q := QS m) (li := li) (core_setHost w g _)).trans
          (lrq_netSend m _ g { src := x.loc, dst := x.rem, msg := .fin ((w.host! g).socks.getD i default).nextSendSeq } (srcOK_own n1 ho))
        split
        · exact s2.trans (LR.of_core (core_setObj _ _ _ _))
        · exact s2
  · exact LR.refl w

theorem lrq_opDrop (m : Nat) (w : World) (g s : Nat) (hn : Num g m w) (hl : HostLoc g (w.host! g)) :
    LR (QS m) li w (w.opDrop g s).1 := by
  unfold opDrop
  split
  · next o hg =>
    exact (LR.of_core (core_delObj w g s)).trans
      (lrq_dropObj m _ g o (hn.only (only_delObj g w s) (C15.pres_delObj w g s)) (hl _ (getObj_mem hg)))
  · exact LR.refl w

theorem lrq_opDropRead (m : Nat) (w : World) (g s : Nat) (hn : Num g m w) (hl : HostLoc g (w.host! g)) :
    LR (QS m) li w (w.opDropRead g s).1 := by
  unfold opDropRead
  split
  · next r wr hg =>
    have ho : OwnIp g r.loc := (hl _ (getObj_mem hg)).1 r rfl
    simp only
    cases wr with
    | some x =>
      exact (LR.of_core (core_setObj _ _ _ _)).trans
        (lrq_dropRead m _ g r (hn.only (only_setObj g w s _) (C15.pres_setObj w g s _)) ho)
    | none =>
      exact (LR.of_core (core_delObj _ _ _)).trans
        (lrq_dropRead m _ g r (hn.only (only_delObj g w s) (C15.pres_delObj w g s)) ho)
  · exact LR.refl w

theorem lrq_opDropWrite (m : Nat) (w : World) (g s : Nat) (hn : Num g m w) (hl : HostLoc g (w.host! g)) :
    LR (QS m) li w (w.opDropWrite g s).1 := by
  unfold opDropWrite
  split
  · next rd x hg =>
    have ho : OwnIp g x.loc := (hl _ (getObj_mem hg)).2 x rfl
    simp only
    cases rd with
    | some r =>
      exact (LR.of_core (core_setObj _ _ _ _)).trans
        (lrq_dropWrite m _ g x (hn.only (only_setObj g w s _) (C15.pres_setObj w g s _)) ho)
    | none =>
      exact (LR.of_core (core_delObj _ _ _)).trans
        (lrq_dropWrite m _ g x (hn.only (only_delObj g w s) (C15.pres_delObj w g s)) ho)
  · exact LR.refl w

/-- **a host call other than a link-control call only ever sends from the calling host's own number.** -/
theorem lrq_applyHOp (m : Nat) (w : World) (g : Nat) (op : HOp) (hnet : ∀ c a b, op ≠ .net c a b)
    (hn : Num g m w) (hl : HostLoc g (w.host! g)) : LR (QS m) li w (applyHOp w g op).1 := by
  cases op with
  | udpBind s a =>
    show LR (QS m) li w (if (w.getObj g s).isSome = true then (w, "err slotbusy") else w.opUdpBind g s a).1
    split
    · exact LR.refl w
    · exact LR.of_core (core_opUdpBind w g s a)
  | tcpBind s a =>
    show LR (QS m) li w (if (w.getObj g s).isSome = true then (w, "err slotbusy") else w.opTcpBind g s a).1
    split
    · exact LR.refl w
    · exact LR.of_core (core_opTcpBind w g s a)
  | tcpConnect s a =>
    show LR (QS m) li w (if (w.getObj g s).isSome = true then (w, "err slotbusy") else w.opTcpConnect g s a).1
    split
    · exact LR.refl w
    · exact lrq_opTcpConnect m w g s a hn
  | tcpAccept ls s =>
    show LR (QS m) li w (if (w.getObj g s).isSome = true then (w, "err slotbusy") else w.opTcpAccept g ls s).1
    split
    · exact LR.refl w
    · exact LR.of_core (core_opTcpAccept w g ls s)
  | udpSend s a p => exact lrq_opUdpSend m w g s a p hn hl
  | udpTryRecv s n => exact LR.of_core (core_opUdpTryRecv w g s n)
  | udpRecv s n => exact LR.of_core (core_opUdpRecv w g s n)
  | udpReadable s => exact LR.of_core (core_opUdpReadable w g s)
  | udpConnect s a => exact LR.of_core (core_opUdpConnect w g s a)
  | udpBcast s on => exact LR.of_core (core_opUdpSetBcast w g s on)
  | udpMloop s on => exact LR.of_core (core_opUdpSetMloop w g s on)
  | udpJoin s gr i => exact LR.of_core (core_opUdpJoin w g s gr i)
  | udpLeave s gr i => exact LR.of_core (core_opUdpLeave w g s gr i)
  | tcpCPoll s => exact LR.of_core (core_connectPoll w g s)
  | tcpWrite s p => exact lrq_opTcpWrite m w g s p _ hn hl
  | tcpSplit s => exact LR.refl w
  | tcpReunite s => exact LR.refl w
  | tcpPWrite s p => exact lrq_opTcpWrite m w g s p true hn hl
  | tcpShutdown s => exact lrq_opTcpShutdown m w g s hn hl
  | tcpRead s n => exact LR.of_core (core_opTcpRead w g s n false)
  | tcpPeek s n => exact LR.of_core (core_opTcpRead w g s n true)
  | drop s => exact lrq_opDrop m w g s hn hl
  | tcpDropR s => exact lrq_opDropRead m w g s hn hl
  | tcpDropW s => exact lrq_opDropWrite m w g s hn hl
  | count => exact LR.refl w
  | countOf a => exact LR.refl w
  | spawnTicker => exact LR.refl w
  | select4 => exact LR.refl w
  | exit => exact (lrq_dropAll m w g hn hl).trans (LR.of_core (core_setHost _ _ _))
  | net c a b => exact absurd rfl (hnet c a b)
  | sleep ms =>
    show LR (QS m) li w (hopSleep w g ms).1
    exact LR.of_core (core_hopSleep w g ms)
  | clock => exact LR.refl w
  | lookup name => exact LR.of_core (core_dnsLookup w name)
  | unknown => exact LR.refl w

end TV.C04
