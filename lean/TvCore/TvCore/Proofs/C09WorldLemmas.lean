import TvCore.Proofs.C09WorldArr
/-
  C09 end to end, part 7 — one step, summarised (`StepOK`), for every step of the driver, and the run
  invariant `Inv` the theorems of `TvCore/Props/C09World.lean` are read off.
-/
namespace TV.C09
open TV TV.World TV.C04 TV.LW

/-! ### lists -/

def netKey (x : Nat × Env) : Key := (Place.net x.1, x.2)

theorem count_netKey_net (l : List (Nat × Env)) (d : Nat) (e : Env) :
    (l.map netKey).count (Place.net d, e) = l.count (d, e) := by
  induction l with
  | nil => rfl
  | cons x xs ih =>
    obtain ⟨d', e'⟩ := x
    simp only [List.map_cons, List.count_cons, ih, netKey]
    by_cases hd : d' = d <;> by_cases he : e' = e <;> simp [hd, he]

theorem count_netKey_lo (l : List (Nat × Env)) (i : Nat) (e : Env) : (l.map netKey).count (Place.lo i, e) = 0 := by
  apply List.count_eq_zero.mpr
  intro hm
  obtain ⟨x, _, hx⟩ := List.mem_map.mp hm
  cases hx

theorem count_eraseIdx {α : Type} [BEq α] (l : List α) (i : Nat) (h : i < l.length) (x : α) :
    (l.eraseIdx i).count x + [l[i]].count x = l.count x := by
  induction l generalizing i with
  | nil => simp at h
  | cons y ys ih =>
    cases i with
    | zero => simp only [List.eraseIdx_cons_zero, List.getElem_cons_zero, List.count_cons, List.count_nil]; omega
    | succ k =>
      have := ih k (by simpa using h)
      simp only [List.eraseIdx_cons_succ, List.getElem_cons_succ, List.count_cons] at this ⊢
      omega

theorem handedKeys_eq (w : World) (h : Nat) : handedKeys w h = (handedAll w (.turn h)).map netKey := by
  unfold handedKeys handedAll
  rw [List.map_map]
  rfl

theorem turnStep_envs (w : World) (h : Nat) : (turnStep w h).1 = (handedKeys w h).map (·.2) := by
  rw [turnStep_out]
  unfold handedKeys
  rw [List.map_map]
  rfl

theorem handedAll_nil (w : World) (st : Step) (hst : ∀ h, st ≠ .turn h) : handedAll w st = [] := by
  unfold handedAll
  have : ∀ j, handed w j st = [] := by
    intro j
    cases st with
    | turn h => exact absurd rfl (hst h)
    | _ => rfl
  simp [this]

theorem lt_of_udp_ne_nil (w : World) (h : Nat) (hne : (w.host! h).udp ≠ []) : h < w.hosts.length := by
  apply Classical.byContradiction
  intro hn
  rw [host!_of_ge w h (by omega)] at hne
  exact hne rfl

theorem lt_of_lo_ne_nil (w : World) (h : Nat) (hne : (w.host! h).lo ≠ []) : h < w.hosts.length := by
  apply Classical.byContradiction
  intro hn
  rw [host!_of_ge w h (by omega)] at hne
  exact hne rfl

/-! ### one step, summarised -/

/-- a loopback delivery delivers a message that is on the queue (the driver looks it up there). -/
def LoValid (w : World) : Step → Prop
  | .loDeliver h i => i < (w.host! h).lo.length
  | _ => True

/-- what holds of an arrival in the world `w` it happened in (`cap` = the receive capacity):
    the envelope is a datagram for the port of the bind that took it, whose bind address accepts the
    destination, whose connected-peer filter accepts the source and whose queue had room; it came off the
    receiving host's own loopback queue, or off a link addressed to the receiving host's ip number. -/
def ArrOK (cap : Nat) (w : World) (a : Arrival) : Prop :=
  isUdp a.env = true ∧ a.host < w.hosts.length ∧ a.env.dst.port = a.bind.port ∧
  addrMatches a.bind.bindAddr a.env.dst = true ∧ filterOk a.bind a.env.src = true ∧ a.bind.queue.length < cap ∧
  (match a.place with | .lo j => j = a.host | .net d => d = (w.host! a.host).ipnum)

/-- **one step**: conservation of keyed datagram envelopes (what is queued afterwards plus what arrived is
    at most what was queued plus what the step's `send_to` addressed), host numbers and configuration
    stay, every queued datagram was queued before or arrived in this step, and every arrival is sound. -/
structure StepOK (w : World) (st : Step) : Prop where
  fl : ∀ k : Key, isUdp k.2 = true →
    flightCount (applyStep w st) k + ((arrived w st).map Arrival.key).count k ≤
      flightCount w k + ((sentBy w st).map SendRec.key).count k
  nums : w.hosts.map (·.ipnum) <+: (applyStep w st).hosts.map (·.ipnum)
  cfg : (applyStep w st).cfg = w.cfg
  queues : ∀ i, ∀ b' ∈ ((applyStep w st).host! i).udp, ∀ x ∈ b'.queue,
    (∃ b ∈ (w.host! i).udp, b.port = b'.port ∧ b.bindAddr = b'.bindAddr ∧ x ∈ b.queue) ∨
    (∃ a ∈ arrived w st, a.host = i ∧ a.bind.port = b'.port ∧ a.bind.bindAddr = b'.bindAddr ∧
      a.env.msg = .udp x.1 ∧ a.env.src = x.2)
  arr : ∀ a ∈ arrived w st, ArrOK w.cfg.udpCap w a

/-- a step that delivers nothing and satisfies `TR`. -/
theorem stepOK_of_tr (w : World) (st : Step) (ha : arrived w st = [])
    (h : TR ((sentBy w st).map SendRec.key) w (applyStep w st)) : StepOK w st := by
  refine ⟨fun k hk => ?_, by rw [h.nums]; exact List.prefix_refl _, h.cfg, fun i b' hb' x hx => Or.inl (h.qs i b' hb' x hx), ?_⟩
  · rw [ha]; simpa using h.fl k hk
  · rw [ha]; intro a ha'; cases ha'

/-! ### plain steps that deliver nothing -/

theorem viewOf_hostStepEnd (t A : Nat) (hs : Host) : viewOf (hostStepEnd t A hs) = viewOf hs := rfl

theorem hview_plain (w : World) (st : Step) (hp : Plain st) (hnt : ∀ h, st ≠ .turn h) (hnl : ∀ h i, st ≠ .loDeliver h i) :
    hview (applyStep w st) = hview w := by
  cases st with
  | host h hop =>
    cases hop
    case net c a b => exact hview_of_hosts (lx_netCtl c w a b 0).hosts
    all_goals exact absurd hp (by simp [Plain])
  | crash h => exact absurd hp (by simp [Plain])
  | bounce h => exact absurd hp (by simp [Plain])
  | register ip c => exact absurd hp (by simp [Plain])
  | dns name => rfl
  | stepBegin => rfl
  | stepEnd =>
    show hview w.stepEnd = _
    unfold hview stepEnd
    simp only [List.map_map]
    rfl
  | link op x y => exact hview_of_hosts (lx_netCtl op w x y 0).hosts
  | linkPairs op xs ys =>
    have := lx_forPairs op 0 (pairList xs ys) w
    rw [← forPairs_eq] at this
    exact hview_of_hosts this.hosts
  | deliver x y i => exact hview_of_hosts (lx_onLink w x y 0 (.manual i)).hosts
  | deliverAll x y => exact hview_of_hosts (onLink_spec w x y _).2.2.2.1
  | turn h => exact absurd rfl (hnt h)
  | loDeliver h i => exact absurd rfl (hnl h i)

theorem tr_plain (w : World) (st : Step) (hp : Plain st) (hnt : ∀ h, st ≠ .turn h) (hnl : ∀ h i, st ≠ .loDeliver h i) :
    TR [] w (applyStep w st) := by
  have hv := hview_plain w st hp hnt hnl
  refine ⟨fun k hk => ?_, hview_nums hv, fun i => QSub.of_eq (hview_host hv i).2.2, (step_frame w st).cfg⟩
  obtain ⟨pl, x⟩ := k
  cases pl with
  | lo i => rw [flightCount_lo, flightCount_lo, (hview_host hv i).2.1]; exact Nat.le_add_right _ _
  | net d =>
    rw [flightCount_net, flightCount_net]
    have := netKeys_plain w st hp (d, x) hk
    omega

theorem sentBy_nil_of_plain (w : World) (st : Step) (hp : Plain st) : sentBy w st = [] := by
  cases st with
  | host h hop =>
    cases hop
    case udpSend s d p => exact absurd hp (by simp [Plain])
    all_goals rfl
  | _ => rfl

theorem arrived_nil (w : World) (st : Step) (hnt : ∀ h, st ≠ .turn h) (hnl : ∀ h i, st ≠ .loDeliver h i) : arrived w st = [] := by
  cases st with
  | turn h => exact absurd rfl (hnt h)
  | loDeliver h i => exact absurd rfl (hnl h i)
  | _ => rfl

/-! ### `register` -/

theorem viewOf_register (w : World) (ip : Nat) (c : Bool) (i : Nat) :
    viewOf ((w.register ip c).host! i) =
      if i < w.hosts.length then viewOf (w.host! i) else if i = w.hosts.length then (ip, [], []) else (default, [], []) := by
  unfold register host!
  simp only
  rw [List.getD_eq_getElem?_getD, List.getD_eq_getElem?_getD]
  rcases Nat.lt_trichotomy i w.hosts.length with hlt | heq | hgt
  · rw [List.getElem?_append_left hlt]; simp [hlt]
  · subst heq
    simp [viewOf]
  · rw [List.getElem?_eq_none (by simp; omega)]
    have h1 : ¬ i < w.hosts.length := by omega
    have h2 : ¬ i = w.hosts.length := by omega
    simp [h1, h2]
    rfl

theorem netKeys_register (w : World) (ip : Nat) (c : Bool) : netKeys (w.register ip c) = netKeys w := by
  unfold netKeys register
  simp only [List.flatMap_append, List.flatMap_map]
  refine List.append_right_eq_self.mpr ?_
  rw [List.flatMap_eq_nil_iff]
  intro hs _
  rfl

theorem nums_of_view {w w' : World} (h : Nat) (g : HV → HV) (hv : hview w' = setAt (hview w) h g)
    (hg : ∀ v, (g v).1 = v.1) : w'.hosts.map (·.ipnum) = w.hosts.map (·.ipnum) := by
  have := congrArg (List.map (fun (v : HV) => v.1)) hv
  rw [map_setAt _ _ _ _ hg] at this
  simpa [hview, List.map_map, Function.comp_def] using this

theorem stepOK_register (w : World) (ip : Nat) (c : Bool) : StepOK w (.register ip c) := by
  have hview_i := viewOf_register w ip c
  refine ⟨fun k _ => ?_, ?_, rfl, fun i b' hb' x hx => ?_, fun a ha => by cases ha⟩
  · show flightCount (w.register ip c) k + 0 ≤ flightCount w k + 0
    obtain ⟨pl, x⟩ := k
    cases pl with
    | lo i =>
      rw [flightCount_lo, flightCount_lo]
      have hl : ((w.register ip c).host! i).lo = (viewOf ((w.register ip c).host! i)).2.1 := rfl
      rw [hl, hview_i]
      split
      · exact Nat.le_refl _
      · split <;> simp
    | net d => rw [flightCount_net, flightCount_net, netKeys_register]; exact Nat.le_refl _
  · show _ <+: (w.register ip c).hosts.map (·.ipnum)
    unfold register
    simp only [List.map_append]
    exact List.prefix_append _ _
  · have hu : ((applyStep w (.register ip c)).host! i).udp = (viewOf ((w.register ip c).host! i)).2.2 := rfl
    rw [hu, hview_i] at hb'
    split at hb'
    · exact Or.inl ⟨b', hb', rfl, rfl, hx⟩
    · split at hb' <;> cases hb'

/-! ### a host's turn -/

theorem stepOK_turn (w : World) (h : Nat) (hg : GeoW w) : StepOK w (.turn h) := by
  obtain ⟨hv, hc⟩ := turnStep_view w h
  rw [turnStep_envs] at hv
  have hhost := host_of_view h _ hv
  have harr : arrived w (.turn h) = arrivalsOf w.cfg.udpCap h (w.host! h).udp (handedKeys w h) := rfl
  have hcount := arrivalsOf_count w.cfg.udpCap h (handedKeys w h) (w.host! h).udp
  have hsound := arrivalsOf_sound w.cfg.udpCap h (handedKeys w h) (w.host! h).udp
  refine ⟨fun k hk => ?_, ?_, hc, fun i b' hb' x hx => ?_, fun a ha => ?_⟩
  · show flightCount (turnStep w h).2 k + _ ≤ flightCount w k + 0
    rw [harr]
    obtain ⟨pl, x⟩ := k
    have hck := hcount (pl, x)
    cases pl with
    | lo i =>
      have hk0 : (handedKeys w h).count (Place.lo i, x) = 0 := by rw [handedKeys_eq]; exact count_netKey_lo _ _ _
      rw [flightCount_lo, flightCount_lo]
      have hl : ((turnStep w h).2.host! i).lo = (viewOf ((turnStep w h).2.host! i)).2.1 := rfl
      rw [hl, hhost i]
      split
      · next c => obtain ⟨rfl, _⟩ := c; show (w.host! i).lo.count x + _ ≤ _; omega
      · show (w.host! i).lo.count x + _ ≤ _; omega
    | net d =>
      have hk0 : (handedKeys w h).count (Place.net d, x) = (handedAll w (.turn h)).count (d, x) := by
        rw [handedKeys_eq]; exact count_netKey_net _ _ _
      rw [flightCount_net, flightCount_net]
      have := netKeys_plain w (.turn h) trivial (d, x) hk
      have e : applyStep w (.turn h) = (turnStep w h).2 := rfl
      rw [e] at this
      omega
  · show _ <+: (turnStep w h).2.hosts.map (·.ipnum)
    rw [nums_of_view h _ hv (fun _ => rfl)]; exact List.prefix_refl _
  · have hu : ((applyStep w (.turn h)).host! i).udp = (viewOf ((turnStep w h).2.host! i)).2.2 := rfl
    rw [hu, hhost i] at hb'
    split at hb'
    · next c =>
      obtain ⟨rfl, _⟩ := c
      have hb'' : b' ∈ tableAfter w.cfg.udpCap (w.host! i).udp ((handedKeys w i).map (·.2)) := hb'
      rcases tableAfter_queue w.cfg.udpCap i (handedKeys w i) (w.host! i).udp b' hb'' x hx with hl | ⟨a, ha, r⟩
      · exact Or.inl hl
      · exact Or.inr ⟨a, ha, (hsound a ha).1, r⟩
    · exact Or.inl ⟨b', hb', rfl, rfl, hx⟩
  · rw [harr] at ha
    obtain ⟨a1, a2, a3, a4, a5, a6, a7, a8⟩ := hsound a ha
    have hne : (w.host! h).udp ≠ [] := by
      intro e; rw [e] at a8; cases a8
    refine ⟨a3, by rw [a1]; exact lt_of_udp_ne_nil w h hne, a4, a5, a6, a7, ?_⟩
    unfold handedKeys at a2
    obtain ⟨y, hy, hye⟩ := List.mem_map.mp a2
    obtain ⟨j, _, hj⟩ := List.mem_flatMap.mp hy
    have hd := handedAt_dst w hg j (w.host! h).ipnum y hj
    have hp : a.place = Place.net y.dst := (congrArg Prod.fst hye).symm
    rw [hp, a1]
    exact hd

/-! ### a loopback delivery -/

theorem stepOK_loDeliver (w : World) (h i : Nat) (hi : i < (w.host! h).lo.length) : StepOK w (.loDeliver h i) := by
  have hh : h < w.hosts.length := lt_of_lo_ne_nil w h (fun e => by rw [e] at hi; simp at hi)
  have hget : (w.host! h).lo.getD i default = (w.host! h).lo[i] := by
    rw [List.getD_eq_getElem?_getD, List.getElem?_eq_getElem hi]; rfl
  obtain ⟨hv, hc⟩ := loStep_view w h i
  rw [hget] at hv
  have hhost := host_of_view h _ hv
  have hkeys : loKeys w h i = [(Place.lo h, (w.host! h).lo[i])] := by
    unfold loKeys; rw [List.getElem?_eq_getElem hi]
  have harr : arrived w (.loDeliver h i) =
      arrivalsOf w.cfg.udpCap h (w.host! h).udp [(Place.lo h, (w.host! h).lo[i])] := by
    show arrivalsOf _ _ _ (loKeys w h i) = _
    rw [hkeys]
  have hcount := arrivalsOf_count w.cfg.udpCap h [(Place.lo h, (w.host! h).lo[i])] (w.host! h).udp
  have hsound := arrivalsOf_sound w.cfg.udpCap h [(Place.lo h, (w.host! h).lo[i])] (w.host! h).udp
  refine ⟨fun k hk => ?_, ?_, hc, fun j b' hb' x hx => ?_, fun a ha => ?_⟩
  · show flightCount (loStep w h i).1 k + _ ≤ flightCount w k + 0
    rw [harr]
    obtain ⟨pl, x⟩ := k
    have hck := hcount (pl, x)
    cases pl with
    | lo j =>
      rw [count_lo_singleton] at hck
      rw [flightCount_lo, flightCount_lo]
      have hl : ((loStep w h i).1.host! j).lo = (viewOf ((loStep w h i).1.host! j)).2.1 := rfl
      rw [hl, hhost j]
      split
      · next c =>
        obtain ⟨rfl, _⟩ := c
        rw [if_pos rfl] at hck
        show ((w.host! j).lo.eraseIdx i).count x + _ ≤ _
        have := count_eraseIdx (w.host! j).lo i hi x
        omega
      · next c =>
        have hne : j ≠ h := fun e => c ⟨e, hh⟩
        rw [if_neg hne] at hck
        show (w.host! j).lo.count x + _ ≤ _
        omega
    | net d =>
      have h0 : ([(Place.lo h, (w.host! h).lo[i])] : List Key).count (Place.net d, x) = 0 := by simp
      rw [h0] at hck
      rw [flightCount_net, flightCount_net]
      have hl : (loStep w h i).1.links = w.links := core_links (core_loStep w h i)
      unfold netKeys
      rw [hl]
      omega
  · show _ <+: (loStep w h i).1.hosts.map (·.ipnum)
    rw [nums_of_view h _ hv (fun _ => rfl)]; exact List.prefix_refl _
  · have hu : ((applyStep w (.loDeliver h i)).host! j).udp = (viewOf ((loStep w h i).1.host! j)).2.2 := rfl
    rw [hu, hhost j] at hb'
    split at hb'
    · next c =>
      obtain ⟨rfl, _⟩ := c
      have hb'' : b' ∈ tableAfter w.cfg.udpCap (w.host! j).udp
          (([(Place.lo j, (w.host! j).lo[i])] : List (Place × Env)).map (·.2)) := hb'
      rcases tableAfter_queue w.cfg.udpCap j _ (w.host! j).udp b' hb'' x hx with hl | ⟨a, ha, r⟩
      · exact Or.inl hl
      · refine Or.inr ⟨a, by rw [harr]; exact ha, (hsound a ha).1, r⟩
    · exact Or.inl ⟨b', hb', rfl, rfl, hx⟩
  · rw [harr] at ha
    obtain ⟨a1, a2, a3, a4, a5, a6, a7, _⟩ := hsound a ha
    refine ⟨a3, by rw [a1]; exact hh, a4, a5, a6, a7, ?_⟩
    simp only [List.mem_singleton, Prod.mk.injEq] at a2
    rw [a2.1, a1]

/-! ### every step -/

theorem sentBy_hop (w : World) (h : Nat) (op : HOp) : sentBy w (.host h op) = hopRecs w h op := by
  cases op <;> rfl

/-- **every step of the driver** (a loopback delivery being one of a message that is on the queue). -/
theorem stepOK (w : World) (st : Step) (hg : GeoW w) (hv : LoValid w st) : StepOK w st := by
  cases st with
  | host h hop =>
    rcases hop_net_cases hop with ⟨c, a, b, rfl⟩ | hnet
    · refine stepOK_of_tr w _ rfl ?_
      exact tr_plain w _ trivial (fun _ e => by cases e) (fun _ _ e => by cases e)
    · refine stepOK_of_tr w _ rfl ?_
      rw [sentBy_hop]
      exact tr_applyHOp w h hop hnet
  | register ip c => exact stepOK_register w ip c
  | crash h => exact stepOK_of_tr w _ rfl (tr_crash w h)
  | bounce h => exact stepOK_of_tr w _ rfl (tr_bounce w h)
  | turn h => exact stepOK_turn w h hg
  | loDeliver h i => exact stepOK_loDeliver w h i hv
  | dns n => exact stepOK_of_tr w _ rfl (tr_plain w _ trivial (fun _ e => by cases e) (fun _ _ e => by cases e))
  | stepBegin => exact stepOK_of_tr w _ rfl (tr_plain w _ trivial (fun _ e => by cases e) (fun _ _ e => by cases e))
  | stepEnd => exact stepOK_of_tr w _ rfl (tr_plain w _ trivial (fun _ e => by cases e) (fun _ _ e => by cases e))
  | link op x y => exact stepOK_of_tr w _ rfl (tr_plain w _ trivial (fun _ e => by cases e) (fun _ _ e => by cases e))
  | linkPairs op xs ys => exact stepOK_of_tr w _ rfl (tr_plain w _ trivial (fun _ e => by cases e) (fun _ _ e => by cases e))
  | deliver x y i => exact stepOK_of_tr w _ rfl (tr_plain w _ trivial (fun _ e => by cases e) (fun _ _ e => by cases e))
  | deliverAll x y => exact stepOK_of_tr w _ rfl (tr_plain w _ trivial (fun _ e => by cases e) (fun _ _ e => by cases e))

/-! ### host numbers are stable -/

theorem length_of_nums_prefix {w w' : World} (hp : w.hosts.map (·.ipnum) <+: w'.hosts.map (·.ipnum)) :
    w.hosts.length ≤ w'.hosts.length := by
  have := hp.length_le
  simpa using this

theorem nums_getElem?_of_prefix {w w' : World} (hp : w.hosts.map (·.ipnum) <+: w'.hosts.map (·.ipnum)) (j d : Nat)
    (h : (w.hosts.map (·.ipnum))[j]? = some d) : (w'.hosts.map (·.ipnum))[j]? = some d := by
  obtain ⟨t, ht⟩ := hp
  rw [← ht, List.getElem?_append_left (List.getElem?_eq_some_iff.mp h).1]
  exact h

theorem ipnumOf_of_prefix {w w' : World} (hp : w.hosts.map (·.ipnum) <+: w'.hosts.map (·.ipnum)) (ip : Ip) (d : Nat)
    (h : w.ipnumOf ip = some d) : w'.ipnumOf ip = some d := by
  rw [ipnumOf_nums] at h ⊢
  cases ip with
  | host j => exact nums_getElem?_of_prefix hp j d h
  | _ => cases h

theorem ipnum_of_prefix {w w' : World} (hp : w.hosts.map (·.ipnum) <+: w'.hosts.map (·.ipnum)) (i : Nat)
    (hi : i < w.hosts.length) : (w'.host! i).ipnum = (w.host! i).ipnum := by
  have h1 : (w.hosts.map (·.ipnum))[i]? = some (w.host! i).ipnum := by
    unfold host!
    rw [List.getElem?_map, List.getD_eq_getElem?_getD, List.getElem?_eq_getElem hi]
    rfl
  have h2 := nums_getElem?_of_prefix hp i _ h1
  have hi' : i < w'.hosts.length := Nat.lt_of_lt_of_le hi (length_of_nums_prefix hp)
  unfold host! at h2 ⊢
  rw [List.getElem?_map, List.getElem?_eq_getElem hi'] at h2
  rw [List.getD_eq_getElem?_getD, List.getElem?_eq_getElem hi']
  simpa using h2

theorem ArrOK.mono {cap : Nat} {w w' : World} {a : Arrival} (h : ArrOK cap w a)
    (hp : w.hosts.map (·.ipnum) <+: w'.hosts.map (·.ipnum)) : ArrOK cap w' a := by
  obtain ⟨h1, h2, h3, h4, h5, h6, h7⟩ := h
  refine ⟨h1, Nat.lt_of_lt_of_le h2 (length_of_nums_prefix hp), h3, h4, h5, h6, ?_⟩
  cases hpl : a.place with
  | lo j => rw [hpl] at h7; exact h7
  | net d =>
    rw [hpl] at h7
    simp only at h7 ⊢
    rw [ipnum_of_prefix hp a.host h2]; exact h7

/-! ### what a record of the log says about its route -/

/-- a record's route: the loopback queue of the sending host — the destination is a loopback address or the
    source's own address; or the network — towards the host number of the destination address. -/
def RecOK (w : World) (r : SendRec) : Prop :=
  isUdp r.env = true ∧
  match r.place with
  | .lo j => j = r.host ∧ (r.env.dst.ip.isLoopback = true ∨ r.env.src.ip = r.env.dst.ip)
  | .net d => w.ipnumOf r.env.dst.ip = some d

theorem RecOK.mono {w w' : World} {r : SendRec} (h : RecOK w r) (hp : w.hosts.map (·.ipnum) <+: w'.hosts.map (·.ipnum)) :
    RecOK w' r := by
  refine ⟨h.1, ?_⟩
  have h2 := h.2
  cases hpl : r.place with
  | lo j => rw [hpl] at h2; exact h2
  | net d => rw [hpl] at h2; exact ipnumOf_of_prefix hp _ _ h2

theorem mem_netRecs {w : World} {h : Nat} {e : Env} {r : SendRec} (hr : r ∈ netRecs w h e) :
    r.host = h ∧ r.env = e ∧ ∃ d, r.place = .net d ∧ w.ipnumOf e.dst.ip = some d := by
  unfold netRecs at hr
  split at hr
  · rename_i s d hs hd
    split at hr
    · cases hr
    · simp only [List.mem_singleton] at hr
      subst hr
      exact ⟨rfl, rfl, d, rfl, hd⟩
  · cases hr

theorem mem_fanRec {w : World} {h : Nat} {src : Addr} {p : Hex} {loopOk : Addr → Bool} {d : Addr} {r : SendRec}
    (hr : r ∈ fanRec w h src p loopOk d) :
    r.host = h ∧ r.env = mkEnv src p d ∧
      ((r.place = .lo h ∧ src.ip = d.ip ∧ loopOk d = true) ∨
       (∃ n, r.place = .net n ∧ w.ipnumOf d.ip = some n ∧ src.ip ≠ d.ip)) := by
  unfold fanRec at hr
  split at hr
  · rename_i hip
    split at hr
    · rename_i hl
      simp only [List.mem_singleton] at hr
      subst hr
      exact ⟨rfl, rfl, Or.inl ⟨rfl, by simpa using hip, hl⟩⟩
    · cases hr
  · rename_i hip
    obtain ⟨h1, h2, n, h3, h4⟩ := mem_netRecs hr
    exact ⟨h1, h2, Or.inr ⟨n, h3, h4, by simpa using hip⟩⟩

theorem recOK_fanRec {w : World} {h : Nat} {src : Addr} {p : Hex} {loopOk : Addr → Bool} {d : Addr} {r : SendRec}
    (hr : r ∈ fanRec w h src p loopOk d) : RecOK w r := by
  obtain ⟨h1, h2, h3⟩ := mem_fanRec hr
  refine ⟨by rw [h2]; rfl, ?_⟩
  rcases h3 with ⟨hp, hip, _⟩ | ⟨n, hp, hn, _⟩
  · rw [hp, h1, h2]
    exact ⟨rfl, Or.inr hip⟩
  · rw [hp, h2]
    exact hn

/-- every record of a `send_to` describes its route truthfully. -/
theorem recOK_sentRecs (w : World) (h s : Nat) (dst : Addr) (p : Hex) : ∀ r ∈ sentRecs w h s dst p, RecOK w r := by
  intro r hr
  unfold sentRecs at hr
  split at hr
  · rename_i loc stash _
    split at hr
    · split at hr
      · obtain ⟨d, _, hd⟩ := List.mem_flatMap.mp hr
        exact recOK_fanRec hd
      · cases hr
    · split at hr
      · obtain ⟨d, _, hd⟩ := List.mem_flatMap.mp hr
        exact recOK_fanRec hd
      · split at hr
        · rename_i hsame
          simp only [List.mem_singleton] at hr
          subst hr
          refine ⟨rfl, rfl, ?_⟩
          unfold isSame at hsame
          simp only [Bool.or_eq_true, beq_iff_eq] at hsame
          exact hsame
        · obtain ⟨h1, h2, n, h3, h4⟩ := mem_netRecs hr
          refine ⟨by rw [h2]; rfl, ?_⟩
          rw [h3, h2]
          exact h4
  · cases hr

theorem recOK_sentBy (w : World) (st : Step) : ∀ r ∈ sentBy w st, RecOK w r := by
  cases st with
  | host h hop =>
    cases hop
    case udpSend s d p => exact recOK_sentRecs w h s d p
    all_goals (intro r hr; cases hr)
  | _ => intro r hr; cases hr

/-! ### runs -/

/-- the hypotheses on a run: the routing invariant holds at its start (true of a world without links,
    `geoW_empty`), and every loopback delivery in it delivers a message that is on the queue. -/
structure RunOK (w : World) (sts : List Step) : Prop where
  geo : GeoW w
  lo : ∀ p ∈ trail w sts, LoValid p.1 p.2

theorem RunOK.head {w : World} {st : Step} {sts : List Step} (h : RunOK w (st :: sts)) : StepOK w st :=
  stepOK w st h.geo (h.lo (w, st) (by simp [trail]))

theorem RunOK.tail {w : World} {st : Step} {sts : List Step} (h : RunOK w (st :: sts)) : RunOK (applyStep w st) sts :=
  ⟨geoW_step w st h.geo, fun p hp => h.lo p (by simp [trail, hp])⟩

theorem run_nums (w : World) (sts : List Step) (h : RunOK w sts) :
    w.hosts.map (·.ipnum) <+: (run w sts).hosts.map (·.ipnum) := by
  induction sts generalizing w with
  | nil => exact List.prefix_refl _
  | cons st sts ih => rw [run_cons]; exact h.head.nums.trans (ih _ h.tail)

theorem run_cfg' (w : World) (sts : List Step) (h : RunOK w sts) : (run w sts).cfg = w.cfg := by
  induction sts generalizing w with
  | nil => rfl
  | cons st sts ih => rw [run_cons, ih _ h.tail, h.head.cfg]

/-- **conservation over a run**: for every keyed datagram envelope, what is queued at the end plus what
    arrived during the run is at most what was queued at the start plus what the run's sends addressed. -/
theorem run_fl (w : World) (sts : List Step) (h : RunOK w sts) (k : Key) (hk : isUdp k.2 = true) :
    flightCount (run w sts) k + ((arrivedOn w sts).map Arrival.key).count k ≤
      flightCount w k + ((sentLog w sts).map SendRec.key).count k := by
  induction sts generalizing w with
  | nil => simp [arrivedOn, sentLog]
  | cons st sts ih =>
    have h1 := h.head.fl k hk
    have h2 := ih _ h.tail
    rw [run_cons]
    simp only [arrivedOn, sentLog, List.map_append, List.count_append]
    omega

/-- every queued datagram was queued at the start or arrived during the run — on a bind with the same
    port and bind address, with that payload and source. -/
theorem run_queues (w : World) (sts : List Step) (h : RunOK w sts) (i : Nat) :
    ∀ b' ∈ ((run w sts).host! i).udp, ∀ x ∈ b'.queue,
      (∃ b ∈ (w.host! i).udp, b.port = b'.port ∧ b.bindAddr = b'.bindAddr ∧ x ∈ b.queue) ∨
      (∃ a ∈ arrivedOn w sts, a.host = i ∧ a.bind.port = b'.port ∧ a.bind.bindAddr = b'.bindAddr ∧
        a.env.msg = .udp x.1 ∧ a.env.src = x.2) := by
  induction sts generalizing w with
  | nil => intro b' hb' x hx; exact Or.inl ⟨b', hb', rfl, rfl, hx⟩
  | cons st sts ih =>
    intro b' hb' x hx
    rw [run_cons] at hb'
    rcases ih _ h.tail b' hb' x hx with ⟨b1, hb1, p1, a1, x1⟩ | ⟨a, ha, r⟩
    · rcases h.head.queues i b1 hb1 x x1 with ⟨b0, hb0, p0, a0, x0⟩ | ⟨a, ha, e1, e2, e3, r⟩
      · exact Or.inl ⟨b0, hb0, p0.trans p1, a0.trans a1, x0⟩
      · exact Or.inr ⟨a, by simp [arrivedOn, ha], e1, e2.trans p1, e3.trans a1, r⟩
    · exact Or.inr ⟨a, by simp [arrivedOn, ha], r⟩

/-- every arrival of a run is sound, read in the final world. -/
theorem run_arrOK (w : World) (sts : List Step) (h : RunOK w sts) :
    ∀ a ∈ arrivedOn w sts, ArrOK w.cfg.udpCap (run w sts) a := by
  induction sts generalizing w with
  | nil => intro a ha; cases ha
  | cons st sts ih =>
    intro a ha
    simp only [arrivedOn, List.mem_append] at ha
    rw [run_cons]
    rcases ha with ha | ha
    · exact ((h.head.arr a ha).mono h.head.nums).mono (run_nums _ sts h.tail)
    · have := ih _ h.tail a ha
      rw [h.head.cfg] at this
      exact this

/-- every record of the log describes its route truthfully, read in the final world. -/
theorem run_recOK (w : World) (sts : List Step) (h : RunOK w sts) : ∀ r ∈ sentLog w sts, RecOK (run w sts) r := by
  induction sts generalizing w with
  | nil => intro r hr; cases hr
  | cons st sts ih =>
    intro r hr
    simp only [sentLog, List.mem_append] at hr
    rw [run_cons]
    rcases hr with hr | hr
    · exact ((recOK_sentBy w st r hr).mono h.head.nums).mono (run_nums _ sts h.tail)
    · exact ih _ h.tail r hr

/-! ### what a record says about the `send_to` call -/

/-- what `send_to(dst, _)` fans out over. -/
def sendDsts (w : World) (dst : Addr) : List Addr :=
  if dst.ip.isBroadcast then bcastDsts w dst.port else if dst.ip.isMulticast then members w dst else [dst]

theorem fanRecs_dsts (w : World) (h : Nat) (src : Addr) (p : Hex) (loopOk : Addr → Bool) (ds : List Addr) :
    ((ds.flatMap (fanRec w h src p loopOk)).map (·.env.dst)).Sublist ds := by
  induction ds with
  | nil => exact List.Sublist.slnil
  | cons d ds ih =>
    simp only [List.flatMap_cons, List.map_append]
    have h1 : (fanRec w h src p loopOk d).map (·.env.dst) = [] ∨ (fanRec w h src p loopOk d).map (·.env.dst) = [d] := by
      unfold fanRec netRecs
      repeat' split
      all_goals first | exact Or.inl rfl | exact Or.inr rfl
    rcases h1 with e | e
    · rw [e]; exact ih.cons d
    · rw [e]; exact ih.cons_cons d

/-- **one record per destination at most**: the destinations of the records of one `send_to`, in order,
    are a sub-list of what the call fans out over (`sendDsts`: the address itself; the hosts with the port
    bound, each once; the current members of the group). -/
theorem sentRecs_dsts (w : World) (h s : Nat) (dst : Addr) (p : Hex) :
    ((sentRecs w h s dst p).map (·.env.dst)).Sublist (sendDsts w dst) := by
  unfold sentRecs sendDsts
  split
  · split
    · split
      · exact fanRecs_dsts _ _ _ _ _ _
      · exact List.nil_sublist _
    · split
      · exact fanRecs_dsts _ _ _ _ _ _
      · split
        · exact List.Sublist.refl _
        · unfold netRecs
          repeat' split
          all_goals first | exact List.nil_sublist _ | exact List.Sublist.refl _
  · exact List.nil_sublist _

/-- **every record is what `send_sound` says**: it was created by a `send_to(dst, p)` on a UDP socket object
    of host `h`, carries the payload `p` unaltered and the socket's source address, and its destination is
    `dst` itself (unicast), a registered host that has the port bound — the broadcast flag being on —
    (broadcast), or a current member of the group — the loop flag for its port being on if it sits on the
    sender's own address — (multicast). -/
theorem sentRecs_sound (w : World) (h s : Nat) (dst : Addr) (p : Hex) (r : SendRec) (hr : r ∈ sentRecs w h s dst p) :
    ∃ loc stash, w.getObj h s = some (.udp loc stash) ∧ r.host = h ∧ r.env.msg = .udp p ∧
      r.env.src = udpSrc h loc dst ∧
      if dst.ip.isBroadcast then
        bcastOn (w.host! h) loc.port = true ∧
        ∃ i, i < w.hosts.length ∧ udpPortUsed (w.host! i) dst.port = true ∧ r.env.dst = { ip := .host i, port := dst.port }
      else if dst.ip.isMulticast then
        r.env.dst ∈ members w dst ∧ (r.env.dst.ip = (udpSrc h loc dst).ip → mloopOn (w.host! h) r.env.dst = true)
      else r.env.dst = dst := by
  unfold sentRecs at hr
  split at hr
  · rename_i loc stash ho
    refine ⟨loc, stash, ho, ?_⟩
    by_cases hb : dst.ip.isBroadcast = true
    · rw [if_pos hb] at hr ⊢
      split at hr
      · rename_i hflag
        obtain ⟨d, hd, hrd⟩ := List.mem_flatMap.mp hr
        obtain ⟨h1, h2, _⟩ := mem_fanRec hrd
        rw [h2]
        exact ⟨h1, rfl, rfl, hflag, (mem_bcastDsts w dst.port d).mp hd⟩
      · cases hr
    · rw [if_neg hb] at hr ⊢
      by_cases hm : dst.ip.isMulticast = true
      · rw [if_pos hm] at hr ⊢
        obtain ⟨d, hd, hrd⟩ := List.mem_flatMap.mp hr
        obtain ⟨h1, h2, h3⟩ := mem_fanRec hrd
        rw [h2]
        refine ⟨h1, rfl, rfl, hd, fun hip => ?_⟩
        rcases h3 with ⟨_, _, hl⟩ | ⟨n, _, _, hne⟩
        · exact hl
        · exact absurd hip.symm hne
      · rw [if_neg hm] at hr ⊢
        split at hr
        · simp only [List.mem_singleton] at hr
          subst hr
          exact ⟨rfl, rfl, rfl, rfl⟩
        · obtain ⟨h1, h2, _⟩ := mem_netRecs hr
          rw [h2]
          exact ⟨h1, rfl, rfl, rfl⟩
  · cases hr

/-- every record of the log of a run was created by a `send_to` step of the run. -/
theorem mem_sentLog (w : World) (sts : List Step) (r : SendRec) (hr : r ∈ sentLog w sts) :
    ∃ w' h s dst p, (w', Step.host h (.udpSend s dst p)) ∈ trail w sts ∧ r ∈ sentRecs w' h s dst p := by
  induction sts generalizing w with
  | nil => cases hr
  | cons st sts ih =>
    simp only [sentLog, List.mem_append] at hr
    rcases hr with hr | hr
    · cases st with
      | host h hop =>
        cases hop
        case udpSend s d p => exact ⟨w, h, s, d, p, by simp [trail], hr⟩
        all_goals cases hr
      | _ => cases hr
    · obtain ⟨w', h, s, dst, p, ht, hrr⟩ := ih _ hr
      exact ⟨w', h, s, dst, p, by simp [trail, ht], hrr⟩

/-! ### a clean start -/

/-- nothing is queued anywhere: no datagram on a link or a loopback queue, every socket queue empty, and
    the links satisfy the routing invariant. -/
structure Fresh (w : World) : Prop where
  geo : GeoW w
  flight : ∀ k : Key, isUdp k.2 = true → flightCount w k = 0
  queues : ∀ i, ∀ b ∈ (w.host! i).udp, b.queue = []

/-- a world without hosts and links (where every run of the driver starts). -/
theorem fresh_of_empty (w : World) (hh : w.hosts = []) (hl : w.links = []) : Fresh w := by
  have hd : ∀ i, w.host! i = default := fun i => by
    unfold host!; rw [hh]; rfl
  refine ⟨geoW_empty w hl, fun k _ => ?_, fun i b hb => ?_⟩
  · unfold flightCount netKeys
    rw [hl]
    cases k.1 with
    | lo i => simp only; rw [hd]; rfl
    | net d => rfl
  · rw [hd] at hb; cases hb

/-! ### arrivals, position by position -/

theorem arrivalsOf_append (cap h : Nat) (xs ys : List (Place × Env)) (u : List UdpBind) :
    arrivalsOf cap h u (xs ++ ys) = arrivalsOf cap h u xs ++ arrivalsOf cap h (tableAfter cap u (xs.map (·.2))) ys := by
  induction xs generalizing u with
  | nil => rfl
  | cons pe xs ih =>
    obtain ⟨pl, e⟩ := pe
    simp only [List.cons_append, arrivalsOf_cons, ih, List.append_assoc]
    rfl

/-- a bind that accepts the datagram — first with the destination port, bind address and filter accept,
    queue has room — takes it. -/
theorem taker_of_accepts (cap : Nat) (u : List UdpBind) (e : Env) (p : Hex) (b : UdpBind) (hm : e.msg = .udp p)
    (hf : u.find? (fun b => b.port == e.dst.port) = some b) (ha : addrMatches b.bindAddr e.dst = true)
    (hfl : filterOk b e.src = true) (hq : b.queue.length < cap) :
    taker cap u e = some b ∧
    ∃ bi, u.findIdx? (fun b => b.port == e.dst.port) = some bi ∧ u[bi]? = some b ∧
      udpPut cap u e = setAt u bi (fun b => { b with queue := b.queue ++ [(p, e.src)] }) := by
  have hfi : ∃ bi, u.findIdx? (fun b => b.port == e.dst.port) = some bi := by
    cases hh : u.findIdx? (fun b => b.port == e.dst.port) with
    | none => rw [C12.find?_none_of_findIdx? u _ hh] at hf; cases hf
    | some bi => exact ⟨bi, rfl⟩
  obtain ⟨bi, hbi⟩ := hfi
  have hb : u.getD bi default = b := by
    have := C12.find?_of_findIdx? u _ bi hbi
    rw [hf] at this
    exact (Option.some.inj this).symm
  have htag : (udpReceive cap (tableHost u) e.src e.dst p).2 = "" := by
    rcases udpReceive_tag cap (tableHost u) e.src e.dst p with ⟨_, hn⟩ | ⟨bj, hbj, hc⟩
    · have hn' : u.findIdx? (fun b => b.port == e.dst.port) = none := hn
      rw [hbi] at hn'; cases hn'
    · have hbj' : u.findIdx? (fun b => b.port == e.dst.port) = some bj := hbj
      rw [hbi] at hbj'
      cases hbj'
      have hb' : (tableHost u).udp.getD bi default = b := hb
      rw [hb'] at hc
      rcases hc with ⟨_, h1⟩ | ⟨_, _, h1⟩ | ⟨_, _, _, h1⟩ | ⟨h0, _⟩
      · rw [hfl] at h1; cases h1
      · rw [ha] at h1; cases h1
      · omega
      · exact h0
  rcases udpPut_cases cap u e with ⟨ht, _⟩ | ⟨bj, b', p', hm', hbj, hget, ht, _, _, _, _, hput⟩
  · unfold taker at ht
    simp only [hm] at ht
    rw [if_pos htag, hf] at ht
    cases ht
  · rw [hbi] at hbj
    cases hbj
    rw [hm] at hm'
    cases hm'
    have e1 : b' = b := by
      have : u.getD bi default = b' := by rw [List.getD_eq_getElem?_getD, hget]; rfl
      rw [← this, hb]
    subst e1
    exact ⟨ht, _, hbi, hget, hput⟩

theorem mem_handedOn (li : Nat) (w : World) (sts : List Step) (x : Sent Env) (hx : x ∈ handedOn li w sts) :
    ∃ w' h', (w', Step.turn h') ∈ trail w sts ∧ x ∈ handed w' li (.turn h') := by
  induction sts generalizing w with
  | nil => cases hx
  | cons st sts ih =>
    simp only [handedOn, List.mem_append] at hx
    rcases hx with hx | hx
    · cases st with
      | turn h' => exact ⟨w, h', by simp [trail], hx⟩
      | _ => cases hx
    · obtain ⟨w', h', ht, hh⟩ := ih _ hx
      exact ⟨w', h', by simp [trail, ht], hh⟩

theorem geoW_trail (w : World) (sts : List Step) (h : GeoW w) : ∀ p ∈ trail w sts, GeoW p.1 := by
  induction sts generalizing w with
  | nil => intro p hp; cases hp
  | cons st sts ih =>
    intro p hp
    simp only [trail, List.mem_cons] at hp
    rcases hp with rfl | hp
    · exact h
    · exact ih _ (geoW_step w st h) p hp

end TV.C09
