import TvCore.Props.C09Fanout
import TvCore.Proofs.C12WorldLemmas
import TvCore.Proofs.C04ReachLemmas
/-
  C09 end to end, part 1 — helper lemmas for `tryrecv_returns_queue_head` and
  `dropped_disturbs_nothing` of `TvCore/Props/C09World.lean`: what `Rx::try_recv_from` does to a
  socket's pending datagrams, and `World.receive` of a UDP envelope as `udpReceive` on one host.

  Vocabulary:
    * `bindQueue hs port`   the receive queue of the socket bound to `port` on host `hs`,
    * `pending w h s`       what the UDP socket object in slot `s` of host `h` has still to return:
                            the datagram `readable()` already took out of the queue (the stash), then
                            the queue of its bind,
    * `recvRes n x`         the observation `try_recv_from` makes of datagram `x` with an `n`-byte buffer,
    * `noQueue b`           a bind without its queue.
-/
namespace TV.C09
open TV TV.World TV.C04

/-- the receive queue of the socket bound to `port` on host `hs` (empty when nothing is bound). -/
def bindQueue (hs : Host) (port : Nat) : List (Hex × Addr) :=
  match hs.udp.findIdx? (·.port == port) with
  | some bi => (hs.udp.getD bi default).queue
  | none => []

/-- the datagrams the UDP socket object in slot `s` of host `h` has still to return, in order: the one
    `readable()` moved into the stash (if any), then the receive queue of its bind. -/
def pending (w : World) (h s : Nat) : List (Hex × Addr) :=
  match w.getObj h s with
  | some (.udp loc stash) => stash.toList ++ bindQueue (w.host! h) loc.port
  | _ => []

/-- what `try_recv_from` reports for datagram `x = (payload, origin)` with a buffer of `n` bytes:
    the number of bytes copied, the origin, the payload cut to `n` bytes. -/
def recvRes (n : Nat) (x : Hex × Addr) : String :=
  s!"ok {min n (hexLen x.1)} {x.2.toTok} {hexTok (hexTake x.1 n)}"

/-- a bind without its queue. -/
def noQueue (b : UdpBind) : UdpBind := { b with queue := [] }

theorem recvRes_toList (n : Nat) (x : Hex × Addr) :
    (recvRes n x).toList = 'o' :: 'k' :: ' ' ::
      ((toString (min n (hexLen x.1))).toList ++ ' ' :: (x.2.toTok.toList ++ ' ' :: (hexTok (hexTake x.1 n)).toList)) := by
  show ("ok " ++ toString (min n (hexLen x.1)) ++ " " ++ x.2.toTok ++ " " ++ hexTok (hexTake x.1 n)).toList = _
  simp [String.toList_append]

theorem recvRes_ne_wouldblock (n : Nat) (x : Hex × Addr) : recvRes n x ≠ "err wouldblock" := by
  intro h; have := congrArg String.toList h; rw [recvRes_toList] at this; simp at this

theorem recvRes_ne_badslot (n : Nat) (x : Hex × Addr) : recvRes n x ≠ "err badslot" := by
  intro h; have := congrArg String.toList h; rw [recvRes_toList] at this; simp at this

/-- the cut is at `n` bytes: the reported length is that of the returned payload. -/
theorem hexLen_hexTake (p : Hex) (n : Nat) : hexLen (hexTake p n) = min n (hexLen p) := by
  unfold hexLen hexTake
  rw [String.length_ofList, List.length_take, String.length_toList]
  omega

theorem bindQueue_of_findIdx? (hs : Host) (port bi : Nat) (hb : hs.udp.findIdx? (·.port == port) = some bi) :
    bindQueue hs port = (hs.udp.getD bi default).queue := by
  unfold bindQueue; rw [hb]

theorem bindQueue_none (hs : Host) (port : Nat) (hb : hs.udp.findIdx? (·.port == port) = none) :
    bindQueue hs port = [] := by
  unfold bindQueue; rw [hb]

/-- replacing the queue of the bind at index `bi`. -/
def setQueue (hs : Host) (bi : Nat) (q : List (Hex × Addr)) : Host :=
  { hs with udp := setAt hs.udp bi (fun b => { b with queue := q }) }

theorem findIdx?_setQueue (hs : Host) (bi : Nat) (q : List (Hex × Addr)) (port : Nat) :
    (setQueue hs bi q).udp.findIdx? (·.port == port) = hs.udp.findIdx? (·.port == port) :=
  findIdx?_setAt _ _ _ _ (fun _ => rfl)

theorem bindQueue_setQueue_self (hs : Host) (bi port : Nat) (q : List (Hex × Addr))
    (hb : hs.udp.findIdx? (·.port == port) = some bi) : bindQueue (setQueue hs bi q) port = q := by
  unfold bindQueue
  rw [findIdx?_setQueue, hb]
  show ((setAt hs.udp bi _).getD bi default).queue = q
  rw [setAt_getD _ _ _ _ (C12.findIdx?_lt _ _ _ hb)]

theorem bindQueue_setQueue_ne (hs : Host) (bi port port' : Nat) (q : List (Hex × Addr))
    (hb : hs.udp.findIdx? (·.port == port) = some bi) (hne : port' ≠ port) :
    bindQueue (setQueue hs bi q) port' = bindQueue hs port' := by
  unfold bindQueue
  rw [findIdx?_setQueue]
  cases hb' : hs.udp.findIdx? (·.port == port') with
  | none => rfl
  | some bj =>
    simp only
    have hne' : bj ≠ bi := by
      intro e
      subst e
      obtain ⟨h1, hp1, _⟩ := List.findIdx?_eq_some_iff_getElem.mp hb
      obtain ⟨_, hp2, _⟩ := List.findIdx?_eq_some_iff_getElem.mp hb'
      simp only [beq_iff_eq] at hp1 hp2
      exact hne (hp2.symm.trans hp1)
    show ((setAt hs.udp bi _).getD bj default).queue = _
    rw [getD_setAt_ne _ _ _ _ _ hne']

theorem map_noQueue_setQueue (hs : Host) (bi : Nat) (q : List (Hex × Addr)) :
    (setQueue hs bi q).udp.map noQueue = hs.udp.map noQueue :=
  map_setAt _ _ _ _ (fun _ => rfl)

/-! ### `try_recv_from`, case by case -/

theorem tryRecv_stash (w : World) (h s n : Nat) (loc : Addr) (x : Hex × Addr)
    (ho : w.getObj h s = some (.udp loc (some x))) :
    w.opUdpTryRecv h s n = (w.setObj h s (.udp loc none), recvRes n x) := by
  obtain ⟨p, src⟩ := x
  unfold opUdpTryRecv
  simp only [ho]
  rfl

theorem tryRecv_nobind (w : World) (h s n : Nat) (loc : Addr)
    (ho : w.getObj h s = some (.udp loc none))
    (hb : (w.host! h).udp.findIdx? (·.port == loc.port) = none) :
    w.opUdpTryRecv h s n = (w, "err wouldblock") := by
  unfold opUdpTryRecv
  simp only [ho, hb]

theorem tryRecv_empty (w : World) (h s n : Nat) (loc : Addr) (bi : Nat)
    (ho : w.getObj h s = some (.udp loc none))
    (hb : (w.host! h).udp.findIdx? (·.port == loc.port) = some bi)
    (hq : ((w.host! h).udp.getD bi default).queue = []) :
    w.opUdpTryRecv h s n = (w, "err wouldblock") := by
  unfold opUdpTryRecv
  simp only [ho, hb, hq]

theorem tryRecv_queue (w : World) (h s n : Nat) (loc : Addr) (bi : Nat) (x : Hex × Addr) (rest : List (Hex × Addr))
    (ho : w.getObj h s = some (.udp loc none))
    (hb : (w.host! h).udp.findIdx? (·.port == loc.port) = some bi)
    (hq : ((w.host! h).udp.getD bi default).queue = x :: rest) :
    w.opUdpTryRecv h s n = (w.setHost h (fun hs => setQueue hs bi rest), recvRes n x) := by
  obtain ⟨p, src⟩ := x
  unfold opUdpTryRecv
  simp only [ho, hb, hq]
  rfl

/-! ### what `setObj` and a host update leave alone -/

theorem host!_setObj_self (w : World) (h s : Nat) (o : Obj) (hh : h < w.hosts.length) :
    (w.setObj h s o).host! h = { w.host! h with objs := ((w.host! h).objs.filter (·.1 != s)) ++ [(s, o)] } := by
  unfold setObj
  rw [host!_setHost_self _ _ _ hh]

theorem host!_setObj_ne (w : World) (h s i : Nat) (o : Obj) (hi : i ≠ h) : (w.setObj h s o).host! i = w.host! i := by
  unfold setObj
  exact C12.host!_setHost_ne _ _ _ _ hi

theorem setHost_hosts_eq (w : World) (h : Nat) (f : Host → Host) : { w.setHost h f with hosts := w.hosts } = w := rfl

/-! ### `World.receive` of a UDP envelope -/

theorem isEmpty_false_of_ne {t : String} (h : t ≠ "") : t.isEmpty = false := by
  cases hs : t.isEmpty with
  | false => rfl
  | true => exact absurd (String.isEmpty_iff.mp hs) h

/-- writing a host's own state back changes nothing. -/
theorem setHost_same (w : World) (h : Nat) : w.setHost h (fun _ => w.host! h) = w := by
  by_cases hh : h < w.hosts.length
  · unfold setHost
    have : setAt w.hosts h (fun _ => w.host! h) = w.hosts := C12.setAt_id _ _ _ default rfl hh
    rw [this]
  · unfold setHost
    rw [setAt_of_ge _ _ _ (by omega)]

/-- `Host::receive_from_network` of a UDP envelope is `udpReceive` on that host. -/
theorem receive_udp (w : World) (h : Nat) (e : Env) (p : Hex) (hm : e.msg = .udp p) :
    w.receive h e =
      (false, if (udpReceive w.cfg.udpCap (w.host! h) e.src e.dst p).2.isEmpty
              then w.setHost h (fun _ => (udpReceive w.cfg.udpCap (w.host! h) e.src e.dst p).1)
              else (w.setHost h (fun _ => (udpReceive w.cfg.udpCap (w.host! h) e.src e.dst p).1)).tag
                     (udpReceive w.cfg.udpCap (w.host! h) e.src e.dst p).2) := by
  unfold receive
  simp only [hm]

/-- why a datagram is dropped at arrival: the tag `udpReceive` returns, with its condition. -/
theorem udpReceive_tag (cap : Nat) (hs : Host) (src dst : Addr) (p : Hex) :
    ((udpReceive cap hs src dst p).2 = "udpnobind" ∧ hs.udp.findIdx? (·.port == dst.port) = none) ∨
    ∃ bi, hs.udp.findIdx? (·.port == dst.port) = some bi ∧
      (((udpReceive cap hs src dst p).2 = "udpfilter" ∧ filterOk (hs.udp.getD bi default) src = false) ∨
       ((udpReceive cap hs src dst p).2 = "udpnomatch" ∧ filterOk (hs.udp.getD bi default) src = true ∧
          addrMatches (hs.udp.getD bi default).bindAddr dst = false) ∨
       ((udpReceive cap hs src dst p).2 = "udpfull" ∧ filterOk (hs.udp.getD bi default) src = true ∧
          addrMatches (hs.udp.getD bi default).bindAddr dst = true ∧ cap ≤ (hs.udp.getD bi default).queue.length) ∨
       ((udpReceive cap hs src dst p).2 = "" ∧ filterOk (hs.udp.getD bi default) src = true ∧
          addrMatches (hs.udp.getD bi default).bindAddr dst = true ∧ (hs.udp.getD bi default).queue.length < cap)) := by
  unfold udpReceive
  cases hf : hs.udp.findIdx? (fun b => b.port == dst.port) with
  | none => exact Or.inl ⟨rfl, rfl⟩
  | some bi =>
    refine Or.inr ⟨bi, rfl, ?_⟩
    simp only
    generalize hs.udp.getD bi default = b
    unfold udpReceiveAt
    cases h1 : filterOk b src
    · exact Or.inl ⟨by simp, rfl⟩
    · cases h2 : addrMatches b.bindAddr dst
      · exact Or.inr (Or.inl ⟨by simp, rfl, rfl⟩)
      · by_cases h3 : cap ≤ b.queue.length
        · exact Or.inr (Or.inr (Or.inl ⟨by simp [h3], rfl, rfl, h3⟩))
        · exact Or.inr (Or.inr (Or.inr ⟨by simp [h3], rfl, rfl, by omega⟩))

/-- the decision `udpReceive` takes reads the host's UDP table only. -/
theorem udpReceive_congr (cap : Nat) (hs hs' : Host) (src dst : Addr) (p : Hex) (hu : hs'.udp = hs.udp) :
    (udpReceive cap hs' src dst p).2 = (udpReceive cap hs src dst p).2 ∧
    (udpReceive cap hs' src dst p).1.udp = (udpReceive cap hs src dst p).1.udp := by
  unfold udpReceive
  rw [hu]
  cases hs.udp.findIdx? (fun b => b.port == dst.port) with
  | none => exact ⟨rfl, hu⟩
  | some bi =>
    simp only
    generalize hs.udp.getD bi default = b
    unfold udpReceiveAt
    repeat' split
    all_goals first | exact ⟨rfl, hu⟩ | simp only [hu, and_self]

theorem tag_cov (w : World) (t : String) : { w.tag t with cov := w.cov } = w := by
  unfold tag; split <;> rfl

end TV.C09
