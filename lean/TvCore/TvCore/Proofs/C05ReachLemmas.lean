import TvCore.Model.Step
import TvCore.Props.C05Late
import TvCore.Proofs.C04ReachLemmas
/-
  Helper lemmas for `Props/C05Reach.lean`.

  `clk hs` is the record of the clock fields of a host (`HostTimer` + the host runtime's tokio clock +
  the two "software is running" flags); `tv w` (the *clock view* of a World) is the list of those
  records together with `Sim::elapsed` and the configuration.  Almost every function of the World model
  leaves the clock view alone (`tv (f w) = tv w`): this file proves that, function by function, and
  then describes every transition of `applyStep` by its *clock part* `clockPart w st` — a World
  obtained from `w` by at most one of `register`, `stepEnd`, `turnBegin`, `hopSleep` or a `setHost`
  that writes the flags / resets the runtime clock — with `tv (applyStep w st) = tv (clockPart w st)`.
-/
namespace TV.C05
open TV TV.World

/-- the clock fields of a host. -/
structure HClk where
  elapsed : Nat
  startOffset : Nat
  winStart : Nat
  hnow : Nat
  wake : Option Nat
  t0 : Nat
  running : Bool
  exited : Bool

def clk (hs : Host) : HClk :=
  { elapsed := hs.elapsed, startOffset := hs.startOffset, winStart := hs.winStart, hnow := hs.hnow,
    wake := hs.wake, t0 := hs.t0, running := hs.running, exited := hs.exited }

/-- the clock view of a World. -/
structure TView where
  hosts : List HClk
  elapsed : Nat
  cfg : WCfg

def tv (w : World) : TView := { hosts := w.hosts.map clk, elapsed := w.elapsed, cfg := w.cfg }

/-! ### generic frame lemmas -/

theorem tv_of_eq {w w' : World} (eh : w'.hosts = w.hosts) (ee : w'.elapsed = w.elapsed) (ec : w'.cfg = w.cfg) :
    tv w' = tv w := by
  unfold tv; rw [eh, ee, ec]

theorem tv_tag (w : World) (t : String) : tv (w.tag t) = tv w := by unfold tag; split <;> rfl
theorem tv_panic (w : World) (t : String) : tv (w.panic t) = tv w := by unfold World.panic; split <;> rfl

theorem tv_setHost (w : World) (h : Nat) (f : Host → Host) (hf : ∀ a, clk (f a) = clk a := by intro _; with_unfolding_all rfl) :
    tv (w.setHost h f) = tv w := by
  unfold tv setHost
  simp only
  rw [C04.map_setAt _ _ _ _ hf]

theorem tv_ite {w a b : World} (c : Prop) [Decidable c] (ha : tv a = tv w) (hb : tv b = tv w) :
    tv (if c then a else b) = tv w := by
  split <;> assumption

theorem tv_foldl {α : Type} (f : World → α → World) (hf : ∀ w x, tv (f w x) = tv w) (l : List α) (w : World) :
    tv (l.foldl f w) = tv w := by
  induction l generalizing w with
  | nil => rfl
  | cons x xs ih => exact (ih _).trans (hf w x)

/-! ### the functions of `Model/World.lean` -/

theorem tv_setChan (w : World) (c : Nat) (f : Chan → Chan) : tv (w.setChan c f) = tv w := rfl
theorem tv_dropSyn (w : World) (id : Nat) : tv (w.dropSyn id) = tv w := rfl

theorem tv_dropEnvs (w : World) (es : List Env) : tv (w.dropEnvs es) = tv w := by
  unfold dropEnvs
  refine tv_foldl _ (fun w e => ?_) es w
  split
  · exact tv_dropSyn _ _
  · rfl

theorem tv_popFail (w : World) : tv (w.popFail).2 = tv w := by unfold popFail; split <;> rfl
theorem tv_popRepair (w : World) : tv (w.popRepair).2 = tv w := by unfold popRepair; split <;> rfl
theorem tv_popDelay (w : World) : tv (w.popDelay).2 = tv w := by unfold popDelay; split <;> rfl

theorem tv_linkEnqueue (w : World) (li s d : Nat) (e : Env) : tv (w.linkEnqueue li s d e) = tv w := by
  refine tv_of_eq (C04.hosts_linkEnqueue w li s d e) ?_ (C04.cfg_linkEnqueue w li s d e)
  unfold linkEnqueue
  split
  · rfl
  · simp only
    have hd : ∀ (w : World) (es : List Env), (w.dropEnvs es).elapsed = w.elapsed :=
      fun w es => congrArg TView.elapsed (tv_dropEnvs w es)
    have ht : ∀ (w : World) (t : String), (w.tag t).elapsed = w.elapsed :=
      fun w t => congrArg TView.elapsed (tv_tag w t)
    have h1 : ∀ (w : World), (w.popFail).2.elapsed = w.elapsed := fun w => congrArg TView.elapsed (tv_popFail w)
    have h2 : ∀ (w : World), (w.popRepair).2.elapsed = w.elapsed := fun w => congrArg TView.elapsed (tv_popRepair w)
    have h3 : ∀ (w : World), (w.popDelay).2.elapsed = w.elapsed := fun w => congrArg TView.elapsed (tv_popDelay w)
    repeat' split
    all_goals simp [hd, ht, h1, h2, h3]

theorem tv_sendMessage (w : World) (e : Env) : tv (w.sendMessage e).2 = tv w := by
  unfold sendMessage
  repeat' split
  all_goals first
    | exact tv_dropEnvs _ _
    | exact tv_linkEnqueue _ _ _ _ _

theorem tv_sendLoopback (w : World) (h : Nat) (e : Env) : tv (w.sendLoopback h e) = tv w :=
  (tv_tag _ _).trans (tv_setHost w h _ )

theorem tv_netSend (w : World) (h : Nat) (e : Env) : tv (w.netSend h e).2 = tv w := by
  unfold netSend
  split
  · exact tv_sendLoopback w h e
  · exact tv_sendMessage w e

theorem tv_assignPort (w : World) (h : Nat) : tv (w.assignPort h).2 = tv w := by
  unfold assignPort
  simp only
  have h1 := tv_setHost w h (fun hs => { hs with nextEph := (assignEphemeral w.cfg.ephLo w.cfg.ephHi
    (fun p => udpPortUsed (w.host! h) p || tcpPortUsed (w.host! h) p) (w.host! h).nextEph).2 })
  have h2 := tv_ite (w := w) ((assignEphemeral w.cfg.ephLo w.cfg.ephHi
    (fun p => udpPortUsed (w.host! h) p || tcpPortUsed (w.host! h) p) (w.host! h).nextEph).2 ≤ (w.host! h).nextEph)
    ((tv_tag _ "wrap").trans h1) h1
  split
  · exact h2
  · exact (tv_panic _ _).trans h2

theorem tv_removeSock (w : World) (h : Nat) (loc rem : Addr) : tv (w.removeSock h loc rem) = tv w := by
  unfold removeSock
  split
  · rfl
  · exact (tv_setChan _ _ _).trans (tv_setHost w h _ )

theorem tv_closeStreamHalf (w : World) (h : Nat) (loc rem : Addr) : tv (w.closeStreamHalf h loc rem) = tv w := by
  unfold closeStreamHalf
  simp only
  split
  · exact (tv_setChan _ _ _).trans (tv_setHost w h _ )
  · exact tv_setHost w h _

theorem tv_newStream (w : World) (h : Nat) (loc rem : Addr) : tv (w.newStream h loc rem).2 = tv w := by
  unfold newStream newChan newFcPair
  simp only
  refine (tv_setHost _ h _ ).trans ?_
  refine Eq.trans (b := tv (if (findSock (w.host! h) loc rem).isSome = true then w.panic "already connected" else w)) rfl ?_
  exact tv_ite _ (tv_panic _ _) rfl

theorem tv_sockBuffer (w : World) (h i seq : Nat) (seg : Seg) : tv (w.sockBuffer h i seq seg).2 = tv w := by
  unfold sockBuffer
  simp only
  refine (tv_setChan _ _ _).trans ?_
  refine (tv_setHost _ h _ ).trans ?_
  refine (tv_ite _ (tv_tag _ _) rfl).trans ?_
  refine (tv_ite _ (tv_tag _ _) rfl).trans ?_
  exact tv_ite _ (tv_panic _ _) rfl

theorem clk_udpReceive (cap : Nat) (hs : Host) (src dst : Addr) (p : Hex) :
    clk (udpReceive cap hs src dst p).1 = clk hs := by
  unfold udpReceive
  split
  · rfl
  · unfold udpReceiveAt
    split
    · rfl
    · split
      · rfl
      · split <;> rfl

theorem tv_receive (w : World) (h : Nat) (e : Env) : tv (w.receive h e).2 = tv w := by
  unfold receive
  simp only
  split
  · split
    · exact (tv_tag _ _).trans (tv_dropSyn _ _)
    · split
      · exact (tv_setHost _ h _ ).trans (tv_ite _ (tv_panic _ _) rfl)
      · exact ((tv_tag _ _).trans (tv_dropSyn _ _)).trans (tv_ite _ (tv_panic _ _) rfl)
  · split
    · exact tv_sockBuffer _ _ _ _ _
    · exact tv_tag _ _
  · split
    · exact tv_sockBuffer _ _ _ _ _
    · exact tv_tag _ _
  · exact (tv_tag _ _).trans (tv_removeSock _ _ _ _)
  · next p _ =>
    have h1 : tv (w.setHost h (fun _ => (udpReceive w.cfg.udpCap (w.host! h) e.src e.dst p).1)) = tv w := by
      unfold tv setHost
      simp only
      congr 1
      -- the replaced host has the clock fields of the one it replaces
      unfold host!
      generalize w.hosts = l
      induction l generalizing h with
      | nil => rfl
      | cons x xs ih =>
        cases h with
        | zero => simp [setAt, clk_udpReceive]
        | succ k => simpa [setAt] using ih k
    exact (tv_ite _ rfl (tv_tag _ _)).trans h1

theorem tv_loReceive (w : World) (h : Nat) (e : Env) : tv (w.loReceive h e) = tv w := by
  unfold loReceive
  simp only
  split
  · exact (tv_receive _ _ _).trans (tv_receive _ _ _)
  · exact tv_receive _ _ _

theorem tv_deliverTo (w : World) (h : Nat) : tv (w.deliverTo h).2 = tv w := by
  unfold deliverTo
  simp only
  generalize (List.filter _ _) = idxs
  suffices H : ∀ (l : List Nat) (acc : List Env × World), tv acc.2 = tv w →
      tv (l.foldl (fun (acc : List Env × World) li =>
        match acc.2.links[li]? with
        | none => (acc.1, acc.2)
        | some l =>
          (acc.1 ++ (l.drain (w.host! h).ipnum).2.map (·.msg),
           (l.drain (w.host! h).ipnum).2.foldl (fun w (s : Sent Env) =>
              if (w.receive h s.msg).1 = true then
                (w.receive h s.msg).2.linkEnqueue li s.dst s.src { src := s.msg.dst, dst := s.msg.src, msg := .rst }
              else (w.receive h s.msg).2)
            { acc.2 with links := setAt acc.2.links li (fun _ => (l.drain (w.host! h).ipnum).1) })) acc).2 = tv w from
    H idxs ([], w) rfl
  intro l
  induction l with
  | nil => intro acc ha; exact ha
  | cons li ls ih =>
    intro acc ha
    simp only [List.foldl_cons]
    apply ih
    split
    · exact ha
    · refine Eq.trans (tv_foldl _ (fun w s => ?_) _ _) (Eq.trans rfl ha)
      split
      · exact (tv_linkEnqueue _ _ _ _ _).trans (tv_receive _ _ _)
      · exact tv_receive _ _ _

/-! ### objects and destructors -/

theorem tv_setObj (w : World) (h s : Nat) (o : Obj) : tv (w.setObj h s o) = tv w := tv_setHost w h _
theorem tv_delObj (w : World) (h s : Nat) : tv (w.delObj h s) = tv w := tv_setHost w h _
theorem tv_mgLeaveAll (w : World) (m : Addr) : tv (w.mgLeaveAll m) = tv w := rfl

theorem tv_udpUnbind (w : World) (h port : Nat) : tv (w.udpUnbind h port) = tv w := by
  unfold udpUnbind
  exact (tv_setHost _ h _ ).trans (tv_ite _ rfl (tv_panic _ _))

theorem tv_tcpUnbind (w : World) (h port : Nat) : tv (w.tcpUnbind h port) = tv w := by
  unfold tcpUnbind
  split
  · exact tv_panic _ _
  · exact (tv_foldl (fun w (s : SynReq) => w.dropSyn s.id) (fun w s => tv_dropSyn w s.id) _ _).trans (tv_setHost _ h _ )

theorem tv_dropRead (w : World) (h : Nat) (r : RdH) : tv (w.dropRead h r) = tv w := by
  unfold dropRead
  simp only
  refine Eq.trans (tv_ite _ ?_ (tv_closeStreamHalf _ _ _ _)) (tv_setChan w r.chan _)
  exact ((tv_tag _ _).trans (tv_removeSock _ _ _ _)).trans (tv_netSend _ _ _)

theorem tv_dropWrite (w : World) (h : Nat) (x : WrH) : tv (w.dropWrite h x) = tv w := by
  unfold dropWrite
  refine (tv_closeStreamHalf _ _ _ _).trans ?_
  split
  · split
    · exact (tv_netSend _ _ _).trans (tv_setHost w h _ )
    · rfl
  · rfl

theorem tv_dropObj (w : World) (h : Nat) (o : Obj) : tv (w.dropObj h o) = tv w := by
  unfold dropObj
  cases o with
  | udp loc stash => exact (tv_udpUnbind _ _ _).trans (tv_mgLeaveAll w _)
  | listener loc => exact tv_tcpUnbind w _ _
  | connecting id loc rem chan fcW =>
    simp only
    have h1 : tv ({ w with syns := setAt w.syns id fun c => { c with rxAlive := false } } : World) = tv w := rfl
    have h3 := ((tv_tag _ "connectdropped").trans (tv_setChan _ chan fun c => { c with rxAlive := false })).trans h1
    split
    · exact (tv_removeSock _ _ _ _).trans h3
    · exact h3
  | stream rd wr =>
    simp only
    have h1 : tv (match rd with | some r => w.dropRead h r | none => w) = tv w := by
      cases rd with
      | some r => exact tv_dropRead w h r
      | none => rfl
    cases wr with
    | some x => exact (tv_dropWrite _ h x).trans h1
    | none => exact h1

theorem tv_dropAll (w : World) (h : Nat) : tv (w.dropAll h) = tv w := by
  unfold dropAll
  simp only
  refine (tv_foldl (fun w (p : Nat × Obj) => w.dropObj h p.2) (fun w p => tv_dropObj w h p.2) _ _).trans ?_
  exact (tv_dropEnvs _ _).trans (tv_setHost w h _ )

/-! ### host-level calls (`Model/Ops.lean`) -/

/-- a World literal that copies `hosts`, `elapsed`, `cfg` from `w`. -/
theorem tv_lit (w : World) (links : List (Link Env)) (chans : List Chan) (fcs : List Nat) (syns : List SynCell)
    (mgroups : List (Addr × List Addr)) (oracle : List Ora) (now : Nat) (cur : Option Nat) (dns : Dns String)
    (v6 oraErr : Bool) (panicked : Option String) (cov : List String) :
    tv { cfg := w.cfg, hosts := w.hosts, links := links, chans := chans, fcs := fcs, syns := syns, mgroups := mgroups,
         oracle := oracle, now := now, elapsed := w.elapsed, cur := cur, dns := dns, v6 := v6, oraErr := oraErr,
         panicked := panicked, cov := cov } = tv w := rfl

/-- one step of a frame chain: peel the outermost clock-neutral function off the World on the left. -/
macro "tv_step" : tactic => `(tactic| with_reducible first
  | exact rfl
  | refine Eq.trans (tv_tag _ _) ?_
  | refine Eq.trans (tv_panic _ _) ?_
  | refine Eq.trans (tv_setChan _ _ _) ?_
  | refine Eq.trans (tv_dropSyn _ _) ?_
  | refine Eq.trans (tv_dropEnvs _ _) ?_
  | refine Eq.trans (tv_setObj _ _ _ _) ?_
  | refine Eq.trans (tv_delObj _ _ _) ?_
  | refine Eq.trans (tv_netSend _ _ _) ?_
  | refine Eq.trans (tv_sendMessage _ _) ?_
  | refine Eq.trans (tv_sendLoopback _ _ _) ?_
  | refine Eq.trans (tv_assignPort _ _) ?_
  | refine Eq.trans (tv_removeSock _ _ _ _) ?_
  | refine Eq.trans (tv_closeStreamHalf _ _ _ _) ?_
  | refine Eq.trans (tv_newStream _ _ _ _) ?_
  | refine Eq.trans (tv_dropRead _ _ _) ?_
  | refine Eq.trans (tv_dropWrite _ _ _) ?_
  | refine Eq.trans (tv_dropObj _ _ _) ?_
  | refine Eq.trans (tv_dropAll _ _) ?_
  | refine Eq.trans (tv_receive _ _ _) ?_
  | refine Eq.trans (tv_linkEnqueue _ _ _ _ _) ?_
  | refine Eq.trans (tv_setHost _ _ _) ?_
  | simp only [tv_lit]
  | refine tv_ite _ ?_ ?_)

/-- a frame chain ending in a World that differs from the target in no clock field. -/
macro "tv_auto" : tactic => `(tactic| repeat tv_step)

/-- case analysis of a model function down to straight-line code. -/
macro "tv_cases" : tactic => `(tactic| repeat' (first | simp only [] | split))

theorem tv_opUdpBind (w : World) (h s : Nat) (a : Addr) : tv (w.opUdpBind h s a).1 = tv w := by
  unfold opUdpBind
  tv_cases
  all_goals tv_auto

end TV.C05
