import TvCore.Proofs.C04ReachOps
/-
  Helper lemmas for `Props/C04Late.lean`, part 3: the local addresses of socket objects.

  `LocOK w`: every socket object a host holds carries a local address of that host — a UDP socket or a
  listener is bound to the wildcard or the loopback address (`verify_ipv4_bind_interface`), a pending
  connect or a stream half has the host's own address or the loopback address as its local end.  It is
  an invariant of every transition (`locOK_applyStep`), so every envelope host code hands to `netSend` /
  `send_message` carries a source address of the sending host (used in `C04LateSend.lean`).
-/
namespace TV.C04
open TV TV.World

/-- a bind address: wildcard or loopback (`bindIpOk`). -/
def BindIp (a : Addr) : Prop := a.ip = .any ∨ a.ip = .lo
/-- a local address of host `g` on the wire: its own address or loopback. -/
def OwnIp (g : Nat) (a : Addr) : Prop := a.ip = .host g ∨ a.ip = .lo

/-- the local address of a socket object is one of its host's. -/
def LocGood (g : Nat) : Obj → Prop
  | .udp loc _ => BindIp loc
  | .listener loc => BindIp loc
  | .connecting _ loc _ _ _ => OwnIp g loc
  | .stream rd wr => (∀ r, rd = some r → OwnIp g r.loc) ∧ (∀ x, wr = some x → OwnIp g x.loc)

def HostLoc (g : Nat) (hs : Host) : Prop := ∀ p ∈ hs.objs, LocGood g p.2

/-- the invariant: for every host index. -/
def LocOK (w : World) : Prop := ∀ g, HostLoc g (w.host! g)

theorem bindIp_of_ok {a : Addr} (h : bindIpOk a.ip = true) : BindIp a := by
  unfold bindIpOk at h
  unfold BindIp
  cases hi : a.ip <;> simp [hi, Ip.isUnspecified, Ip.isLoopback] at h ⊢

theorem getObj_mem {w : World} {g s : Nat} {o : Obj} (h : w.getObj g s = some o) : (s, o) ∈ (w.host! g).objs := by
  unfold getObj at h
  cases hf : (w.host! g).objs.find? (·.1 == s) with
  | none => simp [hf] at h
  | some p =>
    simp only [hf, Option.map_some, Option.some.injEq] at h
    have hm := List.mem_of_find?_eq_some hf
    have hk : p.1 = s := by simpa using List.find?_some hf
    have : p = (s, o) := by cases p; simp only at hk h; subst hk; subst h; rfl
    rw [← this]; exact hm

theorem LocOK.obj {w : World} (h : LocOK w) {g s : Nat} {o : Obj} (ho : w.getObj g s = some o) : LocGood g o :=
  h g (s, o) (getObj_mem ho)

theorem LocOK.sh {w w' : World} (h : LocOK w) (s : Sh w w') : LocOK w' := by
  intro g p hp
  rw [s.objs_eq g] at hp
  exact h g p hp

theorem locOK_setHost (w : World) (g : Nat) (f : Host → Host) (hok : LocOK w)
    (hf : HostLoc g (w.host! g) → HostLoc g (f (w.host! g))) : LocOK (w.setHost g f) := by
  intro i
  rw [host!_setHost_eq]
  split
  · next c => obtain ⟨rfl, _⟩ := c; exact hf (hok i)
  · exact hok i

theorem locOK_setObj (w : World) (g s : Nat) (n : Obj) (hok : LocOK w) (hn : LocGood g n) : LocOK (w.setObj g s n) := by
  refine locOK_setHost w g _ hok (fun hk p hp => ?_)
  rcases List.mem_append.mp hp with hp | hp
  · exact hk p (List.mem_filter.mp hp).1
  · simp only [List.mem_singleton] at hp; subst hp; exact hn

theorem locOK_delObj (w : World) (g s : Nat) (hok : LocOK w) : LocOK (w.delObj g s) :=
  locOK_setHost w g _ hok (fun hk p hp => hk p (List.mem_filter.mp hp).1)

/-! ### the calls that write the object table -/

theorem locOK_opUdpTryRecv (w : World) (h s n : Nat) (hok : LocOK w) : LocOK (w.opUdpTryRecv h s n).1 := by
  unfold opUdpTryRecv
  split
  · next loc stash hg =>
    split
    · exact locOK_setObj w h s _ hok (show BindIp loc from hok.obj hg)
    · split
      · exact hok
      · simp only
        split
        · exact hok
        · exact hok.sh (sh_udpQueue w h _ _)
  · exact hok

theorem locOK_opUdpReadable (w : World) (h s : Nat) (hok : LocOK w) : LocOK (w.opUdpReadable h s).1 := by
  unfold opUdpReadable
  split
  · next loc stash hg =>
    split
    · exact hok
    · split
      · exact hok
      · simp only
        split
        · exact hok
        · have hs := sh_udpQueue w h ‹Nat› ‹List (Hex × Addr)›
          exact locOK_setObj _ h s _ (hok.sh hs) (show BindIp loc from hok.obj hg)
  · exact hok

theorem locOK_opUdpRecv (w : World) (h s n : Nat) (hok : LocOK w) : LocOK (w.opUdpRecv h s n).1 := by
  unfold opUdpRecv
  simp only
  split
  · exact locOK_opUdpTryRecv _ h s n (locOK_opUdpReadable w h s hok)
  · exact locOK_opUdpReadable w h s hok

theorem locOK_connectPoll (w : World) (h s : Nat) (hok : LocOK w) : LocOK (w.connectPoll h s).1 := by
  unfold connectPoll
  split
  · next id loc rem chan fcW hg =>
    have hl : OwnIp h loc := hok.obj hg
    split
    · exact hok
    · refine locOK_setObj w h s _ hok ⟨fun r hr => ?_, fun x hx => ?_⟩
      · cases hr; exact hl
      · cases hx; exact hl
    · simp only
      have h1 := locOK_delObj w h s hok
      have h2 := h1.sh (sh_setChan _ chan fun c => { c with rxAlive := false })
      refine LocOK.sh ?_ (sh_tag _ "refused")
      split
      · exact h2.sh (sh_removeSock _ _ _ _)
      · exact h2.sh (sh_tag _ _)
  · exact hok

theorem locOK_opTcpConnect (w : World) (h s : Nat) (dst : Addr) (hok : LocOK w) : LocOK (w.opTcpConnect h s dst).1 := by
  unfold opTcpConnect
  simp only
  have s1 := sh_assignPort w h
  split
  · exact hok.sh s1
  · next p _ =>
    have hloc : OwnIp h ({ ip := if dst.ip.isLoopback = true then dst.ip else Ip.host h, port := p } : Addr) := by
      unfold OwnIp
      simp only
      split
      · rename_i hl
        right
        cases hd : dst.ip <;> simp [hd, Ip.isLoopback] at hl ⊢
      · left; rfl
    generalize ({ ip := if dst.ip.isLoopback = true then dst.ip else Ip.host h, port := p } : Addr) = loc at hloc ⊢
    split
    · exact hok.sh (s1.trans (sh_panic _ _))
    · have s2 := s1.trans (sh_newStream (w.assignPort h).2 h loc dst)
      generalize ((w.assignPort h).2.newStream h loc dst) = ns at s2 ⊢
      have s3 : Sh w { ns.2 with syns := ns.2.syns ++ [({} : SynCell)] } := s2.trans (sh_of_hosts rfl)
      generalize ({ ns.2 with syns := ns.2.syns ++ [({} : SynCell)] } : World) = w3 at s3 ⊢
      have s4 := s3.trans (sh_netSend w3 h { src := loc, dst := dst, msg := .syn ns.2.syns.length })
      split
      · refine LocOK.sh ?_ (sh_tag _ "refused")
        have s5 := s4.trans (sh_setChan _ ns.1.1 fun c => { c with rxAlive := false })
        split
        · exact hok.sh (s5.trans (sh_removeSock _ _ _ _))
        · exact hok.sh (s5.trans (sh_tag _ _))
      · apply locOK_connectPoll
        exact locOK_setObj _ h s _ (hok.sh s4) hloc

theorem locOK_opTcpAccept (w : World) (h ls s : Nat) (hok : LocOK w) : LocOK (w.opTcpAccept h ls s).1 := by
  unfold opTcpAccept
  split
  · next lloc hg =>
    have hll : BindIp lloc := hok.obj hg
    simp only
    have s1 := sh_acceptLoop w h lloc.port
    generalize (w.acceptLoop h lloc.port) = al at s1 ⊢
    split
    · exact hok.sh s1
    · next r _ =>
      have hmy : OwnIp h (if (if r.src.ip.isLoopback = true then { ip := r.src.ip, port := lloc.port } else lloc).ip.isUnspecified = true then
          { ip := Ip.host h, port := (if r.src.ip.isLoopback = true then { ip := r.src.ip, port := lloc.port } else lloc).port }
        else if r.src.ip.isLoopback = true then { ip := r.src.ip, port := lloc.port } else lloc : Addr) := by
        unfold OwnIp
        unfold BindIp at hll
        cases hr : r.src.ip <;> rcases hll with hl | hl <;> simp [hl, Ip.isLoopback, Ip.isUnspecified]
      generalize (if (if r.src.ip.isLoopback = true then { ip := r.src.ip, port := lloc.port } else lloc).ip.isUnspecified = true then
          { ip := Ip.host h, port := (if r.src.ip.isLoopback = true then { ip := r.src.ip, port := lloc.port } else lloc).port }
        else if r.src.ip.isLoopback = true then { ip := r.src.ip, port := lloc.port } else lloc : Addr) = my at hmy ⊢
      split
      · exact hok.sh (s1.trans (sh_panic _ _))
      · have s2 := s1.trans (sh_newStream al.1 h my r.src)
        generalize (al.1.newStream h my r.src) = ns at s2 ⊢
        split
        · exact hok.sh (s2.trans (sh_panic _ _))
        · split
          · exact hok.sh (s2.trans (sh_panic _ _))
          · refine locOK_setObj _ h s _ (hok.sh s2) ⟨fun r' hr' => ?_, fun x hx => ?_⟩
            · cases hr'; exact hmy
            · cases hx; exact hmy
  · exact hok

theorem locOK_opTcpShutdown (w : World) (h s : Nat) (hok : LocOK w) : LocOK (w.opTcpShutdown h s).1 := by
  unfold opTcpShutdown
  split
  · next rd x hg =>
    have hl : LocGood h (.stream rd (some x)) := hok.obj hg
    split
    · exact hok
    · split
      · exact hok
      · next i _ =>
        simp only
        have s1 := (sh_setHost_eq w h (fun hs => { hs with socks := setAt hs.socks i fun s => { s with nextSendSeq := s.nextSendSeq + 1 } })
          rfl rfl rfl)
        have s2 := s1.trans (sh_netSend _ h { src := x.loc, dst := x.rem, msg := .fin ((w.host! h).socks.getD i default).nextSendSeq })
        split
        · refine locOK_setObj _ h s _ (hok.sh s2) ⟨hl.1, fun y hy => ?_⟩
          cases hy
          exact hl.2 x rfl
        · exact hok.sh s2
  · exact hok

theorem locOK_opDropRead (w : World) (h s : Nat) (hok : LocOK w) : LocOK (w.opDropRead h s).1 := by
  unfold opDropRead
  split
  · next r wr hg =>
    have hl : LocGood h (.stream (some r) wr) := hok.obj hg
    simp only
    refine LocOK.sh ?_ (sh_dropRead _ h r)
    split
    · exact locOK_setObj w h s _ hok ⟨fun _ hr => (by cases hr), hl.2⟩
    · exact locOK_delObj w h s hok
  · exact hok

theorem locOK_opDropWrite (w : World) (h s : Nat) (hok : LocOK w) : LocOK (w.opDropWrite h s).1 := by
  unfold opDropWrite
  split
  · next rd x hg =>
    have hl : LocGood h (.stream rd (some x)) := hok.obj hg
    simp only
    refine LocOK.sh ?_ (sh_dropWrite _ h x)
    split
    · exact locOK_setObj w h s _ hok ⟨hl.1, fun _ hx => (by cases hx)⟩
    · exact locOK_delObj w h s hok
  · exact hok

theorem locOK_opTcpRead (w : World) (h s n : Nat) (peek : Bool) (hok : LocOK w) : LocOK (w.opTcpRead h s n peek).1 := by
  unfold opTcpRead
  split
  · next r wr hg =>
    have hl : LocGood h (.stream (some r) wr) := hok.obj hg
    have hgood : ∀ r' : RdH, r'.loc = r.loc → LocGood h (.stream (some r') wr) := by
      intro r' e
      exact ⟨fun y hy => by cases hy; rw [e]; exact hl.1 r rfl, hl.2⟩
    split
    · exact hok
    · split
      · split
        · exact hok
        · exact locOK_setObj w h s _ hok (hgood _ rfl)
      · simp only
        split
        · next seg rest _ =>
          have s1 := sh_setChan w r.chan fun c => { c with items := rest }
          split
          · next b _ =>
            simp only
            refine LocOK.sh ?_ (sh_redrain _ h r)
            have s2 : Sh w { (w.setChan r.chan fun c => { c with items := rest }) with
                fcs := setAt (w.setChan r.chan fun c => { c with items := rest }).fcs r.fc (· + 1) } := s1.trans (sh_of_hosts rfl)
            have s3 := s2.trans (sh_ite (hexLen b > n) (sh_tag _ "partialread") (Sh.refl _))
            refine locOK_setObj _ h s _ (hok.sh s3) (hgood _ ?_)
            split <;> rfl
          · refine LocOK.sh ?_ (sh_redrain _ h r)
            refine LocOK.sh ?_ (sh_tag _ "eof")
            exact locOK_setObj _ h s _ (hok.sh s1) (hgood _ rfl)
        · split
          · exact hok.sh (sh_tag _ _)
          · exact hok
  · exact hok

theorem locOK_opUdpBind (w : World) (h s : Nat) (a : Addr) (hok : LocOK w) : LocOK (w.opUdpBind h s a).1 := by
  unfold opUdpBind
  split
  · exact hok
  · next hb =>
    have hba : BindIp a := bindIp_of_ok (by simpa using hb)
    simp only
    have s1 : Sh w (if (a.port == 0) = true then w.assignPort h else (some a.port, w)).2 := by
      split
      · exact sh_assignPort w h
      · exact Sh.refl w
    generalize (if (a.port == 0) = true then w.assignPort h else (some a.port, w)) = r at s1 ⊢
    split
    · exact hok.sh s1
    · next p _ =>
      split
      · exact hok.sh (s1.trans (sh_tag _ _))
      · refine locOK_setObj _ h s _ ?_ hba
        exact locOK_setHost _ h _ (hok.sh s1) (fun hk => hk)

theorem locOK_opTcpBind (w : World) (h s : Nat) (a : Addr) (hok : LocOK w) : LocOK (w.opTcpBind h s a).1 := by
  unfold opTcpBind
  split
  · exact hok
  · next hb =>
    have hba : BindIp a := bindIp_of_ok (by simpa using hb)
    simp only
    have s1 : Sh w (if (a.port == 0) = true then w.assignPort h else (some a.port, w)).2 := by
      split
      · exact sh_assignPort w h
      · exact Sh.refl w
    generalize (if (a.port == 0) = true then w.assignPort h else (some a.port, w)) = r at s1 ⊢
    split
    · exact hok.sh s1
    · next p _ =>
      split
      · exact hok.sh (s1.trans (sh_tag _ _))
      · refine locOK_setObj _ h s _ ?_ hba
        exact locOK_setHost _ h _ (hok.sh s1) (fun hk => hk)

theorem locOK_opDrop (w : World) (h s : Nat) (hok : LocOK w) : LocOK (w.opDrop h s).1 := by
  unfold opDrop
  split
  · exact (locOK_delObj w h s hok).sh (sh_dropObj _ h _)
  · exact hok

theorem locOK_dropAll (w : World) (h : Nat) (hok : LocOK w) : LocOK (w.dropAll h) := by
  refine LocOK.sh ?_ (sh_dropAll_rest w h)
  exact locOK_setHost w h _ hok (fun _ p hp => by cases hp)

theorem locOK_crash (w : World) (h : Nat) (hok : LocOK w) : LocOK (w.crash h) := by
  unfold crash
  refine LocOK.sh ?_ (sh_setHost_eq _ h _ rfl rfl rfl)
  split
  · exact locOK_dropAll w h hok
  · exact hok

theorem locOK_bounce (w : World) (h : Nat) (hok : LocOK w) : LocOK (w.bounce h) := by
  unfold bounce
  exact (locOK_dropAll w h hok).sh (sh_setHost_eq _ h _ rfl rfl rfl)

theorem hostLoc_default (g : Nat) : HostLoc g (default : Host) := fun _ hp => by cases hp

theorem locOK_register (w : World) (ip : Nat) (c : Bool) (hok : LocOK w) : LocOK (w.register ip c) := by
  intro i
  unfold register host!
  simp only
  rw [List.getD_eq_getElem?_getD]
  rcases Nat.lt_trichotomy i w.hosts.length with hlt | heq | hgt
  · rw [List.getElem?_append_left hlt]
    have := hok i
    unfold host! at this
    rwa [List.getD_eq_getElem?_getD] at this
  · subst heq
    simp only [List.getElem?_append_right (Nat.le_refl _), Nat.sub_self, List.getElem?_cons_zero, Option.getD_some]
    exact fun _ hp => by cases hp
  · rw [List.getElem?_eq_none (by simp; omega)]
    exact hostLoc_default i

theorem locOK_applyHOp (w : World) (h : Nat) (op : HOp) (hok : LocOK w) : LocOK (applyHOp w h op).1 := by
  cases op with
  | udpBind s a =>
    show LocOK (if (w.getObj h s).isSome = true then (w, "err slotbusy") else w.opUdpBind h s a).1
    split
    · exact hok
    · exact locOK_opUdpBind w h s a hok
  | tcpBind s a =>
    show LocOK (if (w.getObj h s).isSome = true then (w, "err slotbusy") else w.opTcpBind h s a).1
    split
    · exact hok
    · exact locOK_opTcpBind w h s a hok
  | tcpConnect s a =>
    show LocOK (if (w.getObj h s).isSome = true then (w, "err slotbusy") else w.opTcpConnect h s a).1
    split
    · exact hok
    · exact locOK_opTcpConnect w h s a hok
  | tcpAccept ls s =>
    show LocOK (if (w.getObj h s).isSome = true then (w, "err slotbusy") else w.opTcpAccept h ls s).1
    split
    · exact hok
    · exact locOK_opTcpAccept w h ls s hok
  | udpSend s a p => exact hok.sh (sh_opUdpSend w h s a p)
  | udpTryRecv s n => exact locOK_opUdpTryRecv w h s n hok
  | udpRecv s n => exact locOK_opUdpRecv w h s n hok
  | udpReadable s => exact locOK_opUdpReadable w h s hok
  | udpConnect s a => exact hok.sh (sh_opUdpConnect w h s a)
  | udpBcast s on => exact hok.sh (sh_opUdpSetBcast w h s on)
  | udpMloop s on => exact hok.sh (sh_opUdpSetMloop w h s on)
  | udpJoin s g i => exact hok.sh (sh_opUdpJoin w h s g i)
  | udpLeave s g i => exact hok.sh (sh_opUdpLeave w h s g i)
  | tcpCPoll s => exact locOK_connectPoll w h s hok
  | tcpWrite s p => exact hok.sh (sh_opTcpWrite w h s p _)
  | tcpSplit s => exact hok
  | tcpReunite s => exact hok
  | tcpPWrite s p => exact hok.sh (sh_opTcpWrite w h s p true)
  | tcpShutdown s => exact locOK_opTcpShutdown w h s hok
  | tcpRead s n => exact locOK_opTcpRead w h s n false hok
  | tcpPeek s n => exact locOK_opTcpRead w h s n true hok
  | drop s => exact locOK_opDrop w h s hok
  | tcpDropR s => exact locOK_opDropRead w h s hok
  | tcpDropW s => exact locOK_opDropWrite w h s hok
  | count => exact hok
  | countOf a => exact hok
  | spawnTicker => exact hok
  | select4 => exact hok
  | exit => exact (locOK_dropAll w h hok).sh (sh_setHost_eq _ h _ rfl rfl rfl)
  | net op a b => exact hok.sh (sh_netCtl op w a b)
  | sleep ms =>
    show LocOK (hopSleep w h ms).1
    exact hok.sh (sh_hopSleep w h ms)
  | clock => exact hok
  | lookup name => exact hok.sh (sh_dnsLookup w name)
  | unknown => exact hok

/-- **the local-address invariant is kept by every transition.** -/
theorem locOK_applyStep (w : World) (st : Step) (hok : LocOK w) : LocOK (applyStep w st) := by
  cases st with
  | host h op => exact locOK_applyHOp w h op hok
  | register ip c => exact locOK_register w ip c hok
  | dns name => exact hok.sh (sh_dnsLookup w name)
  | stepBegin => exact hok.sh (sh_stepBegin w)
  | stepEnd => exact hok.sh (sh_stepEnd w)
  | crash h => exact locOK_crash w h hok
  | bounce h => exact locOK_bounce w h hok
  | link op x y => exact hok.sh (sh_netCtl op w x y)
  | linkPairs op xs ys => exact hok.sh (sh_forPairs w xs ys op.apply (fun w x y => sh_netCtl op w x y))
  | deliver x y i => exact hok.sh (sh_ctlDeliver w x y i)
  | deliverAll x y => exact hok.sh (sh_ctlDeliverAll w x y)
  | turn h => exact hok.sh (sh_turnStep w h)
  | loDeliver h i => exact hok.sh (sh_loStep w h i)

theorem locOK_init (w0 : World) (h0 : w0.hosts = []) : LocOK w0 := by
  intro i
  rw [host!_of_ge w0 i (by simp [h0])]
  exact hostLoc_default i

end TV.C04
