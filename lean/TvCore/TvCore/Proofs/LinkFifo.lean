import TvCore.Model.Link
/-
  Run-level FIFO invariant for C14: on a link that is never held, a message never overtakes an
  earlier message whose delivery deadline is not later.
-/
namespace TV
namespace Link
variable {M : Type}

def key (s : Sent M) : Nat := match s.status with | .after t => t | .hold => 0

/-- `x` may precede `y` in a delivery sequence: if `y` was sent earlier, its deadline was later. -/
def R (x y : Sent M) : Prop := y.id < x.id → key x < key y

def isAfter (s : Sent M) : Prop := ∃ t, s.status = .after t

/-- State of a run: the link plus everything already handed to the two hosts. -/
structure FState (M : Type) where
  l : Link M
  outA : List (Sent M) := []
  outB : List (Sent M) := []

structure FInv (s : FState M) : Prop where
  sorted : s.l.sent.Pairwise (fun x y => x.id < y.id)
  idsS : ∀ x ∈ s.l.sent, x.id < s.l.nextId
  idsA : ∀ x ∈ s.outA ++ s.l.toA, x.id < s.l.nextId
  idsB : ∀ x ∈ s.outB ++ s.l.toB, x.id < s.l.nextId
  seqA : (s.outA ++ s.l.toA).Pairwise R
  seqB : (s.outB ++ s.l.toB).Pairwise R
  crossA : ∀ x ∈ s.outA ++ s.l.toA, ∀ y ∈ s.l.sent, R x y
  crossB : ∀ x ∈ s.outB ++ s.l.toB, ∀ y ∈ s.l.sent, R x y
  after : ∀ x ∈ s.l.sent, isAfter x
  nhAB : s.l.stAB ≠ .hold
  nhBA : s.l.stBA ≠ .hold

theorem finv_init (a b : Nat) (fm : Bool := false) : FInv ({ l := Link.init a b fm } : FState M) := by
  refine ⟨?_, ?_, ?_, ?_, ?_, ?_, ?_, ?_, ?_, ?_, ?_⟩ <;> simp [Link.init]

/-- Replacing `sent` by a sublist keeps the invariant. -/
theorem finv_sublist {s : FState M} (h : FInv s) (xs : List (Sent M)) (hsub : xs.Sublist s.l.sent)
    (stAB stBA : LState) (h1 : stAB ≠ .hold) (h2 : stBA ≠ .hold) (exAB exBA : Bool) :
    FInv { s with l := { s.l with sent := xs, stAB := stAB, stBA := stBA, exAB := exAB, exBA := exBA } } := by
  obtain ⟨a, b, c, d, e, f, g, i, j, _, _⟩ := h
  exact ⟨a.sublist hsub, fun x hx => b x (hsub.subset hx), c, d, e, f,
    fun x hx y hy => g x hx y (hsub.subset hy), fun x hx y hy => i x hx y (hsub.subset hy),
    fun x hx => j x (hsub.subset hx), h1, h2⟩

/-- Replacing the link by one whose three queues are sub-lists of the old ones (same counter, no
    direction held) keeps the invariant. -/
theorem finv_sublist3 {s : FState M} (h : FInv s) (l' : Link M) (hsent : l'.sent.Sublist s.l.sent)
    (hA : l'.toA.Sublist s.l.toA) (hB : l'.toB.Sublist s.l.toB) (hid : l'.nextId = s.l.nextId)
    (h1 : l'.stAB ≠ .hold) (h2 : l'.stBA ≠ .hold) : FInv { s with l := l' } := by
  obtain ⟨a, b, c, d, e, f, g, i, j, _, _⟩ := h
  have sA : (s.outA ++ l'.toA).Sublist (s.outA ++ s.l.toA) := (List.Sublist.refl _).append hA
  have sB : (s.outB ++ l'.toB).Sublist (s.outB ++ s.l.toB) := (List.Sublist.refl _).append hB
  exact ⟨a.sublist hsent, fun x hx => by rw [hid]; exact b x (hsent.subset hx),
    fun x hx => by rw [hid]; exact c x (sA.subset hx), fun x hx => by rw [hid]; exact d x (sB.subset hx),
    e.sublist sA, f.sublist sB,
    fun x hx y hy => g x (sA.subset hx) y (hsent.subset hy), fun x hx y hy => i x (sB.subset hx) y (hsent.subset hy),
    fun x hx => j x (hsent.subset hx), h1, h2⟩

theorem matured_after {now : Nat} {x : Sent M} (h : isAfter x) : matured now x = decide (key x ≤ now) := by
  obtain ⟨t, ht⟩ := h
  simp [matured, key, ht]

theorem finv_process {s : FState M} (h : FInv s) :
    FInv { s with l := s.l.processDeliverables } := by
  obtain ⟨a, b, c, d, e, f, g, i, j, k1, k2⟩ := h
  have subM : (s.l.sent.filter (matured s.l.now)).Sublist s.l.sent := List.filter_sublist
  have subU : (s.l.sent.filter (fun x => !matured s.l.now x)).Sublist s.l.sent := List.filter_sublist
  -- a matured message and an unmatured one: R holds
  have hMU : ∀ x ∈ s.l.sent.filter (matured s.l.now), ∀ y ∈ s.l.sent.filter (fun x => !matured s.l.now x), R x y := by
    intro x hx y hy _
    have hx' := List.mem_filter.mp hx
    have hy' := List.mem_filter.mp hy
    rw [matured_after (j x hx'.1)] at hx'
    rw [matured_after (j y hy'.1)] at hy'
    simp at hx' hy'
    omega
  -- two matured messages in sent order: ids increase, so R holds vacuously
  have hMM : (s.l.sent.filter (matured s.l.now)).Pairwise R :=
    (a.sublist subM).imp (fun {x y} hxy hlt => absurd hlt (Nat.lt_asymm hxy))
  have seq : ∀ (out to : List (Sent M)) (p : Sent M → Bool),
      (out ++ to).Pairwise R → (∀ x ∈ out ++ to, ∀ y ∈ s.l.sent, R x y) →
      (out ++ (to ++ (s.l.sent.filter (matured s.l.now)).filter p)).Pairwise R := by
    intro out to p hp hc
    rw [← List.append_assoc]
    refine List.pairwise_append.mpr ⟨hp, hMM.sublist List.filter_sublist, ?_⟩
    intro x hx y hy
    exact hc x hx y (subM.subset (List.filter_sublist.subset hy))
  have cross : ∀ (out to : List (Sent M)) (p : Sent M → Bool),
      (∀ x ∈ out ++ to, ∀ y ∈ s.l.sent, R x y) →
      ∀ x ∈ out ++ (to ++ (s.l.sent.filter (matured s.l.now)).filter p),
      ∀ y ∈ s.l.sent.filter (fun x => !matured s.l.now x), R x y := by
    intro out to p hc x hx y hy
    rw [← List.append_assoc] at hx
    rcases List.mem_append.mp hx with hx | hx
    · exact hc x hx y (subU.subset hy)
    · exact hMU x (List.filter_sublist.subset hx) y hy
  have ids : ∀ (out to : List (Sent M)) (p : Sent M → Bool), (∀ x ∈ out ++ to, x.id < s.l.nextId) →
      ∀ x ∈ out ++ (to ++ (s.l.sent.filter (matured s.l.now)).filter p), x.id < s.l.nextId := by
    intro out to p hc x hx
    rw [← List.append_assoc] at hx
    rcases List.mem_append.mp hx with hx | hx
    · exact hc x hx
    · exact b x (subM.subset (List.filter_sublist.subset hx))
  exact ⟨a.sublist subU, fun x hx => b x (subU.subset hx), ids _ _ _ c, ids _ _ _ d,
    seq _ _ _ e g, seq _ _ _ f i, cross _ _ _ g, cross _ _ _ i, fun x hx => j x (subU.subset hx), k1, k2⟩

theorem finv_tick {s : FState M} (h : FInv s) (now : Nat) :
    FInv { s with l := s.l.tick now } := by
  have h' : FInv { s with l := { s.l with now := now } } := by
    obtain ⟨a, b, c, d, e, f, g, i, j, k1, k2⟩ := h
    exact ⟨a, b, c, d, e, f, g, i, j, k1, k2⟩
  exact finv_process h'

theorem releaseOne_after {now : Nat} {x : Sent M} (h : isAfter x) : releaseOne now x = x := by
  obtain ⟨t, ht⟩ := h
  simp [releaseOne, ht]

theorem ite_ne_hold (c : Bool) (v x : LState) (hv : v ≠ .hold) (hx : x ≠ .hold) :
    (if c = true then v else x) ≠ .hold := by
  cases c <;> simp [hv, hx]

theorem finv_randStep (cfg : Cfg) {s : FState M} (h : FInv s) (cf cr : Bool) :
    FInv { s with l := (randStep cfg s.l cf cr).1 } := by
  have hmap : s.l.sent.map (releaseOne s.l.now) = s.l.sent := by
    have : ∀ x ∈ s.l.sent, releaseOne s.l.now x = x := fun x hx => releaseOne_after (h.after x hx)
    exact (List.map_congr_left this).trans (List.map_id _)
  unfold randStep
  by_cases hfix : cfg.fixRand = true
  · simp only [hfix, if_true]
    by_cases h1 : (s.l.anyHealthy && cf) = true
    · simp only [h1, if_true]
      exact finv_sublist h _ List.filter_sublist _ _
        (ite_ne_hold _ _ _ (by decide) h.nhAB) (ite_ne_hold _ _ _ (by decide) h.nhBA) _ _
    · simp only [h1]
      by_cases h2 : (s.l.anyRand && cr) = true
      · simp only [h2, if_true]
        exact finv_sublist h _ (List.Sublist.refl _) _ _
          (ite_ne_hold _ _ _ (by decide) h.nhAB) (ite_ne_hold _ _ _ (by decide) h.nhBA) _ _
      · simp only [h2]; exact h
  · simp only [hfix]
    by_cases h1 : (s.l.anyHealthy && cf) = true
    · simp only [h1, if_true]
      exact finv_sublist h _ (List.nil_sublist _) _ _ (by decide) (by decide) _ _
    · simp only [h1]
      by_cases h2 : (s.l.anyRand && cr) = true
      · simp only [h2, if_true]
        have := finv_sublist h _ (List.Sublist.refl _) .healthy .healthy (by decide) (by decide) s.l.exAB s.l.exBA
        simpa [release, hmap] using this
      · simp only [h2]; exact h

theorem finv_enqueueRaw {s : FState M} (h : FInv s) (d src dst : Nat) (m : M) :
    FInv { s with l := (s.l.enqueueRaw d src dst m).1 } := by
  obtain ⟨a, b, c, dd, e, f, g, i, j, k1, k2⟩ := h
  have bump : FInv { s with l := { s.l with nextId := s.l.nextId + 1 } } :=
    ⟨a, fun x hx => Nat.lt_succ_of_lt (b x hx), fun x hx => Nat.lt_succ_of_lt (c x hx),
     fun x hx => Nat.lt_succ_of_lt (dd x hx), e, f, g, i, j, k1, k2⟩
  unfold enqueueRaw
  split
  · -- healthy: appended with a fresh, largest id
    refine ⟨?_, ?_, fun x hx => Nat.lt_succ_of_lt (c x hx), fun x hx => Nat.lt_succ_of_lt (dd x hx), e, f, ?_, ?_, ?_, k1, k2⟩
    · refine List.pairwise_append.mpr ⟨a, List.pairwise_singleton _ _, ?_⟩
      intro x hx y hy; simp at hy; subst hy; exact b x hx
    · intro x hx
      rcases List.mem_append.mp hx with hx | hx
      · exact Nat.lt_succ_of_lt (b x hx)
      · simp at hx; subst hx; exact Nat.lt_succ_self _
    · intro x hx y hy
      rcases List.mem_append.mp hy with hy | hy
      · exact g x hx y hy
      · simp at hy; subst hy; intro hlt; exact absurd (c x hx) (Nat.not_lt.mpr (Nat.le_of_lt hlt))
    · intro x hx y hy
      rcases List.mem_append.mp hy with hy | hy
      · exact i x hx y hy
      · simp at hy; subst hy; intro hlt; exact absurd (dd x hx) (Nat.not_lt.mpr (Nat.le_of_lt hlt))
    · intro x hx
      rcases List.mem_append.mp hx with hx | hx
      · exact j x hx
      · simp at hx; subst hx; exact ⟨_, rfl⟩
  · -- hold: impossible
    rename_i hst
    unfold stateFor at hst
    split at hst
    · exact absurd hst k1
    · exact absurd hst k2
  · exact bump

theorem finv_enqueue (cfg : Cfg) {s : FState M} (h : FInv s) (cf cr : Bool) (d src dst : Nat) (m : M) :
    FInv { s with l := (s.l.enqueue cfg cf cr d src dst m).1 } := by
  have h1 := finv_randStep cfg h cf cr
  have h2 := finv_enqueueRaw h1 d src dst m
  exact finv_process h2

theorem finv_drainA {s : FState M} (h : FInv s) :
    FInv { s with l := { s.l with toA := [] }, outA := s.outA ++ s.l.toA } := by
  obtain ⟨a, b, c, d, e, f, g, i, j, k1, k2⟩ := h
  exact ⟨a, b, by simpa using c, d, by simpa using e, f, by simpa using g, i, j, k1, k2⟩

theorem finv_drainB {s : FState M} (h : FInv s) :
    FInv { s with l := { s.l with toB := [] }, outB := s.outB ++ s.l.toB } := by
  obtain ⟨a, b, c, d, e, f, g, i, j, k1, k2⟩ := h
  exact ⟨a, b, c, by simpa using d, e, by simpa using f, g, by simpa using i, j, k1, k2⟩

end Link
end TV
