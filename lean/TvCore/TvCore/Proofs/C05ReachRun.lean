import TvCore.Proofs.C05ReachHost
import TvCore.Props.C04Reach
/-
  Helper lemmas for `Props/C05Reach.lean`, fourth part: runs (`List Step`), the counters of a run, the
  ghost "turn has begun" flags, and the world-level invariant carried along every run.
-/
namespace TV.C05
open TV TV.World

/-- the World after a sequence of transitions. -/
def run (w : World) (sts : List Step) : World := sts.foldl applyStep w

theorem run_nil (w : World) : run w [] = w := rfl
theorem run_cons (w : World) (st : Step) (sts : List Step) : run w (st :: sts) = run (applyStep w st) sts := rfl
theorem run_append (w : World) (a b : List Step) : run w (a ++ b) = run (run w a) b := by
  unfold run; rw [List.foldl_append]

theorem reach_run (w : World) (sts : List Step) : C04.Reach w (run w sts) := C04.reach_foldl w sts

theorem reach_trans {a b c : World} (h1 : C04.Reach a b) (h2 : C04.Reach b c) : C04.Reach a c := by
  induction h2 with
  | init => exact h1
  | step st _ ih => exact C04.Reach.step st ih

theorem exists_run_of_reach {w0 w : World} (hr : C04.Reach w0 w) : ∃ sts, w = run w0 sts := by
  induction hr with
  | init => exact ⟨[], rfl⟩
  | step st _ ih =>
    obtain ⟨sts, rfl⟩ := ih
    exact ⟨sts ++ [st], by rw [run_append]; rfl⟩

/-- number of completed steps (`stepEnd`s) / of registrations in a run. -/
def nEnds (sts : List Step) : Nat := sts.countP isEnd
def nRegs (sts : List Step) : Nat := sts.countP isReg

theorem nEnds_cons (st : Step) (sts : List Step) : nEnds (st :: sts) = (if isEnd st then 1 else 0) + nEnds sts := by
  unfold nEnds; rw [List.countP_cons]; omega
theorem nRegs_cons (st : Step) (sts : List Step) : nRegs (st :: sts) = (if isReg st then 1 else 0) + nRegs sts := by
  unfold nRegs; rw [List.countP_cons]; omega
theorem nEnds_append (a b : List Step) : nEnds (a ++ b) = nEnds a + nEnds b := by
  unfold nEnds; rw [List.countP_append]
theorem nRegs_append (a b : List Step) : nRegs (a ++ b) = nRegs a + nRegs b := by
  unfold nRegs; rw [List.countP_append]

theorem run_cfg (w : World) (sts : List Step) : (run w sts).cfg = w.cfg := by
  induction sts generalizing w with
  | nil => rfl
  | cons st sts ih => rw [run_cons, ih, applyStep_cfg]

theorem run_len (w : World) (sts : List Step) : (run w sts).hosts.length = w.hosts.length + nRegs sts := by
  induction sts generalizing w with
  | nil => rfl
  | cons st sts ih => rw [run_cons, ih, applyStep_len, nRegs_cons]; omega

theorem run_elapsed (w : World) (sts : List Step) : (run w sts).elapsed = w.elapsed + nEnds sts * w.cfg.tick := by
  induction sts generalizing w with
  | nil => simp [run_nil, nEnds]
  | cons st sts ih =>
    rw [run_cons, ih, applyStep_elapsed, applyStep_cfg, nEnds_cons, Nat.add_mul]
    split <;> simp <;> omega

/-! ### the host timers, transition by transition -/

theorem clockPart_timer (w : World) (st : Step) (i : Nat) (hi : i < w.hosts.length) :
    ((clockPart w st).host! i).startOffset = (w.host! i).startOffset ∧
    ((clockPart w st).host! i).elapsed = (w.host! i).elapsed + (if isEnd st then w.cfg.tick else 0) := by
  have hset : ∀ (h : Nat) (g : Host → Host), (∀ a, (g a).startOffset = a.startOffset ∧ (g a).elapsed = a.elapsed) →
      ((w.setHost h g).host! i).startOffset = (w.host! i).startOffset ∧
      ((w.setHost h g).host! i).elapsed = (w.host! i).elapsed + 0 := by
    intro h g hg
    rw [C04.host!_setHost_eq]
    split
    · next c => obtain ⟨rfl, _⟩ := c; exact ⟨(hg _).1, (hg _).2⟩
    · exact ⟨rfl, rfl⟩
  cases st
  case host h op =>
    cases op
    case exit => exact hset h markExited (fun _ => ⟨rfl, rfl⟩)
    case sleep ms =>
      show ((hopSleep w h ms).1.host! i).startOffset = _ ∧ ((hopSleep w h ms).1.host! i).elapsed = _ + 0
      rw [hopSleep_eq, C04.host!_setHost_eq]
      split
      · next c =>
        obtain ⟨rfl, _⟩ := c
        rcases hostSleep_cases (ceilMs w.cfg.tick) (w.host! i) ms with ⟨_, _, _, _, e4, e5⟩ | ⟨_, _, _, _, e4, e5⟩
        all_goals exact ⟨e5, e4⟩
      · exact ⟨rfl, rfl⟩
    all_goals exact ⟨rfl, rfl⟩
  case register ip c =>
    show ((w.register ip c).host! i).startOffset = _ ∧ ((w.register ip c).host! i).elapsed = _ + 0
    rw [host!_register_lt w ip c i hi]
    exact ⟨rfl, rfl⟩
  case stepEnd =>
    show (w.stepEnd.host! i).startOffset = _ ∧ (w.stepEnd.host! i).elapsed = _ + w.cfg.tick
    rw [host!_stepEnd_lt w i hi]
    exact ⟨rfl, rfl⟩
  case crash h => exact hset h markCrashed (fun _ => ⟨rfl, rfl⟩)
  case bounce h => exact hset h freshRuntime (fun _ => ⟨rfl, rfl⟩)
  case turn h =>
    refine hset h (hostTurnBegin (ceilMs w.cfg.tick)) (fun a => ?_)
    obtain ⟨_, e4, e5, _⟩ := hostTurnBegin_cases (ceilMs w.cfg.tick) a
    exact ⟨e5, e4⟩
  all_goals exact ⟨rfl, rfl⟩

theorem applyStep_timer (w : World) (st : Step) (i : Nat) (hi : i < w.hosts.length) :
    ((applyStep w st).host! i).startOffset = (w.host! i).startOffset ∧
    ((applyStep w st).host! i).elapsed = (w.host! i).elapsed + (if isEnd st then w.cfg.tick else 0) := by
  have e := clk_host!_of_tv (tv_applyStep w st) i
  rw [clk_startOffset e, clk_elapsed e]
  exact clockPart_timer w st i hi

theorem run_timer (w : World) (sts : List Step) (i : Nat) (hi : i < w.hosts.length) :
    ((run w sts).host! i).startOffset = (w.host! i).startOffset ∧
    ((run w sts).host! i).elapsed = (w.host! i).elapsed + nEnds sts * w.cfg.tick := by
  induction sts generalizing w with
  | nil => simp [run_nil, nEnds]
  | cons st sts ih =>
    have h1 := applyStep_timer w st i hi
    have h2 := ih (applyStep w st) (by rw [applyStep_len]; omega)
    rw [run_cons, h2.1, h2.2, h1.1, h1.2, applyStep_cfg, nEnds_cons, Nat.add_mul]
    refine ⟨rfl, ?_⟩
    split <;> simp <;> omega

/-! ### ghost flags and the scheduling discipline along a run -/

/-- which hosts have begun their turn in the current step, after a run started with flags `T`. -/
def turnedFrom (T : Nat → Bool) (sts : List Step) : Nat → Bool := sts.foldl turnedAfter T

theorem turnedFrom_cons (T : Nat → Bool) (st : Step) (sts : List Step) :
    turnedFrom T (st :: sts) = turnedFrom (turnedAfter T st) sts := rfl
theorem turnedFrom_append (T : Nat → Bool) (a b : List Step) :
    turnedFrom T (a ++ b) = turnedFrom (turnedFrom T a) b := by
  unfold turnedFrom; rw [List.foldl_append]

/-- every transition of the run respects the discipline `Allowed`. -/
def SchedFrom (T : Nat → Bool) : List Step → Prop
  | [] => True
  | st :: sts => Allowed T st ∧ SchedFrom (turnedAfter T st) sts

def schedFromDec : (T : Nat → Bool) → (sts : List Step) → Decidable (SchedFrom T sts)
  | _, [] => isTrue trivial
  | T, st :: sts => @instDecidableAnd _ _ inferInstance (schedFromDec (turnedAfter T st) sts)

instance (T : Nat → Bool) (sts : List Step) : Decidable (SchedFrom T sts) := schedFromDec T sts

theorem schedFrom_append (T : Nat → Bool) (a b : List Step) :
    SchedFrom T (a ++ b) ↔ SchedFrom T a ∧ SchedFrom (turnedFrom T a) b := by
  induction a generalizing T with
  | nil => simp [SchedFrom, turnedFrom]
  | cons st sts ih => simp only [List.cons_append, SchedFrom, ih, turnedFrom_cons, and_assoc]

/-! ### the invariant of every run -/

theorem ceilMs_grid (d : Nat) : ceilMs d % 1000000 = 0 := by unfold ceilMs; omega

/-- every registered host is on the millisecond grid, and inside its window once its turn has begun. -/
def WInv (w : World) (T : Nat → Bool) : Prop :=
  ∀ i, i < w.hosts.length → HInv (ceilMs w.cfg.tick) (T i) (w.host! i)

theorem winv_init (w : World) (T : Nat → Bool) (h0 : w.hosts = []) : WInv w T := by
  intro i hi; rw [h0] at hi; cases hi

theorem hinv_new (A : Nat) (t : Bool) (ip : Nat) (c : Bool) (eph so : Nat) :
    HInv A t ({ ipnum := ip, isClient := c, nextEph := eph, startOffset := so } : Host) :=
  ⟨⟨rfl, rfl, fun _ h => by cases h⟩, fun _ => ⟨Nat.le_refl _, Or.inr rfl⟩⟩

theorem winv_applyStep (w : World) (st : Step) (T : Nat → Bool) (hinv : WInv w T) :
    WInv (applyStep w st) (turnedAfter T st) := by
  intro i hi
  rw [applyStep_cfg]
  by_cases hlt : i < w.hosts.length
  · exact hinv_step (ceilMs_grid _) (hstep_applyStep False w st T i hlt (fun f => f.elim)) (hinv i hlt)
  · rw [applyStep_len] at hi
    cases st
    case register ip c =>
      have hi' : i = w.hosts.length := by simp [isReg] at hi; omega
      subst hi'
      show HInv _ (T w.hosts.length) ((w.register ip c).host! w.hosts.length)
      rw [host!_register_new]
      exact hinv_new _ _ _ _ _ _
    all_goals (simp [isReg] at hi; omega)

theorem winv_run (w : World) (sts : List Step) (T : Nat → Bool) (hinv : WInv w T) :
    WInv (run w sts) (turnedFrom T sts) := by
  induction sts generalizing w T with
  | nil => exact hinv
  | cons st sts ih => exact ih _ _ (winv_applyStep w st T hinv)

/-! ### observed time along a disciplined run -/

theorem obs_applyStep (w : World) (st : Step) (T : Nat → Bool) (i : Nat) (hi : i < w.hosts.length)
    (hinv : WInv w T) (ha : Allowed T st) :
    obsTime (T i) (w.host! i) ≤ obsTime (turnedAfter T st i) ((applyStep w st).host! i) ∧
    ((applyStep w st).host! i).startOffset = (w.host! i).startOffset :=
  obs_step (hstep_applyStep True w st T i hi (fun _ => ha)) (hinv i hi)

theorem obs_run (w : World) (sts : List Step) (T : Nat → Bool) (i : Nat) (hi : i < w.hosts.length)
    (hinv : WInv w T) (hs : SchedFrom T sts) :
    obsTime (T i) (w.host! i) ≤ obsTime (turnedFrom T sts i) ((run w sts).host! i) ∧
    ((run w sts).host! i).startOffset = (w.host! i).startOffset := by
  induction sts generalizing w T with
  | nil => exact ⟨Nat.le_refl _, rfl⟩
  | cons st sts ih =>
    have h1 := obs_applyStep w st T i hi hinv hs.1
    have h2 := ih (applyStep w st) (turnedAfter T st) (by rw [applyStep_len]; omega) (winv_applyStep w st T hinv) hs.2
    exact ⟨Nat.le_trans h1.1 h2.1, h2.2.trans h1.2⟩

/-! ### `Synced`, index by index -/

theorem host!_eq_getElem (w : World) (i : Nat) (hi : i < w.hosts.length) : w.host! i = w.hosts[i] := by
  unfold host!
  rw [List.getD_eq_getElem?_getD, List.getElem?_eq_getElem hi]
  rfl

theorem synced_iff (w : World) :
    Synced w ↔ ∀ i, i < w.hosts.length → (w.host! i).startOffset + (w.host! i).elapsed = w.elapsed := by
  constructor
  · intro h i hi
    rw [host!_eq_getElem w i hi]
    exact h _ (List.getElem_mem hi)
  · intro h hs hm
    obtain ⟨i, hi, rfl⟩ := List.mem_iff_getElem.mp hm
    rw [← host!_eq_getElem w i hi]
    exact h i hi

theorem synced_applyStep (w : World) (st : Step) (h : Synced w) : Synced (applyStep w st) := by
  rw [synced_iff] at h ⊢
  intro i hi
  by_cases hlt : i < w.hosts.length
  · have ht := applyStep_timer w st i hlt
    rw [ht.1, ht.2, applyStep_elapsed]
    have := h i hlt
    omega
  · rw [applyStep_len] at hi
    cases st
    case register ip c =>
      have hi' : i = w.hosts.length := by simp [isReg] at hi; omega
      subst hi'
      show ((w.register ip c).host! w.hosts.length).startOffset + ((w.register ip c).host! w.hosts.length).elapsed =
        (w.register ip c).elapsed
      rw [host!_register_new]
      rfl
    all_goals (simp [isReg] at hi; omega)

/-- every host of a run that started without hosts was put there by a `register` transition of the run. -/
theorem exists_registration (w : World) (sts : List Step) (i : Nat) (hlo : w.hosts.length ≤ i)
    (hi : i < (run w sts).hosts.length) :
    ∃ pre ip c post, sts = pre ++ Step.register ip c :: post ∧ (run w pre).hosts.length = i := by
  induction sts generalizing w with
  | nil => rw [run_nil] at hi; omega
  | cons st sts ih =>
    by_cases hlt : i < (applyStep w st).hosts.length
    · rw [applyStep_len] at hlt
      cases st
      case register ip c =>
        refine ⟨[], ip, c, sts, rfl, ?_⟩
        simp [isReg] at hlt
        rw [run_nil]; omega
      all_goals (simp [isReg] at hlt; omega)
    · obtain ⟨pre, ip, c, post, e, hl⟩ := ih (applyStep w st) (by omega) (by rw [run_cons] at hi; exact hi)
      exact ⟨st :: pre, ip, c, post, by rw [e]; rfl, by rw [run_cons]; exact hl⟩

/-- a `turn h` followed by transitions none of which ends the step leaves the flag of `h` set. -/
theorem turnedAfter_keep (T : Nat → Bool) (st : Step) (h : Nat) (hT : T h = true) (he : isEnd st = false) :
    turnedAfter T st h = true := by
  cases st
  case turn h' => show (h == h' || T h) = true; simp [hT]
  case stepEnd => cases he
  all_goals exact hT

theorem turnedFrom_keep (T : Nat → Bool) (sts : List Step) (h : Nat) (hT : T h = true) (he : nEnds sts = 0) :
    turnedFrom T sts h = true := by
  induction sts generalizing T with
  | nil => exact hT
  | cons st sts ih =>
    rw [nEnds_cons] at he
    have h1 : isEnd st = false := by
      cases hb : isEnd st
      · rfl
      · simp [hb] at he
    exact ih _ (turnedAfter_keep T st h hT h1) (by omega)

theorem turnedFrom_turn (T : Nat → Bool) (pre mid : List Step) (h : Nat) (he : nEnds mid = 0) :
    turnedFrom T (pre ++ Step.turn h :: mid) h = true := by
  rw [turnedFrom_append, turnedFrom_cons]
  refine turnedFrom_keep _ mid h ?_ he
  show (h == h || _) = true
  simp

/-! ### the clock view evolves on its own

  `tv (applyStep w st)` is a function of `tv w` and `st`: sockets, links, channels, the oracle … never
  influence a clock.  `crun` runs the clock parts only; it computes the clock view of any run (and, unlike
  `run`, it reduces in the kernel: no `mergeSort` of `dropAll` in it). -/

theorem clk_congr_of_fields {a b : Host} (e1 : a.elapsed = b.elapsed) (e2 : a.startOffset = b.startOffset)
    (e3 : a.winStart = b.winStart) (e4 : a.hnow = b.hnow) (e5 : a.wake = b.wake) (e6 : a.t0 = b.t0)
    (e7 : a.running = b.running) (e8 : a.exited = b.exited) : clk a = clk b := by
  unfold clk; rw [e1, e2, e3, e4, e5, e6, e7, e8]

theorem clk_t0 {a b : Host} (e : clk b = clk a) : b.t0 = a.t0 := congrArg HClk.t0 e

theorem clk_markExited_congr {a b : Host} (e : clk a = clk b) : clk (markExited a) = clk (markExited b) := by
  have e1 : a.elapsed = b.elapsed := clk_elapsed e
  have e2 : a.startOffset = b.startOffset := clk_startOffset e
  have e3 : a.winStart = b.winStart := clk_winStart e
  have e4 : a.hnow = b.hnow := clk_hnow e
  have e5 : a.wake = b.wake := clk_wake e
  have e6 : a.t0 = b.t0 := clk_t0 e
  have e7 : a.running = b.running := clk_running e
  exact clk_congr_of_fields e1 e2 e3 e4 e5 e6 e7 rfl

theorem clk_markCrashed_congr {a b : Host} (e : clk a = clk b) : clk (markCrashed a) = clk (markCrashed b) := by
  have e1 : a.elapsed = b.elapsed := clk_elapsed e
  have e2 : a.startOffset = b.startOffset := clk_startOffset e
  have e3 : a.winStart = b.winStart := clk_winStart e
  have e4 : a.hnow = b.hnow := clk_hnow e
  have e5 : a.wake = b.wake := clk_wake e
  have e6 : a.t0 = b.t0 := clk_t0 e
  have e8 : a.exited = b.exited := clk_exited e
  exact clk_congr_of_fields e1 e2 e3 e4 e5 e6 rfl e8

theorem clk_freshRuntime_congr {a b : Host} (e : clk a = clk b) : clk (freshRuntime a) = clk (freshRuntime b) := by
  have e1 : a.elapsed = b.elapsed := clk_elapsed e
  have e2 : a.startOffset = b.startOffset := clk_startOffset e
  exact clk_congr_of_fields e1 e2 rfl rfl rfl rfl rfl rfl

/-- `hostStepEnd`, `hostTurnBegin`, `hostSleep` on clock records. -/
def HClk.stepEnd (tick A : Nat) (c : HClk) : HClk :=
  { c with elapsed := c.elapsed + tick, winStart := if c.running then c.winStart + A else c.winStart,
           running := c.running && !c.exited, exited := false }

def HClk.turn (A : Nat) (c : HClk) : HClk :=
  match c.wake with
  | none => { c with hnow := c.winStart }
  | some W =>
    if W ≤ c.winStart then { c with hnow := c.winStart, wake := none }
    else if W < c.winStart + A then { c with hnow := W, wake := none }
    else { c with hnow := c.winStart }

/-- `hostSleep` with deadline `W` (a variable: see the note on `ms * 1000000` in `Proofs/C04ReachSh.lean`). -/
def HClk.sleepTo (A W : Nat) (c : HClk) : HClk :=
  if W < c.winStart + A then { c with hnow := W } else { c with wake := some W }

theorem clk_hostStepEnd (tick A : Nat) (a : Host) : clk (hostStepEnd tick A a) = (clk a).stepEnd tick A := rfl

theorem clk_hostTurnBegin (A : Nat) (a : Host) : clk (hostTurnBegin A a) = (clk a).turn A := by
  unfold hostTurnBegin HClk.turn
  simp only [clk]
  cases a.wake with
  | none => rfl
  | some W =>
    by_cases h1 : W ≤ a.winStart
    · simp [h1]
    · by_cases h2 : W < a.winStart + A
      · simp [h1, h2]
      · simp [h1, h2]

theorem clk_sleepTo (A W : Nat) (a : Host) :
    clk (if W < a.winStart + A then (({ a with hnow := W }, true) : Host × Bool) else ({ a with wake := some W }, false)).1 =
      (clk a).sleepTo A W := by
  unfold HClk.sleepTo
  simp only [clk]
  by_cases h : W < a.winStart + A
  · simp [h]
  · simp [h]

theorem clk_hostSleep (A ms : Nat) (a : Host) :
    clk (hostSleep A a ms).1 = (clk a).sleepTo A (a.hnow + ms * 1000000) := by
  unfold hostSleep
  exact clk_sleepTo A _ a

theorem clk_hostStepEnd_congr (tick A : Nat) {a b : Host} (e : clk a = clk b) :
    clk (hostStepEnd tick A a) = clk (hostStepEnd tick A b) := by
  rw [clk_hostStepEnd, clk_hostStepEnd, e]

theorem clk_hostTurnBegin_congr (A : Nat) {a b : Host} (e : clk a = clk b) :
    clk (hostTurnBegin A a) = clk (hostTurnBegin A b) := by
  rw [clk_hostTurnBegin, clk_hostTurnBegin, e]

theorem clk_hostSleep_congr (A ms : Nat) {a b : Host} (e : clk a = clk b) :
    clk (hostSleep A a ms).1 = clk (hostSleep A b ms).1 := by
  have e4 : a.hnow = b.hnow := clk_hnow e
  rw [clk_hostSleep, clk_hostSleep, e, e4]

theorem tv_hosts {w w' : World} (e : tv w' = tv w) : w'.hosts.map clk = w.hosts.map clk := congrArg TView.hosts e

theorem map_clk_congr (f : Host → Host) (hf : ∀ a b, clk a = clk b → clk (f a) = clk (f b)) :
    ∀ (l l' : List Host), l.map clk = l'.map clk → (l.map f).map clk = (l'.map f).map clk
  | [], [], _ => rfl
  | [], _ :: _, h => by simp at h
  | _ :: _, [], h => by simp at h
  | x :: xs, y :: ys, h => by
    simp only [List.map_cons, List.cons.injEq] at h ⊢
    exact ⟨hf x y h.1, map_clk_congr f hf xs ys h.2⟩

theorem tv_clockPart_congr {w1 w2 : World} (e : tv w1 = tv w2) (st : Step) :
    tv (clockPart w1 st) = tv (clockPart w2 st) := by
  have ec : w1.cfg = w2.cfg := cfg_of_tv e
  have ee : w1.elapsed = w2.elapsed := elapsed_of_tv e
  have eh := tv_hosts e
  cases st
  case host h op =>
    cases op
    case exit => exact tv_congr_setHost e h _ _ (fun a b => clk_markExited_congr)
    case sleep ms =>
      show tv (hopSleep w1 h ms).1 = tv (hopSleep w2 h ms).1
      rw [hopSleep_eq, hopSleep_eq, ec]
      exact tv_congr_setHost e h _ _ (fun _ _ _ => clk_hostSleep_congr _ _ (clk_host!_of_tv e h))
    all_goals exact e
  case register ip c =>
    unfold clockPart tv register
    simp only [List.map_append, eh, ee, ec, List.map_cons, List.map_nil]
  case stepEnd =>
    unfold clockPart tv stepEnd
    simp only [ee, ec]
    rw [map_clk_congr _ (fun a b => clk_hostStepEnd_congr _ _) _ _ eh]
  case crash h => exact tv_congr_setHost e h _ _ (fun a b => clk_markCrashed_congr)
  case bounce h => exact tv_congr_setHost e h _ _ (fun a b => clk_freshRuntime_congr)
  case turn h =>
    show tv (w1.setHost h (hostTurnBegin (ceilMs w1.cfg.tick))) = tv (w2.setHost h (hostTurnBegin (ceilMs w2.cfg.tick)))
    rw [ec]
    exact tv_congr_setHost e h _ _ (fun a b => clk_hostTurnBegin_congr _)
  all_goals exact e

/-- **clocks are autonomous**: the clock view after a transition is determined by the clock view before. -/
theorem tv_applyStep_congr {w1 w2 : World} (e : tv w1 = tv w2) (st : Step) :
    tv (applyStep w1 st) = tv (applyStep w2 st) := by
  rw [tv_applyStep, tv_applyStep]; exact tv_clockPart_congr e st

/-- a run of clock parts only. -/
def crun (w : World) (sts : List Step) : World := sts.foldl clockPart w

theorem tv_run_crun {w1 w2 : World} (e : tv w1 = tv w2) (sts : List Step) : tv (run w1 sts) = tv (crun w2 sts) := by
  induction sts generalizing w1 w2 with
  | nil => exact e
  | cons st sts ih => exact ih ((tv_applyStep w1 st).trans (tv_clockPart_congr e st))

theorem clk_run_crun (w : World) (sts : List Step) (i : Nat) : clk ((run w sts).host! i) = clk ((crun w sts).host! i) :=
  clk_host!_of_tv (tv_run_crun rfl sts) i

end TV.C05
