import TvCore.Model.Step
import TvCore.Props.WorldLinks
import TvCore.Props.C04Socks
import TvCore.Props.C03Sets
import TvCore.Props.C03
import TvCore.Props.C08
import TvCore.Props.C08Mixed
import TvCore.Props.C14
import TvCore.Proofs.C09FanoutLemmas
/-
  World ⟶ Link refinement, definitions.

  The link-level property theorems (C08, C03, C14) are stated on the `Link` state machine.  The
  `World` model keeps a list of links and runs the `Link` functions on them from many places (sends
  from host calls, destructors, RST replies during `deliver_messages`, the controller calls, the step
  clock).  This file fixes the vocabulary in which "what the World does to link number `li`" is
  expressed:

    * `Ctl`      a controller call on one link, with the ip numbers the call passes (`Ctl.fn` = the
                 `Link` function it runs),
    * `GOp`      one operation on one link: `enq` (`Link.enqueue` = random step; enqueue; process
                 deliverables), `tick`, `drain`, `ctl`,
    * `gstep`, `grun`   run such operations on a `Link` (result: the link and what `drain` handed out),
    * `core w`   the part of a world the links machinery reads or writes besides the link table,
    * `LR Q li w w'`   "going from `w` to `w'`, link `li` underwent a list of `GOp`s all satisfying `Q`;
                 configuration and topology clock are unchanged; the oracle queue only lost a prefix".
-/
namespace TV.LW
open TV TV.World

/-! ### operations on one link -/

/-- a controller call on one link (`partition_oneway` / `repair_oneway` carry the ip numbers of the
    call: the direction is `s → d`). -/
inductive Ctl
  | partition | partitionOneway (s d : Nat) | repair | repairOneway (s d : Nat) | hold | release | manual (i : Nat)
  deriving DecidableEq, Repr

/-- the `Link` function a controller call runs (second component: the discarded messages). -/
def Ctl.fn : Ctl → Link Env → Link Env × List (Sent Env)
  | .partition => fun l => l.explicitPartition
  | .partitionOneway s d => fun l => l.partitionOneway s d
  | .repair => fun l => (l.explicitRepair, [])
  | .repairOneway s d => fun l => (l.repairOneway s d, [])
  | .hold => fun l => (l.hold, [])
  | .release => fun l => (l.release, [])
  | .manual i => fun l => (l.manualDeliver i, [])

/-- the controller call of a `NetCtl` between ip numbers `s`, `d`. -/
def ctlOf (op : NetCtl) (s d : Nat) : Ctl :=
  match op with
  | .partition => .partition
  | .partitionOneway => .partitionOneway s d
  | .repair => .repair
  | .repairOneway => .repairOneway s d
  | .hold => .hold
  | .release => .release

/-- one operation on one link, as the World performs it. -/
inductive GOp
  | enq (cf cr : Bool) (d src dst : Nat) (e : Env)
  | tick (now : Nat)
  | drain (host : Nat)
  | ctl (c : Ctl)
  deriving Repr

/-- one operation: the new link and what it handed to a host (`drain` only). -/
def gstep (cfg : Cfg) (l : Link Env) : GOp → Link Env × List (Sent Env)
  | .enq cf cr d s t e => ((l.enqueue cfg cf cr d s t e).1, [])
  | .tick now => (l.tick now, [])
  | .drain host => l.drain host
  | .ctl c => ((c.fn l).1, [])

/-- run a list of operations, accumulating what was handed to hosts (in order). -/
def grun (cfg : Cfg) : Link Env → List GOp → Link Env × List (Sent Env)
  | l, [] => (l, [])
  | l, o :: ops => ((grun cfg (gstep cfg l o).1 ops).1, (gstep cfg l o).2 ++ (grun cfg (gstep cfg l o).1 ops).2)

@[simp] theorem grun_nil (cfg : Cfg) (l : Link Env) : grun cfg l [] = (l, []) := rfl
theorem grun_cons (cfg : Cfg) (l : Link Env) (o : GOp) (ops : List GOp) :
    grun cfg l (o :: ops) = ((grun cfg (gstep cfg l o).1 ops).1, (gstep cfg l o).2 ++ (grun cfg (gstep cfg l o).1 ops).2) := rfl

theorem grun_append (cfg : Cfg) (l : Link Env) (xs ys : List GOp) :
    grun cfg l (xs ++ ys) = ((grun cfg (grun cfg l xs).1 ys).1, (grun cfg l xs).2 ++ (grun cfg (grun cfg l xs).1 ys).2) := by
  induction xs generalizing l with
  | nil => simp
  | cons x xs ih =>
    simp only [List.cons_append, grun_cons, ih, List.append_assoc]

theorem grun_single (cfg : Cfg) (l : Link Env) (o : GOp) : grun cfg l [o] = gstep cfg l o := by
  simp [grun_cons]

/-- does the failure coin of this operation stay down? -/
def GOp.noFail : GOp → Prop
  | .enq cf _ _ _ _ _ => cf = false
  | _ => True

/-! ### end points never change -/

theorem randStep_ab (cfg : Cfg) (l : Link Env) (cf cr : Bool) :
    (Link.randStep cfg l cf cr).1.a = l.a ∧ (Link.randStep cfg l cf cr).1.b = l.b :=
  ⟨Link.randStep_a cfg l cf cr, Link.randStep_b cfg l cf cr⟩

theorem enqueueRaw_ab (l : Link Env) (d s t : Nat) (e : Env) :
    (l.enqueueRaw d s t e).1.a = l.a ∧ (l.enqueueRaw d s t e).1.b = l.b := by
  unfold Link.enqueueRaw
  simp only
  split <;> exact ⟨rfl, rfl⟩

theorem enqueue_ab (cfg : Cfg) (l : Link Env) (cf cr : Bool) (d s t : Nat) (e : Env) :
    (l.enqueue cfg cf cr d s t e).1.a = l.a ∧ (l.enqueue cfg cf cr d s t e).1.b = l.b := by
  have h1 := randStep_ab cfg l cf cr
  have h2 := enqueueRaw_ab (Link.randStep cfg l cf cr).1 d s t e
  exact ⟨h2.1.trans h1.1, h2.2.trans h1.2⟩

theorem drain_ab (l : Link Env) (n : Nat) : (l.drain n).1.a = l.a ∧ (l.drain n).1.b = l.b := by
  unfold Link.drain
  split
  · exact ⟨rfl, rfl⟩
  · split <;> exact ⟨rfl, rfl⟩

theorem ctl_ab (c : Ctl) (l : Link Env) : (c.fn l).1.a = l.a ∧ (c.fn l).1.b = l.b := by
  cases c with
  | partitionOneway s d => exact C03Sets.ab_partitionOneway l s d
  | repairOneway s d => unfold Ctl.fn Link.repairOneway; simp only; split <;> exact ⟨rfl, rfl⟩
  | partition => exact ⟨(Link.explicitPartition_fields l).1, (Link.explicitPartition_fields l).2.1⟩
  | hold => unfold Ctl.fn Link.hold; simp only; split <;> exact ⟨rfl, rfl⟩
  | _ => exact ⟨rfl, rfl⟩

theorem gstep_ab (cfg : Cfg) (l : Link Env) (o : GOp) : (gstep cfg l o).1.a = l.a ∧ (gstep cfg l o).1.b = l.b := by
  cases o with
  | enq cf cr d s t e => exact enqueue_ab cfg l cf cr d s t e
  | tick now => exact ⟨rfl, rfl⟩
  | drain n => exact drain_ab l n
  | ctl c => exact ctl_ab c l

theorem grun_ab (cfg : Cfg) (l : Link Env) (ops : List GOp) : (grun cfg l ops).1.a = l.a ∧ (grun cfg l ops).1.b = l.b := by
  induction ops generalizing l with
  | nil => exact ⟨rfl, rfl⟩
  | cons o ops ih =>
    rw [grun_cons]
    have h1 := gstep_ab cfg l o
    have h2 := ih (gstep cfg l o).1
    exact ⟨h2.1.trans h1.1, h2.2.trans h1.2⟩

/-! ### the variant flag of a link is never written -/

theorem randStep_flag (cfg : Cfg) (l : Link Env) (cf cr : Bool) : (Link.randStep cfg l cf cr).1.fixMatured = l.fixMatured := by
  unfold Link.randStep Link.release; repeat' split
  all_goals rfl

theorem enqueue_flag (cfg : Cfg) (l : Link Env) (cf cr : Bool) (d s t : Nat) (e : Env) :
    (l.enqueue cfg cf cr d s t e).1.fixMatured = l.fixMatured := by
  have h2 : ∀ k : Link Env, (k.enqueueRaw d s t e).1.fixMatured = k.fixMatured := by
    intro k; unfold Link.enqueueRaw; simp only; split <;> rfl
  show ((Link.randStep cfg l cf cr).1.enqueueRaw d s t e).1.processDeliverables.fixMatured = l.fixMatured
  have h3 : ∀ k : Link Env, k.processDeliverables.fixMatured = k.fixMatured := fun _ => rfl
  rw [h3, h2, randStep_flag]

theorem hold_flag (l : Link Env) : l.hold.fixMatured = l.fixMatured := by
  unfold Link.hold; split <;> rfl

theorem ctl_flag (c : Ctl) (l : Link Env) : (c.fn l).1.fixMatured = l.fixMatured := by
  cases c with
  | partition => exact (Link.explicitPartition_fields l).2.2.2.2.2.2.2.2.2.2.2
  | partitionOneway s d => exact (Link.partitionOneway_fields l s d).2.2.2.2.2.2.2.2.2.2.2
  | repairOneway s d => unfold Ctl.fn Link.repairOneway; simp only; split <;> rfl
  | hold => exact hold_flag l
  | _ => rfl

theorem gstep_flag (cfg : Cfg) (l : Link Env) (o : GOp) : (gstep cfg l o).1.fixMatured = l.fixMatured := by
  cases o with
  | enq cf cr d s t e => exact enqueue_flag cfg l cf cr d s t e
  | tick now => rfl
  | drain n => unfold gstep Link.drain; simp only; split; rfl; split <;> rfl
  | ctl c => exact ctl_flag c l

theorem grun_flag (cfg : Cfg) (l : Link Env) (ops : List GOp) : (grun cfg l ops).1.fixMatured = l.fixMatured := by
  induction ops generalizing l with
  | nil => rfl
  | cons o ops ih => rw [grun_cons]; exact (ih _).trans (gstep_flag cfg l o)

/-! ### the part of a world the link machinery uses besides the link table -/

/-- configuration, link table, oracle queue, topology clock. -/
def core (w : World) : WCfg × List (Link Env) × List Ora × Nat := (w.cfg, w.links, w.oracle, w.now)

theorem core_cfg {w w' : World} (h : core w' = core w) : w'.cfg = w.cfg := congrArg (·.1) h
theorem core_links {w w' : World} (h : core w' = core w) : w'.links = w.links := congrArg (·.2.1) h
theorem core_oracle {w w' : World} (h : core w' = core w) : w'.oracle = w.oracle := congrArg (·.2.2.1) h
theorem core_now {w w' : World} (h : core w' = core w) : w'.now = w.now := congrArg (·.2.2.2) h

@[simp] theorem core_tag (w : World) (t : String) : core (w.tag t) = core w := by unfold tag; split <;> rfl
@[simp] theorem core_panic (w : World) (t : String) : core (w.panic t) = core w := by unfold World.panic; split <;> rfl
@[simp] theorem core_setHost (w : World) (h : Nat) (f : Host → Host) : core (w.setHost h f) = core w := rfl
@[simp] theorem core_setChan (w : World) (c : Nat) (f : Chan → Chan) : core (w.setChan c f) = core w := rfl
@[simp] theorem core_dropSyn (w : World) (id : Nat) : core (w.dropSyn id) = core w := rfl
@[simp] theorem core_dropEnvs (w : World) (es : List Env) : core (w.dropEnvs es) = core w := by
  unfold dropEnvs
  induction es generalizing w with
  | nil => rfl
  | cons e es ih =>
    simp only [List.foldl_cons]
    rw [ih]
    cases e.msg <;> rfl
@[simp] theorem core_setObj (w : World) (h s : Nat) (o : Obj) : core (w.setObj h s o) = core w := rfl
@[simp] theorem core_delObj (w : World) (h s : Nat) : core (w.delObj h s) = core w := rfl

theorem core_ite {w a b : World} (c : Prop) [Decidable c] (ha : core a = core w) (hb : core b = core w) :
    core (if c then a else b) = core w := by split <;> assumption

theorem core_foldl {α : Type} (f : World → α → World) (hf : ∀ w x, core (f w x) = core w) (l : List α) (w : World) :
    core (l.foldl f w) = core w := by
  induction l generalizing w with
  | nil => rfl
  | cons x xs ih => simp only [List.foldl_cons]; rw [ih, hf]

/-! ### the relation -/

/-- **`LR Q li w w'`**: between `w` and `w'` link `li` (if it exists) underwent a list of operations
    each satisfying `Q a b` (`a`, `b` the link's end points) — and no failure coin came up in them if
    the oracle queue of `w` holds none; configuration, topology clock and the number of links are
    unchanged; the oracle queue of `w'` is a suffix of that of `w`. -/
structure LR (Q : Nat → Nat → GOp → Prop) (li : Nat) (w w' : World) : Prop where
  cfg : w'.cfg = w.cfg
  now : w'.now = w.now
  ora : w'.oracle <:+ w.oracle
  len : w'.links.length = w.links.length
  link : ∀ l, w.links[li]? = some l → ∃ ops, (∀ o ∈ ops, Q l.a l.b o ∧ (C09.NoFailCoin w → o.noFail)) ∧
    w'.links[li]? = some (grun w.cfg.link l ops).1

theorem noFail_suffix {w w' : World} (h : w'.oracle <:+ w.oracle) (hn : C09.NoFailCoin w) : C09.NoFailCoin w' := by
  unfold C09.NoFailCoin at *
  intro hm
  exact hn (h.subset hm)

variable {Q : Nat → Nat → GOp → Prop} {li : Nat}

theorem LR.of_core {w w' : World} (h : core w' = core w) : LR Q li w w' where
  cfg := core_cfg h
  now := core_now h
  ora := by rw [core_oracle h]; exact List.suffix_refl _
  len := by rw [core_links h]
  link := fun l hl => ⟨[], by simp, by rw [core_links h, hl]; rfl⟩

theorem LR.refl (w : World) : LR Q li w w := LR.of_core rfl

theorem LR.trans {a b c : World} (h1 : LR Q li a b) (h2 : LR Q li b c) : LR Q li a c where
  cfg := h2.cfg.trans h1.cfg
  now := h2.now.trans h1.now
  ora := h2.ora.trans h1.ora
  len := h2.len.trans h1.len
  link := by
    intro l hl
    obtain ⟨ops1, hq1, e1⟩ := h1.link l hl
    obtain ⟨ops2, hq2, e2⟩ := h2.link _ e1
    refine ⟨ops1 ++ ops2, ?_, ?_⟩
    · intro o ho
      rcases List.mem_append.mp ho with ho | ho
      · exact hq1 o ho
      · have := hq2 o ho
        rw [(grun_ab a.cfg.link l ops1).1, (grun_ab a.cfg.link l ops1).2] at this
        exact ⟨this.1, fun hn => this.2 (noFail_suffix h1.ora hn)⟩
    · rw [e2, grun_append, h1.cfg]

theorem LR.mono {Q' : Nat → Nat → GOp → Prop} {w w' : World} (h : LR Q li w w')
    (hq : ∀ a b o, Q a b o → Q' a b o) : LR Q' li w w' where
  cfg := h.cfg
  now := h.now
  ora := h.ora
  len := h.len
  link := by
    intro l hl
    obtain ⟨ops, hq1, e1⟩ := h.link l hl
    exact ⟨ops, fun o ho => ⟨hq _ _ _ (hq1 o ho).1, (hq1 o ho).2⟩, e1⟩

theorem LR.ite {w a b : World} (c : Prop) [Decidable c] (ha : LR Q li w a) (hb : LR Q li w b) :
    LR Q li w (if c then a else b) := by split <;> assumption

theorem LR.foldl {α : Type} (f : World → α → World) (hf : ∀ w x, LR Q li w (f w x)) (l : List α) (w : World) :
    LR Q li w (l.foldl f w) := by
  induction l generalizing w with
  | nil => exact LR.refl w
  | cons x xs ih => exact (hf w x).trans (ih _)

theorem LR.tag {w w' : World} (h : LR Q li w w') (t : String) : LR Q li w (w'.tag t) :=
  h.trans (LR.of_core (core_tag _ _))

end TV.LW
