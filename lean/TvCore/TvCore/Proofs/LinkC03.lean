import TvCore.Model.Link
/-
  Invariant behind C03 for the repaired random process (`Cfg.fixed`), and the lemmas that each
  transition of the C03 alphabet (everything except hold / release / manual delivery) preserves it.
-/
namespace TV
namespace Link
variable {M : Type}

/-- Ops of the C03 alphabet (hold / release / manual delivery are outside: the crate documents
    combining hold with one-way partitions as unsupported). -/
def _root_.TV.LinkOp.inC03 : LinkOp M → Bool
  | .hold => false
  | .release => false
  | .manualDeliver _ => false
  | _ => true

/-- Direction of a message: `true` = a→b. -/
def Sent.ab (s : Sent M) : Bool := decide (s.src < s.dst)

structure WF (l : Link M) : Prop where
  lt : l.a < l.b
  sent : ∀ s ∈ l.sent, (s.src = l.a ∧ s.dst = l.b) ∨ (s.src = l.b ∧ s.dst = l.a)

structure Inv (l : Link M) : Prop where
  wf : WF l
  stAB : l.exAB = true → l.stAB = .explicit
  stBA : l.exBA = true → l.stBA = .explicit
  good : ∀ s, s ∈ l.sent ∨ s ∈ l.toA ∨ s ∈ l.toB → s.bad = false
  clrAB : l.exAB = true → ∀ s ∈ l.sent, ¬ (s.src < s.dst)
  clrBA : l.exBA = true → ∀ s ∈ l.sent, s.src < s.dst

theorem inv_init (a b : Nat) (h : a < b) (fm : Bool := false) : Inv (init a b fm : Link M) := by
  refine ⟨⟨h, ?_⟩, ?_, ?_, ?_, ?_, ?_⟩ <;> simp [init]

theorem mem_filter_sub {p : Sent M → Bool} {s : Sent M} {l : List (Sent M)}
    (h : s ∈ l.filter p) : s ∈ l := (List.mem_filter.mp h).1

theorem inv_processDeliverables {l : Link M} (h : Inv l) : Inv l.processDeliverables := by
  obtain ⟨⟨hlt, hs⟩, h1, h2, h3, h4, h5⟩ := h
  refine ⟨⟨hlt, ?_⟩, h1, h2, ?_, ?_, ?_⟩
  · intro s hm; exact hs s (mem_filter_sub hm)
  · intro s hm
    simp only [processDeliverables, List.mem_append] at hm
    rcases hm with hm | hm | hm
    · exact h3 s (Or.inl (mem_filter_sub hm))
    · rcases hm with hm | hm
      · exact h3 s (Or.inr (Or.inl hm))
      · exact h3 s (Or.inl (mem_filter_sub (mem_filter_sub hm)))
    · rcases hm with hm | hm
      · exact h3 s (Or.inr (Or.inr hm))
      · exact h3 s (Or.inl (mem_filter_sub (mem_filter_sub hm)))
  · intro he s hm; exact h4 he s (mem_filter_sub hm)
  · intro he s hm; exact h5 he s (mem_filter_sub hm)

theorem inv_tick {l : Link M} (h : Inv l) (now : Nat) : Inv (l.tick now) := by
  apply inv_processDeliverables
  obtain ⟨⟨hlt, hs⟩, h1, h2, h3, h4, h5⟩ := h
  exact ⟨⟨hlt, hs⟩, h1, h2, h3, h4, h5⟩

theorem inv_drain {l : Link M} (h : Inv l) (host : Nat) :
    Inv (l.drain host).1 ∧ ∀ s ∈ (l.drain host).2, s.bad = false := by
  obtain ⟨⟨hlt, hs⟩, h1, h2, h3, h4, h5⟩ := h
  unfold drain
  split
  · refine ⟨⟨⟨hlt, hs⟩, h1, h2, ?_, h4, h5⟩, ?_⟩
    · intro s hm
      rcases hm with hm | hm | hm
      · exact h3 s (Or.inl hm)
      · simp at hm
      · exact h3 s (Or.inr (Or.inr hm))
    · intro s hm; exact h3 s (Or.inr (Or.inl hm))
  · split
    · refine ⟨⟨⟨hlt, hs⟩, h1, h2, ?_, h4, h5⟩, ?_⟩
      · intro s hm
        rcases hm with hm | hm | hm
        · exact h3 s (Or.inl hm)
        · exact h3 s (Or.inr (Or.inl hm))
        · simp at hm
      · intro s hm; exact h3 s (Or.inr (Or.inr hm))
    · exact ⟨⟨⟨hlt, hs⟩, h1, h2, h3, h4, h5⟩, by simp⟩

/-- the remaining ready queues after `clearReady` are sub-lists of the old ones. -/
theorem clearReady_sub (l : Link M) (d : Nat) :
    (l.clearReady d).1.Sublist l.toA ∧ (l.clearReady d).2.1.Sublist l.toB := by
  unfold clearReady
  split
  · exact ⟨List.nil_sublist _, List.Sublist.refl _⟩
  · split
    · exact ⟨List.Sublist.refl _, List.nil_sublist _⟩
    · exact ⟨List.Sublist.refl _, List.Sublist.refl _⟩

/-- what an explicit partition leaves of a link (both variants). -/
theorem explicitPartition_fields (l : Link M) :
    l.explicitPartition.1.a = l.a ∧ l.explicitPartition.1.b = l.b ∧ l.explicitPartition.1.sent = [] ∧
    l.explicitPartition.1.stAB = .explicit ∧ l.explicitPartition.1.stBA = .explicit ∧
    l.explicitPartition.1.exAB = true ∧ l.explicitPartition.1.exBA = true ∧
    l.explicitPartition.1.toA.Sublist l.toA ∧ l.explicitPartition.1.toB.Sublist l.toB ∧
    l.explicitPartition.1.now = l.now ∧ l.explicitPartition.1.nextId = l.nextId ∧
    l.explicitPartition.1.fixMatured = l.fixMatured := by
  unfold explicitPartition
  split
  · exact ⟨rfl, rfl, rfl, rfl, rfl, rfl, rfl, List.nil_sublist _, List.nil_sublist _, rfl, rfl, rfl⟩
  · exact ⟨rfl, rfl, rfl, rfl, rfl, rfl, rfl, List.Sublist.refl _, List.Sublist.refl _, rfl, rfl, rfl⟩

/-- what a one-way partition leaves of a link (both variants). -/
theorem partitionOneway_fields (l : Link M) (s d : Nat) :
    (l.partitionOneway s d).1.a = l.a ∧ (l.partitionOneway s d).1.b = l.b ∧
    (l.partitionOneway s d).1.sent = l.sent.filter (fun x => x.src != s) ∧
    (l.partitionOneway s d).1.stAB = (if s < d then .explicit else l.stAB) ∧
    (l.partitionOneway s d).1.stBA = (if s < d then l.stBA else .explicit) ∧
    (l.partitionOneway s d).1.exAB = (if s < d then true else l.exAB) ∧
    (l.partitionOneway s d).1.exBA = (if s < d then l.exBA else true) ∧
    (l.partitionOneway s d).1.toA.Sublist l.toA ∧ (l.partitionOneway s d).1.toB.Sublist l.toB ∧
    (l.partitionOneway s d).1.now = l.now ∧ (l.partitionOneway s d).1.nextId = l.nextId ∧
    (l.partitionOneway s d).1.fixMatured = l.fixMatured := by
  have hc := clearReady_sub l d
  unfold partitionOneway
  simp only
  split <;> split <;>
    first
    | exact ⟨rfl, rfl, rfl, rfl, rfl, rfl, rfl, hc.1, hc.2, rfl, rfl, rfl⟩
    | exact ⟨rfl, rfl, rfl, rfl, rfl, rfl, rfl, List.Sublist.refl _, List.Sublist.refl _, rfl, rfl, rfl⟩

theorem inv_explicitPartition {l : Link M} (h : Inv l) : Inv l.explicitPartition.1 := by
  obtain ⟨⟨hlt, _⟩, _, _, h3, _, _⟩ := h
  obtain ⟨ea, eb, es, e1, e2, e3, e4, sA, sB, _⟩ := explicitPartition_fields l
  refine ⟨⟨by rw [ea, eb]; exact hlt, by rw [es]; simp⟩, fun _ => e1, fun _ => e2, ?_, by rw [es]; simp, by rw [es]; simp⟩
  intro s hm
  rw [es] at hm
  rcases hm with hm | hm | hm
  · cases hm
  · exact h3 s (Or.inr (Or.inl (sA.subset hm)))
  · exact h3 s (Or.inr (Or.inr (sB.subset hm)))

theorem inv_explicitRepair {l : Link M} (h : Inv l) : Inv l.explicitRepair := by
  obtain ⟨⟨hlt, hs⟩, _, _, h3, _, _⟩ := h
  exact ⟨⟨hlt, hs⟩, by simp [explicitRepair], by simp [explicitRepair], h3,
    by simp [explicitRepair], by simp [explicitRepair]⟩

/-- one-way partition of the direction `a→b` (`ab = true`) or `b→a`. -/
def partitionDir (l : Link M) (ab : Bool) : Link M × List (Sent M) :=
  if ab then l.partitionOneway l.a l.b else l.partitionOneway l.b l.a

def repairDir (l : Link M) (ab : Bool) : Link M :=
  if ab then l.repairOneway l.a l.b else l.repairOneway l.b l.a

theorem inv_partitionDir {l : Link M} (h : Inv l) (ab : Bool) : Inv (l.partitionDir ab).1 := by
  obtain ⟨⟨hlt, hs⟩, h1, h2, h3, h4, h5⟩ := h
  have hnlt : ¬ l.b < l.a := Nat.not_lt.mpr (Nat.le_of_lt hlt)
  cases ab
  · -- b → a
    simp only [partitionDir, Bool.false_eq_true, if_false]
    obtain ⟨ea, eb, es, e1, e2, e3, e4, sA, sB, _⟩ := partitionOneway_fields l l.b l.a
    simp only [hnlt, if_false] at e1 e2 e3 e4
    refine ⟨⟨by rw [ea, eb]; exact hlt, ?_⟩, ?_, fun _ => e2, ?_, ?_, ?_⟩
    · rw [ea, eb, es]; intro s hm; exact hs s (mem_filter_sub hm)
    · rw [e3, e1]; exact h1
    · intro s hm
      rw [es] at hm
      rcases hm with hm | hm | hm
      · exact h3 s (Or.inl (mem_filter_sub hm))
      · exact h3 s (Or.inr (Or.inl (sA.subset hm)))
      · exact h3 s (Or.inr (Or.inr (sB.subset hm)))
    · rw [e3, es]; intro he s hm; exact h4 he s (mem_filter_sub hm)
    · rw [es]
      intro _ s hm
      have hm' := List.mem_filter.mp hm
      rcases hs s hm'.1 with ⟨e1', e2'⟩ | ⟨e1', e2'⟩
      · rw [e1', e2']; exact hlt
      · simp [e1'] at hm'
  · -- a → b
    simp only [partitionDir, if_true]
    obtain ⟨ea, eb, es, e1, e2, e3, e4, sA, sB, _⟩ := partitionOneway_fields l l.a l.b
    simp only [hlt, if_true] at e1 e2 e3 e4
    refine ⟨⟨by rw [ea, eb]; exact hlt, ?_⟩, fun _ => e1, ?_, ?_, ?_, ?_⟩
    · rw [ea, eb, es]; intro s hm; exact hs s (mem_filter_sub hm)
    · rw [e4, e2]; exact h2
    · intro s hm
      rw [es] at hm
      rcases hm with hm | hm | hm
      · exact h3 s (Or.inl (mem_filter_sub hm))
      · exact h3 s (Or.inr (Or.inl (sA.subset hm)))
      · exact h3 s (Or.inr (Or.inr (sB.subset hm)))
    · rw [es]
      intro _ s hm
      have hm' := List.mem_filter.mp hm
      rcases hs s hm'.1 with ⟨e1', e2'⟩ | ⟨e1', e2'⟩
      · simp [e1'] at hm'
      · rw [e1', e2']; exact hnlt
    · rw [e4, es]; intro he s hm; exact h5 he s (mem_filter_sub hm)

theorem inv_repairDir {l : Link M} (h : Inv l) (ab : Bool) : Inv (l.repairDir ab) := by
  obtain ⟨⟨hlt, hs⟩, h1, h2, h3, h4, h5⟩ := h
  have hnlt : ¬ l.b < l.a := Nat.not_lt.mpr (Nat.le_of_lt hlt)
  cases ab
  · simp only [repairDir, repairOneway, hnlt, if_false, Bool.false_eq_true]
    exact ⟨⟨hlt, hs⟩, h1, by simp, h3, h4, by simp⟩
  · simp only [repairDir, repairOneway, hlt, if_true]
    exact ⟨⟨hlt, hs⟩, by simp, h2, h3, by simp, h5⟩

/-- The repaired random step never changes an explicitly partitioned direction and only removes
    messages. -/
theorem inv_randStep_fixed {l : Link M} (h : Inv l) (cf cr : Bool) :
    Inv (randStep Cfg.fixed l cf cr).1 := by
  obtain ⟨⟨hlt, hs⟩, h1, h2, h3, h4, h5⟩ := h
  simp only [randStep, Cfg.fixed, if_true]
  split
  · refine ⟨⟨hlt, ?_⟩, ?_, ?_, ?_, ?_, ?_⟩
    · intro s hm; exact hs s (mem_filter_sub hm)
    · intro he; have := h1 he; simp [this]
    · intro he; have := h2 he; simp [this]
    · intro s hm
      rcases hm with hm | hm | hm
      · exact h3 s (Or.inl (mem_filter_sub hm))
      · exact h3 s (Or.inr (Or.inl hm))
      · exact h3 s (Or.inr (Or.inr hm))
    · intro he s hm; exact h4 he s (mem_filter_sub hm)
    · intro he s hm; exact h5 he s (mem_filter_sub hm)
  · split
    · refine ⟨⟨hlt, hs⟩, ?_, ?_, h3, h4, h5⟩
      · intro he; have := h1 he; simp [this]
      · intro he; have := h2 he; simp [this]
    · exact ⟨⟨hlt, hs⟩, h1, h2, h3, h4, h5⟩

theorem inv_addSent {l : Link M} (h : Inv l) (x : Sent M) (n : Nat)
    (hdir : (x.src = l.a ∧ x.dst = l.b) ∨ (x.src = l.b ∧ x.dst = l.a))
    (hbad : x.bad = false) (hex : l.exFor x.src x.dst = false) :
    Inv { l with sent := l.sent ++ [x], nextId := n } := by
  obtain ⟨⟨hlt, hs⟩, h1, h2, h3, h4, h5⟩ := h
  have hnlt : ¬ l.b < l.a := Nat.not_lt.mpr (Nat.le_of_lt hlt)
  refine ⟨⟨hlt, ?_⟩, h1, h2, ?_, ?_, ?_⟩
  · intro s hm
    rcases List.mem_append.mp hm with hm | hm
    · exact hs s hm
    · simp at hm; subst hm; exact hdir
  · intro s hm
    rcases hm with hm | hm | hm
    · rcases List.mem_append.mp hm with hm | hm
      · exact h3 s (Or.inl hm)
      · simp at hm; subst hm; exact hbad
    · exact h3 s (Or.inr (Or.inl hm))
    · exact h3 s (Or.inr (Or.inr hm))
  · intro he s hm
    rcases List.mem_append.mp hm with hm | hm
    · exact h4 he s hm
    · simp at hm; subst hm
      intro hlt'
      have he' : l.exAB = true := he
      simp [exFor, hlt', he'] at hex
  · intro he s hm
    rcases List.mem_append.mp hm with hm | hm
    · exact h5 he s hm
    · simp at hm; subst hm
      have he' : l.exBA = true := he
      rcases hdir with ⟨e1, e2⟩ | ⟨e1, e2⟩
      · rw [e1, e2]; exact hlt
      · rw [e1, e2] at hex; simp [exFor, hnlt, he'] at hex

theorem inv_bumpId {l : Link M} (h : Inv l) (n : Nat) : Inv { l with nextId := n } := by
  obtain ⟨⟨hlt, hs⟩, h1, h2, h3, h4, h5⟩ := h
  exact ⟨⟨hlt, hs⟩, h1, h2, h3, h4, h5⟩

/-- ghost flag set ⇒ the state of that direction is `explicit`. -/
theorem exFor_state {l : Link M} (h : Inv l) (src dst : Nat) (he : l.exFor src dst = true) :
    l.stateFor src dst = .explicit := by
  unfold exFor at he; unfold stateFor
  split
  · rename_i hlt; simp [hlt] at he; exact h.stAB he
  · rename_i hlt; simp [hlt] at he; exact h.stBA he

theorem inv_enqueueRaw {l : Link M} (h : Inv l) (d : Nat) (src dst : Nat) (m : M)
    (hdir : (src = l.a ∧ dst = l.b) ∨ (src = l.b ∧ dst = l.a)) :
    Inv (l.enqueueRaw d src dst m).1 := by
  have key : l.stateFor src dst ≠ .explicit → l.exFor src dst = false := by
    intro hne
    cases he : l.exFor src dst with
    | false => rfl
    | true => exact absurd (exFor_state h src dst he) hne
  unfold enqueueRaw
  split
  · rename_i hst
    have hex := key (by rw [hst]; decide)
    exact inv_addSent h _ _ hdir hex hex
  · rename_i hst
    have hex := key (by rw [hst]; decide)
    exact inv_addSent h _ _ hdir hex hex
  · exact inv_bumpId h _

theorem randStep_a (cfg : Cfg) (l : Link M) (cf cr : Bool) : (randStep cfg l cf cr).1.a = l.a := by
  unfold randStep release; repeat' split
  all_goals rfl

theorem randStep_b (cfg : Cfg) (l : Link M) (cf cr : Bool) : (randStep cfg l cf cr).1.b = l.b := by
  unfold randStep release; repeat' split
  all_goals rfl

/-- The full `enqueue_message` of the repaired model preserves the invariant. -/
theorem inv_enqueue_fixed {l : Link M} (h : Inv l) (cf cr : Bool) (d : Nat) (src dst : Nat) (m : M)
    (hdir : (src = l.a ∧ dst = l.b) ∨ (src = l.b ∧ dst = l.a)) :
    Inv (l.enqueue Cfg.fixed cf cr d src dst m).1 := by
  have h1 := inv_randStep_fixed h cf cr
  have hdir' : (src = (randStep Cfg.fixed l cf cr).1.a ∧ dst = (randStep Cfg.fixed l cf cr).1.b) ∨
      (src = (randStep Cfg.fixed l cf cr).1.b ∧ dst = (randStep Cfg.fixed l cf cr).1.a) := by
    rw [randStep_a, randStep_b]; exact hdir
  exact inv_processDeliverables (inv_enqueueRaw h1 d src dst m hdir')

end Link
end TV
