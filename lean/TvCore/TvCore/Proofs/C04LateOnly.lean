import TvCore.Model.Step
import TvCore.Props.C04Group
import TvCore.Props.WorldLinks
/-
  `Only g w w'` ("the transition writes no host but `g`": every other entry of the host table is
  exactly as it was, and the table has the same length) for EVERY function of the World model that host
  code, a host's turn or a loopback delivery of host `g` runs.  `Props/C04.lean` proves it for the
  destructors (`crash`, `bounce`); here it is extended to the whole step alphabet, so that a host that
  is down — none of whose steps occur — is left alone by everything the others do.
-/
namespace TV.C04
open TV TV.World

theorem only_panic {h : Nat} {w w' : World} (t : String) (hw : Only h w w') : Only h w (w'.panic t) :=
  hw.trans (only_of_hosts (hosts_panic w' t))

theorem only_foldl {α : Type} (h : Nat) (f : World → α → World) (hf : ∀ w x, Only h w (f w x)) (l : List α) (w : World) :
    Only h w (l.foldl f w) := by
  induction l generalizing w with
  | nil => exact Only.refl h w
  | cons x xs ih => exact (hf w x).trans (ih _)

theorem only_setChan (h : Nat) (w : World) (c : Nat) (f : Chan → Chan) : Only h w (w.setChan c f) := only_of_hosts rfl
theorem only_dropSyn (h : Nat) (w : World) (id : Nat) : Only h w (w.dropSyn id) := only_of_hosts rfl
theorem only_dropEnvs (h : Nat) (w : World) (es : List Env) : Only h w (w.dropEnvs es) := only_of_hosts (hosts_dropEnvs w es)
theorem only_linkEnqueue (h : Nat) (w : World) (li s d : Nat) (e : Env) : Only h w (w.linkEnqueue li s d e) :=
  only_of_hosts (hosts_linkEnqueue w li s d e)
theorem only_sendMessage (h : Nat) (w : World) (e : Env) : Only h w (w.sendMessage e).2 :=
  only_of_hosts (hosts_sendMessage w e)

theorem only_assignPort (h : Nat) (w : World) : Only h w (w.assignPort h).2 := by
  unfold assignPort
  simp only
  have h1 := only_setHost h w (fun hs => { hs with nextEph := (assignEphemeral w.cfg.ephLo w.cfg.ephHi
    (fun p => udpPortUsed (w.host! h) p || tcpPortUsed (w.host! h) p) (w.host! h).nextEph).2 })
  have h2 := only_ite (w := w) ((assignEphemeral w.cfg.ephLo w.cfg.ephHi
    (fun p => udpPortUsed (w.host! h) p || tcpPortUsed (w.host! h) p) (w.host! h).nextEph).2 ≤ (w.host! h).nextEph)
    (only_tag "wrap" h1) h1
  split
  · exact h2
  · exact only_panic _ h2

theorem only_newStream (h : Nat) (w : World) (loc rem : Addr) : Only h w (w.newStream h loc rem).2 := by
  unfold newStream newChan newFcPair
  simp only
  refine Only.trans ?_ (only_setHost h _ _)
  refine Only.trans (b := if (findSock (w.host! h) loc rem).isSome = true then w.panic "already connected" else w) ?_
    (only_of_hosts rfl)
  exact only_ite _ (only_panic _ (Only.refl h w)) (Only.refl h w)

theorem only_sockBuffer (h : Nat) (w : World) (i seq : Nat) (seg : Seg) : Only h w (w.sockBuffer h i seq seg).2 := by
  unfold sockBuffer
  simp only
  refine Only.trans ?_ (only_setChan h _ _ _)
  refine Only.trans ?_ (only_setHost h _ _)
  refine Only.trans ?_ (only_ite _ (only_tag _ (Only.refl h _)) (Only.refl h _))
  refine Only.trans ?_ (only_ite _ (only_tag _ (Only.refl h _)) (Only.refl h _))
  exact only_ite _ (only_panic _ (Only.refl h w)) (Only.refl h w)

theorem only_receive (h : Nat) (w : World) (e : Env) : Only h w (w.receive h e).2 := by
  unfold receive
  simp only
  split
  · split
    · exact only_tag _ (only_dropSyn h _ _)
    · split
      · exact Only.trans (only_ite _ (only_panic _ (Only.refl h w)) (Only.refl h w)) (only_setHost h _ _)
      · exact only_tag _ ((only_ite _ (only_panic _ (Only.refl h w)) (Only.refl h w)).trans (only_dropSyn h _ _))
  · split
    · exact only_sockBuffer _ _ _ _ _
    · exact only_tag _ (Only.refl h w)
  · split
    · exact only_sockBuffer _ _ _ _ _
    · exact only_tag _ (Only.refl h w)
  · exact only_tag _ (only_removeSock h _ _ _)
  · next p _ =>
    exact only_ite _ (only_setHost h w _) (only_tag _ (only_setHost h w _))

theorem only_deliverTo (h : Nat) (w : World) : Only h w (w.deliverTo h).2 := by
  unfold deliverTo
  simp only
  generalize (List.filter _ _) = idxs
  suffices H : ∀ (l : List Nat) (acc : List Env × World), Only h w acc.2 →
      Only h w (l.foldl (fun (acc : List Env × World) li =>
        match acc.2.links[li]? with
        | none => (acc.1, acc.2)
        | some l =>
          (acc.1 ++ (l.drain (w.host! h).ipnum).2.map (·.msg),
           (l.drain (w.host! h).ipnum).2.foldl (fun w (s : Sent Env) =>
              if (w.receive h s.msg).1 = true then
                (w.receive h s.msg).2.linkEnqueue li s.dst s.src { src := s.msg.dst, dst := s.msg.src, msg := .rst }
              else (w.receive h s.msg).2)
            { acc.2 with links := setAt acc.2.links li (fun _ => (l.drain (w.host! h).ipnum).1) })) acc).2 from
    H idxs ([], w) (Only.refl h w)
  intro l
  induction l with
  | nil => intro acc ha; exact ha
  | cons li ls ih =>
    intro acc ha
    simp only [List.foldl_cons]
    apply ih
    split
    · exact ha
    · refine ha.trans (Only.trans (only_of_hosts rfl) (only_foldl h _ (fun w s => ?_) _ _))
      split
      · exact (only_receive _ _ _).trans (only_linkEnqueue h _ _ _ _ _)
      · exact only_receive _ _ _

/-! ### host-level calls -/

theorem only_setObj (h : Nat) (w : World) (s : Nat) (o : Obj) : Only h w (w.setObj h s o) := only_setHost h w _
theorem only_delObj (h : Nat) (w : World) (s : Nat) : Only h w (w.delObj h s) := only_setHost h w _

theorem only_ite_fst {h : Nat} {w : World} {α : Type} (c : Prop) [Decidable c] (a b : World × α)
    (ha : Only h w a.1) (hb : Only h w b.1) : Only h w (if c then a else b).1 := by
  split <;> assumption

theorem only_ite_snd {h : Nat} {w : World} {α : Type} (c : Prop) [Decidable c] (a b : α × World)
    (ha : Only h w a.2) (hb : Only h w b.2) : Only h w (if c then a else b).2 := by
  split <;> assumption

theorem only_opUdpBind (h : Nat) (w : World) (s : Nat) (a : Addr) : Only h w (w.opUdpBind h s a).1 := by
  unfold opUdpBind
  split
  · exact Only.refl h w
  · simp only
    have s1 : Only h w (if (a.port == 0) = true then w.assignPort h else (some a.port, w)).2 :=
      only_ite_snd _ _ _ (only_assignPort h w) (Only.refl h w)
    generalize (if (a.port == 0) = true then w.assignPort h else (some a.port, w)) = r at s1 ⊢
    split
    · exact s1
    · split
      · exact only_tag _ s1
      · exact (s1.trans (only_setHost h _ _)).trans (only_setObj h _ _ _)

theorem only_opTcpBind (h : Nat) (w : World) (s : Nat) (a : Addr) : Only h w (w.opTcpBind h s a).1 := by
  unfold opTcpBind
  split
  · exact Only.refl h w
  · simp only
    have s1 : Only h w (if (a.port == 0) = true then w.assignPort h else (some a.port, w)).2 :=
      only_ite_snd _ _ _ (only_assignPort h w) (Only.refl h w)
    generalize (if (a.port == 0) = true then w.assignPort h else (some a.port, w)) = r at s1 ⊢
    split
    · exact s1
    · split
      · exact only_tag _ s1
      · exact (s1.trans (only_setHost h _ _)).trans (only_setObj h _ _ _)

theorem only_udpFanout (h : Nat) (src : Addr) (p : Hex) (loopOk : Addr → Bool) (ds : List Addr) (w : World) :
    Only h w (udpFanout w h src p loopOk ds).1 := by
  induction ds generalizing w with
  | nil => exact Only.refl h w
  | cons d ds ih =>
    unfold udpFanout
    split
    · exact Only.trans (only_ite _ (only_sendLoopback h _ _) (Only.refl h _)) (ih _)
    · simp only
      split
      · exact (only_sendMessage h _ _).trans (ih _)
      · exact only_sendMessage h _ _

theorem only_opUdpSend (h : Nat) (w : World) (s : Nat) (dst : Addr) (p : Hex) : Only h w (w.opUdpSend h s dst p).1 := by
  unfold opUdpSend
  simp only
  repeat' split
  all_goals first
    | exact Only.refl h w
    | exact (only_tag _ (Only.refl h w)).trans (only_udpFanout _ _ _ _ _ _)
    | exact only_netSend _ _ _

theorem only_opUdpTryRecv (h : Nat) (w : World) (s n : Nat) : Only h w (w.opUdpTryRecv h s n).1 := by
  unfold opUdpTryRecv
  split
  · split
    · exact only_setObj h w _ _
    · split
      · exact Only.refl h w
      · simp only
        split
        · exact Only.refl h w
        · exact only_setHost h w _
  · exact Only.refl h w

theorem only_opUdpReadable (h : Nat) (w : World) (s : Nat) : Only h w (w.opUdpReadable h s).1 := by
  unfold opUdpReadable
  split
  · split
    · exact Only.refl h w
    · split
      · exact Only.refl h w
      · simp only
        split
        · exact Only.refl h w
        · exact (only_setHost h w _).trans (only_setObj h _ _ _)
  · exact Only.refl h w

theorem only_opUdpRecv (h : Nat) (w : World) (s n : Nat) : Only h w (w.opUdpRecv h s n).1 := by
  unfold opUdpRecv
  simp only
  split
  · exact (only_opUdpReadable h w s).trans (only_opUdpTryRecv h _ s n)
  · exact only_opUdpReadable h w s

theorem only_opUdpConnect (h : Nat) (w : World) (s : Nat) (dst : Addr) : Only h w (w.opUdpConnect h s dst).1 := by
  unfold opUdpConnect
  split
  · exact only_setHost h w _
  · exact Only.refl h w

theorem only_opUdpSetBcast (h : Nat) (w : World) (s : Nat) (on : Bool) : Only h w (w.opUdpSetBcast h s on).1 := by
  unfold opUdpSetBcast
  split
  · exact only_setHost h w _
  · exact Only.refl h w

theorem only_opUdpSetMloop (h : Nat) (w : World) (s : Nat) (on : Bool) : Only h w (w.opUdpSetMloop h s on).1 := by
  unfold opUdpSetMloop
  split
  · exact only_setHost h w _
  · exact Only.refl h w

theorem only_opUdpJoin (h : Nat) (w : World) (s : Nat) (g iface : Ip) : Only h w (w.opUdpJoin h s g iface).1 := by
  unfold opUdpJoin
  repeat' split
  all_goals exact only_of_hosts rfl

theorem only_opUdpLeave (h : Nat) (w : World) (s : Nat) (g iface : Ip) : Only h w (w.opUdpLeave h s g iface).1 := by
  unfold opUdpLeave
  simp only
  repeat' split
  all_goals exact only_of_hosts rfl

theorem only_connectPoll (h : Nat) (w : World) (s : Nat) : Only h w (w.connectPoll h s).1 := by
  unfold connectPoll
  split
  · next id loc rem chan fcW hg =>
    split
    · exact Only.refl h w
    · exact only_setObj h w _ _
    · simp only
      have h2 := (only_delObj h w s).trans (only_setChan h _ chan fun c => { c with rxAlive := false })
      refine only_tag "refused" ?_
      split
      · exact h2.trans (only_removeSock h _ _ _)
      · exact only_tag _ h2
  · exact Only.refl h w

theorem only_opTcpConnect (h : Nat) (w : World) (s : Nat) (dst : Addr) : Only h w (w.opTcpConnect h s dst).1 := by
  unfold opTcpConnect
  simp only
  have s1 := only_assignPort h w
  split
  · exact s1
  · next p _ =>
    generalize ({ ip := if dst.ip.isLoopback = true then dst.ip else Ip.host h, port := p } : Addr) = loc
    split
    · exact only_panic _ s1
    · have s2 := s1.trans (only_newStream h (w.assignPort h).2 loc dst)
      generalize ((w.assignPort h).2.newStream h loc dst) = ns at s2 ⊢
      have s3 : Only h w { ns.2 with syns := ns.2.syns ++ [({} : SynCell)] } := s2.trans (only_of_hosts rfl)
      generalize ({ ns.2 with syns := ns.2.syns ++ [({} : SynCell)] } : World) = w3 at s3 ⊢
      have s4 := s3.trans (only_netSend h w3 { src := loc, dst := dst, msg := .syn ns.2.syns.length })
      split
      · refine only_tag "refused" ?_
        have s5 := s4.trans (only_setChan h _ ns.1.1 fun c => { c with rxAlive := false })
        split
        · exact s5.trans (only_removeSock h _ _ _)
        · exact only_tag _ s5
      · exact (s4.trans (only_setObj h _ _ _)).trans (only_connectPoll h _ s)

theorem only_acceptLoop (h : Nat) (w : World) (port : Nat) : Only h w (w.acceptLoop h port).1 := by
  unfold acceptLoop
  split
  · exact only_panic _ (Only.refl h w)
  · next bi _ =>
    simp only
    have h1 : Only h w (w.setHost h fun hs => { hs with tcpBinds := setAt hs.tcpBinds bi fun b =>
        { b with deque := (acceptPick w.synAlive ((w.host! h).tcpBinds.getD bi default).deque).2 } }) :=
      only_setHost h w _
    have h2 := h1.trans (only_ite (((w.host! h).tcpBinds.getD bi default).deque.length -
        (acceptPick w.synAlive ((w.host! h).tcpBinds.getD bi default).deque).2.length -
        (if (acceptPick w.synAlive ((w.host! h).tcpBinds.getD bi default).deque).1.isSome = true then 1 else 0) > 0)
        (only_tag "skipdead" (Only.refl h _)) (Only.refl h _))
    split
    · exact h2.trans (only_of_hosts rfl)
    · exact h2

theorem only_opTcpAccept (h : Nat) (w : World) (ls s : Nat) : Only h w (w.opTcpAccept h ls s).1 := by
  unfold opTcpAccept
  split
  · next lloc hg =>
    simp only
    have s1 := only_acceptLoop h w lloc.port
    generalize (w.acceptLoop h lloc.port) = al at s1 ⊢
    split
    · exact s1
    · next r _ =>
      generalize (if (if r.src.ip.isLoopback = true then { ip := r.src.ip, port := lloc.port } else lloc).ip.isUnspecified = true then
          { ip := Ip.host h, port := (if r.src.ip.isLoopback = true then { ip := r.src.ip, port := lloc.port } else lloc).port }
        else if r.src.ip.isLoopback = true then { ip := r.src.ip, port := lloc.port } else lloc : Addr) = my
      split
      · exact only_panic _ s1
      · have s2 := s1.trans (only_newStream h al.1 my r.src)
        generalize (al.1.newStream h my r.src) = ns at s2 ⊢
        split
        · exact only_panic _ s2
        · split
          · exact only_panic _ s2
          · exact s2.trans (only_setObj h _ _ _)
  · exact Only.refl h w

theorem only_tryWrite (h : Nat) (w : World) (x : WrH) (p : Hex) : Only h w (w.tryWrite h x p).1 := by
  unfold tryWrite
  simp only
  have h1 : Only h w { w with fcs := setAt w.fcs x.fc (· - 1) } := only_of_hosts rfl
  repeat' split
  all_goals first
    | exact Only.refl h w
    | exact only_tag _ (Only.refl h w)
    | exact h1
    | exact (h1.trans (only_setHost h _ _)).trans (only_netSend _ _ _)

theorem only_opTcpWrite (h : Nat) (w : World) (s : Nat) (p : Hex) (poll : Bool) : Only h w (w.opTcpWrite h s p poll).1 := by
  unfold opTcpWrite
  simp only
  repeat' split
  all_goals first
    | exact Only.refl h w
    | exact only_tryWrite _ _ _ _

theorem only_opTcpShutdown (h : Nat) (w : World) (s : Nat) : Only h w (w.opTcpShutdown h s).1 := by
  unfold opTcpShutdown
  split
  · next rd x hg =>
    split
    · exact Only.refl h w
    · split
      · exact Only.refl h w
      · next i _ =>
        simp only
        have s2 := (only_setHost h w (fun hs => { hs with socks := setAt hs.socks i fun s => { s with nextSendSeq := s.nextSendSeq + 1 } })).trans
          (only_netSend h _ { src := x.loc, dst := x.rem, msg := .fin ((w.host! h).socks.getD i default).nextSendSeq })
        split
        · exact s2.trans (only_setObj h _ _ _)
        · exact s2
  · exact Only.refl h w

theorem only_redrain (h : Nat) (w : World) (r : RdH) : Only h w (w.redrain h r) := by
  unfold redrain
  simp only
  repeat' split
  all_goals first
    | exact Only.refl h w
    | exact (only_setHost h _ _).trans (only_setChan h _ _ _)

theorem only_opTcpRead (h : Nat) (w : World) (s n : Nat) (peek : Bool) : Only h w (w.opTcpRead h s n peek).1 := by
  unfold opTcpRead
  split
  · next r wr hg =>
    split
    · exact Only.refl h w
    · split
      · split
        · exact Only.refl h w
        · exact only_setObj h w _ _
      · simp only
        split
        · next seg rest _ =>
          have s1 := only_setChan h w r.chan fun c => { c with items := rest }
          split
          · next b _ =>
            simp only
            refine Only.trans ?_ (only_redrain h _ r)
            have s2 : Only h w { (w.setChan r.chan fun c => { c with items := rest }) with
                fcs := setAt (w.setChan r.chan fun c => { c with items := rest }).fcs r.fc (· + 1) } := s1.trans (only_of_hosts rfl)
            have s3 := s2.trans (only_ite (hexLen b > n) (only_tag "partialread" (Only.refl h _)) (Only.refl h _))
            exact s3.trans (only_setObj h _ _ _)
          · refine Only.trans ?_ (only_redrain h _ r)
            exact only_tag "eof" (s1.trans (only_setObj h _ _ _))
        · split
          · exact only_tag _ (Only.refl h w)
          · exact Only.refl h w
  · exact Only.refl h w

theorem only_opDrop (h : Nat) (w : World) (s : Nat) : Only h w (w.opDrop h s).1 := by
  unfold opDrop
  split
  · exact (only_delObj h w s).trans (only_dropObj h _ _)
  · exact Only.refl h w

theorem only_opDropRead (h : Nat) (w : World) (s : Nat) : Only h w (w.opDropRead h s).1 := by
  unfold opDropRead
  split
  · next r wr _ =>
    simp only
    refine Only.trans ?_ (only_dropRead h _ r)
    cases wr with
    | some _ => exact only_setObj h w _ _
    | none => exact only_delObj h w _
  · exact Only.refl h w

theorem only_opDropWrite (h : Nat) (w : World) (s : Nat) : Only h w (w.opDropWrite h s).1 := by
  unfold opDropWrite
  split
  · next rd x _ =>
    simp only
    refine Only.trans ?_ (only_dropWrite h _ x)
    cases rd with
    | some _ => exact only_setObj h w _ _
    | none => exact only_delObj h w _
  · exact Only.refl h w

theorem only_onLink (h : Nat) (w : World) (x y : Nat) (f : Link Env → Link Env × List (Sent Env)) : Only h w (w.onLink x y f) :=
  only_of_hosts (WorldLinks.onLink_hosts w x y f)

theorem only_netCtl (h : Nat) (op : NetCtl) (w : World) (x y : Nat) : Only h w (op.apply w x y) := by
  cases op <;> exact only_onLink h w x y _

theorem only_forPairs (h : Nat) (w : World) (xs ys : List Nat) (f : World → Nat → Nat → World) (hf : ∀ w x y, Only h w (f w x y)) :
    Only h w (w.forPairs xs ys f) := by
  unfold forPairs
  refine only_foldl h _ (fun w x => only_foldl h _ (fun w y => ?_) _ _) _ _
  exact only_ite _ (hf _ _ _) (Only.refl h _)

theorem only_fst_mk {α β : Type} (a : α) (b : β) : (a, b).1 = a := rfl

/-- (by rewriting only: the kernel must never be made to evaluate `hostSleep`) -/
theorem only_hopSleep (h : Nat) (w : World) (ms : Nat) : Only h w (hopSleep w h ms).1 := by
  rw [hopSleep, only_fst_mk]
  exact only_setHost h w _

theorem only_turnBegin (h : Nat) (w : World) : Only h w (w.turnBegin h) := only_setHost h w _

theorem only_turnStep (h : Nat) (w : World) : Only h w (turnStep w h).2 := by
  unfold turnStep
  exact ((only_turnBegin h w).trans (only_deliverTo h _)).trans (only_of_hosts rfl)

theorem only_loStep (h : Nat) (w : World) (i : Nat) : Only h w (loStep w h i).1 := by
  unfold loStep
  simp only
  have h1 := (only_setHost h w (fun hs => { hs with lo := hs.lo.eraseIdx i })).trans
    (only_receive h _ ((w.host! h).lo.getD i default))
  split
  · exact h1.trans (only_receive h _ _)
  · exact h1

theorem only_bounce (h : Nat) (w : World) : Only h w (w.bounce h) := by
  unfold bounce
  exact (only_dropAll h w).trans (only_setHost h _ _)

/-- **every host call of host `h` writes no other host.**  (`countOf a` only reads host `a`.) -/
theorem only_applyHOp (h : Nat) (w : World) (op : HOp) : Only h w (applyHOp w h op).1 := by
  cases op with
  | udpBind s a =>
    show Only h w (if (w.getObj h s).isSome = true then (w, "err slotbusy") else w.opUdpBind h s a).1
    exact only_ite_fst _ _ _ (Only.refl h w) (only_opUdpBind h w s a)
  | tcpBind s a =>
    show Only h w (if (w.getObj h s).isSome = true then (w, "err slotbusy") else w.opTcpBind h s a).1
    exact only_ite_fst _ _ _ (Only.refl h w) (only_opTcpBind h w s a)
  | tcpConnect s a =>
    show Only h w (if (w.getObj h s).isSome = true then (w, "err slotbusy") else w.opTcpConnect h s a).1
    exact only_ite_fst _ _ _ (Only.refl h w) (only_opTcpConnect h w s a)
  | tcpAccept ls s =>
    show Only h w (if (w.getObj h s).isSome = true then (w, "err slotbusy") else w.opTcpAccept h ls s).1
    exact only_ite_fst _ _ _ (Only.refl h w) (only_opTcpAccept h w ls s)
  | udpSend s a p => exact only_opUdpSend h w s a p
  | udpTryRecv s n => exact only_opUdpTryRecv h w s n
  | udpRecv s n => exact only_opUdpRecv h w s n
  | udpReadable s => exact only_opUdpReadable h w s
  | udpConnect s a => exact only_opUdpConnect h w s a
  | udpBcast s on => exact only_opUdpSetBcast h w s on
  | udpMloop s on => exact only_opUdpSetMloop h w s on
  | udpJoin s g i => exact only_opUdpJoin h w s g i
  | udpLeave s g i => exact only_opUdpLeave h w s g i
  | tcpCPoll s => exact only_connectPoll h w s
  | tcpWrite s p => exact only_opTcpWrite h w s p _
  | tcpSplit s => exact Only.refl h w
  | tcpReunite s => exact Only.refl h w
  | tcpPWrite s p => exact only_opTcpWrite h w s p true
  | tcpShutdown s => exact only_opTcpShutdown h w s
  | tcpRead s n => exact only_opTcpRead h w s n false
  | tcpPeek s n => exact only_opTcpRead h w s n true
  | drop s => exact only_opDrop h w s
  | tcpDropR s => exact only_opDropRead h w s
  | tcpDropW s => exact only_opDropWrite h w s
  | count => exact Only.refl h w
  | countOf a => exact Only.refl h w
  | spawnTicker => exact Only.refl h w
  | select4 => exact Only.refl h w
  | exit => exact (only_dropAll h w).trans (only_setHost h _ _)
  | net op a b => exact only_netCtl h op w a b
  | sleep ms =>
    show Only h w (hopSleep w h ms).1
    exact only_hopSleep h w ms
  | clock => exact Only.refl h w
  | lookup name => exact only_of_hosts rfl
  | unknown => exact Only.refl h w

end TV.C04
