import TvCore.Proofs.LinksWorldLemmas
/-
  C03 lifted to lists of World-level link operations: the invariant of `Proofs/LinkC03.lean` (repaired
  random process) extended by "every message on the link — in flight or deliverable — travels between
  the link's two end points", which is what makes the RST replies of `deliver_messages` sends between
  the end points again.
-/
namespace TV.LW
open TV TV.World TV.Link

/-- message `s` travels between `a` and `b`. -/
def Dir (a b : Nat) (s : Sent Env) : Prop := (s.src = a ∧ s.dst = b) ∨ (s.src = b ∧ s.dst = a)

/-- every message the link holds (in flight, deliverable to either side) travels between its end points. -/
def AllDir (l : Link Env) : Prop := ∀ s, s ∈ l.sent ∨ s ∈ l.toA ∨ s ∈ l.toB → Dir l.a l.b s

/-- the link invariant of C03 for World-level runs. -/
structure Inv2 (l : Link Env) : Prop where
  inv : Link.Inv l
  dir : AllDir l

theorem inv2_init (a b : Nat) (now : Nat) (h : a < b) (fm : Bool := false) :
    Inv2 ({ a := a, b := b, now := now, fixMatured := fm } : Link Env) := by
  refine ⟨⟨⟨h, ?_⟩, ?_, ?_, ?_, ?_, ?_⟩, ?_⟩ <;> simp [AllDir]

/-- operations of the C03 alphabet, as the World performs them on a link with end points `a`, `b`:
    sends between the end points, the clock, draining, and (one-way) partition / repair whose direction
    is between the end points.  `hold`, `release`, manual delivery are outside (the crate documents
    combining them with partitions as unsupported). -/
def C03Ok (a b : Nat) : GOp → Prop
  | .enq _ _ _ s t _ => (s = a ∧ t = b) ∨ (s = b ∧ t = a)
  | .tick _ => True
  | .drain _ => True
  | .ctl .partition => True
  | .ctl .repair => True
  | .ctl (.partitionOneway s d) => (s = a ∧ d = b) ∨ (s = b ∧ d = a)
  | .ctl (.repairOneway s d) => (s = a ∧ d = b) ∨ (s = b ∧ d = a)
  | .ctl _ => False

theorem allDir_of_sub {l l' : Link Env} (h : AllDir l) (ha : l'.a = l.a) (hb : l'.b = l.b)
    (hsub : ∀ s, s ∈ l'.sent ∨ s ∈ l'.toA ∨ s ∈ l'.toB → s ∈ l.sent ∨ s ∈ l.toA ∨ s ∈ l.toB) : AllDir l' := by
  intro s hs
  rw [ha, hb]
  exact h s (hsub s hs)

theorem allDir_process {l : Link Env} (h : AllDir l) : AllDir l.processDeliverables := by
  refine allDir_of_sub h (by rfl) (by rfl) ?_
  intro s hs
  simp only [processDeliverables, List.mem_append, List.mem_filter] at hs
  rcases hs with hs | hs | hs
  · exact Or.inl hs.1
  · rcases hs with hs | hs
    · exact Or.inr (Or.inl hs)
    · exact Or.inl hs.1.1
  · rcases hs with hs | hs
    · exact Or.inr (Or.inr hs)
    · exact Or.inl hs.1.1

theorem allDir_randStep_fixed {l : Link Env} (h : AllDir l) (cf cr : Bool) : AllDir (randStep Cfg.fixed l cf cr).1 := by
  simp only [randStep, Cfg.fixed, if_true]
  split
  · refine allDir_of_sub h (by rfl) (by rfl) ?_
    intro s hs
    rcases hs with hs | hs | hs
    · exact Or.inl (List.mem_filter.mp hs).1
    · exact Or.inr (Or.inl hs)
    · exact Or.inr (Or.inr hs)
  · split
    · exact allDir_of_sub h (by rfl) (by rfl) (fun s hs => hs)
    · exact h

theorem allDir_enqueueRaw {l : Link Env} (h : AllDir l) (d s t : Nat) (e : Env)
    (hdir : (s = l.a ∧ t = l.b) ∨ (s = l.b ∧ t = l.a)) : AllDir (l.enqueueRaw d s t e).1 := by
  unfold enqueueRaw
  simp only
  split
  · intro x hx
    rcases hx with hx | hx | hx
    · rcases List.mem_append.mp hx with hx | hx
      · exact h x (Or.inl hx)
      · simp only [List.mem_singleton] at hx; subst hx; exact hdir
    · exact h x (Or.inr (Or.inl hx))
    · exact h x (Or.inr (Or.inr hx))
  · intro x hx
    rcases hx with hx | hx | hx
    · rcases List.mem_append.mp hx with hx | hx
      · exact h x (Or.inl hx)
      · simp only [List.mem_singleton] at hx; subst hx; exact hdir
    · exact h x (Or.inr (Or.inl hx))
    · exact h x (Or.inr (Or.inr hx))
  · exact allDir_of_sub h (by rfl) (by rfl) (fun s hs => hs)

theorem allDir_enqueue_fixed {l : Link Env} (h : AllDir l) (cf cr : Bool) (d s t : Nat) (e : Env)
    (hdir : (s = l.a ∧ t = l.b) ∨ (s = l.b ∧ t = l.a)) : AllDir (l.enqueue Cfg.fixed cf cr d s t e).1 := by
  have h1 := allDir_randStep_fixed h cf cr
  have hab := randStep_ab Cfg.fixed l cf cr
  have h2 := allDir_enqueueRaw h1 d s t e (by rw [hab.1, hab.2]; exact hdir)
  exact allDir_process h2

theorem allDir_drain {l : Link Env} (h : AllDir l) (n : Nat) : AllDir (l.drain n).1 := by
  unfold Link.drain
  split
  · refine allDir_of_sub h (by rfl) (by rfl) ?_
    intro s hs
    rcases hs with hs | hs | hs
    · exact Or.inl hs
    · cases hs
    · exact Or.inr (Or.inr hs)
  · split
    · refine allDir_of_sub h (by rfl) (by rfl) ?_
      intro s hs
      rcases hs with hs | hs | hs
      · exact Or.inl hs
      · exact Or.inr (Or.inl hs)
      · cases hs
    · exact h

theorem drain_sub (l : Link Env) (n : Nat) : ∀ x ∈ (l.drain n).2, x ∈ l.toA ∨ x ∈ l.toB := by
  unfold Link.drain
  split
  · exact fun x hx => Or.inl hx
  · split
    · exact fun x hx => Or.inr hx
    · intro x hx; cases hx

/-- one operation of the C03 alphabet (repaired random process) keeps the invariant and hands only
    good messages to hosts. -/
theorem inv2_gstep {l : Link Env} (h : Inv2 l) (o : GOp) (ho : C03Ok l.a l.b o) :
    Inv2 (gstep Cfg.fixed l o).1 ∧ ∀ x ∈ (gstep Cfg.fixed l o).2, x.bad = false := by
  have hlt := h.inv.wf.lt
  have hnlt : ¬ l.b < l.a := Nat.not_lt.mpr (Nat.le_of_lt hlt)
  cases o with
  | enq cf cr d s t e =>
    exact ⟨⟨inv_enqueue_fixed h.inv cf cr d s t e ho, allDir_enqueue_fixed h.dir cf cr d s t e ho⟩, fun _ hx => by cases hx⟩
  | tick now =>
    refine ⟨⟨inv_tick h.inv now, ?_⟩, fun _ hx => by cases hx⟩
    exact allDir_process (l := { l with now := now }) (fun s hs => h.dir s hs)
  | drain n =>
    exact ⟨⟨(inv_drain h.inv n).1, allDir_drain h.dir n⟩, (inv_drain h.inv n).2⟩
  | ctl c =>
    cases c with
    | partition =>
      refine ⟨⟨inv_explicitPartition h.inv, ?_⟩, fun _ hx => by cases hx⟩
      obtain ⟨ea, eb, es, _, _, _, _, sA, sB, _⟩ := Link.explicitPartition_fields l
      refine allDir_of_sub h.dir ea eb ?_
      intro s hs
      have hs : s ∈ l.explicitPartition.1.sent ∨ s ∈ l.explicitPartition.1.toA ∨ s ∈ l.explicitPartition.1.toB := hs
      rw [es] at hs
      rcases hs with hs | hs | hs
      · cases hs
      · exact Or.inr (Or.inl (sA.subset hs))
      · exact Or.inr (Or.inr (sB.subset hs))
    | repair =>
      exact ⟨⟨inv_explicitRepair h.inv, allDir_of_sub h.dir rfl rfl (fun s hs => hs)⟩, fun _ hx => by cases hx⟩
    | partitionOneway s d =>
      have hab := C03Sets.ab_partitionOneway l s d
      have hdir : AllDir (l.partitionOneway s d).1 := by
        obtain ⟨_, _, es, _, _, _, _, sA, sB, _⟩ := Link.partitionOneway_fields l s d
        refine allDir_of_sub h.dir hab.1 hab.2 ?_
        intro x hx
        rw [es] at hx
        rcases hx with hx | hx | hx
        · exact Or.inl (List.mem_filter.mp hx).1
        · exact Or.inr (Or.inl (sA.subset hx))
        · exact Or.inr (Or.inr (sB.subset hx))
      refine ⟨⟨?_, hdir⟩, fun _ hx => by cases hx⟩
      rcases ho with ⟨rfl, rfl⟩ | ⟨rfl, rfl⟩
      · exact inv_partitionDir h.inv true
      · exact inv_partitionDir h.inv false
    | repairOneway s d =>
      have hdir : AllDir (l.repairOneway s d) := by
        unfold Link.repairOneway
        split <;> exact allDir_of_sub h.dir (by rfl) (by rfl) (fun s hs => hs)
      refine ⟨⟨?_, hdir⟩, fun _ hx => by cases hx⟩
      rcases ho with ⟨rfl, rfl⟩ | ⟨rfl, rfl⟩
      · exact inv_repairDir h.inv true
      · exact inv_repairDir h.inv false
    | hold => exact absurd ho (by simp [C03Ok])
    | release => exact absurd ho (by simp [C03Ok])
    | manual i => exact absurd ho (by simp [C03Ok])

theorem inv2_grun {l : Link Env} (h : Inv2 l) (ops : List GOp) (ho : ∀ o ∈ ops, C03Ok l.a l.b o) :
    Inv2 (grun Cfg.fixed l ops).1 ∧ ∀ x ∈ (grun Cfg.fixed l ops).2, x.bad = false := by
  induction ops generalizing l with
  | nil => exact ⟨h, fun _ hx => by cases hx⟩
  | cons o ops ih =>
    rw [grun_cons]
    have h1 := inv2_gstep h o (ho o (by simp))
    have hab := gstep_ab Cfg.fixed l o
    have h2 := ih h1.1 (fun o' ho' => by rw [hab.1, hab.2]; exact ho o' (by simp [ho']))
    refine ⟨h2.1, ?_⟩
    intro x hx
    rcases List.mem_append.mp hx with hx | hx
    · exact h1.2 x hx
    · exact h2.2 x hx

theorem isSend_c03Ok {a b : Nat} {o : GOp} (h : IsSend a b o) : C03Ok a b o := by
  cases o <;> simp [IsSend] at h
  exact h

/-- an RST reply to a message that travels between the end points is a send between the end points. -/
theorem isReply_c03Ok {a b : Nat} {ms : List (Sent Env)} (hms : ∀ x ∈ ms, Dir a b x) {o : GOp} (h : IsReply ms o) :
    C03Ok a b o := by
  cases o with
  | enq cf cr d s t e =>
    obtain ⟨x, hx, rfl, rfl, _⟩ := h
    rcases hms x hx with ⟨h1, h2⟩ | ⟨h1, h2⟩
    · exact Or.inr ⟨h2, h1⟩
    · exact Or.inl ⟨h2, h1⟩
  | _ => exact absurd h (by simp [IsReply])

/-! ### sending across an explicitly partitioned direction -/

/-- **the ghost flag is what it says**: the message object `enqueue` creates carries
    `bad = (the direction is explicitly partitioned at the send)`; and (below) under the invariant such a
    message is not even queued. -/
theorem randStep_fixed_ex (l : Link Env) (cf cr : Bool) :
    (randStep Cfg.fixed l cf cr).1.exAB = l.exAB ∧ (randStep Cfg.fixed l cf cr).1.exBA = l.exBA := by
  simp only [randStep, Cfg.fixed, if_true]
  split
  · exact ⟨rfl, rfl⟩
  · split <;> exact ⟨rfl, rfl⟩

/-- **A send across an explicitly partitioned direction is refused**: under the invariant, when the
    direction `s → t` is explicitly partitioned, `enqueue_message` (repaired random process, any coins,
    any delay) queues nothing — every message on the link afterwards was on it before. -/
theorem enqueue_partitioned_refused {l : Link Env} (h : Link.Inv l) (cf cr : Bool) (d s t : Nat) (e : Env)
    (hex : l.exFor s t = true) :
    ∀ x, (x ∈ (l.enqueue Cfg.fixed cf cr d s t e).1.sent ∨ x ∈ (l.enqueue Cfg.fixed cf cr d s t e).1.toA ∨
          x ∈ (l.enqueue Cfg.fixed cf cr d s t e).1.toB) → (x ∈ l.sent ∨ x ∈ l.toA ∨ x ∈ l.toB) := by
  have h1 := inv_randStep_fixed h cf cr
  have hex1 : (randStep Cfg.fixed l cf cr).1.exFor s t = true := by
    unfold exFor at hex ⊢
    rw [(randStep_fixed_ex l cf cr).1, (randStep_fixed_ex l cf cr).2]
    exact hex
  have hst := exFor_state h1 s t hex1
  have hraw : ((randStep Cfg.fixed l cf cr).1.enqueueRaw d s t e).1 =
      { (randStep Cfg.fixed l cf cr).1 with nextId := (randStep Cfg.fixed l cf cr).1.nextId + 1 } := by
    unfold enqueueRaw
    simp only [hst]
  have hsub : ∀ x, (x ∈ (randStep Cfg.fixed l cf cr).1.sent ∨ x ∈ (randStep Cfg.fixed l cf cr).1.toA ∨
      x ∈ (randStep Cfg.fixed l cf cr).1.toB) → (x ∈ l.sent ∨ x ∈ l.toA ∨ x ∈ l.toB) := by
    intro x hx
    simp only [randStep, Cfg.fixed, if_true] at hx
    split at hx
    · rcases hx with hx | hx | hx
      · exact Or.inl (List.mem_filter.mp hx).1
      · exact Or.inr (Or.inl hx)
      · exact Or.inr (Or.inr hx)
    · split at hx <;> exact hx
  intro x hx
  unfold enqueue at hx
  simp only [hraw] at hx
  apply hsub
  simp only [processDeliverables, List.mem_append, List.mem_filter] at hx
  rcases hx with hx | hx | hx
  · exact Or.inl hx.1
  · rcases hx with hx | hx
    · exact Or.inr (Or.inl hx)
    · exact Or.inl hx.1.1
  · rcases hx with hx | hx
    · exact Or.inr (Or.inr hx)
    · exact Or.inl hx.1.1

end TV.LW
