import TvCore.Proofs.LinksWorldIds
/-
  C14 lifted to lists of World-level link operations: a scheduled message stays in flight until the
  link's clock reaches its deadline, is moved to its destination's deliverable queue by the first tick
  at or after the deadline, and waits there until that host's turn drains the queue.
-/
namespace TV.LW
open TV TV.World TV.Link

/-- operations that are no controller call. -/
def FlowOk : GOp → Prop
  | .ctl _ => False
  | _ => True

/-- the deliverable queues hold only messages whose deadline has passed. -/
def Matured (l : Link Env) : Prop := ∀ y, y ∈ l.toA ∨ y ∈ l.toB → ∃ t, y.status = .after t ∧ t ≤ l.now

theorem matured_of_mem {now : Nat} {y : Sent Env} (h : matured now y = true) : ∃ t, y.status = .after t ∧ t ≤ now := by
  unfold matured at h
  cases hs : y.status with
  | hold => simp [hs] at h
  | after t => exact ⟨t, rfl, by simpa [hs] using h⟩

theorem matured_process {l : Link Env} (h : Matured l) : Matured l.processDeliverables := by
  intro y hy
  simp only [processDeliverables, List.mem_append, List.mem_filter] at hy
  rcases hy with (hy | hy) | (hy | hy)
  · exact h y (Or.inl hy)
  · exact matured_of_mem hy.1.2
  · exact h y (Or.inr hy)
  · exact matured_of_mem hy.1.2

theorem matured_sub {l l' : Link Env} (h : Matured l) (hA : l'.toA.Sublist l.toA) (hB : l'.toB.Sublist l.toB) (hn : l.now ≤ l'.now) :
    Matured l' := by
  intro y hy
  obtain ⟨t, h1, h2⟩ := h y (hy.elim (fun h => Or.inl (hA.subset h)) (fun h => Or.inr (hB.subset h)))
  exact ⟨t, h1, Nat.le_trans h2 hn⟩

theorem matured_frame {l l' : Link Env} (h : Matured l) (hA : l'.toA = l.toA) (hB : l'.toB = l.toB) (hn : l.now ≤ l'.now) :
    Matured l' := matured_sub h (by rw [hA]; exact List.Sublist.refl _) (by rw [hB]; exact List.Sublist.refl _) hn

theorem randStep_queues (cfg : Cfg) (l : Link Env) (cf cr : Bool) :
    (randStep cfg l cf cr).1.toA = l.toA ∧ (randStep cfg l cf cr).1.toB = l.toB ∧ (randStep cfg l cf cr).1.now = l.now := by
  unfold randStep release
  repeat' split
  all_goals exact ⟨rfl, rfl, rfl⟩

theorem enqueueRaw_queues (l : Link Env) (d s t : Nat) (e : Env) :
    (l.enqueueRaw d s t e).1.toA = l.toA ∧ (l.enqueueRaw d s t e).1.toB = l.toB ∧ (l.enqueueRaw d s t e).1.now = l.now := by
  unfold enqueueRaw
  simp only
  split <;> exact ⟨rfl, rfl, rfl⟩

/-- controller calls that take messages out of the ready queues when the link carries the repair of
    F-C08-1 / F-C03-2: `hold` (recalls them), `partition`, `partition_oneway` (discard them). -/
def RecallOp : GOp → Prop
  | .ctl .hold => True
  | .ctl .partition => True
  | .ctl (.partitionOneway _ _) => True
  | _ => False

/-- a controller call never adds to a ready queue. -/
theorem ctl_queues_sub (c : Ctl) (l : Link Env) : (c.fn l).1.toA.Sublist l.toA ∧ (c.fn l).1.toB.Sublist l.toB := by
  cases c with
  | partition => exact ⟨(Link.explicitPartition_fields l).2.2.2.2.2.2.2.1, (Link.explicitPartition_fields l).2.2.2.2.2.2.2.2.1⟩
  | partitionOneway s d =>
    exact ⟨(Link.partitionOneway_fields l s d).2.2.2.2.2.2.2.1, (Link.partitionOneway_fields l s d).2.2.2.2.2.2.2.2.1⟩
  | repairOneway s d => unfold Ctl.fn Link.repairOneway; simp only; split <;> exact ⟨List.Sublist.refl _, List.Sublist.refl _⟩
  | hold =>
    unfold Ctl.fn Link.hold
    simp only
    split
    · exact ⟨List.nil_sublist _, List.nil_sublist _⟩
    · exact ⟨List.Sublist.refl _, List.Sublist.refl _⟩
  | _ => exact ⟨List.Sublist.refl _, List.Sublist.refl _⟩

/-- … and leaves both untouched unless it is one of `RecallOp` on a link with the repair. -/
theorem ctl_queues (c : Ctl) (l : Link Env) (h : l.fixMatured = true → ¬ RecallOp (.ctl c)) :
    (c.fn l).1.toA = l.toA ∧ (c.fn l).1.toB = l.toB := by
  cases c with
  | partition =>
    have hf : l.fixMatured = false := by
      cases hf : l.fixMatured
      · rfl
      · exact absurd trivial (h hf)
    unfold Ctl.fn Link.explicitPartition; simp [hf]
  | partitionOneway s d =>
    have hf : l.fixMatured = false := by
      cases hf : l.fixMatured
      · rfl
      · exact absurd trivial (h hf)
    unfold Ctl.fn Link.partitionOneway; simp only [hf, Bool.false_eq_true, if_false]; split <;> exact ⟨rfl, rfl⟩
  | hold =>
    have hf : l.fixMatured = false := by
      cases hf : l.fixMatured
      · rfl
      · exact absurd trivial (h hf)
    unfold Ctl.fn Link.hold; simp [hf, Link.holdRaw]
  | repairOneway s d => unfold Ctl.fn Link.repairOneway; simp only; split <;> exact ⟨rfl, rfl⟩
  | _ => exact ⟨rfl, rfl⟩

/-- every operation (clock never set back) keeps the deliverable queues matured, and hands out only
    matured messages. -/
theorem matured_gstep (cfg : Cfg) {l : Link Env} (h : Matured l) (o : GOp) (hmono : ∀ n, o = .tick n → l.now ≤ n) :
    Matured (gstep cfg l o).1 ∧ ∀ y ∈ (gstep cfg l o).2, ∃ t, y.status = .after t ∧ t ≤ l.now := by
  cases o with
  | enq cf cr d s t e =>
    refine ⟨?_, fun _ hy => by cases hy⟩
    have q1 := randStep_queues cfg l cf cr
    have q2 := enqueueRaw_queues (randStep cfg l cf cr).1 d s t e
    have m2 : Matured ((randStep cfg l cf cr).1.enqueueRaw d s t e).1 :=
      matured_frame h (q2.1.trans q1.1) (q2.2.1.trans q1.2.1) (Nat.le_of_eq (q2.2.2.trans q1.2.2).symm)
    exact matured_process m2
  | tick n =>
    refine ⟨?_, fun _ hy => by cases hy⟩
    have : Matured { l with now := n } := matured_frame h rfl rfl (hmono n rfl)
    exact matured_process this
  | drain n =>
    simp only [gstep]
    unfold Link.drain
    split
    · refine ⟨fun y hy => ?_, fun y hy => h y (Or.inl hy)⟩
      rcases hy with hy | hy
      · cases hy
      · exact h y (Or.inr hy)
    · split
      · refine ⟨fun y hy => ?_, fun y hy => h y (Or.inr hy)⟩
        rcases hy with hy | hy
        · exact h y (Or.inl hy)
        · cases hy
      · exact ⟨h, fun _ hy => by cases hy⟩
  | ctl c =>
    refine ⟨?_, fun _ hy => by cases hy⟩
    exact matured_sub h (ctl_queues_sub c l).1 (ctl_queues_sub c l).2 (Nat.le_of_eq (ctl_now c l).symm)

theorem unmatured_of_lt {now T : Nat} {x : Sent Env} (hs : x.status = .after T) (h : now < T) : matured now x = false := by
  unfold matured; rw [hs]; simp; omega

/-- **not before the deadline**: a scheduled message stays in flight through every send (failure coin
    down), tick and drain as long as the link's clock is before its deadline. -/
theorem stays_gstep (cfg : Cfg) {l : Link Env} {x : Sent Env} {T : Nat} (hx : x ∈ l.sent) (hs : x.status = .after T)
    (o : GOp) (hf : FlowOk o) (hnf : o.noFail) (hlt : (gstep cfg l o).1.now < T) : x ∈ (gstep cfg l o).1.sent := by
  cases o with
  | enq cf cr d s t e =>
    have hcf : cf = false := hnf
    subst hcf
    have hnow : (l.enqueue cfg false cr d s t e).1.now = l.now := enqueue_now cfg l false cr d s t e
    have hlt' : l.now < T := by rw [← hnow]; exact hlt
    have h1 : x ∈ (randStep cfg l false cr).1.sent := by
      unfold randStep
      simp only [Bool.and_false, Bool.false_eq_true, if_false]
      split
      · split
        · exact hx
        · exact hx
      · split
        · simp only [release, List.mem_map]
          exact ⟨x, hx, releaseOne_after ⟨T, hs⟩⟩
        · exact hx
    have h2 : x ∈ ((randStep cfg l false cr).1.enqueueRaw d s t e).1.sent := by
      unfold enqueueRaw
      simp only
      split
      · exact List.mem_append_left _ h1
      · exact List.mem_append_left _ h1
      · exact h1
    show x ∈ ((randStep cfg l false cr).1.enqueueRaw d s t e).1.processDeliverables.sent
    simp only [processDeliverables, List.mem_filter]
    refine ⟨h2, ?_⟩
    have hn : ((randStep cfg l false cr).1.enqueueRaw d s t e).1.now = l.now :=
      (enqueueRaw_queues _ d s t e).2.2.trans (randStep_queues cfg l false cr).2.2
    rw [hn, unmatured_of_lt hs hlt']
    rfl
  | tick n =>
    show x ∈ (l.tick n).sent
    have hlt' : n < T := hlt
    simp only [tick, processDeliverables, List.mem_filter]
    exact ⟨hx, by rw [unmatured_of_lt hs hlt']; rfl⟩
  | drain n =>
    simp only [gstep]
    unfold Link.drain
    split
    · exact hx
    · split <;> exact hx
  | ctl c => exact absurd hf (by simp [FlowOk])

/-- the message waits in the deliverable queue of its destination (`deliverable[a]` if its destination
    is end point `a`, the other queue otherwise — as `process_deliverables` files it). -/
def inQueue (l : Link Env) (x : Sent Env) : Prop :=
  ((x.dst == l.a) = true ∧ x ∈ l.toA) ∨ ((x.dst == l.a) = false ∧ x ∈ l.toB)

/-- **at the deadline**: the first tick at or after the deadline moves the message to its destination's
    deliverable queue. -/
theorem moves_on_tick {l : Link Env} {x : Sent Env} {T : Nat} (hx : x ∈ l.sent) (hs : x.status = .after T) (n : Nat)
    (hT : T ≤ n) : inQueue (l.tick n) x := by
  have hm : matured n x = true := by unfold matured; rw [hs]; simpa using hT
  unfold inQueue
  simp only [tick, processDeliverables]
  cases hd : (x.dst == l.a)
  · right
    exact ⟨rfl, List.mem_append_right _ (List.mem_filter.mpr ⟨List.mem_filter.mpr ⟨hx, hm⟩, by simp [bne, hd]⟩)⟩
  · left
    exact ⟨rfl, List.mem_append_right _ (List.mem_filter.mpr ⟨List.mem_filter.mpr ⟨hx, hm⟩, hd⟩)⟩

/-- a maturing pass leaves an in-flight message in flight or files it in its destination's queue. -/
theorem process_mem {l : Link Env} {x : Sent Env} (hx : x ∈ l.sent) :
    (x ∈ l.processDeliverables.sent ∨ inQueue l.processDeliverables x) ∧
    (matured l.now x = false → x ∈ l.processDeliverables.sent) := by
  have hstay : matured l.now x = false → x ∈ l.processDeliverables.sent := by
    intro hm
    simp only [processDeliverables, List.mem_filter]
    exact ⟨hx, by rw [hm]; rfl⟩
  refine ⟨?_, hstay⟩
  cases hm : matured l.now x
  · exact Or.inl (hstay hm)
  · right
    unfold inQueue
    simp only [processDeliverables]
    cases hd : (x.dst == l.a)
    · right
      exact ⟨rfl, List.mem_append_right _ (List.mem_filter.mpr ⟨List.mem_filter.mpr ⟨hx, hm⟩, by simp [bne, hd]⟩)⟩
    · left
      exact ⟨rfl, List.mem_append_right _ (List.mem_filter.mpr ⟨List.mem_filter.mpr ⟨hx, hm⟩, hd⟩)⟩

theorem inQueue_frame {l l' : Link Env} {x : Sent Env} (h : inQueue l x) (ha : l'.a = l.a)
    (hA : ∀ y ∈ l.toA, y ∈ l'.toA) (hB : ∀ y ∈ l.toB, y ∈ l'.toB) : inQueue l' x := by
  unfold inQueue at h ⊢
  rw [ha]
  rcases h with ⟨h1, h2⟩ | ⟨h1, h2⟩
  · exact Or.inl ⟨h1, hA x h2⟩
  · exact Or.inr ⟨h1, hB x h2⟩

/-- **waiting for the turn**: a deliverable message stays in its queue under every operation, except
    that a drain hands it out. -/
theorem waits_gstep (cfg : Cfg) {l : Link Env} {x : Sent Env} (h : inQueue l x) (o : GOp)
    (hsafe : l.fixMatured = true → ¬ RecallOp o) :
    inQueue (gstep cfg l o).1 x ∨ x ∈ (gstep cfg l o).2 := by
  cases o with
  | enq cf cr d s t e =>
    left
    have q1 := randStep_queues cfg l cf cr
    have q2 := enqueueRaw_queues (randStep cfg l cf cr).1 d s t e
    refine inQueue_frame h (enqueue_ab cfg l cf cr d s t e).1 ?_ ?_
    · intro y hy
      show y ∈ ((randStep cfg l cf cr).1.enqueueRaw d s t e).1.processDeliverables.toA
      simp only [processDeliverables]
      rw [q2.1, q1.1]
      exact List.mem_append_left _ hy
    · intro y hy
      show y ∈ ((randStep cfg l cf cr).1.enqueueRaw d s t e).1.processDeliverables.toB
      simp only [processDeliverables]
      rw [q2.2.1, q1.2.1]
      exact List.mem_append_left _ hy
  | tick n =>
    left
    refine inQueue_frame h rfl ?_ ?_
    · intro y hy; exact List.mem_append_left _ hy
    · intro y hy; exact List.mem_append_left _ hy
  | drain n =>
    simp only [gstep]
    unfold inQueue at h ⊢
    unfold Link.drain
    split
    · rcases h with ⟨h1, h2⟩ | ⟨h1, h2⟩
      · exact Or.inr h2
      · exact Or.inl (Or.inr ⟨h1, h2⟩)
    · split
      · rcases h with ⟨h1, h2⟩ | ⟨h1, h2⟩
        · exact Or.inl (Or.inl ⟨h1, h2⟩)
        · exact Or.inr h2
      · exact Or.inl h
  | ctl c =>
    left
    exact inQueue_frame h (ctl_ab c l).1 (fun y hy => by show y ∈ (c.fn l).1.toA; rw [(ctl_queues c l hsafe).1]; exact hy)
      (fun y hy => by show y ∈ (c.fn l).1.toB; rw [(ctl_queues c l hsafe).2]; exact hy)

theorem waits_grun (cfg : Cfg) {l : Link Env} {x : Sent Env} (h : inQueue l x) (ops : List GOp)
    (hsafe : l.fixMatured = true → ∀ o ∈ ops, ¬ RecallOp o) :
    inQueue (grun cfg l ops).1 x ∨ x ∈ (grun cfg l ops).2 := by
  induction ops generalizing l with
  | nil => exact Or.inl h
  | cons o ops ih =>
    rw [grun_cons]
    rcases waits_gstep cfg h o (fun hf => hsafe hf o (by simp)) with h1 | h1
    · rcases ih h1 (fun hf o' ho' => hsafe (by rw [← gstep_flag cfg l o]; exact hf) o' (by simp [ho'])) with h2 | h2
      · exact Or.inl h2
      · exact Or.inr (List.mem_append_right _ h2)
    · exact Or.inr (List.mem_append_left _ h1)

/-- the host with ip number `n` is the one message `x` waits for. -/
def Receiver (l : Link Env) (x : Sent Env) (n : Nat) : Prop :=
  ((x.dst == l.a) = true ∧ n = l.a) ∨ ((x.dst == l.a) = false ∧ n = l.b ∧ l.a ≠ l.b)

/-- the receiver's drain hands the message out. -/
theorem drain_receiver {l : Link Env} {x : Sent Env} {n : Nat} (h : inQueue l x) (hr : Receiver l x n) : x ∈ (l.drain n).2 := by
  unfold inQueue at h
  unfold Receiver at hr
  unfold Link.drain
  rcases hr with ⟨r1, rfl⟩ | ⟨r1, rfl, hab⟩
  · rcases h with ⟨_, h2⟩ | ⟨h1, _⟩
    · simpa using h2
    · rw [r1] at h1; cases h1
  · have : (l.b == l.a) = false := by simpa using fun e => hab e.symm
    rcases h with ⟨h1, _⟩ | ⟨_, h2⟩
    · rw [r1] at h1; cases h1
    · simpa [this] using h2

/-! ### lists without ticks (every step but `stepBegin`) -/

theorem matured_grun_noTick (cfg : Cfg) {l : Link Env} (h : Matured l) (ops : List GOp) (hnt : ∀ o ∈ ops, ¬ o.isTick) :
    Matured (grun cfg l ops).1 ∧ ∀ y ∈ (grun cfg l ops).2, ∃ t, y.status = .after t ∧ t ≤ l.now := by
  induction ops generalizing l with
  | nil => exact ⟨h, fun _ hy => by cases hy⟩
  | cons o ops ih =>
    rw [grun_cons]
    have hno : ¬ o.isTick := hnt o (by simp)
    have h1 := matured_gstep cfg h o (fun n e => by subst e; exact absurd trivial hno)
    have h2 := ih h1.1 (fun o' ho' => hnt o' (by simp [ho']))
    rw [gstep_now cfg l o hno] at h2
    refine ⟨h2.1, fun y hy => ?_⟩
    rcases List.mem_append.mp hy with hy | hy
    · exact h1.2 y hy
    · exact h2.2 y hy

theorem stays_grun_noTick (cfg : Cfg) {l : Link Env} {x : Sent Env} {T : Nat} (hx : x ∈ l.sent) (hs : x.status = .after T)
    (ops : List GOp) (hok : ∀ o ∈ ops, FlowOk o ∧ o.noFail ∧ ¬ o.isTick) (hlt : l.now < T) : x ∈ (grun cfg l ops).1.sent := by
  induction ops generalizing l with
  | nil => exact hx
  | cons o ops ih =>
    rw [grun_cons]
    obtain ⟨h1, h2, h3⟩ := hok o (by simp)
    have hn := gstep_now cfg l o h3
    exact ih (stays_gstep cfg hx hs o h1 h2 (by rw [hn]; exact hlt)) (fun o' ho' => hok o' (by simp [ho'])) (by rw [hn]; exact hlt)

/-! ### FIFO: the run-level invariant of `Proofs/LinkFifo.lean` for World-level operations -/

/-- the deliverable queues are filed by destination, as `process_deliverables` does. -/
def Filed (l : Link Env) : Prop := (∀ y ∈ l.toA, (y.dst == l.a) = true) ∧ (∀ y ∈ l.toB, (y.dst == l.a) = false)

/-- what has been handed to end point `a` / to the other end point so far. -/
def outA (l : Link Env) (H : List (Sent Env)) : List (Sent Env) := H.filter (fun y => y.dst == l.a)
def outB (l : Link Env) (H : List (Sent Env)) : List (Sent Env) := H.filter (fun y => y.dst != l.a)

/-- the FIFO invariant of a link together with everything it has handed out. -/
structure FifoInv (a : Nat) (l : Link Env) (H : List (Sent Env)) : Prop where
  ea : l.a = a
  filed : Filed l
  finv : FInv ({ l := l, outA := H.filter (fun y => y.dst == a), outB := H.filter (fun y => y.dst != a) } : FState Env)

/-- operations of the C14 alphabet: everything but hold / release / manual delivery. -/
def C14Ok : GOp → Prop
  | .ctl .hold => False
  | .ctl .release => False
  | .ctl (.manual _) => False
  | _ => True

theorem filed_process {l : Link Env} (h : Filed l) : Filed l.processDeliverables := by
  refine ⟨fun y hy => ?_, fun y hy => ?_⟩
  · simp only [processDeliverables, List.mem_append, List.mem_filter] at hy
    rcases hy with hy | hy
    · exact h.1 y hy
    · exact hy.2
  · simp only [processDeliverables, List.mem_append, List.mem_filter] at hy
    show (y.dst == l.a) = false
    rcases hy with hy | hy
    · exact h.2 y hy
    · simpa [bne] using hy.2

theorem filed_frame {l l' : Link Env} (h : Filed l) (ha : l'.a = l.a) (hA : l'.toA = l.toA) (hB : l'.toB = l.toB) : Filed l' := by
  unfold Filed; rw [ha, hA, hB]; exact h

theorem filter_eq_self' {α : Type} (p : α → Bool) (l : List α) (h : ∀ y ∈ l, p y = true) : l.filter p = l :=
  List.filter_eq_self.mpr h
theorem filter_eq_nil' {α : Type} (p : α → Bool) (l : List α) (h : ∀ y ∈ l, p y = false) : l.filter p = [] :=
  List.filter_eq_nil_iff.mpr (fun y hy => by simp [h y hy])

/-- re-wrap an `FInv` after a change of the link that `Proofs/LinkFifo.lean` already covers. -/
theorem fifo_of_finv {a : Nat} {l' : Link Env} {H : List (Sent Env)} (ha : l'.a = a) (hf : Filed l')
    (h : FInv ({ l := l', outA := H.filter (fun y => y.dst == a), outB := H.filter (fun y => y.dst != a) } : FState Env)) :
    FifoInv a l' H := ⟨ha, hf, h⟩

theorem fifo_gstep (cfg : Cfg) {a : Nat} {l : Link Env} {H : List (Sent Env)} (h : FifoInv a l H) (o : GOp) (ho : C14Ok o) :
    FifoInv a (gstep cfg l o).1 (H ++ (gstep cfg l o).2) := by
  obtain ⟨ea, hfiled, hf⟩ := h
  cases o with
  | enq cf cr d s t e =>
    have q1 := randStep_queues cfg l cf cr
    have q2 := enqueueRaw_queues (randStep cfg l cf cr).1 d s t e
    have hab := (randStep_ab cfg l cf cr)
    have hab2 := enqueueRaw_ab (randStep cfg l cf cr).1 d s t e
    have f2 : Filed ((randStep cfg l cf cr).1.enqueueRaw d s t e).1 :=
      filed_frame hfiled (hab2.1.trans hab.1) (q2.1.trans q1.1) (q2.2.1.trans q1.2.1)
    refine fifo_of_finv ((enqueue_ab cfg l cf cr d s t e).1.trans ea) (filed_process f2) ?_
    simp only [gstep, List.append_nil]
    exact finv_enqueue cfg hf cf cr d s t e
  | tick n =>
    refine fifo_of_finv ea (filed_process (l := { l with now := n }) hfiled) ?_
    simp only [gstep, List.append_nil]
    exact finv_tick hf n
  | drain n =>
    simp only [gstep]
    unfold Link.drain
    split
    · -- towards a
      have e1 : (H ++ l.toA).filter (fun y => y.dst == a) = H.filter (fun y => y.dst == a) ++ l.toA := by
        rw [List.filter_append, filter_eq_self' _ l.toA (fun y hy => by rw [← ea]; exact hfiled.1 y hy)]
      have e2 : (H ++ l.toA).filter (fun y => y.dst != a) = H.filter (fun y => y.dst != a) := by
        rw [List.filter_append, filter_eq_nil' _ l.toA (fun y hy => by rw [← ea]; simp [bne, hfiled.1 y hy]), List.append_nil]
      refine fifo_of_finv ea ⟨fun _ hy => (by cases hy), hfiled.2⟩ ?_
      simp only [e1, e2]
      exact finv_drainA hf
    · split
      · have e1 : (H ++ l.toB).filter (fun y => y.dst == a) = H.filter (fun y => y.dst == a) := by
          rw [List.filter_append, filter_eq_nil' _ l.toB (fun y hy => by rw [← ea]; exact hfiled.2 y hy), List.append_nil]
        have e2 : (H ++ l.toB).filter (fun y => y.dst != a) = H.filter (fun y => y.dst != a) ++ l.toB := by
          rw [List.filter_append, filter_eq_self' _ l.toB (fun y hy => by rw [← ea]; simp [bne, hfiled.2 y hy])]
        refine fifo_of_finv ea ⟨hfiled.1, fun _ hy => (by cases hy)⟩ ?_
        simp only [e1, e2]
        exact finv_drainB hf
      · refine fifo_of_finv ea hfiled ?_
        simpa using hf
  | ctl c =>
    have hq := ctl_queues_sub c l
    have hab := ctl_ab c l
    have hfiled' : Filed (c.fn l).1 := by
      refine ⟨fun y hy => ?_, fun y hy => ?_⟩
      · rw [hab.1]; exact hfiled.1 y (hq.1.subset hy)
      · rw [hab.1]; exact hfiled.2 y (hq.2.subset hy)
    refine fifo_of_finv (hab.1.trans ea) hfiled' ?_
    simp only [gstep, List.append_nil]
    cases c with
    | partition =>
      obtain ⟨_, _, es, e1, e2, _, _, sA, sB, _, en, _⟩ := Link.explicitPartition_fields l
      show FInv { l := l.explicitPartition.1, outA := _, outB := _ }
      exact finv_sublist3 hf _ (by rw [es]; exact List.nil_sublist _) sA sB en (by rw [e1]; decide) (by rw [e2]; decide)
    | repair =>
      exact finv_sublist hf _ (List.Sublist.refl _) .healthy .healthy (by decide) (by decide) false false
    | partitionOneway s d =>
      obtain ⟨_, _, es, e1, e2, _, _, sA, sB, _, en, _⟩ := Link.partitionOneway_fields l s d
      show FInv { l := (l.partitionOneway s d).1, outA := _, outB := _ }
      refine finv_sublist3 hf _ (by rw [es]; exact List.filter_sublist) sA sB en ?_ ?_
      · rw [e1]; split
        · decide
        · exact hf.nhAB
      · rw [e2]; split
        · exact hf.nhBA
        · decide
    | repairOneway s d =>
      simp only [Ctl.fn, Link.repairOneway]
      split
      · exact finv_sublist hf _ (List.Sublist.refl _) .healthy _ (by decide) hf.nhBA false _
      · exact finv_sublist hf _ (List.Sublist.refl _) _ .healthy hf.nhAB (by decide) _ false
    | hold => exact absurd ho (by simp [C14Ok])
    | release => exact absurd ho (by simp [C14Ok])
    | manual i => exact absurd ho (by simp [C14Ok])

theorem fifo_grun (cfg : Cfg) {a : Nat} {l : Link Env} {H : List (Sent Env)} (h : FifoInv a l H) (ops : List GOp)
    (ho : ∀ o ∈ ops, C14Ok o) : FifoInv a (grun cfg l ops).1 (H ++ (grun cfg l ops).2) := by
  induction ops generalizing l H with
  | nil => simpa using h
  | cons o ops ih =>
    rw [grun_cons]
    have := ih (fifo_gstep cfg h o (ho o (by simp))) (fun o' ho' => ho o' (by simp [ho']))
    simpa [List.append_assoc] using this

theorem fifo_init (a b now : Nat) (fm : Bool := false) : FifoInv a ({ a := a, b := b, now := now, fixMatured := fm } : Link Env) [] := by
  refine ⟨rfl, ⟨fun _ hy => (by cases hy), fun _ hy => (by cases hy)⟩, ?_⟩
  refine ⟨?_, ?_, ?_, ?_, ?_, ?_, ?_, ?_, ?_, ?_, ?_⟩ <;> simp

end TV.LW
