import TvCore.Proofs.C02FlowTx
/-
  C02, flow control — a read by the direction's read half.
-/
namespace TV.C02
open TV TV.World

/-- the channel loses its head; `k` credits go back (1 for a data segment, 0 for the FIN). -/
def popK (D : Dir) (w : World) (rest : List Seg) (k : Nat) : World :=
  { w.setChan D.c (fun c => { c with items := rest }) with fcs := setAt w.fcs D.f (· + k) }

theorem popK_facts (D : Dir) (w : World) (seg : Seg) (rest : List Seg) (k : Nat) (hp : Pre D w) (hr : RdOk D w)
    (hit : (w.chan! D.c).items = seg :: rest) (hk : k = if seg.isData then 1 else 0) :
    tot D (popK D w rest k) = tot D w ∧ Pre D (popK D w rest k) ∧ RdOk D (popK D w rest k) := by
  have e1 : (popK D w rest k).credits D.f = w.credits D.f + k := by
    unfold World.credits popK
    exact setAt_getD _ _ _ _ hp.fIn
  have e2 : (popK D w rest k).chan! D.c = { w.chan! D.c with items := rest } := chanD_setChan_self w D.c _ hp.cIn
  have e3 : (popK D w rest k).host! D.b = w.host! D.b := rfl
  refine ⟨?_, ⟨⟨hp.noFail, ?_, ?_⟩, by rw [e3]; exact hp.2⟩, ⟨by rw [e2]; exact hr.1, by rw [e3]; exact hr.2⟩⟩
  · unfold tot queued
    rw [e1, e2, parked_eq, parked_eq, e3]
    show w.credits D.f + k + netFl D w + loFl D w + _ + dataSegs rest = w.credits D.f + netFl D w + loFl D w + _ + _
    rw [hit]
    unfold dataSegs
    simp only [List.countP_cons]
    rw [hk]
    omega
  · show D.f < (setAt w.fcs D.f (· + k)).length
    rw [setAt_length]; exact hp.fIn
  · show D.c < (setAt w.chans D.c _).length
    rw [setAt_length]; exact hp.cIn

/-- **a read (or peek) by the direction's read half**: whatever it finds — closed, stash, empty channel, a data
    segment (one credit goes back as the segment leaves the channel, then the re-drain), the FIN — the
    balance is kept. -/
theorem tot_opTcpRead_mine (D : Dir) (w : World) (s n : Nat) (peek : Bool) (r : RdH) (wr : Option WrH)
    (hp : Pre D w) (hr : RdOk D w) (hobj : w.getObj D.b s = some (.stream (some r) wr))
    (hc : r.chan = D.c) (hf : r.fc = D.f) (hloc : r.loc = D.rem) (hrem : r.rem = D.loc) :
    tot D (w.opTcpRead D.b s n peek).1 = tot D w ∧ Pre D (w.opTcpRead D.b s n peek).1 ∧
    RdOk D (w.opTcpRead D.b s n peek).1 := by
  have viaQ : ∀ {W : World}, Q D w W → tot D W = tot D w ∧ Pre D W ∧ RdOk D W := fun q =>
    ⟨tot_q q hp, q.pre hp, RdOk.of_view (q.view hp) hr⟩
  by_cases hz : r.closed = true ∨ n = 0
  · rw [opTcpRead_idle w D.b s n peek r wr hobj hz]; exact ⟨rfl, hp, hr⟩
  · have hcl : r.closed = false := by
      cases hcc : r.closed with
      | false => rfl
      | true => exact absurd (Or.inl hcc) hz
    have hn : n ≠ 0 := fun e => hz (Or.inr e)
    cases hst : r.stash with
    | some b =>
      rw [opTcpRead_stash w D.b s n peek r wr b hobj hcl hn hst]
      cases peek
      · exact viaQ (q_setObj D w _ _ _)
      · exact ⟨rfl, hp, hr⟩
    | none =>
      cases hit : (w.chan! r.chan).items with
      | nil =>
        rw [opTcpRead_empty w D.b s n peek r wr hobj hcl hn hst hit]
        split
        · exact ⟨rfl, hp, hr⟩
        · exact viaQ (q_tag D w _)
      | cons seg rest =>
        have hit' : (w.chan! D.c).items = seg :: rest := by rw [← hc]; exact hit
        cases seg with
        | data b =>
          rw [opTcpRead_data w D.b s n peek r wr b rest hobj hcl hn hst hit]
          simp only
          have hpk : popW w r rest = popK D w rest 1 := by unfold popW popK; rw [hc, hf]
          rw [hpk]
          obtain ⟨t1, p1, r1⟩ := popK_facts D w (.data b) rest 1 hp hr hit' rfl
          have q2 : Q D (popK D w rest 1) ((if hexLen b > n then (popK D w rest 1).tag "partialread" else popK D w rest 1).setObj D.b s
              (.stream (some { r with stash := if peek then some b else stashAfter b n }) wr)) :=
            (Q.ite _ (q_tag D _ _) (Q.refl D _)).trans (q_setObj D _ _ _ _)
          have p2 := q2.pre p1
          have r2 := RdOk.of_view (q2.view p1) r1
          have t2 := tot_q q2 p1
          obtain ⟨t3, p3, r3⟩ := tot_redrain_ours D _ r p2 r2 hloc hrem
          exact ⟨by rw [t3, t2, t1], p3, r3⟩
        | fin =>
          rw [opTcpRead_fin w D.b s n peek r wr rest hobj hcl hn hst hit]
          simp only
          have hpk : w.setChan r.chan (fun c => { c with items := rest }) = popK D w rest 0 := by
            unfold popK
            rw [hc]
            have : setAt w.fcs D.f (· + 0) = w.fcs := by
              have h0 : (fun x : Nat => x + 0) = fun x => x := rfl
              rw [h0]; exact C09.setAt_id' _ _
            rw [this]
            rfl
          rw [hpk]
          obtain ⟨t1, p1, r1⟩ := popK_facts D w .fin rest 0 hp hr hit' rfl
          have q2 : Q D (popK D w rest 0) (((popK D w rest 0).setObj D.b s (.stream (some { r with closed := true }) wr)).tag "eof") :=
            (q_setObj D _ _ _ _).tag _
          have p2 := q2.pre p1
          have r2 := RdOk.of_view (q2.view p1) r1
          have t2 := tot_q q2 p1
          obtain ⟨t3, p3, r3⟩ := tot_redrain_ours D _ r p2 r2 hloc hrem
          exact ⟨by rw [t3, t2, t1], p3, r3⟩

end TV.C02
