import TvCore.Model.Types
namespace TV
variable {α : Type}

@[simp] theorem setAt_length (l : List α) (i : Nat) (f : α → α) : (setAt l i f).length = l.length := by
  induction l generalizing i with
  | nil => rfl
  | cons x xs ih => cases i <;> simp [setAt, ih]

theorem setAt_getD (l : List α) (i : Nat) (f : α → α) (d : α) (h : i < l.length) :
    (setAt l i f).getD i d = f (l.getD i d) := by
  induction l generalizing i with
  | nil => simp at h
  | cons x xs ih =>
    cases i with
    | zero => simp [setAt, List.getD]
    | succ k =>
      have := ih k (by simpa using h)
      simpa [setAt, List.getD] using this

theorem findIdx?_setAt (l : List α) (i : Nat) (f : α → α) (p : α → Bool) (hp : ∀ s, p (f s) = p s) :
    (setAt l i f).findIdx? p = l.findIdx? p := by
  induction l generalizing i with
  | nil => rfl
  | cons x xs ih =>
    cases i with
    | zero => simp [setAt, List.findIdx?_cons, hp]
    | succ k => simp [setAt, List.findIdx?_cons, ih k]

theorem mem_setAt (l : List α) (i : Nat) (f : α → α) (y : α) (h : y ∈ setAt l i f) :
    y ∈ l ∨ ∃ x ∈ l, y = f x := by
  induction l generalizing i with
  | nil => simp [setAt] at h
  | cons x xs ih =>
    cases i with
    | zero =>
      simp only [setAt, List.mem_cons] at h
      rcases h with h | h
      · exact Or.inr ⟨x, by simp, h⟩
      · exact Or.inl (by simp [h])
    | succ k =>
      simp only [setAt, List.mem_cons] at h
      rcases h with h | h
      · exact Or.inl (by simp [h])
      · rcases ih k h with h | ⟨z, hz, e⟩
        · exact Or.inl (by simp [h])
        · exact Or.inr ⟨z, by simp [hz], e⟩

theorem pairwise_setAt (l : List α) (i : Nat) (f : α → α) (R : α → α → Prop)
    (hl : ∀ a b, R a b → R (f a) b) (hr : ∀ a b, R a b → R a (f b)) (h : l.Pairwise R) :
    (setAt l i f).Pairwise R := by
  induction l generalizing i with
  | nil => simp [setAt]
  | cons x xs ih =>
    have hx := List.pairwise_cons.mp h
    cases i with
    | zero =>
      simp only [setAt]
      exact List.pairwise_cons.mpr ⟨fun y hy => hl _ _ (hx.1 y hy), hx.2⟩
    | succ k =>
      simp only [setAt]
      refine List.pairwise_cons.mpr ⟨?_, ih k hx.2⟩
      intro y hy
      rcases mem_setAt xs k f y hy with hy | ⟨z, hz, rfl⟩
      · exact hx.1 y hy
      · exact hr _ _ (hx.1 z hz)

end TV
