import TvCore.Proofs.C09WorldLinks
/-
  C09 end to end, part 4 — `TR` for every function host calls and destructors are made of: what a host
  call, a crash or a bounce newly queues is at most the records of `sentRecs` (a `send_to` call) and
  nothing at all otherwise; no socket queue gains a datagram.
-/
namespace TV.C09
open TV TV.World TV.C04 TV.LW

/-! ### keys -/

theorem count_net_singleton (d d' : Nat) (e e' : Env) :
    ([(Place.net d, e)] : List Key).count (Place.net d', e') = ([(d, e)] : List (Nat × Env)).count (d', e') := by
  simp only [List.count_singleton]
  by_cases hd : d = d' <;> by_cases he : e = e' <;> simp [hd, he]

theorem count_net_lo (d i : Nat) (e e' : Env) : ([(Place.net d, e)] : List Key).count (Place.lo i, e') = 0 := by
  simp

theorem count_lo_singleton (h i : Nat) (e e' : Env) :
    ([(Place.lo h, e)] : List Key).count (Place.lo i, e') = if i = h then ([e] : List Env).count e' else 0 := by
  simp only [List.count_singleton]
  by_cases hh : i = h <;> by_cases he : e = e' <;> simp [hh, he]
  all_goals (intro h'; exact absurd h'.symm hh)

theorem ipnumOf_nums (w : World) (ip : Ip) :
    w.ipnumOf ip = match ip with | .host i => (w.hosts.map (·.ipnum))[i]? | _ => none := by
  cases ip <;> simp [ipnumOf]

theorem ipnumOf_of_nums {w w' : World} (h : w'.hosts.map (·.ipnum) = w.hosts.map (·.ipnum)) (ip : Ip) :
    w'.ipnumOf ip = w.ipnumOf ip := by
  rw [ipnumOf_nums, ipnumOf_nums, h]

theorem netRecs_congr {w w' : World} (h : w'.hosts.map (·.ipnum) = w.hosts.map (·.ipnum)) (i : Nat) (e : Env) :
    netRecs w' i e = netRecs w i e := by
  unfold netRecs; rw [ipnumOf_of_nums h, ipnumOf_of_nums h]

theorem fanRec_congr {w w' : World} (h : w'.hosts.map (·.ipnum) = w.hosts.map (·.ipnum)) (i : Nat) (src : Addr) (p : Hex)
    (loopOk : Addr → Bool) (d : Addr) : fanRec w' i src p loopOk d = fanRec w i src p loopOk d := by
  unfold fanRec; rw [netRecs_congr h]

/-! ### the sending primitives -/

theorem flightCount_lo (w : World) (i : Nat) (e : Env) : flightCount w (Place.lo i, e) = (w.host! i).lo.count e := rfl
theorem flightCount_net (w : World) (d : Nat) (e : Env) : flightCount w (Place.net d, e) = (netKeys w).count (d, e) := rfl

/-- **`Link::enqueue_message`**: at most the one envelope, addressed to ip number `d`, is newly on a link. -/
theorem tr_linkEnqueue (w : World) (li s d : Nat) (e : Env) : TR [(Place.net d, e)] w (w.linkEnqueue li s d e) := by
  have hh := hosts_linkEnqueue w li s d e
  refine ⟨fun k _ => ?_, by rw [hh], fun i => QSub.of_eq (by unfold host!; rw [hh]), cfg_linkEnqueue w li s d e⟩
  obtain ⟨pl, x⟩ := k
  cases pl with
  | lo i =>
    rw [flightCount_lo, flightCount_lo, count_net_lo]
    unfold host!; rw [hh]; exact Nat.le_refl _
  | net d' =>
    rw [flightCount_net, flightCount_net, count_net_singleton]
    cases hl : w.links[li]? with
    | none =>
      have : w.linkEnqueue li s d e = w := by unfold linkEnqueue; simp only [hl]
      rw [this]; omega
    | some l =>
      obtain ⟨cr, dl, hlinks, _⟩ := linkEnqueue_spec w li s d e l hl
      unfold netKeys
      rw [hlinks]
      have h1 := count_flatMap_setAt linkKeys w.links li (fun _ => (l.enqueue w.cfg.link w.popFail.1 cr dl s d e).1) l (d', x) hl
      have h2 := lk_enqueue w.cfg.link l w.popFail.1 cr dl s d e (d', x)
      omega

/-- **`send_loopback`**: exactly the one envelope is newly on the host's loopback queue. -/
theorem tr_sendLoopback (w : World) (h : Nat) (e : Env) : TR [(Place.lo h, e)] w (w.sendLoopback h e) := by
  unfold sendLoopback
  refine TR.tag ?_ _
  have hhost : ∀ i, (w.setHost h (fun hs => { hs with lo := hs.lo ++ [e] })).host! i =
      if i = h ∧ h < w.hosts.length then { w.host! h with lo := (w.host! h).lo ++ [e] } else w.host! i :=
    fun i => host!_setHost_eq w h _ i
  refine ⟨fun k _ => ?_, map_setAt _ _ _ _ (fun _ => rfl), fun i => QSub.of_eq ?_, rfl⟩
  · obtain ⟨pl, x⟩ := k
    cases pl with
    | lo i =>
      rw [flightCount_lo, flightCount_lo, count_lo_singleton, hhost]
      split
      · next c => obtain ⟨rfl, _⟩ := c; simp only [List.count_append, if_true]; exact Nat.le_refl _
      · exact Nat.le_add_right _ _
    | net d => rw [flightCount_net, flightCount_net]; exact Nat.le_add_right _ _
  · rw [hhost]; split
    · next c => obtain ⟨rfl, _⟩ := c; rfl
    · rfl

/-- **`World::send_message`** for an envelope sent by host `h`. -/
theorem tr_sendMessage (w : World) (h : Nat) (e : Env) : TR ((netRecs w h e).map SendRec.key) w (w.sendMessage e).2 := by
  unfold sendMessage netRecs
  cases hs : w.ipnumOf e.src.ip with
  | none => exact tr_dropEnvs w [e]
  | some s =>
    cases hd : w.ipnumOf e.dst.ip with
    | none => exact tr_dropEnvs w [e]
    | some d =>
      simp only
      split
      · exact tr_dropEnvs w [e]
      · split
        · exact tr_linkEnqueue w _ s d e
        · exact (tr_dropEnvs w [e]).mono (fun _ _ => Nat.zero_le _)

/-- what `netSend` of envelope `e` from host `h` can queue. -/
def sendKeys (w : World) (h : Nat) (e : Env) : List Key :=
  if isSame e.src e.dst then [(Place.lo h, e)] else (netRecs w h e).map SendRec.key

theorem tr_netSend (w : World) (h : Nat) (e : Env) : TR (sendKeys w h e) w (w.netSend h e).2 := by
  unfold netSend sendKeys
  split
  · exact tr_sendLoopback w h e
  · exact tr_sendMessage w h e

theorem sendKeys_env (w : World) (h : Nat) (e : Env) : ∀ k ∈ sendKeys w h e, k.2 = e := by
  intro k hk
  unfold sendKeys at hk
  split at hk
  · simp only [List.mem_singleton] at hk; rw [hk]
  · obtain ⟨r, hr, rfl⟩ := List.mem_map.mp hk
    unfold netRecs at hr
    split at hr
    · split at hr
      · cases hr
      · simp only [List.mem_singleton] at hr; rw [hr]; rfl
    · cases hr

/-- a TCP segment, a SYN, a RST: nothing that counts. -/
theorem tr_netSend_tcp (w : World) (h : Nat) (e : Env) (he : isUdp e = false) : TR [] w (w.netSend h e).2 :=
  (tr_netSend w h e).drop (fun k hk => by rw [sendKeys_env w h e k hk]; exact he)

/-! ### `send_to` -/

/-- **the fan-out**: one record per destination at most, in order. -/
theorem tr_udpFanout (w0 : World) (h : Nat) (src : Addr) (p : Hex) (loopOk : Addr → Bool) (ds : List Addr) (w : World)
    (hn : w.hosts.map (·.ipnum) = w0.hosts.map (·.ipnum)) :
    TR ((ds.flatMap (fanRec w0 h src p loopOk)).map SendRec.key) w (udpFanout w h src p loopOk ds).1 := by
  induction ds generalizing w with
  | nil => exact TR.refl w
  | cons d ds ih =>
    unfold udpFanout
    simp only [List.flatMap_cons, List.map_append]
    by_cases hip : (src.ip == d.ip) = true
    · simp only [hip, if_true]
      cases hl : loopOk d
      · have e : (fanRec w0 h src p loopOk d).map SendRec.key = [] := by unfold fanRec; simp [hip, hl]
        rw [e]
        exact (TR.refl w).trans (ih w hn)
      · have e : (fanRec w0 h src p loopOk d).map SendRec.key = [(Place.lo h, mkEnv src p d)] := by
          unfold fanRec; simp [hip, hl, SendRec.key]
        rw [e]
        simp only [if_true]
        have h1 := tr_sendLoopback w h (mkEnv src p d)
        exact h1.trans (ih _ (h1.nums.trans hn))
    · have e : fanRec w0 h src p loopOk d = netRecs w h (mkEnv src p d) := by
        unfold fanRec; rw [if_neg hip, netRecs_congr hn]
      rw [e]
      simp only [hip, Bool.false_eq_true, if_false]
      have h1 := tr_sendMessage w h (mkEnv src p d)
      split
      · exact h1.trans (ih _ (h1.nums.trans hn))
      · exact h1.mono (fun k _ => by rw [List.count_append]; exact Nat.le_add_right _ _)

theorem nums_tag (w : World) (t : String) : (w.tag t).hosts.map (·.ipnum) = w.hosts.map (·.ipnum) := by rw [hosts_tag]

/-- **`UdpSocket::send_to`**: what is newly queued is, at most once per position, one of the records of
    `sentRecs`. -/
theorem tr_opUdpSend (w : World) (h s : Nat) (dst : Addr) (p : Hex) :
    TR ((sentRecs w h s dst p).map SendRec.key) w (w.opUdpSend h s dst p).1 := by
  have hbad : (∀ loc stash, w.getObj h s ≠ some (.udp loc stash)) →
      TR ((sentRecs w h s dst p).map SendRec.key) w (w.opUdpSend h s dst p).1 := by
    intro hno
    have e1 : (w.opUdpSend h s dst p).1 = w := by
      unfold opUdpSend
      split
      · rename_i loc stash ho; exact absurd ho (hno loc stash)
      · rfl
    have e2 : sentRecs w h s dst p = [] := by
      unfold sentRecs
      split
      · rename_i loc stash ho; exact absurd ho (hno loc stash)
      · rfl
    rw [e1, e2]
    exact TR.refl w
  cases ho : w.getObj h s with
  | none => exact hbad (fun _ _ => by simp [ho])
  | some o =>
    cases o with
    | listener _ => exact hbad (fun _ _ => by simp [ho])
    | connecting _ _ _ _ _ => exact hbad (fun _ _ => by simp [ho])
    | stream _ _ => exact hbad (fun _ _ => by simp [ho])
    | udp loc stash =>
      rw [opUdpSend_udp w h s dst p loc stash ho]
      unfold sentRecs
      simp only [ho]
      split
      · split
        · exact (tr_tag w "bcast").nil_trans (tr_udpFanout w h _ p _ _ (w.tag "bcast") (nums_tag w _))
        · exact TR.refl w
      · split
        · exact (tr_tag w "mcast").nil_trans (tr_udpFanout w h _ p _ _ (w.tag "mcast") (nums_tag w _))
        · have := tr_netSend w h (mkEnv (udpSrc h loc dst) p dst)
          unfold sendKeys at this
          show TR _ w (w.netSend h (mkEnv (udpSrc h loc dst) p dst)).2
          by_cases hsame : isSame (udpSrc h loc dst) dst = true
          · rw [if_pos hsame]
            rw [if_pos (show isSame (mkEnv (udpSrc h loc dst) p dst).src (mkEnv (udpSrc h loc dst) p dst).dst = true from hsame)] at this
            exact this
          · rw [if_neg hsame]
            rw [if_neg (show ¬ isSame (mkEnv (udpSrc h loc dst) p dst).src (mkEnv (udpSrc h loc dst) p dst).dst = true from hsame)] at this
            exact this

/-! ### functions that queue nothing -/

theorem tr_world {w w' : World} (hl : w'.links = w.links) (hc : w'.cfg = w.cfg) (hh : w'.hosts = w.hosts) : TR [] w w' :=
  TR.of_hosts hl hc hh

theorem tr_assignPort (w : World) (h : Nat) : TR [] w (w.assignPort h).2 := by
  unfold assignPort
  simp only
  have h1 := tr_setHost_eq w h (fun hs => { hs with nextEph := (assignEphemeral w.cfg.ephLo w.cfg.ephHi
    (fun p => udpPortUsed (w.host! h) p || tcpPortUsed (w.host! h) p) (w.host! h).nextEph).2 })
    (by intro; rfl) (by intro; rfl) (by intro; rfl)
  have h2 := TR.ite (w := w) ((assignEphemeral w.cfg.ephLo w.cfg.ephHi
    (fun p => udpPortUsed (w.host! h) p || tcpPortUsed (w.host! h) p) (w.host! h).nextEph).2 ≤ (w.host! h).nextEph)
    (h1.tag "wrap") h1
  split
  · exact h2
  · exact h2.trans_nil (tr_panic _ _)

theorem tr_removeSock (w : World) (h : Nat) (loc rem : Addr) : TR [] w (w.removeSock h loc rem) := by
  unfold removeSock
  split
  · exact TR.refl w
  · exact (tr_setHost_eq w h _ (by intro; rfl) (by intro; rfl) (by intro; rfl)).trans_nil (tr_setChan _ _ _)

theorem tr_closeStreamHalf (w : World) (h : Nat) (loc rem : Addr) : TR [] w (w.closeStreamHalf h loc rem) := by
  unfold closeStreamHalf
  simp only
  split
  · exact (tr_setHost_eq w h _ (by intro; rfl) (by intro; rfl) (by intro; rfl)).trans_nil (tr_setChan _ _ _)
  · exact tr_setHost_eq w h _ (by intro; rfl) (by intro; rfl) (by intro; rfl)

theorem tr_newStream (w : World) (h : Nat) (loc rem : Addr) : TR [] w (w.newStream h loc rem).2 := by
  unfold newStream newChan newFcPair
  simp only
  refine TR.trans_nil ?_ (tr_setHost_eq _ h _ (by intro; rfl) (by intro; rfl) (by intro; rfl))
  refine TR.trans_nil (b := if (findSock (w.host! h) loc rem).isSome = true then w.panic "already connected" else w) ?_
    (tr_world rfl rfl rfl)
  exact TR.ite _ (tr_panic _ _) (TR.refl _)

theorem tr_mgLeaveAll (w : World) (m : Addr) : TR [] w (w.mgLeaveAll m) := tr_world rfl rfl rfl

theorem tr_udpUnbind (w : World) (h port : Nat) : TR [] w (w.udpUnbind h port) := by
  unfold udpUnbind
  refine TR.nil_trans (b := if (w.host! h).udp.any (·.port == port) = true then w else w.panic "unknown bind") ?_ ?_
  · exact TR.ite _ (TR.refl _) (tr_panic _ _)
  · exact tr_setHost _ h _ (by exact ⟨rfl, fun _ _ => Nat.le_refl _, qsub_filter _ _⟩)

theorem tr_foldl_dropSyn (l : List SynReq) (w : World) : TR [] w (l.foldl (fun w s => w.dropSyn s.id) w) :=
  TR.foldl _ (fun w s => tr_dropSyn w s.id) l w

theorem tr_tcpUnbind (w : World) (h port : Nat) : TR [] w (w.tcpUnbind h port) := by
  unfold tcpUnbind
  split
  · exact tr_panic _ _
  · exact (tr_setHost_eq w h _ (by intro; rfl) (by intro; rfl) (by intro; rfl)).trans_nil (tr_foldl_dropSyn _ _)

theorem tr_dropRead (w : World) (h : Nat) (r : RdH) : TR [] w (w.dropRead h r) := by
  unfold dropRead
  simp only
  refine TR.nil_trans (tr_setChan w r.chan _) (TR.ite _ ?_ (tr_closeStreamHalf _ _ _ _))
  exact ((tr_netSend_tcp _ h _ rfl).trans_nil (tr_removeSock _ _ _ _)).tag _

theorem tr_dropWrite (w : World) (h : Nat) (x : WrH) : TR [] w (w.dropWrite h x) := by
  unfold dropWrite
  refine TR.trans_nil ?_ (tr_closeStreamHalf _ _ _ _)
  split
  · split
    · exact (tr_setHost_eq w h _ (by intro; rfl) (by intro; rfl) (by intro; rfl)).nil_trans (tr_netSend_tcp _ _ _ rfl)
    · exact TR.refl w
  · exact TR.refl w

theorem tr_dropObj (w : World) (h : Nat) (o : Obj) : TR [] w (w.dropObj h o) := by
  unfold dropObj
  cases o with
  | udp loc stash => exact (tr_mgLeaveAll w _).nil_trans (tr_udpUnbind _ _ _)
  | listener loc => exact tr_tcpUnbind w h loc.port
  | connecting id loc rem chan fcW =>
    simp only
    have h1 : TR [] w ((({ w with syns := setAt w.syns id (fun c => { c with rxAlive := false }) } : World).setChan chan
        (fun c => { c with rxAlive := false })).tag "connectdropped") :=
      (((tr_world rfl rfl rfl : TR [] w { w with syns := setAt w.syns id (fun c => { c with rxAlive := false }) }).trans_nil
        (tr_setChan _ _ _)).tag _)
    split
    · exact h1.trans_nil (tr_removeSock _ _ _ _)
    · exact h1
  | stream rd wr =>
    simp only
    have h1 : TR [] w (match rd with | some r => w.dropRead h r | none => w) := by
      cases rd with
      | some r => exact tr_dropRead w h r
      | none => exact TR.refl w
    cases wr with
    | some x => exact h1.trans_nil (tr_dropWrite _ h x)
    | none => exact h1

/-- all tasks of a host are dropped: its loopback queue is emptied, its sockets are closed. -/
theorem tr_dropAll (w : World) (h : Nat) : TR [] w (w.dropAll h) := by
  unfold dropAll
  simp only
  refine TR.nil_trans ?_ (TR.foldl _ (fun (w : World) (p : Nat × Obj) => tr_dropObj w h p.2) _ _)
  refine TR.nil_trans ?_ (tr_dropEnvs _ _)
  exact tr_setHost w h _ (by exact ⟨rfl, fun _ _ => by simp, QSub.refl _⟩)

theorem tr_crash (w : World) (h : Nat) : TR [] w (w.crash h) := by
  unfold crash
  refine TR.trans_nil ?_ (tr_setHost_eq _ h _ (by intro; rfl) (by intro; rfl) (by intro; rfl))
  split
  · exact tr_dropAll w h
  · exact TR.refl w

theorem tr_bounce (w : World) (h : Nat) : TR [] w (w.bounce h) := by
  unfold bounce
  exact (tr_dropAll w h).trans_nil (tr_setHost_eq _ h _ (by intro; rfl) (by intro; rfl) (by intro; rfl))

/-! ### host calls -/

theorem tr_ite_snd {α : Type} (c : Prop) [Decidable c] (w : World) (a b : α × World)
    (ha : TR [] w a.2) (hb : TR [] w b.2) : TR [] w (if c then a else b).2 := by
  split <;> assumption

theorem tr_opUdpBind (w : World) (h s : Nat) (a : Addr) : TR [] w (w.opUdpBind h s a).1 := by
  unfold opUdpBind
  split
  · exact TR.refl w
  · simp only
    have s1 : TR [] w (if (a.port == 0) = true then w.assignPort h else (some a.port, w)).2 :=
      tr_ite_snd _ _ _ _ (tr_assignPort w h) (TR.refl w)
    generalize (if (a.port == 0) = true then w.assignPort h else (some a.port, w)) = r at s1 ⊢
    split
    · exact s1
    · split
      · exact s1.tag _
      · refine (s1.trans_nil ?_).trans_nil (tr_setObj _ _ _ _)
        exact tr_setHost _ h _ (by exact ⟨rfl, fun _ _ => Nat.le_refl _, qsub_append_empty _ _ rfl⟩)

theorem tr_opTcpBind (w : World) (h s : Nat) (a : Addr) : TR [] w (w.opTcpBind h s a).1 := by
  unfold opTcpBind
  split
  · exact TR.refl w
  · simp only
    have s1 : TR [] w (if (a.port == 0) = true then w.assignPort h else (some a.port, w)).2 :=
      tr_ite_snd _ _ _ _ (tr_assignPort w h) (TR.refl w)
    generalize (if (a.port == 0) = true then w.assignPort h else (some a.port, w)) = r at s1 ⊢
    split
    · exact s1
    · split
      · exact s1.tag _
      · refine (s1.trans_nil ?_).trans_nil (tr_setObj _ _ _ _)
        exact tr_setHost_eq _ h _ (by intro; rfl) (by intro; rfl) (by intro; rfl)

/-- a host update that replaces the queue of one bind by a part of it. -/
theorem tr_setQueue (w : World) (h bi : Nat) (q : List (Hex × Addr))
    (hq : ∀ x ∈ q, x ∈ ((w.host! h).udp.getD bi default).queue) :
    TR [] w (w.setHost h (fun hs => { hs with udp := setAt hs.udp bi (fun b => { b with queue := q }) })) := by
  refine tr_setHost w h _ ⟨rfl, fun _ _ => Nat.le_refl _, ?_⟩
  intro b' hb' x hx
  show ∃ b ∈ (w.host! h).udp, _
  rcases C04.mem_setAt_cases hb' with ⟨j, _, hj⟩ | ⟨b, hb, rfl⟩
  · exact ⟨b', List.mem_of_getElem? hj, rfl, rfl, hx⟩
  · have hget : (w.host! h).udp.getD bi default = b := by rw [List.getD_eq_getElem?_getD, hb]; rfl
    exact ⟨b, List.mem_of_getElem? hb, rfl, rfl, by rw [← hget]; exact hq x hx⟩

theorem tr_opUdpTryRecv (w : World) (h s n : Nat) : TR [] w (w.opUdpTryRecv h s n).1 := by
  unfold opUdpTryRecv
  split
  · split
    · exact tr_setObj _ _ _ _
    · split
      · exact TR.refl w
      · rename_i bi _
        simp only
        cases hq : ((w.host! h).udp.getD bi default).queue with
        | nil => exact TR.refl w
        | cons x rest => exact tr_setQueue w h bi rest (fun y hy => by rw [hq]; exact List.mem_cons_of_mem _ hy)
  · exact TR.refl w

theorem tr_opUdpReadable (w : World) (h s : Nat) : TR [] w (w.opUdpReadable h s).1 := by
  unfold opUdpReadable
  split
  · split
    · exact TR.refl w
    · split
      · exact TR.refl w
      · rename_i bi _
        simp only
        cases hq : ((w.host! h).udp.getD bi default).queue with
        | nil => exact TR.refl w
        | cons x rest =>
          exact (tr_setQueue w h bi rest (fun y hy => by rw [hq]; exact List.mem_cons_of_mem _ hy)).trans_nil (tr_setObj _ _ _ _)
  · exact TR.refl w

theorem tr_opUdpRecv (w : World) (h s n : Nat) : TR [] w (w.opUdpRecv h s n).1 := by
  unfold opUdpRecv
  simp only
  split
  · exact (tr_opUdpReadable w h s).trans_nil (tr_opUdpTryRecv _ _ _ _)
  · exact tr_opUdpReadable w h s

theorem tr_mapBinds (w : World) (h : Nat) (g : UdpBind → UdpBind)
    (hg : ∀ b, (g b).port = b.port ∧ (g b).bindAddr = b.bindAddr ∧ (g b).queue = b.queue) :
    TR [] w (w.setHost h (fun hs => { hs with udp := hs.udp.map g })) :=
  tr_setHost w h _ ⟨rfl, fun _ _ => Nat.le_refl _, qsub_map _ g hg⟩

theorem tr_opUdpConnect (w : World) (h s : Nat) (dst : Addr) : TR [] w (w.opUdpConnect h s dst).1 := by
  unfold opUdpConnect
  split
  · exact tr_mapBinds w h _ (fun b => by split <;> exact ⟨rfl, rfl, rfl⟩)
  · exact TR.refl w

theorem tr_opUdpSetBcast (w : World) (h s : Nat) (on : Bool) : TR [] w (w.opUdpSetBcast h s on).1 := by
  unfold opUdpSetBcast
  split
  · exact tr_mapBinds w h _ (fun b => by split <;> exact ⟨rfl, rfl, rfl⟩)
  · exact TR.refl w

theorem tr_opUdpSetMloop (w : World) (h s : Nat) (on : Bool) : TR [] w (w.opUdpSetMloop h s on).1 := by
  unfold opUdpSetMloop
  split
  · exact tr_mapBinds w h _ (fun b => by split <;> exact ⟨rfl, rfl, rfl⟩)
  · exact TR.refl w

theorem tr_opUdpJoin (w : World) (h s : Nat) (g iface : Ip) : TR [] w (w.opUdpJoin h s g iface).1 := by
  unfold opUdpJoin
  repeat' split
  all_goals first | exact TR.refl w | exact tr_world rfl rfl rfl

theorem tr_opUdpLeave (w : World) (h s : Nat) (g iface : Ip) : TR [] w (w.opUdpLeave h s g iface).1 := by
  unfold opUdpLeave
  simp only
  repeat' split
  all_goals first | exact TR.refl w | exact tr_world rfl rfl rfl

theorem tr_connectPoll (w : World) (h s : Nat) : TR [] w (w.connectPoll h s).1 := by
  unfold connectPoll
  split
  · split
    · exact TR.refl w
    · exact tr_setObj _ _ _ _
    · simp only
      refine TR.tag ?_ _
      split
      · exact ((tr_delObj w h s).trans_nil (tr_setChan _ _ _)).trans_nil (tr_removeSock _ _ _ _)
      · exact ((tr_delObj w h s).trans_nil (tr_setChan _ _ _)).tag _
  · exact TR.refl w

theorem tr_opTcpConnect (w : World) (h s : Nat) (dst : Addr) : TR [] w (w.opTcpConnect h s dst).1 := by
  unfold opTcpConnect
  simp only
  have s1 : TR [] w (w.assignPort h).2 := tr_assignPort w h
  split
  · exact s1
  · next p _ =>
    generalize ({ ip := if dst.ip.isLoopback = true then dst.ip else Ip.host h, port := p } : Addr) = loc
    split
    · exact s1.trans_nil (tr_panic _ _)
    · have s2 := s1.trans_nil (tr_newStream (w.assignPort h).2 h loc dst)
      generalize ((w.assignPort h).2.newStream h loc dst) = ns at s2 ⊢
      have s3 : TR [] w { ns.2 with syns := ns.2.syns ++ [({} : SynCell)] } := s2.trans_nil (tr_world rfl rfl rfl)
      generalize ({ ns.2 with syns := ns.2.syns ++ [({} : SynCell)] } : World) = w3 at s3 ⊢
      have s4 := s3.trans_nil (tr_netSend_tcp w3 h { src := loc, dst := dst, msg := .syn ns.2.syns.length } rfl)
      split
      · refine TR.tag ?_ "refused"
        have s5 := s4.trans_nil (tr_setChan _ ns.1.1 fun c => { c with rxAlive := false })
        split
        · exact s5.trans_nil (tr_removeSock _ _ _ _)
        · exact s5.tag _
      · exact (s4.trans_nil (tr_setObj _ _ _ _)).trans_nil (tr_connectPoll _ _ _)

theorem tr_acceptLoop (w : World) (h port : Nat) : TR [] w (w.acceptLoop h port).1 := by
  unfold acceptLoop
  split
  · exact tr_panic _ _
  · simp only
    have h1 := tr_setHost_eq w h (fun hs => { hs with tcpBinds := setAt hs.tcpBinds ‹Nat› (fun b => { b with deque :=
      (acceptPick w.synAlive ((w.host! h).tcpBinds.getD ‹Nat› default).deque).2 }) }) (by intro; rfl) (by intro; rfl) (by intro; rfl)
    split
    · exact (TR.ite _ (h1.tag _) h1).trans_nil (tr_world rfl rfl rfl)
    · exact TR.ite _ (h1.tag _) h1

theorem tr_opTcpAccept (w : World) (h ls s : Nat) : TR [] w (w.opTcpAccept h ls s).1 := by
  unfold opTcpAccept
  split
  · next lloc _ =>
    simp only
    have s1 := tr_acceptLoop w h lloc.port
    generalize w.acceptLoop h lloc.port = r at s1 ⊢
    repeat' split
    all_goals first
      | exact s1
      | exact s1.trans_nil (tr_panic _ _)
      | exact (s1.trans_nil (tr_newStream _ _ _ _)).trans_nil (tr_panic _ _)
      | exact (s1.trans_nil (tr_newStream _ _ _ _)).trans_nil (tr_setObj _ _ _ _)
  · exact TR.refl w

theorem tr_tryWrite (w : World) (h : Nat) (x : WrH) (p : Hex) : TR [] w (w.tryWrite h x p).1 := by
  unfold tryWrite
  simp only
  have h1 : TR [] w { w with fcs := setAt w.fcs x.fc (· - 1) } := tr_world rfl rfl rfl
  repeat' split
  all_goals first
    | exact TR.refl w
    | exact tr_tag w _
    | exact h1
    | exact (h1.trans_nil (tr_setHost_eq _ h _ (by intro; rfl) (by intro; rfl) (by intro; rfl))).trans_nil
        (tr_netSend_tcp _ _ _ rfl)

theorem tr_opTcpWrite (w : World) (h s : Nat) (p : Hex) (poll : Bool) : TR [] w (w.opTcpWrite h s p poll).1 := by
  unfold opTcpWrite
  simp only
  repeat' split
  all_goals first
    | exact TR.refl w
    | exact tr_tryWrite _ _ _ _

theorem tr_opTcpShutdown (w : World) (h s : Nat) : TR [] w (w.opTcpShutdown h s).1 := by
  unfold opTcpShutdown
  split
  · split
    · exact TR.refl w
    · split
      · exact TR.refl w
      · simp only
        have h1 := fun (e : Env) (he : isUdp e = false) =>
          (tr_setHost_eq w h (fun hs => { hs with socks := setAt hs.socks ‹Nat› (fun s => { s with nextSendSeq := s.nextSendSeq + 1 }) })
            (by intro; rfl) (by intro; rfl) (by intro; rfl)).trans_nil (tr_netSend_tcp _ h e he)
        split
        · exact (h1 _ rfl).trans_nil (tr_setObj _ _ _ _)
        · exact h1 _ rfl
  · exact TR.refl w

theorem tr_redrain (w : World) (h : Nat) (r : RdH) : TR [] w (w.redrain h r) := by
  unfold redrain
  split
  · exact TR.refl w
  · split
    · exact TR.refl w
    · exact (tr_setHost_eq w h _ (by intro; rfl) (by intro; rfl) (by intro; rfl)).trans_nil (tr_setChan _ _ _)

theorem tr_opTcpRead (w : World) (h s n : Nat) (peek : Bool) : TR [] w (w.opTcpRead h s n peek).1 := by
  unfold opTcpRead
  split
  · split
    · exact TR.refl w
    · split
      · split
        · exact TR.refl w
        · exact tr_setObj _ _ _ _
      · simp only
        split
        · split
          · refine TR.trans_nil ?_ (tr_redrain _ _ _)
            refine TR.trans_nil ?_ (tr_setObj _ _ _ _)
            refine TR.trans_nil ?_ (TR.ite _ (tr_tag _ _) (TR.refl _))
            exact tr_world rfl rfl rfl
          · exact (((tr_setChan w _ _).trans_nil (tr_setObj _ _ _ _)).tag _).trans_nil (tr_redrain _ _ _)
        · split
          · exact tr_tag _ _
          · exact TR.refl w
  · exact TR.refl w

theorem tr_opDrop (w : World) (h s : Nat) : TR [] w (w.opDrop h s).1 := by
  unfold opDrop
  split
  · exact (tr_delObj w h s).trans_nil (tr_dropObj _ _ _)
  · exact TR.refl w

theorem tr_opDropRead (w : World) (h s : Nat) : TR [] w (w.opDropRead h s).1 := by
  unfold opDropRead
  split
  · next r wr _ =>
    simp only
    refine TR.trans_nil ?_ (tr_dropRead _ h r)
    cases wr with
    | some _ => exact tr_setObj _ _ _ _
    | none => exact tr_delObj _ _ _
  · exact TR.refl w

theorem tr_opDropWrite (w : World) (h s : Nat) : TR [] w (w.opDropWrite h s).1 := by
  unfold opDropWrite
  split
  · next rd x _ =>
    simp only
    refine TR.trans_nil ?_ (tr_dropWrite _ h x)
    cases rd with
    | some _ => exact tr_setObj _ _ _ _
    | none => exact tr_delObj _ _ _
  · exact TR.refl w

theorem hr_setHnow (hs : Host) (W : Nat) (b : Bool) : HR hs (({ hs with hnow := W }, b) : Host × Bool).1 :=
  HR.of_eq rfl rfl rfl
theorem hr_setWake (hs : Host) (W : Option Nat) (b : Bool) : HR hs (({ hs with wake := W }, b) : Host × Bool).1 :=
  HR.of_eq rfl rfl rfl
theorem hr_ite_fst {c : Prop} [Decidable c] {hs : Host} {a b : Host × Bool} (ha : HR hs a.1) (hb : HR hs b.1) :
    HR hs (if c then a else b).1 := by split <;> assumption

theorem hr_hostSleep (A : Nat) (hs : Host) (ms : Nat) : HR hs (hostSleep A hs ms).1 := by
  unfold hostSleep
  exact hr_ite_fst (hr_setHnow _ _ _) (hr_setWake _ _ _)

theorem tr_hopSleep (w : World) (h ms : Nat) : TR [] w (hopSleep w h ms).1 := by
  rw [hopSleep, fst_mk']
  exact tr_setHost w h _ (hr_hostSleep _ _ _)

/-- the records a host call adds: only `send_to` adds any. -/
def hopRecs (w : World) (h : Nat) : HOp → List SendRec
  | .udpSend s dst p => sentRecs w h s dst p
  | _ => []

/-- **every host call other than a link-control call**: what it newly queues is, at most once per position,
    one of its records; no socket queue gains a datagram. -/
theorem tr_applyHOp (w : World) (h : Nat) (op : HOp) (hnet : ∀ c a b, op ≠ .net c a b) :
    TR ((hopRecs w h op).map SendRec.key) w (applyHOp w h op).1 := by
  cases op with
  | udpBind s a =>
    show TR [] w (if (w.getObj h s).isSome = true then (w, "err slotbusy") else w.opUdpBind h s a).1
    split
    · exact TR.refl w
    · exact tr_opUdpBind w h s a
  | tcpBind s a =>
    show TR [] w (if (w.getObj h s).isSome = true then (w, "err slotbusy") else w.opTcpBind h s a).1
    split
    · exact TR.refl w
    · exact tr_opTcpBind w h s a
  | tcpConnect s a =>
    show TR [] w (if (w.getObj h s).isSome = true then (w, "err slotbusy") else w.opTcpConnect h s a).1
    split
    · exact TR.refl w
    · exact tr_opTcpConnect w h s a
  | tcpAccept ls s =>
    show TR [] w (if (w.getObj h s).isSome = true then (w, "err slotbusy") else w.opTcpAccept h ls s).1
    split
    · exact TR.refl w
    · exact tr_opTcpAccept w h ls s
  | udpSend s a p => exact tr_opUdpSend w h s a p
  | udpTryRecv s n => exact tr_opUdpTryRecv w h s n
  | udpRecv s n => exact tr_opUdpRecv w h s n
  | udpReadable s => exact tr_opUdpReadable w h s
  | udpConnect s a => exact tr_opUdpConnect w h s a
  | udpBcast s on => exact tr_opUdpSetBcast w h s on
  | udpMloop s on => exact tr_opUdpSetMloop w h s on
  | udpJoin s g i => exact tr_opUdpJoin w h s g i
  | udpLeave s g i => exact tr_opUdpLeave w h s g i
  | tcpCPoll s => exact tr_connectPoll w h s
  | tcpWrite s p => exact tr_opTcpWrite w h s p _
  | tcpSplit s => exact TR.refl w
  | tcpReunite s => exact TR.refl w
  | tcpPWrite s p => exact tr_opTcpWrite w h s p true
  | tcpShutdown s => exact tr_opTcpShutdown w h s
  | tcpRead s n => exact tr_opTcpRead w h s n false
  | tcpPeek s n => exact tr_opTcpRead w h s n true
  | drop s => exact tr_opDrop w h s
  | tcpDropR s => exact tr_opDropRead w h s
  | tcpDropW s => exact tr_opDropWrite w h s
  | count => exact TR.refl w
  | countOf a => exact TR.refl w
  | spawnTicker => exact TR.refl w
  | select4 => exact TR.refl w
  | exit => exact (tr_dropAll w h).trans_nil (tr_setHost_eq _ h _ (by intro; rfl) (by intro; rfl) (by intro; rfl))
  | net c a b => exact absurd rfl (hnet c a b)
  | sleep ms =>
    show TR [] w (hopSleep w h ms).1
    exact tr_hopSleep w h ms
  | clock => exact TR.refl w
  | lookup name => exact tr_world rfl rfl rfl
  | unknown => exact TR.refl w

end TV.C09
