import TvCore.Props.C02
import TvCore.Props.C02Close
import TvCore.Props.C04Socks
import TvCore.Props.C12
/-
  Helper lemmas for `Props/C02Refine.lean`: the projection of a World socket onto the abstract
  receive-side machine `TV.C02.Rx`, bookkeeping-only world changes (`Bk`), the "write the receive-side
  triple" world update `setRx` and its frame, exact forms of `World.sockBuffer`, `World.redrain`,
  `World.opTcpRead`.
-/
namespace TV.C02
open TV TV.World

/-! ### projection -/

/-- socket `i` of host `h` (the model's own lookup: `getD … default`). -/
def sockAt (w : World) (h i : Nat) : Sock := (w.host! h).socks.getD i default

/-- the mpsc channel of socket `i` of host `h`. -/
def chanOf (w : World) (h i : Nat) : Chan := w.chan! (sockAt w h i).chan

/-- **Projection**: the abstract receive-side state of socket `i` of host `h`: its reorder buffer, its
    `recv_seq` and the queue of its channel.  `consumed` is ghost and carried as an argument. -/
def rxOf (w : World) (h i : Nat) (consumed : List Seg := []) : Rx :=
  { buf := (sockAt w h i).buf, recvSeq := (sockAt w h i).recvSeq,
    chan := (chanOf w h i).items, consumed := consumed }

/-- host, socket and channel indices are in range. -/
structure SockWf (w : World) (h i : Nat) : Prop where
  host : h < w.hosts.length
  sock : i < (w.host! h).socks.length
  chan : (sockAt w h i).chan < w.chans.length

/-- run the drain loop on an abstract state. -/
def drainRx (cap : Nat) (r : Rx) : Rx :=
  let out := drainBuf cap true (r.buf.length + 1) r.buf r.recvSeq r.chan
  { r with buf := out.1, recvSeq := out.2.1, chan := out.2.2.1 }

theorem arrive_eq_drainRx (cap : Nat) (r : Rx) (seq : Nat) (seg : Seg) :
    arrive cap r seq seg = drainRx cap { r with buf := r.buf ++ [(seq, seg)] } := rfl

theorem popRedrain_eq_drainRx (cap : Nat) (r : Rx) : popRedrain cap r = drainRx cap (pop r) := rfl

/-! ### bookkeeping-only changes (`cov`, `panicked`) -/

/-- `W` is `w` up to the bookkeeping fields `cov` and `panicked`. -/
def Bk (w W : World) : Prop := ∃ cov p, W = { w with cov := cov, panicked := p }

theorem Bk.refl (w : World) : Bk w w := ⟨w.cov, w.panicked, rfl⟩
theorem Bk.trans {a b c : World} (h1 : Bk a b) (h2 : Bk b c) : Bk a c := by
  obtain ⟨c1, p1, rfl⟩ := h1
  obtain ⟨c2, p2, rfl⟩ := h2
  exact ⟨c2, p2, rfl⟩
theorem bk_tag (w : World) (t : String) : Bk w (w.tag t) := by
  unfold tag; split
  · exact Bk.refl w
  · exact ⟨_, w.panicked, rfl⟩
theorem bk_panic (w : World) (m : String) : Bk w (w.panic m) := by
  unfold World.panic; split
  · exact Bk.refl w
  · exact ⟨w.cov, _, rfl⟩
theorem Bk.tag {w W : World} (h : Bk w W) (t : String) : Bk w (W.tag t) := h.trans (bk_tag W t)
theorem Bk.panic {w W : World} (h : Bk w W) (m : String) : Bk w (W.panic m) := h.trans (bk_panic W m)
theorem bk_ite {w a b : World} (c : Prop) [Decidable c] (ha : Bk w a) (hb : Bk w b) : Bk w (if c then a else b) := by
  split <;> assumption

/-- everything of the world that is neither the host table, the channel table nor bookkeeping. -/
def nonSock (w : World) :=
  (w.cfg, w.links, w.fcs, w.syns, w.mgroups, w.oracle, w.now, w.elapsed, w.cur, w.dns, w.v6, w.oraErr)

theorem Bk.hosts {w W : World} (h : Bk w W) : W.hosts = w.hosts := by obtain ⟨_, _, rfl⟩ := h; rfl
theorem Bk.chans {w W : World} (h : Bk w W) : W.chans = w.chans := by obtain ⟨_, _, rfl⟩ := h; rfl
theorem Bk.nonSock {w W : World} (h : Bk w W) : nonSock W = nonSock w := by obtain ⟨_, _, rfl⟩ := h; rfl
theorem Bk.host! {w W : World} (h : Bk w W) (x : Nat) : W.host! x = w.host! x := by
  unfold World.host!; rw [h.hosts]
theorem Bk.chan! {w W : World} (h : Bk w W) (c : Nat) : W.chan! c = w.chan! c := by
  unfold World.chan!; rw [h.chans]
theorem Bk.sockAt {w W : World} (hb : Bk w W) (h i : Nat) : sockAt W h i = sockAt w h i := by
  unfold C02.sockAt; rw [hb.host!]

/-! ### writing the receive-side triple -/

/-- the socket update `StreamSocket::buffer` / the re-drain perform. -/
def sockUpd (i : Nat) (b : List (Nat × Seg)) (rs : Nat) : Host → Host :=
  fun hs => { hs with socks := setAt hs.socks i (fun s => { s with buf := b, recvSeq := rs }) }

/-- write reorder buffer and `recv_seq` of socket `i` of host `h` and the queue of channel `c`. -/
def setRx (w : World) (h i c : Nat) (b : List (Nat × Seg)) (rs : Nat) (items : List Seg) : World :=
  (w.setHost h (sockUpd i b rs)).setChan c (fun ch => { ch with items := items })

theorem host!_setHost_ne (w : World) (h h' : Nat) (f : Host → Host) (hne : h' ≠ h) :
    (w.setHost h f).host! h' = w.host! h' := by
  unfold World.host! setHost
  exact C12.getD_setAt_ne _ _ _ _ _ hne

@[simp] theorem hosts_setRx_length (w : World) (h i c : Nat) (b : List (Nat × Seg)) (rs : Nat) (items : List Seg) :
    (setRx w h i c b rs items).hosts.length = w.hosts.length := by
  simp [setRx, setHost, setChan]

@[simp] theorem chans_setRx_length (w : World) (h i c : Nat) (b : List (Nat × Seg)) (rs : Nat) (items : List Seg) :
    (setRx w h i c b rs items).chans.length = w.chans.length := by
  simp [setRx, setHost, setChan]

theorem nonSock_setRx (w : World) (h i c : Nat) (b : List (Nat × Seg)) (rs : Nat) (items : List Seg) :
    nonSock (setRx w h i c b rs items) = nonSock w := rfl

theorem host!_setRx_ne (w : World) (h i c : Nat) (b : List (Nat × Seg)) (rs : Nat) (items : List Seg)
    (h' : Nat) (hne : h' ≠ h) : (setRx w h i c b rs items).host! h' = w.host! h' := by
  show (w.setHost h (sockUpd i b rs)).host! h' = _
  exact host!_setHost_ne w h h' _ hne

theorem host!_setRx (w : World) (h i c : Nat) (b : List (Nat × Seg)) (rs : Nat) (items : List Seg)
    (hh : h < w.hosts.length) : (setRx w h i c b rs items).host! h = sockUpd i b rs (w.host! h) := by
  show (w.setHost h (sockUpd i b rs)).host! h = _
  exact C04.host!_setHost_self w h _ hh

theorem sockAt_setRx (w : World) (h i c : Nat) (b : List (Nat × Seg)) (rs : Nat) (items : List Seg)
    (hh : h < w.hosts.length) (hi : i < (w.host! h).socks.length) :
    sockAt (setRx w h i c b rs items) h i = { sockAt w h i with buf := b, recvSeq := rs } := by
  unfold sockAt
  rw [host!_setRx _ _ _ _ _ _ _ hh]
  exact setAt_getD _ _ _ _ hi

theorem sockAt_setRx_ne (w : World) (h i c : Nat) (b : List (Nat × Seg)) (rs : Nat) (items : List Seg)
    (hh : h < w.hosts.length) (j : Nat) (hne : j ≠ i) :
    sockAt (setRx w h i c b rs items) h j = sockAt w h j := by
  unfold sockAt
  rw [host!_setRx _ _ _ _ _ _ _ hh]
  exact C12.getD_setAt_ne _ _ _ _ _ hne

theorem chan!_setRx (w : World) (h i c : Nat) (b : List (Nat × Seg)) (rs : Nat) (items : List Seg)
    (hc : c < w.chans.length) : (setRx w h i c b rs items).chan! c = { w.chan! c with items := items } := by
  unfold World.chan! setRx setChan
  exact setAt_getD _ _ _ _ hc

theorem chan!_setRx_ne (w : World) (h i c : Nat) (b : List (Nat × Seg)) (rs : Nat) (items : List Seg)
    (c' : Nat) (hne : c' ≠ c) : (setRx w h i c b rs items).chan! c' = w.chan! c' := by
  unfold World.chan! setRx setChan
  exact C12.getD_setAt_ne _ _ _ _ _ hne

/-- the projection of the written state is the written triple. -/
theorem rxOf_setRx (w : World) (h i : Nat) (b : List (Nat × Seg)) (rs : Nat) (items : List Seg)
    (hwf : SockWf w h i) (consumed : List Seg) :
    rxOf (setRx w h i (sockAt w h i).chan b rs items) h i consumed =
      { buf := b, recvSeq := rs, chan := items, consumed := consumed } := by
  unfold rxOf chanOf
  rw [sockAt_setRx _ _ _ _ _ _ _ hwf.host hwf.sock]
  simp only
  rw [chan!_setRx _ _ _ _ _ _ _ hwf.chan]

theorem sockWf_setRx (w : World) (h i c : Nat) (b : List (Nat × Seg)) (rs : Nat) (items : List Seg)
    (hwf : SockWf w h i) : SockWf (setRx w h i c b rs items) h i := by
  refine ⟨by simpa using hwf.host, ?_, ?_⟩
  · rw [host!_setRx _ _ _ _ _ _ _ hwf.host]; simpa [sockUpd] using hwf.sock
  · rw [sockAt_setRx _ _ _ _ _ _ _ hwf.host hwf.sock]; simpa using hwf.chan

/-! ### exact form of `sockBuffer` -/

/-- `World.sockBuffer`, exactly: up to bookkeeping (`cov` tags, the duplicate-segment panic flag) the
    segment is appended to the reorder buffer, `drainBuf` runs with the channel's capacity and receiver
    flag, and its result is written back to socket `i` and to the socket's channel. -/
theorem sockBuffer_eq (w : World) (h i seq : Nat) (seg : Seg)
    (b : List (Nat × Seg)) (rs : Nat) (items : List Seg) (rst : Bool)
    (hd : drainBuf (chanOf w h i).cap (chanOf w h i).rxAlive (((sockAt w h i).buf ++ [(seq, seg)]).length + 1)
            ((sockAt w h i).buf ++ [(seq, seg)]) (sockAt w h i).recvSeq (chanOf w h i).items = (b, rs, items, rst)) :
    ∃ W, Bk w W ∧ w.sockBuffer h i seq seg = (rst, setRx W h i (sockAt w h i).chan b rs items) := by
  have hb1 : Bk w (if ((sockAt w h i).buf.any fun p => p.1 == seq) = true then w.panic "duplicate segment" else w) :=
    bk_ite _ (bk_panic _ _) (Bk.refl _)
  unfold sockBuffer
  simp only
  have hc : (if (((w.host! h).socks.getD i default).buf.any fun p => p.1 == seq) = true then w.panic "duplicate segment" else w).chan!
      ((w.host! h).socks.getD i default).chan = chanOf w h i := hb1.chan! _
  rw [hc]
  have hd' := hd
  unfold sockAt at hd'
  rw [hd']
  simp only
  refine ⟨_, ?_, rfl⟩
  exact bk_ite _ (Bk.tag (bk_ite _ (Bk.tag hb1 _) hb1) _) (bk_ite _ (Bk.tag hb1 _) hb1)

/-! ### facts about the drain loop -/

/-- the drain loop asks for a RST only when the receiver is gone. -/
theorem drainBuf_rst (cap : Nat) (alive : Bool) :
    ∀ (fuel : Nat) (buf : List (Nat × Seg)) (rs : Nat) (items : List Seg),
      (drainBuf cap alive fuel buf rs items).2.2.2 = true → alive = false
  | 0, _, _, _, h => by simp [drainBuf] at h
  | fuel + 1, buf, rs, items, h => by
    unfold drainBuf at h
    cases hf : buf.find? (fun p => p.1 == rs + 1) with
    | none => simp [hf] at h
    | some pr =>
      cases alive with
      | false => rfl
      | true =>
        simp only [hf, Bool.not_true, Bool.false_eq_true, if_false] at h
        split at h
        · simp at h
        · exact drainBuf_rst cap true fuel _ _ _ h

/-- with the receiver gone the loop does at most one step: if the next segment is parked, `recv_seq`
    is bumped (and stays bumped), the segment stays parked, a RST is requested. -/
theorem drainBuf_dead (cap fuel : Nat) (buf : List (Nat × Seg)) (rs : Nat) (items : List Seg) :
    drainBuf cap false (fuel + 1) buf rs items =
      if (buf.any fun p => p.1 == rs + 1) then (buf, rs + 1, items, true) else (buf, rs, items, false) := by
  unfold drainBuf
  cases hf : buf.find? (fun p => p.1 == rs + 1) with
  | none =>
    have : (buf.any fun p => p.1 == rs + 1) = false := by
      rw [List.any_eq_false]
      intro p hp
      have := List.find?_eq_none.mp hf p hp
      simpa using this
    simp [this]
  | some pr =>
    have hmem : pr ∈ buf := List.mem_of_find?_eq_some hf
    have hk : (pr.1 == rs + 1) = true := by simpa using List.find?_some hf
    have : (buf.any fun p => p.1 == rs + 1) = true := List.any_eq_true.mpr ⟨pr, hmem, hk⟩
    simp [this]

/-- the loop neither invents sequence numbers nor forgets them: every number at or below the new
    `recv_seq` or still parked was at or below the old `recv_seq` or parked before. -/
theorem drainBuf_seen (cap : Nat) (alive : Bool) :
    ∀ (fuel : Nat) (buf : List (Nat × Seg)) (rs : Nat) (items : List Seg) (q : Nat),
      let out := drainBuf cap alive fuel buf rs items
      (q ≤ out.2.1 ∨ q ∈ out.1.map (·.1)) → (q ≤ rs ∨ q ∈ buf.map (·.1))
  | 0, _, _, _, _ => by simp [drainBuf]
  | fuel + 1, buf, rs, items, q => by
    unfold drainBuf
    cases hf : buf.find? (fun p => p.1 == rs + 1) with
    | none => simp
    | some pr =>
      have hmem : pr ∈ buf := List.mem_of_find?_eq_some hf
      have hk : pr.1 = rs + 1 := by simpa using List.find?_some hf
      have hin : rs + 1 ∈ buf.map (·.1) := List.mem_map.mpr ⟨pr, hmem, hk⟩
      simp only
      split
      · intro h
        rcases h with h | h
        · by_cases e : q = rs + 1
          · right; rw [e]; exact hin
          · left; simp only at h; omega
        · right; exact h
      · split
        · exact id
        · intro h
          have := drainBuf_seen cap alive fuel _ _ _ q h
          rcases this with h | h
          · by_cases e : q = rs + 1
            · right; rw [e]; exact hin
            · left; omega
          · right
            obtain ⟨p, hp, e⟩ := List.mem_map.mp h
            exact List.mem_map.mpr ⟨p, (List.mem_filter.mp hp).1, e⟩

/-! ### frame of a receive-side update -/

/-- **Frame**: between `w` and `w'` nothing changed except reorder buffer and `recv_seq` of socket `i`
    of host `h` and the queue (`items`) of that socket's channel (and the bookkeeping fields `cov`,
    `panicked`, which no field below mentions). -/
structure RxFrame (w w' : World) (h i : Nat) : Prop where
  /-- links, flow-control credits, SYN cells, multicast groups, oracle, clocks, DNS, cfg -/
  rest : nonSock w' = nonSock w
  hostsLen : w'.hosts.length = w.hosts.length
  otherHosts : ∀ h', h' ≠ h → w'.host! h' = w.host! h'
  /-- UDP binds, listeners, user objects, loopback queue, clocks of host `h` -/
  hostRest : ∃ socks', w'.host! h = { w.host! h with socks := socks' }
  socksLen : (w'.host! h).socks.length = (w.host! h).socks.length
  otherSocks : ∀ j, j ≠ i → sockAt w' h j = sockAt w h j
  /-- addresses, `next_send_seq`, channel, flow control, half-close count of the socket itself -/
  sockRest : ∃ b rs, sockAt w' h i = { sockAt w h i with buf := b, recvSeq := rs }
  chansLen : w'.chans.length = w.chans.length
  otherChans : ∀ c, c ≠ (sockAt w h i).chan → w'.chan! c = w.chan! c
  /-- capacity and both liveness flags of the socket's channel -/
  chanRest : ∃ items, chanOf w' h i = { chanOf w h i with items := items }
  /-- the address index of the socket table -/
  findSame : ∀ loc rem, findSock (w'.host! h) loc rem = findSock (w.host! h) loc rem

theorem rxFrame_setRx (w W : World) (hbk : Bk w W) (h i : Nat) (b : List (Nat × Seg)) (rs : Nat)
    (items : List Seg) (hwf : SockWf w h i) : RxFrame w (setRx W h i (sockAt w h i).chan b rs items) h i := by
  have hh : h < W.hosts.length := by rw [hbk.hosts]; exact hwf.host
  have hi : i < (W.host! h).socks.length := by rw [hbk.host!]; exact hwf.sock
  have hc : (sockAt w h i).chan < W.chans.length := by rw [hbk.chans]; exact hwf.chan
  have hsi : sockAt (setRx W h i (sockAt w h i).chan b rs items) h i = { sockAt w h i with buf := b, recvSeq := rs } := by
    rw [sockAt_setRx _ _ _ _ _ _ _ hh hi, hbk.sockAt]
  refine ⟨?_, ?_, ?_, ?_, ?_, ?_, ?_, ?_, ?_, ?_, ?_⟩
  rotate_right
  · intro loc rem
    rw [host!_setRx _ _ _ _ _ _ _ hh, hbk.host!]
    exact findIdx?_setAt _ _ _ _ (fun _ => rfl)
  · rw [nonSock_setRx, hbk.nonSock]
  · rw [hosts_setRx_length, hbk.hosts]
  · intro h' hne; rw [host!_setRx_ne _ _ _ _ _ _ _ _ hne, hbk.host!]
  · rw [host!_setRx _ _ _ _ _ _ _ hh, hbk.host!]; exact ⟨_, rfl⟩
  · rw [host!_setRx _ _ _ _ _ _ _ hh, hbk.host!]; simp [sockUpd]
  · intro j hne; rw [sockAt_setRx_ne _ _ _ _ _ _ _ hh _ hne, hbk.sockAt]
  · exact ⟨b, rs, hsi⟩
  · rw [chans_setRx_length, hbk.chans]
  · intro c hne; rw [chan!_setRx_ne _ _ _ _ _ _ _ _ hne, hbk.chan!]
  · refine ⟨items, ?_⟩
    unfold chanOf
    rw [hsi]
    simp only
    rw [chan!_setRx _ _ _ _ _ _ _ hc, hbk.chan!]

theorem rxFrame_refl (w : World) (h i : Nat) : RxFrame w w h i :=
  ⟨rfl, rfl, fun _ _ => rfl, ⟨_, rfl⟩, rfl, fun _ _ => rfl, ⟨_, _, rfl⟩, rfl, fun _ _ => rfl, ⟨_, rfl⟩, fun _ _ => rfl⟩

/-! ### exact form of `redrain` -/

theorem redrain_faithful (w : World) (h : Nat) (r : RdH) (hfx : w.cfg.fixFinRedrain = false) :
    w.redrain h r = w := by
  unfold redrain; simp [hfx]

theorem redrain_eq (w : World) (h : Nat) (r : RdH) (i : Nat) (hfx : w.cfg.fixFinRedrain = true)
    (hf : findSock (w.host! h) r.loc r.rem = some i)
    (b : List (Nat × Seg)) (rs : Nat) (items : List Seg) (rst : Bool)
    (hd : drainBuf (chanOf w h i).cap (chanOf w h i).rxAlive ((sockAt w h i).buf.length + 1)
            (sockAt w h i).buf (sockAt w h i).recvSeq (chanOf w h i).items = (b, rs, items, rst)) :
    w.redrain h r = setRx w h i (sockAt w h i).chan b rs items := by
  unfold redrain
  simp only [hfx, Bool.not_true, Bool.false_eq_true, if_false, hf]
  have hd' := hd
  unfold chanOf sockAt at hd'
  rw [hd']
  rfl

/-! ### exact forms of `opTcpRead` -/

/-- stash left by a read of `n` bytes from pending bytes `b`. -/
def stashAfter (b : Hex) (n : Nat) : Option Hex := if (hexDrop b n).isEmpty then none else some (hexDrop b n)

theorem opTcpRead_idle (w : World) (h s n : Nat) (peek : Bool) (r : RdH) (wr : Option WrH)
    (hobj : w.getObj h s = some (.stream (some r) wr)) (hz : r.closed = true ∨ n = 0) :
    w.opTcpRead h s n peek = (w, "ok -") := by
  unfold opTcpRead
  rw [hobj]
  rcases hz with hz | hz <;> simp [hz]

theorem opTcpRead_stash (w : World) (h s n : Nat) (peek : Bool) (r : RdH) (wr : Option WrH) (b : Hex)
    (hobj : w.getObj h s = some (.stream (some r) wr)) (hcl : r.closed = false) (hn : n ≠ 0)
    (hst : r.stash = some b) :
    w.opTcpRead h s n peek =
      (if peek then w else w.setObj h s (.stream (some { r with stash := stashAfter b n }) wr),
       s!"ok {hexTok (hexTake b n)}") := by
  unfold opTcpRead
  rw [hobj]
  simp only [hcl, hst, stashAfter]
  have : (n == 0) = false := by simpa using hn
  simp only [this, Bool.or_false, Bool.false_eq_true, if_false]
  cases peek <;> rfl

/-- the world after the reader took a data segment off channel `r.chan`: the queue loses its head and
    one flow-control credit goes back to the writer. -/
def popW (w : World) (r : RdH) (rest : List Seg) : World :=
  { w.setChan r.chan (fun c => { c with items := rest }) with fcs := setAt w.fcs r.fc (· + 1) }

theorem opTcpRead_data (w : World) (h s n : Nat) (peek : Bool) (r : RdH) (wr : Option WrH) (b : Hex) (rest : List Seg)
    (hobj : w.getObj h s = some (.stream (some r) wr)) (hcl : r.closed = false) (hn : n ≠ 0)
    (hst : r.stash = none) (hit : (w.chan! r.chan).items = .data b :: rest) :
    w.opTcpRead h s n peek =
      (((if hexLen b > n then (popW w r rest).tag "partialread" else popW w r rest).setObj h s
          (.stream (some { r with stash := if peek then some b else stashAfter b n }) wr)).redrain h r,
       s!"ok {hexTok (hexTake b n)}") := by
  unfold opTcpRead
  rw [hobj]
  have : (n == 0) = false := by simpa using hn
  simp only [hcl, hst, hit, this, Bool.or_false, Bool.false_eq_true, if_false]
  cases peek <;> rfl

theorem opTcpRead_fin (w : World) (h s n : Nat) (peek : Bool) (r : RdH) (wr : Option WrH) (rest : List Seg)
    (hobj : w.getObj h s = some (.stream (some r) wr)) (hcl : r.closed = false) (hn : n ≠ 0)
    (hst : r.stash = none) (hit : (w.chan! r.chan).items = .fin :: rest) :
    w.opTcpRead h s n peek =
      ((((w.setChan r.chan (fun c => { c with items := rest })).setObj h s (.stream (some { r with closed := true }) wr)).tag "eof").redrain h r,
       "ok -") := by
  unfold opTcpRead
  rw [hobj]
  have : (n == 0) = false := by simpa using hn
  simp only [hcl, hst, hit, this, Bool.or_false, Bool.false_eq_true, if_false]

theorem opTcpRead_empty (w : World) (h s n : Nat) (peek : Bool) (r : RdH) (wr : Option WrH)
    (hobj : w.getObj h s = some (.stream (some r) wr)) (hcl : r.closed = false) (hn : n ≠ 0)
    (hst : r.stash = none) (hit : (w.chan! r.chan).items = []) :
    w.opTcpRead h s n peek =
      if (w.chan! r.chan).txAlive then (w, "pending") else (w.tag "reset", "err reset") := by
  unfold opTcpRead
  rw [hobj]
  have : (n == 0) = false := by simpa using hn
  simp only [hcl, hst, hit, this, Bool.or_false, Bool.false_eq_true, if_false]
  cases (w.chan! r.chan).txAlive <;> rfl

/-! ### worlds with the same socket table of host `h` and the same channels -/

structure SameSocks (w w' : World) (h : Nat) : Prop where
  len : w'.hosts.length = w.hosts.length
  socks : (w'.host! h).socks = (w.host! h).socks
  chans : w'.chans = w.chans
  cfg : w'.cfg = w.cfg

theorem SameSocks.refl (w : World) (h : Nat) : SameSocks w w h := ⟨rfl, rfl, rfl, rfl⟩
theorem SameSocks.trans {a b c : World} {h : Nat} (h1 : SameSocks a b h) (h2 : SameSocks b c h) : SameSocks a c h :=
  ⟨h2.len.trans h1.len, h2.socks.trans h1.socks, h2.chans.trans h1.chans, h2.cfg.trans h1.cfg⟩
theorem sameSocks_of_bk {w W : World} (hb : Bk w W) (h : Nat) : SameSocks w W h := by
  obtain ⟨_, _, rfl⟩ := hb; exact ⟨rfl, rfl, rfl, rfl⟩
theorem sameSocks_setObj (w : World) (h s : Nat) (o : Obj) : SameSocks w (w.setObj h s o) h := by
  refine ⟨by simp [setObj, setHost], ?_, rfl, rfl⟩
  unfold setObj
  rw [C04.host!_setHost]
  split <;> rfl
theorem sameSocks_fcs (w : World) (h : Nat) (f : List Nat) : SameSocks w { w with fcs := f } h := ⟨rfl, rfl, rfl, rfl⟩

theorem SameSocks.sockAt {w w' : World} {h : Nat} (hs : SameSocks w w' h) (i : Nat) : sockAt w' h i = sockAt w h i := by
  unfold C02.sockAt; rw [hs.socks]
theorem SameSocks.chanOf {w w' : World} {h : Nat} (hs : SameSocks w w' h) (i : Nat) : chanOf w' h i = chanOf w h i := by
  unfold C02.chanOf World.chan!; rw [hs.sockAt, hs.chans]
theorem SameSocks.rxOf {w w' : World} {h : Nat} (hs : SameSocks w w' h) (i : Nat) (c : List Seg) :
    rxOf w' h i c = rxOf w h i c := by
  unfold C02.rxOf; rw [hs.sockAt, hs.chanOf]
theorem SameSocks.wf {w w' : World} {h i : Nat} (hs : SameSocks w w' h) (hwf : SockWf w h i) : SockWf w' h i :=
  ⟨by rw [hs.len]; exact hwf.host, by rw [hs.socks]; exact hwf.sock, by rw [hs.sockAt, hs.chans]; exact hwf.chan⟩
theorem SameSocks.findSock {w w' : World} {h : Nat} (hs : SameSocks w w' h) (loc rem : Addr) :
    findSock (w'.host! h) loc rem = findSock (w.host! h) loc rem := by
  unfold World.findSock; rw [hs.socks]

/-! ### user objects -/

theorem getObj_setObj_self (w : World) (h s : Nat) (o : Obj) (hh : h < w.hosts.length) :
    (w.setObj h s o).getObj h s = some o := by
  unfold getObj setObj
  rw [C04.host!_setHost_self _ _ _ hh]
  simp only
  rw [List.find?_append]
  have : List.find? (fun x => x.1 == s) (List.filter (fun x => x.1 != s) (w.host! h).objs) = none := by
    rw [List.find?_eq_none]
    intro x hx
    have := (List.mem_filter.mp hx).2
    simpa using this
  rw [this]
  simp

theorem getObj_of_host {w w' : World} {h : Nat} (e : (w'.host! h).objs = (w.host! h).objs) (s : Nat) :
    w'.getObj h s = w.getObj h s := by
  unfold getObj; rw [e]

theorem objs_setRx (w : World) (h i c : Nat) (b : List (Nat × Seg)) (rs : Nat) (items : List Seg) :
    ((setRx w h i c b rs items).host! h).objs = (w.host! h).objs := by
  show ((w.setHost h (sockUpd i b rs)).host! h).objs = _
  rw [C04.host!_setHost]
  split <;> rfl

/-! ### projection of the reader's two steps -/

theorem sockWf_setChan (w : World) (h i c : Nat) (f : Chan → Chan) (hwf : SockWf w h i) : SockWf (w.setChan c f) h i :=
  ⟨hwf.host, hwf.sock, by show _ < (setAt w.chans c f).length; rw [setAt_length]; exact hwf.chan⟩

/-- taking the head off the socket's channel is the abstract `pop`. -/
theorem rxOf_popChan (w : World) (h i c : Nat) (seg : Seg) (rest cons : List Seg) (hwf : SockWf w h i)
    (hch : (sockAt w h i).chan = c) (hit : (w.chan! c).items = seg :: rest) :
    rxOf (w.setChan c (fun ch => { ch with items := rest })) h i (cons ++ [seg]) = pop (rxOf w h i cons) := by
  have hit' : (chanOf w h i).items = seg :: rest := by unfold chanOf; rw [hch]; exact hit
  have e1 : pop (rxOf w h i cons) =
      { buf := (sockAt w h i).buf, recvSeq := (sockAt w h i).recvSeq, chan := rest, consumed := cons ++ [seg] } := by
    unfold pop
    simp only [rxOf, hit']
  rw [e1]
  have hs : sockAt (w.setChan c (fun ch => { ch with items := rest })) h i = sockAt w h i := rfl
  unfold rxOf chanOf
  rw [hs, hch]
  have : ((w.setChan c (fun ch => { ch with items := rest })).chan! c).items = rest := by
    unfold World.chan! setChan
    simp only
    rw [setAt_getD _ _ _ _ (by rw [← hch]; exact hwf.chan)]
  rw [this]

/-- the repaired reader's re-drain is the abstract drain loop; the faithful reader does nothing. -/
theorem rxOf_redrain (w : World) (h : Nat) (r : RdH) (i : Nat) (cons : List Seg) (hwf : SockWf w h i)
    (hf : findSock (w.host! h) r.loc r.rem = some i) (halive : (chanOf w h i).rxAlive = true) :
    rxOf (w.redrain h r) h i cons =
      if w.cfg.fixFinRedrain then drainRx (chanOf w h i).cap (rxOf w h i cons) else rxOf w h i cons := by
  cases hfx : w.cfg.fixFinRedrain with
  | false => rw [redrain_faithful w h r hfx]; rfl
  | true =>
    rcases hd : drainBuf (chanOf w h i).cap (chanOf w h i).rxAlive ((sockAt w h i).buf.length + 1)
            (sockAt w h i).buf (sockAt w h i).recvSeq (chanOf w h i).items with ⟨b, rs, items, rst⟩
    rw [redrain_eq w h r i hfx hf b rs items rst hd, rxOf_setRx w h i b rs items hwf]
    rw [halive] at hd
    simp only [if_true, drainRx, rxOf, hd]

theorem rxFrame_redrain (w : World) (h : Nat) (r : RdH) (i : Nat) (hwf : SockWf w h i)
    (hf : findSock (w.host! h) r.loc r.rem = some i) : RxFrame w (w.redrain h r) h i := by
  cases hfx : w.cfg.fixFinRedrain with
  | false => rw [redrain_faithful w h r hfx]; exact rxFrame_refl w h i
  | true =>
    rcases hd : drainBuf (chanOf w h i).cap (chanOf w h i).rxAlive ((sockAt w h i).buf.length + 1)
            (sockAt w h i).buf (sockAt w h i).recvSeq (chanOf w h i).items with ⟨b, rs, items, rst⟩
    rw [redrain_eq w h r i hfx hf b rs items rst hd]
    exact rxFrame_setRx w w (Bk.refl w) h i b rs items hwf

theorem redrain_nosock (w : World) (h : Nat) (r : RdH) (hf : findSock (w.host! h) r.loc r.rem = none) :
    w.redrain h r = w := by
  unfold redrain
  split
  · rfl
  · rw [hf]

/-- the re-drain never touches the user objects. -/
theorem objs_redrain (w : World) (h : Nat) (r : RdH) : ((w.redrain h r).host! h).objs = (w.host! h).objs := by
  cases hfx : w.cfg.fixFinRedrain with
  | false => rw [redrain_faithful w h r hfx]
  | true =>
    cases hf : findSock (w.host! h) r.loc r.rem with
    | none => rw [redrain_nosock w h r hf]
    | some i =>
      rcases hd : drainBuf (chanOf w h i).cap (chanOf w h i).rxAlive ((sockAt w h i).buf.length + 1)
              (sockAt w h i).buf (sockAt w h i).recvSeq (chanOf w h i).items with ⟨b, rs, items, rst⟩
      rw [redrain_eq w h r i hfx hf b rs items rst hd]
      exact objs_setRx _ _ _ _ _ _ _

/-- the read half after a popping read of a data segment. -/
theorem getObj_after_data (w : World) (h s n : Nat) (peek : Bool) (r : RdH) (wr : Option WrH) (b : Hex) (rest : List Seg)
    (hh : h < w.hosts.length)
    (hobj : w.getObj h s = some (.stream (some r) wr)) (hcl : r.closed = false) (hn : n ≠ 0)
    (hst : r.stash = none) (hit : (w.chan! r.chan).items = .data b :: rest) :
    (w.opTcpRead h s n peek).1.getObj h s =
      some (.stream (some { r with stash := if peek then some b else stashAfter b n }) wr) := by
  rw [opTcpRead_data w h s n peek r wr b rest hobj hcl hn hst hit]
  simp only
  rw [getObj_of_host (objs_redrain _ h r) s]
  apply getObj_setObj_self
  split
  · rw [(bk_tag _ _).hosts]; exact hh
  · exact hh

theorem hosts_length_redrain (w : World) (h : Nat) (r : RdH) : (w.redrain h r).hosts.length = w.hosts.length := by
  cases hfx : w.cfg.fixFinRedrain with
  | false => rw [redrain_faithful w h r hfx]
  | true =>
    cases hf : findSock (w.host! h) r.loc r.rem with
    | none => rw [redrain_nosock w h r hf]
    | some i =>
      rcases hd : drainBuf (chanOf w h i).cap (chanOf w h i).rxAlive ((sockAt w h i).buf.length + 1)
              (sockAt w h i).buf (sockAt w h i).recvSeq (chanOf w h i).items with ⟨b, rs, items, rst⟩
      rw [redrain_eq w h r i hfx hf b rs items rst hd]
      exact hosts_setRx_length _ _ _ _ _ _ _

theorem hosts_length_setObj (w : World) (h s : Nat) (o : Obj) : (w.setObj h s o).hosts.length = w.hosts.length := by
  simp [setObj, setHost]

/-- reads never change the number of hosts. -/
theorem hosts_length_opTcpRead (w : World) (h s n : Nat) (peek : Bool) :
    (w.opTcpRead h s n peek).1.hosts.length = w.hosts.length := by
  cases hobj : w.getObj h s with
  | none => unfold opTcpRead; rw [hobj]
  | some o =>
    cases o with
    | udp _ _ => unfold opTcpRead; rw [hobj]
    | listener _ => unfold opTcpRead; rw [hobj]
    | connecting _ _ _ _ _ => unfold opTcpRead; rw [hobj]
    | stream rd wr =>
      cases rd with
      | none => unfold opTcpRead; rw [hobj]
      | some r =>
        by_cases hz : r.closed = true ∨ n = 0
        · rw [opTcpRead_idle w h s n peek r wr hobj hz]
        · have hcl : r.closed = false := by
            cases hc : r.closed with
            | false => rfl
            | true => exact absurd (Or.inl hc) hz
          have hn : n ≠ 0 := fun e => hz (Or.inr e)
          cases hst : r.stash with
          | some b =>
            rw [opTcpRead_stash w h s n peek r wr b hobj hcl hn hst]
            cases peek
            · exact hosts_length_setObj _ _ _ _
            · rfl
          | none =>
            cases hit : (w.chan! r.chan).items with
            | nil =>
              rw [opTcpRead_empty w h s n peek r wr hobj hcl hn hst hit]
              split
              · rfl
              · simp
            | cons seg rest =>
              cases seg with
              | data b =>
                rw [opTcpRead_data w h s n peek r wr b rest hobj hcl hn hst hit]
                simp only [hosts_length_redrain, hosts_length_setObj]
                split
                · rw [C04.hosts_tag]; rfl
                · rfl
              | fin =>
                rw [opTcpRead_fin w h s n peek r wr rest hobj hcl hn hst hit]
                simp only [hosts_length_redrain, C04.hosts_tag, hosts_length_setObj]
                rfl

/-! ### each sequence number at most once ⇒ admissible -/

/-- the sequence numbers the receive side has taken in so far are all in `seen`: everything at or below
    `recv_seq` and everything parked. -/
def SeenBy (seen : List Nat) (r : Rx) : Prop :=
  ∀ q, 0 < q → (q ≤ r.recvSeq ∨ q ∈ r.buf.map (·.1)) → q ∈ seen

theorem SeenBy.mono {seen seen' : List Nat} {r : Rx} (h : SeenBy seen r) (hs : ∀ q ∈ seen, q ∈ seen') : SeenBy seen' r :=
  fun q hq hc => hs q (h q hq hc)

theorem seenBy_drainRx {seen : List Nat} {r : Rx} (cap : Nat) (h : SeenBy seen r) : SeenBy seen (drainRx cap r) := by
  intro q hq hc
  exact h q hq (drainBuf_seen cap true (r.buf.length + 1) r.buf r.recvSeq r.chan q hc)

theorem seenBy_pop {seen : List Nat} {r : Rx} (h : SeenBy seen r) : SeenBy seen (pop r) := by
  unfold pop
  split
  · exact h
  · exact h

theorem seenBy_arrive {seen : List Nat} {r : Rx} (cap q : Nat) (seg : Seg) (h : SeenBy seen r) :
    SeenBy (seen ++ [q]) (arrive cap r q seg) := by
  rw [arrive_eq_drainRx]
  apply seenBy_drainRx
  intro k hk hc
  simp only [List.map_append, List.map_cons, List.map_nil, List.mem_append, List.mem_singleton] at hc ⊢
  rcases hc with hc | hc | hc
  · exact Or.inl (h k hk (Or.inl hc))
  · exact Or.inl (h k hk (Or.inr hc))
  · exact Or.inr hc

theorem seenBy_rxStep {seen : List Nat} {r : Rx} (segs : Nat → Seg) (cap : Nat) (fx : Bool) (h : SeenBy seen r) :
    SeenBy seen (rxStep segs cap fx r .pop) := by
  simp only [rxStep]
  cases fx
  · exact seenBy_pop h
  · simp only [if_true]; rw [popRedrain_eq_drainRx]; exact seenBy_drainRx cap (seenBy_pop h)

def arrivalsOf : List RxOp → List Nat
  | [] => []
  | .arrive q :: ops => q :: arrivalsOf ops
  | .pop :: ops => arrivalsOf ops

theorem arrivalsOf_append (a b : List RxOp) : arrivalsOf (a ++ b) = arrivalsOf a ++ arrivalsOf b := by
  induction a with
  | nil => rfl
  | cons op a ih => cases op <;> simp [arrivalsOf, ih]

/-- **each sequence number at most once ⇒ every arrival is admissible**: if the arrivals of `ops` are
    pairwise distinct, positive and distinct from everything the receive side has seen before, then
    every arrival finds its number still ahead of `recv_seq` and not parked. -/
theorem allAdmissible_of_nodup (segs : Nat → Seg) (cap : Nat) (fx : Bool) :
    ∀ (ops : List RxOp) (r : Rx) (seen : List Nat), SeenBy seen r → (seen ++ arrivalsOf ops).Nodup →
      (∀ q ∈ arrivalsOf ops, 0 < q) → AllAdmissible segs cap fx r ops
  | [], _, _, _, _, _ => trivial
  | .pop :: ops, r, seen, hs, hnd, hpos =>
    ⟨trivial, allAdmissible_of_nodup segs cap fx ops _ seen (seenBy_rxStep segs cap fx hs) hnd hpos⟩
  | .arrive q :: ops, r, seen, hs, hnd, hpos => by
    have hq : 0 < q := hpos q (by simp [arrivalsOf])
    have hnd' : (seen ++ q :: arrivalsOf ops).Nodup := hnd
    have hnot : q ∉ seen := by
      intro hin
      have := (List.nodup_append.mp hnd').2.2 q hin q (by simp)
      exact this rfl
    have hnd2 : ((seen ++ [q]) ++ arrivalsOf ops).Nodup := by
      rw [List.append_assoc]; exact hnd'
    refine ⟨⟨?_, ?_⟩, allAdmissible_of_nodup segs cap fx ops _ (seen ++ [q]) (seenBy_arrive cap q (segs q) hs) hnd2
      (fun k hk => hpos k (by simp [arrivalsOf, hk]))⟩
    · apply Nat.lt_of_not_le
      intro hle
      exact hnot (hs q hq (Or.inl hle))
    · intro p hp he
      exact hnot (hs q hq (Or.inr (List.mem_map.mpr ⟨p, hp, he⟩)))

theorem firstSegs_length (segs : Nat → Seg) (n : Nat) : (firstSegs segs n).length = n := by simp [firstSegs]

theorem firstSegs_take (segs : Nat → Seg) (n k : Nat) : (firstSegs segs n).take k = firstSegs segs (min k n) := by
  unfold firstSegs
  rw [← List.map_take, List.take_range]

/-- a front part of "the first `n` segments" is "the first `k` segments". -/
theorem prefix_is_firstSegs (segs : Nat → Seg) (n : Nat) (l1 l2 : List Seg) (h : l1 ++ l2 = firstSegs segs n) :
    l1 = firstSegs segs l1.length := by
  have h1 : (l1 ++ l2).take l1.length = l1 := by simp
  rw [h, firstSegs_take] at h1
  have hle : l1.length ≤ n := by
    have := congrArg List.length h
    rw [firstSegs_length, List.length_append] at this
    omega
  rw [Nat.min_eq_left hle] at h1
  exact h1.symm

/-! ### frame of taking the head off the channel -/

theorem rxFrame_popChan (w : World) (h i : Nat) (rest : List Seg) (hwf : SockWf w h i) :
    RxFrame w (w.setChan (sockAt w h i).chan (fun ch => { ch with items := rest })) h i := by
  refine ⟨rfl, rfl, fun _ _ => rfl, ⟨_, rfl⟩, rfl, fun _ _ => rfl, ⟨_, _, rfl⟩, ?_, ?_, ?_, fun _ _ => rfl⟩
  · show (setAt w.chans _ _).length = _
    rw [setAt_length]
  · intro c hne
    unfold World.chan! setChan
    exact C12.getD_setAt_ne _ _ _ _ _ hne
  · refine ⟨rest, ?_⟩
    have hs1 : sockAt (w.setChan (sockAt w h i).chan (fun ch => { ch with items := rest })) h i = sockAt w h i := rfl
    unfold chanOf
    rw [hs1]
    unfold World.chan! setChan
    exact setAt_getD _ _ _ _ hwf.chan

end TV.C02
