import TvCore.Proofs.LinksWorldLemmas
/-
  Message numbers (`Sent.id`, the ghost counter `Link.nextId`): every operation the World performs on
  a link keeps the numbers of the messages it holds, plus those it has handed to hosts, pairwise
  distinct and below the counter.  Hence no message is ever handed to a host twice.
-/
namespace TV.LW
open TV TV.World TV.Link

/-- `xs` is, up to order, part of `ys`. -/
def SubPerm {α : Type} (xs ys : List α) : Prop := ∃ L, xs.Perm L ∧ L.Sublist ys

theorem SubPerm.of_perm {α : Type} {xs ys : List α} (h : xs.Perm ys) : SubPerm xs ys := ⟨ys, h, List.Sublist.refl _⟩
theorem SubPerm.of_sublist {α : Type} {xs ys : List α} (h : xs.Sublist ys) : SubPerm xs ys := ⟨xs, List.Perm.refl _, h⟩
theorem SubPerm.refl {α : Type} (xs : List α) : SubPerm xs xs := SubPerm.of_perm (List.Perm.refl _)

theorem SubPerm.trans {α : Type} {xs ys zs : List α} (h1 : SubPerm xs ys) (h2 : SubPerm ys zs) : SubPerm xs zs := by
  obtain ⟨L1, p1, s1⟩ := h1
  obtain ⟨L2, p2, s2⟩ := h2
  obtain ⟨L1', p1', s1'⟩ := C09.exists_perm_sublist s1 p2
  exact ⟨L1', p1.trans p1'.symm, s1'.trans s2⟩

theorem SubPerm.append_right {α : Type} {xs ys : List α} (h : SubPerm xs ys) (z : List α) : SubPerm (xs ++ z) (ys ++ z) := by
  obtain ⟨L, p, s⟩ := h
  exact ⟨L ++ z, p.append_right z, s.append_right z⟩

theorem SubPerm.nodup {α : Type} {xs ys : List α} (h : SubPerm xs ys) (hn : ys.Nodup) : xs.Nodup := by
  obtain ⟨L, p, s⟩ := h
  exact p.nodup_iff.mpr (hn.sublist s)

theorem SubPerm.mem {α : Type} {xs ys : List α} (h : SubPerm xs ys) {a : α} (ha : a ∈ xs) : a ∈ ys := by
  obtain ⟨L, p, s⟩ := h
  exact s.subset (p.subset ha)

/-- the numbers of the messages on the link and of those handed out so far are pairwise distinct and
    below the link's counter. -/
structure IdsOK (l : Link Env) (H : List (Sent Env)) : Prop where
  nodup : (C08.ids l ++ H.map (·.id)).Nodup
  lt : ∀ i ∈ C08.ids l ++ H.map (·.id), i < l.nextId

theorem idsOK_of_subPerm {l l' : Link Env} {H out : List (Sent Env)} (h : IdsOK l H)
    (hs : SubPerm (C08.ids l' ++ out.map (·.id)) (C08.ids l)) (hn : l.nextId ≤ l'.nextId) : IdsOK l' (H ++ out) := by
  have e : SubPerm (C08.ids l' ++ (H ++ out).map (·.id)) (C08.ids l ++ H.map (·.id)) := by
    have h1 := hs.append_right (H.map (·.id))
    refine SubPerm.trans (SubPerm.of_perm ?_) h1
    simp only [List.map_append, List.append_assoc]
    exact List.Perm.append_left _ List.perm_append_comm
  exact ⟨e.nodup h.nodup, fun i hi => Nat.lt_of_lt_of_le (h.lt i (e.mem hi)) hn⟩

theorem ids_eq (l : Link Env) : C08.ids l = l.sent.map (·.id) ++ l.toA.map (·.id) ++ l.toB.map (·.id) := by
  simp [C08.ids]

theorem subPerm_sent {l l' : Link Env} (hA : l'.toA = l.toA) (hB : l'.toB = l.toB)
    (hs : (l'.sent.map (·.id)).Sublist (l.sent.map (·.id))) : SubPerm (C08.ids l') (C08.ids l) := by
  rw [ids_eq, ids_eq, hA, hB]
  exact SubPerm.of_sublist ((hs.append_right _).append_right _)

theorem subPerm_queues {l l' : Link Env} (hs : l'.sent.Sublist l.sent) (hA : l'.toA.Sublist l.toA) (hB : l'.toB.Sublist l.toB) :
    SubPerm (C08.ids l') (C08.ids l) := by
  rw [ids_eq, ids_eq]
  exact SubPerm.of_sublist (((hs.map _).append (hA.map _)).append (hB.map _))

theorem releaseOne_id (now : Nat) (s : Sent Env) : (releaseOne now s).id = s.id := by
  unfold releaseOne; cases s.status <;> rfl

theorem subPerm_randStep (cfg : Cfg) (l : Link Env) (cf cr : Bool) :
    SubPerm (C08.ids (randStep cfg l cf cr).1) (C08.ids l) ∧ (randStep cfg l cf cr).1.nextId = l.nextId := by
  unfold randStep
  split
  · split
    · exact ⟨subPerm_sent rfl rfl (List.filter_sublist.map _), rfl⟩
    · split
      · exact ⟨subPerm_sent rfl rfl (List.Sublist.refl _), rfl⟩
      · exact ⟨SubPerm.refl _, rfl⟩
  · split
    · exact ⟨subPerm_sent rfl rfl (List.nil_sublist _), rfl⟩
    · split
      · refine ⟨SubPerm.of_perm ?_, rfl⟩
        rw [C08.ids_release]
      · exact ⟨SubPerm.refl _, rfl⟩

theorem idsOK_enqueueRaw {l : Link Env} {H : List (Sent Env)} (h : IdsOK l H) (d s t : Nat) (e : Env) :
    IdsOK (l.enqueueRaw d s t e).1 H := by
  have fresh : l.nextId ∉ C08.ids l ++ H.map (·.id) := fun hm => Nat.lt_irrefl _ (h.lt _ hm)
  have bump : IdsOK { l with nextId := l.nextId + 1 } H :=
    ⟨h.nodup, fun i hi => Nat.lt_succ_of_lt (h.lt i hi)⟩
  have add : ∀ x : Sent Env, x.id = l.nextId → IdsOK { l with sent := l.sent ++ [x], nextId := l.nextId + 1 } H := by
    intro x hx
    have p : (C08.ids { l with sent := l.sent ++ [x], nextId := l.nextId + 1 } ++ H.map (·.id)).Perm
        (l.nextId :: (C08.ids l ++ H.map (·.id))) := by
      simp only [C08.ids, List.map_append, List.map_cons, List.map_nil, hx, List.append_assoc]
      rw [List.perm_iff_count]
      intro a
      simp only [List.count_append, List.count_cons, List.count_nil]
      omega
    refine ⟨p.nodup_iff.mpr (List.nodup_cons.mpr ⟨fresh, h.nodup⟩), fun i hi => ?_⟩
    rcases List.mem_cons.mp (p.subset hi) with rfl | hi
    · exact Nat.lt_succ_self _
    · exact Nat.lt_succ_of_lt (h.lt i hi)
  unfold enqueueRaw
  simp only
  split
  · exact add _ rfl
  · exact add _ rfl
  · exact bump

theorem idsOK_enqueue (cfg : Cfg) {l : Link Env} {H : List (Sent Env)} (h : IdsOK l H) (cf cr : Bool) (d s t : Nat) (e : Env) :
    IdsOK (l.enqueue cfg cf cr d s t e).1 H := by
  have h1 := subPerm_randStep cfg l cf cr
  have i1 : IdsOK (randStep cfg l cf cr).1 H := by
    have := idsOK_of_subPerm (out := []) h (by simpa using h1.1) (Nat.le_of_eq h1.2.symm)
    simpa using this
  have i2 := idsOK_enqueueRaw i1 d s t e
  have := idsOK_of_subPerm (l' := ((randStep cfg l cf cr).1.enqueueRaw d s t e).1.processDeliverables) (out := []) i2
    (by simpa using SubPerm.of_perm (C08.perm_process _)) (Nat.le_refl _)
  have e : (l.enqueue cfg cf cr d s t e).1 = ((randStep cfg l cf cr).1.enqueueRaw d s t e).1.processDeliverables := rfl
  rw [e]
  simpa using this

theorem idsOK_gstep (cfg : Cfg) {l : Link Env} {H : List (Sent Env)} (h : IdsOK l H) (o : GOp) :
    IdsOK (gstep cfg l o).1 (H ++ (gstep cfg l o).2) := by
  cases o with
  | enq cf cr d s t e => simpa [gstep] using idsOK_enqueue cfg h cf cr d s t e
  | tick now =>
    exact idsOK_of_subPerm h (by simpa [gstep] using SubPerm.of_perm (C08.perm_tick l now)) (Nat.le_refl _)
  | drain n =>
    refine idsOK_of_subPerm h (SubPerm.of_perm (C08.perm_drain l n)) (Nat.le_of_eq ?_)
    show l.nextId = (l.drain n).1.nextId
    unfold Link.drain
    split
    · rfl
    · split <;> rfl
  | ctl c =>
    cases c with
    | partition =>
      obtain ⟨_, _, es, _, _, _, _, sA, sB, _, en, _⟩ := Link.explicitPartition_fields l
      have hsp : SubPerm (C08.ids l.explicitPartition.1) (C08.ids l) :=
        subPerm_queues (by rw [es]; exact List.nil_sublist _) sA sB
      exact idsOK_of_subPerm h (by simpa [gstep, Ctl.fn] using hsp) (Nat.le_of_eq en.symm)
    | partitionOneway s d =>
      obtain ⟨_, _, es, _, _, _, _, sA, sB, _, en, _⟩ := Link.partitionOneway_fields l s d
      have hsp : SubPerm (C08.ids (l.partitionOneway s d).1) (C08.ids l) :=
        subPerm_queues (by rw [es]; exact List.filter_sublist) sA sB
      exact idsOK_of_subPerm h (by simpa [gstep, Ctl.fn] using hsp) (Nat.le_of_eq en.symm)
    | repair =>
      exact idsOK_of_subPerm h (by simpa [gstep, Ctl.fn] using subPerm_sent (l := l) (l' := l.explicitRepair) rfl rfl (List.Sublist.refl _)) (Nat.le_refl _)
    | repairOneway s d =>
      have e : C08.ids (l.repairOneway s d) = C08.ids l ∧ (l.repairOneway s d).nextId = l.nextId := by
        unfold Link.repairOneway; split <;> exact ⟨rfl, rfl⟩
      exact idsOK_of_subPerm h (by simp [gstep, Ctl.fn, e.1]; exact SubPerm.refl _) (Nat.le_of_eq e.2.symm)
    | hold =>
      have en : l.hold.nextId = l.nextId := by unfold Link.hold; split <;> rfl
      exact idsOK_of_subPerm h (by simpa [gstep, Ctl.fn] using SubPerm.of_perm (C08.ids_hold l)) (Nat.le_of_eq en.symm)
    | release =>
      exact idsOK_of_subPerm h (by simp [gstep, Ctl.fn, C08.ids_release]; exact SubPerm.refl _) (Nat.le_refl _)
    | manual i =>
      exact idsOK_of_subPerm h (by simp [gstep, Ctl.fn, C08.ids_manual]; exact SubPerm.refl _) (Nat.le_refl _)

theorem idsOK_grun (cfg : Cfg) {l : Link Env} {H : List (Sent Env)} (h : IdsOK l H) (ops : List GOp) :
    IdsOK (grun cfg l ops).1 (H ++ (grun cfg l ops).2) := by
  induction ops generalizing l H with
  | nil => simpa using h
  | cons o ops ih =>
    rw [grun_cons]
    have := ih (idsOK_gstep cfg h o)
    simpa [List.append_assoc] using this

theorem idsOK_init (a b now : Nat) (fm : Bool := false) : IdsOK ({ a := a, b := b, now := now, fixMatured := fm } : Link Env) [] :=
  ⟨by simp [C08.ids], by simp [C08.ids]⟩

end TV.LW
