import TvCore.Props.C15
import TvCore.Props.C04Reach
import TvCore.Proofs.C12ConnectLemmas
/-
  Helper lemmas for `Props/C15World.lean`.

  `Pres w w'` — "the transition from `w` to `w'` keeps everything C15 talks about":
  the configuration and the address family are not written, the DNS table only grows (and stays
  well-formed), hosts are only added and keep their address, a recorded panic stays recorded, and the
  three state invariants

    * `PortsOK`  : at every host the UDP bind ports are pairwise distinct and the listener ports are
                   pairwise distinct,
    * `RangeOK`  : `ephLo ≤ ephHi` and the ephemeral-port cursor of every host lies in that range,
    * `PairsOK`  : a panic is recorded, or at every host the address pairs of the stream table are
                   pairwise distinct

  are carried over.  Every function of the World model is `Pres` (`pres_applyStep` at the end);
  most of them through `pres_setHost`, whose per-host condition `HFr` says that the port lists of the
  bind tables only shrink (`List.Sublist`).
-/
namespace TV.C15
open TV TV.World TV.C04

/-! ### `dns` and `v6` are written by `dnsLookup` only -/

@[simp] theorem dns_tag (w : World) (t : String) : (w.tag t).dns = w.dns := by unfold tag; split <;> rfl
@[simp] theorem dns_panic (w : World) (t : String) : (w.panic t).dns = w.dns := by unfold World.panic; split <;> rfl
@[simp] theorem dns_setHost (w : World) (h : Nat) (f : Host → Host) : (w.setHost h f).dns = w.dns := rfl
@[simp] theorem dns_setChan (w : World) (c : Nat) (f : Chan → Chan) : (w.setChan c f).dns = w.dns := rfl
@[simp] theorem dns_dropSyn (w : World) (id : Nat) : (w.dropSyn id).dns = w.dns := rfl
@[simp] theorem dns_dropEnvs (w : World) (es : List Env) : (w.dropEnvs es).dns = w.dns := by
  unfold dropEnvs
  induction es generalizing w with
  | nil => rfl
  | cons e es ih =>
    simp only [List.foldl_cons]
    rw [ih]
    cases e.msg <;> simp
@[simp] theorem dns_popFail (w : World) : (w.popFail).2.dns = w.dns := by unfold popFail; split <;> rfl
@[simp] theorem dns_popRepair (w : World) : (w.popRepair).2.dns = w.dns := by unfold popRepair; split <;> rfl
@[simp] theorem dns_popDelay (w : World) : (w.popDelay).2.dns = w.dns := by unfold popDelay; split <;> rfl
@[simp] theorem dns_linkEnqueue (w : World) (li s d : Nat) (e : Env) : (w.linkEnqueue li s d e).dns = w.dns := by
  unfold linkEnqueue
  split
  · rfl
  · simp only
    repeat' split
    all_goals simp
@[simp] theorem dns_sendMessage (w : World) (e : Env) : (w.sendMessage e).2.dns = w.dns := by
  unfold sendMessage
  repeat' split
  all_goals simp

@[simp] theorem v6_tag (w : World) (t : String) : (w.tag t).v6 = w.v6 := by unfold tag; split <;> rfl
@[simp] theorem v6_panic (w : World) (t : String) : (w.panic t).v6 = w.v6 := by unfold World.panic; split <;> rfl
@[simp] theorem v6_setHost (w : World) (h : Nat) (f : Host → Host) : (w.setHost h f).v6 = w.v6 := rfl
@[simp] theorem v6_setChan (w : World) (c : Nat) (f : Chan → Chan) : (w.setChan c f).v6 = w.v6 := rfl
@[simp] theorem v6_dropSyn (w : World) (id : Nat) : (w.dropSyn id).v6 = w.v6 := rfl
@[simp] theorem v6_dropEnvs (w : World) (es : List Env) : (w.dropEnvs es).v6 = w.v6 := by
  unfold dropEnvs
  induction es generalizing w with
  | nil => rfl
  | cons e es ih =>
    simp only [List.foldl_cons]
    rw [ih]
    cases e.msg <;> simp
@[simp] theorem v6_popFail (w : World) : (w.popFail).2.v6 = w.v6 := by unfold popFail; split <;> rfl
@[simp] theorem v6_popRepair (w : World) : (w.popRepair).2.v6 = w.v6 := by unfold popRepair; split <;> rfl
@[simp] theorem v6_popDelay (w : World) : (w.popDelay).2.v6 = w.v6 := by unfold popDelay; split <;> rfl
@[simp] theorem v6_linkEnqueue (w : World) (li s d : Nat) (e : Env) : (w.linkEnqueue li s d e).v6 = w.v6 := by
  unfold linkEnqueue
  split
  · rfl
  · simp only
    repeat' split
    all_goals simp
@[simp] theorem v6_sendMessage (w : World) (e : Env) : (w.sendMessage e).2.v6 = w.v6 := by
  unfold sendMessage
  repeat' split
  all_goals simp

/-! ### per-host frame -/

def InRange (lo hi : Nat) (hs : Host) : Prop := lo ≤ hs.nextEph ∧ hs.nextEph ≤ hi

/-- host state `b` compared with `a`: the port lists of both bind tables only shrink, uniqueness of
    the stream table's address pairs is kept, the address is the same, the cursor stays in range. -/
structure HFr (lo hi : Nat) (a b : Host) : Prop where
  u : (uports b).Sublist (uports a)
  t : (tports b).Sublist (tports a)
  s : PairsNodup a.socks → PairsNodup b.socks
  ip : b.ipnum = a.ipnum
  r : InRange lo hi a → InRange lo hi b

theorem HFr.refl (lo hi : Nat) (a : Host) : HFr lo hi a a :=
  ⟨List.Sublist.refl _, List.Sublist.refl _, fun h => h, rfl, fun h => h⟩

theorem HFr.trans {lo hi : Nat} {a b c : Host} (h1 : HFr lo hi a b) (h2 : HFr lo hi b c) : HFr lo hi a c :=
  ⟨h2.u.trans h1.u, h2.t.trans h1.t, fun h => h2.s (h1.s h), h2.ip.trans h1.ip, fun h => h2.r (h1.r h)⟩

theorem HFr.of_eq {lo hi : Nat} {a b : Host} (hu : b.udp = a.udp) (ht : b.tcpBinds = a.tcpBinds)
    (hs : b.socks = a.socks) (hip : b.ipnum = a.ipnum) (hn : b.nextEph = a.nextEph) : HFr lo hi a b := by
  refine ⟨?_, ?_, ?_, hip, ?_⟩
  · unfold uports; rw [hu]; exact List.Sublist.refl _
  · unfold tports; rw [ht]; exact List.Sublist.refl _
  · rw [hs]; exact fun h => h
  · unfold InRange; rw [hn]; exact fun h => h

/-- only the stream table is rewritten. -/
theorem HFr.of_socks {lo hi : Nat} {a : Host} (l : List Sock) (hs : PairsNodup a.socks → PairsNodup l) :
    HFr lo hi a { a with socks := l } :=
  ⟨List.Sublist.refl _, List.Sublist.refl _, hs, rfl, fun h => h⟩

theorem pairsNodup_setAt (l : List Sock) (i : Nat) (f : Sock → Sock) (hp : ∀ s, pairOf (f s) = pairOf s)
    (h : PairsNodup l) : PairsNodup (setAt l i f) :=
  pairwise_setAt l i f _ (fun a b h => by rw [hp]; exact h) (fun a b h => by rw [hp]; exact h) h

theorem pairsNodup_eraseIdx (l : List Sock) (i : Nat) (h : PairsNodup l) : PairsNodup (l.eraseIdx i) :=
  h.sublist (List.eraseIdx_sublist l i)

theorem pairsNodup_closeHalf (l : List Sock) (loc rem : Addr) (h : PairsNodup l) :
    PairsNodup (closeHalfList l loc rem).1 := by
  unfold closeHalfList
  split
  · exact h
  · simp only
    split
    · exact pairsNodup_eraseIdx l _ h
    · exact pairsNodup_setAt l _ _ (fun _ => rfl) h

/-! ### the state invariants and `Pres` -/

def PortsOK (w : World) : Prop := ∀ i, (uports (w.host! i)).Nodup ∧ (tports (w.host! i)).Nodup

def RangeOK (w : World) : Prop :=
  w.cfg.ephLo ≤ w.cfg.ephHi ∧ ∀ i, i < w.hosts.length → InRange w.cfg.ephLo w.cfg.ephHi (w.host! i)

def PairsOK (w : World) : Prop := w.panicked.isSome = true ∨ ∀ i, PairsNodup (w.host! i).socks

/-- `qs` : the names looked up on the way from `w` to `w'` (the name table is written by lookups only). -/
structure PresQ (qs : List String) (w w' : World) : Prop where
  cfg : w'.cfg = w.cfg
  v6 : w'.v6 = w.v6
  dns : w'.dns = w.dns.run qs
  len : w.hosts.length ≤ w'.hosts.length
  ipnum : ∀ i, i < w.hosts.length → (w'.host! i).ipnum = (w.host! i).ipnum
  pan : w.panicked.isSome = true → w'.panicked.isSome = true
  ports : PortsOK w → PortsOK w'
  range : RangeOK w → RangeOK w'
  pairs : PairsOK w → PairsOK w'

/-- a transition that does no lookup. -/
abbrev Pres (w w' : World) : Prop := PresQ [] w w'

theorem PresQ.dnsLe {qs : List String} {w w' : World} (h : PresQ qs w w') : ∀ p ∈ w.dns.names, p ∈ w'.dns.names := by
  rw [h.dns]; exact fun p hp => mem_run qs p hp

theorem PresQ.dnsWF {qs : List String} {w w' : World} (h : PresQ qs w w') (hw : DnsWF w.dns) : DnsWF w'.dns := by
  rw [h.dns]; exact wf_run hw qs

theorem run_append {α : Type} [DecidableEq α] (d : Dns α) (a b : List α) : d.run (a ++ b) = (d.run a).run b := by
  unfold Dns.run; rw [List.foldl_append]

theorem PresQ.comp {q1 q2 : List String} {a b c : World} (h1 : PresQ q1 a b) (h2 : PresQ q2 b c) : PresQ (q1 ++ q2) a c :=
  ⟨h2.cfg.trans h1.cfg, h2.v6.trans h1.v6, by rw [h2.dns, h1.dns, run_append],
   Nat.le_trans h1.len h2.len,
   fun i hi => (h2.ipnum i (Nat.lt_of_lt_of_le hi h1.len)).trans (h1.ipnum i hi),
   fun h => h2.pan (h1.pan h), fun h => h2.ports (h1.ports h), fun h => h2.range (h1.range h),
   fun h => h2.pairs (h1.pairs h)⟩

theorem Pres.refl (w : World) : Pres w w :=
  ⟨rfl, rfl, rfl, Nat.le_refl _, fun _ _ => rfl, fun h => h, fun h => h, fun h => h, fun h => h⟩

theorem Pres.trans {a b c : World} (h1 : Pres a b) (h2 : Pres b c) : Pres a c := PresQ.comp h1 h2

/-- the general constructor: same number of hosts, same addresses, cursors stay in range; what happens
    to the port lists and to the stream tables is said separately. -/
theorem pres_of_parts {w w' : World} (ec : w'.cfg = w.cfg) (ed1 : w'.dns = w.dns) (ed2 : w'.v6 = w.v6)
    (ep : w.panicked.isSome = true → w'.panicked.isSome = true) (el : w'.hosts.length = w.hosts.length)
    (hip : ∀ i, (w'.host! i).ipnum = (w.host! i).ipnum)
    (hr : ∀ i, InRange w.cfg.ephLo w.cfg.ephHi (w.host! i) → InRange w.cfg.ephLo w.cfg.ephHi (w'.host! i))
    (hports : PortsOK w → PortsOK w') (hpairs : PairsOK w → PairsOK w') : Pres w w' := by
  refine ⟨ec, ed2, ed1, Nat.le_of_eq el.symm, fun i _ => hip i, ep, hports, ?_, hpairs⟩
  intro h
  unfold RangeOK
  rw [ec]
  exact ⟨h.1, fun i hi => hr i (h.2 i (by omega))⟩

/-- the same hosts up to a per-host frame. -/
theorem pres_of_hfr {w w' : World} (ec : w'.cfg = w.cfg) (ed1 : w'.dns = w.dns) (ed2 : w'.v6 = w.v6)
    (ep : w.panicked.isSome = true → w'.panicked.isSome = true) (el : w'.hosts.length = w.hosts.length)
    (hf : ∀ i, HFr w.cfg.ephLo w.cfg.ephHi (w.host! i) (w'.host! i)) : Pres w w' := by
  refine pres_of_parts ec ed1 ed2 ep el (fun i => (hf i).ip) (fun i => (hf i).r)
    (fun h i => ⟨(h i).1.sublist (hf i).u, (h i).2.sublist (hf i).t⟩) ?_
  intro h
  rcases h with h | h
  · exact Or.inl (ep h)
  · exact Or.inr (fun i => (hf i).s (h i))

/-- a world that differs in fields other than `hosts`, `cfg`, `dns`, `v6`, `panicked`. -/
theorem pres_of_eq {w w' : World} (eh : w'.hosts = w.hosts) (ec : w'.cfg = w.cfg) (ed : w'.dns = w.dns)
    (ev : w'.v6 = w.v6) (ep : w'.panicked = w.panicked) : Pres w w' := by
  refine pres_of_hfr ec ed ev (by rw [ep]; exact fun h => h) (by rw [eh]) (fun i => ?_)
  unfold host!; rw [eh]; exact HFr.refl _ _ _

theorem pres_setHost (w : World) (h : Nat) (f : Host → Host)
    (hf : HFr w.cfg.ephLo w.cfg.ephHi (w.host! h) (f (w.host! h))) : Pres w (w.setHost h f) := by
  refine pres_of_hfr rfl rfl rfl (fun h => h) (by simp [setHost]) (fun i => ?_)
  rw [host!_setHost_eq]
  split
  · next c => obtain ⟨rfl, _⟩ := c; exact hf
  · exact HFr.refl _ _ _

theorem pres_setHost_eq (w : World) (h : Nat) (f : Host → Host)
    (hu : (f (w.host! h)).udp = (w.host! h).udp) (ht : (f (w.host! h)).tcpBinds = (w.host! h).tcpBinds)
    (hs : (f (w.host! h)).socks = (w.host! h).socks) (hi : (f (w.host! h)).ipnum = (w.host! h).ipnum)
    (hn : (f (w.host! h)).nextEph = (w.host! h).nextEph) : Pres w (w.setHost h f) :=
  pres_setHost w h f (HFr.of_eq hu ht hs hi hn)

theorem pres_tag (w : World) (t : String) : Pres w (w.tag t) := by
  unfold tag; split <;> first | exact Pres.refl _ | exact pres_of_eq rfl rfl rfl rfl rfl

theorem pres_panic (w : World) (t : String) : Pres w (w.panic t) := by
  refine pres_of_hfr (cfg_panic w t) (dns_panic w t) (v6_panic w t) (fun _ => panic_isSome w t) (by rw [hosts_panic]) (fun i => ?_)
  unfold host!; rw [hosts_panic]; exact HFr.refl _ _ _

theorem pres_ite {w a b : World} (c : Prop) [Decidable c] (ha : Pres w a) (hb : Pres w b) :
    Pres w (if c then a else b) := by
  split <;> assumption

theorem pres_foldl {α : Type} (f : World → α → World) (hf : ∀ w x, Pres w (f w x)) (l : List α) (w : World) :
    Pres w (l.foldl f w) := by
  induction l generalizing w with
  | nil => exact Pres.refl w
  | cons x xs ih => exact (hf w x).trans (ih _)

/-! ### functions that leave the host tables alone or only shrink them -/

theorem pres_setChan (w : World) (c : Nat) (f : Chan → Chan) : Pres w (w.setChan c f) := pres_of_eq rfl rfl rfl rfl rfl
theorem pres_dropSyn (w : World) (id : Nat) : Pres w (w.dropSyn id) := pres_of_eq rfl rfl rfl rfl rfl
theorem pres_dropEnvs (w : World) (es : List Env) : Pres w (w.dropEnvs es) :=
  pres_of_eq (hosts_dropEnvs w es) (cfg_dropEnvs w es) (dns_dropEnvs w es) (v6_dropEnvs w es) (panicked_dropEnvs w es)
theorem pres_linkEnqueue (w : World) (li s d : Nat) (e : Env) : Pres w (w.linkEnqueue li s d e) :=
  pres_of_eq (hosts_linkEnqueue w li s d e) (cfg_linkEnqueue w li s d e) (dns_linkEnqueue w li s d e)
    (v6_linkEnqueue w li s d e) (panicked_linkEnqueue w li s d e)
theorem pres_sendMessage (w : World) (e : Env) : Pres w (w.sendMessage e).2 :=
  pres_of_eq (hosts_sendMessage w e) (cfg_sendMessage w e) (dns_sendMessage w e) (v6_sendMessage w e)
    (panicked_sendMessage w e)

theorem pres_links (w : World) (l : List (Link Env)) : Pres w { w with links := l } := pres_of_eq rfl rfl rfl rfl rfl

theorem pres_sendLoopback (w : World) (h : Nat) (e : Env) : Pres w (w.sendLoopback h e) :=
  (pres_setHost_eq w h _ rfl rfl rfl rfl rfl).trans (pres_tag _ _)

theorem pres_netSend (w : World) (h : Nat) (e : Env) : Pres w (w.netSend h e).2 := by
  unfold netSend
  split
  · exact pres_sendLoopback w h e
  · exact pres_sendMessage w e

/-- the cursor stays in the range whatever the scan returns. -/
theorem scan_cursor_inrange (lo hi : Nat) (used : Nat → Bool) :
    ∀ (fuel cur : Nat), lo ≤ cur → cur ≤ hi → lo ≤ (scanPorts lo hi used fuel cur).2 ∧ (scanPorts lo hi used fuel cur).2 ≤ hi
  | 0, cur, h1, h2 => by simp [scanPorts, h1, h2]
  | fuel + 1, cur, h1, h2 => by
    have hlh : lo ≤ hi := Nat.le_trans h1 h2
    rw [scan_succ]
    have hn : lo ≤ (if cur == hi then lo else cur + 1) ∧ (if cur == hi then lo else cur + 1) ≤ hi := by
      by_cases he : cur = hi
      · simp [he, hlh]
      · simp only [beq_iff_eq, he, if_false]; omega
    split
    · exact scan_cursor_inrange lo hi used fuel _ hn.1 hn.2
    · exact hn

theorem pres_assignPort (w : World) (h : Nat) : Pres w (w.assignPort h).2 := by
  unfold assignPort
  simp only
  have h1 : Pres w (w.setHost h (fun hs => { hs with nextEph := (assignEphemeral w.cfg.ephLo w.cfg.ephHi
      (fun p => udpPortUsed (w.host! h) p || tcpPortUsed (w.host! h) p) (w.host! h).nextEph).2 })) := by
    refine pres_setHost w h _ ⟨List.Sublist.refl _, List.Sublist.refl _, fun h => h, rfl, fun hr => ?_⟩
    exact scan_cursor_inrange _ _ _ _ _ hr.1 hr.2
  have h2 := pres_ite (w := w) ((assignEphemeral w.cfg.ephLo w.cfg.ephHi
    (fun p => udpPortUsed (w.host! h) p || tcpPortUsed (w.host! h) p) (w.host! h).nextEph).2 ≤ (w.host! h).nextEph)
    (h1.trans (pres_tag _ "wrap")) h1
  split
  · exact h2
  · exact h2.trans (pres_panic _ _)

theorem pres_removeSock (w : World) (h : Nat) (loc rem : Addr) : Pres w (w.removeSock h loc rem) := by
  unfold removeSock
  split
  · exact Pres.refl w
  · exact (pres_setHost w h _ (HFr.of_socks _ (pairsNodup_eraseIdx _ _))).trans (pres_setChan _ _ _)

theorem pres_closeStreamHalf (w : World) (h : Nat) (loc rem : Addr) : Pres w (w.closeStreamHalf h loc rem) := by
  unfold closeStreamHalf
  simp only
  have h1 : Pres w (w.setHost h fun hs => { hs with socks := (closeHalfList (w.host! h).socks loc rem).1 }) :=
    pres_setHost w h _ (HFr.of_socks _ (pairsNodup_closeHalf _ _ _))
  split
  · exact h1.trans (pres_setChan _ _ _)
  · exact h1

theorem pres_setAtSocks (w : World) (h i : Nat) (f : Sock → Sock) (hp : ∀ s, pairOf (f s) = pairOf s) :
    Pres w (w.setHost h fun hs => { hs with socks := setAt hs.socks i f }) :=
  pres_setHost w h _ (HFr.of_socks _ (pairsNodup_setAt _ _ _ hp))

theorem pres_bumpSeq (w : World) (h i : Nat) :
    Pres w (w.setHost h fun hs => { hs with socks := setAt hs.socks i fun s => { s with nextSendSeq := s.nextSendSeq + 1 } }) :=
  pres_setAtSocks w h i _ (fun _ => rfl)

theorem pres_sockBuffer (w : World) (h i seq : Nat) (seg : Seg) : Pres w (w.sockBuffer h i seq seg).2 := by
  unfold sockBuffer
  simp only
  refine Pres.trans ?_ (pres_setChan _ _ _)
  refine Pres.trans ?_ (pres_setAtSocks _ h i _ (fun _ => rfl))
  refine Pres.trans ?_ (pres_ite _ (pres_tag _ _) (Pres.refl _))
  refine Pres.trans ?_ (pres_ite _ (pres_tag _ _) (Pres.refl _))
  exact pres_ite _ (pres_panic _ _) (Pres.refl _)

theorem hfr_setAtUdp {lo hi : Nat} (hs : Host) (i : Nat) (g : UdpBind → UdpBind) (hg : ∀ b, (g b).port = b.port) :
    HFr lo hi hs { hs with udp := setAt hs.udp i g } := by
  refine ⟨?_, List.Sublist.refl _, fun h => h, rfl, fun h => h⟩
  unfold uports
  rw [map_setAt _ _ _ _ hg]
  exact List.Sublist.refl _

theorem hfr_setAtTcp {lo hi : Nat} (hs : Host) (i : Nat) (g : TcpBind → TcpBind) (hg : ∀ b, (g b).port = b.port) :
    HFr lo hi hs { hs with tcpBinds := setAt hs.tcpBinds i g } := by
  refine ⟨List.Sublist.refl _, ?_, fun h => h, rfl, fun h => h⟩
  unfold tports
  rw [map_setAt _ _ _ _ hg]
  exact List.Sublist.refl _

theorem hfr_mapUdp {lo hi : Nat} (hs : Host) (g : UdpBind → UdpBind) (hg : ∀ b, (g b).port = b.port) :
    HFr lo hi hs { hs with udp := hs.udp.map g } := by
  refine ⟨?_, List.Sublist.refl _, fun h => h, rfl, fun h => h⟩
  simp only [uports, List.map_map]
  have e : List.map ((fun x => x.port) ∘ g) hs.udp = List.map (fun x => x.port) hs.udp :=
    List.map_congr_left (fun b _ => hg b)
  rw [e]
  exact List.Sublist.refl _

theorem hfr_udpReceive {lo hi : Nat} (cap : Nat) (hs : Host) (src dst : Addr) (p : Hex) :
    HFr lo hi hs (udpReceive cap hs src dst p).1 := by
  unfold udpReceive
  split
  · exact HFr.refl _ _ _
  · unfold udpReceiveAt
    split
    · exact HFr.refl _ _ _
    · split
      · exact HFr.refl _ _ _
      · split
        · exact HFr.refl _ _ _
        · exact hfr_setAtUdp hs _ _ (fun _ => rfl)

theorem pres_receive (w : World) (h : Nat) (e : Env) : Pres w (w.receive h e).2 := by
  unfold receive
  simp only
  split
  · split
    · exact (pres_dropSyn _ _).trans (pres_tag _ _)
    · split
      · exact Pres.trans (pres_ite _ (pres_panic _ _) (Pres.refl _)) (pres_setHost _ h _ (hfr_setAtTcp _ _ _ (fun _ => rfl)))
      · exact ((pres_ite _ (pres_panic _ _) (Pres.refl _)).trans (pres_dropSyn _ _)).trans (pres_tag _ _)
  · split
    · exact pres_sockBuffer _ _ _ _ _
    · exact pres_tag _ _
  · split
    · exact pres_sockBuffer _ _ _ _ _
    · exact pres_tag _ _
  · exact (pres_removeSock _ _ _ _).trans (pres_tag _ _)
  · next p _ =>
    refine Pres.trans (pres_setHost w h (fun _ => (udpReceive w.cfg.udpCap (w.host! h) e.src e.dst p).1)
      (hfr_udpReceive _ _ _ _ _)) ?_
    exact pres_ite _ (Pres.refl _) (pres_tag _ _)

theorem pres_deliverTo (w : World) (h : Nat) : Pres w (w.deliverTo h).2 := by
  unfold deliverTo
  simp only
  generalize (List.filter _ _) = idxs
  suffices H : ∀ (l : List Nat) (acc : List Env × World), Pres w acc.2 →
      Pres w (l.foldl (fun (acc : List Env × World) li =>
        match acc.2.links[li]? with
        | none => (acc.1, acc.2)
        | some l =>
          (acc.1 ++ (l.drain (w.host! h).ipnum).2.map (·.msg),
           (l.drain (w.host! h).ipnum).2.foldl (fun w (s : Sent Env) =>
              if (w.receive h s.msg).1 = true then
                (w.receive h s.msg).2.linkEnqueue li s.dst s.src { src := s.msg.dst, dst := s.msg.src, msg := .rst }
              else (w.receive h s.msg).2)
            { acc.2 with links := setAt acc.2.links li (fun _ => (l.drain (w.host! h).ipnum).1) })) acc).2 from
    H idxs ([], w) (Pres.refl w)
  intro l
  induction l with
  | nil => intro acc ha; exact ha
  | cons li ls ih =>
    intro acc ha
    simp only [List.foldl_cons]
    apply ih
    split
    · exact ha
    · refine ha.trans (Pres.trans (pres_links _ _) (pres_foldl _ (fun w s => ?_) _ _))
      split
      · exact (pres_receive _ _ _).trans (pres_linkEnqueue _ _ _ _ _)
      · exact pres_receive _ _ _

/-! ### destructors -/

theorem pres_mgLeaveAll (w : World) (m : Addr) : Pres w (w.mgLeaveAll m) := pres_of_eq rfl rfl rfl rfl rfl

theorem pres_udpUnbind (w : World) (h port : Nat) : Pres w (w.udpUnbind h port) := by
  unfold udpUnbind
  refine Pres.trans (pres_ite _ (Pres.refl _) (pres_panic _ _)) (pres_setHost _ h _ ?_)
  exact ⟨List.filter_sublist.map _, List.Sublist.refl _, fun h => h, rfl, fun h => h⟩

theorem pres_foldl_dropSyn (l : List SynReq) (w : World) : Pres w (l.foldl (fun w s => w.dropSyn s.id) w) :=
  pres_foldl _ (fun w s => pres_dropSyn w s.id) l w

theorem pres_tcpUnbind (w : World) (h port : Nat) : Pres w (w.tcpUnbind h port) := by
  unfold tcpUnbind
  split
  · exact pres_panic _ _
  · refine Pres.trans (pres_setHost _ h _ ?_) (pres_foldl_dropSyn _ _)
    exact ⟨List.Sublist.refl _, List.filter_sublist.map _, fun h => h, rfl, fun h => h⟩

theorem pres_dropRead (w : World) (h : Nat) (r : RdH) : Pres w (w.dropRead h r) := by
  unfold dropRead
  simp only
  refine Pres.trans (pres_setChan w r.chan _) (pres_ite _ ?_ (pres_closeStreamHalf _ _ _ _))
  exact ((pres_netSend _ _ _).trans (pres_removeSock _ _ _ _)).trans (pres_tag _ _)

theorem pres_dropWrite (w : World) (h : Nat) (x : WrH) : Pres w (w.dropWrite h x) := by
  unfold dropWrite
  refine Pres.trans ?_ (pres_closeStreamHalf _ _ _ _)
  split
  · split
    · exact (pres_bumpSeq w h _).trans (pres_netSend _ _ _)
    · exact Pres.refl w
  · exact Pres.refl w

theorem pres_dropObj (w : World) (h : Nat) (o : Obj) : Pres w (w.dropObj h o) := by
  unfold dropObj
  cases o with
  | udp loc stash => exact (pres_mgLeaveAll w _).trans (pres_udpUnbind _ _ _)
  | listener loc => exact pres_tcpUnbind w _ _
  | connecting id loc rem chan fcW =>
    simp only
    have h1 : Pres w { w with syns := setAt w.syns id fun c => { c with rxAlive := false } } := pres_of_eq rfl rfl rfl rfl rfl
    have h3 := (h1.trans (pres_setChan _ chan fun c => { c with rxAlive := false })).trans (pres_tag _ "connectdropped")
    split
    · exact h3.trans (pres_removeSock _ _ _ _)
    · exact h3
  | stream rd wr =>
    simp only
    have h1 : Pres w (match rd with | some r => w.dropRead h r | none => w) := by
      cases rd with
      | some r => exact pres_dropRead w h r
      | none => exact Pres.refl w
    cases wr with
    | some x => exact h1.trans (pres_dropWrite _ h x)
    | none => exact h1

theorem pres_dropAll (w : World) (h : Nat) : Pres w (w.dropAll h) := by
  unfold dropAll
  simp only
  have h1 : Pres w (w.setHost h fun hs => { hs with objs := [], lo := [] }) := pres_setHost_eq w h _ rfl rfl rfl rfl rfl
  refine Pres.trans h1 ?_
  refine Pres.trans (pres_dropEnvs _ (w.host! h).lo) ?_
  exact pres_foldl (fun w (p : Nat × Obj) => w.dropObj h p.2) (fun w p => pres_dropObj w h p.2) _ _

/-! ### the object table is irrelevant -/

theorem pres_setObj (w : World) (h s : Nat) (o : Obj) : Pres w (w.setObj h s o) :=
  pres_setHost_eq w h _ rfl rfl rfl rfl rfl
theorem pres_delObj (w : World) (h s : Nat) : Pres w (w.delObj h s) :=
  pres_setHost_eq w h _ rfl rfl rfl rfl rfl

end TV.C15
