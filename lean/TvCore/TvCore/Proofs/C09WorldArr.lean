import TvCore.Proofs.C09WorldSteps
/-
  C09 end to end, part 6 — arrivals: what `udpPut` / `tableAfter` do to a bind table in terms of the
  ghost arrivals (`arrivalsOf`), and the per-step summary `StepOK`.
-/
namespace TV.C09
open TV TV.World TV.C04 TV.LW

/-! ### one envelope on a bind table -/

/-- **one envelope, the two cases**: either nothing takes it and the table is unchanged, or the first
    bind with the destination port takes it — its bind address accepts the destination, its
    connected-peer filter the source, its queue has room — and gets `(payload, source)` appended. -/
theorem udpPut_cases (cap : Nat) (u : List UdpBind) (e : Env) :
    (taker cap u e = none ∧ udpPut cap u e = u) ∨
    ∃ bi b p, e.msg = .udp p ∧ u.findIdx? (fun b => b.port == e.dst.port) = some bi ∧ u[bi]? = some b ∧
      taker cap u e = some b ∧ b.port = e.dst.port ∧ addrMatches b.bindAddr e.dst = true ∧ filterOk b e.src = true ∧
      b.queue.length < cap ∧ udpPut cap u e = setAt u bi (fun b => { b with queue := b.queue ++ [(p, e.src)] }) := by
  cases hm : e.msg with
  | udp p =>
    by_cases hd : (udpReceive cap (tableHost u) e.src e.dst p).2 = ""
    · obtain ⟨bi, b, hf, hb, hp, ha, hfl, hq, he⟩ := receive_sound cap (tableHost u) e.src e.dst p hd
      have hf' : u.findIdx? (fun b => b.port == e.dst.port) = some bi := hf
      have hlt := C12.findIdx?_lt _ _ _ hf'
      have hb' : b = u.getD bi default := hb
      have hget : u[bi]? = some b := by
        rw [hb', List.getD_eq_getElem?_getD, List.getElem?_eq_getElem hlt]; rfl
      refine Or.inr ⟨bi, b, p, rfl, hf', hget, ?_, hp, ha, hfl, hq, ?_⟩
      · unfold taker
        simp only [hm]
        rw [if_pos hd, C12.find?_of_findIdx? u _ bi hf', hb']
      · unfold udpPut
        simp only [hm]
        show (udpReceive cap (tableHost u) e.src e.dst p).1.udp = _
        rw [he]
        rfl
    · refine Or.inl ⟨?_, ?_⟩
      · unfold taker; simp only [hm]; rw [if_neg hd]
      · unfold udpPut
        simp only [hm]
        show (udpReceive cap (tableHost u) e.src e.dst p).1.udp = _
        rw [drop_isolated cap (tableHost u) e.src e.dst p hd]
        rfl
  | _ =>
    refine Or.inl ⟨?_, ?_⟩
    · unfold taker; simp only [hm]
    · unfold udpPut; simp only [hm]

/-- binds keep everything but their queue. -/
theorem udpPut_noQueue (cap : Nat) (u : List UdpBind) (e : Env) : (udpPut cap u e).map noQueue = u.map noQueue := by
  rcases udpPut_cases cap u e with ⟨_, h⟩ | ⟨bi, b, p, _, _, _, _, _, _, _, _, h⟩
  · rw [h]
  · rw [h]; exact map_setAt _ _ _ _ (fun _ => rfl)

theorem tableAfter_noQueue (cap : Nat) (u : List UdpBind) (es : List Env) :
    (tableAfter cap u es).map noQueue = u.map noQueue := by
  unfold tableAfter
  induction es generalizing u with
  | nil => rfl
  | cons e es ih => simp only [List.foldl_cons]; rw [ih, udpPut_noQueue]

/-- where a queued datagram of the new table comes from: the old table, or this envelope. -/
theorem udpPut_queue (cap : Nat) (u : List UdpBind) (e : Env) :
    ∀ b' ∈ udpPut cap u e, ∀ x ∈ b'.queue,
      (∃ b ∈ u, b.port = b'.port ∧ b.bindAddr = b'.bindAddr ∧ x ∈ b.queue) ∨
      (∃ b, taker cap u e = some b ∧ b.port = b'.port ∧ b.bindAddr = b'.bindAddr ∧ e.msg = .udp x.1 ∧ e.src = x.2) := by
  intro b' hb' x hx
  rcases udpPut_cases cap u e with ⟨_, h⟩ | ⟨bi, b, p, hm, _, hget, ht, _, _, _, _, h⟩
  · rw [h] at hb'
    exact Or.inl ⟨b', hb', rfl, rfl, hx⟩
  · rw [h] at hb'
    rcases C04.mem_setAt_cases hb' with ⟨j, _, hj⟩ | ⟨b0, hb0, rfl⟩
    · exact Or.inl ⟨b', List.mem_of_getElem? hj, rfl, rfl, hx⟩
    · rw [hget] at hb0
      cases hb0
      simp only [List.mem_append, List.mem_singleton] at hx
      rcases hx with hx | hx
      · exact Or.inl ⟨b, List.mem_of_getElem? hget, rfl, rfl, hx⟩
      · exact Or.inr ⟨b, ht, rfl, rfl, by rw [hx]; exact hm, by rw [hx]⟩

/-! ### a list of envelopes -/

theorem arrivalsOf_cons (cap h : Nat) (u : List UdpBind) (pl : Place) (e : Env) (es : List (Place × Env)) :
    arrivalsOf cap h u ((pl, e) :: es) =
      (match taker cap u e with | some b => [⟨h, pl, e, b⟩] | none => []) ++ arrivalsOf cap h (udpPut cap u e) es := rfl

/-- every arrival is one of the envelopes handed over, taken by a bind whose port, bind address and
    peer filter accept it and whose queue had room. -/
theorem arrivalsOf_sound (cap h : Nat) (es : List (Place × Env)) (u : List UdpBind) :
    ∀ a ∈ arrivalsOf cap h u es, a.host = h ∧ (a.place, a.env) ∈ es ∧ isUdp a.env = true ∧
      a.env.dst.port = a.bind.port ∧ addrMatches a.bind.bindAddr a.env.dst = true ∧
      filterOk a.bind a.env.src = true ∧ a.bind.queue.length < cap ∧ noQueue a.bind ∈ u.map noQueue := by
  induction es generalizing u with
  | nil => intro a ha; cases ha
  | cons pe es ih =>
    obtain ⟨pl, e⟩ := pe
    intro a ha
    rw [arrivalsOf_cons] at ha
    rcases List.mem_append.mp ha with ha | ha
    · rcases udpPut_cases cap u e with ⟨ht, _⟩ | ⟨bi, b, p, hm, _, hget, ht, hp, hma, hf, hq, _⟩
      · rw [ht] at ha; cases ha
      · rw [ht] at ha
        simp only [List.mem_singleton] at ha
        subst ha
        refine ⟨rfl, by simp, ?_, hp.symm, hma, hf, hq, List.mem_map.mpr ⟨b, List.mem_of_getElem? hget, rfl⟩⟩
        unfold isUdp; simp only [hm]
    · obtain ⟨a1, a2, a3, a4, a5, a6, a7, a8⟩ := ih (udpPut cap u e) a ha
      refine ⟨a1, List.mem_cons_of_mem _ a2, a3, a4, a5, a6, a7, ?_⟩
      rw [udpPut_noQueue] at a8
      exact a8

/-- at most one arrival per envelope handed over. -/
theorem arrivalsOf_count (cap h : Nat) (es : List (Place × Env)) (u : List UdpBind) (k : Key) :
    ((arrivalsOf cap h u es).map Arrival.key).count k ≤ es.count k := by
  induction es generalizing u with
  | nil => simp [arrivalsOf]
  | cons pe es ih =>
    obtain ⟨pl, e⟩ := pe
    rw [arrivalsOf_cons, List.map_append, List.count_append, List.count_cons]
    have h1 := ih (udpPut cap u e)
    have h2 : ((match taker cap u e with | some b => [(⟨h, pl, e, b⟩ : Arrival)] | none => []).map Arrival.key).count k ≤
        if ((pl, e) == k) = true then 1 else 0 := by
      cases taker cap u e with
      | none => simp
      | some b =>
        simp only [List.map_cons, List.map_nil, Arrival.key, List.count_singleton]
        exact Nat.le_refl _
    omega

/-- where a queued datagram of the table after the hand-over comes from: the table before it, or one of
    the arrivals — on a bind with the same port and bind address. -/
theorem tableAfter_queue (cap h : Nat) (es : List (Place × Env)) (u : List UdpBind) :
    ∀ b' ∈ tableAfter cap u (es.map (·.2)), ∀ x ∈ b'.queue,
      (∃ b ∈ u, b.port = b'.port ∧ b.bindAddr = b'.bindAddr ∧ x ∈ b.queue) ∨
      (∃ a ∈ arrivalsOf cap h u es, a.bind.port = b'.port ∧ a.bind.bindAddr = b'.bindAddr ∧
        a.env.msg = .udp x.1 ∧ a.env.src = x.2) := by
  induction es generalizing u with
  | nil => intro b' hb' x hx; exact Or.inl ⟨b', hb', rfl, rfl, hx⟩
  | cons pe es ih =>
    obtain ⟨pl, e⟩ := pe
    intro b' hb' x hx
    have hb'' : b' ∈ tableAfter cap (udpPut cap u e) (es.map (·.2)) := hb'
    rw [arrivalsOf_cons]
    rcases ih (udpPut cap u e) b' hb'' x hx with ⟨b1, hb1, p1, a1, x1⟩ | ⟨a, ha, p1, a1, m1, s1⟩
    · rcases udpPut_queue cap u e b1 hb1 x x1 with ⟨b0, hb0, p0, a0, x0⟩ | ⟨b0, ht, p0, a0, m0, s0⟩
      · exact Or.inl ⟨b0, hb0, p0.trans p1, a0.trans a1, x0⟩
      · refine Or.inr ⟨⟨h, pl, e, b0⟩, ?_, p0.trans p1, a0.trans a1, m0, s0⟩
        rw [ht]; simp
    · exact Or.inr ⟨a, List.mem_append_right _ ha, p1, a1, m1, s1⟩

end TV.C09
