import TvCore.Proofs.C02FlowLinks
/-
  C02, flow control — host calls that are not one of the three transitions of the direction (a write by
  its write half, a read by its read half, an arrival at its socket) leave the view alone (`Q`), under
  explicit conditions on what the call closes.
-/
namespace TV.C02
open TV TV.World

/-- the address pair `loc / rem` on host `h` is not the reader's socket. -/
def NotRd (D : Dir) (h : Nat) (loc rem : Addr) : Prop := ¬ (h = D.b ∧ loc = D.rem ∧ rem = D.loc)

theorem q_removeSock (D : Dir) (w : World) (h : Nat) (loc rem : Addr) (hn : NotRd D h loc rem) :
    Q D w (w.removeSock h loc rem) := by
  unfold removeSock
  split
  · exact Q.refl D w
  · next i hi =>
    unfold findSock at hi
    have hp := pair_of_findIdx hi
    refine Q.trans (q_setHost D w h _ (fun _ => rfl) (fun hb => ?_)) (q_setChan_tx D _ _)
    exact skv_eraseIdx D _ i (sockP_false_of_pair hp.1 hp.2 (fun hc => hn ⟨hb, hc.1, hc.2⟩))

theorem q_closeStreamHalf (D : Dir) (w : World) (h : Nat) (loc rem : Addr) (hn : NotRd D h loc rem) :
    Q D w (w.closeStreamHalf h loc rem) := by
  unfold closeStreamHalf
  simp only
  have hsk : h = D.b → skv D (closeHalfList (w.host! h).socks loc rem).1 = skv D (w.host! h).socks := by
    intro hb
    unfold closeHalfList
    split
    · rfl
    · next i hi =>
      have hp := pair_of_findIdx hi
      simp only
      split
      · exact skv_eraseIdx D _ i (sockP_false_of_pair hp.1 hp.2 (fun hc => hn ⟨hb, hc.1, hc.2⟩))
      · exact skv_setAt D (fun s => { s with refCt := s.refCt - 1 }) (fun _ => ⟨rfl, rfl, rfl, rfl⟩) _ i
  have h1 : Q D w (w.setHost h (fun hs => { hs with socks := (closeHalfList (w.host! h).socks loc rem).1 })) :=
    q_setHost D w h _ (fun _ => rfl) hsk
  split
  · exact h1.trans (q_setChan_tx D _ _)
  · exact h1

theorem chans_panic (w : World) (t : String) : (w.panic t).chans = w.chans := by unfold World.panic; split <;> rfl
theorem fcs_panic (w : World) (t : String) : (w.panic t).fcs = w.fcs := by unfold World.panic; split <;> rfl

theorem newStream_fst (w : World) (h : Nat) (loc rem : Addr) :
    (w.newStream h loc rem).1 = (w.chans.length, w.fcs.length) := by
  unfold newStream newChan newFcPair
  simp only
  split <;> simp only [chans_panic, fcs_panic]

theorem q_newStream (D : Dir) (w : World) (h : Nat) (loc rem : Addr) : Q D w (w.newStream h loc rem).2 := by
  have h0 : Q D w (if (findSock (w.host! h) loc rem).isSome = true then w.panic "already connected" else w) :=
    Q.ite _ (q_panic D w _) (Q.refl D w)
  unfold newStream
  simp only
  generalize (if (findSock (w.host! h) loc rem).isSome = true then w.panic "already connected" else w) = w0 at h0 ⊢
  have h1 : Q D w0 (w0.newChan w0.cfg.tcpCap).2 := q_newChan D w0 _
  have h2 : Q D (w0.newChan w0.cfg.tcpCap).2 ((w0.newChan w0.cfg.tcpCap).2.newFcPair (w0.newChan w0.cfg.tcpCap).2.cfg.tcpCap).2 :=
    q_newFcPair D _ _
  refine (h0.trans (h1.trans h2)).trans ?_
  intro hp
  exact q_setHost D _ h _ (fun _ => rfl) (fun hb => by subst hb; exact skv_append D _ _ hp.2) hp

theorem q_assignPort (D : Dir) (w : World) (h : Nat) : Q D w (w.assignPort h).2 := by
  unfold assignPort
  simp only
  have h1 := q_setHost_eq D w h (fun hs => { hs with nextEph := (assignEphemeral w.cfg.ephLo w.cfg.ephHi
    (fun p => udpPortUsed (w.host! h) p || tcpPortUsed (w.host! h) p) (w.host! h).nextEph).2 })
    (by intro; rfl) (by intro; rfl)
  have h2 := Q.ite (w := w) ((assignEphemeral w.cfg.ephLo w.cfg.ephHi
    (fun p => udpPortUsed (w.host! h) p || tcpPortUsed (w.host! h) p) (w.host! h).nextEph).2 ≤ (w.host! h).nextEph)
    (h1.tag "wrap") h1
  split
  · exact h2
  · exact h2.trans (q_panic D _ _)

theorem q_world {D : Dir} {w w' : World} (ho : w'.oracle = w.oracle) (hf : w'.fcs = w.fcs) (hl : w'.links = w.links)
    (hh : w'.hosts = w.hosts) (hc : w'.chans = w.chans) : Q D w w' := q_of_eq ho hf hl hh hc

theorem q_udpUnbind (D : Dir) (w : World) (h port : Nat) : Q D w (w.udpUnbind h port) := by
  unfold udpUnbind
  refine Q.trans (b := if (w.host! h).udp.any (·.port == port) = true then w else w.panic "unknown bind") ?_ ?_
  · exact Q.ite _ (Q.refl D _) (q_panic D _ _)
  · exact q_setHost_eq D _ h _ (by intro; rfl) (by intro; rfl)

theorem q_tcpUnbind (D : Dir) (w : World) (h port : Nat) : Q D w (w.tcpUnbind h port) := by
  unfold tcpUnbind
  split
  · exact q_panic D _ _
  · exact (q_setHost_eq D w h _ (by intro; rfl) (by intro; rfl)).trans (Q.foldl _ (fun (w : World) (s : SynReq) => q_dropSyn D w s.id) _ _)

/-- what dropping a read half needs: it is not the direction's (other channel, other socket). -/
def RdSafe (D : Dir) (h : Nat) (r : RdH) : Prop := D.c ≠ r.chan ∧ NotRd D h r.loc r.rem

theorem q_setChan_rx (D : Dir) (w : World) (c : Nat) (h : D.c ≠ c) :
    Q D w (w.setChan c (fun ch => { ch with rxAlive := false })) := q_setChan_ne D w c _ h

theorem q_dropRead (D : Dir) (w : World) (h : Nat) (r : RdH) (hs : RdSafe D h r) : Q D w (w.dropRead h r) := by
  unfold dropRead
  simp only
  refine Q.trans (q_setChan_rx D w r.chan hs.1) (Q.ite _ ?_ (q_closeStreamHalf D _ _ _ _ hs.2))
  exact ((q_netSend_other D _ h _ (oursE_rst D _ _)).trans (q_removeSock D _ _ _ _ hs.2)).tag _

theorem skv_bump (D : Dir) (l : List Sock) (i : Nat) :
    skv D (setAt l i (fun s => { s with nextSendSeq := s.nextSendSeq + 1 })) = skv D l :=
  skv_setAt D (fun s => { s with nextSendSeq := s.nextSendSeq + 1 }) (fun _ => ⟨rfl, rfl, rfl, rfl⟩) l i

theorem q_bump (D : Dir) (w : World) (h i : Nat) :
    Q D w (w.setHost h (fun hs => { hs with socks := setAt hs.socks i (fun s => { s with nextSendSeq := s.nextSendSeq + 1 }) })) :=
  q_setHost D w h _ (fun _ => rfl) (fun _ => skv_bump D _ i)

theorem q_dropWrite (D : Dir) (w : World) (h : Nat) (x : WrH) (hs : NotRd D h x.loc x.rem) : Q D w (w.dropWrite h x) := by
  unfold dropWrite
  refine Q.trans ?_ (q_closeStreamHalf D _ _ _ _ hs)
  split
  · split
    · exact (q_bump D w h _).trans (q_netSend_other D _ _ _ (oursE_fin D _ _ _))
    · exact Q.refl D w
  · exact Q.refl D w

/-- what dropping a socket object needs. -/
def ObjSafe (D : Dir) (h : Nat) : Obj → Prop
  | .udp _ _ => True
  | .listener _ => True
  | .connecting _ loc rem chan _ => D.c ≠ chan ∧ NotRd D h loc rem
  | .stream rd wr => (∀ r, rd = some r → RdSafe D h r) ∧ (∀ x, wr = some x → NotRd D h x.loc x.rem)

theorem q_dropObj (D : Dir) (w : World) (h : Nat) (o : Obj) (hs : ObjSafe D h o) : Q D w (w.dropObj h o) := by
  unfold dropObj
  cases o with
  | udp loc stash => exact (q_world rfl rfl rfl rfl rfl : Q D w (w.mgLeaveAll _)).trans (q_udpUnbind D _ _ _)
  | listener loc => exact q_tcpUnbind D w h loc.port
  | connecting id loc rem chan fcW =>
    simp only
    have h1 : Q D w ((({ w with syns := setAt w.syns id (fun c => { c with rxAlive := false }) } : World).setChan chan
        (fun c => { c with rxAlive := false })).tag "connectdropped") :=
      (((q_world rfl rfl rfl rfl rfl : Q D w { w with syns := setAt w.syns id (fun c => { c with rxAlive := false }) }).trans
        (q_setChan_rx D _ _ hs.1)).tag _)
    split
    · exact h1.trans (q_removeSock D _ _ _ _ hs.2)
    · exact h1
  | stream rd wr =>
    cases rd with
    | none =>
      cases wr with
      | none => exact Q.refl D w
      | some x => exact q_dropWrite D w h x (hs.2 x rfl)
    | some r =>
      cases wr with
      | none => exact q_dropRead D w h r (hs.1 r rfl)
      | some x => exact (q_dropRead D w h r (hs.1 r rfl)).trans (q_dropWrite D _ h x (hs.2 x rfl))

/-- all tasks of a host other than the reader's are dropped. -/
theorem q_dropAll (D : Dir) (w : World) (h : Nat) (hb : h ≠ D.b) (hs : ∀ p ∈ (w.host! h).objs, ObjSafe D h p.2) :
    Q D w (w.dropAll h) := by
  unfold dropAll
  simp only
  refine Q.trans ?_ (Q.foldl_mem _ _ (fun p hp w' => q_dropObj D w' h p.2 (hs p (List.mem_mergeSort.mp hp))) _)
  refine Q.trans ?_ (q_dropEnvs D _ _)
  exact q_setHost D w h _ (fun e => absurd e hb) (fun e => absurd e hb)

/-! ### host calls -/

theorem q_ite_snd {D : Dir} {α : Type} (c : Prop) [Decidable c] (w : World) (a b : α × World)
    (ha : Q D w a.2) (hb : Q D w b.2) : Q D w (if c then a else b).2 := by
  split <;> assumption

theorem q_opUdpBind (D : Dir) (w : World) (h s : Nat) (a : Addr) : Q D w (w.opUdpBind h s a).1 := by
  unfold opUdpBind
  split
  · exact Q.refl D w
  · simp only
    have s1 : Q D w (if (a.port == 0) = true then w.assignPort h else (some a.port, w)).2 :=
      q_ite_snd _ _ _ _ (q_assignPort D w h) (Q.refl D w)
    generalize (if (a.port == 0) = true then w.assignPort h else (some a.port, w)) = r at s1 ⊢
    split
    · exact s1
    · split
      · exact s1.tag _
      · refine (s1.trans ?_).trans (q_setObj D _ _ _ _)
        exact q_setHost_eq D _ h _ (by intro; rfl) (by intro; rfl)

theorem q_opTcpBind (D : Dir) (w : World) (h s : Nat) (a : Addr) : Q D w (w.opTcpBind h s a).1 := by
  unfold opTcpBind
  split
  · exact Q.refl D w
  · simp only
    have s1 : Q D w (if (a.port == 0) = true then w.assignPort h else (some a.port, w)).2 :=
      q_ite_snd _ _ _ _ (q_assignPort D w h) (Q.refl D w)
    generalize (if (a.port == 0) = true then w.assignPort h else (some a.port, w)) = r at s1 ⊢
    split
    · exact s1
    · split
      · exact s1.tag _
      · refine (s1.trans ?_).trans (q_setObj D _ _ _ _)
        exact q_setHost_eq D _ h _ (by intro; rfl) (by intro; rfl)

theorem q_udpFanout (D : Dir) (h : Nat) (src : Addr) (p : Hex) (loopOk : Addr → Bool) (ds : List Addr) (w : World) :
    Q D w (udpFanout w h src p loopOk ds).1 := by
  induction ds generalizing w with
  | nil => exact Q.refl D w
  | cons d ds ih =>
    unfold udpFanout
    split
    · exact (Q.ite _ (q_sendLoopback_other D w h _ (fun hc => by rw [oursE_udp] at hc; exact absurd hc.2 (by simp)))
        (Q.refl D w)).trans (ih _)
    · simp only
      have h1 := q_sendMessage_other D w { src := src, dst := d, msg := .udp p } (oursE_udp D _ _ _)
      split
      · exact h1.trans (ih _)
      · exact h1

theorem q_opUdpSend (D : Dir) (w : World) (h s : Nat) (dst : Addr) (p : Hex) : Q D w (w.opUdpSend h s dst p).1 := by
  unfold opUdpSend
  split
  · simp only
    repeat' split
    all_goals first
      | exact Q.refl D w
      | exact (q_tag D w "bcast").trans (q_udpFanout D h _ p _ _ _)
      | exact (q_tag D w "mcast").trans (q_udpFanout D h _ p _ _ _)
      | exact q_netSend_other D w h _ (oursE_udp D _ _ _)
  · exact Q.refl D w

theorem q_setUdp (D : Dir) (w : World) (h : Nat) (g : List UdpBind → List UdpBind) :
    Q D w (w.setHost h (fun hs => { hs with udp := g hs.udp })) :=
  q_setHost_eq D w h _ (by intro; rfl) (by intro; rfl)

theorem q_opUdpTryRecv (D : Dir) (w : World) (h s n : Nat) : Q D w (w.opUdpTryRecv h s n).1 := by
  unfold opUdpTryRecv
  split
  · split
    · exact q_setObj D _ _ _ _
    · split
      · exact Q.refl D w
      · simp only
        split
        · exact Q.refl D w
        · exact q_setHost_eq D w h _ (by intro; rfl) (by intro; rfl)
  · exact Q.refl D w

theorem q_opUdpReadable (D : Dir) (w : World) (h s : Nat) : Q D w (w.opUdpReadable h s).1 := by
  unfold opUdpReadable
  split
  · split
    · exact Q.refl D w
    · split
      · exact Q.refl D w
      · simp only
        split
        · exact Q.refl D w
        · exact (q_setHost_eq D w h _ (by intro; rfl) (by intro; rfl)).trans (q_setObj D _ _ _ _)
  · exact Q.refl D w

theorem q_opUdpRecv (D : Dir) (w : World) (h s n : Nat) : Q D w (w.opUdpRecv h s n).1 := by
  unfold opUdpRecv
  simp only
  split
  · exact (q_opUdpReadable D w h s).trans (q_opUdpTryRecv D _ _ _ _)
  · exact q_opUdpReadable D w h s

theorem q_opUdpConnect (D : Dir) (w : World) (h s : Nat) (dst : Addr) : Q D w (w.opUdpConnect h s dst).1 := by
  unfold opUdpConnect
  split
  · exact q_setHost_eq D w h _ (by intro; rfl) (by intro; rfl)
  · exact Q.refl D w

theorem q_opUdpSetBcast (D : Dir) (w : World) (h s : Nat) (on : Bool) : Q D w (w.opUdpSetBcast h s on).1 := by
  unfold opUdpSetBcast
  split
  · exact q_setHost_eq D w h _ (by intro; rfl) (by intro; rfl)
  · exact Q.refl D w

theorem q_opUdpSetMloop (D : Dir) (w : World) (h s : Nat) (on : Bool) : Q D w (w.opUdpSetMloop h s on).1 := by
  unfold opUdpSetMloop
  split
  · exact q_setHost_eq D w h _ (by intro; rfl) (by intro; rfl)
  · exact Q.refl D w

theorem q_opUdpJoin (D : Dir) (w : World) (h s : Nat) (g iface : Ip) : Q D w (w.opUdpJoin h s g iface).1 := by
  unfold opUdpJoin
  repeat' split
  all_goals first | exact Q.refl D w | exact q_world rfl rfl rfl rfl rfl

theorem q_opUdpLeave (D : Dir) (w : World) (h s : Nat) (g iface : Ip) : Q D w (w.opUdpLeave h s g iface).1 := by
  unfold opUdpLeave
  simp only
  repeat' split
  all_goals first | exact Q.refl D w | exact q_world rfl rfl rfl rfl rfl

/-- what polling a pending connect may close: not the direction's channel / socket. -/
def SlotSafe (D : Dir) (w : World) (h s : Nat) : Prop :=
  ∀ id loc rem chan fcW, w.getObj h s = some (.connecting id loc rem chan fcW) → D.c ≠ chan ∧ NotRd D h loc rem

theorem q_connectPoll (D : Dir) (w : World) (h s : Nat) (hs : SlotSafe D w h s) : Q D w (w.connectPoll h s).1 := by
  unfold connectPoll
  split
  · next id loc rem chan fcW ho =>
    have hc := hs id loc rem chan fcW ho
    split
    · exact Q.refl D w
    · exact q_setObj D _ _ _ _
    · simp only
      refine Q.tag ?_ _
      split
      · exact ((q_delObj D w h s).trans (q_setChan_rx D _ _ hc.1)).trans (q_removeSock D _ _ _ _ hc.2)
      · exact ((q_delObj D w h s).trans (q_setChan_rx D _ _ hc.1)).tag _
  · exact Q.refl D w

theorem getObj_setObj_cases (w : World) (h s : Nat) (o : Obj) :
    (w.setObj h s o).getObj h s = some o ∨ (w.setObj h s o).getObj h s = none := by
  by_cases hh : h < w.hosts.length
  · exact Or.inl (getObj_setObj_self w h s o hh)
  · right
    have e : (w.setObj h s o).host! h = default := by
      unfold World.host! World.setObj World.setHost
      rw [List.getD_eq_getElem?_getD, List.getElem?_eq_none (by simp only [setAt_length]; omega)]
      rfl
    unfold World.getObj
    rw [e]
    rfl

/-- the connect does not take the reader's own port for a connection to the writer's address. -/
def ConnSafe (D : Dir) (w : World) (h : Nat) (dst : Addr) : Prop :=
  ∀ p, (w.assignPort h).1 = some p → NotRd D h { ip := if dst.ip.isLoopback then dst.ip else .host h, port := p } dst

theorem q_opTcpConnect (D : Dir) (w : World) (h s : Nat) (dst : Addr) (hs : ConnSafe D w h dst) :
    Q D w (w.opTcpConnect h s dst).1 := by
  unfold opTcpConnect
  simp only
  have s1 : Q D w (w.assignPort h).2 := q_assignPort D w h
  split
  · exact s1
  · next p hp =>
    have hnr := hs p hp
    generalize ({ ip := if dst.ip.isLoopback = true then dst.ip else Ip.host h, port := p } : Addr) = loc at hnr ⊢
    split
    · exact s1.trans (q_panic D _ _)
    · have s2 := s1.trans (q_newStream D (w.assignPort h).2 h loc dst)
      have hfst := newStream_fst (w.assignPort h).2 h loc dst
      generalize ((w.assignPort h).2.newStream h loc dst) = ns at s2 hfst ⊢
      have s3 : Q D w { ns.2 with syns := ns.2.syns ++ [({} : SynCell)] } := s2.trans (q_world rfl rfl rfl rfl rfl)
      generalize hw3 : ({ ns.2 with syns := ns.2.syns ++ [({} : SynCell)] } : World) = w3 at s3 ⊢
      have s4 := s3.trans (q_netSend_other D w3 h { src := loc, dst := dst, msg := .syn ns.2.syns.length } (oursE_syn D _ _ _))
      -- the new channel is not the direction's
      have hch : Q D w (w3.netSend h { src := loc, dst := dst, msg := .syn ns.2.syns.length }).2 →
          Q D w ((w3.netSend h { src := loc, dst := dst, msg := .syn ns.2.syns.length }).2.setChan ns.1.1
            (fun c => { c with rxAlive := false })) := by
        intro q hp0
        have hc1 : D.c < (w.assignPort h).2.chans.length := (s1.pre hp0).cIn
        have : D.c ≠ ns.1.1 := by rw [hfst]; exact Nat.ne_of_lt hc1
        exact (q.trans (q_setChan_rx D _ _ this)) hp0
      split
      · refine Q.tag ?_ "refused"
        have s5 := hch s4
        split
        · exact s5.trans (q_removeSock D _ _ _ _ hnr)
        · exact s5.tag _
      · have s5 := s4.trans (q_setObj D (w3.netSend h { src := loc, dst := dst, msg := .syn ns.2.syns.length }).2 h s
          (.connecting ns.2.syns.length loc dst ns.1.1 ns.1.2))
        intro hp0
        have hc1 : D.c < (w.assignPort h).2.chans.length := (s1.pre hp0).cIn
        have hne : D.c ≠ ns.1.1 := by rw [hfst]; exact Nat.ne_of_lt hc1
        have hq := q_connectPoll D ((w3.netSend h { src := loc, dst := dst, msg := .syn ns.2.syns.length }).2.setObj h s
          (.connecting ns.2.syns.length loc dst ns.1.1 ns.1.2)) h s (by
            intro id loc' rem' chan fcW ho
            rcases getObj_setObj_cases (w3.netSend h { src := loc, dst := dst, msg := .syn ns.2.syns.length }).2 h s
                (.connecting ns.2.syns.length loc dst ns.1.1 ns.1.2) with e | e
            · rw [e] at ho
              cases ho
              exact ⟨hne, hnr⟩
            · rw [e] at ho; cases ho) (s5.pre hp0)
        exact ⟨hq.1, hq.2.trans (s5.view hp0)⟩

theorem q_acceptLoop (D : Dir) (w : World) (h port : Nat) : Q D w (w.acceptLoop h port).1 := by
  unfold acceptLoop
  split
  · exact q_panic D _ _
  · simp only
    have h1 := q_setHost_eq D w h (fun hs => { hs with tcpBinds := setAt hs.tcpBinds ‹Nat› (fun b => { b with deque :=
      (acceptPick w.synAlive ((w.host! h).tcpBinds.getD ‹Nat› default).deque).2 }) }) (by intro; rfl) (by intro; rfl)
    split
    · exact (Q.ite _ (h1.tag _) h1).trans (q_world rfl rfl rfl rfl rfl)
    · exact Q.ite _ (h1.tag _) h1

theorem q_opTcpAccept (D : Dir) (w : World) (h ls s : Nat) : Q D w (w.opTcpAccept h ls s).1 := by
  unfold opTcpAccept
  split
  · next lloc _ =>
    simp only
    have s1 := q_acceptLoop D w h lloc.port
    generalize w.acceptLoop h lloc.port = r at s1 ⊢
    repeat' split
    all_goals first
      | exact s1
      | exact s1.trans (q_panic D _ _)
      | exact (s1.trans (q_newStream D _ _ _ _)).trans (q_panic D _ _)
      | exact (s1.trans (q_newStream D _ _ _ _)).trans (q_setObj D _ _ _ _)
  · exact Q.refl D w

/-- the write half `x` held on host `h` is a write half of the direction. -/
def Mine (D : Dir) (h : Nat) (x : WrH) : Prop :=
  x.loc = D.loc ∧ x.rem = D.rem ∧ (isSame D.loc D.rem = true → h = D.b)

theorem q_netSend_notmine (D : Dir) (w : World) (h : Nat) (x : WrH) (q : Nat) (p : Hex) (hm : ¬ Mine D h x) :
    Q D w (w.netSend h { src := x.loc, dst := x.rem, msg := .data q p }).2 := by
  by_cases hpair : x.loc = D.loc ∧ x.rem = D.rem
  · have hsame : isSame D.loc D.rem = true ∧ h ≠ D.b := by
      refine ⟨?_, fun hb => hm ⟨hpair.1, hpair.2, fun _ => hb⟩⟩
      cases hi : isSame D.loc D.rem with
      | true => rfl
      | false => exact absurd ⟨hpair.1, hpair.2, fun e => by rw [hi] at e; cases e⟩ hm
    unfold netSend
    simp only [hpair.1, hpair.2, hsame.1, if_true]
    exact q_sendLoopback_other D w h _ (fun hc => hsame.2 hc.1)
  · apply q_netSend_other
    unfold oursE
    simp only
    cases h1 : (x.loc == D.loc) with
    | false => simp
    | true =>
      cases h2 : (x.rem == D.rem) with
      | false => simp
      | true => exact absurd ⟨by simpa using h1, by simpa using h2⟩ hpair

/-- a write by a write half that is not the direction's (other cell, other pair). -/
theorem q_tryWrite (D : Dir) (w : World) (h : Nat) (x : WrH) (p : Hex) (hf : D.f ≠ x.fc) (hm : ¬ Mine D h x) :
    Q D w (w.tryWrite h x p).1 := by
  unfold tryWrite
  simp only
  have h1 : Q D w { w with fcs := setAt w.fcs x.fc (· - 1) } := q_fcs_ne D w x.fc _ hf
  repeat' split
  all_goals first
    | exact Q.refl D w
    | exact q_tag D w _
    | exact h1
    | exact (h1.trans (q_bump D _ h _)).trans (q_netSend_notmine D _ h x _ p hm)

theorem q_opTcpShutdown (D : Dir) (w : World) (h s : Nat) : Q D w (w.opTcpShutdown h s).1 := by
  unfold opTcpShutdown
  split
  · split
    · exact Q.refl D w
    · split
      · exact Q.refl D w
      · simp only
        have h1 := fun (i q : Nat) (a b : Addr) =>
          (q_bump D w h i).trans (q_netSend_other D _ h { src := a, dst := b, msg := .fin q } (oursE_fin D _ _ _))
        split
        · exact (h1 _ _ _ _).trans (q_setObj D _ _ _ _)
        · exact h1 _ _ _ _
  · exact Q.refl D w

end TV.C02
