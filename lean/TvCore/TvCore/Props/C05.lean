import TvCore.Model.Ops
/-
  C05 — virtual clocks advance exactly one tick per step and agree with each other.

  Host-level clock functions of the World model (`hostStepEnd`, `hostTurnBegin`, `hostSleep`,
  `elapsedNow`, `simNow`, `epochNow`): `tick` is the configured tick, `A = ceilMs tick` is what a
  paused tokio runtime's clock really advances per step (millisecond timer granularity).
-/
namespace TV.C05
open TV TV.World

/-- **One tick per step, for every host**: running, finished or crashed, a host's timer advances by
    exactly the configured tick at the end of a step. -/
theorem step_adds_tick (tick A : Nat) (hs : Host) : (hostStepEnd tick A hs).elapsed = hs.elapsed + tick := rfl

/-- `j` step boundaries in a row (nothing else touches the timer between them). -/
def advance (tick A : Nat) : Nat → Host → Host
  | 0, hs => hs
  | j + 1, hs => advance tick A j (hostStepEnd tick A hs)

theorem advance_elapsed (tick A : Nat) : ∀ (j : Nat) (hs : Host), (advance tick A j hs).elapsed = hs.elapsed + j * tick
  | 0, hs => by simp [advance]
  | j + 1, hs => by
    rw [advance, advance_elapsed tick A j, step_adds_tick, Nat.succ_mul]; omega

/-- a host whose software keeps running (it did not return in this step). -/
theorem stepEnd_keeps_running (tick A : Nat) (hs : Host) (hr : hs.running = true) (he : hs.exited = false) :
    (hostStepEnd tick A hs).running = true ∧ (hostStepEnd tick A hs).exited = false := by
  simp [hostStepEnd, hr, he]

theorem advance_winStart (tick A : Nat) : ∀ (j : Nat) (hs : Host), hs.running = true → hs.exited = false →
    (advance tick A j hs).winStart = hs.winStart + j * A
  | 0, hs, _, _ => by simp [advance]
  | j + 1, hs, h, he => by
    have hk := stepEnd_keeps_running tick A hs h he
    rw [advance, advance_winStart tick A j _ hk.1 hk.2]
    simp [hostStepEnd, h, Nat.succ_mul]; omega

theorem advance_wake (tick A : Nat) : ∀ (j : Nat) (hs : Host), (advance tick A j hs).wake = hs.wake
  | 0, _ => rfl
  | j + 1, hs => by rw [advance, advance_wake tick A j]; rfl

/-- The sim clock and every host clock after `k` steps: `k · tick` on top of where they started
    (crash and bounce do not touch the timer). -/
theorem elapsed_after_k (tick A k : Nat) (hs : Host) : (advance tick A k hs).elapsed = hs.elapsed + k * tick :=
  advance_elapsed tick A k hs

/-- **Mutual consistency**: simulation time = host time + the simulation time at which the host
    was registered; epoch time = configured epoch + simulation time. -/
theorem consistency (epoch : Nat) (hs : Host) :
    simNow hs = hs.startOffset + elapsedNow hs ∧ epochNow epoch hs = epoch + simNow hs := ⟨rfl, rfl⟩

/-- inside a window the scripted task's Instant lies in `[winStart, winStart + A)`. -/
def InWindow (A : Nat) (hs : Host) : Prop := hs.winStart ≤ hs.hnow ∧ hs.hnow < hs.winStart + A

theorem turnBegin_inWindow (A : Nat) (hA : 0 < A) (hs : Host) : InWindow A (hostTurnBegin A hs) := by
  unfold hostTurnBegin InWindow
  cases hs.wake with
  | none => simp; omega
  | some W =>
    simp only
    by_cases h1 : W ≤ hs.winStart
    · simp [h1]; omega
    · by_cases h2 : W < hs.winStart + A
      · simp [h1, h2]; omega
      · simp [h1, h2]; omega

theorem sleep_inWindow (A : Nat) (hs : Host) (ms : Nat) (h : InWindow A hs) : InWindow A (hostSleep A hs ms).1 := by
  unfold hostSleep InWindow at *
  by_cases h1 : hs.hnow + ms * 1000000 < hs.winStart + A
  · simp [h1]; omega
  · simp [h1]; exact h

/-- **Window**: what host code observes during a step lies inside that step's window
    `[elapsed, elapsed + tick]` — for whole-millisecond ticks (`A = tick`). -/
theorem window (tick : Nat) (hs : Host) (h : InWindow tick hs) :
    hs.elapsed ≤ elapsedNow hs ∧ elapsedNow hs ≤ hs.elapsed + tick := by
  unfold elapsedNow; unfold InWindow at h; omega

/-- **Monotone** across a step boundary (whole-millisecond ticks): what is observed in the next
    window is not smaller than anything observed in this one. -/
theorem monotone_across_step (tick : Nat) (hs hs' : Host) (h : InWindow tick hs)
    (h' : hs'.elapsed = hs.elapsed + tick) (hw : hs'.winStart ≤ hs'.hnow) : elapsedNow hs ≤ elapsedNow hs' := by
  unfold elapsedNow; unfold InWindow at h; omega

/-- A sleep that ends inside the current window: observed exactly `ms` milliseconds later. -/
theorem sleep_exact_in_window (A : Nat) (hs : Host) (ms : Nat) (h : hs.winStart ≤ hs.hnow)
    (hin : (hostSleep A hs ms).2 = true) :
    elapsedNow (hostSleep A hs ms).1 = elapsedNow hs + ms * 1000000 := by
  unfold hostSleep at hin ⊢
  by_cases h1 : hs.hnow + ms * 1000000 < hs.winStart + A
  · simp only [h1, if_true]; unfold elapsedNow; simp only; omega
  · simp [h1] at hin

/-- **Timers in general**: a sleep of `ms` milliseconds that suspends the task and is woken `j`
    step boundaries later is observed at `start + ms + j·tick − j·A`: exact iff the runtime's clock
    and the host timer advance by the same amount per step. -/
theorem sleep_across_steps (tick A : Nat) (hs : Host) (ms j : Nat) (hr : hs.running = true) (hx : hs.exited = false)
    (h : hs.winStart ≤ hs.hnow)
    (hsusp : (hostSleep A hs ms).2 = false)
    (hlo : hs.winStart + j * A ≤ hs.hnow + ms * 1000000)
    (hhi : hs.hnow + ms * 1000000 < hs.winStart + (j + 1) * A) :
    let woke := hostTurnBegin A (advance tick A j (hostSleep A hs ms).1)
    woke.wake = none ∧ elapsedNow woke + j * A = elapsedNow hs + ms * 1000000 + j * tick := by
  intro woke
  have hs1 : (hostSleep A hs ms).1 = { hs with wake := some (hs.hnow + ms * 1000000) } := by
    unfold hostSleep at hsusp ⊢
    by_cases h1 : hs.hnow + ms * 1000000 < hs.winStart + A
    · simp [h1] at hsusp
    · simp [h1]
  have hw : (advance tick A j (hostSleep A hs ms).1).wake = some (hs.hnow + ms * 1000000) := by
    rw [advance_wake, hs1]
  have hT : (advance tick A j (hostSleep A hs ms).1).winStart = hs.winStart + j * A := by
    rw [advance_winStart tick A j _ (by rw [hs1]; exact hr) (by rw [hs1]; exact hx), hs1]
  have hE : (advance tick A j (hostSleep A hs ms).1).elapsed = hs.elapsed + j * tick := by
    rw [advance_elapsed, hs1]
  have hsm : (j + 1) * A = j * A + A := Nat.succ_mul j A
  show (hostTurnBegin A _).wake = none ∧ elapsedNow (hostTurnBegin A _) + j * A = _
  unfold hostTurnBegin
  simp only [hw, hT]
  by_cases h1 : hs.hnow + ms * 1000000 ≤ hs.winStart + j * A
  · simp only [h1, if_true, true_and]
    unfold elapsedNow
    simp only [hE]
    omega
  · have h2 : hs.hnow + ms * 1000000 < hs.winStart + j * A + A := by omega
    simp only [h1, if_false, h2, if_true, true_and]
    unfold elapsedNow
    simp only [hE]
    omega

/-- **Whole-millisecond ticks**: the timer fires at exactly the requested virtual instant. -/
theorem sleep_exact_whole_ms (tick : Nat) (hs : Host) (ms j : Nat) (hr : hs.running = true) (hx : hs.exited = false)
    (h : hs.winStart ≤ hs.hnow) (hsusp : (hostSleep tick hs ms).2 = false)
    (hlo : hs.winStart + j * tick ≤ hs.hnow + ms * 1000000)
    (hhi : hs.hnow + ms * 1000000 < hs.winStart + (j + 1) * tick) :
    elapsedNow (hostTurnBegin tick (advance tick tick j (hostSleep tick hs ms).1)) = elapsedNow hs + ms * 1000000 := by
  have := (sleep_across_steps tick tick hs ms j hr hx h hsusp hlo hhi).2
  omega

theorem ceilMs_whole (k : Nat) : ceilMs (k * 1000000) = k * 1000000 := by
  unfold ceilMs; omega

/-- Full statement of the timer clause for a given tick: a 2 ms sleep started at the beginning of a
    window is observed to last 2 ms. -/
def TimerStatement (tick : Nat) : Prop :=
  let A := ceilMs tick
  let hs : Host := { ipnum := 1, nextEph := 1 }
  let s := (hostSleep A hs 2).1
  let woke := hostTurnBegin A (hostStepEnd tick A s)
  elapsedNow woke = elapsedNow hs + 2000000

/-- **F-C05-1**: with a tick of 1.5 ms the runtime's clock advances 2 ms per step but the host timer
    1.5 ms: `sleep(2 ms)` returns at `elapsed() = 1.5 ms`. -/
theorem witness_submilli : ¬ TimerStatement 1500000 := by unfold TimerStatement; decide

theorem timer_whole_ms_instance : TimerStatement 2000000 := by unfold TimerStatement; decide

end TV.C05
